"""ir.modules.insert(i, m) with m already in ir.modules does not put m where
list.insert puts it (and where ir.modules[i:i] = [m] puts it).

Run: VERIF_REPO=/tmp/hunt3_C16 /venv/bin/python repro_1.py
"""
import os
import sys

os.environ.setdefault("VERIF_REPO", "/tmp/hunt3_C16")
sys.path.insert(0, "/tmp/mutkit")
import gtirb_from_repo  # noqa: E402

gtirb = gtirb_from_repo.load()


def fresh(n):
    ir = gtirb.IR()
    mods = [gtirb.Module(name="m%d" % k, ir=ir) for k in range(n)]
    return ir, mods


def oracle(before, i, x):
    """list.insert on the same elements, then 'moved rather than duplicated':
    the occurrence the call did not create is dropped."""
    t = list(before)
    marker = object()
    t.insert(i, marker)
    t = [e for e in t if e is not x]
    return [x if e is marker else e for e in t]


bad = []
for n in (2, 3, 4):
    for src in range(n):
        for i in range(-n - 1, n + 2):
            ir, mods = fresh(n)
            before = list(ir.modules)
            x = mods[src]
            want = oracle(before, i, x)
            ir.modules.insert(i, x)
            got = list(ir.modules)
            # the same request spelled as the slice assignment the Python
            # documentation defines insert by
            ir2, mods2 = fresh(n)
            ir2.modules[i:i] = [mods2[src]]
            via_slice = [m.name for m in ir2.modules]
            if got != want or [m.name for m in got] != via_slice:
                bad.append(
                    "%s.insert(%d, %s) -> %s, expected %s; [%d:%d] = [%s] -> %s"
                    % (
                        [m.name for m in before],
                        i,
                        x.name,
                        [m.name for m in got],
                        [m.name for m in want],
                        i,
                        i,
                        x.name,
                        via_slice,
                    )
                )

# the crispest instance: a sits directly before b; "insert a before b" swaps them
ir, (a, b, c) = fresh(3)
ir.modules.insert(ir.modules.index(b), a)
swapped = [m.name for m in ir.modules] != ["m0", "m1", "m2"]

if bad or swapped:
    print("VIOLATION: insert of a member lands at a different place than "
          "list.insert / slice assignment (%d cases)" % len(bad))
    for line in bad[:8]:
        print("  " + line)
    if swapped:
        print("  [m0, m1, m2].insert(index(m1), m0) -> %s (m0 was already "
              "directly before m1; list keeps m0 before m1)"
              % [m.name for m in ir.modules])
    sys.exit(1)
print("ok: insert(i, member) places the member like list.insert")
sys.exit(0)
