"""C13: a lookup that is being consumed while an edit that does NOT change its answer is made
returns one expression twice and omits another (or raises IndexError / RuntimeError).

Run:  VERIF_REPO=/tmp/hunt3_C13 /venv/bin/python repro_1.py
Exits 1 (and says what is wrong) when the violation shows, 0 otherwise.
"""
import sys

sys.path.insert(0, "/tmp/mutkit")
import gtirb_from_repo  # noqa: E402

gtirb = gtirb_from_repo.load()
from gtirb import IR, ByteInterval, Module, Section, SymAddrConst, Symbol  # noqa: E402

problems = []
sym = Symbol(name="x")

# --- interval level, address variant -------------------------------------
bi = ByteInterval(address=0, size=32)
for o in (10, 12, 14):
    bi.symbolic_expressions[o] = SymAddrConst(o, sym)
query = range(10, 20)
expected = [10, 12, 14]
it = iter(bi.symbolic_expressions_at(query))
got = [next(it)[1]]
# item set at offset 5: address 5 is not a member of range(10, 20), the answer is unchanged
bi.symbolic_expressions[5] = SymAddrConst(5, sym)
fresh = [t[1] for t in bi.symbolic_expressions_at(query)]
assert fresh == expected, fresh
try:
    got += [t[1] for t in it]
except Exception as e:  # noqa: BLE001
    got.append("raised %s: %s" % (type(e).__name__, e))
if got != expected:
    problems.append(
        "ByteInterval.symbolic_expressions_at(range(10, 20)) with "
        "symbolic_expressions[5] = e between two next() calls: got offsets %r, "
        "expected %r (a fresh scan before and after the edit gives %r)"
        % (got, expected, fresh)
    )

# --- interval level, offset variant, deletion ------------------------------
it = iter(bi.symbolic_expressions_at_offset(query))
got = [next(it)[1]]
del bi.symbolic_expressions[5]  # again outside the queried offsets
try:
    got += [t[1] for t in it]
except Exception as e:  # noqa: BLE001
    got.append("raised %s: %s" % (type(e).__name__, e))
if got != expected:
    problems.append(
        "ByteInterval.symbolic_expressions_at_offset(range(10, 20)) with "
        "del symbolic_expressions[5] between two next() calls: got %r, expected %r"
        % (got, expected)
    )

# --- IR level: the module list is walked by position ------------------------
ir = IR()
for k in range(3):
    m = Module(name="m%d" % k, ir=ir)
    s = Section(name="s", module=m)
    b = ByteInterval(address=100 * k, size=8, section=s)
    b.symbolic_expressions[1] = SymAddrConst(k, sym)
    b.symbolic_expressions[3] = SymAddrConst(k, sym)
q = range(0, 1000)
full = sorted((t[0].address, t[1]) for t in ir.symbolic_expressions_at(q))
it = iter(ir.symbolic_expressions_at(q))
got = [next(it)]
ir.modules.insert(0, ir.modules[2])  # a module is moved to the front: the union is unchanged
got += list(it)
got = sorted((t[0].address, t[1]) for t in got)
if got != full:
    problems.append(
        "IR.symbolic_expressions_at(range(0, 1000)) with ir.modules.insert(0, ir.modules[2]) "
        "between two next() calls: got %r, expected %r" % (got, full)
    )

# --- module level: the section set is walked by a live set iterator ----------
m = ir.modules[0]
fullm = sorted((t[0].address, t[1]) for t in m.symbolic_expressions_at(q))
it = iter(m.symbolic_expressions_at(q))
Section(name="empty", module=m)  # an empty section: the union is unchanged
try:
    got = sorted((t[0].address, t[1]) for t in it)
except RuntimeError as e:
    got = "raised RuntimeError: %s" % e
if got != fullm:
    problems.append(
        "Module.symbolic_expressions_at(range(0, 1000)) issued, an empty Section added to the "
        "module, then consumed: got %r, expected %r" % (got, fullm)
    )

if problems:
    print("C13 violated:")
    for p in problems:
        print(" -", p)
    sys.exit(1)
print("no violation observed")
sys.exit(0)
