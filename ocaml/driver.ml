(* Line-oriented driver around the extracted model: one s-expression request per
   line on stdin, one reply per line on stdout.  Integers are hexadecimal with an
   optional leading '-'.  No arithmetic is done here: numbers are converted to and
   from Coq's binary positive/Z constructors bit by bit. *)
open Model

let pos_of_hex (s : Stdlib.String.t) (i0 : int) (n : int) : positive option =
  (* bits MSB first *)
  let acc = ref None in
  for i = i0 to n - 1 do
    let c = s.[i] in
    let d =
      if c >= '0' && c <= '9' then Char.code c - 48
      else if c >= 'a' && c <= 'f' then Char.code c - 87
      else failwith "bad hex digit" in
    for b = 3 downto 0 do
      let bit = (d lsr b) land 1 = 1 in
      acc := (match !acc with
              | None -> if bit then Some XH else None
              | Some p -> Some (if bit then XI p else XO p))
    done
  done;
  !acc

let z_of_string (s : Stdlib.String.t) : z =
  let n = Stdlib.String.length s in
  if n = 0 then failwith "empty atom";
  if s.[0] = '-' then (match pos_of_hex s 1 n with None -> Z0 | Some p -> Zneg p)
  else (match pos_of_hex s 0 n with None -> Z0 | Some p -> Zpos p)

let buf_pos (b : Buffer.t) (p : positive) : unit =
  (* collect bits LSB first *)
  let bits = ref [] in
  let rec go p = match p with
    | XH -> bits := 1 :: !bits
    | XO q -> bits := 0 :: !bits; go q
    | XI q -> bits := 1 :: !bits; go q in
  go p;
  (* !bits is now MSB first *)
  let l = !bits in
  let len = List.length l in
  let pad = (4 - len mod 4) mod 4 in
  let l = (List.init pad (fun _ -> 0)) @ l in
  let rec out l = match l with
    | a :: b :: c :: d :: r ->
      Buffer.add_char b_ "0123456789abcdef".[a * 8 + b * 4 + c * 2 + d]; out r
    | [] -> ()
    | _ -> assert false
  and b_ = b in
  out l

let buf_z (b : Buffer.t) (z : z) : unit =
  match z with
  | Z0 -> Buffer.add_char b '0'
  | Zpos p -> buf_pos b p
  | Zneg p -> Buffer.add_char b '-'; buf_pos b p

let rec buf_sx (b : Buffer.t) (s : sx) : unit =
  match s with
  | A z -> buf_z b z
  | L l ->
    Buffer.add_char b '(';
    List.iteri (fun i x -> if i > 0 then Buffer.add_char b ' '; buf_sx b x) l;
    Buffer.add_char b ')'

let parse_sx (s : Stdlib.String.t) : sx =
  let n = Stdlib.String.length s in
  let pos = ref 0 in
  let rec skip () = if !pos < n && s.[!pos] = ' ' then (incr pos; skip ()) in
  let rec item () : sx =
    skip ();
    if !pos >= n then failwith "unexpected end";
    if s.[!pos] = '(' then begin
      incr pos;
      let acc = ref [] in
      let rec loop () =
        skip ();
        if !pos >= n then failwith "unclosed paren";
        if s.[!pos] = ')' then incr pos
        else (acc := item () :: !acc; loop ()) in
      loop ();
      L (List.rev !acc)
    end else begin
      let st = !pos in
      while !pos < n && s.[!pos] <> ' ' && s.[!pos] <> '(' && s.[!pos] <> ')' do incr pos done;
      A (z_of_string (Stdlib.String.sub s st (!pos - st)))
    end in
  item ()

let () =
  let b = Buffer.create 65536 in
  try
    while true do
      let line = Stdlib.input_line Stdlib.stdin in
      Buffer.clear b;
      (try buf_sx b (run (parse_sx line))
       with Failure m -> (Buffer.clear b; Buffer.add_string b ("!driver-error " ^ m))
          | Stack_overflow -> (Buffer.clear b; Buffer.add_string b "!stack-overflow"));
      Buffer.add_char b '\n';
      Stdlib.print_string (Buffer.contents b);
      Stdlib.flush Stdlib.stdout
    done
  with End_of_file -> ()
