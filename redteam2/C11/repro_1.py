"""C11: a block of a module that IS listed in ir.modules reports no
outgoing/incoming edges, although ir.cfg.out_edges/in_edges list them, after
`ir.modules[i] = M` (or `ir.modules[i:j] = [M]`) where M already sits at a
lower index of the same list.

Run: VERIF_REPO=/tmp/hunt2_C11 /venv/bin/python repro_1.py
"""
import sys

sys.path.insert(0, "/tmp/mutkit")
import gtirb_from_repo

gtirb = gtirb_from_repo.load()
from gtirb import (  # noqa: E402
    IR,
    ByteInterval,
    CodeBlock,
    Edge,
    EdgeLabel,
    EdgeType,
    Module,
    Section,
)


def mod(name, ir):
    m = Module(name=name, ir=ir)
    s = Section(name="s", module=m)
    bi = ByteInterval(size=4, section=s)
    return m, CodeBlock(size=1, byte_interval=bi)


def key(e):
    return (id(e.source), id(e.target), e.label)


problems = []
for how in ("item", "slice"):
    ir = IR()
    A, a = mod("A", ir)
    B, b = mod("B", ir)
    C, c = mod("C", ir)
    lab = EdgeLabel(EdgeType.Branch, False, True)
    ir.cfg.update([Edge(a, b, lab), Edge(b, c, None), Edge(b, b, lab)])

    if how == "item":
        ir.modules[1] = A  # A is already ir.modules[0]
    else:
        ir.modules[1:2] = [A]

    names = [m.name for m in ir.modules]
    # b's module B is still listed in ir.modules: b is attached to ir.
    attached = any(
        b in bi.blocks
        for m in ir.modules
        for s in m.sections
        for bi in s.byte_intervals
    )
    want_out = sorted(key(e) for e in ir.cfg if e.source is b)
    want_in = sorted(key(e) for e in ir.cfg if e.target is b)
    cfg_out = sorted(key(e) for e in ir.cfg.out_edges(b))
    cfg_in = sorted(key(e) for e in ir.cfg.in_edges(b))
    got_out = sorted(key(e) for e in b.outgoing_edges)
    got_in = sorted(key(e) for e in b.incoming_edges)
    assert cfg_out == want_out and cfg_in == want_in
    if attached and (got_out != want_out or got_in != want_in):
        problems.append(
            "[%s] ir.modules == %s, block b of module B is attached to ir "
            "(B in ir.modules: %s, b.module is B: %s) but B.ir is %r: "
            "len(b.outgoing_edges) == %d (ir.cfg.out_edges(b): %d), "
            "len(b.incoming_edges) == %d (ir.cfg.in_edges(b): %d)"
            % (
                how,
                names,
                B in list(ir.modules),
                b.module is B,
                B.ir,
                len(got_out),
                len(cfg_out),
                len(got_in),
                len(cfg_in),
            )
        )
    # mirror image: C was dropped from ir.modules but still claims ir
    if C not in list(ir.modules) and C.ir is ir:
        problems.append(
            "[%s] module C is no longer in ir.modules yet C.ir is ir, so "
            "its block c lists %d incoming edge(s) of ir.cfg"
            % (how, len(list(c.incoming_edges)))
        )

if problems:
    print("VIOLATION")
    for p in problems:
        print(" -", p)
    sys.exit(1)
print("ok: views agree with the CFG")
sys.exit(0)
