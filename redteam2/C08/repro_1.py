#!/usr/bin/env python
"""C08 repro 1: format-conforming set<float>/set<double>/mapping<double,V>
bytes that hold both +0.0 and -0.0 (distinct elements on the wire, and
distinct elements for the repository's Java codec) are decoded by the Python
API into a container that has silently lost an element; a mapping even comes
back with a (key, value) pair that is not in the file.

Run: VERIF_REPO=/tmp/hunt2_C08 /venv/bin/python repro_1.py
Exits 1 (and says what is wrong) when the violation shows, 0 otherwise.
"""
import io
import os
import shutil
import struct
import subprocess
import sys
import tempfile

sys.path.insert(0, "/tmp/mutkit")
import gtirb_from_repo  # noqa: E402

gtirb = gtirb_from_repo.load()
S = gtirb.AuxData.serializer
problems = []


def u64(n):
    return struct.pack("<Q", n)


def bits(x, fmt):
    return struct.pack(fmt, x).hex()


def reencode(val, type_name):
    out = io.BytesIO()
    S.encode(out, val, type_name)
    return out.getvalue()


# --- 1. set<float>: count 2, elements +0.0f and -0.0f ----------------------
# (independent encoder: the property text, "sets ... as a uint64 element
#  count followed by the elements", "IEEE floats" little-endian)
wire_set = u64(2) + struct.pack("<f", 0.0) + struct.pack("<f", -0.0)
assert wire_set.hex() == "0200000000000000" "00000000" "00000080"
got = S.decode(wire_set, "set<float>")
got_bits = sorted(bits(x, "<f") for x in got)
if got_bits != ["00000000", "00000080"]:
    problems.append(
        "set<float> wire %s holds 2 elements (+0.0, -0.0); decoded value %r "
        "has %d element(s) with bit patterns %s"
        % (wire_set.hex(), got, len(got), got_bits)
    )
back = reencode(got, "set<float>")
if sorted([back[8:12], back[12:16]]) != sorted([wire_set[8:12], wire_set[12:16]]):
    problems.append(
        "set<float>: read + write of the table turns %s into %s"
        % (wire_set.hex(), back.hex())
    )

# --- 2. mapping<double,string>: {+0.0: "plus", -0.0: "minus"} --------------
def s(x):
    return u64(len(x)) + x


wire_map = (
    u64(2)
    + struct.pack("<d", 0.0) + s(b"plus")
    + struct.pack("<d", -0.0) + s(b"minus")
)
got = S.decode(wire_map, "mapping<double,string>")
pairs = sorted((bits(k, "<d"), v) for k, v in got.items())
want = sorted([(bits(0.0, "<d"), "plus"), (bits(-0.0, "<d"), "minus")])
if pairs != want:
    problems.append(
        "mapping<double,string> wire holds {+0.0:'plus', -0.0:'minus'}; "
        "decoded %r = pairs %s (a pair that is not in the bytes, one entry "
        "lost)" % (got, pairs)
    )

# --- 3. nested: set<tuple<double,uint8_t>> and sequence<set<double>> -------
wire_nested = (
    u64(2)
    + struct.pack("<d", 0.0) + b"\x07"
    + struct.pack("<d", -0.0) + b"\x07"
)
got = S.decode(wire_nested, "set<tuple<double,uint8_t>>")
if len(got) != 2:
    problems.append(
        "set<tuple<double,uint8_t>> with (+0.0,7) and (-0.0,7): decoded %r"
        % (got,)
    )

# --- 4. the API cannot read back its own bytes ------------------------------
own = reencode({1e-50, -1e-50}, "set<float>")  # two values, round to +-0.0f
if own[:8] == u64(2) and own[8:12] != own[12:16]:
    again = S.decode(own, "set<float>")
    if len(again) != 2:
        problems.append(
            "Python wrote set<float> %s for {1e-50,-1e-50} (count 2, two "
            "different elements) and reads it back as %r" % (own.hex(), again)
        )

# --- 5. through a file: load, read, save ------------------------------------
from gtirb.proto import IR_pb2  # noqa: E402

ir = gtirb.IR()
ir.aux_data["z"] = gtirb.AuxData(set(), "set<float>")
buf = io.BytesIO()
ir.save_protobuf_file(buf)
raw = buf.getvalue()
msg = IR_pb2.IR()
msg.ParseFromString(raw[8:])
msg.aux_data["z"].data = wire_set  # what the Java API would have stored
ir2 = gtirb.IR.load_protobuf_file(io.BytesIO(raw[:8] + msg.SerializeToString()))
_ = ir2.aux_data["z"].data  # a client merely looks at the table
buf2 = io.BytesIO()
ir2.save_protobuf_file(buf2)
msg2 = IR_pb2.IR()
msg2.ParseFromString(buf2.getvalue()[8:])
if len(msg2.aux_data["z"].data) != len(wire_set):
    problems.append(
        "file: table 'z' set<float> %s -> after load/read/save %s"
        % (wire_set.hex(), msg2.aux_data["z"].data.hex())
    )

# --- 6. optional: the repository's Java codec really produces these bytes ---
repo = os.environ.get("VERIF_REPO", "/tmp/hunt2_C08")
jdir = os.path.join(repo, "java", "com", "grammatech", "gtirb", "auxdatacodec")
if shutil.which("javac") and shutil.which("java") and os.path.isdir(jdir):
    here = os.path.dirname(os.path.abspath(__file__))
    try:
        tmp = tempfile.mkdtemp(prefix="_repro1_", dir=here)
    except OSError:
        tmp = tempfile.mkdtemp(prefix="_repro1_")
    try:
        with open(os.path.join(tmp, "Z.java"), "w") as f:
            f.write(
                """
import com.grammatech.gtirb.auxdatacodec.*;
import java.io.*; import java.util.*;
public class Z { public static void main(String[] a) throws Exception {
  Set<Float> s = new HashSet<>(); s.add(0.0f); s.add(-0.0f);
  SetCodec<Float> c = new SetCodec<>(new FloatCodec(), HashSet::new);
  ByteArrayOutputStream o = new ByteArrayOutputStream(); c.encode(o, s);
  StringBuilder sb = new StringBuilder();
  for (byte b : o.toByteArray()) sb.append(String.format("%02x", b));
  Set<Float> d = c.decode(new ByteArrayInputStream(o.toByteArray()));
  System.out.println(c.getTypeName() + " " + s.size() + " " + sb + " " + d.size());
}}
"""
            )
        srcs = [
            os.path.join(jdir, n + ".java")
            for n in ("Codec", "LongCodec", "FloatCodec", "SetCodec")
        ]
        subprocess.run(
            ["javac", "-nowarn", "-d", tmp, os.path.join(tmp, "Z.java")] + srcs,
            check=True, capture_output=True,
        )
        out = subprocess.run(
            ["java", "-cp", tmp, "Z"], check=True, capture_output=True
        ).stdout.decode().split()
        print("java codec:", out)
        tname, jsize, jhex, jback = out[0], int(out[1]), out[2], int(out[3])
        jval = S.decode(bytes.fromhex(jhex), tname)
        if len(jval) != jsize:
            problems.append(
                "Java codec: a Set<Float> of %d elements encoded as %s %s "
                "(Java reads it back with %d elements) is decoded by Python "
                "as %r (%d element)" % (jsize, tname, jhex, jback, jval, len(jval))
            )
    except Exception as e:  # Java leg is only a confirmation
        print("java leg skipped:", type(e).__name__, e)
    finally:
        shutil.rmtree(tmp, ignore_errors=True)

if problems:
    print("C08 VIOLATED:")
    for p in problems:
        print(" -", p)
    sys.exit(1)
print("ok: signed zeros survive in sets and mapping keys")
sys.exit(0)
