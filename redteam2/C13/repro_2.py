"""Assigning to Section.byte_intervals (a public, documented attribute) is not
intercepted: the section's address index keeps following the old collection,
so section/module/IR lookups omit in-extent expressions of intervals that
section.byte_intervals contains (and keep none of the bookkeeping).

Run: VERIF_REPO=/tmp/hunt2_C13 /venv/bin/python repro_2.py
"""
import sys

sys.path.insert(0, "/tmp/mutkit")
import gtirb_from_repo

gtirb = gtirb_from_repo.load()

ir = gtirb.IR()
m = gtirb.Module(name="m", ir=ir)
sym = gtirb.Symbol(name="x", module=m)
sec = gtirb.Section(name="s", module=m)
b1 = gtirb.ByteInterval(address=0, size=8, section=sec)
b1.symbolic_expressions[1] = gtirb.SymAddrConst(0, sym)
b2 = gtirb.ByteInterval(address=16, size=8)
b2.symbolic_expressions[1] = gtirb.SymAddrConst(0, sym)

# the ByteInterval.symbolic_expressions attribute supports whole assignment;
# the same entry point on the section:
sec.byte_intervals = {b1, b2}

bad = 0
for node in (sec, m, ir):
    got = sorted(b.address + o
                 for b, o, _ in node.symbolic_expressions_at(range(0, 100)))
    scan = sorted(b.address + o for b in sec.byte_intervals
                  for o in b.symbolic_expressions if o < b.size)
    if got != scan:
        print("%s lookup %r != fresh scan over section.byte_intervals %r"
              % (type(node).__name__, got, scan))
        bad = 1
if b2.section is not sec:
    print("b2 in sec.byte_intervals but b2.section is", b2.section)
    bad = 1
# and it cannot be repaired through the API any more:
b2.section = sec
got = sorted(b.address + o for b, o, _ in sec.symbolic_expressions_at(range(0, 100)))
if got != [1, 17]:
    print("after b2.section = sec: lookup still", got, "b2.section is", b2.section)
    bad = 1
sys.exit(bad)
