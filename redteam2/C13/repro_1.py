"""ir.modules item/slice assignment of a module that the list already owns
corrupts the list (wrong module evicted, detached module still listed, module
listed twice) -> IR.symbolic_expressions_at yields the same triple twice.

Run: VERIF_REPO=/tmp/hunt2_C13 /venv/bin/python repro_1.py
"""
import sys

sys.path.insert(0, "/tmp/mutkit")
import gtirb_from_repo

gtirb = gtirb_from_repo.load()


def world():
    ir = gtirb.IR()
    mods = []
    for i in range(3):
        m = gtirb.Module(name="m%d" % i, ir=ir)
        sym = gtirb.Symbol(name="x", module=m)
        sec = gtirb.Section(name="s", module=m)
        bi = gtirb.ByteInterval(address=16 * i, size=8, section=sec)
        bi.symbolic_expressions[2] = gtirb.SymAddrConst(0, sym)
        mods.append(m)
    return ir, mods


def audit(ir, mods, tag):
    problems = []
    got = [(b.module.name, b.address + o)
           for b, o, _ in ir.symbolic_expressions_at(range(0, 1000))]
    # fresh scan over the public containment attributes
    scan = set()
    for m in ir.modules:
        for s in m.sections:
            for b in s.byte_intervals:
                for o in b.symbolic_expressions:
                    scan.add((m.name, b.address + o))
    if len(got) != len(set(got)):
        problems.append("duplicate triples from IR lookup: %r" % got)
    if set(got) != scan:
        problems.append("lookup %r != scan %r" % (got, sorted(scan)))
    names = [m.name for m in ir.modules]
    if len(names) != len(set(names)):
        problems.append("module listed twice: %r" % names)
    for m in mods:
        listed = any(x is m for x in ir.modules)
        if listed != (m.ir is ir):
            problems.append("%s: listed=%r but (m.ir is ir)=%r"
                            % (m.name, listed, m.ir is ir))
    for p in problems:
        print("[%s] %s" % (tag, p))
    return problems


bad = []

# (a) one statement, the iterable names the module twice (what commit 5eed782
#     made work for IR(modules=...)):
ir, mods = world()
ir.modules[0:1] = [mods[0], mods[0]]
bad += audit(ir, mods, "modules[0:1] = [m0, m0]")

# (b) no duplicate in the argument, no exception: moving m0 into slot 1
ir, mods = world()
ir.modules[1] = mods[0]          # list was [m0, m1, m2]
bad += audit(ir, mods, "modules[1] = m0")
mods[1].ir = ir                  # m1 reports ir None, so attach it again
bad += audit(ir, mods, "modules[1] = m0; m1.ir = ir")

sys.exit(1 if bad else 0)
