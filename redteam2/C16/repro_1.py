"""C16: ir.modules does not accept index-like objects (objects with __index__)
where the built-in list does: pop(i), del lst[i], index(v, start, stop) and an
extended-slice step of 1 raise TypeError / ValueError, although __getitem__,
__setitem__ and insert of the very same wrapper accept them.

Run: VERIF_REPO=/tmp/hunt2_C16 /venv/bin/python repro_1.py
"""
import sys

sys.path.insert(0, "/tmp/mutkit")
import gtirb_from_repo

gtirb = gtirb_from_repo.load()


class Idx:
    """A legal list index: anything with __index__ (PEP 357), no arithmetic."""

    def __init__(self, v):
        self.v = v

    def __index__(self):
        return self.v


def outcome(f):
    try:
        r = f()
        return ("ok", getattr(r, "name", r))
    except Exception as e:  # noqa
        return ("exc", type(e).__name__)


def fresh():
    ir = gtirb.IR()
    ms = [gtirb.Module(name="m%d" % i, ir=ir) for i in range(3)]
    return ir, ms


problems = []


def compare(label, on_wrapper, on_list):
    ir, ms = fresh()
    ref = list(ms)
    a = outcome(lambda: on_wrapper(ir.modules, ms))
    b = outcome(lambda: on_list(ref, ms))
    sa = [m.name for m in ir.modules]
    sb = [m.name for m in ref]
    if a != b or sa != sb:
        problems.append(
            "%s: ir.modules -> %r, contents %r; list -> %r, contents %r"
            % (label, a, sa, b, sb)
        )


def _del(lst, i):
    del lst[i]


def _setslice(lst, s, v):
    lst[s] = v


compare("pop(Idx(0))", lambda w, ms: w.pop(Idx(0)), lambda l, ms: l.pop(Idx(0)))
compare("pop(Idx(-1))", lambda w, ms: w.pop(Idx(-1)), lambda l, ms: l.pop(Idx(-1)))
compare("del lst[Idx(1)]", lambda w, ms: _del(w, Idx(1)), lambda l, ms: _del(l, Idx(1)))
compare(
    "index(m1, Idx(0))",
    lambda w, ms: w.index(ms[1], Idx(0)),
    lambda l, ms: l.index(ms[1], Idx(0)),
)
compare(
    "index(m1, 0, Idx(3))",
    lambda w, ms: w.index(ms[1], 0, Idx(3)),
    lambda l, ms: l.index(ms[1], 0, Idx(3)),
)
a, b = gtirb.Module(name="a"), gtirb.Module(name="b")
compare(
    "lst[0:1:Idx(1)] = [a, b]",
    lambda w, ms: _setslice(w, slice(0, 1, Idx(1)), [a, b]),
    lambda l, ms: _setslice(l, slice(0, 1, Idx(1)), [a, b]),
)
# for contrast: these entry points of the same wrapper do accept the same index
compare("lst[Idx(0)] (get)", lambda w, ms: w[Idx(0)], lambda l, ms: l[Idx(0)])
compare(
    "insert(Idx(1), n)",
    lambda w, ms: w.insert(Idx(1), gtirb.Module(name="n")),
    lambda l, ms: l.insert(Idx(1), gtirb.Module(name="n")),
)

if problems:
    print("VIOLATION (C16): ir.modules differs from list for index-like objects:")
    for p in problems:
        print("  -", p)
    sys.exit(1)
print("no difference")
sys.exit(0)
