"""C01 (decoded AuxData values): a table that stores the raw uuid.UUID of an ATTACHED node (allowed by the
UUID codec: 'UUID codec only supports UUIDs or Nodes') comes back with the Node object in its place, so the
decoded value differs from the one that was saved: lookups by the UUID that worked on the original raise
KeyError on the loaded IR, and data != data. Same for Offset.element_id.
Run: VERIF_REPO=/tmp/hunt2_C01 /venv/bin/python repro_4.py"""
import io, sys
sys.path.insert(0, "/tmp/mutkit")
import gtirb_from_repo
gtirb = gtirb_from_repo.load()

ir = gtirb.IR()
m = gtirb.Module(name="m", ir=ir)
s = gtirb.Section(name="s", module=m)
bi = gtirb.ByteInterval(address=0, contents=b"abcd", section=s)
blk = gtirb.CodeBlock(size=2, byte_interval=bi)
m.aux_data["sizes"] = gtirb.AuxData({blk.uuid: 2}, "mapping<UUID,uint64_t>")
m.aux_data["where"] = gtirb.AuxData(gtirb.Offset(blk.uuid, 1), "Offset")

buf = io.BytesIO()
ir.save_protobuf_file(buf)
ir2 = gtirb.IR.load_protobuf_file(io.BytesIO(buf.getvalue()))
m2 = ir2.modules[0]
problems = []
for name in ("sizes", "where"):
    o, l = m.aux_data[name].data, m2.aux_data[name].data
    if o != l:
        problems.append("%s: saved %r, loaded %r (not equal)" % (name, o, l))
try:
    m2.aux_data["sizes"].data[blk.uuid]
except KeyError:
    problems.append("sizes: data[blk.uuid] works on the original, KeyError on the loaded IR")
if problems:
    print("VIOLATION (C01: AuxData decoded values are reproduced)")
    for p in problems:
        print("  -", p)
    sys.exit(1)
print("ok")
sys.exit(0)
