"""C01: ir.modules[a:b] = [..., m, ..., m, ...] lists one module twice; the IR saves, load rejects the file.
Run: VERIF_REPO=/tmp/hunt2_C01 /venv/bin/python repro_1.py"""
import io, sys
sys.path.insert(0, "/tmp/mutkit")
import gtirb_from_repo
gtirb = gtirb_from_repo.load()

bad = []
for desc, build in [
    ("ir.modules[:] = [m0, m0]  (ir.modules == [m0])", lambda ir, m0, m1: ir.modules.__setitem__(slice(None), [m0, m0])),
    ("ir.modules[0:2] = [m1, m0, m0]  (ir.modules == [m0, m1])", lambda ir, m0, m1: ir.modules.__setitem__(slice(0, 2), [m1, m0, m0])),
]:
    ir = gtirb.IR()
    m0 = gtirb.Module(name="m0", ir=ir)
    m1 = gtirb.Module(name="m1")
    if "m1" in desc.split("(")[1]:
        ir.modules.append(m1)
    try:
        build(ir, m0, m1)
    except Exception as e:  # a clean rejection of the duplicate would be fine
        print("ok  ", desc, "-> rejected up front:", type(e).__name__, e)
        continue
    names = [m.name for m in ir.modules]
    buf = io.BytesIO()
    ir.save_protobuf_file(buf)  # succeeds
    try:
        ir2 = gtirb.IR.load_protobuf_file(io.BytesIO(buf.getvalue()))
    except Exception as e:
        bad.append("%s: accepted, ir.modules=%s, saved %d bytes, load raised %s: %s"
                   % (desc, names, len(buf.getvalue()), type(e).__name__, e))
        continue
    if [m.uuid for m in ir2.modules] != [m.uuid for m in ir.modules] or not ir.deep_eq(ir2):
        bad.append("%s: loaded module list differs: %s vs %s" % (desc, names, [m.name for m in ir2.modules]))
    else:
        print("ok  ", desc)
if bad:
    print("VIOLATION (C01: save then load reproduces the IR)")
    for b in bad:
        print("  -", b)
    sys.exit(1)
sys.exit(0)
