"""C01: an Edge.Label subclass whose truth value is False (only __bool__/__len__ added, equality untouched)
is written as 'no label': CFG._to_protobuf tests `if l:` instead of `if l is not None:`.
Run: VERIF_REPO=/tmp/hunt2_C01 /venv/bin/python repro_3.py"""
import io, sys
sys.path.insert(0, "/tmp/mutkit")
import gtirb_from_repo
gtirb = gtirb_from_repo.load()


class TakenLabel(gtirb.Edge.Label):
    """A label that is 'true' when the branch is the taken one."""
    __slots__ = ()

    def __bool__(self):
        return bool(self.conditional)


ir = gtirb.IR()
m = gtirb.Module(name="m", ir=ir)
s = gtirb.Section(name="s", module=m)
bi = gtirb.ByteInterval(address=0, contents=b"abcd", section=s)
a = gtirb.CodeBlock(size=2, offset=0, byte_interval=bi)
b = gtirb.CodeBlock(size=2, offset=2, byte_interval=bi)
lab = TakenLabel(gtirb.Edge.Type.Fallthrough, False, True)
assert lab == gtirb.Edge.Label(gtirb.Edge.Type.Fallthrough, False, True)  # equality untouched
ir.cfg.add(gtirb.Edge(a, b, lab))

buf = io.BytesIO()
ir.save_protobuf_file(buf)
ir2 = gtirb.IR.load_protobuf_file(io.BytesIO(buf.getvalue()))
before = [e.label for e in ir.cfg]
after = [e.label for e in ir2.cfg]
problems = []
if [None if l is None else tuple(l) for l in before] != [None if l is None else tuple(l) for l in after]:
    problems.append("edge label before save: %r, after load: %r" % (before, after))
if not ir.deep_eq(ir2):
    problems.append("original.deep_eq(loaded) is False")
if not ir2.deep_eq(ir):
    problems.append("loaded.deep_eq(original) is False")
if problems:
    print("VIOLATION (C01: CFG edges with labels survive save+load)")
    for p in problems:
        print("  -", p)
    sys.exit(1)
print("ok")
sys.exit(0)
