"""C01: ir.modules[i] = m / ir.modules[a:b] = [m] where m is already listed at a lower index.
ListWrapper.__setitem__ detaches the old occupant, lets the ownership hook remove m from its old slot
(the list shrinks), then writes through the ORIGINAL index/slice: a different, still attached module is
overwritten and silently dropped from ir.modules, while the detached one stays listed. Every node of the
dropped module still answers node.ir is ir and ir.get_by_uuid(node.uuid) is node, the CFG edge between
its blocks is still in ir.cfg: the IR saves, and load rejects the file.
Run: VERIF_REPO=/tmp/hunt2_C01 /venv/bin/python repro_2.py"""
import io, sys
sys.path.insert(0, "/tmp/mutkit")
import gtirb_from_repo
gtirb = gtirb_from_repo.load()


def build():
    ir = gtirb.IR()
    mods = []
    for i in range(4):
        m = gtirb.Module(name="m%d" % i, ir=ir)
        s = gtirb.Section(name="s", module=m)
        bi = gtirb.ByteInterval(address=0, contents=b"ab", section=s)
        gtirb.CodeBlock(size=1, byte_interval=bi)
        mods.append(m)
    b3 = next(iter(mods[3].code_blocks))
    ir.cfg.add(gtirb.Edge(b3, b3, gtirb.Edge.Label(gtirb.Edge.Type.Branch)))
    return ir, mods, b3


bad = []
for desc, op in [
    ("ir.modules[2] = m0", lambda ir, ms: ir.modules.__setitem__(2, ms[0])),
    ("ir.modules[2:3] = [m0]", lambda ir, ms: ir.modules.__setitem__(slice(2, 3), [ms[0]])),
]:
    ir, ms, b3 = build()
    try:
        op(ir, ms)
    except Exception as e:
        print("ok  ", desc, "-> rejected:", type(e).__name__, e)
        continue
    listed = [m.name for m in ir.modules]
    claims = {m.name: (m.ir is ir) for m in ms}
    # what "replace the module at position 2 by m0" has to give: [m1, m3, m0] or [m0, m1, m3]-like, never losing m3
    lost = [m.name for m in ms if m.ir is ir and not any(x is m for x in ir.modules)]
    ghost = [m.name for m in ir.modules if m.ir is not ir]
    # the IR looks self-contained through every public query on the referenced node
    looks_attached = b3.ir is ir and ir.get_by_uuid(b3.uuid) is b3 and b3.module.ir is ir
    buf = io.BytesIO()
    ir.save_protobuf_file(buf)
    try:
        ir2 = gtirb.IR.load_protobuf_file(io.BytesIO(buf.getvalue()))
        ok = ir.deep_eq(ir2) and ir2.deep_eq(ir) and len(ir2.cfg) == len(ir.cfg) and not lost and not ghost
        if not ok:
            bad.append("%s: listed=%s lost=%s detached-but-listed=%s; loaded IR differs" % (desc, listed, lost, ghost))
        else:
            print("ok  ", desc)
    except Exception as e:
        bad.append("%s: no exception; ir.modules=%s; node.ir is ir for %s; attached-but-unlisted=%s, "
                   "listed-but-detached=%s; CFG endpoint looks attached=%s; save ok; load raised %s: %s"
                   % (desc, listed, claims, lost, ghost, looks_attached, type(e).__name__, e))
if bad:
    print("VIOLATION (C01: save then load reproduces the IR)")
    for b in bad:
        print("  -", b)
    sys.exit(1)
sys.exit(0)
