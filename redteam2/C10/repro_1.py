"""C10: assigning Module.symbols (e.g. `m.symbols = m.symbols | {s}`) silently replaces the
owning collection by a plain set; from then on name / referent lookups no longer track
the module's symbols, not even for symbols added afterwards through Symbol(module=m)."""
import sys
sys.path.insert(0, "/tmp/mutkit")
import gtirb_from_repo
gtirb = gtirb_from_repo.load()

ir = gtirb.IR()
m = gtirb.Module(name="m", ir=ir)
sec = gtirb.Section(name="s", module=m)
bi = gtirb.ByteInterval(size=4, section=sec)
cb = gtirb.CodeBlock(size=1, byte_interval=bi)
old = gtirb.Symbol("old", payload=cb, module=m)

new = gtirb.Symbol("new", payload=cb)
m.symbols = m.symbols | {new}          # "add a symbol" written as an attribute assignment
late = gtirb.Symbol("late", payload=cb, module=m)   # a fully supported add, afterwards

problems = []
for name in ("old", "new", "late"):
    got = sorted(map(id, m.symbols_named(name)))
    exp = sorted(id(s) for s in m.symbols if s.name == name)
    if got != exp:
        problems.append("symbols_named(%r) yields %d symbols, m.symbols holds %d with that name"
                        % (name, len(got), len(exp)))
got = sorted(map(id, cb.references))
exp = sorted(id(s) for s in cb.module.symbols if s.referent is cb)
if got != exp:
    problems.append("cb.references yields %d symbols, cb.module.symbols holds %d referring to cb"
                    % (len(got), len(exp)))
for s in (new, late):
    if s in m.symbols and s.module is not m:
        problems.append("symbol %r is in m.symbols but its .module is %r" % (s.name, s.module))
if type(m.symbols).__name__ != "_NodeSet":
    problems.append("m.symbols is now a plain %s" % type(m.symbols).__name__)

if problems:
    print("C10 violated:")
    for p in problems:
        print("  -", p)
    sys.exit(1)
print("ok")
