"""C19: shrinking size does not truncate the stored bytes of a ByteInterval
subclass whose `contents` is not kept in the instance __dict__ (a property that
shadows no class attribute of the base, or a __slots__ entry).
Run: VERIF_REPO=/tmp/hunt2_C19 /venv/bin/python repro_1.py
"""
import io
import sys

sys.path.insert(0, "/tmp/mutkit")
import gtirb_from_repo  # noqa: E402

gtirb = gtirb_from_repo.load()


class LoggedInterval(gtirb.ByteInterval):
    """Counts how often the byte buffer is replaced. ByteInterval has no
    class attribute called `contents`, so this property shadows nothing and
    equality/hash are untouched."""

    replaced = 0

    @property
    def contents(self):
        return self._buf

    @contents.setter
    def contents(self, value):
        self.replaced += 1
        self._buf = value


class SlottedInterval(gtirb.ByteInterval):
    __slots__ = ("contents", "note")


bad = []
for cls in (LoggedInterval, SlottedInterval):
    ir = gtirb.IR()
    m = gtirb.Module(name="m", ir=ir)
    s = gtirb.Section(name="s", module=m)
    bi = cls(size=6, contents=b"abcdef", address=0x1000, section=s)
    blk = gtirb.DataBlock(offset=1, size=4, byte_interval=bi)
    bi.size = 2  # in-domain: a plain size assignment below the stored count
    if len(bi.contents) > bi.size or bi.initialized_size > bi.size:
        bad.append(
            "%s: size=%d but %d stored bytes (initialized_size=%d), "
            "block contents %r"
            % (
                cls.__name__,
                bi.size,
                len(bi.contents),
                bi.initialized_size,
                bytes(blk.contents),
            )
        )
    buf = io.BytesIO()
    ir.save_protobuf_file(buf)
    buf.seek(0)
    try:
        gtirb.IR.load_protobuf_file(buf)
    except Exception as e:  # noqa: BLE001
        bad.append(
            "%s: saved file does not load back: %s: %s"
            % (cls.__name__, type(e).__name__, e)
        )

# control: the base class behaves
ctl = gtirb.ByteInterval(size=6, contents=b"abcdef")
ctl.size = 2
assert bytes(ctl.contents) == b"ab"

if bad:
    print("VIOLATION of C19 (stored bytes exceed size after a size assignment):")
    for line in bad:
        print("  " + line)
    sys.exit(1)
print("ok: size assignment truncated the stored bytes for every subclass")
sys.exit(0)
