"""C09: a reference that names no node because its UUID field is not 16 bytes
long (empty / short / long) makes the loader raise a bare ValueError
("bytes is not a 16-char string") instead of the promised DeserializationError.
Holds for every reference kind the property lists."""
import io, os, sys
sys.path.insert(0, "/tmp/mutkit")
os.environ.setdefault("VERIF_REPO", "/tmp/hunt2_C09")
import gtirb_from_repo
gtirb = gtirb_from_repo.load()
from gtirb.proto import IR_pb2

ir = gtirb.IR()
m = gtirb.Module(name="m", ir=ir)
s = gtirb.Section(name="s", module=m)
bi = gtirb.ByteInterval(contents=b"abcdefgh", section=s, address=0)
c = gtirb.CodeBlock(size=2, offset=0, byte_interval=bi)
p = gtirb.ProxyBlock(module=m)
sy = gtirb.Symbol("a", payload=c, module=m)
m.entry_point = c
bi.symbolic_expressions[0] = gtirb.SymAddrConst(0, sy)
bi.symbolic_expressions[4] = gtirb.SymAddrAddr(1, 0, sy, sy)
ir.cfg.add(gtirb.Edge(c, p))
P = ir._to_protobuf()


def load(proto):
    raw = (b"GTIRB\0\0" + bytes([gtirb.version.PROTOBUF_VERSION])
           + proto.SerializeToString())
    return gtirb.IR.load_protobuf_file(io.BytesIO(raw))


def symexprs(proto):
    return proto.modules[0].sections[0].byte_intervals[0].symbolic_expressions


def set_const(proto, v):
    for e in symexprs(proto).values():
        if e.HasField("addr_const"):
            e.addr_const.symbol_uuid = v


def set_addr(proto, v):
    for e in symexprs(proto).values():
        if e.HasField("addr_addr"):
            e.addr_addr.symbol1_uuid = v


KINDS = {
    "Module.entry_point": lambda q, v: setattr(q.modules[0], "entry_point", v),
    "Symbol.referent_uuid": lambda q, v: setattr(
        q.modules[0].symbols[0], "referent_uuid", v),
    "Edge.source_uuid": lambda q, v: setattr(q.cfg.edges[0], "source_uuid", v),
    "Edge.target_uuid": lambda q, v: setattr(q.cfg.edges[0], "target_uuid", v),
    "SymAddrConst.symbol_uuid": set_const,
    "SymAddrAddr.symbol1_uuid": set_addr,
}
bad = []
for name, setter in KINDS.items():
    for v in (b"", b"\x01" * 15, b"\x01" * 17):
        if name == "Module.entry_point" and v == b"":
            continue  # an empty entry_point means "no entry point"
        q = IR_pb2.IR()
        q.CopyFrom(P)
        setter(q, v)
        try:
            load(q)
            bad.append("%s = %d bytes: LOADED" % (name, len(v)))
        except gtirb.util.DeserializationError:
            pass
        except Exception as e:  # noqa
            bad.append("%s = %d bytes: %s: %s"
                       % (name, len(v), type(e).__name__, e))
if bad:
    print("VIOLATION: dangling (malformed) references are not rejected with "
          "DeserializationError:")
    for b in bad:
        print("  " + b)
    sys.exit(1)
print("ok")
