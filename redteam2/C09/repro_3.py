"""C09 (after an edit of a loaded IR): `ir.modules[1] = ir.modules[0]` on a
loaded three-module IR silently corrupts the IR's UUID table: the list becomes
[b, a]; b is still listed but was un-registered, c was dropped from the list
but stays registered (and c.ir is still the IR).  A not-yet-read AuxData table
then decodes the UUID of the attached module b to a plain UUID and the UUID of
the unreachable module c to a Module object."""
import io, os, sys
sys.path.insert(0, "/tmp/mutkit")
os.environ.setdefault("VERIF_REPO", "/tmp/hunt2_C09")
import gtirb_from_repo
gtirb = gtirb_from_repo.load()

ir = gtirb.IR()
mods = [gtirb.Module(name=n, ir=ir) for n in "abc"]
ir.aux_data["mods"] = gtirb.AuxData(list(mods), "sequence<UUID>")
buf = io.BytesIO()
ir.save_protobuf_file(buf)
ld = gtirb.IR.load_protobuf_file(io.BytesIO(buf.getvalue()))
a, b, c = ld.modules
ld.modules[1] = ld.modules[0]   # move a into b's slot (no exception)
listed = list(ld.modules)
data = ld.aux_data["mods"].data  # first read: decoded now
problems = []
for m, entry in zip((a, b, c), data):
    attached = any(m is x for x in listed)
    if attached and entry is not m:
        problems.append("module %r is in ir.modules but its UUID decoded to %r"
                        % (m.name, entry))
    if not attached and not isinstance(entry, type(m.uuid)):
        problems.append("module %r is NOT in ir.modules but its UUID decoded "
                        "to a %s object" % (m.name, type(entry).__name__))
if problems:
    print("ir.modules after the assignment:", [m.name for m in listed])
    print("VIOLATION:")
    for p in problems:
        print("  " + p)
    sys.exit(1)
print("ok")
