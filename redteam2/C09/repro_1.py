"""C09: a file whose references all name existing nodes of the right kind is
rejected (with a false "is not a CodeBlock/block/Symbol" message) when the
referenced node lives in a module that comes LATER in the file.  The very same
IR with the modules in the other order loads, so load/save is order dependent:
load -> ir.modules.reverse() -> save -> load fails."""
import io, os, sys
sys.path.insert(0, "/tmp/mutkit")
os.environ.setdefault("VERIF_REPO", "/tmp/hunt2_C09")
import gtirb_from_repo
gtirb = gtirb_from_repo.load()


def dump(ir):
    b = io.BytesIO()
    ir.save_protobuf_file(b)
    return b.getvalue()


def load(bs):
    return gtirb.IR.load_protobuf_file(io.BytesIO(bs))


def build(kind):
    ir = gtirb.IR()
    m1 = gtirb.Module(name="m1", ir=ir)
    m2 = gtirb.Module(name="m2", ir=ir)
    s1 = gtirb.Section(name="s1", module=m1)
    bi1 = gtirb.ByteInterval(contents=b"abcdefgh", section=s1, address=0)
    c1 = gtirb.CodeBlock(size=2, offset=0, byte_interval=bi1)
    sy1 = gtirb.Symbol("a", payload=c1, module=m1)
    s2 = gtirb.Section(name="s2", module=m2)
    bi2 = gtirb.ByteInterval(contents=b"abcdefgh", section=s2, address=64)
    # m2 (second module) refers to nodes of m1 (first module): backward refs
    if kind == "entry_point":
        m2.entry_point = c1
    elif kind == "referent":
        gtirb.Symbol("b", payload=c1, module=m2)
    elif kind == "symexpr":
        bi2.symbolic_expressions[0] = gtirb.SymAddrConst(0, sy1)
    return ir


bad = []
for kind in ("entry_point", "referent", "symexpr"):
    ir = build(kind)
    gen1 = load(dump(ir))  # backward reference: loads
    # identity holds in gen1 (sanity)
    c1 = next(iter(gen1.modules[0].code_blocks))
    # a pure reordering of the module list; every node stays attached
    gen1.modules.reverse()
    try:
        gen2 = load(dump(gen1))
    except Exception as e:  # noqa
        bad.append(
            "%s: load -> modules.reverse() -> save -> load raised %s: %s"
            % (kind, type(e).__name__, e)
        )
        continue
    # if it loads, the reference must be the attached object
if bad:
    print("VIOLATION: files in which every reference names an attached node "
          "of the right kind are rejected:")
    for b in bad:
        print("  " + b)
    sys.exit(1)
print("ok")
