"""C18: deep_eq of two IRs is not symmetric (and is True for different content)
when one interval holds a directly instantiated gtirb.ByteBlock and the other a
DataBlock / CodeBlock with the same UUID, size and offset.

ByteBlock.deep_eq accepts any ByteBlock (`isinstance(other, ByteBlock)`), while
DataBlock.deep_eq / CodeBlock.deep_eq require their own class. Commit 6c44aee
closed exactly this hole for DataBlock-vs-CodeBlock only.

Run: VERIF_REPO=/tmp/hunt2_C18 /venv/bin/python repro_2.py
"""
import sys
from uuid import UUID

sys.path.insert(0, "/tmp/mutkit")
import gtirb_from_repo

gtirb = gtirb_from_repo.load()


def build(block_cls):
    ir = gtirb.IR(uuid=UUID(int=1))
    m = gtirb.Module(name="m", uuid=UUID(int=2), ir=ir)
    s = gtirb.Section(name="s", uuid=UUID(int=3), module=m)
    bi = gtirb.ByteInterval(uuid=UUID(int=4), contents=b"abcd", section=s)
    block_cls(uuid=UUID(int=5), size=2, offset=1, byte_interval=bi)
    return ir


problems = []
base = build(gtirb.ByteBlock)
for cls in (gtirb.DataBlock, gtirb.CodeBlock):
    other = build(cls)
    ab, ba = base.deep_eq(other), other.deep_eq(base)
    if ab != ba:
        problems.append(
            "IR[ByteBlock].deep_eq(IR[%s]) = %s but the converse = %s"
            % (cls.__name__, ab, ba)
        )
    if ab or ba:
        problems.append(
            "deep_eq is True although the block kinds differ "
            "(ByteBlock vs %s)" % cls.__name__
        )
# node level
x = gtirb.ByteBlock(uuid=UUID(int=9), size=1)
y = gtirb.CodeBlock(uuid=UUID(int=9), size=1)
if x.deep_eq(y) != y.deep_eq(x):
    problems.append(
        "ByteBlock.deep_eq(CodeBlock) = %s, CodeBlock.deep_eq(ByteBlock) = %s"
        % (x.deep_eq(y), y.deep_eq(x))
    )
# same hole one level up: AuxDataContainer is exported and concrete too
c = gtirb.AuxDataContainer(uuid=UUID(int=7))
i = gtirb.IR(uuid=UUID(int=7))
if c.deep_eq(i) != i.deep_eq(c):
    problems.append(
        "AuxDataContainer.deep_eq(IR) = %s, IR.deep_eq(AuxDataContainer) = %s"
        % (c.deep_eq(i), i.deep_eq(c))
    )
if problems:
    print("VIOLATION (C18, symmetry / exactness):")
    for p in problems:
        print("  -", p)
    sys.exit(1)
print("ok")
