"""C18: an IR is not deep_eq to its own save/load copy when a CFG edge carries a
label whose class is a user subclass of gtirb.EdgeLabel that is falsy
(__bool__/__len__ overridden, equality NOT overridden).

CFG._to_protobuf tests the label for truth (`if l:`) instead of `is not None`,
so the label is silently not written; the loaded edge has label None.

Run: VERIF_REPO=/tmp/hunt2_C18 /venv/bin/python repro_1.py
"""
import io
import sys
from uuid import UUID

sys.path.insert(0, "/tmp/mutkit")
import gtirb_from_repo

gtirb = gtirb_from_repo.load()


class CondLabel(gtirb.EdgeLabel):
    """An edge label that is 'true' exactly when the edge is conditional.
    Equality and hashing are the inherited tuple ones."""

    __slots__ = ()

    def __bool__(self):
        return bool(self.conditional)


def build(label):
    ir = gtirb.IR(uuid=UUID(int=1))
    m = gtirb.Module(name="m", uuid=UUID(int=2), ir=ir)
    p = gtirb.ProxyBlock(uuid=UUID(int=3), module=m)
    q = gtirb.ProxyBlock(uuid=UUID(int=4), module=m)
    ir.cfg.add(gtirb.Edge(p, q, label))
    return ir


def roundtrip(ir):
    buf = io.BytesIO()
    ir.save_protobuf_file(buf)
    buf.seek(0)
    return gtirb.IR.load_protobuf_file(buf)


a = build(CondLabel(gtirb.EdgeType.Branch, False, True))
plain = build(gtirb.EdgeLabel(gtirb.EdgeType.Branch, False, True))
# sanity: the subclass label is an ordinary label as far as deep_eq goes
assert a.deep_eq(plain) and plain.deep_eq(a)

b = roundtrip(a)
problems = []
if not a.deep_eq(b):
    problems.append("a.deep_eq(load(save(a))) is False")
if not b.deep_eq(a):
    problems.append("load(save(a)).deep_eq(a) is False")
lbl = next(iter(b.cfg)).label
if lbl != next(iter(a.cfg)).label:
    problems.append(
        "edge label written as %r, read back as %r"
        % (next(iter(a.cfg)).label, lbl)
    )
if problems:
    print("VIOLATION (C18, save/load copy not deep_eq):")
    for p in problems:
        print("  -", p)
    sys.exit(1)
print("ok")
