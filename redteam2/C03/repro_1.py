"""C03: `module.sections ^= {s_foreign, s_own}` (also proxies/symbols/byte_intervals/blocks)
where s_own is a member and s_foreign is a non-member that lives in ANOTHER IR and has
the same UUID (two loads / a deepcopy of one file).  The mathematical result of the
symmetric difference holds s_foreign only, so before and after the operator every IR
holds pairwise distinct UUIDs.  When the operator happens to visit s_foreign first it
registers it and then the removal of s_own deletes that very table entry (and those of
the whole subtree): s_foreign is attached to the IR but get_by_uuid() returns None.

Run: VERIF_REPO=/tmp/hunt2_C03 /venv/bin/python repro_1.py
"""
import io
import sys

sys.path.insert(0, "/tmp/mutkit")
import gtirb_from_repo  # noqa: E402

gtirb = gtirb_from_repo.load()


def build():
    ir = gtirb.IR()
    m = gtirb.Module(name="m", ir=ir)
    s = gtirb.Section(name=".text", module=m)
    bi = gtirb.ByteInterval(size=4, contents=b"abcd", section=s)
    gtirb.CodeBlock(size=2, byte_interval=bi)
    return ir


def reach(ir):
    out = [ir]
    for m in ir.modules:
        out += [m, *m.proxies, *m.symbols]
        for s in m.sections:
            out.append(s)
            for bi in s.byte_intervals:
                out += [bi, *bi.blocks]
    return out


def violations(ir, name):
    bad = []
    nodes = reach(ir)
    assert len({n.uuid for n in nodes}) == len(nodes), "left the domain"
    for n in nodes:
        got = ir.get_by_uuid(n.uuid)
        if got is not n:
            bad.append(
                "%s.get_by_uuid(uuid of attached %s) returned %r"
                % (name, type(n).__name__, got)
            )
    return bad


ir1 = build()
buf = io.BytesIO()
ir1.save_protobuf_file(buf)
buf.seek(0)
ir2 = gtirb.IR.load_protobuf_file(buf)  # second IR, same UUIDs (allowed)

(m1,) = ir1.modules
(m2,) = ir2.modules
(s1,) = m1.sections
(s2,) = m2.sections
assert s1.uuid == s2.uuid and s1 is not s2

# toggle: take the own copy out, put the other IR's copy in -- one operator.
# A dict keys view is an ordered collections.abc.Set, which makes the visiting
# order (foreign first) deterministic; with a plain set {s2, s1} the same
# thing happens or not depending on the hash order of the run.
m1.sections ^= dict.fromkeys([s2, s1]).keys()

assert set(m1.sections) == {s2} and s2.module is m1 and s1.module is None
assert len(m2.sections) == 0
bad = violations(ir1, "ir1") + violations(ir2, "ir2")
if bad:
    print("C03 violated after `m1.sections ^= {s2, s1}` (result: s2 attached to ir1):")
    for b in bad:
        print("  ", b)
    sys.exit(1)
print("no violation")
sys.exit(0)
