"""C12: the answer of an AuxData read (`.data`) of a loaded IR depends on WHEN the first read was issued.

Loaded AuxData tables are decoded lazily: the UUIDs they contain are resolved to nodes at the first
`.data` access, through `get_by_uuid` of the IR that *loaded* the file.  Replaying one edit history with a read
placed before the edit, or with no read before the end, gives different final answers.

Run:  VERIF_REPO=/tmp/hunt2_C12 /venv/bin/python repro_1.py     (exit 1 = violation shown)
"""
import io
import sys
import uuid

sys.path.insert(0, "/tmp/mutkit")
import gtirb_from_repo  # noqa: E402

gtirb = gtirb_from_repo.load()

BLOCK = uuid.UUID(int=7)


def load_fresh():
    ir = gtirb.IR()
    m = gtirb.Module(name="m", ir=ir)
    s = gtirb.Section(name="s", module=m)
    bi = gtirb.ByteInterval(size=8, address=0, section=s)
    b = gtirb.CodeBlock(size=4, byte_interval=bi, uuid=BLOCK)
    m.aux_data["t"] = gtirb.AuxData({b: 5}, "mapping<UUID,uint64_t>")
    f = io.BytesIO()
    ir.save_protobuf_file(f)
    f.seek(0)
    return gtirb.IR.load_protobuf_file(f)


def describe(world, key):
    """name a table key relative to the world it was read in"""
    for name, obj in world.items():
        if key is obj:
            return name
    return "raw UUID" if isinstance(key, uuid.UUID) else repr(key)


def history_move_module(extra_read):
    """edit history: load; move the module into a second IR.  Final lookup: the module's table."""
    ir1 = load_fresh()
    m = ir1.modules[0]
    b = ir1.get_by_uuid(BLOCK)
    if extra_read:
        m.aux_data["t"].data  # an additional lookup before the edit
    ir2 = gtirb.IR()
    m.ir = ir2  # the edit
    assert b.ir is ir2 and ir2.get_by_uuid(BLOCK) is b  # current structure: b belongs to m's IR
    (key,) = m.aux_data["t"].data.keys()
    return describe({"the module's own block": b}, key)


def history_remove_block(extra_read):
    """edit history: load; detach the block.  Final lookup: the module's table."""
    ir = load_fresh()
    m = ir.modules[0]
    b = ir.get_by_uuid(BLOCK)
    if extra_read:
        m.aux_data["t"].data
    b.byte_interval = None  # the edit
    (key,) = m.aux_data["t"].data.keys()
    return describe({"the detached block": b}, key)


def history_foreign_block(extra_read):
    """edit history: load; move the module to ir2; give ir1 a new, unrelated block with the same UUID."""
    ir1 = load_fresh()
    m = ir1.modules[0]
    b = ir1.get_by_uuid(BLOCK)
    if extra_read:
        m.aux_data["t"].data
    ir2 = gtirb.IR()
    m.ir = ir2
    other = gtirb.CodeBlock(uuid=BLOCK)  # legal: ir1 no longer holds a node with this UUID
    gtirb.ByteInterval(
        size=4,
        blocks=[other],
        section=gtirb.Section(name="x", module=gtirb.Module(name="n", ir=ir1)),
    )
    (key,) = m.aux_data["t"].data.keys()
    return describe({"the module's own block": b, "A BLOCK OF ANOTHER IR": other}, key)


bad = 0
for hist in (history_move_module, history_remove_block, history_foreign_block):
    without, with_ = hist(False), hist(True)
    print("%-24s no extra lookup -> key is %-28s | extra lookup before the edit -> key is %s" % (hist.__name__, without, with_))
    if without != with_:
        bad += 1
if bad:
    print("VIOLATION: %d histories give different final AuxData answers depending on an earlier read" % bad)
    sys.exit(1)
print("ok")
