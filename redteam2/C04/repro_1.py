"""C04 / finding 1: `parent.collection ^= {x, twin_of_x}` (replace a child by
the node with the same UUID from a second load of the same file, in ONE
operation) leaves the IR's bookkeeping wrong when the set happens to yield
the twin first; the next detach of the twin then raises KeyError half-way and
the twin stays listed in `module.sections` although `twin.module is None`
(and gets two parents on the next move).

Run: VERIF_REPO=/tmp/hunt2_C04 /venv/bin/python repro_1.py
exit 1 = violation shown, exit 0 = not shown."""
import io
import sys

sys.path.insert(0, "/tmp/mutkit")
import gtirb_from_repo  # noqa: E402

gtirb = gtirb_from_repo.load()


def roundtrip(ir):
    f = io.BytesIO()
    ir.save_protobuf_file(f)
    f.seek(0)
    return gtirb.IR.load_protobuf_file(f)


def attempt():
    src = gtirb.IR()
    m = gtirb.Module(name="m", ir=src)
    gtirb.Section(name=".text", module=m)
    A = roundtrip(src)  # two loads of one file: equal UUIDs in different IRs
    B = roundtrip(src)
    mA = A.modules[0]
    sA = next(iter(mA.sections))
    sB = next(iter(B.modules[0].sections))
    assert sA.uuid == sB.uuid and sA is not sB

    # One public operation: sA leaves mA, sB (its twin from the other load)
    # enters mA. Before and after it, the UUIDs attached to IR A are pairwise
    # distinct.
    mA.sections ^= {sA, sB}
    assert set(mA.sections) == {sB} and sB.module is mA and sA.module is None

    # Now detach sB again, from the child end.
    try:
        sB.module = None
    except KeyError as e:
        problems = ["sB.module = None raised KeyError(%s)" % e]
    else:
        problems = []
    listed = any(x is sB for x in mA.sections)
    if listed != (sB.module is mA):
        problems.append(
            "sB in mA.sections: %s, but sB.module is mA: %s"
            % (listed, sB.module is mA)
        )
    if problems:
        # the follow-up: a second parent
        other = gtirb.Module(name="other")
        sB.module = other
        holders = [p.name for p in (mA, other)
                   if any(x is sB for x in p.sections)]
        problems.append("after sB.module = other, sB is listed by: %s"
                        % holders)
    return problems


for k in range(60):  # the order in which a set yields {sA, sB} varies
    problems = attempt()
    if problems:
        print("VIOLATION (attempt %d):" % k)
        for p in problems:
            print("  ", p)
        sys.exit(1)
print("no violation shown")
sys.exit(0)
