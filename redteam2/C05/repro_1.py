"""C05 / IR scope: after moving a module inside ir.modules by slice (or item) assignment,
IR lookups report a block twice (and report blocks of a module whose .ir is None).
Run: VERIF_REPO=/tmp/hunt2_C05 /venv/bin/python repro_1.py"""
import sys
sys.path.insert(0, "/tmp/mutkit")
import gtirb_from_repo
gtirb = gtirb_from_repo.load()
from gtirb import IR, Module, Section, ByteInterval, CodeBlock


def mk(ir, name, addr):
    m = Module(name=name, ir=ir)
    s = Section(name=".text", module=m)
    bi = ByteInterval(address=addr, size=8, section=s)
    CodeBlock(offset=0, size=4, byte_interval=bi)
    return m


ir = IR()
a = mk(ir, "a", 0x10)
b = mk(ir, "b", 0x20)
# replace the second module by the first one (a is moved, b leaves the IR) ...
ir.modules[1:2] = [a]
problems = []
names = [m.name for m in ir.modules]
if b.ir is None and b in ir.modules:
    problems.append("b.ir is None but b is still listed: ir.modules == %r" % names)
# ... and put b back
ir.modules.append(b)
names = [m.name for m in ir.modules]
for fn in ("byte_blocks_on", "byte_blocks_at", "code_blocks_on", "code_blocks_at"):
    got = list(getattr(ir, fn)(0x20))
    if len(got) != len(set(map(id, got))):
        problems.append("ir.%s(0x20) returned the same block %d times (ir.modules == %r)" % (fn, len(got), names))
# fresh scan over the distinct blocks that say they belong to this IR
fresh = {id(blk) for m in {id(x): x for x in ir.modules}.values() for blk in m.byte_blocks if blk.address == 0x20}
if len(fresh) != 1:
    problems.append("unexpected scan result")

# item assignment variant: the operation raises AND leaves the list inconsistent
ir2 = IR()
x = mk(ir2, "x", 0x10); y = mk(ir2, "y", 0x20); z = mk(ir2, "z", 0x30)
try:
    ir2.modules[1] = x
except IndexError:
    pass
lost = [m.name for m in (x, y, z) if m.ir is ir2 and m not in ir2.modules]
ghost = [m.name for m in ir2.modules if m.ir is not ir2]
if lost or ghost:
    got = sorted(blk.address for blk in ir2.byte_blocks_at(range(0, 0x100)))
    problems.append(
        "after ir.modules[1] = x on [x, y, z]: modules with .ir set but unlisted %r, listed with .ir None %r; "
        "ir.byte_blocks_at(range(0,0x100)) -> %r" % (lost, ghost, [hex(v) for v in got])
    )

if problems:
    print("VIOLATION")
    for p in problems:
        print(" -", p)
    sys.exit(1)
print("ok")
