"""C05 / section, module, IR scope: *_blocks_at misses a zero-sized block that begins at the end
address of its interval (offset == interval.size, which includes every block of a zero-sized interval).
Run: VERIF_REPO=/tmp/hunt2_C05 /venv/bin/python repro_2.py"""
import sys
sys.path.insert(0, "/tmp/mutkit")
import gtirb_from_repo
gtirb = gtirb_from_repo.load()
from gtirb import IR, Module, Section, ByteInterval, CodeBlock, DataBlock

ir = IR()
m = Module(name="m", ir=ir)
s = Section(name=".data", module=m)
bi = ByteInterval(address=10, size=5, section=s)        # bytes [10, 15)
end = DataBlock(offset=5, size=0, byte_interval=bi)       # zero-sized "end of interval" block at address 15
empty = ByteInterval(address=100, size=0, section=s)      # zero-sized interval
mark = CodeBlock(offset=0, size=0, byte_interval=empty)   # zero-sized block at its start, address 100

problems = []
for blk, addr, kind in ((end, 15, "data"), (mark, 100, "code")):
    owner = blk.byte_interval
    # the block lies inside its interval's extent: offset + size <= interval.size, no byte of it is outside
    assert 0 <= blk.offset and blk.offset + blk.size <= owner.size
    assert blk.address == addr
    for q in (addr, range(addr, addr + 1), range(addr, addr + 50, 7)):
        ref = list(owner.byte_blocks_at(q))               # interval scope finds it
        assert ref == [blk], ref
        for scope in (s, m, ir):
            for fn in ("byte_blocks_at", kind + "_blocks_at"):
                got = list(getattr(scope, fn)(q))
                if blk not in got:
                    problems.append("%s.%s(%r) -> %r, but %s begins at %d (interval.%s finds it)"
                                    % (type(scope).__name__, fn, q, got, type(blk).__name__, addr, fn))
# the answer also depends on where the query range starts, not on membership:
a = list(s.byte_blocks_at(range(14, 16)))
b = list(s.byte_blocks_at(range(15, 16)))
if (end in a) != (end in b):
    problems.append("Section.byte_blocks_at(range(14,16)) finds the block at 15, byte_blocks_at(range(15,16)) does not")

if problems:
    print("VIOLATION (%d)" % len(problems))
    for p in problems[:8]:
        print(" -", p)
    sys.exit(1)
print("ok")
