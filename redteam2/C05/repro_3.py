"""C05 / every scope: *_blocks_on(range(start, stop, step)) with step > 1 treats the query as the whole
span [start, stop) instead of the addresses the range contains; blocks that intersect no queried address
are returned.  (Reading-dependent: see findings.json.)
Run: VERIF_REPO=/tmp/hunt2_C05 /venv/bin/python repro_3.py"""
import sys
sys.path.insert(0, "/tmp/mutkit")
import gtirb_from_repo
gtirb = gtirb_from_repo.load()
from gtirb import IR, Module, Section, ByteInterval, CodeBlock

ir = IR(); m = Module(name="m", ir=ir); s = Section(name="s", module=m)
bi = ByteInterval(address=0, size=100, section=s)
blk = CodeBlock(offset=5, size=1, byte_interval=bi)        # the single byte 5
q = range(0, 100, 50)                                      # the addresses {0, 50}
assert not (set(q) & set(range(blk.address, blk.address + blk.size)))
problems = []
for scope in (bi, s, m, ir):
    for fn in ("byte_blocks_on", "code_blocks_on"):
        got = list(getattr(scope, fn)(q))
        if blk in got:
            problems.append("%s.%s(%r) returns the block occupying [5,6)" % (type(scope).__name__, fn, q))
got = list(bi.byte_blocks_on_offset(q))
if blk in got:
    problems.append("ByteInterval.byte_blocks_on_offset(%r) returns the block occupying [5,6)" % (q,))
# the same range is honoured member-wise by the 'at' lookups
assert list(bi.byte_blocks_at(range(0, 100, 5))) == [blk] and list(bi.byte_blocks_at(q)) == []
# beyond the last member: range(0, 10, 7) == {0, 7}; a block at [8, 9) is returned too
blk2 = CodeBlock(offset=8, size=1, byte_interval=bi)
if blk2 in list(bi.byte_blocks_on(range(0, 10, 7))):
    problems.append("ByteInterval.byte_blocks_on(range(0,10,7)) returns the block at [8,9), past the last member 7")
if problems:
    print("VIOLATION (%d)" % len(problems))
    for p in problems:
        print(" -", p)
    sys.exit(1)
print("ok")
