"""C14: a table of an unknown type that is given a SUPPORTED type name is written
silently as the bytes it was loaded with (UnknownData passthrough ignores the
current type name) instead of as an encoding under its current type name."""
import io, struct, sys, uuid
sys.path.insert(0, "/tmp/mutkit")
import gtirb_from_repo
gtirb = gtirb_from_repo.load()
from gtirb.proto import IR_pb2

PV = gtirb.version.PROTOBUF_VERSION
FOO = struct.pack("<Q", 3) + b"abc" + b"-rest-of-the-foo-payload"   # bytes of a type "foo" (no codec)

def mkfile():
    p = IR_pb2.IR(); p.uuid = uuid.uuid4().bytes; p.version = PV
    p.aux_data["t"].type_name = "foo"; p.aux_data["t"].data = FOO
    return b"GTIRB\0\0" + bytes([PV]) + p.SerializeToString()
def load(b): return gtirb.IR.load_protobuf_file(io.BytesIO(b))
def save(ir):
    o = io.BytesIO(); ir.save_protobuf_file(o); return o.getvalue()
def table(b):
    p = IR_pb2.IR(); p.ParseFromString(b[8:]); return p.aux_data["t"].type_name, p.aux_data["t"].data

bad = []
for read_first in (False, True):
    ir = load(mkfile()); t = ir.aux_data["t"]
    if read_first:
        assert isinstance(t.data, gtirb.serialization.UnknownData)
    t.type_name = "string"            # the only edit: assign type_name (supported type)
    try:
        out = save(ir)
    except gtirb.serialization.EncodeError:
        continue                      # loud: acceptable
    tn, data = table(out)
    # is what was written an encoding of ANY value under the current type name?
    val = gtirb.AuxData.serializer.decode(data, tn)
    re = io.BytesIO(); gtirb.AuxData.serializer.encode(re, val, tn)
    if tn == "string" and data == FOO and re.getvalue() != data:
        bad.append("read_first=%s: save succeeded silently; table written as (%r, %r): the loaded 'foo' bytes "
                   "under the supported type name 'string' (they are not the encoding of a string)" % (read_first, tn, data))
        # next generation: an ordinary read + save now destroys the payload for good
        ir2 = load(out); v = ir2.aux_data["t"].data
        tn2, data2 = table(save(ir2))
        bad.append("   next generation: data reads as %r and is saved as %r (payload lost)" % (v, data2))
if bad:
    print("\n".join(bad)); sys.exit(1)
print("ok"); sys.exit(0)
