"""C02 reader direction: an AuxData message whose type_name is at its schema default ("")
(or any string the type-name grammar rejects) loads, but its `data` attribute cannot be
read: TypeNameError (an *Encode*Error) instead of the UnknownData blob every other
unknown type name yields; repr() of the table and a later type_name change + save fail too."""
import io, sys, uuid
sys.path.insert(0, "/tmp/mutkit")
import gtirb_from_repo
gtirb = gtirb_from_repo.load()
IRm = gtirb_from_repo.msg("IR")
V = gtirb.version.PROTOBUF_VERSION

bad = []
for type_name in ["", "foo<", "a,b", "<>"]:
    ir = IRm(); ir.uuid = uuid.uuid4().bytes; ir.version = V
    m = ir.modules.add(); m.uuid = uuid.uuid4().bytes
    for cont in (ir, m):
        a = cont.aux_data["k"]; a.type_name = type_name; a.data = b"\x01\x02\x03"
    x = gtirb.IR.load_protobuf_file(io.BytesIO(b"GTIRB\0\0" + bytes([V]) + ir.SerializeToString()))
    for cont in (x, x.modules[0]):
        ad = cont.aux_data["k"]
        if ad.type_name != type_name:
            bad.append("type_name %r read as %r" % (type_name, ad.type_name))
        try:
            d = ad.data
            if bytes(d) != b"\x01\x02\x03":
                bad.append("type_name %r: data %r" % (type_name, d))
        except Exception as e:  # noqa
            bad.append("type_name %r on %s: reading .data raises %s: %s" % (type_name, type(cont).__name__, type(e).__name__, e))
# control: an unknown but well-formed type name gives the raw bytes
ir = IRm(); ir.uuid = uuid.uuid4().bytes; ir.version = V
a = ir.aux_data["k"]; a.type_name = "foo<bar>"; a.data = b"\x01\x02\x03"
x = gtirb.IR.load_protobuf_file(io.BytesIO(b"GTIRB\0\0" + bytes([V]) + ir.SerializeToString()))
assert x.aux_data["k"].data == b"\x01\x02\x03" and isinstance(x.aux_data["k"].data, gtirb.serialization.UnknownData)
if bad:
    print("VIOLATION (C02 reader, AuxData.type_name at default / not a type name):")
    for b in bad:
        print("  -", b)
    sys.exit(1)
print("ok")
