"""C02 reader direction: schema-valid, referentially closed messages in which a payload
one-of is at its default (unset) are not loaded: Block without code/data and
SymbolicExpression without addr_const/addr_addr raise a bare TypeError."""
import io, sys, uuid
sys.path.insert(0, "/tmp/mutkit")
import gtirb_from_repo
gtirb = gtirb_from_repo.load()
IRm = gtirb_from_repo.msg("IR")
V = gtirb.version.PROTOBUF_VERSION


def base():
    ir = IRm(); ir.uuid = uuid.uuid4().bytes; ir.version = V
    m = ir.modules.add(); m.uuid = uuid.uuid4().bytes; m.name = "m"
    s = m.sections.add(); s.uuid = uuid.uuid4().bytes
    bi = s.byte_intervals.add(); bi.uuid = uuid.uuid4().bytes; bi.size = 8
    return ir, bi


def load(msg):
    assert msg.IsInitialized()
    return gtirb.IR.load_protobuf_file(io.BytesIO(b"GTIRB\0\0" + bytes([V]) + msg.SerializeToString()))


bad = []
# (a) a Block whose one-of `value` is unset (only the offset is given)
ir, bi = base()
bi.blocks.add().offset = 3
try:
    load(ir)
except Exception as e:  # noqa
    bad.append("Block with unset one-of: %s: %s" % (type(e).__name__, e))
# (b) a SymbolicExpression whose one-of `value` is unset (only attribute flags)
ir, bi = base()
bi.symbolic_expressions[0].attribute_flags.append(1)
try:
    load(ir)
except Exception as e:  # noqa
    bad.append("SymbolicExpression with unset one-of: %s: %s" % (type(e).__name__, e))
# control: the third one-of of the schema, Symbol.optional_payload, IS accepted when unset
ir, bi = base()
sy = ir.modules[0].symbols.add(); sy.uuid = uuid.uuid4().bytes
x = load(ir)
assert next(iter(x.symbols)).value is None and next(iter(x.symbols)).referent is None
if bad:
    print("VIOLATION (C02 reader, one-ofs at default):")
    for b in bad:
        print("  -", b)
    sys.exit(1)
print("ok")
