"""C02 writer direction: an edge label that is falsy (a user subclass of Edge.Label that
defines __bool__/__len__ without touching equality) is silently dropped by save:
CFG._to_protobuf tests `if l:` instead of `if l is not None`."""
import io, sys
sys.path.insert(0, "/tmp/mutkit")
import gtirb_from_repo
gtirb = gtirb_from_repo.load()
IRm = gtirb_from_repo.msg("IR")


class CountedLabel(gtirb.Edge.Label):
    """An Edge.Label with an extra, harmless notion of truth: "is this a
    conditional edge?" Equality and hashing are inherited unchanged."""

    def __bool__(self):
        return self.conditional


ir = gtirb.IR()
m = gtirb.Module(name="m", ir=ir)
p = gtirb.ProxyBlock(module=m)
q = gtirb.ProxyBlock(module=m)
label = CountedLabel(gtirb.Edge.Type.Call, False, True)
ir.cfg.add(gtirb.Edge(p, q, label))
(edge,) = ir.cfg
assert edge.label is not None and edge.label == gtirb.Edge.Label(gtirb.Edge.Type.Call, False, True)

out = io.BytesIO()
ir.save_protobuf_file(out)
msg = IRm()
msg.ParseFromString(out.getvalue()[8:])
(pe,) = msg.cfg.edges
bad = []
if not pe.HasField("label"):
    bad.append("in memory the edge has label %r, the written Edge message has NO label field" % (edge.label,))
else:
    if (pe.label.type, pe.label.conditional, pe.label.direct) != (1, False, True):
        bad.append("label fields differ: %s" % pe.label)
ir2 = gtirb.IR.load_protobuf_file(io.BytesIO(out.getvalue()))
(e2,) = ir2.cfg
if e2.label != edge.label:
    bad.append("after reload the label is %r (was %r): the Call/direct information is lost" % (e2.label, edge.label))
if bad:
    print("VIOLATION (C02 writer, CFG edge label):")
    for b in bad:
        print("  -", b)
    sys.exit(1)
print("ok")
