"""C07: a type name of the grammar nested about 500 deep cannot be encoded or decoded (RecursionError)."""
import io, sys
sys.path.insert(0, "/tmp/mutkit")
import gtirb_from_repo
gtirb = gtirb_from_repo.load()
S = gtirb.AuxData.serializer
bad = []
for depth in (100, 400, 500, 800):
    tn = "sequence<" * depth + "int8_t" + ">" * depth
    val = 7
    for _ in range(depth):
        val = [val]
    try:
        out = io.BytesIO(); S.encode(out, val, tn)
    except RecursionError as e:
        bad.append("depth %d: encode raised RecursionError" % depth)
    raw = (b"\x01" + b"\0" * 7) * depth + b"\x07"
    try:
        got = S.decode(raw, tn)
        for _ in range(depth):
            (got,) = got
        assert got == 7
    except RecursionError as e:
        bad.append("depth %d: decode of well-formed bytes raised RecursionError" % depth)
# the same limit through the file API
ir = gtirb.IR()
depth = 500
val = 7
for _ in range(depth):
    val = [val]
ir.aux_data["deep"] = gtirb.AuxData(val, "sequence<" * depth + "int8_t" + ">" * depth)
try:
    ir.save_protobuf_file(io.BytesIO())
except RecursionError:
    bad.append("IR.save_protobuf_file with a depth-500 table raised RecursionError")
if bad:
    for b in bad: print("VIOLATION:", b)
    sys.exit(1)
print("ok")
