"""C07: after `ir.modules[i] = <module already in ir.modules>` a UUID entry naming a module that
IS in ir.modules decodes as a plain UUID, and an entry naming a module that is NOT in ir.modules
any more decodes as the Module object."""
import io, sys
sys.path.insert(0, "/tmp/mutkit")
import gtirb_from_repo
gtirb = gtirb_from_repo.load()

ir0 = gtirb.IR()
for n in "abc":
    gtirb.Module(name=n, ir=ir0)
ir0.aux_data["mods"] = gtirb.AuxData(list(ir0.modules), "sequence<UUID>")
buf = io.BytesIO(); ir0.save_protobuf_file(buf); buf.seek(0)
ir = gtirb.IR.load_protobuf_file(buf)          # table "mods" is still undecoded
a, b, c = ir.modules

ir.modules[1] = a                               # no exception
listed = list(ir.modules)
decoded = ir.aux_data["mods"].data              # decode against this very IR
by_uuid = {m.uuid: m for m in (a, b, c)}
problems = []
for entry in decoded:
    u = entry.uuid if isinstance(entry, gtirb.Node) else entry
    mod = by_uuid[u]
    in_ir = any(mod is x for x in listed)
    if in_ir and entry is not mod:
        problems.append("module %r is in ir.modules but its entry decoded as %r" % (mod.name, entry))
    if not in_ir and isinstance(entry, gtirb.Node):
        problems.append("module %r is not in ir.modules but its entry decoded as the Module object" % mod.name)
# same thing through the codec API on freshly encoded bytes
out = io.BytesIO(); gtirb.AuxData.serializer.encode(out, listed, "sequence<UUID>")
again = gtirb.AuxData.serializer.decode(out.getvalue(), "sequence<UUID>", ir.get_by_uuid)
if not all(x is y for x, y in zip(again, listed)):
    problems.append("encode(list(ir.modules)) then decode gives %r, not the module objects" % ([type(x).__name__ for x in again],))
if problems:
    print("ir.modules after `ir.modules[1] = a` on [a, b, c]:", [m.name for m in listed])
    print("  .ir is ir:", {m.name: m.ir is ir for m in (a, b, c)})
    for p in problems:
        print("VIOLATION:", p)
    sys.exit(1)
print("ok")
