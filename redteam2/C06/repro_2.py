"""IR-level lookups miss intervals of a module whose `.ir` is the IR, and
return intervals of a module whose `.ir` is None.

`ir.modules[i] = m` for a module m that the same list already holds at a lower
index: the ownership hooks detach the module at i, then moving m shifts the
list, and the final store overwrites the wrong slot.  No exception (case A);
with a two-element list the same defect shows as an IndexError raised after the
hooks ran (case B).

run: VERIF_REPO=/tmp/hunt2_C06 /venv/bin/python repro_2.py
"""
import sys

sys.path.insert(0, "/tmp/mutkit")
import gtirb_from_repo

gtirb = gtirb_from_repo.load()
from gtirb import IR, ByteInterval, Module, Section

bad = []


def mk(ir, name, addr):
    m = Module(name=name, ir=ir)
    s = Section(name="s_" + name, module=m)
    bi = ByteInterval(address=addr, size=2, section=s)
    return m, s, bi


def check(tag, ir, everything):
    # oracle from the child side of the public containment attributes:
    # an interval is a member of the IR iff interval.ir is the IR
    for m, s, bi in everything:
        member = bi.ir is ir
        found = bi in list(ir.byte_intervals_on(bi.address))
        found_at = bi in list(ir.byte_intervals_at(bi.address))
        sec = s in list(ir.sections_on(bi.address))
        sec_at = s in list(ir.sections_at(range(bi.address, bi.address + 1)))
        if not (member == found == found_at == sec == sec_at):
            bad.append(
                "%s: module %r: interval.ir is ir -> %s, module in ir.modules -> %s, "
                "byte_intervals_on -> %s, byte_intervals_at -> %s, "
                "sections_on -> %s, sections_at -> %s"
                % (tag, m.name, member, any(x is m for x in ir.modules),
                   found, found_at, sec, sec_at)
            )


# case A: three modules, item assignment, no exception
ir = IR()
A = mk(ir, "a", 0x10)
B = mk(ir, "b", 0x20)
C = mk(ir, "c", 0x30)
ir.modules[1] = A[0]  # "replace b by a"
print("A: ir.modules =", [m.name for m in ir.modules],
      " .ir is ir:", {t[0].name: t[0].ir is ir for t in (A, B, C)})
check("A", ir, (A, B, C))

# case B: two modules: IndexError after the hooks have run
ir = IR()
A = mk(ir, "a", 0x10)
B = mk(ir, "b", 0x20)
try:
    ir.modules[1] = A[0]
except IndexError as e:
    print("B: IndexError:", e)
print("B: ir.modules =", [m.name for m in ir.modules],
      " .ir is ir:", {t[0].name: t[0].ir is ir for t in (A, B)})
check("B", ir, (A, B))

if bad:
    print("\n".join(bad))
    sys.exit(1)
print("ok")
