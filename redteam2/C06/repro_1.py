"""IR-level interval/section lookups return members twice ("each once" violated).

Replacing one module of `ir.modules` by a module that the same list already
holds (slice assignment, no exception) leaves the *replaced* module listed
although it was un-owned (`b.ir is None`); attaching it again the ordinary way
(`b.ir = ir`) then lists it twice.  Also shown: a slice assignment naming a
module twice stores it twice.

run: VERIF_REPO=/tmp/hunt2_C06 /venv/bin/python repro_1.py
"""
import sys

sys.path.insert(0, "/tmp/mutkit")
import gtirb_from_repo

gtirb = gtirb_from_repo.load()
from gtirb import IR, ByteInterval, Module, Section

bad = []


def scan_once(ir, q):
    """fresh scan of the structure, every member once"""
    seen, out = set(), []
    for m in ir.modules:
        for s in m.sections:
            for bi in s.byte_intervals:
                if id(bi) in seen:
                    continue
                seen.add(id(bi))
                if (
                    bi.address is not None
                    and bi.size
                    and bi.address <= q < bi.address + bi.size
                ):
                    out.append(bi)
    return out


# --- case A: replace b by a, then re-add b -------------------------------
ir = IR()
a = Module(name="a", ir=ir)
b = Module(name="b", ir=ir)
s = Section(name=".text", module=b)
bi = ByteInterval(address=0x10, size=4, section=s)

ir.modules[1:2] = [a]  # "put a where b was": legal arguments, no exception
state_after_replace = ([m.name for m in ir.modules], b.ir is ir)
b.ir = ir  # b.ir is None at this point, so this is a plain (re-)attach

got_bi = list(ir.byte_intervals_on(0x10))
got_at = list(ir.byte_intervals_at(range(0, 0x100)))
got_s_on = list(ir.sections_on(0x10))
got_s_at = list(ir.sections_at(0x10))
exp = scan_once(ir, 0x10)
print("A: ir.modules after slice assignment:", state_after_replace)
print("A: ir.modules after b.ir = ir      :", [m.name for m in ir.modules])
for name, got, want in (
    ("ir.byte_intervals_on(0x10)", got_bi, exp),
    ("ir.byte_intervals_at(range(0,0x100))", got_at, exp),
    ("ir.sections_on(0x10)", got_s_on, [s]),
    ("ir.sections_at(0x10)", got_s_at, [s]),
):
    if len(got) != len(want):
        bad.append(
            "A: %s returned %d results, expected %d (each member once)"
            % (name, len(got), len(want))
        )

# --- case B: slice assignment naming the same module twice ---------------
ir = IR()
m = Module(name="m", ir=ir)
s = Section(name=".data", module=m)
bi = ByteInterval(address=0, size=2**64 - 1, section=s)
ir.modules[0:1] = [m, m]
got = list(ir.byte_intervals_on(2**63))
if len(got) != 1:
    bad.append(
        "B: after ir.modules[0:1] = [m, m]: ir.modules lists m %d times, "
        "ir.byte_intervals_on(2**63) returned %d results, expected 1"
        % (len(ir.modules), len(got))
    )

if bad:
    print("\n".join(bad))
    sys.exit(1)
print("ok")
