(* The aggregate iterators of section.py / module.py / ir.py (byte_blocks, code_blocks, data_blocks, byte_intervals,
   sections, symbols, proxy_blocks, cfg_nodes): plain itertools.chain compositions over the owning collections. *)
From Coq Require Import ZArith List Bool.
From V Require Import Result LazyTree World.
Import ListNotations.
Open Scope Z_scope.

Definition kfield (w : world) (p : id) (k : kind) : list id := field w p [k].

(* Section *)
Definition sec_byte_intervals (w : world) (s : id) : list id := kfield w s KBI.
Definition bi_blocks (w : world) (bi : id) : list id := field w bi [KCode; KData].
Definition sec_byte_blocks (w : world) (s : id) : list id := flat_map (bi_blocks w) (sec_byte_intervals w s).
Definition only (w : world) (k : kind) (l : list id) : list id := filter (fun b => kind_eqb (kindof w b) k) l.
Definition sec_code_blocks (w : world) (s : id) : list id := only w KCode (sec_byte_blocks w s).
Definition sec_data_blocks (w : world) (s : id) : list id := only w KData (sec_byte_blocks w s).

(* Module *)
Definition mod_sections (w : world) (m : id) : list id := kfield w m KSec.
Definition mod_symbols (w : world) (m : id) : list id := kfield w m KSym.
Definition mod_proxies (w : world) (m : id) : list id := kfield w m KProxy.
Definition mod_byte_intervals (w : world) (m : id) : list id := flat_map (sec_byte_intervals w) (mod_sections w m).
Definition mod_byte_blocks (w : world) (m : id) : list id := flat_map (sec_byte_blocks w) (mod_sections w m).
Definition mod_code_blocks (w : world) (m : id) : list id := flat_map (sec_code_blocks w) (mod_sections w m).
Definition mod_data_blocks (w : world) (m : id) : list id := flat_map (sec_data_blocks w) (mod_sections w m).
(* Module.cfg_nodes = chain(code_blocks, proxies) *)
Definition mod_cfg_nodes (w : world) (m : id) : list id := mod_code_blocks w m ++ mod_proxies w m.

(* IR *)
Definition ir_modules (w : world) (ir : id) : list id := kids w ir.
Definition ir_lift_agg (f : world -> id -> list id) (w : world) (ir : id) : list id := flat_map (f w) (ir_modules w ir).
Definition ir_sections := ir_lift_agg mod_sections.
Definition ir_symbols := ir_lift_agg mod_symbols.
Definition ir_proxy_blocks := ir_lift_agg mod_proxies.
Definition ir_byte_intervals := ir_lift_agg mod_byte_intervals.
Definition ir_byte_blocks := ir_lift_agg mod_byte_blocks.
Definition ir_code_blocks := ir_lift_agg mod_code_blocks.
Definition ir_data_blocks := ir_lift_agg mod_data_blocks.
Definition ir_cfg_nodes := ir_lift_agg mod_cfg_nodes.

(* selector used by the harness: which aggregate of which scope *)
Definition aggregate (w : world) (scope : id) (a : Z) : list id :=
  match kindof w scope, a with
  | KSec, 0 => sec_byte_intervals w scope | KSec, 1 => sec_byte_blocks w scope
  | KSec, 2 => sec_code_blocks w scope | KSec, 3 => sec_data_blocks w scope
  | KMod, 0 => mod_byte_intervals w scope | KMod, 1 => mod_byte_blocks w scope
  | KMod, 2 => mod_code_blocks w scope | KMod, 3 => mod_data_blocks w scope
  | KMod, 4 => mod_cfg_nodes w scope
  | KIR, 0 => ir_byte_intervals w scope | KIR, 1 => ir_byte_blocks w scope
  | KIR, 2 => ir_code_blocks w scope | KIR, 3 => ir_data_blocks w scope
  | KIR, 4 => ir_cfg_nodes w scope | KIR, 5 => ir_sections w scope
  | KIR, 6 => ir_symbols w scope | KIR, 7 => ir_proxy_blocks w scope
  | _, _ => []
  end.
