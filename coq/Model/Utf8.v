(* UTF-8 as CPython's str.encode('utf-8') / bytes.decode('utf-8') (strict) define it on
   Unicode scalar values.  Strings are lists of code points (Z); bytes are Z in [0,256). *)
From Coq Require Import ZArith List Bool.
Import ListNotations.
Open Scope Z_scope.

Definition is_surrogate (c : Z) : bool := (55296 <=? c) && (c <=? 57343).      (* D800..DFFF *)
Definition is_scalar (c : Z) : bool := (0 <=? c) && (c <? 1114112) && negb (is_surrogate c).

Definition utf8_enc1 (c : Z) : list Z :=
  if c <? 128 then [c]
  else if c <? 2048 then [192 + c / 64; 128 + c mod 64]
  else if c <? 65536 then [224 + c / 4096; 128 + (c / 64) mod 64; 128 + c mod 64]
  else [240 + c / 262144; 128 + (c / 4096) mod 64; 128 + (c / 64) mod 64; 128 + c mod 64].

Definition utf8_encode (s : list Z) : list Z := flat_map utf8_enc1 s.

Definition cont (b : Z) : bool := (128 <=? b) && (b <? 192).

Definition ocons (c : Z) (o : option (list Z)) : option (list Z) :=
  match o with Some l => Some (c :: l) | None => None end.

(* strict decoder: rejects stray continuation bytes, overlong forms, surrogates, > U+10FFFF,
   truncated sequences *)
Fixpoint utf8_decode (bs : list Z) : option (list Z) :=
  match bs with
  | [] => Some []
  | b0 :: r0 =>
    if b0 <? 0 then None
    else if b0 <? 128 then ocons b0 (utf8_decode r0)
    else if b0 <? 194 then None
    else if b0 <? 224 then
      match r0 with
      | b1 :: r1 =>
        if cont b1 then ocons ((b0 - 192) * 64 + (b1 - 128)) (utf8_decode r1) else None
      | _ => None
      end
    else if b0 <? 240 then
      match r0 with
      | b1 :: b2 :: r2 =>
        let c := (b0 - 224) * 4096 + (b1 - 128) * 64 + (b2 - 128) in
        if cont b1 && cont b2 && (2048 <=? c) && negb (is_surrogate c)
        then ocons c (utf8_decode r2) else None
      | _ => None
      end
    else if b0 <? 245 then
      match r0 with
      | b1 :: b2 :: b3 :: r3 =>
        let c := (b0 - 240) * 262144 + (b1 - 128) * 4096 + (b2 - 128) * 64 + (b3 - 128) in
        if cont b1 && cont b2 && cont b3 && (65536 <=? c) && (c <? 1114112)
        then ocons c (utf8_decode r3) else None
      | _ => None
      end
    else None
  end.
