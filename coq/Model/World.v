(* The object graph of the Python API as a state machine: a transcription of the ownership
   code of ir.py (IR._ModuleList), module.py (Module._NodeSet, _index_add/_index_discard),
   section.py (Section._ByteIntervalSet), byteinterval.py (ByteInterval._BlockSet,
   _SymbolicExprDict), block.py / symbol.py (parent setters, _IndexedAttribute fields),
   util.py (ListWrapper, SetWrapper, the collections.abc mixins they inherit, and the
   interval-tree lookup helpers).  Node identity is a harness-assigned number. *)
From Coq Require Import ZArith List Bool.
From V Require Import Result LazyTree.
From V Require SeqOps.
Import ListNotations.
Open Scope Z_scope.

Definition id := Z.

Inductive kind := KIR | KMod | KSec | KBI | KCode | KData | KProxy | KSym.

Definition kind_eqb (a b : kind) : bool :=
  match a, b with
  | KIR, KIR | KMod, KMod | KSec, KSec | KBI, KBI | KCode, KCode | KData, KData
  | KProxy, KProxy | KSym, KSym => true
  | _, _ => false
  end.

Inductive payload := PNone | PVal (z : Z) | PRef (b : id).

Record node := {
  nk : kind;
  nuuid : Z;
  npar : option id;        (* _ir / _module / _section / _byte_interval *)
  naddr : option Z;        (* ByteInterval.address *)
  nsize : Z;               (* ByteInterval.size / ByteBlock.size *)
  noff : Z;                (* ByteBlock.offset *)
  nname : Z;               (* Symbol.name (harness name number) *)
  npay : payload           (* Symbol._payload *)
}.

Definition upd {X : Type} (f : id -> X) (k : id) (v : X) : id -> X :=
  fun x => if x =? k then v else f x.

Record world := {
  nodes : id -> option node;
  kids : id -> list id;                     (* children of a parent, all kinds; IR: ir.modules in order *)
  cache : id -> list (Z * id);              (* IR._local_uuid_cache, insertion ordered dict *)
  nix : id -> list (Z * list id);           (* Module._symbol_name_index *)
  rix : id -> list (id * list id);          (* Module._symbol_referent_index *)
  tree : id -> ltree;                       (* ByteInterval._interval_tree / Section._interval_index *)
  symx : id -> list (Z * id)                (* ByteInterval._symbolic_expressions, ascending offsets *)
}.

Definition w0 : world :=
  {| nodes := fun _ => None; kids := fun _ => []; cache := fun _ => []; nix := fun _ => [];
     rix := fun _ => []; tree := fun _ => lt_empty; symx := fun _ => [] |}.

Definition set_nodes w f := {| nodes := f; kids := kids w; cache := cache w; nix := nix w; rix := rix w; tree := tree w; symx := symx w |}.
Definition set_kids w f := {| nodes := nodes w; kids := f; cache := cache w; nix := nix w; rix := rix w; tree := tree w; symx := symx w |}.
Definition set_cache w f := {| nodes := nodes w; kids := kids w; cache := f; nix := nix w; rix := rix w; tree := tree w; symx := symx w |}.
Definition set_nix w f := {| nodes := nodes w; kids := kids w; cache := cache w; nix := f; rix := rix w; tree := tree w; symx := symx w |}.
Definition set_rix w f := {| nodes := nodes w; kids := kids w; cache := cache w; nix := nix w; rix := f; tree := tree w; symx := symx w |}.
Definition set_tree w f := {| nodes := nodes w; kids := kids w; cache := cache w; nix := nix w; rix := rix w; tree := f; symx := symx w |}.
Definition set_symx w f := {| nodes := nodes w; kids := kids w; cache := cache w; nix := nix w; rix := rix w; tree := tree w; symx := f |}.

Definition dnode : node :=
  {| nk := KSym; nuuid := 0; npar := None; naddr := None; nsize := 0; noff := 0; nname := 0; npay := PNone |}.
Definition getn (w : world) (n : id) : node := match nodes w n with Some x => x | None => dnode end.
Definition kindof (w : world) (n : id) : kind := nk (getn w n).
Definition par (w : world) (n : id) : option id := npar (getn w n).

Definition with_par (x : node) (p : option id) : node :=
  {| nk := nk x; nuuid := nuuid x; npar := p; naddr := naddr x; nsize := nsize x; noff := noff x; nname := nname x; npay := npay x |}.
Definition with_addr (x : node) (a : option Z) : node :=
  {| nk := nk x; nuuid := nuuid x; npar := npar x; naddr := a; nsize := nsize x; noff := noff x; nname := nname x; npay := npay x |}.
Definition with_size (x : node) (s : Z) : node :=
  {| nk := nk x; nuuid := nuuid x; npar := npar x; naddr := naddr x; nsize := s; noff := noff x; nname := nname x; npay := npay x |}.
Definition with_off (x : node) (o : Z) : node :=
  {| nk := nk x; nuuid := nuuid x; npar := npar x; naddr := naddr x; nsize := nsize x; noff := o; nname := nname x; npay := npay x |}.
Definition with_name (x : node) (s : Z) : node :=
  {| nk := nk x; nuuid := nuuid x; npar := npar x; naddr := naddr x; nsize := nsize x; noff := noff x; nname := s; npay := npay x |}.
Definition with_pay (x : node) (p : payload) : node :=
  {| nk := nk x; nuuid := nuuid x; npar := npar x; naddr := naddr x; nsize := nsize x; noff := noff x; nname := nname x; npay := p |}.

Definition setn (w : world) (n : id) (x : node) : world := set_nodes w (upd (nodes w) n (Some x)).
Definition set_par (w : world) (n : id) (p : option id) : world := setn w n (with_par (getn w n) p).

Definition mem (x : id) (l : list id) : bool := existsb (Z.eqb x) l.
Definition remove_id (x : id) (l : list id) : list id := filter (fun y => negb (y =? x)) l.

(* ---------- derived accessors: .section / .module / .ir ---------- *)

Definition bind_o {X Y} (o : option X) (f : X -> option Y) : option Y := match o with Some x => f x | None => None end.

(* the IR a node "ultimately belongs to": the chain of parent properties *)
Definition ir_of (w : world) (n : id) : option id :=
  match kindof w n with
  | KIR => None
  | KMod => par w n
  | KSec | KSym | KProxy => bind_o (par w n) (par w)
  | KBI => bind_o (par w n) (fun s => bind_o (par w s) (par w))
  | KCode | KData => bind_o (par w n) (fun b => bind_o (par w b) (fun s => bind_o (par w s) (par w)))
  end.

Definition module_of (w : world) (n : id) : option id :=
  match kindof w n with
  | KIR | KMod => None
  | KSec | KSym | KProxy => par w n
  | KBI => bind_o (par w n) (par w)
  | KCode | KData => bind_o (par w n) (fun b => bind_o (par w b) (par w))
  end.

Definition section_of (w : world) (n : id) : option id :=
  match kindof w n with
  | KBI => par w n
  | KCode | KData => bind_o (par w n) (par w)
  | _ => None
  end.

(* ---------- the per-IR UUID table ---------- *)

Fixpoint dict_set {K V} (eqb : K -> K -> bool) (k : K) (v : V) (d : list (K * V)) : list (K * V) :=
  match d with
  | [] => [(k, v)]
  | (k', v') :: d' => if eqb k' k then (k', v) :: d' else (k', v') :: dict_set eqb k v d'
  end.

Fixpoint dict_get {K V} (eqb : K -> K -> bool) (k : K) (d : list (K * V)) : option V :=
  match d with
  | [] => None
  | (k', v') :: d' => if eqb k' k then Some v' else dict_get eqb k d'
  end.

Definition dict_del {K V} (eqb : K -> K -> bool) (k : K) (d : list (K * V)) : list (K * V) :=
  filter (fun p => negb (eqb (fst p) k)) d.

Definition dict_has {K V} (eqb : K -> K -> bool) (k : K) (d : list (K * V)) : bool :=
  match dict_get eqb k d with Some _ => true | None => false end.

(* the nodes _add_to_uuid_cache / _remove_from_uuid_cache visit: n and everything below it
   (containment has at most four levels below a module list entry) *)
Definition sub1 (w : world) (n : id) : list id := n :: kids w n.
Definition sub2 (w : world) (n : id) : list id := n :: flat_map (sub1 w) (kids w n).
Definition sub3 (w : world) (n : id) : list id := n :: flat_map (sub2 w) (kids w n).
Definition subtree (w : world) (n : id) : list id := n :: flat_map (sub3 w) (kids w n).

Definition cache_add (w : world) (ir n : id) : world :=
  set_cache w (upd (cache w) ir
    (fold_left (fun d x => dict_set Z.eqb (nuuid (getn w x)) x d) (subtree w n) (cache w ir))).

(* `del cache[uuid]` raises KeyError when the key is missing; reported through the flag *)
Definition cache_remove (w : world) (ir n : id) : world * bool :=
  let us := map (fun x => nuuid (getn w x)) (subtree w n) in
  let ok := forallb (fun u => dict_has Z.eqb u (cache w ir)) us in
  (set_cache w (upd (cache w) ir (fold_left (fun d u => dict_del Z.eqb u d) us (cache w ir))), ok).

(* ---------- symbol indexes (Module._index_add / _index_discard) ---------- *)

Definition bucket_add {K} (eqb : K -> K -> bool) (k : K) (x : id) (d : list (K * list id)) : list (K * list id) :=
  match dict_get eqb k d with
  | Some b => dict_set eqb k (if mem x b then b else b ++ [x]) d
  | None => d ++ [(k, [x])]
  end.

Definition bucket_discard {K} (eqb : K -> K -> bool) (k : K) (x : id) (d : list (K * list id)) : list (K * list id) :=
  match dict_get eqb k d with
  | Some b => let b' := remove_id x b in
              match b' with [] => dict_del eqb k d | _ => dict_set eqb k b' d end
  | None => d                       (* defaultdict creates an empty set and deletes it again *)
  end.

Definition referent (x : node) : option id := match npay x with PRef b => Some b | _ => None end.

Definition mod_index_add (w : world) (m n : id) : world :=
  match kindof w n with
  | KSym =>
    let x := getn w n in
    let w1 := set_nix w (upd (nix w) m (bucket_add Z.eqb (nname x) n (nix w m))) in
    match referent x with
    | Some b => set_rix w1 (upd (rix w1) m (bucket_add Z.eqb b n (rix w1 m)))
    | None => w1
    end
  | _ => w
  end.

Definition mod_index_discard (w : world) (m n : id) : world :=
  match kindof w n with
  | KSym =>
    let x := getn w n in
    let w1 := set_nix w (upd (nix w) m (bucket_discard Z.eqb (nname x) n (nix w m))) in
    match referent x with
    | Some b => set_rix w1 (upd (rix w1) m (bucket_discard Z.eqb b n (rix w1 m)))
    | None => w1
    end
  | _ => w
  end.

(* ---------- interval-tree keys ---------- *)

(* util._offset_interval(block) *)
Definition off_iv (w : world) (b : id) : option iv :=
  let x := getn w b in Some {| ib := noff x; ie := noff x + nsize x + 1; idata := b |}.

(* util._address_interval(byte interval) *)
Definition addr_iv (w : world) (bi : id) : option iv :=
  let x := getn w bi in
  match naddr x with
  | Some a => Some {| ib := a; ie := a + nsize x + 1; idata := bi |}
  | None => None
  end.

Definition tree_add_ev (w : world) (owner : id) (o : option iv) : world :=
  set_tree w (upd (tree w) owner (lt_add o (tree w owner))).
Definition tree_disc_ev (w : world) (owner : id) (o : option iv) : world :=
  set_tree w (upd (tree w) owner (lt_discard o (tree w owner))).

(* ---------- owning sets: discard ---------- *)

Definition drop_kid (w : world) (p c : id) : world := set_kids w (upd (kids w) p (remove_id c (kids w p))).
Definition push_kid (w : world) (p c : id) : world :=
  set_kids w (upd (kids w) p (if mem c (kids w p) then kids w p else kids w p ++ [c])).

(* X.discard(v) for the three owning set classes; p is the owner.  Returns the KeyError flag of
   the cache removal (true = fine). *)
Definition set_discard (w : world) (p c : id) : world * bool :=
  if negb (mem c (kids w p)) then (w, true)
  else
    match kindof w p with
    | KMod =>
      (* v._module = None; _index_discard(v); cache; data.discard *)
      let w1 := set_par w c None in
      let w2 := mod_index_discard w1 p c in
      let '(w3, ok) := match ir_of w2 p with Some ir => cache_remove w2 ir c | None => (w2, true) end in
      (drop_kid w3 p c, ok)
    | KSec =>
      (* _index_discard(v); v._section = None; cache; data.discard *)
      let w1 := tree_disc_ev w p (addr_iv w c) in
      let w2 := set_par w1 c None in
      let '(w3, ok) := match ir_of w2 p with Some ir => cache_remove w2 ir c | None => (w2, true) end in
      (drop_kid w3 p c, ok)
    | KBI =>
      let w1 := tree_disc_ev w p (off_iv w c) in
      let w2 := set_par w1 c None in
      let '(w3, ok) := match ir_of w2 p with Some ir => cache_remove w2 ir c | None => (w2, true) end in
      (drop_kid w3 p c, ok)
    | _ => (w, true)
    end.

(* ---------- owning sets: add ---------- *)

Definition set_add1 (w : world) (p c : id) : world * bool :=
  match kindof w p with
  | KMod =>
    (* if v._module is not None: old.discard(v); v._module = self; _index_add(v); cache; data.add *)
    let '(w0', ok0) := match par w c with Some old => set_discard w old c | None => (w, true) end in
    let w1 := set_par w0' c (Some p) in
    let w2 := mod_index_add w1 p c in
    let w3 := match ir_of w2 p with Some ir => cache_add w2 ir c | None => w2 end in
    (push_kid w3 p c, ok0)
  | KSec =>
    (* if v._section is not None: old.discard(v); _index_add(v); v._section = self; cache; data.add *)
    let '(w0', ok0) := match par w c with Some old => set_discard w old c | None => (w, true) end in
    let w1 := tree_add_ev w0' p (addr_iv w0' c) in
    let w2 := set_par w1 c (Some p) in
    let w3 := match ir_of w2 p with Some ir => cache_add w2 ir c | None => w2 end in
    (push_kid w3 p c, ok0)
  | _ => (w, true)
  end.

(* ByteInterval._BlockSet.update(iterables...): node_ir is read ONCE, members already present are
   skipped, the index events for all new items follow the ownership changes *)
Fixpoint dedup (l : list id) : list id :=
  match l with
  | [] => []
  | x :: l' => if mem x l' then dedup l' else x :: dedup l'
  end.

Definition blocks_update (w : world) (bi : id) (items : list id) : world * bool :=
  let node_ir := ir_of w bi in
  let new_items := filter (fun v => negb (mem v (kids w bi))) (dedup items) in
  let '(w1, ok) :=
    fold_left (fun (st : world * bool) v =>
                 let '(w, ok) := st in
                 let '(wa, oka) := match par w v with Some old => set_discard w old v | None => (w, true) end in
                 let wb := set_par wa v (Some bi) in
                 let wc := match node_ir with Some ir => cache_add wb ir v | None => wb end in
                 (wc, ok && oka)) new_items (w, true) in
  let w2 := fold_left (fun w v => tree_add_ev w bi (off_iv w v)) new_items w1 in
  (fold_left (fun w v => push_kid w bi v) new_items w2, ok).

Definition set_add (w : world) (p c : id) : world * bool :=
  match kindof w p with
  | KBI => blocks_update w p [c]
  | _ => set_add1 w p c
  end.

Definition fold_ok (f : world -> id -> world * bool) (l : list id) (w : world) : world * bool :=
  fold_left (fun (st : world * bool) v => let '(w, ok) := st in let '(w', ok') := f w v in (w', ok && ok')) l (w, true).

(* ---------- IR._ModuleList ---------- *)

(* position of v in a list (list.index) *)
Fixpoint index_of (x : id) (l : list id) : option nat :=
  match l with
  | [] => None
  | y :: l' => if y =? x then Some O else option_map S (index_of x l')
  end.

Fixpoint remove_at {X} (n : nat) (l : list X) : list X :=
  match l, n with
  | [], _ => []
  | _ :: l', O => l'
  | y :: l', S n' => y :: remove_at n' l'
  end.

Fixpoint insert_at {X} (n : nat) (x : X) (l : list X) : list X :=
  match n, l with
  | O, _ => x :: l
  | S n', y :: l' => y :: insert_at n' x l'
  | S _, [] => [x]
  end.

Fixpoint set_at {X} (n : nat) (x : X) (l : list X) : list X :=
  match l, n with
  | [], _ => []
  | _ :: l', O => x :: l'
  | y :: l', S n' => y :: set_at n' x l'
  end.

(* _ModuleList._remove(v): v._ir = None; v._remove_from_uuid_cache(cache) *)
Definition ml_remove_hook (w : world) (ir v : id) : world * bool :=
  cache_remove (set_par w v None) ir v.

(* del self[i] for a valid position: hook, then del _data[i] *)
Definition ml_del_at (w : world) (ir : id) (i : nat) : world * bool :=
  match nth_error (kids w ir) i with
  | Some v => let '(w1, ok) := ml_remove_hook w ir v in
              (set_kids w1 (upd (kids w1) ir (remove_at i (kids w1 ir))), ok)
  | None => (w, true)
  end.

(* self.remove(v) = del self[self._data.index(v)] *)
Definition ml_remove (w : world) (ir v : id) : res (world * bool) :=
  match index_of v (kids w ir) with
  | Some i => Ok (ml_del_at w ir i)
  | None => Err EValue
  end.

(* _ModuleList._add(v): if v._ir is not None: v._ir.modules.remove(v); v._ir = self; add to cache.
   (list.index raising because v is missing from its own IR's list cannot happen in a consistent
   world; the flag reports it.) *)
Definition ml_add_hook (w : world) (ir v : id) : world * bool :=
  let '(w1, ok) :=
    match par w v with
    | Some old => match ml_remove w old v with Ok r => r | Err _ => (w, false) end
    | None => (w, true)
    end in
  (cache_add (set_par w1 v (Some ir)) ir v, ok).

(* Python index normalisation for insert: clamp into [0, len] *)
Definition clamp_insert (i : Z) (len : nat) : nat :=
  let n := Z.of_nat len in
  let j := if i <? 0 then Z.max 0 (i + n) else Z.min i n in Z.to_nat j.

(* ListWrapper.__setitem__ (item and plain-slice assignment).  The list the assignment produces is worked out
   before anything is touched: list places the values (pre ++ vs ++ post), then every value just assigned stays
   only at the last position it was assigned to -- a module assigned while it sits elsewhere in this very list,
   or named twice on the right-hand side, is moved, not duplicated (as insert / append / extend move it).
   _remove then runs for the elements that leave the list, _add for those that enter it (both in list order),
   and the list is stored last. *)
Definition assign_slice (l : list id) (lo hi : nat) (vs : list id) : list id :=
  filter (fun x => negb (mem x vs)) (firstn lo l) ++ dedup vs ++ filter (fun x => negb (mem x vs)) (skipn hi l).

(* ... and with an EXTENDED slice, l[a:b:c] = vs with a step other than 1 (same length on both sides): list places the values
   at the positions of the range, then the same rule -- every value just assigned stays only at the last position it was
   assigned to (in the order of the right-hand side). *)
Fixpoint set_positions (l : list id) (ps : list nat) (vs : list id) : list id :=
  match ps, vs with
  | p :: ps', v :: vs' => set_positions (set_at p v l) ps' vs'
  | _, _ => l
  end.

(* the last position of `ps` (in the order of ps) at which new0 holds x *)
Fixpoint last_assigned (new0 : list id) (ps : list nat) (x : id) : option nat :=
  match ps with
  | [] => None
  | p :: ps' =>
    match last_assigned new0 ps' x with
    | Some q => Some q
    | None => match nth_error new0 p with Some y => if y =? x then Some p else None | None => None end
    end
  end.

Fixpoint keep_last_from (pos : nat) (new0 rest : list id) (ps : list nat) : list id :=
  match rest with
  | [] => []
  | x :: r =>
    (match last_assigned new0 ps x with
     | Some q => if Nat.eqb q pos then [x] else []
     | None => [x]
     end) ++ keep_last_from (S pos) new0 r ps
  end.

Definition assign_ext (l : list id) (ps : list nat) (vs : list id) : list id :=
  let new0 := set_positions l ps vs in keep_last_from 0 new0 new0 ps.

Definition ml_assign (w : world) (ir : id) (new : list id) : world * bool :=
  let old := kids w ir in
  let '(w1, ok1) := fold_ok (fun w v => ml_remove_hook w ir v) (filter (fun x => negb (mem x new)) old) w in
  let '(w2, ok2) := fold_ok (fun w v => ml_add_hook w ir v) (filter (fun x => negb (mem x old)) new) w1 in
  (set_kids w2 (upd (kids w2) ir new), ok1 && ok2).

(* insert(i, v) is `self[i:i] = [v]` (after the index conversion of IndexCheck.v), as the sequence interface defines it: a module
   that is already in the list is moved to where the built-in list puts it (fix after red-team round 3; before, _add(v) removed v
   from the list first and the index was applied to the shortened list) *)
Definition ml_insert (w : world) (ir : id) (i : Z) (v : id) : world * bool :=
  let l := kids w ir in
  let k := clamp_insert i (length l) in
  ml_assign w ir (assign_slice l k k [v]).

(* append(v) = insert(len(self), v) *)
Definition ml_append (w : world) (ir v : id) : world * bool :=
  ml_insert w ir (Z.of_nat (length (kids w ir))) v.

(* index normalisation for item access: Some position or IndexError *)
Definition norm_index (i : Z) (len : nat) : option nat :=
  let n := Z.of_nat len in
  if (0 <=? i) && (i <? n) then Some (Z.to_nat i)
  else if (i <? 0) && (0 <=? i + n) then Some (Z.to_nat (i + n))
  else None.

(* slice.indices(len) for step = 1 slices [a:b] given as optional bounds *)
Definition norm_bound (o : option Z) (dflt : Z) (len : nat) : Z :=
  let n := Z.of_nat len in
  match o with
  | None => dflt
  | Some i => if i <? 0 then Z.max 0 (i + n) else Z.min i n
  end.

(* ---------- operations ---------- *)

Inductive setm := SAdd | SDiscard | SRemove | SPop | SClear | SUpdate | SIor | SIand | SIsub | SIxor.

Inductive op :=
| ONew (n : id) (k : kind) (uuid : Z) (addr : option Z) (size off : Z) (name : Z) (pay : payload)
| OSetParent (c : id) (p : option id)                   (* x.ir / .module / .section / .byte_interval = p *)
| OSet (p : id) (fk : list kind) (m : setm) (args : list (list id))   (* owner, kinds of the field, method, iterables *)
| OModAppend (ir v : id)
| OModInsert (ir : id) (i : Z) (v : id)
| OModExtend (ir : id) (vs : list id)                  (* also += *)
| OModRemove (ir v : id)
| OModPop (ir : id) (i : Z)
| OModDelItem (ir : id) (i : Z)
| OModDelSlice (ir : id) (a b : option Z)
| OModSetItem (ir : id) (i : Z) (v : id)
| OModSetSlice (ir : id) (a b : option Z) (vs : list id)
| OModSetExt (ir : id) (a b : option Z) (c : Z) (vs : list id)     (* l[a:b:c] = vs with a step other than 1 *)
| OModClear (ir : id)
| OModReverse (ir : id)
| OAttrAddr (bi : id) (a : option Z)
| OAttrSize (n : id) (s : Z)                            (* ByteInterval.size or ByteBlock.size *)
| OAttrOff (b : id) (o : Z)
| OAttrName (s : id) (nm : Z)
| OAttrPay (s : id) (p : payload)
| OSymxSet (bi : id) (k : Z) (e : id)
| OSymxDel (bi : id) (k : Z)
| OSymxPop (bi : id) (k : Z)
| OSymxPopitem (bi : id)
| OSymxSetdefault (bi : id) (k : Z) (e : id)
| OSymxUpdate (bi : id) (kvs : list (Z * id))
| OSymxClear (bi : id)
| OSymxAssign (bi : id) (kvs : list (Z * id))
| OTouch (n : id).                                       (* force the lazy index of a ByteInterval / Section (any lookup does) *)

(* members of a field: the owner's children of the field's kinds *)
Definition field (w : world) (p : id) (fk : list kind) : list id :=
  filter (fun c => existsb (kind_eqb (kindof w c)) fk) (kids w p).

Definition flagged (r : world * bool) : res world :=
  let '(w, ok) := r in if ok then Ok w else Err EKey.

(* a set-valued method of an owning set.  `pop` receives the element the implementation chose
   (args = [[x]]) and checks that it is a member. *)
Definition do_set (w : world) (p : id) (fk : list kind) (m : setm) (args : list (list id)) : res world :=
  let cur := field w p fk in
  let arg1 := match args with a :: _ => a | [] => [] end in
  match m with
  | SAdd => match arg1 with [c] => flagged (set_add w p c) | _ => Err EImpossible end
  | SDiscard => match arg1 with [c] => flagged (set_discard w p c) | _ => Err EImpossible end
  | SRemove =>
    match arg1 with
    | [c] => if mem c cur then flagged (set_discard w p c) else Err EKey
    | _ => Err EImpossible
    end
  | SPop =>
    match cur with
    | [] => Err EKey
    | _ => match arg1 with
           | [c] => if mem c cur then flagged (set_discard w p c) else Err EImpossible
           | _ => Err EImpossible
           end
    end
  | SClear => flagged (fold_ok (fun w c => set_discard w p c) cur w)
  | SUpdate =>
    match kindof w p with
    | KBI => flagged (blocks_update w p (concat args))
    | _ => flagged (fold_ok (fun w c => set_add w p c) (concat args) w)
    end
  | SIor => flagged (fold_ok (fun w c => set_add w p c) arg1 w)
  | SIand => flagged (fold_ok (fun w c => set_discard w p c) (filter (fun c => negb (mem c arg1)) cur) w)
  | SIsub => flagged (fold_ok (fun w c => set_discard w p c) arg1 w)
  | SIxor =>
    (* members are taken out before the new elements are put in *)
    let '(w1, ok1) := fold_ok (fun w c => set_discard w p c) (filter (fun c => mem c cur) (dedup arg1)) w in
    let '(w2, ok2) := fold_ok (fun w c => set_add w p c) (filter (fun c => negb (mem c cur)) (dedup arg1)) w1 in
    flagged (w2, ok1 && ok2)
  end.

(* parent property setters *)
Definition do_setparent (w : world) (c : id) (p : option id) : res world :=
  match kindof w c with
  | KMod =>
    (* if self._ir is not None: self._ir.modules.remove(self); if value is not None: value.modules.append(self) *)
    do w1 <- match par w c with
             | Some old => do r <- ml_remove w old c; flagged r
             | None => Ok w
             end;
    match p with Some ir => flagged (ml_append w1 ir c) | None => Ok w1 end
  | KIR => Err EImpossible
  | _ =>
    do w1 <- match par w c with Some old => flagged (set_discard w old c) | None => Ok w end;
    match p with Some q => flagged (set_add w1 q c) | None => Ok w1 end
  end.

(* _IndexedAttribute.__set__ for block size/offset (parent: the byte interval) *)
Definition block_attr (w : world) (b : id) (f : node -> node) : world :=
  match par w b with
  | Some bi =>
    let w1 := tree_disc_ev w bi (off_iv w b) in
    let w2 := setn w1 b (f (getn w1 b)) in
    tree_add_ev w2 bi (off_iv w2 b)
  | None => setn w b (f (getn w b))
  end.

(* ... for interval address/size (parent: the section) *)
Definition bi_attr (w : world) (bi : id) (f : node -> node) : world :=
  match par w bi with
  | Some s =>
    let w1 := tree_disc_ev w s (addr_iv w bi) in
    let w2 := setn w1 bi (f (getn w1 bi)) in
    tree_add_ev w2 s (addr_iv w2 bi)
  | None => setn w bi (f (getn w bi))
  end.

(* ... for symbol name/payload (parent: the module) *)
Definition sym_attr (w : world) (s : id) (f : node -> node) : world :=
  match par w s with
  | Some m =>
    let w1 := mod_index_discard w m s in
    let w2 := setn w1 s (f (getn w1 s)) in
    mod_index_add w2 m s
  | None => setn w s (f (getn w s))
  end.

(* sorted symbolic-expression map *)
Fixpoint sd_set (k : Z) (e : id) (d : list (Z * id)) : list (Z * id) :=
  match d with
  | [] => [(k, e)]
  | (k', e') :: d' =>
    if k <? k' then (k, e) :: d
    else if k =? k' then (k, e) :: d'
    else (k', e') :: sd_set k e d'
  end.

Definition symx_upd (w : world) (bi : id) (d : list (Z * id)) : world := set_symx w (upd (symx w) bi d).

(* LazyIntervalTree.get() on the tree owned by n *)
Definition cur_ivs (w : world) (n : id) : list iv :=
  match kindof w n with
  | KBI => flat_map (fun b => match off_iv w b with Some i => [i] | None => [] end) (kids w n)
  | KSec => flat_map (fun b => match addr_iv w b with Some i => [i] | None => [] end) (kids w n)
  | _ => []
  end.

Definition force (w : world) (n : id) : world * list iv :=
  let '(t, idx) := lt_get (cur_ivs w n) (length (kids w n)) (tree w n) in
  (set_tree w (upd (tree w) n t), idx).

Definition step (w : world) (o : op) : res world :=
  match o with
  | ONew n k u a s f nm p =>
    Ok (let w1 := setn w n {| nk := k; nuuid := u; npar := None; naddr := a; nsize := s; noff := f; nname := nm; npay := p |} in
        match k with
        | KIR => set_cache w1 (upd (cache w1) n [(u, n)])
        | _ => w1
        end)
  | OSetParent c p => do_setparent w c p
  | OSet p fk m args => do_set w p fk m args
  | OModAppend ir v => flagged (ml_append w ir v)
  | OModInsert ir i v => flagged (ml_insert w ir i v)
  | OModExtend ir vs => flagged (fold_ok (fun w v => ml_append w ir v) vs w)
  | OModRemove ir v => do r <- ml_remove w ir v; flagged r
  | OModPop ir i | OModDelItem ir i =>
    match norm_index i (length (kids w ir)) with
    | Some k => flagged (ml_del_at w ir k)
    | None => Err EIndex
    end
  | OModDelSlice ir a b =>
    let len := length (kids w ir) in
    let lo := norm_bound a 0 len in
    let hi := norm_bound b (Z.of_nat len) len in
    let victims := firstn (Z.to_nat (hi - lo)) (skipn (Z.to_nat lo) (kids w ir)) in
    let '(w1, ok) := fold_ok (fun w v => ml_remove_hook w ir v) victims w in
    flagged (set_kids w1 (upd (kids w1) ir (filter (fun v => negb (mem v victims)) (kids w1 ir))), ok)
  | OModSetItem ir i v =>
    match norm_index i (length (kids w ir)) with
    | None => Err EIndex
    | Some k => flagged (ml_assign w ir (assign_slice (kids w ir) k (S k) [v]))
    end
  | OModSetSlice ir a b vs =>
    let len := length (kids w ir) in
    let lo := norm_bound a 0 len in
    let hi := Z.max lo (norm_bound b (Z.of_nat len) len) in
    flagged (ml_assign w ir (assign_slice (kids w ir) (Z.to_nat lo) (Z.to_nat hi) vs))
  | OModSetExt ir a b c vs =>
    let len := length (kids w ir) in
    match SeqOps.py_slice_indices a b c len with
    | Err e => Err e                                   (* ValueError: slice step cannot be zero *)
    | Ok (s, e, st) =>
      let ps := SeqOps.py_range_positions s e st len in
      if st =? 1 then Err EImpossible                   (* an ordinary slice: OModSetSlice *)
      else if negb (Nat.eqb (length vs) (length ps)) then Err EValue     (* attempt to assign sequence of size n to extended slice of size m *)
      else flagged (ml_assign w ir (assign_ext (kids w ir) ps vs))
    end
  | OModClear ir =>
    (* MutableSequence.clear: pop() from the end until empty *)
    let '(w1, ok) := fold_ok (fun w v => ml_remove_hook w ir v) (rev (kids w ir)) w in
    flagged (set_kids w1 (upd (kids w1) ir []), ok)
  | OModReverse ir => Ok (set_kids w (upd (kids w) ir (rev (kids w ir))))     (* ListWrapper.reverse: _data.reverse(), no hooks *)
  | OAttrAddr bi a => Ok (bi_attr w bi (fun x => with_addr x a))
  | OAttrSize n s =>
    match kindof w n with
    | KBI => Ok (bi_attr w n (fun x => with_size x s))
    | _ => Ok (block_attr w n (fun x => with_size x s))
    end
  | OAttrOff b o' => Ok (block_attr w b (fun x => with_off x o'))
  | OAttrName s nm => Ok (sym_attr w s (fun x => with_name x nm))
  | OAttrPay s p => Ok (sym_attr w s (fun x => with_pay x p))
  | OSymxSet bi k e => Ok (symx_upd w bi (sd_set k e (symx w bi)))
  | OSymxDel bi k | OSymxPop bi k =>
    if dict_has Z.eqb k (symx w bi) then Ok (symx_upd w bi (dict_del Z.eqb k (symx w bi))) else Err EKey
  | OSymxPopitem bi =>
    match symx w bi with
    | [] => Err EKey
    | _ :: d => Ok (symx_upd w bi d)               (* next(iter(self)) is the smallest offset *)
    end
  | OSymxSetdefault bi k e =>
    if dict_has Z.eqb k (symx w bi) then Ok w else Ok (symx_upd w bi (sd_set k e (symx w bi)))
  | OSymxUpdate bi kvs => Ok (symx_upd w bi (fold_left (fun d kv => sd_set (fst kv) (snd kv) d) kvs (symx w bi)))
  | OSymxClear bi => Ok (symx_upd w bi [])
  | OSymxAssign bi kvs => Ok (symx_upd w bi (fold_left (fun d kv => sd_set (fst kv) (snd kv) d) kvs []))
  | OTouch n => Ok (fst (force w n))
  end.

(* failed operations are observed and leave the world unchanged (clean failures only) *)
Definition step' (w : world) (o : op) : world := match step w o with Ok w' => w' | Err _ => w end.
Definition run_ops (ops : list op) : world := fold_left step' ops w0.

(* ---------- lookups ---------- *)

Record qrange := { qstart : Z; qstop : Z; qstep : Z }.
Definition in_q (x : Z) (q : qrange) : bool :=
  (qstart q <=? x) && (x <? qstop q) && ((x - qstart q) mod qstep q =? 0).

Definition is_block (k : kind) : bool := match k with KCode | KData => true | _ => false end.

(* ByteBlock.address *)
Definition block_addr (w : world) (b : id) : option Z :=
  match par w b with
  | Some bi => match naddr (getn w bi) with Some a => Some (a + noff (getn w b)) | None => None end
  | None => None
  end.

(* util._address_interval on a block (its current address interval) *)
Definition block_addr_iv (w : world) (b : id) : option iv :=
  match block_addr w b with
  | Some a => Some {| ib := a; ie := a + nsize (getn w b) + 1; idata := b |}
  | None => None
  end.

(* _nodes_on_interval_tree_impl *)
Definition nodes_on_tree (idx : list iv) (q : qrange) (getter : id -> option iv) (adj : Z) : list id :=
  flat_map (fun i =>
              match getter (idata i) with
              | None => []
              | Some ni =>
                if (ie ni - ib ni - 1 =? 0) then []
                else if ie ni - 1 <=? qstart q then []
                else [idata i]
              end) (overlap (qstart q + adj) (qstop q + adj) idx).

(* _nodes_at_interval_tree_impl *)
Definition nodes_at_tree (idx : list iv) (q : qrange) (getter : id -> option iv) (adj : Z) : list id :=
  flat_map (fun i =>
              match getter (idata i) with
              | None => []
              | Some ni => if in_q (ib ni) q then [idata i] else []
              end) (overlap (qstart q + adj) (qstop q + adj) idx).

(* lookups force lazy indexes, hence thread the world *)
Definition bi_blocks_on (w : world) (bi : id) (q : qrange) : world * list id :=
  match naddr (getn w bi) with
  | None => (w, [])
  | Some a => let '(w1, idx) := force w bi in (w1, nodes_on_tree idx q (block_addr_iv w1) (- a))
  end.

Definition bi_blocks_at (w : world) (bi : id) (q : qrange) : world * list id :=
  match naddr (getn w bi) with
  | None => (w, [])
  | Some a => let '(w1, idx) := force w bi in (w1, nodes_at_tree idx q (block_addr_iv w1) (- a))
  end.

Definition bi_blocks_on_off (w : world) (bi : id) (q : qrange) : world * list id :=
  let '(w1, idx) := force w bi in (w1, nodes_on_tree idx q (off_iv w1) 0).

Definition bi_blocks_at_off (w : world) (bi : id) (q : qrange) : world * list id :=
  let '(w1, idx) := force w bi in (w1, nodes_at_tree idx q (off_iv w1) 0).

Definition sec_bis_on (w : world) (s : id) (q : qrange) : world * list id :=
  let '(w1, idx) := force w s in (w1, nodes_on_tree idx q (addr_iv w1) 0).

Definition sec_bis_at (w : world) (s : id) (q : qrange) : world * list id :=
  let '(w1, idx) := force w s in (w1, nodes_at_tree idx q (addr_iv w1) 0).

(* chain a world-threading lookup over a list of containers *)
Definition chain (f : world -> id -> qrange -> world * list id) (l : list id) (q : qrange) (w : world) : world * list id :=
  fold_left (fun (st : world * list id) x => let '(w, acc) := st in let '(w', r) := f w x q in (w', acc ++ r)) l (w, []).

Definition sec_blocks_on (w : world) (s : id) (q : qrange) : world * list id :=
  let '(w1, bis) := sec_bis_on w s q in chain bi_blocks_on bis q w1.
Definition sec_blocks_at (w : world) (s : id) (q : qrange) : world * list id :=
  let '(w1, bis) := sec_bis_on w s q in chain bi_blocks_at bis q w1.

Definition secs_of (w : world) (m : id) : list id := field w m [KSec].
Definition mods_of (w : world) (ir : id) : list id := kids w ir.

Definition mod_lift (f : world -> id -> qrange -> world * list id) (w : world) (m : id) (q : qrange) := chain f (secs_of w m) q w.
Definition ir_lift (f : world -> id -> qrange -> world * list id) (w : world) (ir : id) (q : qrange) :=
  chain (mod_lift f) (mods_of w ir) q w.

(* Section.address / Section.size *)
Definition sec_extent (w : world) (s : id) : world * option (Z * Z) :=
  let '(w1, idx) := force w s in
  (w1, if (Nat.ltb 0 (length idx)) && Nat.eqb (length idx) (length (kids w1 s))
       then Some (tree_begin idx, tree_end idx - tree_begin idx - 1) else None).

(* util.nodes_on / nodes_at over sections (linear scan over the derived extents) *)
Definition sections_on (w : world) (secs : list id) (q : qrange) : world * list id :=
  fold_left (fun (st : world * list id) s =>
               let '(w, acc) := st in
               let '(w1, ext) := sec_extent w s in
               match ext with
               | Some (a, sz) => (w1, if Z.max (qstart q) a <? Z.min (qstop q) (a + sz) then acc ++ [s] else acc)
               | None => (w1, acc)
               end) secs (w, []).

Definition sections_at (w : world) (secs : list id) (q : qrange) : world * list id :=
  fold_left (fun (st : world * list id) s =>
               let '(w, acc) := st in
               let '(w1, ext) := sec_extent w s in
               match ext with
               | Some (a, _) => (w1, if in_q a q then acc ++ [s] else acc)
               | None => (w1, acc)
               end) secs (w, []).

(* ByteInterval.symbolic_expressions_at: irange(start - A, stop - A) ascending, then the step test.
   Results are (interval, offset, expression) triples. *)
Definition bi_symx_at (w : world) (bi : id) (q : qrange) : list (id * Z * id) :=
  match naddr (getn w bi) with
  | None => []
  | Some a =>
    flat_map (fun kv => let k := fst kv in
                        if (qstart q - a <=? k) && (k <? qstop q - a) && in_q (a + k) q then [(bi, k, snd kv)] else [])
             (symx w bi)
  end.

Definition bi_symx_at_off (w : world) (bi : id) (q : qrange) : list (id * Z * id) :=
  flat_map (fun kv => let k := fst kv in
                      if (qstart q <=? k) && (k <? qstop q) && in_q k q then [(bi, k, snd kv)] else [])
           (symx w bi).

Definition sec_symx_at (w : world) (s : id) (q : qrange) : world * list (id * Z * id) :=
  let '(w1, bis) := sec_bis_on w s q in (w1, flat_map (fun bi => bi_symx_at w1 bi q) bis).

(* symbol lookups *)
Definition symbols_named (w : world) (m : id) (nm : Z) : list id :=
  match dict_get Z.eqb nm (nix w m) with Some b => b | None => [] end.

Definition references (w : world) (b : id) : list id :=
  match module_of w b with
  | Some m => match dict_get Z.eqb b (rix w m) with Some l => l | None => [] end
  | None => []
  end.

Definition get_by_uuid (w : world) (ir : id) (u : Z) : option id := dict_get Z.eqb u (cache w ir).
