(* sx glue for Model/SetAlg.v: (51 self other) -> every non-mutating operator and comparison of the set interface at once *)
From Coq Require Import ZArith List Bool.
From V Require Import Result SetAlg.
Import ListNotations.
Open Scope Z_scope.

Definition run_setalg (a b : sx) : sx :=
  let self := un_zs a in
  let other := un_zs b in
  L [sx_zs (abc_and self other); sx_zs (abc_or self other); sx_zs (abc_sub self other); sx_zs (abc_rsub self other);
     sx_zs (abc_xor self other);
     sx_bool (abc_le self other); sx_bool (abc_ge self other); sx_bool (abc_lt self other); sx_bool (abc_gt self other);
     sx_bool (abc_eq self other); sx_bool (abc_ne self other); sx_bool (abc_isdisjoint self other)].
