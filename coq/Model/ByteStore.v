(* python/gtirb/byteinterval.py (size, contents, initialized_size, constructor check) and
   python/gtirb/block.py (ByteBlock.address / contents / contains_offset / contains_address).
   Bytes are Z in [0,256); sizes and offsets are non-negative (the API's domain). *)
From Coq Require Import ZArith List Bool.
From V Require Import Result.
Import ListNotations.
Open Scope Z_scope.

Record bstore := { bsize : Z; bbytes : list Z }.

Definition zlen (l : list Z) : Z := Z.of_nat (length l).

(* ByteInterval.initialized_size (getter) *)
Definition init_size (s : bstore) : Z := zlen (bbytes s).

(* the setter: pad with zero bytes, or truncate (contents[:value]) *)
Definition resize (v : Z) (l : list Z) : list Z :=
  if zlen l <? v then l ++ repeat 0 (Z.to_nat (v - zlen l))
  else if v <? zlen l then firstn (Z.to_nat v) l
  else l.

(* ... and, as ByteInterval::setInitializedSize of the C++ API, the interval grows with its initialized bytes *)
Definition set_init (s : bstore) (v : Z) : bstore :=
  {| bsize := if bsize s <? v then v else bsize s; bbytes := resize v (bbytes s) |}.

(* `contents` is a plain attribute: direct assignment stores the bytes as they are (no check) *)
Definition set_contents (s : bstore) (bs : list Z) : bstore := {| bsize := bsize s; bbytes := bs |}.

(* the size setter: shrinking below the stored byte count truncates the stored bytes *)
Definition set_size (s : bstore) (v : Z) : bstore :=
  {| bsize := v; bbytes := if v <? zlen (bbytes s) then firstn (Z.to_nat v) (bbytes s) else bbytes s |}.

(* ByteInterval(size=?, initialized_size=?, contents=...) *)
Definition ctor (size init : option Z) (contents : list Z) : res bstore :=
  let size' := match size with Some x => x | None => zlen contents end in
  let init' := match init with Some x => x | None => zlen contents end in
  if size' <? init' then Err EValue
  else Ok {| bsize := size'; bbytes := resize init' contents |}.

(* a length-preserving edit of the stored bytes: contents[i] = b *)
Fixpoint set_nth (i : nat) (b : Z) (l : list Z) : list Z :=
  match l, i with
  | [], _ => []
  | _ :: l', O => b :: l'
  | x :: l', S i' => x :: set_nth i' b l'
  end.
Definition poke (s : bstore) (i : Z) (b : Z) : res bstore :=
  if (0 <=? i) && (i <? zlen (bbytes s)) then Ok {| bsize := bsize s; bbytes := set_nth (Z.to_nat i) b (bbytes s) |}
  else Err EIndex.

(* the writer stores the bytes and the size; the reader re-runs the constructor on them *)
Definition reload (s : bstore) : res bstore := ctor (Some (bsize s)) (Some (init_size s)) (bbytes s).

(* ---------- block views (offset, size >= 0) ---------- *)

(* ByteBlock.contents: interval.contents[offset : offset + size] *)
(* (offset and size are clamped at the number of stored bytes before they become unary naturals: the slice is the same -- lemma
   block_contents_unclamped -- and a block of size 2^64 - 1 can be evaluated) *)
Definition block_contents (s : bstore) (off size : Z) : list Z :=
  let n := zlen (bbytes s) in
  firstn (Z.to_nat (Z.min size n)) (skipn (Z.to_nat (Z.min off n)) (bbytes s)).
(* ByteBlock.address *)
Definition block_address (addr : option Z) (off : Z) : option Z :=
  match addr with Some a => Some (a + off) | None => None end.
Definition contains_offset (off size o : Z) : bool := (off <=? o) && (o <? off + size).
Definition contains_address (addr : option Z) (off size a : Z) : bool :=
  match addr with Some base => contains_offset off size (a - base) | None => false end.

(* ---------- histories ---------- *)
Inductive bop := BSetSize (v : Z) | BSetInit (v : Z) | BPoke (i b : Z) | BSetContents (bs : list Z).

(* the domain of the property: non-negative sizes and byte counts (any value, also beyond the current size);
   direct assignment of `contents` is inside it only when the new bytes fit the declared size *)
Definition bop_ok (s : bstore) (o : bop) : bool :=
  match o with
  | BSetSize v => 0 <=? v
  | BSetInit v => 0 <=? v
  | BPoke _ b => (0 <=? b) && (b <? 256)
  | BSetContents bs => zlen bs <=? bsize s
  end.

Definition bstep (s : bstore) (o : bop) : bstore :=
  match o with
  | BSetSize v => set_size s v
  | BSetInit v => set_init s v
  | BPoke i b => match poke s i b with Ok s' => s' | Err _ => s end
  | BSetContents bs => set_contents s bs
  end.

Fixpoint brun (s : bstore) (ops : list bop) : bstore :=
  match ops with
  | [] => s
  | o :: ops' => if bop_ok s o then brun (bstep s o) ops' else brun s ops'
  end.
