(* sx glue for Model/World.v: decode ops and queries, run a history, one reply per item. *)
From Coq Require Import ZArith List Bool.
From V Require Import Result LazyTree World Aggregates.
From V Require IndexCheck SeqOps DelExt.
Import ListNotations.
Open Scope Z_scope.

Definition kind_of_z (z : Z) : kind :=
  match z with
  | 0 => KIR | 1 => KMod | 2 => KSec | 3 => KBI | 4 => KCode | 5 => KData | 6 => KProxy | _ => KSym
  end.

Definition pay_of_sx (s : sx) : payload :=
  match s with
  | L [A 0; A z] => PVal z
  | L [A 1; A b] => PRef b
  | _ => PNone
  end.

Definition setm_of_z (z : Z) : setm :=
  match z with
  | 0 => SAdd | 1 => SDiscard | 2 => SRemove | 3 => SPop | 4 => SClear | 5 => SUpdate
  | 6 => SIor | 7 => SIand | 8 => SIsub | _ => SIxor
  end.

Definition kvs_of_sx (s : sx) : list (Z * id) :=
  map (fun p => match p with L [A k; A e] => (k, e) | _ => (0, 0) end) (un_l s).

Definition op_of_sx (s : sx) : option op :=
  match s with
  | L [A 1; A n; A k; A u; a; A sz; A off; A nm; p] => Some (ONew n (kind_of_z k) u (un_opt a) sz off nm (pay_of_sx p))
  | L [A 2; A c; p] => Some (OSetParent c (un_opt p))
  | L [A 3; A p; fk; A m; L args] => Some (OSet p (map kind_of_z (un_zs fk)) (setm_of_z m) (map un_zs args))
  | L [A 4; A ir; A v] => Some (OModAppend ir v)
  | L [A 5; A ir; A i; A v] => Some (OModInsert ir i v)
  | L [A 6; A ir; vs] => Some (OModExtend ir (un_zs vs))
  | L [A 7; A ir; A v] => Some (OModRemove ir v)
  | L [A 8; A ir; A i] => Some (OModPop ir i)
  | L [A 9; A ir; A i] => Some (OModDelItem ir i)
  | L [A 10; A ir; a; b] => Some (OModDelSlice ir (un_opt a) (un_opt b))
  | L [A 11; A ir; A i; A v] => Some (OModSetItem ir i v)
  | L [A 12; A ir; a; b; vs] => Some (OModSetSlice ir (un_opt a) (un_opt b) (un_zs vs))
  | L [A 32; A ir; a; b; A c; vs] => Some (OModSetExt ir (un_opt a) (un_opt b) c (un_zs vs))
  | L [A 13; A ir] => Some (OModClear ir)
  | L [A 14; A bi; a] => Some (OAttrAddr bi (un_opt a))
  | L [A 15; A n; A sz] => Some (OAttrSize n sz)
  | L [A 16; A b; A o] => Some (OAttrOff b o)
  | L [A 17; A s'; A nm] => Some (OAttrName s' nm)
  | L [A 18; A s'; p] => Some (OAttrPay s' (pay_of_sx p))
  | L [A 19; A bi; A k; A e] => Some (OSymxSet bi k e)
  | L [A 20; A bi; A k] => Some (OSymxDel bi k)
  | L [A 21; A bi; A k] => Some (OSymxPop bi k)
  | L [A 22; A bi] => Some (OSymxPopitem bi)
  | L [A 23; A bi; A k; A e] => Some (OSymxSetdefault bi k e)
  | L [A 24; A bi; kvs] => Some (OSymxUpdate bi (kvs_of_sx kvs))
  | L [A 25; A bi] => Some (OSymxClear bi)
  | L [A 26; A bi; kvs] => Some (OSymxAssign bi (kvs_of_sx kvs))
  | L [A 27; A n] => Some (OTouch n)
  | L [A 28; A ir] => Some (OModReverse ir)
  | _ => None
  end.

Definition kfilter (w : world) (kf : Z) (l : list id) : list id :=
  match kf with
  | 1 => filter (fun b => kind_eqb (kindof w b) KCode) l
  | 2 => filter (fun b => kind_eqb (kindof w b) KData) l
  | _ => l
  end.

Definition triples_sx (l : list (id * Z * id)) : sx :=
  L (map (fun t => L [A (fst (fst t)); A (snd (fst t)); A (snd t)]) l).

(* a lookup at a scope; method: 0 blocks_on 1 blocks_at 2 blocks_on_offset 3 blocks_at_offset
   4 byte_intervals_on 5 byte_intervals_at 6 sections_on 7 sections_at 8 symbolic_expressions_at
   9 symbolic_expressions_at_offset 10 section address/size *)
Definition query (w : world) (scope : id) (m kf : Z) (q : qrange) : world * sx :=
  let k := kindof w scope in
  let ids (r : world * list id) : world * sx := (fst r, L [A 0; sx_zs (kfilter (fst r) kf (snd r))]) in
  match m with
  | 0 =>
    ids (match k with
         | KBI => bi_blocks_on w scope q
         | KSec => sec_blocks_on w scope q
         | KMod => mod_lift sec_blocks_on w scope q
         | _ => ir_lift sec_blocks_on w scope q
         end)
  | 1 =>
    ids (match k with
         | KBI => bi_blocks_at w scope q
         | KSec => sec_blocks_at w scope q
         | KMod => mod_lift sec_blocks_at w scope q
         | _ => ir_lift sec_blocks_at w scope q
         end)
  | 2 => ids (bi_blocks_on_off w scope q)
  | 3 => ids (bi_blocks_at_off w scope q)
  | 4 =>
    ids (match k with
         | KSec => sec_bis_on w scope q
         | KMod => mod_lift sec_bis_on w scope q
         | _ => ir_lift sec_bis_on w scope q
         end)
  | 5 =>
    ids (match k with
         | KSec => sec_bis_at w scope q
         | KMod => mod_lift sec_bis_at w scope q
         | _ => ir_lift sec_bis_at w scope q
         end)
  | 6 =>
    ids (match k with
         | KMod => sections_on w (secs_of w scope) q
         | _ => sections_on w (flat_map (secs_of w) (mods_of w scope)) q
         end)
  | 7 =>
    ids (match k with
         | KMod => sections_at w (secs_of w scope) q
         | _ => sections_at w (flat_map (secs_of w) (mods_of w scope)) q
         end)
  | 8 =>
    match k with
    | KBI => (w, L [A 0; triples_sx (bi_symx_at w scope q)])
    | KSec => let '(w1, r) := sec_symx_at w scope q in (w1, L [A 0; triples_sx r])
    | KMod =>
      let '(w1, r) := fold_left (fun (st : world * list (id * Z * id)) s =>
                                   let '(w, acc) := st in let '(w', r) := sec_symx_at w s q in (w', acc ++ r))
                                (secs_of w scope) (w, []) in
      (w1, L [A 0; triples_sx r])
    | _ =>
      let '(w1, r) := fold_left (fun (st : world * list (id * Z * id)) s =>
                                   let '(w, acc) := st in let '(w', r) := sec_symx_at w s q in (w', acc ++ r))
                                (flat_map (secs_of w) (mods_of w scope)) (w, []) in
      (w1, L [A 0; triples_sx r])
    end
  | 9 => (w, L [A 0; triples_sx (bi_symx_at_off w scope q)])
  | 10 =>
    let '(w1, e) := sec_extent w scope in
    (w1, match e with Some (a, s) => L [A 0; L [A a; A s]] | None => L [A 0; L []] end)
  | _ => (w, L [A (-2)])
  end.

Definition run_item (w : world) (it : sx) : world * sx :=
  match it with
  | L [A 40; A scope; A m; A kf; A a; A b; A st] => query w scope m kf {| qstart := a; qstop := b; qstep := st |}
  | L [A 41; A m; A nm] => (w, L [A 0; sx_zs (symbols_named w m nm)])
  | L [A 42; A b] => (w, L [A 0; sx_zs (references w b)])
  | L [A 43; A ir; A u] => (w, L [A 0; sx_opt (get_by_uuid w ir u)])
  | L [A 44; ns] =>
    (w, L [A 0; L (map (fun n => L [A n; sx_opt (par w n); sx_zs (kids w n)]) (un_zs ns))])
  | L [A 45; A ir] => (w, L [A 0; L (map (fun p => L [A (fst p); A (snd p)]) (cache w ir))])
  | L [A 46; A bi] => (w, L [A 0; L (map (fun p => L [A (fst p); A (snd p)]) (symx w bi))])
  | L [A 48; A scope; A a] => (w, L [A 0; sx_zs (aggregate w scope a)])
  | L [A 47; ns] =>
    (w, L [A 0; L (map (fun n => L [A n; sx_opt (ir_of w n); sx_opt (module_of w n); sx_opt (section_of w n)]) (un_zs ns))])
  | L [A 49; _] =>
    (* the harness replaced its world by a copy of itself (copy.deepcopy / a pickle round trip of every object): a copy of a state
       is that state *)
    (w, L [A 0])
  | L [A 33; A ir; a; b; A c] =>
    (* del ir.modules[a:b:c] with any step (Model/DelExt.v; theorems C16_modlist_delslice_extended and following) *)
    match DelExt.ml_delext w ir (un_opt a) (un_opt b) c with Ok w' => (w', L [A 0]) | Err e => (w, sx_err e) end
  | L (A 53 :: _) =>
    (* an attribute assignment that THIS implementation refused with an exception when the history was generated (a magnitude it does
       not take): a refused call changes nothing *)
    (w, L [A 0])
  | L [A 51; A n; A k; A u; a; A sz; A off; A nm; p; A pa] =>
    (* a node constructed WITH its parent (Section(module=m), CodeBlock(byte_interval=bi), ...): `new`, then the attach through the
       parent attribute; when the attach is refused the constructor raises and the caller holds no object *)
    match IndexCheck.step_checked w (ONew n (kind_of_z k) u (un_opt a) sz off nm (pay_of_sx p)) with
    | Ok w1 => match IndexCheck.step_checked w1 (OSetParent n (Some pa)) with Ok w' => (w', L [A 0]) | Err e => (w1, sx_err e) end
    | Err e => (w, sx_err e)
    end
  | L [A 29; A bi; A v] =>
    (* bi.initialized_size = v: the stored bytes are ByteStore.v's concern; for the object graph the assignment is a size
       assignment through the indexed attribute when v exceeds the size (ByteStore.set_init), and nothing otherwise *)
    if nsize (getn w bi) <? v
    then match step w (OAttrSize bi v) with Ok w' => (w', L [A 0]) | Err e => (w, sx_err e) end
    else (w, L [A 0])
  | _ =>
    match op_of_sx it with
    | Some o => match IndexCheck.step_checked w o with Ok w' => (w', L [A 0]) | Err e => (w, sx_err e) end
    | None => (w, L [A (-2)])
    end
  end.

Fixpoint run_items (w : world) (items : list sx) : list sx :=
  match items with
  | [] => []
  | it :: items' => let '(w', r) := run_item w it in r :: run_items w' items'
  end.

Definition run_world (items : sx) : sx := L (run_items w0 (un_l items)).
