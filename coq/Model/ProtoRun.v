(* sx glue for Model/Proto.v: messages and contents to and from the wire format of the harness. *)
From Coq Require Import ZArith List Bool.
From V Require Import Result Bytes Proto DeepEq.
Import ListNotations.
Open Scope Z_scope.

(* ---------- message <- sx ---------- *)
Definition aux_of_sx (s : sx) : list Z * pAux :=
  match s with
  | L [k; t; d] => (un_zs k, {| a_type := un_zs t; a_data := un_zs d |})
  | _ => ([], {| a_type := []; a_data := [] |})
  end.
Definition pblock_of_sx (s : sx) : pBlock :=
  match s with
  | L [A off; L [A 0; u; A sz; A dm]] => {| b_off := off; b_val := PCode (un_zs u) sz dm |}
  | L [A off; L [A 1; u; A sz]] => {| b_off := off; b_val := PData (un_zs u) sz |}
  | L [A off; _] => {| b_off := off; b_val := PNoBlock |}
  | _ => {| b_off := 0; b_val := PNoBlock |}
  end.
Definition pexpr_of_sx (s : sx) : Z * pExpr :=
  match s with
  | L [A k; L [A 0; A off; y]; at'] => (k, {| x_val := PAddrConst off (un_zs y); x_attrs := un_zs at' |})
  | L [A k; L [A 1; A sc; A off; y1; y2]; at'] => (k, {| x_val := PAddrAddr sc off (un_zs y1) (un_zs y2); x_attrs := un_zs at' |})
  | L [A k; _; at'] => (k, {| x_val := PNoExpr; x_attrs := un_zs at' |})
  | _ => (0, {| x_val := PNoExpr; x_attrs := [] |})
  end.
Definition pbi_of_sx (s : sx) : pBI :=
  match s with
  | L [u; L bl; L sx'; A ha; A ad; A sz; ct] =>
    {| bi_uuid := un_zs u; bi_blocks := map pblock_of_sx bl; bi_symx := map pexpr_of_sx sx';
       bi_has_addr := negb (ha =? 0); bi_addr := ad; bi_size := sz; bi_contents := un_zs ct |}
  | _ => {| bi_uuid := []; bi_blocks := []; bi_symx := []; bi_has_addr := false; bi_addr := 0; bi_size := 0; bi_contents := [] |}
  end.
Definition psection_of_sx (s : sx) : pSection :=
  match s with
  | L [u; nm; L bis; fl] => {| s_uuid := un_zs u; s_name := un_zs nm; s_bis := map pbi_of_sx bis; s_flags := un_zs fl |}
  | _ => {| s_uuid := []; s_name := []; s_bis := []; s_flags := [] |}
  end.
Definition psymbol_of_sx (s : sx) : pSymbol :=
  match s with
  | L [u; p; nm; A ae] =>
    {| y_uuid := un_zs u;
       y_payload := match p with L [A 0; A v] => PPValue v | L [A 1; r] => PPRef (un_zs r) | _ => PPNone end;
       y_name := un_zs nm; y_at_end := negb (ae =? 0) |}
  | _ => {| y_uuid := []; y_payload := PPNone; y_name := []; y_at_end := false |}
  end.
Definition pmodule_of_sx (s : sx) : pModule :=
  match s with
  | L [u; bp; A pa; A rd; A ff; A isa; nm; L syms; L prox; L secs; L aux; en; A bo] =>
    {| m_uuid := un_zs u; m_binary_path := un_zs bp; m_preferred_addr := pa; m_rebase_delta := rd; m_file_format := ff;
       m_isa := isa; m_name := un_zs nm; m_symbols := map psymbol_of_sx syms; m_proxies := map un_zs prox;
       m_sections := map psection_of_sx secs; m_aux := map aux_of_sx aux; m_entry := un_zs en; m_byte_order := bo |}
  | _ => {| m_uuid := []; m_binary_path := []; m_preferred_addr := 0; m_rebase_delta := 0; m_file_format := 0; m_isa := 0;
            m_name := []; m_symbols := []; m_proxies := []; m_sections := []; m_aux := []; m_entry := []; m_byte_order := 0 |}
  end.
Definition pedge_of_sx (s : sx) : pEdge :=
  match s with
  | L [a; b; l] =>
    {| e_src := un_zs a; e_dst := un_zs b;
       e_label := match l with
                  | L [A c; A d; A t] => Some {| l_cond := negb (c =? 0); l_direct := negb (d =? 0); l_type := t |}
                  | _ => None end |}
  | _ => {| e_src := []; e_dst := []; e_label := None |}
  end.
Definition pir_of_sx (s : sx) : pIR :=
  match s with
  | L [u; L mods; L aux; A ver; L vs; L es] =>
    {| i_uuid := un_zs u; i_modules := map pmodule_of_sx mods; i_aux := map aux_of_sx aux; i_version := ver;
       i_vertices := map un_zs vs; i_edges := map pedge_of_sx es |}
  | _ => {| i_uuid := []; i_modules := []; i_aux := []; i_version := 0; i_vertices := []; i_edges := [] |}
  end.

(* ---------- message -> sx ---------- *)
Definition sx_aux (p : list Z * pAux) : sx := L [sx_zs (fst p); sx_zs (a_type (snd p)); sx_zs (a_data (snd p))].
Definition sx_pblock (b : pBlock) : sx :=
  L [A (b_off b); match b_val b with
                  | PCode u sz dm => L [A 0; sx_zs u; A sz; A dm]
                  | PData u sz => L [A 1; sx_zs u; A sz]
                  | PNoBlock => L [] end].
Definition sx_pexpr (kv : Z * pExpr) : sx :=
  L [A (fst kv);
     match x_val (snd kv) with
     | PAddrConst off y => L [A 0; A off; sx_zs y]
     | PAddrAddr sc off y1 y2 => L [A 1; A sc; A off; sx_zs y1; sx_zs y2]
     | PNoExpr => L [] end;
     sx_zs (x_attrs (snd kv))].
Definition sx_pbi (b : pBI) : sx :=
  L [sx_zs (bi_uuid b); L (map sx_pblock (bi_blocks b)); L (map sx_pexpr (bi_symx b)); sx_bool (bi_has_addr b);
     A (bi_addr b); A (bi_size b); sx_zs (bi_contents b)].
Definition sx_psection (s : pSection) : sx :=
  L [sx_zs (s_uuid s); sx_zs (s_name s); L (map sx_pbi (s_bis s)); sx_zs (s_flags s)].
Definition sx_psymbol (y : pSymbol) : sx :=
  L [sx_zs (y_uuid y);
     match y_payload y with PPNone => L [] | PPValue v => L [A 0; A v] | PPRef r => L [A 1; sx_zs r] end;
     sx_zs (y_name y); sx_bool (y_at_end y)].
Definition sx_pmodule (m : pModule) : sx :=
  L [sx_zs (m_uuid m); sx_zs (m_binary_path m); A (m_preferred_addr m); A (m_rebase_delta m); A (m_file_format m);
     A (m_isa m); sx_zs (m_name m); L (map sx_psymbol (m_symbols m)); L (map sx_zs (m_proxies m));
     L (map sx_psection (m_sections m)); L (map sx_aux (m_aux m)); sx_zs (m_entry m); A (m_byte_order m)].
Definition sx_pedge (e : pEdge) : sx :=
  L [sx_zs (e_src e); sx_zs (e_dst e);
     match e_label e with Some l => L [sx_bool (l_cond l); sx_bool (l_direct l); A (l_type l)] | None => L [] end].
Definition sx_pir (p : pIR) : sx :=
  L [sx_zs (i_uuid p); L (map sx_pmodule (i_modules p)); L (map sx_aux (i_aux p)); A (i_version p);
     L (map sx_zs (i_vertices p)); L (map sx_pedge (i_edges p))].

(* ---------- content <- sx ---------- *)
Definition cblock_of_sx (s : sx) : cBlock :=
  match s with
  | L [A u; A c; A off; A sz; A dm] => {| cb_uuid := u; cb_code := negb (c =? 0); cb_off := off; cb_size := sz; cb_dm := dm |}
  | _ => {| cb_uuid := 0; cb_code := false; cb_off := 0; cb_size := 0; cb_dm := 0 |}
  end.
Definition cexpr_of_sx (s : sx) : Z * cExpr :=
  match s with
  | L [A k; L [A 0; A off; A y]; at'] => (k, {| cx_val := CAddrConst off y; cx_attrs := un_zs at' |})
  | L [A k; L [A 1; A sc; A off; A y1; A y2]; at'] => (k, {| cx_val := CAddrAddr sc off y1 y2; cx_attrs := un_zs at' |})
  | _ => (0, {| cx_val := CAddrConst 0 0; cx_attrs := [] |})
  end.
Definition cbi_of_sx (s : sx) : cBI :=
  match s with
  | L [A u; ad; A sz; ct; L bl; L xs] =>
    {| ci_uuid := u; ci_addr := un_opt ad; ci_size := sz; ci_contents := un_zs ct; ci_blocks := map cblock_of_sx bl;
       ci_symx := map cexpr_of_sx xs |}
  | _ => {| ci_uuid := 0; ci_addr := None; ci_size := 0; ci_contents := []; ci_blocks := []; ci_symx := [] |}
  end.
Definition csection_of_sx (s : sx) : cSection :=
  match s with
  | L [A u; nm; fl; L bis] => {| cs_uuid := u; cs_name := un_zs nm; cs_flags := un_zs fl; cs_bis := map cbi_of_sx bis |}
  | _ => {| cs_uuid := 0; cs_name := []; cs_flags := []; cs_bis := [] |}
  end.
Definition csymbol_of_sx (s : sx) : cSymbol :=
  match s with
  | L [A u; nm; p; A ae] =>
    {| cy_uuid := u; cy_name := un_zs nm;
       cy_payload := match p with L [A 0; A v] => CPVal v | L [A 1; A r] => CPRef r | _ => CPNone end;
       cy_at_end := negb (ae =? 0) |}
  | _ => {| cy_uuid := 0; cy_name := []; cy_payload := CPNone; cy_at_end := false |}
  end.
Definition cmodule_of_sx (s : sx) : cModule :=
  match s with
  | L [A u; nm; bp; A isa; A ff; A bo; A pa; A rd; en; prox; L secs; L syms; L aux] =>
    {| cm_uuid := u; cm_name := un_zs nm; cm_binary_path := un_zs bp; cm_isa := isa; cm_file_format := ff; cm_byte_order := bo;
       cm_preferred_addr := pa; cm_rebase_delta := rd; cm_entry := un_opt en; cm_proxies := un_zs prox;
       cm_sections := map csection_of_sx secs; cm_symbols := map csymbol_of_sx syms; cm_aux := map aux_of_sx aux |}
  | _ => {| cm_uuid := 0; cm_name := []; cm_binary_path := []; cm_isa := 0; cm_file_format := 0; cm_byte_order := 0;
            cm_preferred_addr := 0; cm_rebase_delta := 0; cm_entry := None; cm_proxies := []; cm_sections := [];
            cm_symbols := []; cm_aux := [] |}
  end.
Definition cedge_of_sx (s : sx) : cEdge :=
  match s with
  | L [A a; A b; l] =>
    {| ce_src := a; ce_dst := b;
       ce_label := match l with L [A t; A c; A d] => Some (t, negb (c =? 0), negb (d =? 0)) | _ => None end |}
  | _ => {| ce_src := 0; ce_dst := 0; ce_label := None |}
  end.
Definition cir_of_sx (s : sx) : cIR :=
  match s with
  | L [A u; A ver; L mods; L es; L aux] =>
    {| cr_uuid := u; cr_version := ver; cr_modules := map cmodule_of_sx mods; cr_edges := map cedge_of_sx es;
       cr_aux := map aux_of_sx aux |}
  | _ => {| cr_uuid := 0; cr_version := 0; cr_modules := []; cr_edges := []; cr_aux := [] |}
  end.

(* ---------- content -> sx ---------- *)
Definition sx_cblock (b : cBlock) : sx := L [A (cb_uuid b); sx_bool (cb_code b); A (cb_off b); A (cb_size b); A (cb_dm b)].
Definition sx_cexpr (kv : Z * cExpr) : sx :=
  L [A (fst kv);
     match cx_val (snd kv) with
     | CAddrConst off y => L [A 0; A off; A y]
     | CAddrAddr sc off y1 y2 => L [A 1; A sc; A off; A y1; A y2] end;
     sx_zs (cx_attrs (snd kv))].
Definition sx_cbi (b : cBI) : sx :=
  L [A (ci_uuid b); sx_opt (ci_addr b); A (ci_size b); sx_zs (ci_contents b); L (map sx_cblock (ci_blocks b));
     L (map sx_cexpr (ci_symx b))].
Definition sx_csection (s : cSection) : sx :=
  L [A (cs_uuid s); sx_zs (cs_name s); sx_zs (cs_flags s); L (map sx_cbi (cs_bis s))].
Definition sx_csymbol (y : cSymbol) : sx :=
  L [A (cy_uuid y); sx_zs (cy_name y);
     match cy_payload y with CPNone => L [] | CPVal v => L [A 0; A v] | CPRef r => L [A 1; A r] end;
     sx_bool (cy_at_end y)].
Definition sx_cmodule (m : cModule) : sx :=
  L [A (cm_uuid m); sx_zs (cm_name m); sx_zs (cm_binary_path m); A (cm_isa m); A (cm_file_format m); A (cm_byte_order m);
     A (cm_preferred_addr m); A (cm_rebase_delta m); sx_opt (cm_entry m); sx_zs (cm_proxies m);
     L (map sx_csection (cm_sections m)); L (map sx_csymbol (cm_symbols m)); L (map sx_aux (cm_aux m))].
Definition sx_cedge (e : cEdge) : sx :=
  L [A (ce_src e); A (ce_dst e);
     match ce_label e with Some (t, c, d) => L [A t; sx_bool c; sx_bool d] | None => L [] end].
Definition sx_cir (c : cIR) : sx :=
  L [A (cr_uuid c); A (cr_version c); L (map sx_cmodule (cr_modules c)); L (map sx_cedge (cr_edges c));
     L (map sx_aux (cr_aux c))].

(* ---------- requests ---------- *)
(* 40: writer   (40 content)            -> (0 header message wf?)
   41: reader   (41 file-header message) -> (0 content) | error
   42: round trip on a content          -> (0 content') | error
   43: deep_eq both ways and the two normal forms *)
Definition run_proto (req : sx) : sx :=
  match req with
  | L [A 40; c] =>
    let c' := cir_of_sx c in
    let '(h, p) := save c' in L [A 0; sx_zs h; sx_pir p; sx_bool (wf c')]
  | L [A 41; h; p] =>
    match load (un_zs h) (pir_of_sx p) with
    | Ok c => L [A 0; sx_cir c]
    | Err e => sx_err e
    end
  | L [A 42; c] =>
    let c' := cir_of_sx c in
    match load (fst (save c')) (snd (save c')) with
    | Ok c2 => L [A 0; sx_cir c2; sx_bool (wf c')]
    | Err e => L [A (-1); A (err_code e); sx_bool (wf c')]
    end
  | L [A 43; a; b] =>
    let ca := cir_of_sx a in let cb := cir_of_sx b in
    L [A 0; sx_bool (ir_deq ca cb); sx_bool (ir_deq cb ca); sx_cir (norm ca); sx_cir (norm cb)]
  | _ => L [A (-2)]
  end.
