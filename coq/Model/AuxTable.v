(* One AuxData table through its life: python/gtirb/auxdata.py (AuxData, _LazyDataContainer)
   over the codec of Model/Codec.v.  A table loaded from a file holds the raw bytes and the
   type name it was loaded with until its data is first read. *)
From Coq Require Import ZArith List Bool.
From V Require Import Result Bytes TypeName Codec.
Import ListNotations.
Open Scope Z_scope.

Record table := {
  lazy : option (list Z * list Z);      (* _lazy_container: (raw_data, type_name at load time) *)
  data : value;                         (* _data (meaningless while lazy is set: Python holds None) *)
  tname : list Z                        (* type_name *)
}.

Inductive op :=
| Read                                  (* evaluate .data *)
| Mutate (v' : value)                   (* read .data, then change it in place so that it now equals v' *)
| Assign (v : value)                    (* .data = v *)
| SetType (s : list Z).                 (* .type_name = s *)

(* AuxData._from_protobuf *)
Definition load (type_name raw : list Z) : table :=
  {| lazy := Some (raw, type_name); data := VUnknown []; tname := type_name |}.

(* AuxData(data, type_name) built by the user *)
Definition fresh (type_name : list Z) (v : value) : table :=
  {| lazy := None; data := v; tname := type_name |}.

(* the .data property getter: decode under the LOADED type name, then drop the container;
   a decoding error propagates and leaves the table as it was *)
Definition read (get : Z -> option Z) (t : table) : res (table * value) :=
  match lazy t with
  | Some (raw, tn0) =>
    do v <- decode_top get tn0 raw;
    Ok ({| lazy := None; data := v; tname := tname t |}, v)
  | None => Ok (t, data t)
  end.

Definition step (get : Z -> option Z) (t : table) (o : op) : res table :=
  match o with
  | Read => do (t', _) <- read get t; Ok t'
  | Mutate v' => do (t', _) <- read get t; Ok {| lazy := None; data := v'; tname := tname t' |}
  | Assign v => Ok {| lazy := None; data := v; tname := tname t |}
  | SetType s => Ok {| lazy := lazy t; data := data t; tname := s |}
  end.

(* AuxData._to_protobuf: (type_name, data bytes) and the table afterwards (encoding reads .data) *)
Definition save (get : Z -> option Z) (t : table) : res (table * (list Z * list Z)) :=
  match lazy t with
  | Some (raw, tn0) =>
    if zs_eqb (tname t) tn0 then Ok (t, (tname t, raw))
    else
      do (t', v) <- read get t;
      do bs <- encode_top (tname t') v;
      Ok (t', (tname t', bs))
  | None =>
    do bs <- encode_top (tname t) (data t);
    Ok (t, (tname t, bs))
  end.

(* ops that fail (decode error on read) are observed and leave the table unchanged *)
Fixpoint steps (get : Z -> option Z) (t : table) (ops : list op) : table :=
  match ops with
  | [] => t
  | o :: ops' => steps get (match step get t o with Ok t' => t' | Err _ => t end) ops'
  end.

Definition touches (o : op) : bool :=
  match o with Read | Mutate _ | Assign _ => true | SetType _ => false end.
