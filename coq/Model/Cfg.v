(* python/gtirb/cfg.py: the CFG as a MutableSet[Edge] stored in a networkx.MultiDiGraph.
   The multigraph is modelled by its abstract content: a list of (source, target, key, label) entries in
   insertion order.  networkx gives a new parallel edge some key that is unused between that pair of
   nodes (len(keydict), incremented until unused); keys are not observable through the CFG interface and
   only their unusedness matters, so the model takes 1 + the largest key in use.  Nodes are numbers
   (identity), a label is (type number, conditional, direct), a missing label is None. *)
From Coq Require Import ZArith List Bool.
From V Require Import Result.
Import ListNotations.
Open Scope Z_scope.

Definition label := (Z * bool * bool)%type.
Definition olabel := option label.
Definition edge := (Z * Z * olabel)%type.
Record medge := { esrc : Z; edst : Z; ekey : Z; elab : olabel }.
Definition graph := list medge.

Definition label_eqb (a b : label) : bool :=
  let '(t1, c1, d1) := a in let '(t2, c2, d2) := b in (t1 =? t2) && Bool.eqb c1 c2 && Bool.eqb d1 d2.
Definition olabel_eqb (a b : olabel) : bool :=
  match a, b with
  | None, None => true
  | Some x, Some y => label_eqb x y
  | _, _ => false
  end.
Definition edge_eqb (a b : edge) : bool :=
  let '(s1, t1, l1) := a in let '(s2, t2, l2) := b in (s1 =? s2) && (t1 =? t2) && olabel_eqb l1 l2.

Definition triple (m : medge) : edge := (esrc m, edst m, elab m).

(* CFG._edge_key: the key of the first multigraph edge source->target whose label equals edge.label *)
Definition edge_key (g : graph) (e : edge) : option Z :=
  match find (fun m => edge_eqb (triple m) e) g with
  | Some m => Some (ekey m)
  | None => None
  end.

(* __contains__ *)
Definition contains (g : graph) (e : edge) : bool :=
  match edge_key g e with Some _ => true | None => false end.

Definition new_key (g : graph) (s t : Z) : Z :=
  fold_left (fun k m => if (esrc m =? s) && (edst m =? t) then Z.max k (ekey m + 1) else k) g 0.

(* add: guarded MultiDiGraph.add_edge *)
Definition add (g : graph) (e : edge) : graph :=
  if contains g e then g
  else let '(s, t, l) := e in g ++ [{| esrc := s; edst := t; ekey := new_key g s t; elab := l |}].

(* discard: remove_edge(source, target, key) for the key found *)
Definition discard (g : graph) (e : edge) : graph :=
  match edge_key g e with
  | None => g
  | Some k => let '(s, t, _) := e in
              filter (fun m => negb ((esrc m =? s) && (edst m =? t) && (ekey m =? k))) g
  end.

Definition clear (g : graph) : graph := [].
Definition len (g : graph) : Z := Z.of_nat (length g).
Definition edges (g : graph) : list edge := map triple g.                 (* __iter__ *)
Definition out_edges (g : graph) (n : Z) : list edge := map triple (filter (fun m => esrc m =? n) g).
Definition in_edges (g : graph) (n : Z) : list edge := map triple (filter (fun m => edst m =? n) g).

Definition update (g : graph) (es : list edge) : graph := fold_left add es g.

(* collections.abc.MutableSet mixins, transcribed from CPython's _collections_abc.py *)
Definition remove (g : graph) (e : edge) : res graph :=
  if contains g e then Ok (discard g e) else Err EKey.

(* pop(): value = next(iter(self)) -- the first edge in iteration order; KeyError when empty *)
Definition pop (g : graph) : res (graph * edge) :=
  match g with
  | [] => Err EKey
  | m :: _ => Ok (discard g (triple m), triple m)
  end.

Definition mem_edge (e : edge) (l : list edge) : bool := existsb (edge_eqb e) l.

(* self |= it *)
Definition ior (g : graph) (it : list edge) : graph := fold_left add it g.
(* self &= it :  for value in (self - it): self.discard(value) *)
Definition iand (g : graph) (it : list edge) : graph :=
  fold_left discard (filter (fun e => negb (mem_edge e it)) (edges g)) g.
(* self -= it *)
Definition isub (g : graph) (it : list edge) : graph := fold_left discard it g.
(* self ^= it (it another collection; a non-Set iterable is first turned into a CFG, i.e. deduplicated) *)
Fixpoint dedup_edges (l : list edge) : list edge :=
  match l with
  | [] => []
  | e :: l' => if mem_edge e l' then dedup_edges l' else e :: dedup_edges l'
  end.
Definition ixor (g : graph) (it : list edge) : graph :=
  fold_left (fun g e => if contains g e then discard g e else add g e) (edges (update [] it)) g.

(* comparisons with another set of edges given as a duplicate-free list *)
Definition le_set (g : graph) (other : list edge) : bool :=
  (Nat.leb (length g) (length other)) && forallb (fun e => mem_edge e other) (edges g).
Definition eq_set (g : graph) (other : list edge) : bool :=
  (Nat.eqb (length g) (length other)) && le_set g other.
Definition isdisjoint (g : graph) (other : list edge) : bool :=
  forallb (fun e => negb (contains g e)) other.

(* CfgNode.outgoing_edges / incoming_edges: through the node's IR, nothing when it has none.
   `cfg_of ir` is that IR's graph, `ir_of_node` the node's current IR. *)
Definition node_out (cfg_of : Z -> graph) (ir_of_node : option Z) (n : Z) : list edge :=
  match ir_of_node with Some ir => out_edges (cfg_of ir) n | None => [] end.
Definition node_in (cfg_of : Z -> graph) (ir_of_node : option Z) (n : Z) : list edge :=
  match ir_of_node with Some ir => in_edges (cfg_of ir) n | None => [] end.

(* ---------- operations, for histories ---------- *)

Inductive cop :=
| CAdd (e : edge) | CDiscard (e : edge) | CRemove (e : edge) | CPop (witness : option edge) | CClear
| CUpdate (es : list edge) | CIor (es : list edge) | CIand (es : list edge) | CIsub (es : list edge) | CIxor (es : list edge).

(* `pop` receives the edge the implementation returned: iteration order of a networkx graph groups edges by
   source node, which the insertion-ordered list does not reproduce; any member is an admissible choice. *)
Definition cstep (g : graph) (o : cop) : res graph :=
  match o with
  | CAdd e => Ok (add g e)
  | CDiscard e => Ok (discard g e)
  | CRemove e => remove g e
  | CPop w =>
    match g with
    | [] => Err EKey
    | _ => match w with
           | Some e => if contains g e then Ok (discard g e) else Err EImpossible
           | None => Err EImpossible
           end
    end
  | CClear => Ok (clear g)
  | CUpdate es => Ok (update g es)
  | CIor es => Ok (ior g es)
  | CIand es => Ok (iand g es)
  | CIsub es => Ok (isub g es)
  | CIxor es => Ok (ixor g es)
  end.

Definition cstep' (g : graph) (o : cop) : graph := match cstep g o with Ok g' => g' | Err _ => g end.
Definition crun (ops : list cop) : graph := fold_left cstep' ops [].
