(* sx glue for Model/ByteStore.v *)
From Coq Require Import ZArith List Bool.
From V Require Import Result ByteStore.
Import ListNotations.
Open Scope Z_scope.

Definition bs_item (s : bstore) (it : sx) : bstore * sx :=
  match it with
  | L [A 1; A v] => (set_size s v, L [A 0])
  | L [A 2; A v] => (set_init s v, L [A 0])
  | L [A 3; A i; A b] => match poke s i b with Ok s' => (s', L [A 0]) | Err e => (s, sx_err e) end
  | L [A 4; bs] => (set_contents s (un_zs bs), L [A 0])
  | L [A 10] => (s, L [A 0; A (bsize s); A (init_size s); sx_zs (bbytes s)])
  | L [A 11; A off; A size] => (s, L [A 0; sx_zs (block_contents s off size)])
  | L [A 12; ad; A off; A size; A a] => (s, L [A 0; sx_bool (contains_address (un_opt ad) off size a); sx_opt (block_address (un_opt ad) off)])
  | L [A 13; A off; A size; A o] => (s, L [A 0; sx_bool (contains_offset off size o)])
  | L [A 14] => (s, match reload s with
                    | Ok s' => L [A 0; A (bsize s'); sx_zs (bbytes s')]
                    | Err e => sx_err e end)
  | _ => (s, L [A (-2)])
  end.

Fixpoint bs_items (s : bstore) (items : list sx) : list sx :=
  match items with
  | [] => []
  | it :: items' => let '(s', r) := bs_item s it in r :: bs_items s' items'
  end.

Definition run_bytes (size init contents items : sx) : sx :=
  match ctor (un_opt size) (un_opt init) (un_zs contents) with
  | Ok s => L (L [A 0] :: bs_items s (un_l items))
  | Err e => L [sx_err e]
  end.
