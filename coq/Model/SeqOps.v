(* The read-only sequence protocol of `ir.modules` (a ListWrapper) -- property C16:
   index / count / __contains__ / __getitem__ (int and slice) / reversed / len must
   agree with CPython's built-in list on the same elements.  Elements are node ids (Z).
   Definitions only; the lemmas are in Proofs/SeqOpsProofs.v. *)
From Coq Require Import ZArith List Bool.
From V Require Import Result.
Import ListNotations.
Open Scope Z_scope.

(* Python's clamping of a bound for index(): a negative value counts from the end
   (and is clamped at 0), a non-negative one is clamped at len. *)
Definition clamp_bound (i : Z) (len : nat) : nat :=
  if i <? 0 then Z.to_nat (Z.max 0 (i + Z.of_nat len))
  else Z.to_nat (Z.min i (Z.of_nat len)).

(* first position p >= pos-offset with lo <= p < hi holding x; p counts from [pos] at the head *)
Fixpoint index_from (l : list Z) (x : Z) (pos lo hi : nat) : option nat :=
  match l with
  | [] => None
  | y :: t =>
      if (Nat.leb lo pos && Nat.ltb pos hi && (y =? x))%bool then Some pos
      else index_from t x (S pos) lo hi
  end.

Definition index_lo (start : option Z) (len : nat) : nat :=
  match start with None => O | Some s => clamp_bound s len end.
Definition index_hi (stop : option Z) (len : nat) : nat :=
  match stop with None => len | Some e => clamp_bound e len end.

(* list.index(x, start, stop) *)
Definition py_index (l : list Z) (x : Z) (start stop : option Z) : res nat :=
  match index_from l x O (index_lo start (length l)) (index_hi stop (length l)) with
  | Some p => Ok p
  | None => Err EValue
  end.

Fixpoint py_count (l : list Z) (x : Z) : nat :=
  match l with
  | [] => O
  | y :: t => if y =? x then S (py_count t x) else py_count t x
  end.

Fixpoint py_contains (l : list Z) (x : Z) : bool :=
  match l with
  | [] => false
  | y :: t => if y =? x then true else py_contains t x
  end.

(* l[i] for an int i *)
Definition py_getitem (l : list Z) (i : Z) : res Z :=
  let n := Z.of_nat (length l) in
  let j := if i <? 0 then i + n else i in
  if (j <? 0) || (n <=? j) then Err EIndex
  else match nth_error l (Z.to_nat j) with
       | Some v => Ok v
       | None => Err EIndex
       end.

(* one bound of slice.indices: [lower, upper] is the clamping interval *)
Definition slice_bound (b : option Z) (dflt lower upper n : Z) : Z :=
  match b with
  | None => dflt
  | Some v => if v <? 0 then Z.max (v + n) lower else Z.min v upper
  end.

(* slice(start, stop, step).indices(len) *)
Definition py_slice_indices (start stop : option Z) (step : Z) (len : nat)
  : res (Z * Z * Z) :=
  let n := Z.of_nat len in
  if step =? 0 then Err EValue
  else
    let lower := if step <? 0 then -1 else 0 in
    let upper := if step <? 0 then n - 1 else n in
    let s := slice_bound start (if step <? 0 then upper else lower) lower upper n in
    let e := slice_bound stop (if step <? 0 then lower else upper) lower upper n in
    Ok (s, e, step).

(* range(cur, e, st) for at most [fuel] members, as naturals *)
Fixpoint range_from (fuel : nat) (cur e st : Z) : list nat :=
  match fuel with
  | O => []
  | S f =>
      if (if 0 <? st then cur <? e else e <? cur)
      then Z.to_nat cur :: range_from f (cur + st) e st
      else []
  end.

(* the positions range(s, e, st) enumerates (st = 0 enumerates nothing) *)
Definition py_range_positions (s e st : Z) (len : nat) : list nat :=
  if st =? 0 then [] else range_from len s e st.

(* the elements at the given positions, in order (positions outside the list are skipped;
   py_getslice never produces any) *)
Fixpoint gather (l : list Z) (ps : list nat) : list Z :=
  match ps with
  | [] => []
  | p :: t => match nth_error l p with
              | Some v => v :: gather l t
              | None => gather l t
              end
  end.

(* l[a:b:c] *)
Definition py_getslice (l : list Z) (start stop : option Z) (step : Z) : res (list Z) :=
  match py_slice_indices start stop step (length l) with
  | Ok (s, e, st) => Ok (gather l (py_range_positions s e st (length l)))
  | Err er => Err er
  end.

Definition py_reversed (l : list Z) : list Z := rev l.
Definition py_len (l : list Z) : nat := length l.
