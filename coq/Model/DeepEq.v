(* deep_eq of every class (ir.py, module.py, section.py, byteinterval.py, block.py, symbol.py, symbolicexpression.py,
   cfg.py, auxdata.py) over the content records of Model/Proto.v, as coded: type test first, fields in the coded order,
   children sorted by UUID then zipped after a length check, expression items sorted by offset, edges sorted by
   (source uuid, target uuid, label key), AuxData keys only; referents, entry points, edge endpoints and expression symbols are
   compared by THEIR deep_eq (looked up by UUID in the IR they belong to). *)
From Coq Require Import ZArith List Bool.
From V Require Import Result Proto.
Import ListNotations.
Open Scope Z_scope.

(* ---------- sorted(..., key=...) : a stable insertion sort ---------- *)
Section Sort.
  Context {X : Type} (leb : X -> X -> bool).
  Fixpoint insert (x : X) (l : list X) : list X :=
    match l with
    | [] => [x]
    | y :: l' => if leb y x then y :: insert x l' else x :: l
    end.
  Definition sort (l : list X) : list X := fold_left (fun acc x => insert x acc) l [].
End Sort.

Definition by_key {X} (key : X -> Z) (a b : X) : bool := key a <=? key b.

(* zip after a length check, all pairs related *)
Fixpoint all2 {X} (f : X -> X -> bool) (a b : list X) : bool :=
  match a, b with
  | [], [] => true
  | x :: a', y :: b' => f x y && all2 f a' b'
  | _, _ => false
  end.

(* Python set equality on lists denoting sets *)
Definition set_eqb (a b : list Z) : bool :=
  forallb (fun x => existsb (Z.eqb x) b) a && forallb (fun x => existsb (Z.eqb x) a) b.

Fixpoint zs_eqb (a b : list Z) : bool :=
  match a, b with
  | [], [] => true
  | x :: a', y :: b' => (x =? y) && zs_eqb a' b'
  | _, _ => false
  end.
Definition keys_eqb (a b : list (list Z)) : bool :=
  forallb (fun x => existsb (zs_eqb x) b) a && forallb (fun x => existsb (zs_eqb x) a) b.
Definition oz_eqb (a b : option Z) : bool :=
  match a, b with Some x, Some y => x =? y | None, None => true | _, _ => false end.

(* ---------- nodes a reference may name, looked up by UUID in an IR ---------- *)
Inductive rnode := RBlock (b : cBlock) | RProxy (u : Z).

Definition find_ref (c : cIR) (u : Z) : option rnode :=
  let blocks := flat_map module_blocks (cr_modules c) in
  match find (fun b => cb_uuid b =? u) blocks with
  | Some b => Some (RBlock b)
  | None => if existsb (Z.eqb u) (flat_map cm_proxies (cr_modules c)) then Some (RProxy u) else None
  end.

Definition find_symbol (c : cIR) (u : Z) : option cSymbol :=
  find (fun y => cy_uuid y =? u) (flat_map cm_symbols (cr_modules c)).

(* ByteBlock.deep_eq / CodeBlock.deep_eq / DataBlock.deep_eq *)
Definition block_deq (a b : cBlock) : bool :=
  Bool.eqb (cb_code a) (cb_code b)                                   (* isinstance(other, CodeBlock) resp. DataBlock *)
  && (cb_off a =? cb_off b) && (cb_uuid a =? cb_uuid b) && (cb_size a =? cb_size b)
  && (if cb_code a then cb_dm a =? cb_dm b else true).

(* deep_eq between two referenced blocks / proxies *)
Definition rnode_deq (a b : option rnode) : bool :=
  match a, b with
  | Some (RBlock x), Some (RBlock y) => block_deq x y
  | Some (RProxy x), Some (RProxy y) => x =? y
  | _, _ => false
  end.

(* Symbol.deep_eq *)
Definition symbol_deq (ca cb : cIR) (a b : cSymbol) : bool :=
  (match cy_payload a, cy_payload b with           (* self.value != other.value *)
   | CPVal x, CPVal y => x =? y
   | CPVal _, _ | _, CPVal _ => false
   | _, _ => true
   end)
  && (match cy_payload a, cy_payload b with        (* referent: None cases, else referent.deep_eq(other.referent) *)
      | CPRef x, CPRef y => rnode_deq (find_ref ca x) (find_ref cb y)
      | CPRef _, _ | _, CPRef _ => false
      | _, _ => true
      end)
  && zs_eqb (cy_name a) (cy_name b) && Bool.eqb (cy_at_end a) (cy_at_end b) && (cy_uuid a =? cy_uuid b).

Definition osym_deq (ca cb : cIR) (x y : Z) : bool :=
  match find_symbol ca x, find_symbol cb y with
  | Some a, Some b => symbol_deq ca cb a b
  | _, _ => false
  end.

(* SymAddrConst.deep_eq / SymAddrAddr.deep_eq *)
Definition expr_deq (ca cb : cIR) (a b : cExpr) : bool :=
  match cx_val a, cx_val b with
  | CAddrConst o1 s1, CAddrConst o2 s2 => (o1 =? o2) && osym_deq ca cb s1 s2 && set_eqb (cx_attrs a) (cx_attrs b)
  | CAddrAddr c1 o1 s1 t1, CAddrAddr c2 o2 s2 t2 =>
    (c1 =? c2) && (o1 =? o2) && osym_deq ca cb s1 s2 && osym_deq ca cb t1 t2 && set_eqb (cx_attrs a) (cx_attrs b)
  | _, _ => false
  end.

(* ByteInterval.deep_eq *)
Definition bi_deq (ca cb : cIR) (a b : cBI) : bool :=
  (ci_uuid a =? ci_uuid b) && oz_eqb (ci_addr a) (ci_addr b) && zs_eqb (ci_contents a) (ci_contents b)
  && (ci_size a =? ci_size b)
  && all2 block_deq (sort (by_key cb_uuid) (ci_blocks a)) (sort (by_key cb_uuid) (ci_blocks b))
  && all2 (fun x y => (fst x =? fst y) && expr_deq ca cb (snd x) (snd y))
          (sort (by_key fst) (ci_symx a)) (sort (by_key fst) (ci_symx b)).

(* Section.deep_eq *)
Definition section_deq (ca cb : cIR) (a b : cSection) : bool :=
  (cs_uuid a =? cs_uuid b) && zs_eqb (cs_name a) (cs_name b)
  && all2 (bi_deq ca cb) (sort (by_key ci_uuid) (cs_bis a)) (sort (by_key ci_uuid) (cs_bis b))
  && set_eqb (cs_flags a) (cs_flags b).

(* Module.deep_eq *)
Definition module_deq (ca cb : cIR) (a b : cModule) : bool :=
  (cm_uuid a =? cm_uuid b) && keys_eqb (map fst (cm_aux a)) (map fst (cm_aux b))             (* AuxDataContainer.deep_eq *)
  && zs_eqb (cm_binary_path a) (cm_binary_path b) && (cm_isa a =? cm_isa b) && (cm_byte_order a =? cm_byte_order b)
  && (cm_file_format a =? cm_file_format b) && zs_eqb (cm_name a) (cm_name b)
  && (cm_preferred_addr a =? cm_preferred_addr b) && (cm_rebase_delta a =? cm_rebase_delta b)
  && all2 Z.eqb (sort Z.leb (cm_proxies a)) (sort Z.leb (cm_proxies b))                       (* ProxyBlock.deep_eq: uuid *)
  && all2 (section_deq ca cb) (sort (by_key cs_uuid) (cm_sections a)) (sort (by_key cs_uuid) (cm_sections b))
  && all2 (symbol_deq ca cb) (sort (by_key cy_uuid) (cm_symbols a)) (sort (by_key cy_uuid) (cm_symbols b))
  && (match cm_entry a, cm_entry b with
      | None, None => true
      | None, Some _ => false
      | Some x, Some y => rnode_deq (find_ref ca x) (find_ref cb y)
      | Some _, None => false
      end).

(* CFG.deep_eq: edge_sort_key = (source uuid, target uuid, label key), label key of None = (-1, False, False) *)
Definition label_key (l : option clabel) : Z * bool * bool := match l with Some k => k | None => (-1, false, false) end.
Definition bool_leb (a b : bool) : bool := implb a b.
Definition edge_leb (a b : cEdge) : bool :=
  if ce_src a <? ce_src b then true else if ce_src b <? ce_src a then false
  else if ce_dst a <? ce_dst b then true else if ce_dst b <? ce_dst a then false
  else let '(t1, c1, d1) := label_key (ce_label a) in let '(t2, c2, d2) := label_key (ce_label b) in
       if t1 <? t2 then true else if t2 <? t1 then false
       else if negb (Bool.eqb c1 c2) then bool_leb c1 c2
       else bool_leb d1 d2.
Definition cfg_deq (ca cb : cIR) : bool :=
  all2 (fun x y => olabel_eqb (ce_label x) (ce_label y)
                   && rnode_deq (find_ref ca (ce_src x)) (find_ref cb (ce_src y))
                   && rnode_deq (find_ref ca (ce_dst x)) (find_ref cb (ce_dst y)))
       (sort edge_leb (cr_edges ca)) (sort edge_leb (cr_edges cb)).

(* IR.deep_eq *)
Definition ir_deq (a b : cIR) : bool :=
  (cr_uuid a =? cr_uuid b) && keys_eqb (map fst (cr_aux a)) (map fst (cr_aux b))
  && all2 (module_deq a b) (sort (by_key cm_uuid) (cr_modules a)) (sort (by_key cm_uuid) (cr_modules b))
  && (cr_version a =? cr_version b) && cfg_deq a b.

(* ---------- the specification: equality of every documented field, children as sets ---------- *)
Fixpoint dedup_sorted (l : list Z) : list Z :=
  match l with
  | x :: ((y :: _) as l') => if x =? y then dedup_sorted l' else x :: dedup_sorted l'
  | _ => l
  end.
Definition norm_set (l : list Z) : list Z := dedup_sorted (sort Z.leb l).

Definition norm_expr (kv : Z * cExpr) : Z * cExpr :=
  (fst kv, {| cx_val := cx_val (snd kv); cx_attrs := norm_set (cx_attrs (snd kv)) |}).
Definition norm_bi (b : cBI) : cBI :=
  {| ci_uuid := ci_uuid b; ci_addr := ci_addr b; ci_size := ci_size b; ci_contents := ci_contents b;
     ci_blocks := sort (by_key cb_uuid) (ci_blocks b);
     ci_symx := sort (by_key fst) (map norm_expr (ci_symx b)) |}.
Definition norm_section (s : cSection) : cSection :=
  {| cs_uuid := cs_uuid s; cs_name := cs_name s; cs_flags := norm_set (cs_flags s);
     cs_bis := sort (by_key ci_uuid) (map norm_bi (cs_bis s)) |}.
(* AuxData: only the set of keys is compared; code points of a key are compared lexicographically *)
Fixpoint zs_leb (a b : list Z) : bool :=
  match a, b with
  | [], _ => true
  | _ :: _, [] => false
  | x :: a', y :: b' => if x <? y then true else if y <? x then false else zs_leb a' b'
  end.
Definition norm_aux (l : list (list Z * pAux)) : list (list Z * pAux) :=
  map (fun k => (k, {| a_type := []; a_data := [] |})) (sort zs_leb (map fst l)).
Definition norm_module (m : cModule) : cModule :=
  {| cm_uuid := cm_uuid m; cm_name := cm_name m; cm_binary_path := cm_binary_path m; cm_isa := cm_isa m;
     cm_file_format := cm_file_format m; cm_byte_order := cm_byte_order m; cm_preferred_addr := cm_preferred_addr m;
     cm_rebase_delta := cm_rebase_delta m; cm_entry := cm_entry m;
     cm_proxies := sort Z.leb (cm_proxies m);
     cm_sections := sort (by_key cs_uuid) (map norm_section (cm_sections m));
     cm_symbols := sort (by_key cy_uuid) (cm_symbols m);
     cm_aux := norm_aux (cm_aux m) |}.
(* modules are compared sorted by UUID as well (deep_eq sorts them), so module ORDER is not a compared field *)
Definition norm (c : cIR) : cIR :=
  {| cr_uuid := cr_uuid c; cr_version := cr_version c;
     cr_modules := sort (by_key cm_uuid) (map norm_module (cr_modules c));
     cr_edges := sort edge_leb (cr_edges c); cr_aux := norm_aux (cr_aux c) |}.
