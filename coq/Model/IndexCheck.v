(* util.ListWrapper._check_index (fix 74ce526): list.insert and list.pop convert their index argument to a machine word before
   anything else happens -- OverflowError outside [-2^63, 2^63) -- and the module list does the same before any ownership hook
   runs.  (del l[i] and l[i] = v raise IndexError for such an index, which norm_index already gives.) *)
From Coq Require Import ZArith Bool.
From V Require Import Result LazyTree World.
Open Scope Z_scope.

Definition fits_ssize (i : Z) : bool := (- 2 ^ 63 <=? i) && (i <? 2 ^ 63).

Definition step_checked (w : world) (o : op) : res world :=
  match o with
  | OModInsert _ i _ | OModPop _ i => if fits_ssize i then step w o else Err EOverflow
  | _ => step w o
  end.
