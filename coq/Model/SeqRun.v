(* sx glue for Model/SeqOps.v: one list of node ids and a list of read-only queries
   (50 l queries) -> one reply per query.
     (0 x a b)   l.index(x, a, b)    a, b optional: () or (v)
     (1 x)       l.count(x)
     (2 x)       x in l
     (3 i)       l[i]
     (4 a b c)   l[a:b:c]            a, b optional
     (5)         list(reversed(l))
     (6)         len(l)
     (7 a b c)   slice(a, b, c).indices(len(l)) *)
From Coq Require Import ZArith List Bool.
From V Require Import Result SeqOps.
Import ListNotations.
Open Scope Z_scope.

Definition seq_query (l : list Z) (q : sx) : sx :=
  match q with
  | L [A 0; A x; a; b] =>
      match py_index l x (un_opt a) (un_opt b) with Ok p => L [A 0; A (Z.of_nat p)] | Err e => sx_err e end
  | L [A 1; A x] => L [A 0; A (Z.of_nat (py_count l x))]
  | L [A 2; A x] => L [A 0; sx_bool (py_contains l x)]
  | L [A 3; A i] => match py_getitem l i with Ok v => L [A 0; A v] | Err e => sx_err e end
  | L [A 4; a; b; A c] => match py_getslice l (un_opt a) (un_opt b) c with Ok r => L [A 0; sx_zs r] | Err e => sx_err e end
  | L [A 5] => L [A 0; sx_zs (py_reversed l)]
  | L [A 6] => L [A 0; A (Z.of_nat (py_len l))]
  | L [A 7; a; b; A c] =>
      match py_slice_indices (un_opt a) (un_opt b) c (length l) with
      | Ok (s, e, st) => L [A 0; A s; A e; A st]
      | Err e => sx_err e
      end
  | _ => L [A (-2)]
  end.

Definition run_seq (l qs : sx) : sx := L (map (seq_query (un_zs l)) (un_l qs)).
