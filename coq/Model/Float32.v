(* binary64 <-> binary32 conversion on bit patterns, as struct.pack('<f', x) /
   struct.unpack('<f', b) perform it through the C casts (float)x and (double)y
   (round to nearest even; signalling NaNs are quieted by the hardware conversion;
   a finite double that rounds to infinity raises OverflowError). *)
From Coq Require Import ZArith Bool.
From V Require Import Result.
Open Scope Z_scope.

Definition p2 (n : Z) : Z := 2 ^ n.

(* round-to-nearest-even of  mant / 2^shift  (shift >= 1) *)
Definition rne_shift (mant shift : Z) : Z :=
  let q := mant / p2 shift in
  let r := mant mod p2 shift in
  let half := p2 (shift - 1) in
  if (half <? r) || ((r =? half) && Z.odd q) then q + 1 else q.

Definition round32 (b : Z) : res Z :=
  let s := b / p2 63 in
  let e := (b / p2 52) mod 2048 in
  let m := b mod p2 52 in
  let sign := s * p2 31 in
  if e =? 2047 then
    if m =? 0 then Ok (sign + 2139095040)                         (* inf: 0x7f800000 *)
    else Ok (sign + 2139095040 + Z.lor 4194304 (m / p2 29))       (* NaN, quiet bit 0x400000 set *)
  else if e =? 0 then Ok sign                                     (* zero / double subnormal -> +-0 *)
  else
    let x := e - 1023 in
    let mant := m + p2 52 in
    let mag :=
      if -126 <=? x then (x + 126) * p2 23 + rne_shift mant 29    (* carry runs into the exponent *)
      else rne_shift mant (29 + (-126 - x)) in
    if 2139095040 <=? mag then Err EOverflow else Ok (sign + mag).

Definition widen32 (b : Z) : Z :=
  let s := b / p2 31 in
  let e := (b / p2 23) mod 256 in
  let m := b mod p2 23 in
  let sign := s * p2 63 in
  if e =? 255 then
    if m =? 0 then sign + 2047 * p2 52
    else sign + 2047 * p2 52 + (Z.lor 4194304 m) * p2 29
  else if e =? 0 then
    if m =? 0 then sign
    else
      let k := Z.log2 m in
      sign + (k - 149 + 1023) * p2 52 + (m - p2 k) * p2 (52 - k)
  else sign + (e - 127 + 1023) * p2 52 + m * p2 29.
