(* sx glue for Model/Cfg.v: decode ops and observations, run a history, one reply per item. *)
From Coq Require Import ZArith List Bool.
From V Require Import Result Cfg.
Import ListNotations.
Open Scope Z_scope.

Definition olabel_of_sx (s : sx) : olabel :=
  match s with
  | L [A t; A c; A d] => Some (t, negb (c =? 0), negb (d =? 0))
  | _ => None
  end.
Definition edge_of_sx (s : sx) : edge :=
  match s with
  | L [A a; A b; l] => (a, b, olabel_of_sx l)
  | _ => (0, 0, None)
  end.
Definition sx_olabel (l : olabel) : sx :=
  match l with Some (t, c, d) => L [A t; sx_bool c; sx_bool d] | None => L [] end.
Definition sx_edge (e : edge) : sx := let '(a, b, l) := e in L [A a; A b; sx_olabel l].
Definition edges_of_sx (s : sx) : list edge := map edge_of_sx (un_l s).

Definition cop_of_sx (s : sx) : option cop :=
  match s with
  | L [A 1; e] => Some (CAdd (edge_of_sx e))
  | L [A 2; e] => Some (CDiscard (edge_of_sx e))
  | L [A 3; e] => Some (CRemove (edge_of_sx e))
  | L [A 4; L [e]] => Some (CPop (Some (edge_of_sx e)))
  | L [A 4; L []] => Some (CPop None)
  | L [A 5] => Some CClear
  | L [A 6; es] => Some (CUpdate (edges_of_sx es))
  | L [A 7; es] => Some (CIor (edges_of_sx es))
  | L [A 8; es] => Some (CIand (edges_of_sx es))
  | L [A 9; es] => Some (CIsub (edges_of_sx es))
  | L [A 10; es] => Some (CIxor (edges_of_sx es))
  | _ => None
  end.

Definition cfg_item (g : graph) (it : sx) : graph * sx :=
  match it with
  | L [A 20] => (g, L [A 0; A (len g); L (map sx_edge (edges g))])
  | L [A 21; e] => (g, L [A 0; sx_bool (contains g (edge_of_sx e))])
  | L [A 22; A n] => (g, L [A 0; L (map sx_edge (out_edges g n))])
  | L [A 23; A n] => (g, L [A 0; L (map sx_edge (in_edges g n))])
  | L [A 24; es] => (g, L [A 0; sx_bool (le_set g (edges_of_sx es)); sx_bool (eq_set g (edges_of_sx es)); sx_bool (isdisjoint g (edges_of_sx es))])
  | _ =>
    match cop_of_sx it with
    | Some o => match cstep g o with Ok g' => (g', L [A 0]) | Err e => (g, sx_err e) end
    | None => (g, L [A (-2)])
    end
  end.

Fixpoint cfg_items (g : graph) (items : list sx) : list sx :=
  match items with
  | [] => []
  | it :: items' => let '(g', r) := cfg_item g it in r :: cfg_items g' items'
  end.

Definition run_cfg (items : sx) : sx := L (cfg_items [] (un_l items)).
