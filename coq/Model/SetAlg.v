(* The non-mutating half of the set interface of the owning collections (property C16): SetWrapper inherits the binary
   operators and comparisons from collections.abc.Set, whose bodies are transcribed here.  [self] is the collection's
   members in iteration order (duplicate-free), [other] the operand's (a set, hence duplicate-free); a result that the
   mixin hands to _from_iterable (= set(...)) is given as the list of values in the order the generator yields them --
   set() keeps one of each.  Definitions only; the lemmas are in Proofs/SetAlgProofs.v. *)
From Coq Require Import ZArith List Bool.
Import ListNotations.
Open Scope Z_scope.

Definition smem (x : Z) (l : list Z) : bool := existsb (Z.eqb x) l.

(* set(iterable): first occurrences, in order *)
Fixpoint to_set (l : list Z) : list Z :=
  match l with
  | [] => []
  | x :: t => x :: filter (fun y => negb (y =? x)) (to_set t)
  end.

(* __and__ : (value for value in other if value in self) *)
Definition abc_and (self other : list Z) : list Z := to_set (filter (fun v => smem v self) other).
(* __or__ is overridden by SetWrapper: self._data | other; the mixin __ror__ chains self then other *)
Definition abc_or (self other : list Z) : list Z := to_set (self ++ other).
(* __sub__ : (value for value in self if value not in other) *)
Definition abc_sub (self other : list Z) : list Z := to_set (filter (fun v => negb (smem v other)) self).
(* __rsub__ : (value for value in other if value not in self) *)
Definition abc_rsub (self other : list Z) : list Z := to_set (filter (fun v => negb (smem v self)) other).
(* __xor__ : (self - other) | (other - self) *)
Definition abc_xor (self other : list Z) : list Z := to_set (abc_sub self other ++ abc_rsub self other).

(* __le__ : len(self) > len(other) -> False; else every element of self in other *)
Definition abc_le (self other : list Z) : bool :=
  if (length other <? length self)%nat then false else forallb (fun e => smem e other) self.
(* __ge__ : len(self) < len(other) -> False; else every element of other in self *)
Definition abc_ge (self other : list Z) : bool :=
  if (length self <? length other)%nat then false else forallb (fun e => smem e self) other.
Definition abc_lt (self other : list Z) : bool := (length self <? length other)%nat && abc_le self other.
Definition abc_gt (self other : list Z) : bool := (length other <? length self)%nat && abc_ge self other.
Definition abc_eq (self other : list Z) : bool := (length self =? length other)%nat && abc_le self other.
Definition abc_ne (self other : list Z) : bool := negb (abc_eq self other).
(* isdisjoint : no value of other in self *)
Definition abc_isdisjoint (self other : list Z) : bool := forallb (fun v => negb (smem v self)) other.
