(* sx glue for Model/TwinCache.v: (52 subs ops) -> after every operation: the KeyError flag and, for IRs 1 and 2, the members of
   the owning set and the UUID table.
   subs = ((x ((uuid node) ...)) ...)   what each element registers
   ops  = ((0 ir x) | (1 ir x) | (2 ir (x ...)) | (3 ir (x ...)))   add | discard | ^= (two passes: the code) | ^= (interleaved: the mixin) *)
From Coq Require Import ZArith List Bool.
From V Require Import Result TwinCache.
Import ListNotations.
Open Scope Z_scope.

Definition un_pair (s : sx) : Z * Z := match s with L [A a; A b] => (a, b) | _ => (0, 0) end.

Definition subs_of (s : sx) : id -> tree :=
  fold_left (fun f e => match e with L [A x; L tr] => upd f x (map un_pair tr) | _ => f end) (un_l s) (fun _ => []).

Definition show_ir (s : st) (ir : Z) : sx :=
  L [sx_zs (members (irs s ir)); L (map (fun p => L [A (fst p); A (snd p)]) (cache (irs s ir)))].

Definition twin_step (s : st) (o : sx) : st * bool :=
  match o with
  | L [A 0; A ir; A x] => add s ir x
  | L [A 1; A ir; A x] => discard s ir x
  | L [A 2; A ir; xs] => ixor_twopass s ir (un_zs xs)
  | L [A 3; A ir; xs] => ixor_interleaved s ir (un_zs xs)
  | _ => (s, true)
  end.

Definition run_twin (subs ops : sx) : sx :=
  L (rev (snd (fold_left (fun (acc : st * list sx) o =>
                            let '(s, out) := acc in
                            let '(s', ok) := twin_step s o in
                            (s', L [sx_bool ok; show_ir s' 1; show_ir s' 2] :: out))
                         (un_l ops) (st0 (subs_of subs), [])))).
