(* The AuxData binary codec.

   `encode`/`decode` follow the FORMAT (AuxData.md, include/gtirb/AuxData.hpp) and dispatch
   exactly as python/gtirb/serialization.py does (_encode_tree/_decode_tree: look the
   tree's name up in the codec table, hand the subtypes to the codec).  The table used
   is `spec_table`, written from the format documentation; gen/PyFacts.v holds the table
   introspected from the working-tree Python and Props/C08.v proves them equal.

   Reads mirror BytesIO.read(n): at end of input fewer bytes come back, never an error,
   and int.from_bytes of a short read is what CPython computes. *)
From Coq Require Import ZArith List Bool String Ascii.
From V Require Import Result Bytes TypeName Utf8 Float32.
Import ListNotations.
Open Scope Z_scope.

Definition str (s : string) : list Z :=
  map (fun a => Z.of_N (N_of_ascii a)) (list_ascii_of_string s).

Inductive ckind :=
| CInt (n : nat) (signed : bool)
| CBool | CF32 | CF64 | CStr | CUuid | COffset
| CSeq | CSet | CMap | CTuple | CVariant.

(* From AuxData.md "Supported types" and the auxdata_traits specialisations of AuxData.hpp *)
Definition spec_table : list (list Z * ckind) :=
  [ (str "Addr", CInt 8 false);
    (str "bool", CBool);
    (str "Offset", COffset);
    (str "int64_t", CInt 8 true);
    (str "int32_t", CInt 4 true);
    (str "int16_t", CInt 2 true);
    (str "int8_t", CInt 1 true);
    (str "float", CF32);
    (str "double", CF64);
    (str "mapping", CMap);
    (str "sequence", CSeq);
    (str "set", CSet);
    (str "string", CStr);
    (str "tuple", CTuple);
    (str "uint64_t", CInt 8 false);
    (str "uint32_t", CInt 4 false);
    (str "uint16_t", CInt 2 false);
    (str "uint8_t", CInt 1 false);
    (str "UUID", CUuid);
    (str "variant", CVariant) ].

Fixpoint zs_eqb (a b : list Z) : bool :=
  match a, b with
  | [], [] => true
  | x :: a', y :: b' => (x =? y) && zs_eqb a' b'
  | _, _ => false
  end.

Fixpoint lookup_codec (tbl : list (list Z * ckind)) (nm : list Z) : option ckind :=
  match tbl with
  | [] => None
  | (k, c) :: tbl' => if zs_eqb k nm then Some c else lookup_codec tbl' nm
  end.

Inductive value :=
| VInt (z : Z)
| VBool (b : bool)
| VFloat (bits : Z)                 (* a Python float, by its binary64 bit pattern *)
| VStr (s : list Z)                 (* code points *)
| VUuid (u : Z)                     (* plain uuid.UUID, as its 128-bit integer *)
| VNode (id : Z) (u : Z)            (* a gtirb Node object (harness number) and its uuid *)
| VOffset (e : value) (d : Z)       (* gtirb.Offset(element_id, displacement) *)
| VSeq (l : list value)
| VSet (l : list value)
| VMap (l : list (value * value))
| VTuple (l : list value)
| VVariant (i : Z) (v : value)
| VUnknown (bs : list Z).           (* serialization.UnknownData *)

(* ---------- leaves ---------- *)

Definition in_range (n : nat) (signed : bool) (x : Z) : bool :=
  if signed then (- (pow256 n / 2) <=? x) && (x <? pow256 n / 2)
  else (0 <=? x) && (x <? pow256 n).

(* int.to_bytes(n, 'little', signed=...) *)
Definition enc_int (n : nat) (signed : bool) (x : Z) : res (list Z) :=
  if in_range n signed x then Ok (le_bytes n (x mod pow256 n)) else Err EOverflow.

(* int.from_bytes(read(n), 'little', signed=...) *)
Definition dec_int (n : nat) (signed : bool) (bs : list Z) : Z * list Z :=
  let got := take n bs in
  let u := of_le got in
  let k := List.length got in
  let v := if signed && (pow256 k / 2 <=? u) then u - pow256 k else u in
  (v, drop n bs).

Definition be16 (u : Z) : list Z := rev (le_bytes 16 u).

Definition enc_uuid (v : value) : res (list Z) :=
  match v with
  | VUuid u => Ok (be16 u)
  | VNode _ u => Ok (be16 u)
  | _ => Err EEncode
  end.

Definition dec_uuid (get : Z -> option Z) (bs : list Z) : res (value * list Z) :=
  let got := take 16 bs in
  if Nat.eqb (List.length got) 16 then
    let u := of_le (rev got) in
    Ok (match get u with Some id => VNode id u | None => VUuid u end, drop 16 bs)
  else Err EValue.                                     (* UUID(bytes=...) of wrong length *)

Definition no_subs (subs : list tree) : bool := match subs with [] => true | _ => false end.

(* ---------- encode ---------- *)

Definition prefix (n : list Z) (r : res (list Z)) : res (list Z) :=
  match r with Ok body => Ok (n ++ body) | Err e => Err e end.

Definition items_of (v : value) : option (list value) :=
  match v with
  | VSeq l | VSet l | VTuple l => Some l
  | VMap l => Some (map fst l)
  | _ => None
  end.

Fixpoint encode (t : tree) (v : value) {struct t} : res (list Z) :=
  match t with
  | T nm subs =>
    match lookup_codec spec_table nm with
    | None => Err EUnknownCodec
    | Some (CInt n sg) =>
      match v with
      | VInt x => if no_subs subs then enc_int n sg x else Err EEncode
      | VBool b => if no_subs subs then enc_int n sg (if b then 1 else 0) else Err EEncode
      | _ => Err EEncode
      end
    | Some CBool =>
      match v with
      | VBool b => if no_subs subs then Ok [if b then 1 else 0] else Err EEncode
      | _ => Err EEncode
      end
    | Some CF64 =>
      match v with
      | VFloat b => if no_subs subs then Ok (le_bytes 8 b) else Err EEncode
      | _ => Err EEncode
      end
    | Some CF32 =>
      match v with
      | VFloat b => if no_subs subs then do r <- round32 b; Ok (le_bytes 4 r) else Err EEncode
      | _ => Err EEncode
      end
    | Some CStr =>
      match v with
      | VStr s =>
        if no_subs subs then
          let bs := utf8_encode s in
          do n <- enc_int 8 false (Z.of_nat (List.length bs)); Ok (n ++ bs)
        else Err EEncode
      | _ => Err EEncode
      end
    | Some CUuid => if no_subs subs then enc_uuid v else Err EEncode
    | Some COffset =>
      match v with
      | VOffset e d =>
        if no_subs subs then do u <- enc_uuid e; do n <- enc_int 8 false d; Ok (u ++ n)
        else Err EEncode
      | _ => Err EEncode
      end
    | Some CSeq =>
      match v with
      | VSeq l | VTuple l =>
        match subs with
        | [sub] =>
          do n <- enc_int 8 false (Z.of_nat (List.length l));
          prefix n ((fix go (l : list value) : res (list Z) :=
             match l with
             | [] => Ok []
             | x :: l' => do a <- encode sub x; do b <- go l'; Ok (a ++ b)
             end) l)

        | _ => Err EEncode
        end
      | _ => Err EEncode
      end
    | Some CSet =>
      match items_of v with
      | Some l =>
        match subs with
        | [sub] =>
          do n <- enc_int 8 false (Z.of_nat (List.length l));
          prefix n ((fix go (l : list value) : res (list Z) :=
             match l with
             | [] => Ok []
             | x :: l' => do a <- encode sub x; do b <- go l'; Ok (a ++ b)
             end) l)

        | _ => Err EEncode
        end
      | None => Err EEncode
      end
    | Some CMap =>
      match v with
      | VMap l =>
        match subs with
        | [kt; vt] =>
          do n <- enc_int 8 false (Z.of_nat (List.length l));
          prefix n ((fix go (l : list (value * value)) : res (list Z) :=
             match l with
             | [] => Ok []
             | (k, x) :: l' =>
               do a <- encode kt k; do b <- encode vt x; do c <- go l'; Ok (a ++ b ++ c)
             end) l)

        | _ => Err EEncode
        end
      | _ => Err EEncode
      end
    | Some CTuple =>
      match items_of v with
      | Some l =>
        if Nat.eqb (List.length l) (List.length subs) then
          (fix go (subs : list tree) (l : list value) : res (list Z) :=
             match subs, l with
             | s :: subs', x :: l' => do a <- encode s x; do b <- go subs' l'; Ok (a ++ b)
             | _, _ => Ok []
             end) subs l
        else Err EEncode
      | None => Err EEncode
      end
    | Some CVariant =>
      match v with
      | VVariant i x =>
        (* variant.index.to_bytes(8, 'little') then subtypes[variant.index] *)
        do n <- enc_int 8 false i;
        prefix n ((fix pick (subs : list tree) (k : Z) : res (list Z) :=
           match subs with
           | [] => Err EIndex
           | s :: subs' => if k =? 0 then encode s x else pick subs' (k - 1)
           end) subs i)
      | _ => Err EEncode
      end
    end
  end.

(* ---------- decode ---------- *)

(* n iterations of a fallible step, stopping at the first error.  Recursion is on the binary
   representation of the count, so a garbage count costs nothing before the first step fails
   (the extracted code never builds a unary number of that size); like `for _ in range(n)`,
   it does run n steps when every step succeeds. *)
Fixpoint iter_pos {S : Type} (p : positive) (f : S -> res S) (s : S) : res S :=
  match p with
  | xH => f s
  | xO q => do s' <- iter_pos q f s; iter_pos q f s'
  | xI q => do s1 <- f s; do s2 <- iter_pos q f s1; iter_pos q f s2
  end.

Definition iter_z {S : Type} (n : Z) (f : S -> res S) (s : S) : res S :=
  match n with Zpos p => iter_pos p f s | _ => Ok s end.

(* BytesIO.read(n): min(n, remaining) bytes *)
Definition clampn (n : Z) (bs : list Z) : nat := Z.to_nat (Z.min n (Z.of_nat (List.length bs))).

Fixpoint val_eqb (a b : value) {struct a} : bool :=
  match a, b with
  | VInt x, VInt y => x =? y
  | VBool x, VBool y => Bool.eqb x y
  | VFloat x, VFloat y => x =? y
  | VStr x, VStr y => zs_eqb x y
  | VUuid x, VUuid y => x =? y
  | VNode i _, VNode j _ => i =? j
  | VOffset e d, VOffset e' d' => val_eqb e e' && (d =? d')
  | VTuple la, VTuple lb | VSeq la, VSeq lb =>
    (fix go (la lb : list value) : bool :=
       match la, lb with
       | [], [] => true
       | x :: la', y :: lb' => val_eqb x y && go la' lb'
       | _, _ => false
       end) la lb
  (* containers as set elements / mapping keys are handed out in their hashable forms (serialization._hashable: a sequence as
     a tuple, a set as a frozenset, a variant with such a value): tuples compare element by element, frozensets as sets,
     variants by index and value *)
  | VSet la, VSet lb =>
    forallb (fun y => existsb (fun x => val_eqb x y) la) lb
    && (fix every (la' : list value) : bool :=
          match la' with
          | [] => true
          | x :: la'' => existsb (fun y => val_eqb x y) lb && every la''
          end) la
  | VVariant i x, VVariant j y => (i =? j) && val_eqb x y
  | _, _ => false
  end.

(* set.add / dict[key] = val on the (hashable) decoded keys *)
Fixpoint set_add (x : value) (l : list value) : list value :=
  match l with
  | [] => [x]
  | y :: l' => if val_eqb y x then l else y :: set_add x l'
  end.

Fixpoint map_put (k x : value) (l : list (value * value)) : list (value * value) :=
  match l with
  | [] => [(k, x)]
  | (k', x') :: l' => if val_eqb k' k then (k', x) :: l' else (k', x') :: map_put k x l'
  end.

Fixpoint decode (get : Z -> option Z) (t : tree) (bs : list Z) {struct t} : res (value * list Z) :=
  match t with
  | T nm subs =>
    match lookup_codec spec_table nm with
    | None => Err EUnknownCodec
    | Some (CInt n sg) =>
      if no_subs subs then let '(x, r) := dec_int n sg bs in Ok (VInt x, r) else Err EDecode
    | Some CBool =>
      if no_subs subs then
        Ok (VBool (match take 1 bs with [b] => negb (b =? 0) | _ => true end), drop 1 bs)
      else Err EDecode
    | Some CF64 =>
      if no_subs subs then
        if Nat.eqb (List.length (take 8 bs)) 8 then Ok (VFloat (of_le (take 8 bs)), drop 8 bs)
        else Err EStruct
      else Err EDecode
    | Some CF32 =>
      if no_subs subs then
        if Nat.eqb (List.length (take 4 bs)) 4 then Ok (VFloat (widen32 (of_le (take 4 bs))), drop 4 bs)
        else Err EStruct
      else Err EDecode
    | Some CStr =>
      if no_subs subs then
        let '(n, r) := dec_int 8 false bs in
        match utf8_decode (take (clampn n r) r) with
        | Some s => Ok (VStr s, drop (clampn n r) r)
        | None => Err EValue
        end
      else Err EDecode
    | Some CUuid => if no_subs subs then dec_uuid get bs else Err EDecode
    | Some COffset =>
      if no_subs subs then
        do (e, r) <- dec_uuid get bs;
        let '(d, r') := dec_int 8 false r in Ok (VOffset e d, r')
      else Err EDecode
    | Some CSeq =>
      match subs with
      | [sub] =>
        let '(n, r) := dec_int 8 false bs in
        do (bs', acc) <- iter_z n (fun st : list Z * list value =>
                                     let '(bs, acc) := st in
                                     do (x, bs2) <- decode get sub bs; Ok (bs2, x :: acc)) (r, []);
        Ok (VSeq (rev acc), bs')
      | _ => Err EDecode
      end
    | Some CSet =>
      match subs with
      | [sub] =>
        let '(n, r) := dec_int 8 false bs in
        do (bs', acc) <- iter_z n (fun st : list Z * list value =>
                                     let '(bs, acc) := st in
                                     do (x, bs2) <- decode get sub bs; Ok (bs2, set_add x acc)) (r, []);
        Ok (VSet acc, bs')
      | _ => Err EDecode
      end
    | Some CMap =>
      match subs with
      | [kt; vt] =>
        let '(n, r) := dec_int 8 false bs in
        do (bs', acc) <- iter_z n (fun st : list Z * list (value * value) =>
                                     let '(bs, acc) := st in
                                     do (key, bs1) <- decode get kt bs;
                                     do (x, bs2) <- decode get vt bs1;
                                     Ok (bs2, map_put key x acc)) (r, []);
        Ok (VMap acc, bs')
      | _ => Err EDecode
      end
    | Some CTuple =>
      (fix go (subs : list tree) (bs : list Z) (acc : list value) : res (value * list Z) :=
         match subs with
         | [] => Ok (VTuple (rev acc), bs)
         | s :: subs' => do (x, bs') <- decode get s bs; go subs' bs' (x :: acc)
         end) subs bs []
    | Some CVariant =>
      let '(i, r) := dec_int 8 false bs in
      (fix pick (subs : list tree) (k : Z) : res (value * list Z) :=
         match subs with
         | [] => Err EIndex
         | s :: subs' =>
           if k =? 0 then do (x, r') <- decode get s r; Ok (VVariant i x, r')
           else pick subs' (k - 1)
         end) subs i
    end
  end.

(* ---------- Serialization.encode / Serialization.decode (top level) ---------- *)

Definition encode_top (type_name : list Z) (v : value) : res (list Z) :=
  match v with
  | VUnknown bs => Ok bs
  | _ =>
    do t <- parse_type type_name;
    match encode t v with
    | Err EUnknownCodec => Err EEncode
    | r => r
    end
  end.

Definition decode_top (get : Z -> option Z) (type_name : list Z) (bs : list Z) : res value :=
  do t <- parse_type type_name;
  match decode get t bs with
  | Ok (v, _) => Ok v
  | Err EUnknownCodec => Ok (VUnknown bs)
  | Err e => Err e
  end.

(* ---------- equality up to set / mapping order (for comparing with Python values) ---------- *)

Fixpoint veqb (a b : value) {struct a} : bool :=
  match a, b with
  | VInt x, VInt y => x =? y
  | VBool x, VBool y => Bool.eqb x y
  | VFloat x, VFloat y => x =? y
  | VStr x, VStr y => zs_eqb x y
  | VUuid x, VUuid y => x =? y
  | VNode i u, VNode j w => (i =? j) && (u =? w)
  | VOffset e d, VOffset e' d' => veqb e e' && (d =? d')
  | VSeq la, VSeq lb | VTuple la, VTuple lb =>
    (fix go (la lb : list value) : bool :=
       match la, lb with
       | [], [] => true
       | x :: la', y :: lb' => veqb x y && go la' lb'
       | _, _ => false
       end) la lb
  | VSet la, VSet lb =>
    Nat.eqb (List.length la) (List.length lb)
    && (fix allin (la : list value) : bool :=
          match la with
          | [] => true
          | x :: la' => existsb (veqb x) lb && allin la'
          end) la
    && forallb (fun y => (fix ex (la : list value) : bool :=
                            match la with
                            | [] => false
                            | x :: la' => veqb x y || ex la'
                            end) la) lb
  | VMap la, VMap lb =>
    Nat.eqb (List.length la) (List.length lb)
    && (fix allin (la : list (value * value)) : bool :=
          match la with
          | [] => true
          | (k, x) :: la' => existsb (fun p => veqb k (fst p) && veqb x (snd p)) lb && allin la'
          end) la
    && forallb (fun p => (fix ex (la : list (value * value)) : bool :=
                            match la with
                            | [] => false
                            | (k, x) :: la' => (veqb k (fst p) && veqb x (snd p)) || ex la'
                            end) la) lb
  | VVariant i x, VVariant j y => (i =? j) && veqb x y
  | VUnknown x, VUnknown y => zs_eqb x y
  | _, _ => false
  end.

(* ---------- the value domain of the round-trip theorem (C07) ----------
   wt get t v: v is a value of type t in the representation the decoder itself produces,
   with UUID leaves consistent with the node lookup `get`, set elements / mapping keys
   pairwise distinct, floats under `float` exactly float32-representable. *)

Fixpoint distinct_from (x : value) (l : list value) : bool :=
  match l with
  | [] => true
  | y :: l' => negb (val_eqb y x) && distinct_from x l'
  end.

(* each element differs (val_eqb) from all EARLIER ones: what set_add needs *)
Fixpoint nodup_vals (seen l : list value) : bool :=
  match l with
  | [] => true
  | x :: l' => distinct_from x seen && nodup_vals (seen ++ [x]) l'
  end.

Definition u64 (z : Z) : bool := (0 <=? z) && (z <? 2 ^ 64).

Definition wt_uuid (get : Z -> option Z) (v : value) : bool :=
  match v with
  | VUuid u => (0 <=? u) && (u <? 2 ^ 128) && match get u with None => true | Some _ => false end
  | VNode i u => (0 <=? u) && (u <? 2 ^ 128) && match get u with Some j => i =? j | None => false end
  | _ => false
  end.

Fixpoint wt (get : Z -> option Z) (t : tree) (v : value) {struct t} : bool :=
  match t with
  | T nm subs =>
    match lookup_codec spec_table nm with
    | None => false
    | Some (CInt n sg) => match v with VInt x => no_subs subs && in_range n sg x | _ => false end
    | Some CBool => match v with VBool _ => no_subs subs | _ => false end
    | Some CF64 => match v with VFloat b => no_subs subs && u64 b | _ => false end
    | Some CF32 =>
      match v with
      | VFloat b =>
        no_subs subs &&
        match round32 b with
        | Ok r => (0 <=? r) && (r <? 2 ^ 32) && (widen32 r =? b)
        | Err _ => false
        end
      | _ => false
      end
    | Some CStr =>
      match v with
      | VStr s => no_subs subs && forallb is_scalar s && u64 (Z.of_nat (List.length (utf8_encode s)))
      | _ => false
      end
    | Some CUuid => no_subs subs && wt_uuid get v
    | Some COffset => match v with VOffset e d => no_subs subs && wt_uuid get e && u64 d | _ => false end
    | Some CSeq =>
      match v, subs with
      | VSeq l, [sub] => u64 (Z.of_nat (List.length l)) && forallb (wt get sub) l
      | _, _ => false
      end
    | Some CSet =>
      match v, subs with
      | VSet l, [sub] => u64 (Z.of_nat (List.length l)) && forallb (wt get sub) l && nodup_vals [] l
      | _, _ => false
      end
    | Some CMap =>
      match v, subs with
      | VMap l, [kt; vt] =>
        u64 (Z.of_nat (List.length l))
        && forallb (fun p => wt get kt (fst p) && wt get vt (snd p)) l
        && nodup_vals [] (map fst l)
      | _, _ => false
      end
    | Some CTuple =>
      match v with
      | VTuple l =>
        Nat.eqb (List.length l) (List.length subs) &&
        (fix go (subs : list tree) (l : list value) : bool :=
           match subs, l with
           | s :: subs', x :: l' => wt get s x && go subs' l'
           | _, _ => true
           end) subs l
      | _ => false
      end
    | Some CVariant =>
      match v with
      | VVariant i x =>
        u64 i && (i <? Z.of_nat (List.length subs)) &&
        (fix pick (subs : list tree) (k : Z) : bool :=
           match subs with
           | [] => false
           | s :: subs' => if k =? 0 then wt get s x else pick subs' (k - 1)
           end) subs i
      | _ => false
      end
    end
  end.
