(* Dispatcher between the harness wire format (sx) and the model functions.
   One request per line: (cmd arg ...) -> one reply.  Everything here is glue:
   decoders/encoders of sx, no logic that a property theorem speaks about. *)
From Coq Require Import ZArith List Bool.
From V Require Import Result Bytes TypeName Utf8 Float32 Codec AuxTable.
From V Require World WorldRun Cfg CfgRun ByteStore ByteRun Proto ProtoRun SeqOps SeqRun SetAlg SetAlgRun TwinCache TwinRun.
Import ListNotations.
Open Scope Z_scope.

Fixpoint tree_of_sx (s : sx) : tree :=
  match s with
  | L [nm; L subs] => T (un_zs nm) (map tree_of_sx subs)
  | _ => T [] []
  end.

Fixpoint value_of_sx (s : sx) : value :=
  match s with
  | L [A 0; A z] => VInt z
  | L [A 1; A b] => VBool (negb (b =? 0))
  | L [A 2; A b] => VFloat b
  | L [A 3; zs] => VStr (un_zs zs)
  | L [A 4; A u] => VUuid u
  | L [A 5; A i; A u] => VNode i u
  | L [A 6; e; A d] => VOffset (value_of_sx e) d
  | L [A 7; L l] => VSeq (map value_of_sx l)
  | L [A 8; L l] => VSet (map value_of_sx l)
  | L [A 9; L l] =>
    VMap (map (fun p => match p with
                        | L [k; x] => (value_of_sx k, value_of_sx x)
                        | _ => (VInt 0, VInt 0)
                        end) l)
  | L [A 10; L l] => VTuple (map value_of_sx l)
  | L [A 11; A i; x] => VVariant i (value_of_sx x)
  | L [A 12; bs] => VUnknown (un_zs bs)
  | _ => VUnknown []
  end.

Fixpoint sx_of_value (v : value) : sx :=
  match v with
  | VInt z => L [A 0; A z]
  | VBool b => L [A 1; sx_bool b]
  | VFloat b => L [A 2; A b]
  | VStr s => L [A 3; sx_zs s]
  | VUuid u => L [A 4; A u]
  | VNode i u => L [A 5; A i; A u]
  | VOffset e d => L [A 6; sx_of_value e; A d]
  | VSeq l => L [A 7; L (map sx_of_value l)]
  | VSet l => L [A 8; L (map sx_of_value l)]
  | VMap l => L [A 9; L (map (fun p => L [sx_of_value (fst p); sx_of_value (snd p)]) l)]
  | VTuple l => L [A 10; L (map sx_of_value l)]
  | VVariant i x => L [A 11; A i; sx_of_value x]
  | VUnknown bs => L [A 12; sx_zs bs]
  end.

Definition getter_of_sx (s : sx) : Z -> option Z :=
  let tbl := map (fun p => match p with L [A u; A i] => (u, i) | _ => (-1, -1) end) (un_l s) in
  fun u => match find (fun p => fst p =? u) tbl with Some p => Some (snd p) | None => None end.

Definition sx_res {X} (f : X -> sx) (r : res X) : sx :=
  match r with Ok x => L [A 0; f x] | Err e => sx_err e end.

(* C14: one table through a list of ops; one observation per op *)
Fixpoint run_table (get : Z -> option Z) (t : table) (last : list Z * list Z) (ops : list sx) : list sx :=
  match ops with
  | [] => []
  | o :: ops' =>
    match o with
    | L [A 0] =>
      match read get t with
      | Ok (t', v) => L [A 0; sx_of_value v] :: run_table get t' last ops'
      | Err e => sx_err e :: run_table get t last ops'
      end
    | L [A 1; v] =>
      match step get t (Mutate (value_of_sx v)) with
      | Ok t' => L [A 0] :: run_table get t' last ops'
      | Err e => sx_err e :: run_table get t last ops'
      end
    | L [A 2; v] =>
      match step get t (Assign (value_of_sx v)) with
      | Ok t' => L [A 0] :: run_table get t' last ops'
      | Err e => sx_err e :: run_table get t last ops'
      end
    | L [A 3; tn] =>
      match step get t (SetType (un_zs tn)) with
      | Ok t' => L [A 0] :: run_table get t' last ops'
      | Err e => sx_err e :: run_table get t last ops'
      end
    | L [A 4] =>
      match save get t with
      | Ok (t', (tn, bs)) => L [A 0; sx_zs tn; sx_zs bs] :: run_table get t' (tn, bs) ops'
      | Err e => sx_err e :: run_table get t last ops'
      end
    | L [A 5] => L [A 0] :: run_table get (load (fst last) (snd last)) last ops'
    (* order witness: the implementation's current value, equal to the model's up to set/mapping order *)
    | L [A 6; v] =>
      match lazy t with
      | None =>
        if veqb (data t) (value_of_sx v)
        then L [A 0] :: run_table get {| lazy := None; data := value_of_sx v; tname := tname t |} last ops'
        else L [A (-3); sx_of_value (data t)] :: run_table get t last ops'
      | Some _ => L [A (-4)] :: run_table get t last ops'
      end
    | _ => L [A (-2)] :: run_table get t last ops'
    end
  end.

Definition run (req : sx) : sx :=
  match req with
  (* 1: Serialization._parse_type *)
  | L [A 1; s] => run_parse_type s
  (* 2: _encode_tree on a parsed type name : (2 type_name value) *)
  | L [A 2; tn; v] => sx_res sx_zs (encode_top (un_zs tn) (value_of_sx v))
  (* 3: Serialization.decode : (3 type_name bytes getter) -> value *)
  | L [A 3; tn; bs; g] => sx_res sx_of_value (decode_top (getter_of_sx g) (un_zs tn) (un_zs bs))
  (* 4: decode with the tree codec, report value, number of unread bytes, and the re-encoding
        of the decoded value (order witness for sets/mappings) *)
  | L [A 4; tn; bs; g] =>
    match parse_type (un_zs tn) with
    | Err e => sx_err e
    | Ok t =>
      match decode (getter_of_sx g) t (un_zs bs) with
      | Err e => sx_err e
      | Ok (v, rest) =>
        L [A 0; sx_of_value v; A (Z.of_nat (length rest)); sx_res sx_zs (encode t v)]
      end
    end
  (* 5: utf-8 encode / 6: utf-8 decode / 7: round32 / 8: widen32 *)
  | L [A 5; s] => sx_zs (utf8_encode (un_zs s))
  | L [A 6; bs] => match utf8_decode (un_zs bs) with Some s => L [A 0; sx_zs s] | None => sx_err EValue end
  | L [A 7; A b] => sx_res A (round32 b)
  | L [A 8; A b] => A (widen32 b)
  (* 9: is (type, value) inside the domain of the C07 round-trip theorem? *)
  | L [A 9; tn; v; g] =>
    match parse_type (un_zs tn) with
    | Ok t => sx_bool (wt (getter_of_sx g) t (value_of_sx v))
    | Err _ => A 0
    end
  (* 10: a loaded table (type name, raw bytes) through ops; 11: a user-built table *)
  | L [A 10; g; tn; raw; L ops] =>
    L (run_table (getter_of_sx g) (load (un_zs tn) (un_zs raw)) (un_zs tn, un_zs raw) ops)
  | L [A 11; g; tn; v; L ops] =>
    L (run_table (getter_of_sx g) (fresh (un_zs tn) (value_of_sx v)) (un_zs tn, []) ops)
  (* 20: a history over the object-graph model *)
  | L [A 20; items] => WorldRun.run_world items
  (* 30: a history over one CFG *)
  | L [A 30; items] => CfgRun.run_cfg items
  (* 31: one byte interval's storage through a history *)
  (* 40-42: protobuf writer / reader / round trip at message level *)
  | L (A 40 :: _) | L (A 41 :: _) | L (A 42 :: _) | L (A 43 :: _) => ProtoRun.run_proto req
  | L [A 31; size; init; contents; items] => ByteRun.run_bytes size init contents items
  (* 50: the read-only sequence protocol on one list of node ids *)
  | L [A 50; l; qs] => SeqRun.run_seq l qs
  (* 51: the non-mutating set operators and comparisons on two member lists *)
  | L [A 51; a; b] => SetAlgRun.run_setalg a b
  | L [A 52; subs; ops] => TwinRun.run_twin subs ops
  | _ => L [A (-2)]
  end.
