(* Model of gtirb.serialization.Serialization._parse_type
   (python/gtirb/serialization.py: tokenizer `findall("[^<>,]+|<|>|,", s)` and the
   nested `parse(tokens, tree)`), transcribed branch by branch.
   Characters are Unicode code points as Z.  No proofs in this file. *)
From Coq Require Import ZArith List Bool.
From V Require Import Result.
Import ListNotations.
Open Scope Z_scope.

Definition c_lt : Z := 60.    (* '<' *)
Definition c_gt : Z := 62.    (* '>' *)
Definition c_comma : Z := 44. (* ',' *)

Definition is_delim (c : Z) : bool := (c =? c_lt) || (c =? c_gt) || (c =? c_comma).

Inductive tok := TName (s : list Z) | TLt | TGt | TComma.

Definition delim_tok (c : Z) : tok :=
  if c =? c_lt then TLt else if c =? c_gt then TGt else TComma.

Definition flush (acc : list Z) : list tok :=
  match acc with [] => [] | _ => [TName (rev acc)] end.

(* re.findall("[^<>,]+|<|>|,", s): every character belongs to exactly one token,
   names are maximal delimiter-free runs.  acc holds the current run, reversed. *)
Fixpoint tokenize_aux (acc : list Z) (s : list Z) : list tok :=
  match s with
  | [] => flush acc
  | c :: s' =>
    if is_delim c then flush acc ++ delim_tok c :: tokenize_aux [] s'
    else tokenize_aux (c :: acc) s'
  end.

Definition tokenize (s : list Z) : list tok := tokenize_aux [] s.

Inductive tree := T (name : list Z) (subs : list tree).

(* The `for t in tail` stack loop: d is len(stack).  Returns
   (subtype_tokens, remaining_tokens, final len(stack)). *)
Fixpoint scan (d : nat) (l : list tok) : list tok * list tok * nat :=
  match l with
  | [] => ([], [], d)
  | t :: l' =>
    match d with
    | O => ([], l, O)
    | S d' =>
      let d2 := match t with TLt => S d | TGt => d' | _ => d end in
      let '(sub, rem, df) := scan d2 l' in (t :: sub, rem, df)
    end
  end.

Definition last_is_gt (l : list tok) : bool :=
  match last l TComma with TGt => true | _ => false end.

Fixpoint parse (fuel : nat) (toks : list tok) (acc : list tree) : res (list tree) :=
  match fuel with
  | O => Err EOutOfFuel
  | S f =>
    match toks with
    | [] => Err ETypeName                          (* "It is an error to parse nothing" *)
    | TName nm :: tail =>
      match tail with
      | [] => Ok (acc ++ [T nm []])                (* base case *)
      | TComma :: tail' => parse f tail' (acc ++ [T nm []])
      | TLt :: tail' =>
        let '(sub, rem, d) := scan 1 tail' in
        match d with
        | S _ => Err ETypeName                     (* len(stack) > 0 *)
        | O =>
          if last_is_gt sub then
            match parse f (removelast sub) [] with
            | Err e => Err e
            | Ok subs =>
              let acc' := acc ++ [T nm subs] in
              match rem with
              | [] => Ok acc'
              | TComma :: tail'' => parse f tail'' acc'
              | _ => Err ETypeName
              end
            end
          else Err ETypeName
        end
      | _ => Err ETypeName                         (* "None of the rules match" *)
      end
    | _ => Err ETypeName                           (* first token is a delimiter *)
    end
  end.

Definition parse_tokens (toks : list tok) : res tree :=
  match parse (S (length toks)) toks [] with
  | Err e => Err e
  | Ok [t] => Ok t
  | Ok _ => Err ETypeName                          (* (parse_tree,) = ... -> ValueError -> TypeNameError *)
  end.

Definition parse_type (s : list Z) : res tree := parse_tokens (tokenize s).

(* The grammar's printer:  T ::= name | name '<' T (',' T)* '>' *)
Fixpoint sepby (sep : list Z) (l : list (list Z)) : list Z :=
  match l with
  | [] => []
  | [x] => x
  | x :: l' => x ++ sep ++ sepby sep l'
  end.

Fixpoint print (t : tree) : list Z :=
  match t with
  | T nm subs =>
    match subs with
    | [] => nm
    | _ => nm ++ [c_lt] ++ sepby [c_comma] (map print subs) ++ [c_gt]
    end
  end.

Definition name_ok (nm : list Z) : bool :=
  negb (match nm with [] => true | _ => false end) && forallb (fun c => negb (is_delim c)) nm.

Fixpoint wf (t : tree) : bool :=
  match t with
  | T nm subs => name_ok nm && forallb wf subs
  end.

(* wire form for the harness: tree -> sx *)
Fixpoint tree_sx (t : tree) : sx :=
  match t with T nm subs => L [sx_zs nm; L (map tree_sx subs)] end.

Definition run_parse_type (s : sx) : sx :=
  match parse_type (un_zs s) with
  | Ok t => L [A 0; tree_sx t]
  | Err e => sx_err e
  end.
