(* The typing discipline of the public API, as an executable guard on operations: the static
   types of the Python signatures (a Section is added to module.sections, not to
   byte_interval.blocks), nodes are created once, and -- the property's premise for C03 --
   UUIDs never coincide between different nodes.  Theorems about `step` quantify over all
   operations that satisfy this guard in the state they are issued in; the extracted model can
   evaluate it, so the harness reports how many executed operations were inside the guard. *)
From Coq Require Import ZArith List Bool.
From V Require Import Result LazyTree World.
Import ListNotations.
Open Scope Z_scope.

Definition parent_kind (k : kind) : option kind :=
  match k with
  | KIR => None
  | KMod => Some KIR
  | KSec | KSym | KProxy => Some KMod
  | KBI => Some KSec
  | KCode | KData => Some KBI
  end.

Definition has (w : world) (n : id) : bool := match nodes w n with Some _ => true | None => false end.
Definition is_k (w : world) (n : id) (k : kind) : bool := has w n && kind_eqb (kindof w n) k.

Definition kinds_eqb (a b : list kind) : bool :=
  (Nat.eqb (length a) (length b)) && forallb (fun p => kind_eqb (fst p) (snd p)) (combine a b).

(* the fields of each owner kind *)
Definition field_ok (owner : kind) (fk : list kind) : bool :=
  match owner with
  | KMod => kinds_eqb fk [KSec] || kinds_eqb fk [KSym] || kinds_eqb fk [KProxy]
  | KSec => kinds_eqb fk [KBI]
  | KBI => kinds_eqb fk [KCode; KData]
  | _ => false
  end.

Definition member_ok (w : world) (fk : list kind) (c : id) : bool :=
  has w c && existsb (kind_eqb (kindof w c)) fk.

(* no existing node carries uuid u *)
Definition uuid_fresh (w : world) (known : list id) (u : Z) : bool :=
  forallb (fun n => negb (nuuid (getn w n) =? u)) known.

(* `known` is the list of node numbers created so far (the harness allocates them in order) *)
Definition op_okb (w : world) (known : list id) (o : op) : bool :=
  match o with
  | ONew n k u _ s f _ p =>
    negb (has w n) && negb (mem n known) && uuid_fresh w known u && (0 <=? s) && (0 <=? f)
    && match p with PRef b => has w b && (is_block (kindof w b) || kind_eqb (kindof w b) KProxy) | _ => true end
  | OSetParent c p =>
    has w c && negb (kind_eqb (kindof w c) KIR)
    && match p with
       | Some q => has w q && match parent_kind (kindof w c) with Some k => kind_eqb (kindof w q) k | None => false end
       | None => true
       end
  | OSet p fk m args =>
    has w p && field_ok (kindof w p) fk && forallb (forallb (member_ok w fk)) args
    && match m with
       | SAdd | SDiscard | SRemove => match args with [[_]] => true | _ => false end
       | SPop => match args with [] | [[]] | [[_]] => true | _ => false end
       | SClear => true
       | SUpdate => true
       | SIor | SIand | SIsub | SIxor => match args with [_] => true | _ => false end
       end
  | OModAppend ir v | OModInsert ir _ v | OModRemove ir v | OModSetItem ir _ v => is_k w ir KIR && is_k w v KMod
  | OModExtend ir vs | OModSetSlice ir _ _ vs => is_k w ir KIR && forallb (fun v => is_k w v KMod) vs
  | OModSetExt ir _ _ c vs => is_k w ir KIR && forallb (fun v => is_k w v KMod) vs && negb (c =? 1)
  | OModPop ir _ | OModDelItem ir _ | OModDelSlice ir _ _ | OModClear ir | OModReverse ir => is_k w ir KIR
  | OAttrAddr bi _ => is_k w bi KBI
  | OAttrSize n s => has w n && (kind_eqb (kindof w n) KBI || is_block (kindof w n)) && (0 <=? s)
  | OAttrOff b o' => has w b && is_block (kindof w b) && (0 <=? o')
  | OAttrName s _ => is_k w s KSym
  | OAttrPay s p =>
    is_k w s KSym
    && match p with PRef b => has w b && (is_block (kindof w b) || kind_eqb (kindof w b) KProxy) | _ => true end
  | OSymxSet bi _ _ | OSymxDel bi _ | OSymxPop bi _ | OSymxPopitem bi | OSymxSetdefault bi _ _
  | OSymxUpdate bi _ | OSymxClear bi | OSymxAssign bi _ => is_k w bi KBI
  | OTouch n => has w n && (kind_eqb (kindof w n) KBI || kind_eqb (kindof w n) KSec)
  end.

(* run a history, tracking created nodes; ops outside the guard are skipped (and counted by the harness) *)
Fixpoint run_guarded (w : world) (known : list id) (ops : list op) : world * list id :=
  match ops with
  | [] => (w, known)
  | o :: ops' =>
    if op_okb w known o then
      run_guarded (step' w o) (match o with ONew n _ _ _ _ _ _ _ => n :: known | _ => known end) ops'
    else run_guarded w known ops'
  end.

Definition reachable (w : world) : Prop := exists ops, w = fst (run_guarded w0 [] ops).
