(* del ir.modules[a:b:c] -- deletion of an extended slice of the module list (util.ListWrapper.__delitem__ with a slice of any
   step): the ownership hook runs for every selected module, then the built-in list deletes the slice.  Stated here as the selected
   positions (Python's slice.indices and range: SeqOps) deleted one at a time from the highest down, each through the guarded
   single-position deletion `OModDelItem` of World.v -- so every World theorem speaks about every intermediate state, and
   DelExtProofs.v shows that the outcome is the built-in list's: exactly the elements at the selected positions are gone (and
   detached), the others keep their order. *)
From Coq Require Import ZArith List Bool.
From V Require Import Result LazyTree World.
From V Require IndexCheck SeqOps.
Import ListNotations.
Open Scope Z_scope.

Definition del_positions (ir : id) (ps : list nat) (w : world) : res world :=
  fold_left (fun (acc : res world) (p : nat) =>
               match acc with
               | Ok w1 => IndexCheck.step_checked w1 (OModDelItem ir (Z.of_nat p))
               | Err e => Err e
               end) ps (Ok w).

(* range() yields ascending positions for a positive step and descending ones for a negative step *)
Definition descending (st : Z) (ps : list nat) : list nat := if 0 <? st then rev ps else ps.

Definition ml_delext (w : world) (ir : id) (a b : option Z) (c : Z) : res world :=
  let len := length (kids w ir) in
  match SeqOps.py_slice_indices a b c len with
  | Err e => Err e                                     (* ValueError: slice step cannot be zero *)
  | Ok (s, e, st) => del_positions ir (descending st (SeqOps.py_range_positions s e st len)) w
  end.

(* the built-in list: the elements whose position is not selected, in their order (k = position of the head) *)
Fixpoint drop_positions (l : list id) (ps : list nat) (k : nat) : list id :=
  match l with
  | [] => []
  | x :: l' => if existsb (Nat.eqb k) ps then drop_positions l' ps (S k) else x :: drop_positions l' ps (S k)
  end.
