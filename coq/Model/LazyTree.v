(* python/gtirb/lazyintervaltree.py over the abstract behaviour of intervaltree.IntervalTree:
   a finite SET of Interval(begin, end, data) triples with add/discard set semantics,
   overlap(b, e) = {} if b >= e else {iv | iv.begin < e /\ iv.end > b},
   begin()/end() = min begin / max end (0 when empty), len = cardinality. *)
From Coq Require Import ZArith List Bool.
Import ListNotations.
Open Scope Z_scope.

Record iv := { ib : Z; ie : Z; idata : Z }.

Definition iv_eqb (a b : iv) : bool := (ib a =? ib b) && (ie a =? ie b) && (idata a =? idata b).

Inductive ev := EvAdd (i : iv) | EvDisc (i : iv).

Record ltree := { lindex : option (list iv); levents : list ev }.

Definition lt_empty : ltree := {| lindex := None; levents := [] |}.

Definition iv_mem (i : iv) (t : list iv) : bool := existsb (iv_eqb i) t.

(* IntervalTree.add: no-op when already present *)
Definition tree_add (i : iv) (t : list iv) : list iv := if iv_mem i t then t else t ++ [i].

(* IntervalTree.discard *)
Definition tree_discard (i : iv) (t : list iv) : list iv := filter (fun j => negb (iv_eqb i j)) t.

(* IntervalTree(iterable) *)
Definition tree_build (l : list iv) : list iv := fold_left (fun t i => tree_add i t) l [].

Definition apply_ev (t : list iv) (e : ev) : list iv :=
  match e with EvAdd i => tree_add i t | EvDisc i => tree_discard i t end.

(* LazyIntervalTree.add / discard: the interval is computed AT CALL TIME by the caller *)
Definition lt_add (o : option iv) (t : ltree) : ltree :=
  match o with
  | Some i => {| lindex := lindex t; levents := levents t ++ [EvAdd i] |}
  | None => t
  end.

Definition lt_discard (o : option iv) (t : ltree) : ltree :=
  match o with
  | Some i => {| lindex := lindex t; levents := levents t ++ [EvDisc i] |}
  | None => t
  end.

(* LazyIntervalTree.get: `cur` = intervals of the members of the value collection now
   (those that have one), `n` = len(value collection) *)
Definition lt_get (cur : list iv) (n : nat) (t : ltree) : ltree * list iv :=
  let idx :=
    match lindex t with
    | None => tree_build cur
    | Some idx0 =>
      if Nat.leb n (length (levents t)) then tree_build cur
      else fold_left apply_ev (levents t) idx0
    end in
  ({| lindex := Some idx; levents := [] |}, idx).

(* IntervalTree.overlap(b, e) *)
Definition overlap (b e : Z) (t : list iv) : list iv :=
  if e <=? b then [] else filter (fun i => (ib i <? e) && (b <? ie i)) t.

Definition tree_begin (t : list iv) : Z :=
  match t with [] => 0 | i :: t' => fold_left (fun m j => Z.min m (ib j)) t' (ib i) end.
Definition tree_end (t : list iv) : Z :=
  match t with [] => 0 | i :: t' => fold_left (fun m j => Z.max m (ie j)) t' (ie i) end.
