(* The per-IR UUID table under the property's REAL premise (C03): UUIDs are pairwise distinct among the nodes attached to one IR
   at the same time, while different IRs may hold nodes with equal UUIDs (two loads of one file, an IR and its deep copy).
   World.v assumes globally distinct UUIDs (WorldGuard.uuid_fresh); this small model drops that assumption for the part of the
   code where it matters -- the owning sets' add / discard and the in-place `^=` -- and keeps everything else abstract:

     * an ELEMENT is a node together with everything below it, flattened to its (uuid, node number) pairs
       (`_add_to_uuid_cache` / `_remove_from_uuid_cache` walk exactly that subtree);
     * every IR has one owning set (the members attached to it) and one UUID table, a Python dict: `cache[u] = n` overwrites,
       `del cache[u]` raises KeyError when `u` is missing;
     * SetWrapper subclasses: add(v) = discard v from the set that holds it, register its subtree, store it;
       discard(v) = nothing if v is not a member, else unregister its subtree, drop it.

   `ixor_interleaved` is collections.abc.MutableSet.__ixor__ (add or discard element by element, in iteration order: the code
   before fix 8d2f771), `ixor_twopass` the repaired SetWrapper.__ixor__ (members out first, newcomers in afterwards). *)
From Coq Require Import ZArith List Bool.
From V Require Import Result.
Import ListNotations.
Open Scope Z_scope.

Definition id := Z.
Definition tree := list (Z * id).          (* (uuid, node) pairs of an element's subtree, the element itself first *)

(* ---------- a Python dict from UUIDs to nodes ---------- *)
Definition table := list (Z * id).

Fixpoint t_get (t : table) (u : Z) : option id :=
  match t with
  | [] => None
  | (k, v) :: t' => if k =? u then Some v else t_get t' u
  end.

Fixpoint t_del (t : table) (u : Z) : table :=
  match t with
  | [] => []
  | (k, v) :: t' => if k =? u then t_del t' u else (k, v) :: t_del t' u
  end.

(* cache[u] = n *)
Definition t_set (t : table) (u : Z) (n : id) : table := (u, n) :: t_del t u.

(* del cache[u]: the flag is false when the key was missing (KeyError) *)
Definition t_del_checked (t : table) (u : Z) : table * bool :=
  match t_get t u with
  | Some _ => (t_del t u, true)
  | None => (t, false)
  end.

(* ---------- state ---------- *)
Record irst := { members : list id; cache : table }.

Record st := {
  sub : id -> tree;                (* static: what each element registers *)
  irs : Z -> irst;                 (* per IR: the owning set and the UUID table *)
  owner : id -> option Z           (* the IR whose set holds the element (its parent chain ends there) *)
}.

Definition upd {X} (f : Z -> X) (k : Z) (v : X) : Z -> X := fun x => if x =? k then v else f x.

Fixpoint mem (x : id) (l : list id) : bool :=
  match l with [] => false | y :: l' => (y =? x) || mem x l' end.

Definition remove_id (x : id) (l : list id) : list id := filter (fun y => negb (y =? x)) l.

Fixpoint dedup (l : list id) : list id :=
  match l with
  | [] => []
  | x :: l' => if mem x l' then dedup l' else x :: dedup l'
  end.

(* _add_to_uuid_cache over the subtree *)
Definition register (t : table) (tr : tree) : table :=
  fold_left (fun t p => t_set t (fst p) (snd p)) tr t.

(* _remove_from_uuid_cache over the subtree: every deletion is checked *)
Definition unregister (t : table) (tr : tree) : table * bool :=
  fold_left (fun (acc : table * bool) p => let '(t, ok) := acc in
                                           let '(t', ok') := t_del_checked t (fst p) in (t', ok && ok')) tr (t, true).

(* discard(v) on the set of IR `ir` *)
Definition discard (s : st) (ir : Z) (x : id) : st * bool :=
  let i := irs s ir in
  if mem x (members i) then
    let '(t', ok) := unregister (cache i) (sub s x) in
    ({| sub := sub s; irs := upd (irs s) ir {| members := remove_id x (members i); cache := t' |};
        owner := upd (owner s) x None |}, ok)
  else (s, true).

(* add(v) on the set of IR `ir`: v leaves the set that holds it (this one included), is registered, is stored *)
Definition add (s : st) (ir : Z) (x : id) : st * bool :=
  let '(s1, ok) := match owner s x with Some o => discard s o x | None => (s, true) end in
  let i := irs s1 ir in
  ({| sub := sub s1; irs := upd (irs s1) ir {| members := x :: remove_id x (members i); cache := register (cache i) (sub s1 x) |};
      owner := upd (owner s1) x (Some ir) |}, ok).

Definition fold_ok (f : st -> id -> st * bool) (l : list id) (s : st) : st * bool :=
  fold_left (fun (acc : st * bool) x => let '(s, ok) := acc in let '(s', ok') := f s x in (s', ok && ok')) l (s, true).

(* MutableSet.__ixor__: for value in it: discard it if it is a member, add it otherwise *)
Definition ixor_interleaved (s : st) (ir : Z) (args : list id) : st * bool :=
  fold_ok (fun s x => if mem x (members (irs s ir)) then discard s ir x else add s ir x) (dedup args) s.

(* SetWrapper.__ixor__ after fix 8d2f771: the members named by the argument leave first, then the others enter *)
Definition ixor_twopass (s : st) (ir : Z) (args : list id) : st * bool :=
  let cur := members (irs s ir) in
  let '(s1, ok1) := fold_ok (fun s x => discard s ir x) (filter (fun x => mem x cur) (dedup args)) s in
  let '(s2, ok2) := fold_ok (fun s x => add s ir x) (filter (fun x => negb (mem x cur)) (dedup args)) s1 in
  (s2, ok1 && ok2).

(* ir.get_by_uuid(u) *)
Definition lookup (s : st) (ir : Z) (u : Z) : option id := t_get (cache (irs s ir)) u.

(* ---------- an executable front end for the correspondence check ---------- *)
Inductive top :=
| TAdd (ir : Z) (x : id)
| TDiscard (ir : Z) (x : id)
| TIxor (ir : Z) (args : list id).

Definition tstep (s : st) (o : top) : st * bool :=
  match o with
  | TAdd ir x => add s ir x
  | TDiscard ir x => discard s ir x
  | TIxor ir args => ixor_twopass s ir args
  end.

Definition st0 (subs : id -> tree) : st :=
  {| sub := subs; irs := fun _ => {| members := []; cache := [] |}; owner := fun _ => None |}.
