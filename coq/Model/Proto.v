(* The protobuf writer/reader pairs of the Python API at message level:
   ir.py, module.py, section.py, byteinterval.py, block.py, symbol.py, symbolicexpression.py, cfg.py, node.py
   (_to_protobuf / _from_protobuf / _decode_protobuf, the staged decode order, reference resolution through the
   per-IR UUID table with its kind checks), and the 8-byte file header of ir.py.
   Messages (p-records) mirror proto/*.proto with explicit presence for sub-messages and one-ofs; contents (c-records) hold
   exactly the observable attributes.  The protobuf wire codec itself is the runtime's (trusted).
   Strings are lists of code points, byte strings lists of Z in [0,256), UUIDs are 128-bit numbers in contents
   and byte strings in messages. *)
From Coq Require Import ZArith List Bool String.
From V Require Import Result Bytes PyFacts.
Import ListNotations.
Open Scope list_scope.
Open Scope Z_scope.

(* ---------- messages ---------- *)
Record pAux := { a_type : list Z; a_data : list Z }.
Record pLabel := { l_cond : bool; l_direct : bool; l_type : Z }.
Record pEdge := { e_src : list Z; e_dst : list Z; e_label : option pLabel }.
Inductive pBlockVal := PCode (uuid : list Z) (size : Z) (dm : Z) | PData (uuid : list Z) (size : Z) | PNoBlock.
Record pBlock := { b_off : Z; b_val : pBlockVal }.
Inductive pExprVal := PAddrConst (off : Z) (sym : list Z) | PAddrAddr (scale off : Z) (s1 s2 : list Z) | PNoExpr.
Record pExpr := { x_val : pExprVal; x_attrs : list Z }.
Record pBI := { bi_uuid : list Z; bi_blocks : list pBlock; bi_symx : list (Z * pExpr);
                bi_has_addr : bool; bi_addr : Z; bi_size : Z; bi_contents : list Z }.
Record pSection := { s_uuid : list Z; s_name : list Z; s_bis : list pBI; s_flags : list Z }.
Inductive pPayload := PPNone | PPValue (v : Z) | PPRef (u : list Z).
Record pSymbol := { y_uuid : list Z; y_payload : pPayload; y_name : list Z; y_at_end : bool }.
Record pModule := { m_uuid : list Z; m_binary_path : list Z; m_preferred_addr : Z; m_rebase_delta : Z;
                    m_file_format : Z; m_isa : Z; m_name : list Z; m_symbols : list pSymbol;
                    m_proxies : list (list Z); m_sections : list pSection; m_aux : list (list Z * pAux);
                    m_entry : list Z; m_byte_order : Z }.
Record pIR := { i_uuid : list Z; i_modules : list pModule; i_aux : list (list Z * pAux); i_version : Z;
                i_vertices : list (list Z); i_edges : list pEdge }.

(* ---------- contents ---------- *)
Record cBlock := { cb_uuid : Z; cb_code : bool; cb_off : Z; cb_size : Z; cb_dm : Z }.
Inductive cExprVal := CAddrConst (off : Z) (sym : Z) | CAddrAddr (scale off : Z) (s1 s2 : Z).
Record cExpr := { cx_val : cExprVal; cx_attrs : list Z }.
Record cBI := { ci_uuid : Z; ci_addr : option Z; ci_size : Z; ci_contents : list Z;
                ci_blocks : list cBlock; ci_symx : list (Z * cExpr) }.
Record cSection := { cs_uuid : Z; cs_name : list Z; cs_flags : list Z; cs_bis : list cBI }.
Inductive cPayload := CPNone | CPVal (v : Z) | CPRef (u : Z).
Record cSymbol := { cy_uuid : Z; cy_name : list Z; cy_payload : cPayload; cy_at_end : bool }.
Record cModule := { cm_uuid : Z; cm_name : list Z; cm_binary_path : list Z; cm_isa : Z; cm_file_format : Z;
                    cm_byte_order : Z; cm_preferred_addr : Z; cm_rebase_delta : Z; cm_entry : option Z;
                    cm_proxies : list Z; cm_sections : list cSection; cm_symbols : list cSymbol;
                    cm_aux : list (list Z * pAux) }.
Definition clabel := (Z * bool * bool)%type.                     (* type number, conditional, direct *)
Record cEdge := { ce_src : Z; ce_dst : Z; ce_label : option clabel }.
Record cIR := { cr_uuid : Z; cr_version : Z; cr_modules : list cModule; cr_edges : list cEdge;
                cr_aux : list (list Z * pAux) }.

(* ---------- UUIDs ---------- *)
(* UUID.bytes: 16 bytes, most significant first *)
Definition bytes_of_uuid (u : Z) : list Z := rev (le_bytes 16 u).
(* UUID(bytes=b): ValueError unless len(b) == 16 *)
Definition uuid_of_bytes (bs : list Z) : res Z :=
  if Nat.eqb (List.length bs) 16 then Ok (of_le (rev bs)) else Err EValue.

(* ---------- enums (member tables introspected from the working tree: gen/PyFacts.v) ---------- *)
Definition enum_members (nm : string) : list (string * Z) :=
  match find (fun p => String.eqb (fst p) nm) py_enums with Some p => snd p | None => [] end.
(* EnumClass(v): ValueError unless some member has that value *)
Definition enum_ok (nm : string) (v : Z) : bool := existsb (fun p => snd p =? v) (enum_members nm).
Definition check_enum (nm : string) (v : Z) : res unit := if enum_ok nm v then Ok tt else Err EValue.

(* ---------- writer: _to_protobuf ---------- *)
Definition block_to_proto (b : cBlock) : pBlock :=
  {| b_off := cb_off b;
     b_val := if cb_code b then PCode (bytes_of_uuid (cb_uuid b)) (cb_size b) (cb_dm b)
              else PData (bytes_of_uuid (cb_uuid b)) (cb_size b) |}.
Definition expr_to_proto (x : cExpr) : pExpr :=
  {| x_val := match cx_val x with
              | CAddrConst off s => PAddrConst off (bytes_of_uuid s)
              | CAddrAddr sc off s1 s2 => PAddrAddr sc off (bytes_of_uuid s1) (bytes_of_uuid s2)
              end;
     x_attrs := cx_attrs x |}.
Definition bi_to_proto (b : cBI) : pBI :=
  {| bi_uuid := bytes_of_uuid (ci_uuid b);
     bi_blocks := map block_to_proto (ci_blocks b);
     bi_symx := map (fun kv => (fst kv, expr_to_proto (snd kv))) (ci_symx b);
     bi_has_addr := match ci_addr b with Some _ => true | None => false end;
     bi_addr := match ci_addr b with Some a => a | None => 0 end;
     bi_size := ci_size b;
     bi_contents := ci_contents b |}.
Definition section_to_proto (s : cSection) : pSection :=
  {| s_uuid := bytes_of_uuid (cs_uuid s); s_name := cs_name s; s_bis := map bi_to_proto (cs_bis s); s_flags := cs_flags s |}.
Definition symbol_to_proto (y : cSymbol) : pSymbol :=
  {| y_uuid := bytes_of_uuid (cy_uuid y);
     y_payload := match cy_payload y with
                  | CPNone => PPNone | CPVal v => PPValue v | CPRef u => PPRef (bytes_of_uuid u) end;
     y_name := cy_name y; y_at_end := cy_at_end y |}.
Definition module_to_proto (m : cModule) : pModule :=
  {| m_uuid := bytes_of_uuid (cm_uuid m); m_binary_path := cm_binary_path m;
     m_preferred_addr := cm_preferred_addr m; m_rebase_delta := cm_rebase_delta m;
     m_file_format := cm_file_format m; m_isa := cm_isa m; m_name := cm_name m;
     m_symbols := map symbol_to_proto (cm_symbols m);
     m_proxies := map bytes_of_uuid (cm_proxies m);
     m_sections := map section_to_proto (cm_sections m);
     m_aux := cm_aux m;
     m_entry := match cm_entry m with Some u => bytes_of_uuid u | None => [] end;
     m_byte_order := cm_byte_order m |}.
Definition edge_to_proto (e : cEdge) : pEdge :=
  {| e_src := bytes_of_uuid (ce_src e); e_dst := bytes_of_uuid (ce_dst e);
     e_label := match ce_label e with
                | Some (t, c, d) => Some {| l_cond := c; l_direct := d; l_type := t |}
                | None => None end |}.
(* Module.cfg_nodes: code blocks, then proxies *)
Definition module_cfg_nodes (m : cModule) : list Z :=
  flat_map (fun s => flat_map (fun b => flat_map (fun k => if cb_code k then [cb_uuid k] else []) (ci_blocks b)) (cs_bis s))
           (cm_sections m) ++ cm_proxies m.
Definition to_proto (c : cIR) : pIR :=
  {| i_uuid := bytes_of_uuid (cr_uuid c); i_modules := map module_to_proto (cr_modules c); i_aux := cr_aux c;
     i_version := cr_version c;
     i_vertices := map bytes_of_uuid (flat_map module_cfg_nodes (cr_modules c));
     i_edges := map edge_to_proto (cr_edges c) |}.

(* ---------- reader: _from_protobuf / _decode_protobuf ---------- *)
Inductive nkind := NIR | NMod | NSec | NBI | NCode | NData | NProxy | NSym.
Definition nkind_eqb (a b : nkind) : bool :=
  match a, b with
  | NIR, NIR | NMod, NMod | NSec, NSec | NBI, NBI | NCode, NCode | NData, NData | NProxy, NProxy | NSym, NSym => true
  | _, _ => false
  end.
Definition table := list (Z * nkind).
Definition tlookup (t : table) (u : Z) : option nkind :=
  match find (fun p => fst p =? u) t with Some p => Some (snd p) | None => None end.

(* Node._from_protobuf: every node is defined once; a UUID that already names a decoded node -- of whatever class --
   is a DeserializationError *)
Definition fresh (t : table) (u : Z) (k : nkind) : res unit :=
  match tlookup t u with
  | None => Ok tt
  | Some _ => Err EDeser
  end.

Fixpoint dedup_z (l : list Z) : list Z :=
  match l with
  | [] => []
  | x :: l' => if existsb (Z.eqb x) l' then dedup_z l' else x :: dedup_z l'
  end.

(* fold with early exit over a list, threading the table *)
Fixpoint map_res {X Y} (f : table -> X -> res (Y * table)) (t : table) (l : list X) : res (list Y * table) :=
  match l with
  | [] => Ok ([], t)
  | x :: l' =>
    do r <- f t x;
    let '(y, t1) := r in
    do r' <- map_res f t1 l';
    let '(ys, t2) := r' in Ok (y :: ys, t2)
  end.
Fixpoint iter_res {X} (f : X -> res unit) (l : list X) : res unit :=
  match l with
  | [] => Ok tt
  | x :: l' => do _ <- f x; iter_res f l'
  end.

Definition decode_block (t : table) (b : pBlock) : res (cBlock * table) :=
  match b_val b with
  | PCode ub sz dm =>
    do u <- uuid_of_bytes ub; do _ <- fresh t u NCode; do _ <- check_enum "DecodeMode" dm;
    Ok ({| cb_uuid := u; cb_code := true; cb_off := b_off b; cb_size := sz; cb_dm := dm |}, (u, NCode) :: t)
  | PData ub sz =>
    do u <- uuid_of_bytes ub; do _ <- fresh t u NData;
    Ok ({| cb_uuid := u; cb_code := false; cb_off := b_off b; cb_size := sz; cb_dm := 0 |}, (u, NData) :: t)
  | PNoBlock => Err EType
  end.

(* symbolic expressions are kept as messages until the module's symbols are decoded *)
Record cBI0 := { c0 : cBI; c0_symx : list (Z * pExpr) }.

Definition decode_bi (t : table) (b : pBI) : res (cBI0 * table) :=
  do u <- uuid_of_bytes (bi_uuid b); do _ <- fresh t u NBI;
  if bi_size b <? Z.of_nat (List.length (bi_contents b)) then Err EValue        (* initialized_size must be <= size *)
  else
    (* the interval registers itself BEFORE its blocks are decoded (as sections and modules do) *)
    do r <- map_res decode_block ((u, NBI) :: t) (bi_blocks b);
    let '(blocks, t1) := r in
    Ok ({| c0 := {| ci_uuid := u; ci_addr := if bi_has_addr b then Some (bi_addr b) else None; ci_size := bi_size b;
                    ci_contents := bi_contents b; ci_blocks := blocks; ci_symx := [] |};
           c0_symx := bi_symx b |}, t1).

Definition decode_section (t : table) (s : pSection) : res ((Z * list Z * list Z * list cBI0) * table) :=
  do u <- uuid_of_bytes (s_uuid s); do _ <- fresh t u NSec;
  do _ <- iter_res (check_enum "SectionFlag") (s_flags s);
  do r <- map_res decode_bi ((u, NSec) :: t) (s_bis s);
  let '(bis, t1) := r in
  Ok ((u, s_name s, dedup_z (s_flags s), bis), t1).

Definition is_block_kind (k : nkind) : bool := match k with NCode | NData | NProxy => true | _ => false end.
Definition is_cfg_kind (k : nkind) : bool := match k with NCode | NProxy => true | _ => false end.

(* resolve a reference: the UUID must name an already decoded node of an admissible kind *)
Definition resolve (t : table) (bs : list Z) (ok : nkind -> bool) : res Z :=
  do u <- uuid_of_bytes bs;
  match tlookup t u with
  | Some k => if ok k then Ok u else Err EDeser
  | None => Err EDeser
  end.

Definition decode_symbol (t : table) (y : pSymbol) : res (cSymbol * table) :=
  do u <- uuid_of_bytes (y_uuid y); do _ <- fresh t u NSym;
  do p <- match y_payload y with
          | PPNone => Ok CPNone
          | PPValue v => Ok (CPVal v)
          | PPRef bs => do r <- resolve t bs is_block_kind; Ok (CPRef r)
          end;
  Ok ({| cy_uuid := u; cy_name := y_name y; cy_payload := p; cy_at_end := y_at_end y |}, (u, NSym) :: t).

Definition decode_expr (t : table) (kv : Z * pExpr) : res (Z * cExpr) :=
  let is_sym k := nkind_eqb k NSym in
  do v <- match x_val (snd kv) with
          | PAddrConst off s => do u <- resolve t s is_sym; Ok (CAddrConst off u)
          | PAddrAddr sc off s1 s2 => do u1 <- resolve t s1 is_sym; do u2 <- resolve t s2 is_sym; Ok (CAddrAddr sc off u1 u2)
          | PNoExpr => Err EType
          end;
  Ok (fst kv, {| cx_val := v; cx_attrs := dedup_z (x_attrs (snd kv)) |}).

Fixpoint map_res0 {X Y} (f : X -> res Y) (l : list X) : res (list Y) :=
  match l with
  | [] => Ok []
  | x :: l' => do y <- f x; do ys <- map_res0 f l'; Ok (y :: ys)
  end.

Definition finish_bi (t : table) (b : cBI0) : res cBI :=
  do xs <- map_res0 (decode_expr t) (c0_symx b);
  Ok {| ci_uuid := ci_uuid (c0 b); ci_addr := ci_addr (c0 b); ci_size := ci_size (c0 b); ci_contents := ci_contents (c0 b);
        ci_blocks := ci_blocks (c0 b); ci_symx := xs |}.

Definition finish_section (t : table) (s : Z * list Z * list Z * list cBI0) : res cSection :=
  let '(u, nm, fl, bis) := s in
  do bs <- map_res0 (finish_bi t) bis;
  Ok {| cs_uuid := u; cs_name := nm; cs_flags := fl; cs_bis := bs |}.

Definition decode_proxy (t : table) (bs : list Z) : res (Z * table) :=
  do u <- uuid_of_bytes bs; do _ <- fresh t u NProxy; Ok (u, (u, NProxy) :: t).

Definition decode_module (t : table) (m : pModule) : res (cModule * table) :=
  do u <- uuid_of_bytes (m_uuid m); do _ <- fresh t u NMod;
  do _ <- check_enum "ISA" (m_isa m); do _ <- check_enum "FileFormat" (m_file_format m);
  do _ <- check_enum "ByteOrder" (m_byte_order m);
  do r1 <- map_res decode_proxy ((u, NMod) :: t) (m_proxies m);
  let '(proxies, t1) := r1 in
  do r2 <- map_res decode_section t1 (m_sections m);
  let '(secs0, t2) := r2 in
  do entry <- match m_entry m with
              | [] => Ok None
              | bs => do e <- resolve t2 bs (fun k => nkind_eqb k NCode); Ok (Some e)
              end;
  do r3 <- map_res decode_symbol t2 (m_symbols m);
  let '(syms, t3) := r3 in
  do secs <- map_res0 (finish_section t3) secs0;
  Ok ({| cm_uuid := u; cm_name := m_name m; cm_binary_path := m_binary_path m; cm_isa := m_isa m;
         cm_file_format := m_file_format m; cm_byte_order := m_byte_order m;
         cm_preferred_addr := m_preferred_addr m; cm_rebase_delta := m_rebase_delta m; cm_entry := entry;
         cm_proxies := proxies; cm_sections := secs; cm_symbols := syms; cm_aux := m_aux m |}, t3).

Definition olabel_eqb (a b : option clabel) : bool :=
  match a, b with
  | None, None => true
  | Some (t1, c1, d1), Some (t2, c2, d2) => (t1 =? t2) && Bool.eqb c1 c2 && Bool.eqb d1 d2
  | _, _ => false
  end.
Definition cedge_eqb (a b : cEdge) : bool :=
  (ce_src a =? ce_src b) && (ce_dst a =? ce_dst b) && olabel_eqb (ce_label a) (ce_label b).
(* CFG(edges): a set -- an edge given twice is stored once (first occurrence kept) *)
Fixpoint dedup_edges (seen : list cEdge) (l : list cEdge) : list cEdge :=
  match l with
  | [] => []
  | e :: l' => if existsb (cedge_eqb e) seen then dedup_edges seen l' else e :: dedup_edges (e :: seen) l'
  end.

Definition decode_edge (t : table) (e : pEdge) : res cEdge :=
  do s <- resolve t (e_src e) is_cfg_kind;
  do d <- resolve t (e_dst e) is_cfg_kind;
  do l <- match e_label e with
          | Some l => do _ <- check_enum "EdgeType" (l_type l); Ok (Some (l_type l, l_cond l, l_direct l))
          | None => Ok None
          end;
  Ok {| ce_src := s; ce_dst := d; ce_label := l |}.

Definition from_proto (p : pIR) : res cIR :=
  do u <- uuid_of_bytes (i_uuid p);
  if negb (i_version p =? py_protobuf_version) then Err EValue
  else
    do r <- map_res decode_module [(u, NIR)] (i_modules p);
    let '(mods, t) := r in
    do es <- map_res0 (decode_edge t) (i_edges p);
    Ok {| cr_uuid := u; cr_version := i_version p; cr_modules := mods; cr_edges := dedup_edges [] es; cr_aux := i_aux p |}.

(* ---------- file header (ir.py: save_protobuf_file / load_protobuf_file) ---------- *)
Definition header : list Z := py_magic ++ [0; 0; py_protobuf_version].
Fixpoint zs_eqb (a b : list Z) : bool :=
  match a, b with
  | [], [] => true
  | x :: a', y :: b' => (x =? y) && zs_eqb a' b'
  | _, _ => false
  end.
(* `file` is the whole byte string; returns the bytes handed to the protobuf parser *)
Definition check_header (file : list Z) : res (list Z) :=
  if negb (zs_eqb (firstn (List.length py_magic) file) py_magic) then Err EValue
  else
    let rest := skipn (List.length py_magic + 2) file in
    let ver := match rest with v :: _ => v | [] => 0 end in           (* int.from_bytes(b"") = 0 *)
    if negb (ver =? py_protobuf_version) then Err EValue else Ok (skipn 1 rest).

(* ---------- the premise of C01: self-contained, staged-resolvable content ---------- *)
Definition all_uuids_module (m : cModule) : list Z :=
  cm_uuid m :: cm_proxies m
  ++ flat_map (fun s => cs_uuid s :: flat_map (fun b => ci_uuid b :: map cb_uuid (ci_blocks b)) (cs_bis s)) (cm_sections m)
  ++ map cy_uuid (cm_symbols m).
Definition all_uuids (c : cIR) : list Z := cr_uuid c :: flat_map all_uuids_module (cr_modules c).

Fixpoint nodup_z (l : list Z) : bool :=
  match l with
  | [] => true
  | x :: l' => negb (existsb (Z.eqb x) l') && nodup_z l'
  end.
Definition uuid_ok (u : Z) : bool := (0 <=? u) && (u <? 2 ^ 128).
Definition byte_ok (b : Z) : bool := (0 <=? b) && (b <? 256).

Definition module_blocks (m : cModule) : list cBlock := flat_map (fun s => flat_map ci_blocks (cs_bis s)) (cm_sections m).
Definition code_uuids (m : cModule) : list Z := flat_map (fun k => if cb_code k then [cb_uuid k] else []) (module_blocks m).
Definition block_uuids (m : cModule) : list Z := map cb_uuid (module_blocks m) ++ cm_proxies m.
Definition mem_z (x : Z) (l : list Z) : bool := existsb (Z.eqb x) l.

Definition expr_syms (x : cExpr) : list Z :=
  match cx_val x with CAddrConst _ s => [s] | CAddrAddr _ _ s1 s2 => [s1; s2] end.

Definition bi_ok (b : cBI) : bool :=
  (Z.of_nat (List.length (ci_contents b)) <=? ci_size b) && forallb byte_ok (ci_contents b)
  && forallb (fun k => if cb_code k then enum_ok "DecodeMode" (cb_dm k) else cb_dm k =? 0) (ci_blocks b)
  && nodup_z (map fst (ci_symx b))
  && forallb (fun kv => nodup_z (cx_attrs (snd kv))) (ci_symx b).

(* module m, given the code blocks / blocks+proxies / symbols of the modules decoded before it *)
Definition module_ok (codes blocks syms : list Z) (m : cModule) : bool :=
  let codes' := codes ++ code_uuids m in
  let blocks' := blocks ++ block_uuids m in
  let syms' := syms ++ map cy_uuid (cm_symbols m) in
  enum_ok "ISA" (cm_isa m) && enum_ok "FileFormat" (cm_file_format m) && enum_ok "ByteOrder" (cm_byte_order m)
  && forallb (fun s => forallb (enum_ok "SectionFlag") (cs_flags s) && nodup_z (cs_flags s) && forallb bi_ok (cs_bis s)) (cm_sections m)
  && match cm_entry m with Some e => mem_z e codes' | None => true end
  && forallb (fun y => match cy_payload y with CPRef r => mem_z r blocks' | _ => true end) (cm_symbols m)
  && forallb (fun s => forallb (fun b => forallb (fun kv => forallb (fun y => mem_z y syms') (expr_syms (snd kv))) (ci_symx b)) (cs_bis s))
             (cm_sections m).

Fixpoint modules_ok (codes blocks syms : list Z) (ms : list cModule) : bool :=
  match ms with
  | [] => true
  | m :: ms' =>
    module_ok codes blocks syms m
    && modules_ok (codes ++ code_uuids m) (blocks ++ block_uuids m) (syms ++ map cy_uuid (cm_symbols m)) ms'
  end.

Fixpoint nodup_edges (l : list cEdge) : bool :=
  match l with
  | [] => true
  | e :: l' => negb (existsb (cedge_eqb e) l') && nodup_edges l'
  end.

Definition wf (c : cIR) : bool :=
  forallb uuid_ok (all_uuids c) && nodup_z (all_uuids c)
  && (cr_version c =? py_protobuf_version)
  && modules_ok [] [] [] (cr_modules c)
  && (let cfgn := flat_map module_cfg_nodes (cr_modules c) in
      forallb (fun e => mem_z (ce_src e) cfgn && mem_z (ce_dst e) cfgn
                        && match ce_label e with Some (t, _, _) => enum_ok "EdgeType" t | None => true end) (cr_edges c))
  && nodup_edges (cr_edges c).

Definition save (c : cIR) : list Z * pIR := (header, to_proto c).
Definition load (file_header : list Z) (p : pIR) : res cIR :=
  do _ <- check_header file_header; from_proto p.
