From Coq Require Import Extraction ExtrOcamlBasic.
From V Require Import Result Run.
Extraction Language OCaml.
Extraction "model.ml" run.
