(* Proofs about Model/Codec.v: encode_total, decode_encode, encode_bytes
   (statements at the end of sections 6, 4 and 5; Print Assumptions at the end of the file). *)
From Coq Require Import ZArith List Bool Lia.
From V Require Import Result Bytes TypeName Utf8 Float32 Codec BytesProofs Utf8Proofs.
Import ListNotations.
Open Scope Z_scope.

(* ================================================================== *)
(* 1. Induction principle for the nested type `tree`                   *)
(* ================================================================== *)

Section TreeInd.
  Variable P : tree -> Prop.
  Hypothesis HT : forall nm subs, Forall P subs -> P (T nm subs).

  Fixpoint tree_ind' (t : tree) : P t :=
    match t with
    | T nm subs =>
      HT nm subs
        ((fix go (l : list tree) : Forall P l :=
            match l with
            | [] => Forall_nil P
            | s :: l' => Forall_cons s (tree_ind' s) (go l')
            end) subs)
    end.
End TreeInd.

(* ================================================================== *)
(* 2. Named copies of the anonymous inner loops, and unfolding lemmas   *)
(* ================================================================== *)

Definition enc_seq (f : value -> res (list Z)) : list value -> res (list Z) :=
  fix go (l : list value) : res (list Z) :=
    match l with
    | [] => Ok []
    | x :: l' => do a <- f x; do b <- go l'; Ok (a ++ b)
    end.

Definition enc_map (f g : value -> res (list Z)) : list (value * value) -> res (list Z) :=
  fix go (l : list (value * value)) : res (list Z) :=
    match l with
    | [] => Ok []
    | (k, x) :: l' => do a <- f k; do b <- g x; do c <- go l'; Ok (a ++ b ++ c)
    end.

Definition enc_tup (enc : tree -> value -> res (list Z)) : list tree -> list value -> res (list Z) :=
  fix go (subs : list tree) (l : list value) : res (list Z) :=
    match subs, l with
    | s :: subs', x :: l' => do a <- enc s x; do b <- go subs' l'; Ok (a ++ b)
    | _, _ => Ok []
    end.

Definition enc_pick (enc : tree -> value -> res (list Z)) (x : value) : list tree -> Z -> res (list Z) :=
  fix pick (subs : list tree) (k : Z) : res (list Z) :=
    match subs with
    | [] => Err EIndex
    | s :: subs' => if k =? 0 then enc s x else pick subs' (k - 1)
    end.

Definition seq_step (d : list Z -> res (value * list Z)) (st : list Z * list value)
  : res (list Z * list value) :=
  let '(bs, acc) := st in do (x, bs2) <- d bs; Ok (bs2, x :: acc).

Definition set_step (d : list Z -> res (value * list Z)) (st : list Z * list value)
  : res (list Z * list value) :=
  let '(bs, acc) := st in do (x, bs2) <- d bs; Ok (bs2, set_add x acc).

Definition map_step (dk dv : list Z -> res (value * list Z)) (st : list Z * list (value * value))
  : res (list Z * list (value * value)) :=
  let '(bs, acc) := st in
  do (key, bs1) <- dk bs;
  do (x, bs2) <- dv bs1;
  Ok (bs2, map_put key x acc).

Definition dec_tup (dec : tree -> list Z -> res (value * list Z))
  : list tree -> list Z -> list value -> res (value * list Z) :=
  fix go (subs : list tree) (bs : list Z) (acc : list value) : res (value * list Z) :=
    match subs with
    | [] => Ok (VTuple (rev acc), bs)
    | s :: subs' => do (x, bs') <- dec s bs; go subs' bs' (x :: acc)
    end.

Definition dec_pick (dec : tree -> list Z -> res (value * list Z)) (i : Z) (r : list Z)
  : list tree -> Z -> res (value * list Z) :=
  fix pick (subs : list tree) (k : Z) : res (value * list Z) :=
    match subs with
    | [] => Err EIndex
    | s :: subs' =>
      if k =? 0 then do (x, r') <- dec s r; Ok (VVariant i x, r')
      else pick subs' (k - 1)
    end.

Definition wt_tup (w : tree -> value -> bool) : list tree -> list value -> bool :=
  fix go (subs : list tree) (l : list value) : bool :=
    match subs, l with
    | s :: subs', x :: l' => w s x && go subs' l'
    | _, _ => true
    end.

Definition wt_pick (w : tree -> value -> bool) (x : value) : list tree -> Z -> bool :=
  fix pick (subs : list tree) (k : Z) : bool :=
    match subs with
    | [] => false
    | s :: subs' => if k =? 0 then w s x else pick subs' (k - 1)
    end.

Definition encode_k (k : option ckind) (subs : list tree) (v : value) : res (list Z) :=
  match k with
  | None => Err EUnknownCodec
  | Some (CInt n sg) =>
    match v with
    | VInt x => if no_subs subs then enc_int n sg x else Err EEncode
    | VBool b => if no_subs subs then enc_int n sg (if b then 1 else 0) else Err EEncode
    | _ => Err EEncode
    end
  | Some CBool =>
    match v with
    | VBool b => if no_subs subs then Ok [if b then 1 else 0] else Err EEncode
    | _ => Err EEncode
    end
  | Some CF64 =>
    match v with
    | VFloat b => if no_subs subs then Ok (le_bytes 8 b) else Err EEncode
    | _ => Err EEncode
    end
  | Some CF32 =>
    match v with
    | VFloat b => if no_subs subs then do r <- round32 b; Ok (le_bytes 4 r) else Err EEncode
    | _ => Err EEncode
    end
  | Some CStr =>
    match v with
    | VStr s =>
      if no_subs subs then
        let bs := utf8_encode s in
        do n <- enc_int 8 false (Z.of_nat (List.length bs)); Ok (n ++ bs)
      else Err EEncode
    | _ => Err EEncode
    end
  | Some CUuid => if no_subs subs then enc_uuid v else Err EEncode
  | Some COffset =>
    match v with
    | VOffset e d =>
      if no_subs subs then do u <- enc_uuid e; do n <- enc_int 8 false d; Ok (u ++ n)
      else Err EEncode
    | _ => Err EEncode
    end
  | Some CSeq =>
    match v with
    | VSeq l | VTuple l =>
      match subs with
      | [sub] =>
        do n <- enc_int 8 false (Z.of_nat (List.length l));
        prefix n (enc_seq (encode sub) l)
      | _ => Err EEncode
      end
    | _ => Err EEncode
    end
  | Some CSet =>
    match items_of v with
    | Some l =>
      match subs with
      | [sub] =>
        do n <- enc_int 8 false (Z.of_nat (List.length l));
        prefix n (enc_seq (encode sub) l)
      | _ => Err EEncode
      end
    | None => Err EEncode
    end
  | Some CMap =>
    match v with
    | VMap l =>
      match subs with
      | [kt; vt] =>
        do n <- enc_int 8 false (Z.of_nat (List.length l));
        prefix n (enc_map (encode kt) (encode vt) l)
      | _ => Err EEncode
      end
    | _ => Err EEncode
    end
  | Some CTuple =>
    match items_of v with
    | Some l =>
      if Nat.eqb (List.length l) (List.length subs) then enc_tup encode subs l
      else Err EEncode
    | None => Err EEncode
    end
  | Some CVariant =>
    match v with
    | VVariant i x =>
      do n <- enc_int 8 false i;
      prefix n (enc_pick encode x subs i)
    | _ => Err EEncode
    end
  end.

Lemma encode_unfold : forall nm subs v,
  encode (T nm subs) v = encode_k (lookup_codec spec_table nm) subs v.
Proof. reflexivity. Qed.

Definition decode_k (get : Z -> option Z) (k : option ckind) (subs : list tree) (bs : list Z)
  : res (value * list Z) :=
  match k with
  | None => Err EUnknownCodec
  | Some (CInt n sg) =>
    if no_subs subs then let '(x, r) := dec_int n sg bs in Ok (VInt x, r) else Err EDecode
  | Some CBool =>
    if no_subs subs then
      Ok (VBool (match take 1 bs with [b] => negb (b =? 0) | _ => true end), drop 1 bs)
    else Err EDecode
  | Some CF64 =>
    if no_subs subs then
      if Nat.eqb (List.length (take 8 bs)) 8 then Ok (VFloat (of_le (take 8 bs)), drop 8 bs)
      else Err EStruct
    else Err EDecode
  | Some CF32 =>
    if no_subs subs then
      if Nat.eqb (List.length (take 4 bs)) 4 then Ok (VFloat (widen32 (of_le (take 4 bs))), drop 4 bs)
      else Err EStruct
    else Err EDecode
  | Some CStr =>
    if no_subs subs then
      let '(n, r) := dec_int 8 false bs in
      match utf8_decode (take (clampn n r) r) with
      | Some s => Ok (VStr s, drop (clampn n r) r)
      | None => Err EValue
      end
    else Err EDecode
  | Some CUuid => if no_subs subs then dec_uuid get bs else Err EDecode
  | Some COffset =>
    if no_subs subs then
      do (e, r) <- dec_uuid get bs;
      let '(d, r') := dec_int 8 false r in Ok (VOffset e d, r')
    else Err EDecode
  | Some CSeq =>
    match subs with
    | [sub] =>
      let '(n, r) := dec_int 8 false bs in
      do (bs', acc) <- iter_z n (seq_step (decode get sub)) (r, []);
      Ok (VSeq (rev acc), bs')
    | _ => Err EDecode
    end
  | Some CSet =>
    match subs with
    | [sub] =>
      let '(n, r) := dec_int 8 false bs in
      do (bs', acc) <- iter_z n (set_step (decode get sub)) (r, []);
      Ok (VSet acc, bs')
    | _ => Err EDecode
    end
  | Some CMap =>
    match subs with
    | [kt; vt] =>
      let '(n, r) := dec_int 8 false bs in
      do (bs', acc) <- iter_z n (map_step (decode get kt) (decode get vt)) (r, []);
      Ok (VMap acc, bs')
    | _ => Err EDecode
    end
  | Some CTuple => dec_tup (decode get) subs bs []
  | Some CVariant =>
    let '(i, r) := dec_int 8 false bs in
    dec_pick (decode get) i r subs i
  end.

Lemma decode_unfold : forall get nm subs bs,
  decode get (T nm subs) bs = decode_k get (lookup_codec spec_table nm) subs bs.
Proof. reflexivity. Qed.

Definition wt_k (get : Z -> option Z) (k : option ckind) (subs : list tree) (v : value) : bool :=
  match k with
  | None => false
  | Some (CInt n sg) => match v with VInt x => no_subs subs && in_range n sg x | _ => false end
  | Some CBool => match v with VBool _ => no_subs subs | _ => false end
  | Some CF64 => match v with VFloat b => no_subs subs && u64 b | _ => false end
  | Some CF32 =>
    match v with
    | VFloat b =>
      no_subs subs &&
      match round32 b with
      | Ok r => (0 <=? r) && (r <? 2 ^ 32) && (widen32 r =? b)
      | Err _ => false
      end
    | _ => false
    end
  | Some CStr =>
    match v with
    | VStr s => no_subs subs && forallb is_scalar s && u64 (Z.of_nat (List.length (utf8_encode s)))
    | _ => false
    end
  | Some CUuid => no_subs subs && wt_uuid get v
  | Some COffset => match v with VOffset e d => no_subs subs && wt_uuid get e && u64 d | _ => false end
  | Some CSeq =>
    match v, subs with
    | VSeq l, [sub] => u64 (Z.of_nat (List.length l)) && forallb (wt get sub) l
    | _, _ => false
    end
  | Some CSet =>
    match v, subs with
    | VSet l, [sub] => u64 (Z.of_nat (List.length l)) && forallb (wt get sub) l && nodup_vals [] l
    | _, _ => false
    end
  | Some CMap =>
    match v, subs with
    | VMap l, [kt; vt] =>
      u64 (Z.of_nat (List.length l))
      && forallb (fun p => wt get kt (fst p) && wt get vt (snd p)) l
      && nodup_vals [] (map fst l)
    | _, _ => false
    end
  | Some CTuple =>
    match v with
    | VTuple l => Nat.eqb (List.length l) (List.length subs) && wt_tup (wt get) subs l
    | _ => false
    end
  | Some CVariant =>
    match v with
    | VVariant i x =>
      u64 i && (i <? Z.of_nat (List.length subs)) && wt_pick (wt get) x subs i
    | _ => false
    end
  end.

Lemma wt_unfold : forall get nm subs v,
  wt get (T nm subs) v = wt_k get (lookup_codec spec_table nm) subs v.
Proof. reflexivity. Qed.

(* ================================================================== *)
(* 3. Lists, arithmetic and leaf codecs                                *)
(* ================================================================== *)

Lemma take_app_len : forall n (a b : list Z), length a = n -> take n (a ++ b) = a.
Proof.
  intros n a b <-. unfold take.
  rewrite firstn_app, Nat.sub_diag, firstn_all. simpl. apply app_nil_r.
Qed.

Lemma drop_app_len : forall n (a b : list Z), length a = n -> drop n (a ++ b) = b.
Proof.
  intros n a b <-. unfold drop.
  rewrite skipn_app, Nat.sub_diag, skipn_all. reflexivity.
Qed.

Lemma u64_in_range : forall z, u64 z = in_range 8 false z.
Proof. reflexivity. Qed.

Lemma in_range_unsigned : forall n x, in_range n false x = true -> 0 <= x < pow256 n.
Proof.
  intros n x H. unfold in_range in H. apply andb_true_iff in H as [H1 H2].
  apply Z.leb_le in H1. apply Z.ltb_lt in H2. lia.
Qed.

Lemma pow256_4 : pow256 4 = 2 ^ 32. Proof. reflexivity. Qed.
Lemma pow256_8 : pow256 8 = 2 ^ 64. Proof. reflexivity. Qed.
Lemma pow256_16 : pow256 16 = 2 ^ 128. Proof. reflexivity. Qed.

Lemma of_le_le_bytes_small : forall n x, 0 <= x < pow256 n -> of_le (le_bytes n x) = x.
Proof. intros n x H. rewrite of_le_le_bytes. apply Z.mod_small. exact H. Qed.

Lemma enc_int_ok : forall n sg x, in_range n sg x = true -> enc_int n sg x = Ok (le_bytes n (x mod pow256 n)).
Proof. intros n sg x H. unfold enc_int. rewrite H. reflexivity. Qed.

Lemma enc_int_inv : forall n sg x bs,
  enc_int n sg x = Ok bs -> in_range n sg x = true /\ bs = le_bytes n (x mod pow256 n).
Proof.
  intros n sg x bs H. unfold enc_int in H.
  destruct (in_range n sg x); [|discriminate]. inversion H. auto.
Qed.

Lemma enc_int_length : forall n sg x bs, enc_int n sg x = Ok bs -> length bs = n.
Proof. intros n sg x bs H. apply enc_int_inv in H as [_ ->]. apply le_bytes_length. Qed.

Lemma dec_enc_int : forall n sg x bs rest,
  enc_int n sg x = Ok bs -> dec_int n sg (bs ++ rest) = (x, rest).
Proof.
  intros n sg x bs rest H. apply enc_int_inv in H as [Hr ->].
  unfold dec_int.
  rewrite take_app_len, drop_app_len by apply le_bytes_length.
  rewrite le_bytes_length, of_le_le_bytes.
  pose proof (pow256_pos n) as Hp. set (p := pow256 n) in *.
  rewrite Z.mod_mod by lia.
  f_equal. unfold in_range in Hr. fold p in Hr. destruct sg; cbn [andb].
  - apply andb_true_iff in Hr as [H1 H2]. apply Z.leb_le in H1. apply Z.ltb_lt in H2.
    pose proof (Z.div_mod p 2 ltac:(lia)) as Hd.
    pose proof (Z.mod_pos_bound p 2 ltac:(lia)) as Hm.
    set (h := p / 2) in *. set (m := p mod 2) in *.
    destruct (Z_lt_dec x 0) as [Hneg|Hpos].
    + assert (Hx : x mod p = x + p).
      { symmetry. apply Z.mod_unique with (q := -1); lia. }
      rewrite Hx. destruct (h <=? x + p) eqn:Hc.
      * lia.
      * apply Z.leb_gt in Hc. lia.
    + rewrite Z.mod_small by lia.
      destruct (h <=? x) eqn:Hc.
      * apply Z.leb_le in Hc. lia.
      * reflexivity.
  - apply andb_true_iff in Hr as [H1 H2]. apply Z.leb_le in H1. apply Z.ltb_lt in H2.
    apply Z.mod_small. lia.
Qed.

Lemma all_bytes_app : forall a b, all_bytes (a ++ b) = all_bytes a && all_bytes b.
Proof. intros. unfold all_bytes. apply forallb_app. Qed.

Lemma all_bytes_rev : forall a, all_bytes a = true -> all_bytes (rev a) = true.
Proof.
  intros a H. unfold all_bytes in *. rewrite forallb_forall in *.
  intros x Hx. apply H. apply in_rev. exact Hx.
Qed.

Lemma enc_int_bytes : forall n sg x bs, enc_int n sg x = Ok bs -> all_bytes bs = true.
Proof. intros n sg x bs H. apply enc_int_inv in H as [_ ->]. apply le_bytes_bytes. Qed.

(* ---- UUID ---- *)

Lemma be16_length : forall u, length (be16 u) = 16%nat.
Proof. intros. unfold be16. rewrite rev_length. apply le_bytes_length. Qed.

Lemma wt_uuid_enc : forall get v, wt_uuid get v = true ->
  exists u, enc_uuid v = Ok (be16 u) /\ 0 <= u < pow256 16 /\
            v = match get u with Some id => VNode id u | None => VUuid u end.
Proof.
  intros get v H. rewrite pow256_16.
  destruct v; try discriminate; cbn [wt_uuid] in H.
  - apply andb_true_iff in H as [H H3]. apply andb_true_iff in H as [H1 H2].
    apply Z.leb_le in H1. apply Z.ltb_lt in H2.
    exists u. cbn [enc_uuid]. repeat split; try assumption.
    destruct (get u); [discriminate|reflexivity].
  - apply andb_true_iff in H as [H H3]. apply andb_true_iff in H as [H1 H2].
    apply Z.leb_le in H1. apply Z.ltb_lt in H2.
    exists u. cbn [enc_uuid]. repeat split; try assumption.
    destruct (get u) as [j|]; [|discriminate].
    apply Z.eqb_eq in H3. subst. reflexivity.
Qed.

Lemma dec_enc_uuid : forall get v bs rest,
  wt_uuid get v = true -> enc_uuid v = Ok bs -> dec_uuid get (bs ++ rest) = Ok (v, rest).
Proof.
  intros get v bs rest Hwt Henc.
  destruct (wt_uuid_enc get v Hwt) as (u & He & Hu & Hv).
  rewrite He in Henc. inversion Henc; subst bs. clear Henc.
  unfold dec_uuid.
  rewrite take_app_len, drop_app_len by apply be16_length.
  rewrite be16_length. cbn [Nat.eqb].
  unfold be16. rewrite rev_involutive, of_le_le_bytes_small by exact Hu.
  rewrite <- Hv. reflexivity.
Qed.

Lemma enc_uuid_bytes : forall v bs, enc_uuid v = Ok bs -> all_bytes bs = true.
Proof.
  intros v bs H. destruct v; try discriminate; cbn [enc_uuid] in H; inversion H;
    apply all_bytes_rev, le_bytes_bytes.
Qed.

(* ---- sets / mappings ---- *)

Lemma set_add_distinct : forall x seen, distinct_from x seen = true -> set_add x seen = seen ++ [x].
Proof.
  intros x seen. induction seen as [|y seen IH]; intros H; cbn [distinct_from set_add app] in *.
  - reflexivity.
  - apply andb_true_iff in H as [H1 H2]. apply negb_true_iff in H1. rewrite H1.
    rewrite IH by exact H2. reflexivity.
Qed.

Lemma map_put_distinct : forall k x acc,
  distinct_from k (map fst acc) = true -> map_put k x acc = acc ++ [(k, x)].
Proof.
  intros k x acc. induction acc as [|[k' x'] acc IH]; intros H; cbn [distinct_from map_put app map fst] in *.
  - reflexivity.
  - apply andb_true_iff in H as [H1 H2]. apply negb_true_iff in H1. rewrite H1.
    rewrite IH by exact H2. reflexivity.
Qed.

(* ================================================================== *)
(* 4. decode_encode                                                    *)
(* ================================================================== *)

Definition RT (get : Z -> option Z) (t : tree) : Prop :=
  forall v bs rest,
    wt get t v = true -> encode t v = Ok bs -> decode get t (bs ++ rest) = Ok (v, rest).

Lemma Ok_inj : forall (A : Type) (a b : A), Ok a = Ok b -> a = b.
Proof. intros A a b H. congruence. Qed.

Lemma bind_ok_inv : forall (A B : Type) (r : res A) (f : A -> res B) (b : B),
  bind r f = Ok b -> exists a, r = Ok a /\ f a = Ok b.
Proof. intros A B r f b H. destruct r as [a|e]; [|discriminate]. exists a. auto. Qed.

Lemma prefix_ok_inv : forall n r bs, prefix n r = Ok bs -> exists body, r = Ok body /\ bs = n ++ body.
Proof.
  intros n r bs H. destruct r as [body|e]; [|discriminate].
  exists body. inversion H. auto.
Qed.

(* ---- iter_pos / iter_z as plain nat iteration ---- *)

Fixpoint nat_iter {S : Type} (k : nat) (f : S -> res S) (s : S) : res S :=
  match k with
  | O => Ok s
  | Datatypes.S k' => do s' <- f s; nat_iter k' f s'
  end.

Lemma nat_iter_add : forall (S : Type) (f : S -> res S) (a b : nat) (s : S),
  nat_iter (a + b) f s = (do s' <- nat_iter a f s; nat_iter b f s').
Proof.
  intros S f a b. induction a as [|a IHa]; intros s; cbn [Nat.add nat_iter bind].
  - reflexivity.
  - destruct (f s) as [s'|e]; cbn [bind]; [apply IHa|reflexivity].
Qed.

Lemma iter_pos_nat : forall (S : Type) (f : S -> res S) (p : positive) (s : S),
  iter_pos p f s = nat_iter (Pos.to_nat p) f s.
Proof.
  intros S f p. induction p as [q IHq|q IHq|]; intros s; cbn [iter_pos].
  - rewrite Pos2Nat.inj_xI.
    replace (2 * Pos.to_nat q)%nat with (Pos.to_nat q + Pos.to_nat q)%nat by lia.
    cbn [nat_iter]. destruct (f s) as [s1|e]; cbn [bind]; [|reflexivity].
    rewrite nat_iter_add, IHq.
    destruct (nat_iter (Pos.to_nat q) f s1) as [s2|e]; cbn [bind]; [apply IHq|reflexivity].
  - rewrite Pos2Nat.inj_xO.
    replace (2 * Pos.to_nat q)%nat with (Pos.to_nat q + Pos.to_nat q)%nat by lia.
    rewrite nat_iter_add, IHq.
    destruct (nat_iter (Pos.to_nat q) f s) as [s2|e]; cbn [bind]; [apply IHq|reflexivity].
  - rewrite Pos2Nat.inj_1. cbn [nat_iter]. destruct (f s); reflexivity.
Qed.

Lemma iter_z_nat : forall (S : Type) (f : S -> res S) (k : nat) (s : S),
  iter_z (Z.of_nat k) f s = nat_iter k f s.
Proof.
  intros S f k s. destruct k as [|k].
  - reflexivity.
  - cbn [Z.of_nat iter_z]. rewrite iter_pos_nat, SuccNat2Pos.id_succ. reflexivity.
Qed.

Lemma clampn_app : forall a b : list Z, clampn (Z.of_nat (length a)) (a ++ b) = length a.
Proof. intros a b. unfold clampn. rewrite app_length. lia. Qed.

(* ---- the loops ---- *)

Lemma seq_rt : forall get sub, RT get sub ->
  forall l body rest acc,
    forallb (wt get sub) l = true ->
    enc_seq (encode sub) l = Ok body ->
    nat_iter (length l) (seq_step (decode get sub)) (body ++ rest, acc) = Ok (rest, rev l ++ acc).
Proof.
  intros get sub IH l. induction l as [|x l IHl]; intros body rest acc Hwt Henc.
  - cbn [enc_seq] in Henc. apply Ok_inj in Henc; subst body. reflexivity.
  - cbn [enc_seq] in Henc. cbn [forallb] in Hwt. apply andb_true_iff in Hwt as [Hx Hl].
    apply bind_ok_inv in Henc as (a & Ha & Henc).
    apply bind_ok_inv in Henc as (b & Hb & Henc).
    apply Ok_inj in Henc; subst body.
    cbn [length nat_iter]. unfold seq_step at 1. rewrite <- app_assoc.
    rewrite (IH x a (b ++ rest) Hx Ha). cbn [bind].
    rewrite (IHl b rest (x :: acc) Hl Hb).
    cbn [rev]. rewrite <- app_assoc. reflexivity.
Qed.

Lemma set_rt : forall get sub, RT get sub ->
  forall l body rest acc,
    forallb (wt get sub) l = true ->
    nodup_vals acc l = true ->
    enc_seq (encode sub) l = Ok body ->
    nat_iter (length l) (set_step (decode get sub)) (body ++ rest, acc) = Ok (rest, acc ++ l).
Proof.
  intros get sub IH l. induction l as [|x l IHl]; intros body rest acc Hwt Hnd Henc.
  - cbn [enc_seq] in Henc. apply Ok_inj in Henc; subst body.
    cbn [length nat_iter app]. rewrite app_nil_r. reflexivity.
  - cbn [enc_seq] in Henc. cbn [forallb] in Hwt. apply andb_true_iff in Hwt as [Hx Hl].
    cbn [nodup_vals] in Hnd. apply andb_true_iff in Hnd as [Hd Hnd].
    apply bind_ok_inv in Henc as (a & Ha & Henc).
    apply bind_ok_inv in Henc as (b & Hb & Henc).
    apply Ok_inj in Henc; subst body.
    cbn [length nat_iter]. unfold set_step at 1. rewrite <- app_assoc.
    rewrite (IH x a (b ++ rest) Hx Ha). cbn [bind].
    rewrite (set_add_distinct x acc Hd).
    rewrite (IHl b rest (acc ++ [x]) Hl Hnd Hb).
    rewrite <- app_assoc. reflexivity.
Qed.

Lemma map_rt : forall get kt vt, RT get kt -> RT get vt ->
  forall l body rest acc,
    forallb (fun p => wt get kt (fst p) && wt get vt (snd p)) l = true ->
    nodup_vals (map fst acc) (map fst l) = true ->
    enc_map (encode kt) (encode vt) l = Ok body ->
    nat_iter (length l) (map_step (decode get kt) (decode get vt)) (body ++ rest, acc)
    = Ok (rest, acc ++ l).
Proof.
  intros get kt vt IHk IHv l. induction l as [|[k x] l IHl]; intros body rest acc Hwt Hnd Henc.
  - cbn [enc_map] in Henc. apply Ok_inj in Henc; subst body.
    cbn [length nat_iter app]. rewrite app_nil_r. reflexivity.
  - cbn [enc_map] in Henc. cbn [forallb fst snd] in Hwt.
    apply andb_true_iff in Hwt as [Hkx Hl]. apply andb_true_iff in Hkx as [Hk Hx].
    cbn [map fst nodup_vals] in Hnd. apply andb_true_iff in Hnd as [Hd Hnd].
    apply bind_ok_inv in Henc as (a & Ha & Henc).
    apply bind_ok_inv in Henc as (b & Hb & Henc).
    apply bind_ok_inv in Henc as (c & Hc & Henc).
    apply Ok_inj in Henc; subst body.
    cbn [length nat_iter]. unfold map_step at 1. rewrite <- !app_assoc.
    rewrite (IHk k a (b ++ c ++ rest) Hk Ha). cbn [bind].
    rewrite (IHv x b (c ++ rest) Hx Hb). cbn [bind].
    rewrite (map_put_distinct k x acc Hd).
    rewrite (IHl c rest (acc ++ [(k, x)])); try assumption.
    + rewrite <- app_assoc. reflexivity.
    + rewrite map_app. exact Hnd.
Qed.

Lemma tup_rt : forall get subs, Forall (RT get) subs ->
  forall l body rest acc,
    length l = length subs ->
    wt_tup (wt get) subs l = true ->
    enc_tup encode subs l = Ok body ->
    dec_tup (decode get) subs (body ++ rest) acc = Ok (VTuple (rev acc ++ l), rest).
Proof.
  intros get subs HF. induction HF as [|s subs IH HF IHs]; intros l body rest acc Hlen Hwt Henc.
  - destruct l; [|discriminate]. cbn [enc_tup] in Henc. inversion Henc; subst body.
    cbn [dec_tup app]. rewrite app_nil_r. reflexivity.
  - destruct l as [|x l]; [discriminate|]. cbn [length] in Hlen. injection Hlen as Hlen.
    cbn [wt_tup] in Hwt. apply andb_true_iff in Hwt as [Hx Hl].
    cbn [enc_tup] in Henc.
    apply bind_ok_inv in Henc as (a & Ha & Henc).
    apply bind_ok_inv in Henc as (b & Hb & Henc).
    inversion Henc; subst body. clear Henc.
    cbn [dec_tup]. rewrite <- app_assoc.
    rewrite (IH x a (b ++ rest) Hx Ha). cbn [bind].
    rewrite (IHs l b rest (x :: acc) Hlen Hl Hb).
    cbn [rev]. rewrite <- app_assoc. reflexivity.
Qed.

Lemma pick_rt : forall get subs, Forall (RT get) subs ->
  forall k x i body rest,
    wt_pick (wt get) x subs k = true ->
    enc_pick encode x subs k = Ok body ->
    dec_pick (decode get) i (body ++ rest) subs k = Ok (VVariant i x, rest).
Proof.
  intros get subs HF. induction HF as [|s subs IH HF IHs]; intros k x i body rest Hwt Henc.
  - discriminate.
  - cbn [wt_pick enc_pick dec_pick] in *. destruct (k =? 0).
    + rewrite (IH x body rest Hwt Henc). reflexivity.
    + apply IHs; assumption.
Qed.

Theorem decode_encode : forall get t v bs rest,
  wt get t v = true -> encode t v = Ok bs -> decode get t (bs ++ rest) = Ok (v, rest).
Proof.
  intros get t. change (RT get t).
  induction t as [nm subs IH] using tree_ind'.
  intros v bs rest Hwt Henc.
  rewrite wt_unfold in Hwt. rewrite encode_unfold in Henc. rewrite decode_unfold.
  destruct (lookup_codec spec_table nm) as [k|]; [|discriminate].
  destruct k; cbn [wt_k encode_k decode_k] in *.
  - (* CInt *)
    destruct v; try discriminate.
    apply andb_true_iff in Hwt as [Hs Hr]. rewrite Hs in *.
    rewrite (dec_enc_int _ _ _ _ rest Henc). reflexivity.
  - (* CBool *)
    destruct v; try discriminate. rewrite Hwt in *.
    apply Ok_inj in Henc; subst bs. destruct b; reflexivity.
  - (* CF32 *)
    destruct v; try discriminate.
    apply andb_true_iff in Hwt as [Hs Hr]. rewrite Hs in *.
    destruct (round32 bits) as [r|e]; [|discriminate]. cbn [bind] in Henc.
    apply Ok_inj in Henc; subst bs.
    apply andb_true_iff in Hr as [Hr H3]. apply andb_true_iff in Hr as [H1 H2].
    apply Z.leb_le in H1. apply Z.ltb_lt in H2. apply Z.eqb_eq in H3.
    rewrite take_app_len, drop_app_len by apply le_bytes_length.
    rewrite le_bytes_length. cbn [Nat.eqb].
    rewrite of_le_le_bytes_small by (rewrite pow256_4; lia).
    rewrite H3. reflexivity.
  - (* CF64 *)
    destruct v; try discriminate.
    apply andb_true_iff in Hwt as [Hs Hr]. rewrite Hs in *.
    apply Ok_inj in Henc; subst bs.
    rewrite u64_in_range in Hr. apply in_range_unsigned in Hr.
    rewrite take_app_len, drop_app_len by apply le_bytes_length.
    rewrite le_bytes_length. cbn [Nat.eqb].
    rewrite of_le_le_bytes_small by exact Hr. reflexivity.
  - (* CStr *)
    destruct v; try discriminate.
    apply andb_true_iff in Hwt as [Hwt Hlen]. apply andb_true_iff in Hwt as [Hs Hsc].
    rewrite Hs in *. cbv zeta in Henc.
    apply bind_ok_inv in Henc as (n & Hn & Henc). apply Ok_inj in Henc; subst bs.
    rewrite <- app_assoc. rewrite (dec_enc_int _ _ _ _ _ Hn).
    rewrite clampn_app.
    rewrite take_app_len, drop_app_len by reflexivity.
    rewrite (utf8_roundtrip s Hsc). reflexivity.
  - (* CUuid *)
    apply andb_true_iff in Hwt as [Hs Hu]. rewrite Hs in *.
    apply dec_enc_uuid; assumption.
  - (* COffset *)
    destruct v; try discriminate.
    apply andb_true_iff in Hwt as [Hwt Hd]. apply andb_true_iff in Hwt as [Hs Hu].
    rewrite Hs in *.
    apply bind_ok_inv in Henc as (u & Hue & Henc).
    apply bind_ok_inv in Henc as (n & Hn & Henc). apply Ok_inj in Henc; subst bs.
    rewrite <- app_assoc. rewrite (dec_enc_uuid get v u _ Hu Hue). cbn [bind].
    rewrite (dec_enc_int _ _ _ _ _ Hn). reflexivity.
  - (* CSeq *)
    destruct v; try discriminate.
    destruct subs as [|sub [|? ?]]; try discriminate.
    apply andb_true_iff in Hwt as [Hlen Hall].
    apply bind_ok_inv in Henc as (n & Hn & Henc).
    apply prefix_ok_inv in Henc as (body & Hbody & ->).
    rewrite <- app_assoc. rewrite (dec_enc_int _ _ _ _ _ Hn). rewrite iter_z_nat.
    inversion IH as [|? ? IHsub _]; subst.
    rewrite (seq_rt get sub IHsub l body rest [] Hall Hbody). cbn [bind].
    rewrite app_nil_r, rev_involutive. reflexivity.
  - (* CSet *)
    destruct v; try discriminate.
    destruct subs as [|sub [|? ?]]; try discriminate.
    apply andb_true_iff in Hwt as [Hwt Hnd]. apply andb_true_iff in Hwt as [Hlen Hall].
    cbn [items_of] in Henc.
    apply bind_ok_inv in Henc as (n & Hn & Henc).
    apply prefix_ok_inv in Henc as (body & Hbody & ->).
    rewrite <- app_assoc. rewrite (dec_enc_int _ _ _ _ _ Hn). rewrite iter_z_nat.
    inversion IH as [|? ? IHsub _]; subst.
    rewrite (set_rt get sub IHsub l body rest [] Hall Hnd Hbody). reflexivity.
  - (* CMap *)
    destruct v; try discriminate.
    destruct subs as [|kt [|vt [|? ?]]]; try discriminate.
    apply andb_true_iff in Hwt as [Hwt Hnd]. apply andb_true_iff in Hwt as [Hlen Hall].
    apply bind_ok_inv in Henc as (n & Hn & Henc).
    apply prefix_ok_inv in Henc as (body & Hbody & ->).
    rewrite <- app_assoc. rewrite (dec_enc_int _ _ _ _ _ Hn). rewrite iter_z_nat.
    inversion IH as [|? ? IHk IH']; subst. inversion IH' as [|? ? IHv _]; subst.
    rewrite (map_rt get kt vt IHk IHv l body rest [] Hall Hnd Hbody). reflexivity.
  - (* CTuple *)
    destruct v; try discriminate.
    apply andb_true_iff in Hwt as [Hlen Hall].
    cbn [items_of] in Henc. rewrite Hlen in Henc. apply Nat.eqb_eq in Hlen.
    apply (tup_rt get subs IH l bs rest [] Hlen Hall Henc).
  - (* CVariant *)
    destruct v; try discriminate.
    apply andb_true_iff in Hwt as [Hwt Hp].
    apply bind_ok_inv in Henc as (n & Hn & Henc).
    apply prefix_ok_inv in Henc as (body & Hbody & ->).
    rewrite <- app_assoc. rewrite (dec_enc_int _ _ _ _ _ Hn).
    apply (pick_rt get subs IH _ _ _ _ _ Hp Hbody).
Qed.

(* ================================================================== *)
(* 5. encode_bytes                                                     *)
(* ================================================================== *)

Definition EB (get : Z -> option Z) (t : tree) : Prop :=
  forall v bs, wt get t v = true -> encode t v = Ok bs -> all_bytes bs = true.

Lemma seq_eb : forall get sub, EB get sub ->
  forall l body,
    forallb (wt get sub) l = true -> enc_seq (encode sub) l = Ok body -> all_bytes body = true.
Proof.
  intros get sub IH l. induction l as [|x l IHl]; intros body Hwt Henc.
  - cbn [enc_seq] in Henc. apply Ok_inj in Henc; subst body. reflexivity.
  - cbn [enc_seq] in Henc. cbn [forallb] in Hwt. apply andb_true_iff in Hwt as [Hx Hl].
    apply bind_ok_inv in Henc as (a & Ha & Henc).
    apply bind_ok_inv in Henc as (b & Hb & Henc).
    apply Ok_inj in Henc; subst body.
    rewrite all_bytes_app, (IH x a Hx Ha), (IHl b Hl Hb). reflexivity.
Qed.

Lemma map_eb : forall get kt vt, EB get kt -> EB get vt ->
  forall l body,
    forallb (fun p => wt get kt (fst p) && wt get vt (snd p)) l = true ->
    enc_map (encode kt) (encode vt) l = Ok body -> all_bytes body = true.
Proof.
  intros get kt vt IHk IHv l. induction l as [|[k x] l IHl]; intros body Hwt Henc.
  - cbn [enc_map] in Henc. apply Ok_inj in Henc; subst body. reflexivity.
  - cbn [enc_map] in Henc. cbn [forallb fst snd] in Hwt.
    apply andb_true_iff in Hwt as [Hkx Hl]. apply andb_true_iff in Hkx as [Hk Hx].
    apply bind_ok_inv in Henc as (a & Ha & Henc).
    apply bind_ok_inv in Henc as (b & Hb & Henc).
    apply bind_ok_inv in Henc as (c & Hc & Henc).
    apply Ok_inj in Henc; subst body.
    rewrite !all_bytes_app, (IHk k a Hk Ha), (IHv x b Hx Hb), (IHl c Hl Hc). reflexivity.
Qed.

Lemma tup_eb : forall get subs, Forall (EB get) subs ->
  forall l body,
    wt_tup (wt get) subs l = true -> enc_tup encode subs l = Ok body -> all_bytes body = true.
Proof.
  intros get subs HF. induction HF as [|s subs IH HF IHs]; intros l body Hwt Henc.
  - cbn [enc_tup] in Henc. apply Ok_inj in Henc; subst body. reflexivity.
  - destruct l as [|x l].
    + cbn [enc_tup] in Henc. apply Ok_inj in Henc; subst body. reflexivity.
    + cbn [wt_tup] in Hwt. apply andb_true_iff in Hwt as [Hx Hl].
      cbn [enc_tup] in Henc.
      apply bind_ok_inv in Henc as (a & Ha & Henc).
      apply bind_ok_inv in Henc as (b & Hb & Henc).
      apply Ok_inj in Henc; subst body.
      rewrite all_bytes_app, (IH x a Hx Ha), (IHs l b Hl Hb). reflexivity.
Qed.

Lemma pick_eb : forall get subs, Forall (EB get) subs ->
  forall k x body,
    wt_pick (wt get) x subs k = true -> enc_pick encode x subs k = Ok body -> all_bytes body = true.
Proof.
  intros get subs HF. induction HF as [|s subs IH HF IHs]; intros k x body Hwt Henc.
  - discriminate.
  - cbn [wt_pick enc_pick] in *. destruct (k =? 0).
    + exact (IH x body Hwt Henc).
    + exact (IHs (k - 1) x body Hwt Henc).
Qed.

Theorem encode_bytes : forall get t v bs,
  wt get t v = true -> encode t v = Ok bs -> all_bytes bs = true.
Proof.
  intros get t. change (EB get t).
  induction t as [nm subs IH] using tree_ind'.
  intros v bs Hwt Henc.
  rewrite wt_unfold in Hwt. rewrite encode_unfold in Henc.
  destruct (lookup_codec spec_table nm) as [k|]; [|discriminate].
  destruct k; cbn [wt_k encode_k] in *.
  - (* CInt *)
    destruct v; try discriminate.
    apply andb_true_iff in Hwt as [Hs Hr]. rewrite Hs in *.
    exact (enc_int_bytes _ _ _ _ Henc).
  - (* CBool *)
    destruct v; try discriminate. rewrite Hwt in *.
    apply Ok_inj in Henc; subst bs. destruct b; reflexivity.
  - (* CF32 *)
    destruct v; try discriminate.
    apply andb_true_iff in Hwt as [Hs Hr]. rewrite Hs in *.
    apply bind_ok_inv in Henc as (r & _ & Henc).
    apply Ok_inj in Henc; subst bs. apply le_bytes_bytes.
  - (* CF64 *)
    destruct v; try discriminate.
    apply andb_true_iff in Hwt as [Hs Hr]. rewrite Hs in *.
    apply Ok_inj in Henc; subst bs. apply le_bytes_bytes.
  - (* CStr *)
    destruct v; try discriminate.
    apply andb_true_iff in Hwt as [Hwt Hlen]. apply andb_true_iff in Hwt as [Hs Hsc].
    rewrite Hs in *. cbv zeta in Henc.
    apply bind_ok_inv in Henc as (n & Hn & Henc). apply Ok_inj in Henc; subst bs.
    rewrite all_bytes_app, (enc_int_bytes _ _ _ _ Hn), (utf8_encode_bytes s Hsc). reflexivity.
  - (* CUuid *)
    apply andb_true_iff in Hwt as [Hs Hu]. rewrite Hs in *.
    exact (enc_uuid_bytes _ _ Henc).
  - (* COffset *)
    destruct v; try discriminate.
    apply andb_true_iff in Hwt as [Hwt Hd]. apply andb_true_iff in Hwt as [Hs Hu].
    rewrite Hs in *.
    apply bind_ok_inv in Henc as (u & Hue & Henc).
    apply bind_ok_inv in Henc as (n & Hn & Henc). apply Ok_inj in Henc; subst bs.
    rewrite all_bytes_app, (enc_uuid_bytes _ _ Hue), (enc_int_bytes _ _ _ _ Hn). reflexivity.
  - (* CSeq *)
    destruct v; try discriminate.
    destruct subs as [|sub [|? ?]]; try discriminate.
    apply andb_true_iff in Hwt as [Hlen Hall].
    apply bind_ok_inv in Henc as (n & Hn & Henc).
    apply prefix_ok_inv in Henc as (body & Hbody & ->).
    inversion IH as [|? ? IHsub _]; subst.
    rewrite all_bytes_app, (enc_int_bytes _ _ _ _ Hn), (seq_eb get sub IHsub l body Hall Hbody).
    reflexivity.
  - (* CSet *)
    destruct v; try discriminate.
    destruct subs as [|sub [|? ?]]; try discriminate.
    apply andb_true_iff in Hwt as [Hwt Hnd]. apply andb_true_iff in Hwt as [Hlen Hall].
    cbn [items_of] in Henc.
    apply bind_ok_inv in Henc as (n & Hn & Henc).
    apply prefix_ok_inv in Henc as (body & Hbody & ->).
    inversion IH as [|? ? IHsub _]; subst.
    rewrite all_bytes_app, (enc_int_bytes _ _ _ _ Hn), (seq_eb get sub IHsub l body Hall Hbody).
    reflexivity.
  - (* CMap *)
    destruct v; try discriminate.
    destruct subs as [|kt [|vt [|? ?]]]; try discriminate.
    apply andb_true_iff in Hwt as [Hwt Hnd]. apply andb_true_iff in Hwt as [Hlen Hall].
    apply bind_ok_inv in Henc as (n & Hn & Henc).
    apply prefix_ok_inv in Henc as (body & Hbody & ->).
    inversion IH as [|? ? IHk IH']; subst. inversion IH' as [|? ? IHv _]; subst.
    rewrite all_bytes_app, (enc_int_bytes _ _ _ _ Hn),
      (map_eb get kt vt IHk IHv l body Hall Hbody).
    reflexivity.
  - (* CTuple *)
    destruct v; try discriminate.
    apply andb_true_iff in Hwt as [Hlen Hall].
    cbn [items_of] in Henc. rewrite Hlen in Henc.
    exact (tup_eb get subs IH l bs Hall Henc).
  - (* CVariant *)
    destruct v; try discriminate.
    apply andb_true_iff in Hwt as [Hwt Hp].
    apply bind_ok_inv in Henc as (n & Hn & Henc).
    apply prefix_ok_inv in Henc as (body & Hbody & ->).
    rewrite all_bytes_app, (enc_int_bytes _ _ _ _ Hn), (pick_eb get subs IH _ _ _ Hp Hbody).
    reflexivity.
Qed.

(* ================================================================== *)
(* 6. encode_total                                                     *)
(* ================================================================== *)

Definition ET (get : Z -> option Z) (t : tree) : Prop :=
  forall v, wt get t v = true -> exists bs, encode t v = Ok bs.

Lemma seq_et : forall get sub,
  (forall v, wt get sub v = true -> exists bs, encode sub v = Ok bs) ->
  forall l, forallb (wt get sub) l = true -> exists body, enc_seq (encode sub) l = Ok body.
Proof.
  intros get sub IH l. induction l as [|x l IHl]; intros Hwt.
  - exists []. reflexivity.
  - cbn [forallb] in Hwt. apply andb_true_iff in Hwt as [Hx Hl].
    destruct (IH x Hx) as [a Ha]. destruct (IHl Hl) as [b Hb].
    exists (a ++ b). cbn [enc_seq]. rewrite Ha. cbn [bind].
    change (bind (enc_seq (encode sub) l) (fun b0 => Ok (a ++ b0)) = Ok (a ++ b)).
    rewrite Hb. reflexivity.
Qed.

Lemma map_et : forall get kt vt,
  (forall v, wt get kt v = true -> exists bs, encode kt v = Ok bs) ->
  (forall v, wt get vt v = true -> exists bs, encode vt v = Ok bs) ->
  forall l, forallb (fun p => wt get kt (fst p) && wt get vt (snd p)) l = true ->
            exists body, enc_map (encode kt) (encode vt) l = Ok body.
Proof.
  intros get kt vt IHk IHv l. induction l as [|[k x] l IHl]; intros Hwt.
  - exists []. reflexivity.
  - cbn [forallb fst snd] in Hwt.
    apply andb_true_iff in Hwt as [Hkx Hl]. apply andb_true_iff in Hkx as [Hk Hx].
    destruct (IHk k Hk) as [a Ha]. destruct (IHv x Hx) as [b Hb]. destruct (IHl Hl) as [c Hc].
    exists (a ++ b ++ c). cbn [enc_map]. rewrite Ha. cbn [bind]. rewrite Hb. cbn [bind].
    change (bind (enc_map (encode kt) (encode vt) l) (fun c0 => Ok (a ++ b ++ c0)) = Ok (a ++ b ++ c)).
    rewrite Hc. reflexivity.
Qed.

Lemma tup_et : forall get subs, Forall (ET get) subs ->
  forall l, wt_tup (wt get) subs l = true -> exists body, enc_tup encode subs l = Ok body.
Proof.
  intros get subs HF. induction HF as [|s subs IH HF IHs]; intros l Hwt.
  - exists []. destruct l; reflexivity.
  - destruct l as [|x l].
    + exists []. reflexivity.
    + cbn [wt_tup] in Hwt. apply andb_true_iff in Hwt as [Hx Hl].
      destruct (IH x Hx) as [a Ha]. destruct (IHs l Hl) as [b Hb].
      exists (a ++ b). cbn [enc_tup]. rewrite Ha. cbn [bind].
      change (bind (enc_tup encode subs l) (fun b0 => Ok (a ++ b0)) = Ok (a ++ b)).
      rewrite Hb. reflexivity.
Qed.

Lemma pick_et : forall get subs, Forall (ET get) subs ->
  forall k x, wt_pick (wt get) x subs k = true -> exists body, enc_pick encode x subs k = Ok body.
Proof.
  intros get subs HF. induction HF as [|s subs IH HF IHs]; intros k x Hwt.
  - discriminate.
  - cbn [wt_pick enc_pick] in *. destruct (k =? 0).
    + exact (IH x Hwt).
    + exact (IHs (k - 1) x Hwt).
Qed.

(* every value of the domain encodes *)
Theorem encode_total : forall get t v, wt get t v = true -> exists bs, encode t v = Ok bs.
Proof.
  intros get t. change (ET get t).
  induction t as [nm subs IH] using tree_ind'.
  intros v Hwt.
  rewrite wt_unfold in Hwt. rewrite encode_unfold.
  destruct (lookup_codec spec_table nm) as [k|]; [|discriminate].
  destruct k; cbn [wt_k encode_k] in *.
  - (* CInt *)
    destruct v; try discriminate.
    apply andb_true_iff in Hwt as [Hs Hr]. rewrite Hs.
    rewrite (enc_int_ok _ _ _ Hr). eexists; reflexivity.
  - (* CBool *)
    destruct v; try discriminate. rewrite Hwt. eexists; reflexivity.
  - (* CF32 *)
    destruct v; try discriminate.
    apply andb_true_iff in Hwt as [Hs Hr]. rewrite Hs.
    destruct (round32 bits) as [r|e]; [|discriminate]. cbn [bind]. eexists; reflexivity.
  - (* CF64 *)
    destruct v; try discriminate.
    apply andb_true_iff in Hwt as [Hs Hr]. rewrite Hs. eexists; reflexivity.
  - (* CStr *)
    destruct v; try discriminate.
    apply andb_true_iff in Hwt as [Hwt Hlen]. apply andb_true_iff in Hwt as [Hs Hsc].
    rewrite Hs. cbv zeta. rewrite u64_in_range in Hlen.
    rewrite (enc_int_ok _ _ _ Hlen). cbn [bind]. eexists; reflexivity.
  - (* CUuid *)
    apply andb_true_iff in Hwt as [Hs Hu]. rewrite Hs.
    destruct (wt_uuid_enc get v Hu) as (u & He & _). rewrite He. eexists; reflexivity.
  - (* COffset *)
    destruct v; try discriminate.
    apply andb_true_iff in Hwt as [Hwt Hd]. apply andb_true_iff in Hwt as [Hs Hu].
    rewrite Hs. destruct (wt_uuid_enc get v Hu) as (u & He & _). rewrite He. cbn [bind].
    rewrite u64_in_range in Hd. rewrite (enc_int_ok _ _ _ Hd). cbn [bind]. eexists; reflexivity.
  - (* CSeq *)
    destruct v; try discriminate.
    destruct subs as [|sub [|? ?]]; try discriminate.
    apply andb_true_iff in Hwt as [Hlen Hall].
    rewrite u64_in_range in Hlen. rewrite (enc_int_ok _ _ _ Hlen). cbn [bind].
    inversion IH as [|? ? IHsub _]; subst.
    destruct (seq_et get sub IHsub l Hall) as [body ->]. cbn [prefix]. eexists; reflexivity.
  - (* CSet *)
    destruct v; try discriminate.
    destruct subs as [|sub [|? ?]]; try discriminate.
    apply andb_true_iff in Hwt as [Hwt Hnd]. apply andb_true_iff in Hwt as [Hlen Hall].
    cbn [items_of].
    rewrite u64_in_range in Hlen. rewrite (enc_int_ok _ _ _ Hlen). cbn [bind].
    inversion IH as [|? ? IHsub _]; subst.
    destruct (seq_et get sub IHsub l Hall) as [body ->]. cbn [prefix]. eexists; reflexivity.
  - (* CMap *)
    destruct v; try discriminate.
    destruct subs as [|kt [|vt [|? ?]]]; try discriminate.
    apply andb_true_iff in Hwt as [Hwt Hnd]. apply andb_true_iff in Hwt as [Hlen Hall].
    rewrite u64_in_range in Hlen. rewrite (enc_int_ok _ _ _ Hlen). cbn [bind].
    inversion IH as [|? ? IHk IH']; subst. inversion IH' as [|? ? IHv _]; subst.
    destruct (map_et get kt vt IHk IHv l Hall) as [body ->]. cbn [prefix].
    eexists; reflexivity.
  - (* CTuple *)
    destruct v; try discriminate.
    apply andb_true_iff in Hwt as [Hlen Hall].
    cbn [items_of]. rewrite Hlen.
    exact (tup_et get subs IH l Hall).
  - (* CVariant *)
    destruct v; try discriminate.
    apply andb_true_iff in Hwt as [Hwt Hp]. apply andb_true_iff in Hwt as [Hr Hi].
    rewrite u64_in_range in Hr.
    rewrite (enc_int_ok _ _ _ Hr). cbn [bind].
    destruct (pick_et get subs IH _ _ Hp) as [body ->]. cbn [prefix]. eexists; reflexivity.
Qed.

