(* Foundations for SetOpsProofs.v: upd / list / dict lemmas, congruence of the derived accessors under pointwise-equal maps,
   the ancestor view of subtree / ir_of, and the abstract detach / attach steps with the preservation
   of Forest and CacheInv. *)
From Coq Require Import ZArith List Bool Lia Arith.
From V Require Import Result LazyTree World WorldGuard ForestDefs InvDefs.
Import ListNotations.
Open Scope Z_scope.

(* ---------- upd ---------- *)

Lemma upd_same {X} (f : id -> X) k v : upd f k v k = v.
Proof. unfold upd. rewrite Z.eqb_refl. reflexivity. Qed.

Lemma upd_other {X} (f : id -> X) k v x : x <> k -> upd f k v x = f x.
Proof. intro H. unfold upd. destruct (Z.eqb_spec x k) as [E|E]; [contradiction|reflexivity]. Qed.

(* ---------- mem / remove_id / NoDup ---------- *)

Lemma mem_In x l : mem x l = true <-> In x l.
Proof.
  unfold mem. rewrite existsb_exists. split.
  - intros [y [Hy E]]. apply Z.eqb_eq in E. subst y. exact Hy.
  - intro H. exists x. split; [exact H|apply Z.eqb_refl].
Qed.

Lemma mem_false x l : mem x l = false <-> ~ In x l.
Proof.
  rewrite <- mem_In. destruct (mem x l); split; intro H.
  - discriminate.
  - exfalso. apply H. reflexivity.
  - intro H'. discriminate.
  - reflexivity.
Qed.

Lemma remove_id_In x c l : In x (remove_id c l) <-> In x l /\ x <> c.
Proof.
  unfold remove_id. rewrite filter_In. split; intros [H1 H2]; split; try exact H1.
  - intro E. subst x. rewrite Z.eqb_refl in H2. discriminate.
  - destruct (Z.eqb_spec x c) as [E|E]; [contradiction|reflexivity].
Qed.

Lemma remove_id_notin c l : ~ In c l -> remove_id c l = l.
Proof.
  induction l as [|y l IH]; intro H; [reflexivity|].
  cbn [remove_id filter]. destruct (Z.eqb_spec y c) as [E|E].
  - exfalso. apply H. left. exact E.
  - cbn [negb]. f_equal. apply IH. intro H'. apply H. right. exact H'.
Qed.

Lemma NoDup_filter' {A} (f : A -> bool) l : NoDup l -> NoDup (filter f l).
Proof.
  induction 1 as [|x l Hx Hn IH]; cbn [filter]; [constructor|].
  destruct (f x); [|exact IH]. constructor; [|exact IH].
  intro H. apply filter_In in H. apply Hx. apply H.
Qed.

Lemma NoDup_remove_id c l : NoDup l -> NoDup (remove_id c l).
Proof. apply NoDup_filter'. Qed.

Lemma NoDup_snoc {A} (x : A) l : NoDup l -> ~ In x l -> NoDup (l ++ [x]).
Proof.
  induction 1 as [|y l Hy Hn IH]; intro Hx; cbn [app].
  - constructor; [intros []|constructor].
  - constructor.
    + rewrite in_app_iff. intros [H|[H|[]]]; [exact (Hy H)|]. subst y. apply Hx. left. reflexivity.
    + apply IH. intro H. apply Hx. right. exact H.
Qed.

Lemma fold_left_ext {A B} (f g : A -> B -> A) (H : forall a b, f a b = g a b) l :
  forall a, fold_left f l a = fold_left g l a.
Proof. induction l as [|x l IH]; intro a; cbn [fold_left]; [reflexivity|]. rewrite H. apply IH. Qed.

Lemma fold_left_ext_in {A B} (f g : A -> B -> A) l :
  (forall a b, In b l -> f a b = g a b) -> forall a, fold_left f l a = fold_left g l a.
Proof.
  induction l as [|x l IH]; intros H a; cbn [fold_left]; [reflexivity|].
  rewrite H by (left; reflexivity). apply IH. intros a' b Hb. apply H. right. exact Hb.
Qed.

(* ---------- dictionaries keyed by Z ---------- *)

Lemma dict_get_del (k u : Z) {V} (d : list (Z * V)) :
  dict_get Z.eqb u (dict_del Z.eqb k d) = if u =? k then None else dict_get Z.eqb u d.
Proof.
  induction d as [|[k' v'] d IH]; cbn [dict_del filter dict_get fst].
  - destruct (u =? k); reflexivity.
  - fold (dict_del Z.eqb k d). destruct (Z.eqb_spec k' k) as [E|E]; cbn [negb].
    + rewrite IH. subst k'. destruct (Z.eqb_spec u k) as [E2|E2]; [reflexivity|].
      destruct (Z.eqb_spec k u) as [E3|E3]; [congruence|reflexivity].
    + cbn [dict_get]. rewrite IH. destruct (Z.eqb_spec k' u) as [E2|E2]; [|reflexivity].
      subst k'. destruct (Z.eqb_spec u k) as [E3|E3]; [congruence|reflexivity].
Qed.

Lemma dict_get_set (k u : Z) {V} (v : V) (d : list (Z * V)) :
  dict_get Z.eqb u (dict_set Z.eqb k v d) = if u =? k then Some v else dict_get Z.eqb u d.
Proof.
  induction d as [|[k' v'] d IH]; cbn [dict_set dict_get].
  - destruct (Z.eqb_spec k u) as [E|E]; destruct (Z.eqb_spec u k) as [E2|E2]; try reflexivity; congruence.
  - destruct (Z.eqb_spec k' k) as [E|E]; cbn [dict_get].
    + subst k'. destruct (Z.eqb_spec k u) as [E|E]; destruct (Z.eqb_spec u k) as [E2|E2]; try reflexivity; congruence.
    + rewrite IH. destruct (Z.eqb_spec k' u) as [E2|E2]; [|reflexivity].
      destruct (Z.eqb_spec u k) as [E3|E3]; [congruence|reflexivity].
Qed.

Lemma keys_dict_del (k : Z) {V} (d : list (Z * V)) :
  map fst (dict_del Z.eqb k d) = filter (fun x => negb (x =? k)) (map fst d).
Proof.
  induction d as [|[k' v'] d IH]; [reflexivity|].
  cbn [dict_del filter map fst]. fold (dict_del Z.eqb k d).
  destruct (k' =? k); cbn [negb map fst]; rewrite IH; reflexivity.
Qed.

Lemma NoDup_keys_del (k : Z) {V} (d : list (Z * V)) : NoDup (map fst d) -> NoDup (map fst (dict_del Z.eqb k d)).
Proof. intro H. rewrite keys_dict_del. apply NoDup_filter'. exact H. Qed.

Lemma keys_dict_set_In (k x : Z) {V} (v : V) (d : list (Z * V)) :
  In x (map fst (dict_set Z.eqb k v d)) <-> In x (map fst d) \/ x = k.
Proof.
  induction d as [|[k' v'] d IH]; cbn [dict_set map fst].
  - cbn [In]. split; [intros [H|[]]; right; congruence|intros [[]|H]; left; congruence].
  - destruct (Z.eqb_spec k' k) as [E|E]; cbn [map fst In].
    + subst k'. split; [intro H; left; exact H|intros [H|H]; [exact H|left; congruence]].
    + rewrite IH. tauto.
Qed.

Lemma NoDup_keys_set (k : Z) {V} (v : V) (d : list (Z * V)) : NoDup (map fst d) -> NoDup (map fst (dict_set Z.eqb k v d)).
Proof.
  induction d as [|[k' v'] d IH]; cbn [dict_set map fst]; intro H.
  - constructor; [intros []|constructor].
  - inversion H as [|a l Ha Hl]; subst. destruct (Z.eqb_spec k' k) as [E|E]; cbn [map fst].
    + constructor; assumption.
    + constructor; [|apply IH; exact Hl]. rewrite keys_dict_set_In. intros [H1|H1]; [exact (Ha H1)|congruence].
Qed.

Lemma dict_get_fold_del {V} (us : list Z) : forall (d : list (Z * V)) u,
  dict_get Z.eqb u (fold_left (fun d u => dict_del Z.eqb u d) us d) = if mem u us then None else dict_get Z.eqb u d.
Proof.
  induction us as [|k us IH]; intros d u; cbn [fold_left]; [reflexivity|].
  rewrite IH. rewrite dict_get_del. unfold mem. cbn [existsb].
  destruct (existsb (Z.eqb u) us); [rewrite orb_true_r; reflexivity|]. rewrite orb_false_r. reflexivity.
Qed.

Lemma NoDup_keys_fold_del {V} (us : list Z) : forall (d : list (Z * V)),
  NoDup (map fst d) -> NoDup (map fst (fold_left (fun d u => dict_del Z.eqb u d) us d)).
Proof.
  induction us as [|k us IH]; intros d H; cbn [fold_left]; [exact H|]. apply IH. apply NoDup_keys_del. exact H.
Qed.

Lemma NoDup_keys_fold_set {V} (g : V -> Z) (xs : list V) : forall (d : list (Z * V)),
  NoDup (map fst d) -> NoDup (map fst (fold_left (fun d x => dict_set Z.eqb (g x) x d) xs d)).
Proof.
  induction xs as [|x xs IH]; intros d H; cbn [fold_left]; [exact H|]. apply IH. apply NoDup_keys_set. exact H.
Qed.

Lemma dict_get_fold_set (g : id -> Z) (xs : list id) :
  (forall a b, In a xs -> In b xs -> g a = g b -> a = b) ->
  forall (d : list (Z * id)) u n,
  dict_get Z.eqb u (fold_left (fun d x => dict_set Z.eqb (g x) x d) xs d) = Some n <->
  (In n xs /\ g n = u) \/ (~ In u (map g xs) /\ dict_get Z.eqb u d = Some n).
Proof.
  induction xs as [|x xs IH]; intros Hinj d u n; cbn [fold_left].
  - cbn [In map]. tauto.
  - rewrite IH by (intros a b Ha Hb; apply Hinj; right; assumption).
    rewrite dict_get_set. cbn [In map]. destruct (Z.eqb_spec u (g x)) as [E|E].
    + split.
      * intros [[H1 H2]|[H1 H2]]; [left; tauto|]. injection H2 as H2. subst n. left. split; [left; reflexivity|congruence].
      * intros [[[H1|H1] H2]|[H1 H2]].
        -- subst n. destruct (in_dec Z.eq_dec u (map g xs)) as [Hin|Hin].
           ++ left. apply in_map_iff in Hin. destruct Hin as [m [Hm1 Hm2]].
              assert (m = x) as Hmx. { apply Hinj; [right; exact Hm2|left; reflexivity|congruence]. }
              subst m. tauto.
           ++ right. tauto.
        -- left. tauto.
        -- exfalso. apply H1. left. congruence.
    + split.
      * intros [[H1 H2]|[H1 H2]]; [left; tauto|]. right. split; [|exact H2]. intros [H3|H3]; [congruence|exact (H1 H3)].
      * intros [[[H1|H1] H2]|[H1 H2]]; [subst n; congruence|left; tauto|right; tauto].
Qed.

Lemma dict_has_get {V} u (d : list (Z * V)) v : dict_get Z.eqb u d = Some v -> dict_has Z.eqb u d = true.
Proof. unfold dict_has. intro H. rewrite H. reflexivity. Qed.

(* ---------- accessors under pointwise-equal node maps ---------- *)

Lemma getn_ext w w' x : nodes w' x = nodes w x -> getn w' x = getn w x.
Proof. intro H. unfold getn. rewrite H. reflexivity. Qed.

Lemma has_ext w w' x : nodes w' x = nodes w x -> has w' x = has w x.
Proof. intro H. unfold has. rewrite H. reflexivity. Qed.

Lemma kindof_ext w w' x : nodes w' x = nodes w x -> kindof w' x = kindof w x.
Proof. intro H. unfold kindof. rewrite (getn_ext _ _ _ H). reflexivity. Qed.

Lemma par_ext w w' x : nodes w' x = nodes w x -> par w' x = par w x.
Proof. intro H. unfold par. rewrite (getn_ext _ _ _ H). reflexivity. Qed.

(* ---------- kinds: the layering ---------- *)

Definition rank (k : kind) : nat :=
  match k with KIR => 0 | KMod => 1 | KSec | KSym | KProxy => 2 | KBI => 3 | KCode | KData => 4 end%nat.

Lemma parent_kind_rank k k' : parent_kind k = Some k' -> rank k = S (rank k').
Proof. destruct k; cbn [parent_kind]; intro H; inversion H; subst; reflexivity. Qed.

Lemma rank_le4 k : (rank k <= 4)%nat.
Proof. destruct k; cbn [rank]; lia. Qed.

Lemma kind_eqb_eq a b : kind_eqb a b = true <-> a = b.
Proof. destruct a; destruct b; cbn [kind_eqb]; split; intro H; try reflexivity; try discriminate. Qed.

(* ---------- ancestors ---------- *)

Fixpoint up (w : world) (n : id) (k : nat) : option id :=
  match k with O => Some n | S k' => bind_o (par w n) (fun m => up w m k') end.

Lemma up_S w n k : up w n (S k) = bind_o (par w n) (fun m => up w m k).
Proof. reflexivity. Qed.

Lemma up_snoc w k : forall n, up w n (S k) = bind_o (up w n k) (par w).
Proof.
  induction k as [|k IH]; intro n.
  - cbn [up bind_o]. destruct (par w n); reflexivity.
  - rewrite (up_S w n (S k)). rewrite (up_S w n k).
    destruct (par w n) as [m|]; cbn [bind_o]; [apply IH|reflexivity].
Qed.

Lemma up_add w j k : forall n, up w n (j + k) = bind_o (up w n j) (fun m => up w m k).
Proof.
  induction j as [|j IH]; intro n; [reflexivity|].
  cbn [Nat.add]. rewrite !up_S. destruct (par w n) as [m|]; cbn [bind_o]; [apply IH|reflexivity].
Qed.

Fixpoint subn (w : world) (j : nat) (n : id) : list id :=
  match j with O => sub1 w n | S j' => n :: flat_map (subn w j') (kids w n) end.

Lemma subtree_subn w n : subtree w n = subn w 3 n.
Proof. reflexivity. Qed.

Definition TwoEnded (w : world) : Prop := forall p c, In c (kids w p) <-> par w c = Some p.

Lemma subn_iff w (H2 : TwoEnded w) j : forall c n,
  In n (subn w j c) <-> exists k, (k <= S j)%nat /\ up w n k = Some c.
Proof.
  induction j as [|j IH]; intros c n.
  - cbn [subn]. unfold sub1. cbn [In]. rewrite (H2 c n). split.
    + intros [H|H].
      * exists 0%nat. split; [lia|]. cbn [up]. congruence.
      * exists 1%nat. split; [lia|]. cbn [up]. rewrite H. reflexivity.
    + intros [k [Hk Hu]]. destruct k as [|[|k]]; [| |lia].
      * cbn [up] in Hu. left. congruence.
      * cbn [up] in Hu. right. destruct (par w n) as [m|]; cbn [bind_o] in Hu; congruence.
  - cbn [subn In]. rewrite in_flat_map. split.
    + intros [H|[m [Hm Hn]]].
      * exists 0%nat. split; [lia|]. cbn [up]. congruence.
      * apply H2 in Hm. apply IH in Hn. destruct Hn as [k [Hk Hu]].
        exists (S k). split; [lia|]. rewrite up_snoc. rewrite Hu. exact Hm.
    + intros [k [Hk Hu]]. destruct k as [|k].
      * cbn [up] in Hu. left. congruence.
      * right. rewrite up_snoc in Hu. destruct (up w n k) as [m|] eqn:Em; cbn [bind_o] in Hu; [|discriminate].
        exists m. split; [apply H2; exact Hu|]. apply IH. exists k. split; [lia|exact Em].
Qed.

Lemma subtree_iff w (H2 : TwoEnded w) c n :
  In n (subtree w c) <-> exists k, (k <= 4)%nat /\ up w n k = Some c.
Proof. rewrite subtree_subn. apply subn_iff. exact H2. Qed.

Definition KindOK (w : world) : Prop :=
  forall p c, par w c = Some p -> has w c = true /\ has w p = true /\ parent_kind (kindof w c) = Some (kindof w p).

Lemma up_rank w (HK : KindOK w) k : forall n c, up w n k = Some c -> rank (kindof w n) = (k + rank (kindof w c))%nat.
Proof.
  induction k as [|k IH]; intros n c H.
  - cbn [up] in H. injection H as H. subst c. reflexivity.
  - rewrite up_S in H. destruct (par w n) as [m|] eqn:Em; cbn [bind_o] in H; [|discriminate].
    apply IH in H. destruct (HK _ _ Em) as [_ [_ Hp]]. apply parent_kind_rank in Hp. lia.
Qed.

Lemma up_has w (HK : KindOK w) k : forall n c, up w n k = Some c -> has w c = true -> has w n = true.
Proof.
  induction k as [|k IH]; intros n c H Hc.
  - cbn [up] in H. congruence.
  - rewrite up_S in H. destruct (par w n) as [m|] eqn:Em; cbn [bind_o] in H; [|discriminate].
    destruct (HK _ _ Em) as [Hn _]. exact Hn.
Qed.

Lemma ir_of_up w n : ir_of w n = match rank (kindof w n) with O => None | r => up w n r end.
Proof.
  unfold ir_of. destruct (kindof w n); cbn [rank up]; try reflexivity;
  (destruct (par w n) as [a|]; cbn [bind_o]; [|reflexivity]); try reflexivity;
  (destruct (par w a) as [b|]; cbn [bind_o]; [|reflexivity]); try reflexivity;
  (destruct (par w b) as [c|]; cbn [bind_o]; [|reflexivity]); try reflexivity;
  (destruct (par w c) as [d|]; cbn [bind_o]; reflexivity).
Qed.

(* reach: the nodes of an IR's subtree are the IR and the nodes whose .ir is that IR *)
Lemma reach_iff w (H2 : TwoEnded w) (HK : KindOK w) ir n :
  kindof w ir = KIR -> (In n (subtree w ir) <-> n = ir \/ ir_of w n = Some ir).
Proof.
  intro Hir. rewrite (subtree_iff w H2). rewrite ir_of_up. split.
  - intros [k [Hk Hu]]. pose proof (up_rank w HK _ _ _ Hu) as Hr. rewrite Hir in Hr. cbn [rank] in Hr.
    rewrite Nat.add_0_r in Hr. rewrite Hr. destruct k as [|k]; [left; cbn [up] in Hu; congruence|right; exact Hu].
  - intros [H|H].
    + exists 0%nat. split; [lia|]. cbn [up]. congruence.
    + pose proof (rank_le4 (kindof w n)) as Hle. destruct (rank (kindof w n)) as [|r]; [discriminate|].
      exists (S r). split; [exact Hle|exact H].
Qed.

(* everything below a non-IR node has that node's IR *)
Lemma ir_of_below w (H2 : TwoEnded w) (HK : KindOK w) c n :
  In n (subtree w c) -> kindof w c <> KIR -> ir_of w n = ir_of w c.
Proof.
  intros Hin Hc. apply (subtree_iff w H2) in Hin. destruct Hin as [k [Hk Hu]].
  pose proof (up_rank w HK _ _ _ Hu) as Hr. rewrite !ir_of_up. rewrite Hr.
  destruct (rank (kindof w c)) as [|r] eqn:Er.
  - exfalso. apply Hc. destruct (kindof w c); cbn [rank] in Er; try discriminate. reflexivity.
  - replace (k + S r)%nat with (S (k + r)) by lia. rewrite <- Nat.add_succ_r. rewrite up_add. rewrite Hu. reflexivity.
Qed.

(* ---------- changing the parent pointer of one node ---------- *)

Definition Reparent (w : world) (c : id) (q : option id) (w' : world) : Prop :=
  forall x, nodes w' x = upd (nodes w) c (Some (with_par (getn w c) q)) x.

Lemma rp_getn_same w c q w' : Reparent w c q w' -> getn w' c = with_par (getn w c) q.
Proof. intro H. unfold getn at 1. rewrite H. rewrite upd_same. reflexivity. Qed.

Lemma rp_getn_other w c q w' x : Reparent w c q w' -> x <> c -> getn w' x = getn w x.
Proof. intros H Hx. apply getn_ext. rewrite H. apply upd_other. exact Hx. Qed.

Lemma rp_has w c q w' x : Reparent w c q w' -> has w c = true -> has w' x = has w x.
Proof.
  intros H Hc. destruct (Z.eq_dec x c) as [E|E].
  - subst x. rewrite Hc. unfold has. rewrite H. rewrite upd_same. reflexivity.
  - apply has_ext. rewrite H. apply upd_other. exact E.
Qed.

Lemma rp_kind w c q w' x : Reparent w c q w' -> kindof w' x = kindof w x.
Proof.
  intro H. unfold kindof. destruct (Z.eq_dec x c) as [E|E].
  - subst x. rewrite (rp_getn_same _ _ _ _ H). reflexivity.
  - rewrite (rp_getn_other _ _ _ _ _ H E). reflexivity.
Qed.

Lemma rp_uuid w c q w' x : Reparent w c q w' -> nuuid (getn w' x) = nuuid (getn w x).
Proof.
  intro H. destruct (Z.eq_dec x c) as [E|E].
  - subst x. rewrite (rp_getn_same _ _ _ _ H). reflexivity.
  - rewrite (rp_getn_other _ _ _ _ _ H E). reflexivity.
Qed.

Lemma rp_par_same w c q w' : Reparent w c q w' -> par w' c = q.
Proof. intro H. unfold par. rewrite (rp_getn_same _ _ _ _ H). reflexivity. Qed.

Lemma rp_par_other w c q w' x : Reparent w c q w' -> x <> c -> par w' x = par w x.
Proof. intros H Hx. unfold par. rewrite (rp_getn_other _ _ _ _ _ H Hx). reflexivity. Qed.

Lemma up_frame w w' c : (forall x, x <> c -> par w' x = par w x) ->
  forall k n, (forall j, (j < k)%nat -> up w n j <> Some c) -> up w' n k = up w n k.
Proof.
  intro Hp. induction k as [|k IH]; intros n Hj; [reflexivity|].
  rewrite !up_S. assert (n <> c) as Hn.
  { intro E. apply (Hj 0%nat); [lia|]. cbn [up]. congruence. }
  rewrite (Hp _ Hn). destruct (par w n) as [m|] eqn:Em; cbn [bind_o]; [|reflexivity].
  apply IH. intros j Hlt. specialize (Hj (S j)). rewrite up_S in Hj. rewrite Em in Hj. cbn [bind_o] in Hj.
  apply Hj. lia.
Qed.

Lemma up_unique w (HK : KindOK w) n c j j' : up w n j = Some c -> up w n j' = Some c -> j = j'.
Proof. intros H1 H2. apply (up_rank w HK) in H1. apply (up_rank w HK) in H2. lia. Qed.

Lemma ir_of_rp_out w (H2 : TwoEnded w) c q w' n :
  Reparent w c q w' -> ~ In n (subtree w c) -> ir_of w' n = ir_of w n.
Proof.
  intros Hr Hn. rewrite !ir_of_up. rewrite (rp_kind _ _ _ _ n Hr).
  pose proof (rank_le4 (kindof w n)) as Hle. destruct (rank (kindof w n)) as [|r]; [reflexivity|].
  apply (up_frame w w' c).
  - intros x Hx. apply (rp_par_other _ _ _ _ _ Hr Hx).
  - intros j Hj Hu. apply Hn. apply (subtree_iff w H2). exists j. split; [lia|exact Hu].
Qed.

Lemma ir_of_rp_in w (H2 : TwoEnded w) (HK : KindOK w) c q w' n r :
  Reparent w c q w' -> In n (subtree w c) -> rank (kindof w c) = S r ->
  ir_of w' n = bind_o q (fun m => up w' m r).
Proof.
  intros Hr Hin Hrk. apply (subtree_iff w H2) in Hin. destruct Hin as [k [Hk Hu]].
  pose proof (up_rank w HK _ _ _ Hu) as Hrn. rewrite ir_of_up. rewrite (rp_kind _ _ _ _ n Hr).
  rewrite Hrn. rewrite Hrk. replace (k + S r)%nat with (S (k + r)) by lia. rewrite <- Nat.add_succ_r.
  rewrite up_add. assert (up w' n k = Some c) as Hu'.
  { rewrite <- Hu. apply (up_frame w w' c).
    - intros x Hx. apply (rp_par_other _ _ _ _ _ Hr Hx).
    - intros j Hj Hu2. pose proof (up_unique w HK _ _ _ _ Hu Hu2). lia. }
  rewrite Hu'. cbn [bind_o]. rewrite up_S. rewrite (rp_par_same _ _ _ _ Hr). reflexivity.
Qed.

(* subtree depends on kids only *)
Lemma subn_ext w w' j : (forall x, kids w' x = kids w x) -> forall n, subn w' j n = subn w j n.
Proof.
  intro Hk. induction j as [|j IH]; intro n; cbn [subn].
  - unfold sub1. rewrite Hk. reflexivity.
  - rewrite Hk. f_equal. apply flat_map_ext. exact IH.
Qed.

Lemma subtree_ext w w' n : (forall x, kids w' x = kids w x) -> subtree w' n = subtree w n.
Proof. intro Hk. rewrite !subtree_subn. apply subn_ext. exact Hk. Qed.

Lemma forest_two_ended w known : Forest w known -> TwoEnded w.
Proof. intros Hf p c. apply (f_two_ended _ _ Hf). Qed.

Lemma forest_kind_ok w known : Forest w known -> KindOK w.
Proof. intros Hf p c. apply (f_kind _ _ Hf). Qed.

Lemma subtree_has w known c n : Forest w known -> has w c = true -> In n (subtree w c) -> has w n = true.
Proof.
  intros Hf Hc Hin. apply (subtree_iff w (forest_two_ended _ _ Hf)) in Hin. destruct Hin as [k [_ Hu]].
  apply (up_has w (forest_kind_ok _ _ Hf) _ _ _ Hu Hc).
Qed.

Lemma subtree_self w c : In c (subtree w c).
Proof. unfold subtree. left. reflexivity. Qed.

(* ---------- small Forest consequences ---------- *)

Lemma uuid_inj w known a b : Forest w known -> has w a = true -> has w b = true ->
  nuuid (getn w a) = nuuid (getn w b) -> a = b.
Proof.
  intros Hf Ha Hb. apply (f_uuid _ _ Hf); apply (f_known _ _ Hf); assumption.
Qed.

Lemma rank0_KIR k : rank k = 0%nat -> k = KIR.
Proof. destruct k; cbn [rank]; intro H; try discriminate; reflexivity. Qed.

Lemma ir_not_below w (H2 : TwoEnded w) (HK : KindOK w) ir c r :
  kindof w ir = KIR -> rank (kindof w c) = S r -> ~ In ir (subtree w c).
Proof.
  intros Hir Hrk Hin. apply (subtree_iff w H2) in Hin. destruct Hin as [k [_ Hu]].
  apply (up_rank w HK) in Hu. rewrite Hir in Hu. cbn [rank] in Hu. lia.
Qed.

Lemma ir_of_child w (HK : KindOK w) p c : par w c = Some p -> kindof w p <> KIR -> ir_of w c = ir_of w p.
Proof.
  intros Hpc Hp. destruct (HK _ _ Hpc) as [_ [_ Hpk]]. apply parent_kind_rank in Hpk.
  rewrite !ir_of_up. rewrite Hpk. destruct (rank (kindof w p)) as [|r] eqn:Er.
  - exfalso. apply Hp. apply rank0_KIR. exact Er.
  - rewrite up_S. rewrite Hpc. reflexivity.
Qed.

Lemma below_ir w (H2 : TwoEnded w) (HK : KindOK w) p c ir n :
  par w c = Some p -> kindof w p <> KIR -> kindof w ir = KIR ->
  In n (subtree w ir) -> In n (subtree w c) -> ir_of w p = Some ir.
Proof.
  intros Hpc Hp Hir Hn1 Hn2. destruct (HK _ _ Hpc) as [_ [_ Hpk]]. pose proof (parent_kind_rank _ _ Hpk) as Hrk.
  assert (kindof w c <> KIR) as Hck. { intro E. rewrite E in Hrk. cbn [rank] in Hrk. discriminate. }
  rewrite <- (ir_of_child w HK p c Hpc Hp). rewrite <- (ir_of_below w H2 HK c n Hn2 Hck).
  apply (reach_iff w H2 HK ir n Hir) in Hn1. destruct Hn1 as [E|E]; [|exact E].
  subst n. exfalso. exact (ir_not_below w H2 HK ir c _ Hir Hrk Hn2).
Qed.

(* ---------- the abstract detach step ---------- *)

Definition del_uuids (w : world) (c : id) (d : list (Z * id)) : list (Z * id) :=
  fold_left (fun d u => dict_del Z.eqb u d) (map (fun y => nuuid (getn w y)) (subtree w c)) d.

Definition Detached (w : world) (p c : id) (w' : world) : Prop :=
  Reparent w c None w' /\
  (forall x, kids w' x = upd (kids w) p (remove_id c (kids w p)) x) /\
  (forall x, cache w' x = match ir_of w p with
                          | Some ir => upd (cache w) ir (del_uuids w c (cache w ir)) x
                          | None => cache w x
                          end).

Lemma detach_forest w known p c w' :
  Forest w known -> par w c = Some p -> Reparent w c None w' ->
  (forall x, kids w' x = upd (kids w) p (remove_id c (kids w p)) x) -> Forest w' known.
Proof.
  intros Hf Hpc Hr Hk. destruct (f_kind _ _ Hf _ _ Hpc) as [Hhc [Hhp Hpk]].
  constructor.
  - intro n. rewrite (rp_has _ _ _ _ n Hr Hhc). apply (f_known _ _ Hf).
  - intros q x. rewrite Hk. destruct (Z.eq_dec q p) as [E|E].
    + subst q. rewrite upd_same. rewrite remove_id_In. rewrite (f_two_ended _ _ Hf).
      destruct (Z.eq_dec x c) as [E2|E2].
      * subst x. rewrite (rp_par_same _ _ _ _ Hr). split; [intros [_ H]; congruence|intro H; discriminate H].
      * rewrite (rp_par_other _ _ _ _ _ Hr E2). tauto.
    + rewrite (upd_other _ _ _ _ E). rewrite (f_two_ended _ _ Hf). destruct (Z.eq_dec x c) as [E2|E2].
      * subst x. rewrite (rp_par_same _ _ _ _ Hr). rewrite Hpc. split; intro H; [congruence|discriminate H].
      * rewrite (rp_par_other _ _ _ _ _ Hr E2). tauto.
  - intro q. rewrite Hk. destruct (Z.eq_dec q p) as [E|E].
    + subst q. rewrite upd_same. apply NoDup_remove_id. apply (f_nodup _ _ Hf).
    + rewrite (upd_other _ _ _ _ E). apply (f_nodup _ _ Hf).
  - intros q x Hx. destruct (Z.eq_dec x c) as [E2|E2].
    + subst x. rewrite (rp_par_same _ _ _ _ Hr) in Hx. discriminate Hx.
    + rewrite (rp_par_other _ _ _ _ _ Hr E2) in Hx. rewrite !(rp_has _ _ _ _ _ Hr Hhc).
      rewrite !(rp_kind _ _ _ _ _ Hr). apply (f_kind _ _ Hf). exact Hx.
  - intros a b Ha Hb. rewrite !(rp_uuid _ _ _ _ _ Hr). apply (f_uuid _ _ Hf); assumption.
Qed.

Lemma detach_reach w known p c w' ir :
  Forest w known -> par w c = Some p -> Reparent w c None w' ->
  (forall x, kids w' x = upd (kids w) p (remove_id c (kids w p)) x) -> kindof w ir = KIR ->
  forall n, In n (subtree w' ir) <-> In n (subtree w ir) /\ ~ In n (subtree w c).
Proof.
  intros Hf Hpc Hr Hk Hkind n.
  pose proof (detach_forest _ _ _ _ _ Hf Hpc Hr Hk) as Hf'.
  pose proof (forest_two_ended _ _ Hf) as H2. pose proof (forest_kind_ok _ _ Hf) as HK.
  destruct (f_kind _ _ Hf _ _ Hpc) as [Hhc [Hhp Hpkind]].
  pose proof (parent_kind_rank _ _ Hpkind) as Hrk.
  assert (kindof w' ir = KIR) as Hkind' by (rewrite (rp_kind _ _ _ _ _ Hr); exact Hkind).
  rewrite (reach_iff w' (forest_two_ended _ _ Hf') (forest_kind_ok _ _ Hf') ir n Hkind').
  rewrite (reach_iff w H2 HK ir n Hkind).
  destruct (in_dec Z.eq_dec n (subtree w c)) as [Hin|Hin].
  - rewrite (ir_of_rp_in w H2 HK c None w' n _ Hr Hin Hrk). cbn [bind_o].
    split; [|tauto]. intros [E|E]; [|discriminate E]. subst n. exfalso.
    exact (ir_not_below w H2 HK ir c _ Hkind Hrk Hin).
  - rewrite (ir_of_rp_out w H2 c None w' n Hr Hin). tauto.
Qed.

Lemma detach_cache w known p c w' :
  Forest w known -> CacheInv w -> par w c = Some p -> kindof w p <> KIR ->
  Detached w p c w' -> CacheInv w'.
Proof.
  intros Hf Hc Hpc Hpk [Hr [Hk Hca]].
  pose proof (forest_two_ended _ _ Hf) as H2. pose proof (forest_kind_ok _ _ Hf) as HK.
  destruct (f_kind _ _ Hf _ _ Hpc) as [Hhc [Hhp Hpkind]].
  intros ir Hhas Hkind. rewrite (rp_has _ _ _ _ _ Hr Hhc) in Hhas. rewrite (rp_kind _ _ _ _ _ Hr) in Hkind.
  destruct (Hc ir Hhas Hkind) as [Hnd Hget]. unfold reach in *.
  pose proof (detach_reach _ _ _ _ _ ir Hf Hpc Hr Hk Hkind) as HA.
  assert (HC : forall n, In n (subtree w ir) -> In n (subtree w c) -> ir_of w p = Some ir).
  { intros n. apply (below_ir w H2 HK p c ir n Hpc Hpk Hkind). }
  assert (HS : forall n, In n (subtree w ir) -> has w n = true).
  { intros n. apply (subtree_has _ _ _ _ Hf Hhas). }
  assert (HSc : forall n, In n (subtree w c) -> has w n = true).
  { intros n. apply (subtree_has _ _ _ _ Hf Hhc). }
  rewrite Hca. destruct (ir_of w p) as [ir0|] eqn:Eir.
  - destruct (Z.eq_dec ir ir0) as [E|E].
    + subst ir0. rewrite upd_same. unfold del_uuids. split; [apply NoDup_keys_fold_del; exact Hnd|].
      intros u n. rewrite dict_get_fold_del. rewrite (rp_uuid _ _ _ _ _ Hr). rewrite HA.
      destruct (mem u (map (fun y => nuuid (getn w y)) (subtree w c))) eqn:Em.
      * split; [intro H; discriminate H|]. intros [[H1 H2'] H3]. exfalso. apply H2'.
        apply mem_In in Em. apply in_map_iff in Em. destruct Em as [m [Hm1 Hm2]].
        assert (m = n) as Hmn. { apply (uuid_inj _ _ _ _ Hf); [apply HSc; exact Hm2|apply HS; exact H1|congruence]. }
        subst m. exact Hm2.
      * rewrite Hget. split; [|tauto]. intros [H1 H3]. split; [|exact H3]. split; [exact H1|].
        intro Hin. apply mem_false in Em. apply Em. apply in_map_iff. exists n. split; [exact H3|exact Hin].
    + rewrite (upd_other _ _ _ _ E). split; [exact Hnd|]. intros u n. rewrite (rp_uuid _ _ _ _ _ Hr). rewrite HA.
      rewrite Hget. split; [|tauto]. intros [H1 H3]. split; [|exact H3]. split; [exact H1|].
      intro Hin. apply E. specialize (HC n H1 Hin). congruence.
  - split; [exact Hnd|]. intros u n. rewrite (rp_uuid _ _ _ _ _ Hr). rewrite HA.
    rewrite Hget. split; [|tauto]. intros [H1 H3]. split; [|exact H3]. split; [exact H1|].
    intro Hin. specialize (HC n H1 Hin). discriminate HC.
Qed.

(* the KeyError flag of the removal: every uuid below c is in the table of p's IR *)
Lemma detach_flag w known p c ir :
  Forest w known -> CacheInv w -> par w c = Some p -> kindof w p <> KIR -> ir_of w p = Some ir ->
  forallb (fun u => dict_has Z.eqb u (cache w ir)) (map (fun y => nuuid (getn w y)) (subtree w c)) = true.
Proof.
  intros Hf Hc Hpc Hpk Hir.
  pose proof (forest_two_ended _ _ Hf) as H2. pose proof (forest_kind_ok _ _ Hf) as HK.
  destruct (f_kind _ _ Hf _ _ Hpc) as [Hhc [Hhp Hpkind]]. pose proof (parent_kind_rank _ _ Hpkind) as Hrk.
  assert (kindof w c <> KIR) as Hck. { intro E. rewrite E in Hrk. cbn [rank] in Hrk. discriminate. }
  (* ir is an existing IR *)
  assert (has w ir = true /\ kindof w ir = KIR) as [Hhir Hkir].
  { rewrite ir_of_up in Hir. destruct (rank (kindof w p)) as [|r] eqn:Er; [discriminate Hir|].
    pose proof (up_rank w HK _ _ _ Hir) as Hr. split.
    - rewrite up_snoc in Hir. destruct (up w p r) as [m|]; cbn [bind_o] in Hir; [|discriminate Hir].
      apply (HK _ _ Hir).
    - apply rank0_KIR. lia. }
  destruct (Hc ir Hhir Hkir) as [_ Hget]. unfold reach in Hget.
  apply forallb_forall. intros u Hu. apply in_map_iff in Hu. destruct Hu as [n [Hn1 Hn2]].
  apply (dict_has_get u _ n). apply Hget. split; [|exact Hn1].
  apply (reach_iff w H2 HK ir n Hkir). right.
  rewrite (ir_of_below w H2 HK c n Hn2 Hck). rewrite (ir_of_child w HK p c Hpc Hpk). exact Hir.
Qed.

(* ---------- the abstract attach step ---------- *)

Definition add_uuids (w : world) (c : id) (d : list (Z * id)) : list (Z * id) :=
  fold_left (fun d y => dict_set Z.eqb (nuuid (getn w y)) y d) (subtree w c) d.

Definition Attached (w : world) (p c : id) (w' : world) : Prop :=
  Reparent w c (Some p) w' /\
  (forall x, kids w' x = upd (kids w) p (kids w p ++ [c]) x) /\
  (forall x, cache w' x = match ir_of w p with
                          | Some ir => upd (cache w) ir (add_uuids w c (cache w ir)) x
                          | None => cache w x
                          end).

Lemma attach_forest w known p c w' :
  Forest w known -> par w c = None -> has w c = true -> has w p = true ->
  parent_kind (kindof w c) = Some (kindof w p) ->
  Reparent w c (Some p) w' ->
  (forall x, kids w' x = upd (kids w) p (kids w p ++ [c]) x) -> Forest w' known.
Proof.
  intros Hf Hpc Hhc Hhp Hpk Hr Hk.
  assert (Hnot : forall q, ~ In c (kids w q)).
  { intros q H. apply (f_two_ended _ _ Hf) in H. congruence. }
  constructor.
  - intro n. rewrite (rp_has _ _ _ _ n Hr Hhc). apply (f_known _ _ Hf).
  - intros q x. rewrite Hk. destruct (Z.eq_dec q p) as [E|E].
    + subst q. rewrite upd_same. rewrite in_app_iff. cbn [In]. destruct (Z.eq_dec x c) as [E2|E2].
      * subst x. rewrite (rp_par_same _ _ _ _ Hr). split; [reflexivity|]. intros _. right. left. reflexivity.
      * rewrite (rp_par_other _ _ _ _ _ Hr E2). rewrite (f_two_ended _ _ Hf). split; [|tauto].
        intros [H|[H|[]]]; [exact H|congruence].
    + rewrite (upd_other _ _ _ _ E). destruct (Z.eq_dec x c) as [E2|E2].
      * subst x. rewrite (rp_par_same _ _ _ _ Hr). split; [intro H; exfalso; exact (Hnot q H)|intro H; congruence].
      * rewrite (rp_par_other _ _ _ _ _ Hr E2). apply (f_two_ended _ _ Hf).
  - intro q. rewrite Hk. destruct (Z.eq_dec q p) as [E|E].
    + subst q. rewrite upd_same. apply NoDup_snoc; [apply (f_nodup _ _ Hf)|apply Hnot].
    + rewrite (upd_other _ _ _ _ E). apply (f_nodup _ _ Hf).
  - intros q x Hx. rewrite !(rp_has _ _ _ _ _ Hr Hhc). rewrite !(rp_kind _ _ _ _ _ Hr).
    destruct (Z.eq_dec x c) as [E2|E2].
    + subst x. rewrite (rp_par_same _ _ _ _ Hr) in Hx. injection Hx as Hx. subst q. tauto.
    + rewrite (rp_par_other _ _ _ _ _ Hr E2) in Hx. apply (f_kind _ _ Hf). exact Hx.
  - intros a b Ha Hb. rewrite !(rp_uuid _ _ _ _ _ Hr). apply (f_uuid _ _ Hf); assumption.
Qed.

Lemma ir_of_orphan w c r : par w c = None -> rank (kindof w c) = S r -> ir_of w c = None.
Proof. intros Hp Hr. rewrite ir_of_up. rewrite Hr. rewrite up_S. rewrite Hp. reflexivity. Qed.

(* the IR of everything below c after attaching c to p *)
Lemma ir_of_attach_in w known p c w' n :
  Forest w known -> parent_kind (kindof w c) = Some (kindof w p) -> kindof w p <> KIR ->
  Reparent w c (Some p) w' -> In n (subtree w c) -> ir_of w' n = ir_of w p.
Proof.
  intros Hf Hpk Hp Hr Hin.
  pose proof (forest_two_ended _ _ Hf) as H2. pose proof (forest_kind_ok _ _ Hf) as HK.
  pose proof (parent_kind_rank _ _ Hpk) as Hrk.
  rewrite (ir_of_rp_in w H2 HK c (Some p) w' n _ Hr Hin Hrk). cbn [bind_o].
  rewrite ir_of_up. destruct (rank (kindof w p)) as [|r] eqn:Er.
  - exfalso. apply Hp. apply rank0_KIR. exact Er.
  - apply (up_frame w w' c).
    + intros x Hx. apply (rp_par_other _ _ _ _ _ Hr Hx).
    + intros j Hj Hu. apply (up_rank w HK) in Hu. lia.
Qed.

Lemma attach_reach w known p c w' ir :
  Forest w known -> par w c = None -> has w c = true -> has w p = true ->
  parent_kind (kindof w c) = Some (kindof w p) -> kindof w p <> KIR ->
  Reparent w c (Some p) w' ->
  (forall x, kids w' x = upd (kids w) p (kids w p ++ [c]) x) -> kindof w ir = KIR ->
  forall n, In n (subtree w' ir) <-> In n (subtree w ir) \/ (In n (subtree w c) /\ ir_of w p = Some ir).
Proof.
  intros Hf Hpc Hhc Hhp Hpk Hp Hr Hk Hkind n.
  pose proof (attach_forest _ _ _ _ _ Hf Hpc Hhc Hhp Hpk Hr Hk) as Hf'.
  pose proof (forest_two_ended _ _ Hf) as H2. pose proof (forest_kind_ok _ _ Hf) as HK.
  pose proof (parent_kind_rank _ _ Hpk) as Hrk.
  assert (kindof w c <> KIR) as Hck. { intro E. rewrite E in Hrk. cbn [rank] in Hrk. discriminate. }
  assert (kindof w' ir = KIR) as Hkind' by (rewrite (rp_kind _ _ _ _ _ Hr); exact Hkind).
  rewrite (reach_iff w' (forest_two_ended _ _ Hf') (forest_kind_ok _ _ Hf') ir n Hkind').
  rewrite (reach_iff w H2 HK ir n Hkind).
  destruct (in_dec Z.eq_dec n (subtree w c)) as [Hin|Hin].
  - rewrite (ir_of_attach_in _ _ _ _ _ _ Hf Hpk Hp Hr Hin).
    rewrite (ir_of_below w H2 HK c n Hin Hck). rewrite (ir_of_orphan w c _ Hpc Hrk).
    assert (n <> ir) as Hne. { intro E. subst n. exact (ir_not_below w H2 HK ir c _ Hkind Hrk Hin). }
    split; [intros [E|E]; [contradiction|right; tauto]|].
    intros [[E|E]|[_ E]]; [contradiction|discriminate E|right; exact E].
  - rewrite (ir_of_rp_out w H2 c (Some p) w' n Hr Hin). tauto.
Qed.

Lemma attach_cache w known p c w' :
  Forest w known -> CacheInv w -> par w c = None -> has w c = true -> has w p = true ->
  parent_kind (kindof w c) = Some (kindof w p) -> kindof w p <> KIR ->
  Attached w p c w' -> CacheInv w'.
Proof.
  intros Hf Hc Hpc Hhc Hhp Hpk Hp [Hr [Hk Hca]].
  intros ir Hhas Hkind. rewrite (rp_has _ _ _ _ _ Hr Hhc) in Hhas. rewrite (rp_kind _ _ _ _ _ Hr) in Hkind.
  destruct (Hc ir Hhas Hkind) as [Hnd Hget]. unfold reach in *.
  pose proof (attach_reach _ _ _ _ _ ir Hf Hpc Hhc Hhp Hpk Hp Hr Hk Hkind) as HA.
  assert (HS : forall n, In n (subtree w ir) -> has w n = true).
  { intros n. apply (subtree_has _ _ _ _ Hf Hhas). }
  assert (HSc : forall n, In n (subtree w c) -> has w n = true).
  { intros n. apply (subtree_has _ _ _ _ Hf Hhc). }
  rewrite Hca. destruct (ir_of w p) as [ir0|] eqn:Eir.
  - destruct (Z.eq_dec ir ir0) as [E|E].
    + subst ir0. rewrite upd_same. unfold add_uuids.
      split; [apply (NoDup_keys_fold_set (fun y => nuuid (getn w y))); exact Hnd|].
      intros u n. rewrite (rp_uuid _ _ _ _ _ Hr). rewrite HA.
      rewrite (dict_get_fold_set (fun y => nuuid (getn w y))).
      2:{ intros a b Ha Hb. apply (uuid_inj _ _ _ _ Hf); [apply HSc; exact Ha|apply HSc; exact Hb]. }
      rewrite Hget. split.
      * intros [[H1 H3]|[H1 [H3 H4]]]; [split; [right; split; [exact H1|reflexivity]|exact H3]|].
        split; [left; exact H3|exact H4].
      * intros [[H1|[H1 _]] H3]; [|left; tauto].
        destruct (in_dec Z.eq_dec n (subtree w c)) as [Hin|Hin]; [left; tauto|].
        right. split; [|tauto]. intro Hu. apply in_map_iff in Hu. destruct Hu as [m [Hm1 Hm2]].
        assert (m = n) as Hmn. { apply (uuid_inj _ _ _ _ Hf); [apply HSc; exact Hm2|apply HS; exact H1|congruence]. }
        subst m. exact (Hin Hm2).
    + rewrite (upd_other _ _ _ _ E). split; [exact Hnd|]. intros u n. rewrite (rp_uuid _ _ _ _ _ Hr). rewrite HA.
      rewrite Hget. split; [tauto|]. intros [[H1|[_ H1]] H3]; [tauto|]. exfalso. apply E. congruence.
  - split; [exact Hnd|]. intros u n. rewrite (rp_uuid _ _ _ _ _ Hr). rewrite HA.
    rewrite Hget. split; [tauto|]. intros [[H1|[_ H1]] H3]; [tauto|discriminate H1].
Qed.

(* ---------- worlds that agree on the ownership skeleton ---------- *)

Definition SameSkel (w w' : world) : Prop :=
  (forall x, kids w' x = kids w x) /\ (forall x, cache w' x = cache w x) /\
  (forall x, has w' x = has w x /\ nk (getn w' x) = nk (getn w x) /\
             nuuid (getn w' x) = nuuid (getn w x) /\ npar (getn w' x) = npar (getn w x)).

Lemma skel_refl w : SameSkel w w.
Proof. repeat split; reflexivity. Qed.

Lemma skel_trans w1 w2 w3 : SameSkel w1 w2 -> SameSkel w2 w3 -> SameSkel w1 w3.
Proof.
  intros [Hk1 [Hc1 Hn1]] [Hk2 [Hc2 Hn2]]. split; [|split].
  - intro x. rewrite Hk2. apply Hk1.
  - intro x. rewrite Hc2. apply Hc1.
  - intro x. destruct (Hn1 x) as [A1 [B1 [C1 D1]]]. destruct (Hn2 x) as [A2 [B2 [C2 D2]]].
    repeat split; congruence.
Qed.

Lemma skel_nodes w w' : (forall x, nodes w' x = nodes w x) -> kids w' = kids w -> cache w' = cache w -> SameSkel w w'.
Proof.
  intros Hn Hk Hc. split; [|split].
  - intro x. rewrite Hk. reflexivity.
  - intro x. rewrite Hc. reflexivity.
  - intro x. rewrite (has_ext _ _ _ (Hn x)). rewrite (getn_ext _ _ _ (Hn x)). repeat split; reflexivity.
Qed.

Lemma skel_forest w w' known : SameSkel w w' -> Forest w known -> Forest w' known.
Proof.
  intros [Hk [Hc Hn]] Hf.
  assert (Hpar : forall x, par w' x = par w x) by (intro x; unfold par; apply (Hn x)).
  assert (Hkind : forall x, kindof w' x = kindof w x) by (intro x; unfold kindof; apply (Hn x)).
  assert (Hhas : forall x, has w' x = has w x) by (intro x; apply (Hn x)).
  constructor.
  - intro n. rewrite Hhas. apply (f_known _ _ Hf).
  - intros p c. rewrite Hk. rewrite Hpar. apply (f_two_ended _ _ Hf).
  - intro p. rewrite Hk. apply (f_nodup _ _ Hf).
  - intros p c. rewrite Hpar. rewrite !Hhas. rewrite !Hkind. apply (f_kind _ _ Hf).
  - intros a b Ha Hb. destruct (Hn a) as [_ [_ [Ua _]]]. destruct (Hn b) as [_ [_ [Ub _]]].
    rewrite Ua. rewrite Ub. apply (f_uuid _ _ Hf); assumption.
Qed.

Lemma skel_cache w w' : SameSkel w w' -> CacheInv w -> CacheInv w'.
Proof.
  intros [Hk [Hc Hn]] Hci ir Hhas Hkind.
  assert (Hkindeq : kindof w' ir = kindof w ir) by (unfold kindof; apply (Hn ir)).
  rewrite Hkindeq in Hkind. destruct (Hn ir) as [Hh _]. rewrite Hh in Hhas.
  destruct (Hci ir Hhas Hkind) as [Hnd Hget]. rewrite Hc. split; [exact Hnd|].
  intros u n. unfold reach. rewrite (subtree_ext w w' ir Hk). destruct (Hn n) as [_ [_ [Un _]]]. rewrite Un.
  apply Hget.
Qed.

(* the reach characterisation in terms of Forest *)
Lemma reach_forest w known ir n : Forest w known -> kindof w ir = KIR ->
  (In n (reach w ir) <-> n = ir \/ ir_of w n = Some ir).
Proof.
  intros Hf Hir. unfold reach. apply (reach_iff w (forest_two_ended _ _ Hf) (forest_kind_ok _ _ Hf) ir n Hir).
Qed.

(* a node of a leaf kind has no children *)
Lemma leaf_no_kids w known v : Forest w known ->
  kindof w v = KCode \/ kindof w v = KData \/ kindof w v = KSym \/ kindof w v = KProxy -> kids w v = [].
Proof.
  intros Hf Hk. destruct (kids w v) as [|x l] eqn:E; [reflexivity|]. exfalso.
  assert (In x (kids w v)) as Hin by (rewrite E; left; reflexivity).
  apply (f_two_ended _ _ Hf) in Hin. destruct (f_kind _ _ Hf _ _ Hin) as [_ [_ Hpk]].
  destruct Hk as [Hk|[Hk|[Hk|Hk]]]; rewrite Hk in Hpk; destruct (kindof w x); cbn [parent_kind] in Hpk; discriminate Hpk.
Qed.
