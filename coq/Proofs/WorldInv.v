(* The full invariant of the object-graph state machine (Model/World.v) and the proof that every guarded
   operation preserves it: the combination of the per-family proofs
     SetOpsProofs  (family F1: owning sets, parent setters of non-modules, attributes, symx map, touch)
     ModListProofs (family F2: construction, the IR module list, the module's ir setter)
     SymIxProofs   (symbol indexes), SyncProofs (lazy interval indexes), SymxProofs (sorted map).
   Also: reachable states satisfy it (plain histories and schedules with lookups interleaved), and the
   exact characterisation of KeyError. *)
From Coq Require Import ZArith List Bool Lia.
From V Require Import Result LazyTree World WorldGuard WorldRun ForestDefs InvDefs.
From V Require SetOpsBase SetOpsProofs ModListBase ModListProofs SyncProofs SymIxProofs SymxProofs
               LookupBase LookupProofs ScheduleProofs.
Import ListNotations.
Open Scope Z_scope.

(* ---------- the full invariant ---------- *)

(* the clause the symbol-index proof needs: nodes that do not exist yet have empty indexes *)
Notation FreshIx := SymIxProofs.FreshIx.

Record InvAll (w : world) (known : list id) : Prop := { ia_inv : Inv w known; ia_fresh : FreshIx w }.

Lemma freshix_unfold w : FreshIx w <-> (forall n, has w n = false -> nix w n = [] /\ rix w n = []).
Proof. reflexivity. Qed.

Theorem invall_w0 : InvAll w0 [].
Proof. constructor; [exact ScheduleProofs.inv_w0_all|exact SymIxProofs.fresh_ix_w0]. Qed.

(* ---------- every operation belongs to one of the two families ---------- *)

Notation F1 := SetOpsProofs.F1.
Notation F2 := ModListProofs.F2.

Lemma f1_or_f2 : forall w o, F1 w o \/ F2 w o.
Proof.
  intros w o. destruct o; cbn; auto.
  destruct (SetOpsProofs.kind_eq_dec (kindof w c) KMod) as [E|N]; [right; exact E|left; exact N].
Qed.

Lemma f1_known : forall w o known, F1 w o -> known_after o known = known.
Proof. intros w o known H. destruct o; cbn in *; try reflexivity; contradiction. Qed.

Lemma forest_cache_step : forall w known o,
  Forest w known -> CacheInv w -> op_okb w known o = true ->
  Forest (step' w o) (known_after o known) /\ CacheInv (step' w o).
Proof.
  intros w known o HF HC G. destruct (f1_or_f2 w o) as [H1|H2].
  - rewrite (f1_known w o known H1). exact (SetOpsProofs.f1_preserves w known o HF HC G H1).
  - exact (ModListProofs.f2_preserves w known o HF HC G H2).
Qed.

Theorem inv_step : forall w known o, InvAll w known -> op_okb w known o = true ->
  Inv (step' w o) (known_after o known).
Proof.
  intros w known o [[HF HC HX HS HN HSo] HFr] G.
  destruct (forest_cache_step w known o HF HC G) as [HF' HC'].
  pose proof (SymIxProofs.symix_preserved w known o HF HF' HFr HX G) as HX'.
  destruct (SyncProofs.sync_preserved w known o HF HF' HS HN G) as [HS' HN'].
  pose proof (SymxProofs.symx_sorted_preserved w o HSo) as HSo'.
  constructor; assumption.
Qed.

Theorem invall_step : forall w known o, InvAll w known -> op_okb w known o = true ->
  InvAll (step' w o) (known_after o known).
Proof.
  intros w known o H G. constructor; [exact (inv_step w known o H G)|].
  destruct H as [[HF _ _ _ _ _] HFr]. exact (SymIxProofs.fresh_ix_preserved w known o HF HFr G).
Qed.

(* ---------- reachable states ---------- *)

Lemma run_guarded_cons : forall w known o ops,
  run_guarded w known (o :: ops) =
  if op_okb w known o then run_guarded (step' w o) (known_after o known) ops else run_guarded w known ops.
Proof. intros. reflexivity. Qed.

Lemma invall_run_gen : forall ops w known, InvAll w known ->
  InvAll (fst (run_guarded w known ops)) (snd (run_guarded w known ops)).
Proof.
  induction ops as [|o ops IH]; intros w known H; [exact H|].
  rewrite run_guarded_cons. destruct (op_okb w known o) eqn:G.
  - apply IH. exact (invall_step w known o H G).
  - apply IH. exact H.
Qed.

Theorem invall_run : forall ops, InvAll (fst (run_guarded w0 [] ops)) (snd (run_guarded w0 [] ops)).
Proof. intros ops. apply invall_run_gen. exact invall_w0. Qed.

Theorem invall_reachable : forall w known, reachable_k w known -> InvAll w known.
Proof.
  intros w known [ops E]. pose proof (invall_run ops) as H. rewrite <- E in H. exact H.
Qed.

Lemma reachable_k_run : forall ops, reachable_k (fst (run_guarded w0 [] ops)) (snd (run_guarded w0 [] ops)).
Proof. intros ops. exists ops. destruct (run_guarded w0 [] ops); reflexivity. Qed.

Lemma reachable_k_reachable : forall w known, reachable_k w known -> reachable w.
Proof. intros w known [ops E]. exists ops. rewrite <- E. reflexivity. Qed.

Lemma reachable_reachable_k : forall w, reachable w -> exists known, reachable_k w known.
Proof.
  intros w [ops E]. exists (snd (run_guarded w0 [] ops)). exists ops.
  rewrite E. destruct (run_guarded w0 [] ops); reflexivity.
Qed.

(* reachable states are closed under guarded steps *)
Lemma run_guarded_app : forall ops1 ops2 w known,
  run_guarded w known (ops1 ++ ops2) =
  run_guarded (fst (run_guarded w known ops1)) (snd (run_guarded w known ops1)) ops2.
Proof.
  induction ops1 as [|o ops1 IH]; intros ops2 w known; [reflexivity|].
  rewrite <- app_comm_cons, !run_guarded_cons. destruct (op_okb w known o); apply IH.
Qed.

Lemma reachable_k_step : forall w known o, reachable_k w known -> op_okb w known o = true ->
  reachable_k (step' w o) (known_after o known).
Proof.
  intros w known o [ops E] G. exists (ops ++ [o]).
  rewrite run_guarded_app, <- E. cbn [fst snd]. rewrite run_guarded_cons, G. reflexivity.
Qed.

(* projections, for the property files *)
Lemma reach_inv : forall w known, reachable_k w known -> Inv w known.
Proof. intros w known R. exact (ia_inv _ _ (invall_reachable w known R)). Qed.
Lemma reach_forest : forall w known, reachable_k w known -> Forest w known.
Proof. intros w known R. exact (inv_forest _ _ (reach_inv w known R)). Qed.
Lemma reach_cache : forall w known, reachable_k w known -> CacheInv w.
Proof. intros w known R. exact (inv_cache _ _ (reach_inv w known R)). Qed.
Lemma reach_symix : forall w known, reachable_k w known -> SymIx w.
Proof. intros w known R. exact (inv_symix _ _ (reach_inv w known R)). Qed.
Lemma reach_sync : forall w known, reachable_k w known -> SyncAll w.
Proof. intros w known R. exact (inv_sync _ _ (reach_inv w known R)). Qed.
Lemma reach_nonneg : forall w known, reachable_k w known -> NonNeg w.
Proof. intros w known R. exact (inv_nonneg _ _ (reach_inv w known R)). Qed.
Lemma reach_sorted : forall w known, reachable_k w known -> SymxSorted w.
Proof. intros w known R. exact (inv_sorted _ _ (reach_inv w known R)). Qed.
Lemma reach_fresh : forall w known, reachable_k w known -> FreshIx w.
Proof. intros w known R. exact (ia_fresh _ _ (invall_reachable w known R)). Qed.
Lemma reach_goodk : forall w known, reachable_k w known -> LookupBase.Good known w.
Proof.
  intros w known R. split; [exact (reach_forest w known R)|split; [exact (reach_sync w known R)|exact (reach_nonneg w known R)]].
Qed.

(* ---------- schedules: histories with lookups interleaved ---------- *)

Lemma invall_good : forall w known, InvAll w known -> Forest w known /\ SyncAll w /\ NonNeg w.
Proof. intros w known [[F _ _ S N _] _]. auto. Qed.

(* a lookup only replaces lazy interval trees *)
Lemma freshix_strip : forall w w', SyncProofs.strip w' = SyncProofs.strip w -> FreshIx w -> FreshIx w'.
Proof.
  intros w w' E H n Hn.
  destruct (ScheduleProofs.strip_fields w' w E) as (En & _ & _ & Enx & Erx & _).
  rewrite Enx, Erx. apply H. unfold has in *. rewrite <- En. exact Hn.
Qed.

Lemma invall_query : forall w known s m kf q, InvAll w known -> InvAll (fst (query w s m kf q)) known.
Proof.
  intros w known s m kf q [HI HFr]. constructor.
  - exact (ScheduleProofs.query_inv known w s m kf q HI).
  - exact (freshix_strip w _ (proj1 (ScheduleProofs.query_lk w s m kf q)) HFr).
Qed.

Notation item := ScheduleProofs.item.
Notation run_sched := ScheduleProofs.run_sched.
Notation ops_of := ScheduleProofs.ops_of.
Notation same_answers := ScheduleProofs.same_answers.

Theorem invall_sched : forall its,
  InvAll (fst (run_sched w0 [] its)) (snd (run_sched w0 [] its)).
Proof.
  intros its. exact (ScheduleProofs.run_sched_inv InvAll invall_step invall_query its invall_w0).
Qed.

Theorem schedule_independent_all : forall its1 its2, ops_of its1 = ops_of its2 ->
  same_answers (fst (run_sched w0 [] its1)) (fst (run_sched w0 [] its2)).
Proof.
  intros its1 its2 E.
  exact (ScheduleProofs.schedule_independent InvAll invall_good invall_step invall_query its1 its2 invall_w0 E).
Qed.

Theorem lookups_do_not_interfere_all : forall its,
  same_answers (fst (run_sched w0 [] its)) (fst (run_guarded w0 [] (ops_of its))).
Proof.
  intros its.
  exact (ScheduleProofs.lookups_do_not_interfere InvAll invall_good invall_step invall_query its invall_w0).
Qed.

Theorem sync_sched : forall its, SyncAll (fst (run_sched w0 [] its)).
Proof. intros its. exact (inv_sync _ _ (ia_inv _ _ (invall_sched its))). Qed.

(* ---------- KeyError: only where the built-in set / dict raises it too ---------- *)

(* the four situations in which Python's own set.remove / set.pop / dict.__delitem__ / dict.pop /
   dict.popitem raise KeyError *)
Definition builtin_keyerror (w : world) (o : op) : Prop :=
  (exists p fk c, o = OSet p fk SRemove [[c]] /\ ~ In c (field w p fk)) \/
  (exists p fk args, o = OSet p fk SPop args /\ field w p fk = []) \/
  (exists bi k, (o = OSymxDel bi k \/ o = OSymxPop bi k) /\ dict_get Z.eqb k (symx w bi) = None) \/
  (exists bi, o = OSymxPopitem bi /\ symx w bi = []).

Lemma args_one : forall (args : list (list id)),
  match args with [[_]] => true | _ => false end = true -> exists c, args = [[c]].
Proof.
  intros args H. destruct args as [|a args]; [discriminate|]. destruct a as [|c a]; [discriminate|].
  destruct a; [|discriminate]. destruct args; [|discriminate]. exists c. reflexivity.
Qed.

Lemma args_one_list : forall (args : list (list id)),
  match args with [_] => true | _ => false end = true -> exists a, args = [a].
Proof.
  intros args H. destruct args as [|a args]; [discriminate|]. destruct args; [|discriminate].
  exists a. reflexivity.
Qed.

Lemma ok_not_keyerror : forall (w : world) o (P : world -> Prop),
  (exists w', step w o = Ok w' /\ P w') -> step w o <> Err EKey.
Proof. intros w o P (w' & E & _) E'. rewrite E in E'. discriminate. Qed.

Lemma oset_keyerror : forall w known p fk m args,
  Forest w known -> CacheInv w -> op_okb w known (OSet p fk m args) = true ->
  step w (OSet p fk m args) = Err EKey -> builtin_keyerror w (OSet p fk m args).
Proof.
  intros w known p fk m args HF HC G E.
  destruct (SetOpsProofs.oset_guard w known p fk m args G) as (_ & _ & _ & Hsh).
  destruct m.
  - destruct (args_one args Hsh) as [c ->]. exfalso.
    exact (ok_not_keyerror _ _ _ (SetOpsProofs.oset_add_effect w known p fk c HF HC G) E).
  - destruct (args_one args Hsh) as [c ->]. exfalso.
    exact (ok_not_keyerror _ _ _ (SetOpsProofs.oset_discard_effect w known p fk c HF HC G) E).
  - destruct (args_one args Hsh) as [c ->].
    destruct (SetOpsProofs.oset_remove_effect w known p fk c HF HC G) as [_ Hin].
    destruct (mem c (field w p fk)) eqn:M.
    + exfalso. exact (ok_not_keyerror _ _ _ (Hin eq_refl) E).
    + left. exists p, fk, c. split; [reflexivity|]. apply SetOpsBase.mem_false. exact M.
  - right; left. exists p, fk, args. split; [reflexivity|].
    exact (proj1 (proj1 (SetOpsProofs.oset_pop_effect w known p fk args HF HC G)) E).
  - exfalso. exact (ok_not_keyerror _ _ _ (SetOpsProofs.oset_clear_effect w known p fk args HF HC G) E).
  - exfalso. exact (ok_not_keyerror _ _ _ (SetOpsProofs.oset_update_effect w known p fk args HF HC G) E).
  - destruct (args_one_list args Hsh) as [a ->]. exfalso.
    exact (ok_not_keyerror _ _ _ (SetOpsProofs.oset_ior_effect w known p fk a HF HC G) E).
  - destruct (args_one_list args Hsh) as [a ->]. exfalso.
    exact (ok_not_keyerror _ _ _ (SetOpsProofs.oset_iand_effect w known p fk a HF HC G) E).
  - destruct (args_one_list args Hsh) as [a ->]. exfalso.
    exact (ok_not_keyerror _ _ _ (SetOpsProofs.oset_isub_effect w known p fk a HF HC G) E).
  - destruct (args_one_list args Hsh) as [a ->]. exfalso.
    exact (ok_not_keyerror _ _ _ (SetOpsProofs.oset_ixor_effect w known p fk a HF HC G) E).
Qed.

Lemma dict_has_false_get : forall {V} k (d : list (Z * V)), dict_has Z.eqb k d = false -> dict_get Z.eqb k d = None.
Proof. intros V k d H. unfold dict_has in H. destruct (dict_get Z.eqb k d); [discriminate|reflexivity]. Qed.

Lemma dict_get_none_has : forall {V} k (d : list (Z * V)), dict_get Z.eqb k d = None -> dict_has Z.eqb k d = false.
Proof. intros V k d H. unfold dict_has. rewrite H. reflexivity. Qed.

Theorem keyerror_only_builtin : forall w known o, InvAll w known -> op_okb w known o = true ->
  step w o = Err EKey -> builtin_keyerror w o.
Proof.
  intros w known o [[HF HC _ _ _ _] _] G E.
  destruct (f1_or_f2 w o) as [H1|H2];
    [|exfalso; exact (ModListProofs.f2_no_keyerror w known o HF HC G H2 E)].
  destruct o; cbn [SetOpsProofs.F1] in H1; try contradiction.
  - exfalso. exact (ok_not_keyerror _ _ _ (SetOpsProofs.osetparent_effect w known c p HF HC G H1) E).
  - exact (oset_keyerror w known p fk m args HF HC G E).
  - discriminate E.
  - cbn [step] in E. destruct (kindof w n); discriminate E.
  - discriminate E.
  - discriminate E.
  - discriminate E.
  - discriminate E.
  - cbn [step] in E. destruct (dict_has Z.eqb k (symx w bi)) eqn:D; [discriminate E|].
    right; right; left. exists bi, k. split; [left; reflexivity|exact (dict_has_false_get _ _ D)].
  - cbn [step] in E. destruct (dict_has Z.eqb k (symx w bi)) eqn:D; [discriminate E|].
    right; right; left. exists bi, k. split; [right; reflexivity|exact (dict_has_false_get _ _ D)].
  - cbn [step] in E. destruct (symx w bi) eqn:D; [|discriminate E].
    right; right; right. exists bi. split; [reflexivity|exact D].
  - cbn [step] in E. destruct (dict_has Z.eqb k (symx w bi)); discriminate E.
  - discriminate E.
  - discriminate E.
  - discriminate E.
  - discriminate E.
Qed.

Theorem builtin_keyerror_raises : forall w known o, InvAll w known -> op_okb w known o = true ->
  builtin_keyerror w o -> step w o = Err EKey.
Proof.
  intros w known o [[HF HC _ _ _ _] _] G [H|[H|[H|H]]].
  - destruct H as (p & fk & c & -> & Hn).
    apply (proj1 (SetOpsProofs.oset_remove_effect w known p fk c HF HC G)).
    apply SetOpsBase.mem_false. exact Hn.
  - destruct H as (p & fk & args & -> & Hn).
    exact (proj2 (proj1 (SetOpsProofs.oset_pop_effect w known p fk args HF HC G)) Hn).
  - destruct H as (bi & k & [->| ->] & Hn); cbn [step]; rewrite (dict_get_none_has _ _ Hn); reflexivity.
  - destruct H as (bi & -> & Hn). cbn [step]. rewrite Hn. reflexivity.
Qed.

(* the form asked for: a guarded operation on an invariant state does not raise KeyError, except in the
   four situations where the built-in collection raises it too; in particular the `del cache[uuid]` of the
   per-IR UUID table (the `flagged` results of set_discard / cache_remove / ml_remove_hook) never hits a
   missing key *)
Theorem no_keyerror : forall w known o, InvAll w known -> op_okb w known o = true ->
  step w o <> Err EKey \/ builtin_keyerror w o.
Proof.
  intros w known o H G. destruct (step w o) as [w'|e] eqn:E; [left; discriminate|].
  destruct e; try (left; discriminate).
  right. exact (keyerror_only_builtin w known o H G E).
Qed.

Theorem keyerror_iff : forall w known o, InvAll w known -> op_okb w known o = true ->
  (step w o = Err EKey <-> builtin_keyerror w o).
Proof.
  intros w known o H G. split;
    [exact (keyerror_only_builtin w known o H G)|exact (builtin_keyerror_raises w known o H G)].
Qed.

(* the raw flags: the UUID-table deletions themselves are total on invariant states *)
Theorem uuid_table_deletions_total : forall w known p c, InvAll w known ->
  has w p = true -> has w c = true -> parent_kind (kindof w c) = Some (kindof w p) ->
  snd (set_discard w p c) = true /\ snd (set_add w p c) = true.
Proof.
  intros w known p c [[HF HC _ _ _ _] _]. exact (SetOpsProofs.f1_no_keyerror w known p c HF HC).
Qed.

Theorem uuid_table_deletions_total_modlist : forall w known ir v, InvAll w known -> is_k w ir KIR = true ->
  (In v (kids w ir) -> snd (ml_remove_hook w ir v) = true) /\
  (forall k, nth_error (kids w ir) k = Some v -> snd (ml_del_at w ir k) = true) /\
  (is_k w v KMod = true -> snd (ml_add_hook w ir v) = true) /\
  (is_k w v KMod = true -> forall i, snd (ml_insert w ir i v) = true) /\
  (is_k w v KMod = true -> snd (ml_append w ir v) = true).
Proof.
  intros w known ir v [[HF HC _ _ _ _] _]. exact (ModListProofs.hooks_no_keyerror w known ir v HF HC).
Qed.

Print Assumptions invall_w0.
Print Assumptions invall_step.
Print Assumptions invall_run.
Print Assumptions invall_reachable.
Print Assumptions invall_sched.
Print Assumptions schedule_independent_all.
Print Assumptions lookups_do_not_interfere_all.
Print Assumptions no_keyerror.
Print Assumptions keyerror_iff.
Print Assumptions uuid_table_deletions_total.
Print Assumptions uuid_table_deletions_total_modlist.
