(* Task PR2: whatever message the reader accepts yields a coherent content whose every attribute equals the
   corresponding message field.  Generic lemmas, rejection classes (3) and the header gate (4) are in ProtoReaderBase.v.

   Termination/totality of from_proto is by construction (structural recursion only), see ProtoReaderBase.v.

   History: against the first version of Model/Proto.v (decode_bi decoded the blocks of an interval BEFORE entering
   the interval in the table) accept_coherent was false: an interval containing a block with the interval's own UUID
   was accepted and loaded with that UUID twice.  The implementation and the model were repaired (the interval now
   registers itself first); accept_coherent below holds with msg_ok as its only premise. *)
From Coq Require Import String ZArith List Bool Lia Permutation.
From V Require Import Result Bytes BytesProofs PyFacts Proto ProtoReaderBase.
Import ListNotations.
Open Scope list_scope.
Open Scope Z_scope.

(* ------------------------------------------------------------------ *)
(* schema-level validity of a message (what protobuf itself guarantees) *)
(* ------------------------------------------------------------------ *)
Definition bytes_ok (bs : list Z) : bool := forallb is_byte bs.
Definition blockval_ok (v : pBlockVal) : bool :=
  match v with PCode ub _ _ => bytes_ok ub | PData ub _ => bytes_ok ub | PNoBlock => true end.
Definition exprval_ok (v : pExprVal) : bool :=
  match v with
  | PAddrConst _ s => bytes_ok s
  | PAddrAddr _ _ s1 s2 => bytes_ok s1 && bytes_ok s2
  | PNoExpr => true
  end.
Definition bi_msg_ok (b : pBI) : bool :=
  bytes_ok (bi_uuid b) && forallb (fun k => blockval_ok (b_val k)) (bi_blocks b)
  && forallb (fun kv => exprval_ok (x_val (snd kv))) (bi_symx b) && nodup_z (map fst (bi_symx b))
  && forallb byte_ok (bi_contents b).
Definition sec_msg_ok (s : pSection) : bool := bytes_ok (s_uuid s) && forallb bi_msg_ok (s_bis s).
Definition sym_msg_ok (y : pSymbol) : bool :=
  bytes_ok (y_uuid y) && match y_payload y with PPRef u => bytes_ok u | _ => true end.
Definition mod_msg_ok (m : pModule) : bool :=
  bytes_ok (m_uuid m) && forallb sym_msg_ok (m_symbols m) && forallb bytes_ok (m_proxies m)
  && forallb sec_msg_ok (m_sections m) && bytes_ok (m_entry m).
Definition edge_msg_ok (e : pEdge) : bool := bytes_ok (e_src e) && bytes_ok (e_dst e).
(* every uuid / reference byte string the reader looks at and every contents byte is in [0,256);
   the keys of every bi_symx map are pairwise distinct.  (i_vertices is not read by the reader: no condition.) *)
Definition msg_ok (p : pIR) : bool :=
  bytes_ok (i_uuid p) && forallb mod_msg_ok (i_modules p) && forallb edge_msg_ok (i_edges p).

(* ------------------------------------------------------------------ *)
(* normal form of a message                                             *)
(* ------------------------------------------------------------------ *)
Definition norm_expr (x : pExpr) : pExpr := {| x_val := x_val x; x_attrs := dedup_z (x_attrs x) |}.
Definition norm_bi (b : pBI) : pBI :=
  {| bi_uuid := bi_uuid b; bi_blocks := bi_blocks b;
     bi_symx := map (fun kv => (fst kv, norm_expr (snd kv))) (bi_symx b);
     bi_has_addr := bi_has_addr b; bi_addr := if bi_has_addr b then bi_addr b else 0;
     bi_size := bi_size b; bi_contents := bi_contents b |}.
Definition norm_section (s : pSection) : pSection :=
  {| s_uuid := s_uuid s; s_name := s_name s; s_bis := map norm_bi (s_bis s); s_flags := dedup_z (s_flags s) |}.
Definition norm_module (m : pModule) : pModule :=
  {| m_uuid := m_uuid m; m_binary_path := m_binary_path m; m_preferred_addr := m_preferred_addr m;
     m_rebase_delta := m_rebase_delta m; m_file_format := m_file_format m; m_isa := m_isa m; m_name := m_name m;
     m_symbols := m_symbols m; m_proxies := m_proxies m; m_sections := map norm_section (m_sections m);
     m_aux := m_aux m; m_entry := m_entry m; m_byte_order := m_byte_order m |}.
(* the vertex list the writer produces: per module the code blocks in section/interval/block order, then the proxies *)
Definition p_cfg_nodes (m : pModule) : list (list Z) :=
  flat_map (fun s => flat_map (fun b => flat_map (fun k => match b_val k with PCode ub _ _ => [ub] | _ => [] end)
                                                 (bi_blocks b)) (s_bis s)) (m_sections m)
  ++ m_proxies m.
Definition plabel_eqb (a b : option pLabel) : bool :=
  match a, b with
  | None, None => true
  | Some x, Some y => (l_type x =? l_type y) && Bool.eqb (l_cond x) (l_cond y) && Bool.eqb (l_direct x) (l_direct y)
  | _, _ => false
  end.
Definition pedge_eqb (a b : pEdge) : bool :=
  zs_eqb (e_src a) (e_src b) && zs_eqb (e_dst a) (e_dst b) && plabel_eqb (e_label a) (e_label b).
(* an edge given twice is kept once (first occurrence) *)
Fixpoint dedup_pedges (seen : list pEdge) (l : list pEdge) : list pEdge :=
  match l with
  | [] => []
  | e :: l' => if existsb (pedge_eqb e) seen then dedup_pedges seen l' else e :: dedup_pedges (e :: seen) l'
  end.
Definition msg_norm (p : pIR) : pIR :=
  {| i_uuid := i_uuid p; i_modules := map norm_module (i_modules p); i_aux := i_aux p; i_version := i_version p;
     i_vertices := flat_map p_cfg_nodes (i_modules p);
     i_edges := dedup_pedges [] (i_edges p) |}.

(* ------------------------------------------------------------------ *)
(* table invariant                                                      *)
(* ------------------------------------------------------------------ *)
Definition uuid_rng (u : Z) : Prop := uuid_ok u = true.
Definition tinv (t : table) : Prop := NoDup (tdom t) /\ Forall uuid_rng (tdom t).

Lemma tinv_cons : forall t u k, tinv t -> ~ In u (tdom t) -> uuid_rng u -> tinv ((u, k) :: t).
Proof.
  intros t u k [Hn Hr] Hu Hrng. split; cbn [tdom map fst].
  - constructor; assumption.
  - constructor; assumption.
Qed.

Lemma tdom_app : forall a b, tdom (a ++ b) = tdom a ++ tdom b.
Proof. intros a b. unfold tdom. apply map_app. Qed.

Lemma In_tdom : forall u t, In u (tdom t) <-> exists k, In (u, k) t.
Proof.
  intros u t. unfold tdom. rewrite in_map_iff. split.
  - intros [[a k] [E H]]. cbn [fst] in E. subst a. exists k. exact H.
  - intros [k H]. exists (u, k). split; [reflexivity|exact H].
Qed.

(* the entries pushed by a list of nodes: the last decoded node is first *)
Fixpoint rflat {Y} (E : Y -> table) (ys : list Y) : table :=
  match ys with
  | [] => []
  | y :: ys' => rflat E ys' ++ E y
  end.

Lemma rflat_In {Y} (E : Y -> table) : forall ys e, In e (rflat E ys) <-> exists y, In y ys /\ In e (E y).
Proof.
  induction ys as [|y ys IH]; intros e; cbn [rflat In].
  - split; [intros []|intros [y [[] _]]].
  - rewrite in_app_iff, IH. split.
    + intros [[z [Hz He]]|He].
      * exists z. split; [right; exact Hz|exact He].
      * exists y. split; [left; reflexivity|exact He].
    + intros [z [[Hz|Hz] He]].
      * subst z. right. exact He.
      * left. exists z. split; assumption.
Qed.

Lemma rflat_perm {Y} (E : Y -> table) (U : Y -> list Z) :
  (forall y, Permutation (tdom (E y)) (U y)) -> forall ys, Permutation (tdom (rflat E ys)) (flat_map U ys).
Proof.
  intros HE. induction ys as [|y ys IH]; cbn [rflat flat_map].
  - apply Permutation_refl.
  - rewrite tdom_app. eapply Permutation_trans; [apply Permutation_app_comm|].
    apply Permutation_app; [apply HE|exact IH].
Qed.

Lemma rflat_ext2 {A B} (E1 : A -> table) (E2 : B -> table) :
  forall l1 l2, Forall2 (fun a b => E1 a = E2 b) l1 l2 -> rflat E1 l1 = rflat E2 l2.
Proof.
  intros l1 l2 H. induction H as [|a b l1 l2 Hab _ IH]; cbn [rflat]; [reflexivity|].
  rewrite Hab, IH. reflexivity.
Qed.

Lemma map_res_inv {X Y : Type} (f : table -> X -> res (Y * table)) (E : Y -> table)
      (P : X -> Prop) (Q : table -> X -> Y -> Prop) :
  (forall t x y t1, f t x = Ok (y, t1) -> P x -> tinv t -> t1 = E y ++ t /\ tinv t1 /\ Q t1 x y) ->
  (forall t t' x y, incl t t' -> Q t x y -> Q t' x y) ->
  forall l t ys t',
    map_res f t l = Ok (ys, t') -> Forall P l -> tinv t ->
    t' = rflat E ys ++ t /\ tinv t' /\ Forall2 (Q t') l ys.
Proof.
  intros Hf Qmono.
  induction l as [|x l IH]; intros t ys t' H HP Ht; cbn [map_res] in H.
  - injection H as <- <-. split; [reflexivity|]. split; [exact Ht|constructor].
  - bind_inv H r Hr. destruct r as [y t1]. cbv beta iota in H.
    bind_inv H r' Hr'. destruct r' as [ys' t2]. cbv beta iota in H.
    injection H as <- <-.
    inversion HP as [|x' l' HPx HPl]; subst.
    destruct (Hf _ _ _ _ Hr HPx Ht) as [E1 [Ht1 HQ]].
    destruct (IH _ _ _ Hr' HPl Ht1) as [E2 [Ht2 HF]].
    split; [|split].
    + cbn [rflat]. rewrite E2, E1. rewrite app_assoc. reflexivity.
    + exact Ht2.
    + constructor; [|exact HF]. apply (Qmono t1); [|exact HQ].
      rewrite E2. apply incl_appr. apply incl_refl.
Qed.

(* ------------------------------------------------------------------ *)
(* blocks                                                               *)
(* ------------------------------------------------------------------ *)
Definition kind_of_block (b : cBlock) : nkind := if cb_code b then NCode else NData.
Definition ents_block (b : cBlock) : table := [(cb_uuid b, kind_of_block b)].
Definition blk_dm_ok (k : cBlock) : bool := if cb_code k then enum_ok "DecodeMode" (cb_dm k) else cb_dm k =? 0.
Definition Rblk (pb : pBlock) (b : cBlock) : Prop := block_to_proto b = pb /\ blk_dm_ok b = true.

Lemma decode_block_inv : forall t pb b t1,
  decode_block t pb = Ok (b, t1) -> blockval_ok (b_val pb) = true -> tinv t ->
  t1 = ents_block b ++ t /\ tinv t1 /\ Rblk pb b.
Proof.
  intros t [off v] b t1 H Hok Ht. unfold decode_block in H. cbn [b_val b_off] in *.
  destruct v as [ub sz dm|ub sz|]; cbn [blockval_ok] in Hok.
  - bind_inv H u Hu. bind_inv H x1 Hfr. bind_inv H x2 He. injection H as <- <-.
    split; [reflexivity|]. split.
    + apply tinv_cons; [exact Ht|exact (fresh_notIn _ _ _ _ Hfr)|exact (uuid_of_bytes_range _ _ Hu Hok)].
    + split.
      * unfold block_to_proto. cbn [cb_code cb_uuid cb_off cb_size cb_dm].
        rewrite (bytes_of_uuid_of_bytes _ _ Hu Hok). reflexivity.
      * unfold blk_dm_ok. cbn [cb_code cb_dm]. exact (check_enum_ok _ _ _ He).
  - bind_inv H u Hu. bind_inv H x1 Hfr. injection H as <- <-.
    split; [reflexivity|]. split.
    + apply tinv_cons; [exact Ht|exact (fresh_notIn _ _ _ _ Hfr)|exact (uuid_of_bytes_range _ _ Hu Hok)].
    + split.
      * unfold block_to_proto. cbn [cb_code cb_uuid cb_off cb_size cb_dm].
        rewrite (bytes_of_uuid_of_bytes _ _ Hu Hok). reflexivity.
      * reflexivity.
  - discriminate H.
Qed.

Lemma map_decode_block_inv : forall l t ys t',
  map_res decode_block t l = Ok (ys, t') -> Forall (fun k => blockval_ok (b_val k) = true) l -> tinv t ->
  t' = rflat ents_block ys ++ t /\ tinv t' /\ Forall2 Rblk l ys.
Proof.
  intros l t ys t' H HP Ht.
  apply (map_res_inv decode_block ents_block (fun k => blockval_ok (b_val k) = true) (fun _ => Rblk)) in H;
    [exact H| |intros; assumption|exact HP|exact Ht].
  intros t0 x y t1 H0 Hx Ht0. exact (decode_block_inv _ _ _ _ H0 Hx Ht0).
Qed.

(* ------------------------------------------------------------------ *)
(* byte intervals, first stage                                          *)
(* ------------------------------------------------------------------ *)
Definition ents_bi (b : cBI) : table := rflat ents_block (ci_blocks b) ++ [(ci_uuid b, NBI)].
Definition ents_bi0 (b0 : cBI0) : table := ents_bi (c0 b0).
Definition Rbi0 (pb : pBI) (b0 : cBI0) : Prop :=
  bytes_of_uuid (ci_uuid (c0 b0)) = bi_uuid pb
  /\ ci_addr (c0 b0) = (if bi_has_addr pb then Some (bi_addr pb) else None)
  /\ ci_size (c0 b0) = bi_size pb
  /\ ci_contents (c0 b0) = bi_contents pb
  /\ Forall2 Rblk (bi_blocks pb) (ci_blocks (c0 b0))
  /\ c0_symx b0 = bi_symx pb
  /\ Z.of_nat (length (bi_contents pb)) <= bi_size pb
  /\ bi_msg_ok pb = true.

Lemma bi_msg_ok_inv : forall b, bi_msg_ok b = true ->
  bytes_ok (bi_uuid b) = true /\ forallb (fun k => blockval_ok (b_val k)) (bi_blocks b) = true
  /\ forallb (fun kv => exprval_ok (x_val (snd kv))) (bi_symx b) = true /\ nodup_z (map fst (bi_symx b)) = true
  /\ forallb byte_ok (bi_contents b) = true.
Proof.
  intros b H. unfold bi_msg_ok in H. repeat rewrite andb_true_iff in H.
  destruct H as [[[[H1 H2] H3] H4] H5]. repeat split; assumption.
Qed.

Lemma decode_bi_inv : forall t pb b0 t1,
  decode_bi t pb = Ok (b0, t1) -> bi_msg_ok pb = true -> tinv t ->
  t1 = ents_bi0 b0 ++ t /\ tinv t1 /\ Rbi0 pb b0.
Proof.
  intros t pb b0 t1 H Hok Ht. unfold decode_bi in H.
  destruct (bi_msg_ok_inv _ Hok) as [Hu_ok [Hbl_ok _]].
  bind_inv H u Hu. bind_inv H x Hfr.
  destruct (bi_size pb <? Z.of_nat (length (bi_contents pb))) eqn:Esz; [discriminate H|].
  bind_inv H r Hr. destruct r as [blocks t0]. cbv beta iota in H. injection H as <- <-.
  assert (Ht' : tinv ((u, NBI) :: t)).
  { apply tinv_cons; [exact Ht|exact (fresh_notIn _ _ _ _ Hfr)|exact (uuid_of_bytes_range _ _ Hu Hu_ok)]. }
  apply map_decode_block_inv in Hr; [|apply forallb_Forall; exact Hbl_ok|exact Ht'].
  destruct Hr as [E0 [Ht0 HF]].
  split; [|split].
  - unfold ents_bi0, ents_bi. cbn [c0 ci_blocks ci_uuid]. rewrite E0. rewrite <- app_assoc. reflexivity.
  - exact Ht0.
  - unfold Rbi0. cbn [c0 c0_symx ci_uuid ci_addr ci_size ci_contents ci_blocks].
    split; [exact (bytes_of_uuid_of_bytes _ _ Hu Hu_ok)|].
    split; [reflexivity|]. split; [reflexivity|]. split; [reflexivity|]. split; [exact HF|].
    split; [reflexivity|]. split; [apply Z.ltb_ge; exact Esz|exact Hok].
Qed.

Lemma map_decode_bi_inv : forall l t ys t',
  map_res decode_bi t l = Ok (ys, t') -> Forall (fun b => bi_msg_ok b = true) l -> tinv t ->
  t' = rflat ents_bi0 ys ++ t /\ tinv t' /\ Forall2 Rbi0 l ys.
Proof.
  intros l t ys t' H HP Ht.
  apply (map_res_inv decode_bi ents_bi0 (fun b => bi_msg_ok b = true) (fun _ => Rbi0)) in H;
    [exact H| |intros; assumption|exact HP|exact Ht].
  intros t0 x y t1 H0 Hx Ht0. exact (decode_bi_inv _ _ _ _ H0 Hx Ht0).
Qed.

(* ------------------------------------------------------------------ *)
(* sections, first stage                                                *)
(* ------------------------------------------------------------------ *)
Definition sec0 : Type := (Z * list Z * list Z * list cBI0)%type.
Definition ents_sec0 (s : sec0) : table := let '(u, _, _, bis) := s in rflat ents_bi0 bis ++ [(u, NSec)].
Definition Rsec0 (ps : pSection) (s : sec0) : Prop :=
  let '(u, nm, fl, bis) := s in
  bytes_of_uuid u = s_uuid ps /\ nm = s_name ps /\ fl = dedup_z (s_flags ps)
  /\ forallb (enum_ok "SectionFlag") (s_flags ps) = true /\ Forall2 Rbi0 (s_bis ps) bis.

Lemma decode_section_inv : forall t ps s t1,
  decode_section t ps = Ok (s, t1) -> sec_msg_ok ps = true -> tinv t ->
  t1 = ents_sec0 s ++ t /\ tinv t1 /\ Rsec0 ps s.
Proof.
  intros t ps s t1 H Hok Ht. unfold decode_section in H.
  unfold sec_msg_ok in Hok. apply andb_true_iff in Hok. destruct Hok as [Hu_ok Hbis_ok].
  bind_inv H u Hu. bind_inv H x Hfr. bind_inv H x' Hfl.
  bind_inv H r Hr. destruct r as [bis t0]. cbv beta iota in H. injection H as <- <-.
  assert (Ht' : tinv ((u, NSec) :: t)).
  { apply tinv_cons; [exact Ht|exact (fresh_notIn _ _ _ _ Hfr)|exact (uuid_of_bytes_range _ _ Hu Hu_ok)]. }
  apply map_decode_bi_inv in Hr; [|apply forallb_Forall; exact Hbis_ok|exact Ht'].
  destruct Hr as [E0 [Ht0 HF]].
  split; [|split].
  - unfold ents_sec0. rewrite E0. rewrite <- app_assoc. reflexivity.
  - exact Ht0.
  - unfold Rsec0. split; [exact (bytes_of_uuid_of_bytes _ _ Hu Hu_ok)|].
    split; [reflexivity|]. split; [reflexivity|]. split; [exact (iter_res_forallb _ _ _ Hfl)|exact HF].
Qed.

Lemma map_decode_section_inv : forall l t ys t',
  map_res decode_section t l = Ok (ys, t') -> Forall (fun s => sec_msg_ok s = true) l -> tinv t ->
  t' = rflat ents_sec0 ys ++ t /\ tinv t' /\ Forall2 Rsec0 l ys.
Proof.
  intros l t ys t' H HP Ht.
  apply (map_res_inv decode_section ents_sec0 (fun s => sec_msg_ok s = true) (fun _ => Rsec0)) in H;
    [exact H| |intros; assumption|exact HP|exact Ht].
  intros t0 x y t1 H0 Hx Ht0. exact (decode_section_inv _ _ _ _ H0 Hx Ht0).
Qed.

(* ------------------------------------------------------------------ *)
(* proxies                                                              *)
(* ------------------------------------------------------------------ *)
Definition ents_proxy (u : Z) : table := [(u, NProxy)].
Definition Rprx (bs : list Z) (u : Z) : Prop := bytes_of_uuid u = bs.

Lemma decode_proxy_inv : forall t bs u t1,
  decode_proxy t bs = Ok (u, t1) -> bytes_ok bs = true -> tinv t ->
  t1 = ents_proxy u ++ t /\ tinv t1 /\ Rprx bs u.
Proof.
  intros t bs u t1 H Hok Ht. unfold decode_proxy in H.
  bind_inv H v Hv. bind_inv H x Hfr. injection H as <- <-.
  split; [reflexivity|]. split.
  - apply tinv_cons; [exact Ht|exact (fresh_notIn _ _ _ _ Hfr)|exact (uuid_of_bytes_range _ _ Hv Hok)].
  - exact (bytes_of_uuid_of_bytes _ _ Hv Hok).
Qed.

Lemma map_decode_proxy_inv : forall l t ys t',
  map_res decode_proxy t l = Ok (ys, t') -> Forall (fun b => bytes_ok b = true) l -> tinv t ->
  t' = rflat ents_proxy ys ++ t /\ tinv t' /\ Forall2 Rprx l ys.
Proof.
  intros l t ys t' H HP Ht.
  apply (map_res_inv decode_proxy ents_proxy (fun b => bytes_ok b = true) (fun _ => Rprx)) in H;
    [exact H| |intros; assumption|exact HP|exact Ht].
  intros t0 x y t1 H0 Hx Ht0. exact (decode_proxy_inv _ _ _ _ H0 Hx Ht0).
Qed.

(* ------------------------------------------------------------------ *)
(* symbols                                                              *)
(* ------------------------------------------------------------------ *)
Definition ents_sym (y : cSymbol) : table := [(cy_uuid y, NSym)].
Definition Rsym (T : table) (py : pSymbol) (y : cSymbol) : Prop :=
  symbol_to_proto y = py
  /\ forall r, cy_payload y = CPRef r -> exists k, In (r, k) T /\ is_block_kind k = true.

Lemma Rsym_mono : forall t t' py y, incl t t' -> Rsym t py y -> Rsym t' py y.
Proof.
  intros t t' py y Hi [H1 H2]. split; [exact H1|].
  intros r Hr. destruct (H2 r Hr) as [k [Hk Hb]]. exists k. split; [apply Hi; exact Hk|exact Hb].
Qed.

Lemma decode_symbol_inv : forall t py y t1,
  decode_symbol t py = Ok (y, t1) -> sym_msg_ok py = true -> tinv t ->
  t1 = ents_sym y ++ t /\ tinv t1 /\ Rsym t1 py y.
Proof.
  intros t [yu ypl ynm yae] y t1 H Hok Ht. unfold decode_symbol in H.
  unfold sym_msg_ok in Hok. cbn [y_uuid y_payload y_name y_at_end] in *.
  apply andb_true_iff in Hok. destruct Hok as [Hu_ok Hp_ok].
  bind_inv H u Hu. bind_inv H x Hfr. bind_inv H pl Hpl. injection H as <- <-.
  split; [reflexivity|]. split.
  - apply tinv_cons; [exact Ht|exact (fresh_notIn _ _ _ _ Hfr)|exact (uuid_of_bytes_range _ _ Hu Hu_ok)].
  - unfold Rsym, symbol_to_proto. cbn [cy_uuid cy_name cy_payload cy_at_end].
    rewrite (bytes_of_uuid_of_bytes _ _ Hu Hu_ok).
    destruct ypl as [|v|bs].
    + injection Hpl as <-. split; [reflexivity|]. intros r Hr. discriminate Hr.
    + injection Hpl as <-. split; [reflexivity|]. intros r Hr. discriminate Hr.
    + bind_inv Hpl r0 Hr0. injection Hpl as <-.
      apply resolve_ok in Hr0. destruct Hr0 as [Hr0 [k [Hk Hb]]].
      rewrite (bytes_of_uuid_of_bytes _ _ Hr0 Hp_ok). split; [reflexivity|].
      intros r Hr. injection Hr as <-. exists k. split; [right; exact Hk|exact Hb].
Qed.

Lemma map_decode_symbol_inv : forall l t ys t',
  map_res decode_symbol t l = Ok (ys, t') -> Forall (fun y => sym_msg_ok y = true) l -> tinv t ->
  t' = rflat ents_sym ys ++ t /\ tinv t' /\ Forall2 (Rsym t') l ys.
Proof.
  intros l t ys t' H HP Ht.
  apply (map_res_inv decode_symbol ents_sym (fun y => sym_msg_ok y = true) Rsym) in H;
    [exact H| |exact Rsym_mono|exact HP|exact Ht].
  intros t0 x y t1 H0 Hx Ht0. exact (decode_symbol_inv _ _ _ _ H0 Hx Ht0).
Qed.

(* ------------------------------------------------------------------ *)
(* symbolic expressions                                                 *)
(* ------------------------------------------------------------------ *)
Definition Rx (T : table) (kv : Z * pExpr) (kv' : Z * cExpr) : Prop :=
  fst kv' = fst kv /\ expr_to_proto (snd kv') = norm_expr (snd kv)
  /\ (forall y, In y (expr_syms (snd kv')) -> In (y, NSym) T)
  /\ nodup_z (cx_attrs (snd kv')) = true.

Lemma resolve_sym : forall T bs u,
  resolve T bs (fun k => nkind_eqb k NSym) = Ok u -> bytes_ok bs = true ->
  bytes_of_uuid u = bs /\ In (u, NSym) T.
Proof.
  intros T bs u H Hok. apply resolve_ok in H. destruct H as [Hu [k [Hk Hb]]].
  apply nkind_eqb_eq in Hb. subst k. split; [exact (bytes_of_uuid_of_bytes _ _ Hu Hok)|exact Hk].
Qed.

Lemma decode_expr_inv : forall T kv kv',
  decode_expr T kv = Ok kv' -> exprval_ok (x_val (snd kv)) = true -> Rx T kv kv'.
Proof.
  intros T [k [v attrs]] kv' H Hok. unfold decode_expr in H. cbn [fst snd x_val x_attrs] in *.
  bind_inv H cv Hcv. injection H as <-. unfold Rx. cbn [fst snd cx_attrs].
  split; [reflexivity|]. unfold expr_to_proto, norm_expr, expr_syms. cbn [cx_val cx_attrs x_val x_attrs].
  destruct v as [off s|sc off s1 s2|]; cbn [exprval_ok] in Hok.
  - bind_inv Hcv u Hu. injection Hcv as <-. destruct (resolve_sym _ _ _ Hu Hok) as [Eb Hin].
    rewrite Eb. split; [reflexivity|]. split; [|apply dedup_z_nodup].
    intros y [Hy|[]]. subst y. exact Hin.
  - apply andb_true_iff in Hok. destruct Hok as [Hok1 Hok2].
    bind_inv Hcv u1 Hu1. bind_inv Hcv u2 Hu2. injection Hcv as <-.
    destruct (resolve_sym _ _ _ Hu1 Hok1) as [Eb1 Hin1]. destruct (resolve_sym _ _ _ Hu2 Hok2) as [Eb2 Hin2].
    rewrite Eb1, Eb2. split; [reflexivity|]. split; [|apply dedup_z_nodup].
    intros y [Hy|[Hy|[]]]; subst y; assumption.
  - discriminate Hcv.
Qed.

(* ------------------------------------------------------------------ *)
(* byte intervals, second stage                                         *)
(* ------------------------------------------------------------------ *)
Definition Rbi (T : table) (pb : pBI) (b : cBI) : Prop :=
  bi_to_proto b = norm_bi pb /\ bi_ok b = true
  /\ forall kv y, In kv (ci_symx b) -> In y (expr_syms (snd kv)) -> In (y, NSym) T.

Lemma finish_bi_inv : forall T pb b0 b,
  Rbi0 pb b0 -> finish_bi T b0 = Ok b -> Rbi T pb b /\ ents_bi0 b0 = ents_bi b.
Proof.
  intros T pb [cb sx] b HR H. unfold Rbi0 in HR. cbn [c0 c0_symx] in HR.
  destruct HR as [Eu [Ea [Esz [Ect [HFb [Esx [Hle Hok]]]]]]].
  destruct (bi_msg_ok_inv _ Hok) as [_ [_ [Hx_ok [Hkeys Hbytes]]]].
  unfold finish_bi in H. cbn [c0 c0_symx] in H. bind_inv H xs Hxs. injection H as <-.
  apply map_res0_Forall2 in Hxs. subst sx.
  assert (HFx : Forall2 (Rx T) (bi_symx pb) xs).
  { apply (Forall2_Forall_l _ (fun kv => exprval_ok (x_val (snd kv)) = true)) in Hxs;
      [|apply forallb_Forall; exact Hx_ok].
    revert Hxs. apply Forall2_impl. intros kv kv' [Hkv Hd]. exact (decode_expr_inv _ _ _ Hd Hkv). }
  split; [|reflexivity]. unfold Rbi. split; [|split].
  - unfold bi_to_proto, norm_bi. cbn [ci_uuid ci_addr ci_size ci_contents ci_blocks ci_symx].
    rewrite Eu, Ea, Esz, Ect.
    assert (Eb : map block_to_proto (ci_blocks cb) = bi_blocks pb).
    { rewrite <- (map_id (bi_blocks pb)). apply Forall2_map_eq.
      revert HFb. apply Forall2_impl. intros x y [Hxy _]. exact Hxy. }
    assert (Ex : map (fun kv => (fst kv, expr_to_proto (snd kv))) xs
                 = map (fun kv => (fst kv, norm_expr (snd kv))) (bi_symx pb)).
    { apply Forall2_map_eq. revert HFx. apply Forall2_impl.
      intros x y [H1 [H2 _]]. rewrite H1, H2. reflexivity. }
    rewrite Eb, Ex. destruct (bi_has_addr pb); reflexivity.
  - unfold bi_ok. cbn [ci_uuid ci_addr ci_size ci_contents ci_blocks ci_symx].
    rewrite Esz, Ect. repeat rewrite andb_true_iff. repeat split.
    + apply Z.leb_le. exact Hle.
    + exact Hbytes.
    + apply (Forall2_forallb_r _ _ _ _ HFb). intros x y [_ Hdm]. exact Hdm.
    + assert (Ek : map fst xs = map fst (bi_symx pb)).
      { apply Forall2_map_eq. revert HFx. apply Forall2_impl. intros x y [H1 _]. exact H1. }
      rewrite Ek. exact Hkeys.
    + apply (Forall2_forallb_r _ _ _ _ HFx). intros x y [_ [_ [_ Hnd]]]. exact Hnd.
  - cbn [ci_symx]. intros kv y Hkv Hy.
    destruct (Forall2_in_r _ _ _ HFx kv Hkv) as [pkv [_ [_ [_ [Hs _]]]]]. exact (Hs y Hy).
Qed.

Lemma Rbi_mono : forall t t' pb b, incl t t' -> Rbi t pb b -> Rbi t' pb b.
Proof.
  intros t t' pb b Hi [H1 [H2 H3]]. split; [exact H1|]. split; [exact H2|].
  intros kv y Hkv Hy. apply Hi. exact (H3 kv y Hkv Hy).
Qed.

(* ------------------------------------------------------------------ *)
(* sections, second stage                                               *)
(* ------------------------------------------------------------------ *)
Definition ents_sec (s : cSection) : table := rflat ents_bi (cs_bis s) ++ [(cs_uuid s, NSec)].
Definition sec_local_ok (s : cSection) : bool :=
  forallb (enum_ok "SectionFlag") (cs_flags s) && nodup_z (cs_flags s) && forallb bi_ok (cs_bis s).
Definition Rsec (T : table) (ps : pSection) (s : cSection) : Prop :=
  section_to_proto s = norm_section ps /\ sec_local_ok s = true
  /\ forall b kv y, In b (cs_bis s) -> In kv (ci_symx b) -> In y (expr_syms (snd kv)) -> In (y, NSym) T.

Lemma finish_section_inv : forall T ps s0 s,
  Rsec0 ps s0 -> finish_section T s0 = Ok s -> Rsec T ps s /\ ents_sec0 s0 = ents_sec s.
Proof.
  intros T ps [[[u nm] fl] bis0] s HR H. unfold Rsec0 in HR. destruct HR as [Eu [Enm [Efl [Hfl HF0]]]].
  unfold finish_section in H. bind_inv H bs Hbs. injection H as <-.
  apply map_res0_Forall2 in Hbs.
  pose proof (Forall2_comp _ _ _ _ HF0 _ Hbs) as HF. cbn beta in HF.
  assert (HF' : Forall2 (fun pb b => Rbi T pb b /\ exists b0, Rbi0 pb b0 /\ ents_bi0 b0 = ents_bi b) (s_bis ps) bs).
  { revert HF. apply Forall2_impl. intros pb b [b0 [H0 Hfin]].
    destruct (finish_bi_inv _ _ _ _ H0 Hfin) as [H1 H2]. split; [exact H1|]. exists b0. split; assumption. }
  split.
  - unfold Rsec. split; [|split].
    + unfold section_to_proto, norm_section. cbn [cs_uuid cs_name cs_flags cs_bis]. rewrite Eu, Enm, Efl.
      assert (Eb : map bi_to_proto bs = map norm_bi (s_bis ps)).
      { apply Forall2_map_eq. revert HF'. apply Forall2_impl. intros x y [[H1 _] _]. exact H1. }
      rewrite Eb. reflexivity.
    + unfold sec_local_ok. cbn [cs_flags cs_bis]. subst fl.
      rewrite (dedup_z_forallb _ _ Hfl), dedup_z_nodup. cbn [andb].
      apply (Forall2_forallb_r _ _ _ _ HF'). intros x y [[_ [H2 _]] _]. exact H2.
    + cbn [cs_bis]. intros b kv y Hb Hkv Hy.
      destruct (Forall2_in_r _ _ _ HF' b Hb) as [pb [_ [[_ [_ H3]] _]]]. exact (H3 kv y Hkv Hy).
  - unfold ents_sec0, ents_sec. cbn [cs_bis cs_uuid]. f_equal.
    apply rflat_ext2. revert Hbs HF0. clear. intros Hbs HF0.
    revert Hbs. apply Forall2_impl_in. intros b0 b Hb0 Hb Hfin.
    destruct (Forall2_in_r _ _ _ HF0 b0 Hb0) as [pb [_ H0]].
    exact (proj2 (finish_bi_inv _ _ _ _ H0 Hfin)).
Qed.

Lemma Rsec_mono : forall t t' ps s, incl t t' -> Rsec t ps s -> Rsec t' ps s.
Proof.
  intros t t' ps s Hi [H1 [H2 H3]]. split; [exact H1|]. split; [exact H2|].
  intros b kv y Hb Hkv Hy. apply Hi. exact (H3 b kv y Hb Hkv Hy).
Qed.

(* ------------------------------------------------------------------ *)
(* modules                                                              *)
(* ------------------------------------------------------------------ *)
Definition ents_module (cm : cModule) : table :=
  rflat ents_sym (cm_symbols cm) ++ rflat ents_sec (cm_sections cm) ++ rflat ents_proxy (cm_proxies cm)
  ++ [(cm_uuid cm, NMod)].

Definition Rmod (T : table) (pm : pModule) (cm : cModule) : Prop :=
  module_to_proto cm = norm_module pm
  /\ enum_ok "ISA" (cm_isa cm) && enum_ok "FileFormat" (cm_file_format cm) && enum_ok "ByteOrder" (cm_byte_order cm) = true
  /\ forallb sec_local_ok (cm_sections cm) = true
  /\ (forall e, cm_entry cm = Some e -> In (e, NCode) T)
  /\ (forall y r, In y (cm_symbols cm) -> cy_payload y = CPRef r -> exists k, In (r, k) T /\ is_block_kind k = true)
  /\ (forall s b kv y, In s (cm_sections cm) -> In b (cs_bis s) -> In kv (ci_symx b) -> In y (expr_syms (snd kv)) ->
                       In (y, NSym) T).

Lemma Rmod_mono : forall t t' pm cm, incl t t' -> Rmod t pm cm -> Rmod t' pm cm.
Proof.
  intros t t' pm cm Hi [H1 [H2 [H3 [H4 [H5 H6]]]]].
  split; [exact H1|]. split; [exact H2|]. split; [exact H3|]. split; [|split].
  - intros e He. apply Hi. exact (H4 e He).
  - intros y r Hy Hr. destruct (H5 y r Hy Hr) as [k [Hk Hb]]. exists k. split; [apply Hi; exact Hk|exact Hb].
  - intros s b kv y Hs Hb Hkv Hy. apply Hi. exact (H6 s b kv y Hs Hb Hkv Hy).
Qed.

Lemma mod_msg_ok_inv : forall m, mod_msg_ok m = true ->
  bytes_ok (m_uuid m) = true /\ forallb sym_msg_ok (m_symbols m) = true /\ forallb bytes_ok (m_proxies m) = true
  /\ forallb sec_msg_ok (m_sections m) = true /\ bytes_ok (m_entry m) = true.
Proof.
  intros m H. unfold mod_msg_ok in H. repeat rewrite andb_true_iff in H.
  destruct H as [[[[H1 H2] H3] H4] H5]. repeat split; assumption.
Qed.

Lemma decode_module_inv : forall t pm cm t3,
  decode_module t pm = Ok (cm, t3) -> mod_msg_ok pm = true -> tinv t ->
  t3 = ents_module cm ++ t /\ tinv t3 /\ Rmod t3 pm cm.
Proof.
  intros t pm cm t3 H Hok Ht. unfold decode_module in H.
  destruct (mod_msg_ok_inv _ Hok) as [Hu_ok [Hsy_ok [Hpx_ok [Hsec_ok Hent_ok]]]].
  bind_inv H u Hu. bind_inv H x1 Hfr. bind_inv H x2 He1. bind_inv H x3 He2. bind_inv H x4 He3.
  bind_inv H r1 Hr1. destruct r1 as [proxies t1]. cbv beta iota in H.
  bind_inv H r2 Hr2. destruct r2 as [secs0 t2]. cbv beta iota in H.
  bind_inv H entry Hent.
  bind_inv H r3 Hr3. destruct r3 as [syms t4]. cbv beta iota in H.
  bind_inv H secs Hsecs. injection H as <- <-.
  assert (Ht0 : tinv ((u, NMod) :: t)).
  { apply tinv_cons; [exact Ht|exact (fresh_notIn _ _ _ _ Hfr)|exact (uuid_of_bytes_range _ _ Hu Hu_ok)]. }
  apply map_decode_proxy_inv in Hr1; [|apply forallb_Forall; exact Hpx_ok|exact Ht0].
  destruct Hr1 as [E1 [Ht1 HFp]].
  apply map_decode_section_inv in Hr2; [|apply forallb_Forall; exact Hsec_ok|exact Ht1].
  destruct Hr2 as [E2 [Ht2 HFs0]].
  apply map_decode_symbol_inv in Hr3; [|apply forallb_Forall; exact Hsy_ok|exact Ht2].
  destruct Hr3 as [E3 [Ht3 HFy]].
  apply map_res0_Forall2 in Hsecs.
  assert (HFs : Forall2 (Rsec t4) (m_sections pm) secs).
  { pose proof (Forall2_comp _ _ _ _ HFs0 _ Hsecs) as HF. revert HF. apply Forall2_impl.
    intros ps s [s0 [H0 Hfin]]. exact (proj1 (finish_section_inv _ _ _ _ H0 Hfin)). }
  assert (Esecs : rflat ents_sec0 secs0 = rflat ents_sec secs).
  { apply rflat_ext2. revert Hsecs. apply Forall2_impl_in. intros s0 s Hs0 Hs Hfin.
    destruct (Forall2_in_r _ _ _ HFs0 s0 Hs0) as [ps [_ H0]].
    exact (proj2 (finish_section_inv _ _ _ _ H0 Hfin)). }
  assert (Hentry : match entry with Some e => bytes_of_uuid e | None => [] end = m_entry pm
                   /\ forall e, entry = Some e -> In (e, NCode) t2).
  { destruct (m_entry pm) as [|b0 bs].
    - injection Hent as <-. split; [reflexivity|]. intros e He. discriminate He.
    - bind_inv Hent e0 He0. injection Hent as <-. apply resolve_ok in He0.
      destruct He0 as [He0 [k [Hk Hb]]]. apply nkind_eqb_eq in Hb. subst k.
      split; [exact (bytes_of_uuid_of_bytes _ _ He0 Hent_ok)|].
      intros e He. injection He as <-. exact Hk. }
  destruct Hentry as [Eentry Hentry].
  assert (Hi24 : incl t2 t4) by (rewrite E3; apply incl_appr; apply incl_refl).
  split; [|split].
  - unfold ents_module. cbn [cm_symbols cm_sections cm_proxies cm_uuid].
    rewrite E3, E2, E1, Esecs. repeat rewrite <- app_assoc. reflexivity.
  - exact Ht3.
  - unfold Rmod. cbn [cm_uuid cm_name cm_binary_path cm_isa cm_file_format cm_byte_order cm_preferred_addr
                       cm_rebase_delta cm_entry cm_proxies cm_sections cm_symbols cm_aux].
    split; [|split; [|split; [|split; [|split]]]].
    + unfold module_to_proto, norm_module.
      cbn [cm_uuid cm_name cm_binary_path cm_isa cm_file_format cm_byte_order cm_preferred_addr
           cm_rebase_delta cm_entry cm_proxies cm_sections cm_symbols cm_aux].
      rewrite (bytes_of_uuid_of_bytes _ _ Hu Hu_ok), Eentry.
      assert (Ey : map symbol_to_proto syms = m_symbols pm).
      { rewrite <- (map_id (m_symbols pm)). apply Forall2_map_eq. revert HFy. apply Forall2_impl.
        intros x y [Hxy _]. exact Hxy. }
      assert (Ep : map bytes_of_uuid proxies = m_proxies pm).
      { rewrite <- (map_id (m_proxies pm)). apply Forall2_map_eq. revert HFp. apply Forall2_impl.
        intros x y Hxy. exact Hxy. }
      assert (Es : map section_to_proto secs = map norm_section (m_sections pm)).
      { apply Forall2_map_eq. revert HFs. apply Forall2_impl. intros x y [Hxy _]. exact Hxy. }
      rewrite Ey, Ep, Es. reflexivity.
    + rewrite (check_enum_ok _ _ _ He1), (check_enum_ok _ _ _ He2), (check_enum_ok _ _ _ He3). reflexivity.
    + apply (Forall2_forallb_r _ _ _ _ HFs). intros x y [_ [H2 _]]. exact H2.
    + intros e He. apply Hi24. exact (Hentry e He).
    + intros y r Hy Hr. destruct (Forall2_in_r _ _ _ HFy y Hy) as [py [_ [_ H2]]]. exact (H2 r Hr).
    + intros s b kv y Hs Hb Hkv Hy.
      destruct (Forall2_in_r _ _ _ HFs s Hs) as [ps [_ [_ [_ H3]]]]. exact (H3 b kv y Hb Hkv Hy).
Qed.

Lemma map_decode_module_inv : forall l t ys t',
  map_res decode_module t l = Ok (ys, t') -> Forall (fun m => mod_msg_ok m = true) l -> tinv t ->
  t' = rflat ents_module ys ++ t /\ tinv t' /\ Forall2 (Rmod t') l ys.
Proof.
  intros l t ys t' H HP Ht.
  apply (map_res_inv decode_module ents_module (fun m => mod_msg_ok m = true) Rmod) in H;
    [exact H| |exact Rmod_mono|exact HP|exact Ht].
  intros t0 x y t1 H0 Hx Ht0. exact (decode_module_inv _ _ _ _ H0 Hx Ht0).
Qed.

(* ------------------------------------------------------------------ *)
(* what the entries of a module are                                     *)
(* ------------------------------------------------------------------ *)
Lemma ents_bi_cases : forall b u k, In (u, k) (ents_bi b) ->
  (exists bl, In bl (ci_blocks b) /\ u = cb_uuid bl /\ k = kind_of_block bl) \/ (k = NBI /\ u = ci_uuid b).
Proof.
  intros b u k H. unfold ents_bi in H. apply in_app_iff in H. destruct H as [H|[H|[]]].
  - left. apply rflat_In in H. destruct H as [bl [Hbl [H|[]]]]. injection H as <- <-.
    exists bl. split; [exact Hbl|]. split; reflexivity.
  - right. injection H as <- <-. split; reflexivity.
Qed.

Lemma ents_sec_cases : forall s u k, In (u, k) (ents_sec s) ->
  (exists b, In b (cs_bis s) /\ In (u, k) (ents_bi b)) \/ (k = NSec /\ u = cs_uuid s).
Proof.
  intros s u k H. unfold ents_sec in H. apply in_app_iff in H. destruct H as [H|[H|[]]].
  - left. apply rflat_In in H. exact H.
  - right. injection H as <- <-. split; reflexivity.
Qed.

Lemma ents_module_cases : forall cm u k, In (u, k) (ents_module cm) ->
  (k = NSym /\ In u (map cy_uuid (cm_symbols cm)))
  \/ (exists s b bl, In s (cm_sections cm) /\ In b (cs_bis s) /\ In bl (ci_blocks b)
                     /\ u = cb_uuid bl /\ k = kind_of_block bl)
  \/ (k = NProxy /\ In u (cm_proxies cm))
  \/ (is_block_kind k = false /\ k <> NSym).
Proof.
  intros cm u k H. unfold ents_module in H.
  apply in_app_iff in H. destruct H as [H|H].
  { left. apply rflat_In in H. destruct H as [y [Hy [H|[]]]]. injection H as <- <-.
    split; [reflexivity|]. apply in_map. exact Hy. }
  apply in_app_iff in H. destruct H as [H|H].
  { apply rflat_In in H. destruct H as [s [Hs H]]. apply ents_sec_cases in H. destruct H as [[b [Hb H]]|[-> _]].
    - apply ents_bi_cases in H. destruct H as [[bl [Hbl [-> ->]]]|[-> _]].
      + right. left. exists s, b, bl. repeat split; assumption.
      + right. right. right. split; [reflexivity|discriminate].
    - right. right. right. split; [reflexivity|discriminate]. }
  apply in_app_iff in H. destruct H as [H|[H|[]]].
  - apply rflat_In in H. destruct H as [x [Hx [H|[]]]]. injection H as <- <-.
    right. right. left. split; [reflexivity|exact Hx].
  - injection H as <- <-. right. right. right. split; [reflexivity|discriminate].
Qed.

Lemma In_module_blocks : forall cm s b bl,
  In s (cm_sections cm) -> In b (cs_bis s) -> In bl (ci_blocks b) -> In bl (module_blocks cm).
Proof.
  intros cm s b bl Hs Hb Hbl. unfold module_blocks. apply in_flat_map. exists s. split; [exact Hs|].
  apply in_flat_map. exists b. split; assumption.
Qed.

Lemma ents_module_sym : forall cm u, In (u, NSym) (ents_module cm) -> In u (map cy_uuid (cm_symbols cm)).
Proof.
  intros cm u H. apply ents_module_cases in H.
  destruct H as [[_ H]|[[s [b [bl [_ [_ [_ [_ H]]]]]]]|[[H _]|[_ H]]]].
  - exact H.
  - unfold kind_of_block in H. destruct (cb_code bl); discriminate H.
  - discriminate H.
  - exfalso. apply H. reflexivity.
Qed.

Lemma ents_module_code : forall cm u, In (u, NCode) (ents_module cm) -> In u (code_uuids cm).
Proof.
  intros cm u H. apply ents_module_cases in H.
  destruct H as [[H _]|[[s [b [bl [Hs [Hb [Hbl [-> H]]]]]]]|[[H _]|[H _]]]]; try discriminate H.
  unfold code_uuids. apply in_flat_map. exists bl. split; [exact (In_module_blocks _ _ _ _ Hs Hb Hbl)|].
  unfold kind_of_block in H. destruct (cb_code bl); [left; reflexivity|discriminate H].
Qed.

Lemma ents_module_block : forall cm u k,
  In (u, k) (ents_module cm) -> is_block_kind k = true -> In u (block_uuids cm).
Proof.
  intros cm u k H Hk. apply ents_module_cases in H. unfold block_uuids. apply in_app_iff.
  destruct H as [[-> _]|[[s [b [bl [Hs [Hb [Hbl [-> _]]]]]]]|[[_ H]|[H _]]]].
  - discriminate Hk.
  - left. apply in_map. exact (In_module_blocks _ _ _ _ Hs Hb Hbl).
  - right. exact H.
  - rewrite H in Hk. discriminate Hk.
Qed.

Lemma ents_module_cfg : forall cm u k,
  In (u, k) (ents_module cm) -> is_cfg_kind k = true -> In u (module_cfg_nodes cm).
Proof.
  intros cm u k H Hk. apply ents_module_cases in H. unfold module_cfg_nodes. apply in_app_iff.
  destruct H as [[-> _]|[[s [b [bl [Hs [Hb [Hbl [-> ->]]]]]]]|[[_ H]|[H _]]]].
  - discriminate Hk.
  - left. apply in_flat_map. exists s. split; [exact Hs|]. apply in_flat_map. exists b. split; [exact Hb|].
    apply in_flat_map. exists bl. split; [exact Hbl|].
    unfold kind_of_block in Hk. destruct (cb_code bl); [left; reflexivity|discriminate Hk].
  - right. exact H.
  - destruct k; try discriminate Hk; discriminate H.
Qed.

(* the UUIDs of the entries are the UUIDs of the module *)
Lemma perm3 : forall (A B C : list Z) x, Permutation (A ++ B ++ C ++ [x]) (x :: C ++ B ++ A).
Proof.
  intros A B C x. eapply Permutation_trans; [|apply Permutation_sym; apply Permutation_cons_append].
  replace (A ++ B ++ C ++ [x]) with ((A ++ B ++ C) ++ [x]) by (repeat rewrite <- app_assoc; reflexivity).
  apply Permutation_app_tail.
  eapply Permutation_trans; [apply Permutation_app_comm|]. rewrite (app_assoc C B A).
  apply Permutation_app_tail. apply Permutation_app_comm.
Qed.

Lemma ents_block_perm : forall bl, Permutation (tdom (ents_block bl)) [cb_uuid bl].
Proof. intros bl. apply Permutation_refl. Qed.

Lemma ents_bi_perm : forall b, Permutation (tdom (ents_bi b)) (ci_uuid b :: map cb_uuid (ci_blocks b)).
Proof.
  intros b. unfold ents_bi. rewrite tdom_app. cbn [tdom map fst].
  eapply Permutation_trans; [apply Permutation_sym; apply Permutation_cons_append|].
  apply perm_skip. rewrite <- flat_map_single. apply (rflat_perm ents_block (fun bl => [cb_uuid bl]) ents_block_perm).
Qed.

Lemma ents_sec_perm : forall s,
  Permutation (tdom (ents_sec s)) (cs_uuid s :: flat_map (fun b => ci_uuid b :: map cb_uuid (ci_blocks b)) (cs_bis s)).
Proof.
  intros s. unfold ents_sec. rewrite tdom_app. cbn [tdom map fst].
  eapply Permutation_trans; [apply Permutation_sym; apply Permutation_cons_append|].
  apply perm_skip. apply (rflat_perm ents_bi _ ents_bi_perm).
Qed.

Lemma ents_module_perm : forall cm, Permutation (tdom (ents_module cm)) (all_uuids_module cm).
Proof.
  intros cm. unfold ents_module, all_uuids_module. repeat rewrite tdom_app. cbn [tdom map fst].
  eapply Permutation_trans; [apply perm3|]. apply perm_skip.
  apply Permutation_app; [|apply Permutation_app].
  - rewrite <- (map_id (cm_proxies cm)) at 2. rewrite <- flat_map_single.
    apply (rflat_perm ents_proxy (fun u => [u])). intros u. apply Permutation_refl.
  - apply (rflat_perm ents_sec _ ents_sec_perm).
  - rewrite <- flat_map_single. apply (rflat_perm ents_sym (fun y => [cy_uuid y])). intros y. apply Permutation_refl.
Qed.

(* ------------------------------------------------------------------ *)
(* modules_ok                                                           *)
(* ------------------------------------------------------------------ *)
Definition acc_inv (t : table) (codes blocks syms : list Z) : Prop :=
  forall u k, In (u, k) t ->
    (k = NCode -> In u codes) /\ (is_block_kind k = true -> In u blocks) /\ (k = NSym -> In u syms).

Lemma acc_inv_step : forall t codes blocks syms cm,
  acc_inv t codes blocks syms ->
  acc_inv (ents_module cm ++ t) (codes ++ code_uuids cm) (blocks ++ block_uuids cm)
          (syms ++ map cy_uuid (cm_symbols cm)).
Proof.
  intros t codes blocks syms cm Ha u k H. apply in_app_iff in H. destruct H as [H|H].
  - split; [|split]; intros Hk; apply in_app_iff; right.
    + subst k. apply ents_module_code. exact H.
    + exact (ents_module_block _ _ _ H Hk).
    + subst k. apply ents_module_sym. exact H.
  - destruct (Ha u k H) as [H1 [H2 H3]].
    split; [|split]; intros Hk; apply in_app_iff; left; [apply H1|apply H2|apply H3]; exact Hk.
Qed.

Lemma module_ok_accept : forall t codes blocks syms pm cm,
  Rmod (ents_module cm ++ t) pm cm -> acc_inv t codes blocks syms -> module_ok codes blocks syms cm = true.
Proof.
  intros t codes blocks syms pm cm [_ [Hen [Hsec [Hentry [Hsym Hx]]]]] Ha.
  pose proof (acc_inv_step _ _ _ _ cm Ha) as Ha'.
  unfold module_ok. rewrite Hen. cbn [andb].
  repeat rewrite andb_true_iff. split; [split; [split|]|].
  - exact Hsec.
  - destruct (cm_entry cm) as [e|]; [|reflexivity]. apply mem_z_In.
    exact (proj1 (Ha' e NCode (Hentry e eq_refl)) eq_refl).
  - apply forallb_forall. intros y Hy. destruct (cy_payload y) as [|v|r] eqn:Ep; try reflexivity.
    apply mem_z_In. destruct (Hsym y r Hy Ep) as [k [Hk Hb]].
    exact (proj1 (proj2 (Ha' r k Hk)) Hb).
  - apply forallb_forall. intros s Hs. apply forallb_forall. intros b Hb.
    apply forallb_forall. intros kv Hkv. apply forallb_forall. intros y Hy.
    apply mem_z_In. exact (proj2 (proj2 (Ha' y NSym (Hx s b kv y Hs Hb Hkv Hy))) eq_refl).
Qed.

Lemma modules_ok_accept : forall pms t mods t' codes blocks syms,
  map_res decode_module t pms = Ok (mods, t') -> Forall (fun m => mod_msg_ok m = true) pms -> tinv t ->
  acc_inv t codes blocks syms -> modules_ok codes blocks syms mods = true.
Proof.
  induction pms as [|pm pms IH]; intros t mods t' codes blocks syms H HP Ht Ha; cbn [map_res] in H.
  - injection H as <- <-. reflexivity.
  - bind_inv H r Hr. destruct r as [cm t1]. cbv beta iota in H.
    bind_inv H r' Hr'. destruct r' as [mods' t2]. cbv beta iota in H. injection H as <- <-.
    inversion HP as [|x l HPx HPl]; subst.
    destruct (decode_module_inv _ _ _ _ Hr HPx Ht) as [E1 [Ht1 HR]]. subst t1.
    cbn [modules_ok]. rewrite (module_ok_accept _ _ _ _ _ _ HR Ha). cbn [andb].
    apply (IH _ _ _ _ _ _ Hr' HPl Ht1). apply acc_inv_step. exact Ha.
Qed.

(* ------------------------------------------------------------------ *)
(* edges                                                                *)
(* ------------------------------------------------------------------ *)
Definition edge_label_ok (e : cEdge) : bool :=
  match ce_label e with Some (ty, _, _) => enum_ok "EdgeType" ty | None => true end.
Definition Redge (T : table) (pe : pEdge) (e : cEdge) : Prop :=
  edge_to_proto e = pe
  /\ uuid_of_bytes (e_src pe) = Ok (ce_src e) /\ uuid_of_bytes (e_dst pe) = Ok (ce_dst e)
  /\ (exists k, In (ce_src e, k) T /\ is_cfg_kind k = true)
  /\ (exists k, In (ce_dst e, k) T /\ is_cfg_kind k = true)
  /\ edge_label_ok e = true.

Lemma decode_edge_inv : forall T pe e,
  decode_edge T pe = Ok e -> edge_msg_ok pe = true -> Redge T pe e.
Proof.
  intros T [src dst lbl] e H Hok. unfold decode_edge in H. unfold edge_msg_ok in Hok.
  cbn [e_src e_dst e_label] in *. apply andb_true_iff in Hok. destruct Hok as [Hs_ok Hd_ok].
  bind_inv H s Hs. bind_inv H d Hd. bind_inv H l Hl. injection H as <-.
  apply resolve_ok in Hs. destruct Hs as [Hs Hsk]. apply resolve_ok in Hd. destruct Hd as [Hd Hdk].
  unfold Redge. cbn [ce_src ce_dst ce_label e_src e_dst].
  split; [|split; [exact Hs|split; [exact Hd|split; [exact Hsk|split; [exact Hdk|]]]]].
  - unfold edge_to_proto. cbn [ce_src ce_dst ce_label].
    rewrite (bytes_of_uuid_of_bytes _ _ Hs Hs_ok), (bytes_of_uuid_of_bytes _ _ Hd Hd_ok).
    destruct lbl as [[c dr ty]|].
    + bind_inv Hl x He. injection Hl as <-. reflexivity.
    + injection Hl as <-. reflexivity.
  - unfold edge_label_ok. cbn [ce_label]. destruct lbl as [[c dr ty]|].
    + bind_inv Hl x He. injection Hl as <-. cbn [l_type]. exact (check_enum_ok _ _ _ He).
    + injection Hl as <-. reflexivity.
Qed.

Lemma olabel_eqb_eq : forall a b, olabel_eqb a b = true <-> a = b.
Proof.
  intros [[[t1 c1] d1]|] [[[t2 c2] d2]|]; cbn [olabel_eqb]; split; intros H;
    try discriminate H; try reflexivity.
  - repeat rewrite andb_true_iff in H. destruct H as [[H1 H2] H3].
    apply Z.eqb_eq in H1. apply Bool.eqb_prop in H2. apply Bool.eqb_prop in H3. subst. reflexivity.
  - injection H as -> -> ->. rewrite Z.eqb_refl, !Bool.eqb_reflx. reflexivity.
Qed.

Lemma cedge_eqb_eq : forall a b, cedge_eqb a b = true <-> a = b.
Proof.
  intros [s1 d1 l1] [s2 d2 l2]. unfold cedge_eqb. cbn [ce_src ce_dst ce_label].
  repeat rewrite andb_true_iff. rewrite !Z.eqb_eq, olabel_eqb_eq. split.
  - intros [[-> ->] ->]. reflexivity.
  - intros H. injection H as -> -> ->. repeat split.
Qed.

Lemma existsb_cedge_In : forall e l, existsb (cedge_eqb e) l = true <-> In e l.
Proof.
  intros e l. rewrite existsb_exists. split.
  - intros [x [Hx E]]. apply cedge_eqb_eq in E. subst x. exact Hx.
  - intros H. exists e. split; [exact H|apply cedge_eqb_eq; reflexivity].
Qed.

Lemma dedup_edges_spec : forall l seen,
  NoDup (dedup_edges seen l) /\ forall e, In e (dedup_edges seen l) -> In e l /\ ~ In e seen.
Proof.
  induction l as [|x l IH]; intros seen; cbn [dedup_edges].
  - split; [constructor|intros e []].
  - destruct (existsb (cedge_eqb x) seen) eqn:E.
    + destruct (IH seen) as [H1 H2]. split; [exact H1|].
      intros e He. destruct (H2 e He) as [Ha Hb]. split; [right; exact Ha|exact Hb].
    + destruct (IH (x :: seen)) as [H1 H2]. split.
      * constructor; [|exact H1]. intros Hx. destruct (H2 x Hx) as [_ Hb]. apply Hb. left. reflexivity.
      * intros e [He|He].
        -- subst e. split; [left; reflexivity|]. intros Hin. apply existsb_cedge_In in Hin.
           rewrite Hin in E. discriminate E.
        -- destruct (H2 e He) as [Ha Hb]. split; [right; exact Ha|]. intros Hin. apply Hb. right. exact Hin.
Qed.

Lemma nodup_edges_NoDup : forall l, NoDup l -> nodup_edges l = true.
Proof.
  induction l as [|x l IH]; intros H; cbn [nodup_edges]; [reflexivity|].
  inversion H as [|x' l' Hx Hl]; subst. rewrite (IH Hl), andb_true_r. apply negb_true_iff.
  destruct (existsb (cedge_eqb x) l) eqn:E; [|reflexivity].
  apply existsb_cedge_In in E. contradiction.
Qed.

(* ------------------------------------------------------------------ *)
(* the accepted content                                                 *)
(* ------------------------------------------------------------------ *)
Lemma msg_ok_inv : forall p, msg_ok p = true ->
  bytes_ok (i_uuid p) = true /\ forallb mod_msg_ok (i_modules p) = true /\ forallb edge_msg_ok (i_edges p) = true.
Proof.
  intros p H. unfold msg_ok in H. repeat rewrite andb_true_iff in H. destruct H as [[H1 H2] H3].
  repeat split; assumption.
Qed.

Lemma from_proto_inv : forall p c, msg_ok p = true -> from_proto p = Ok c ->
  exists u t es,
    uuid_of_bytes (i_uuid p) = Ok u /\ i_version p = py_protobuf_version
    /\ map_res decode_module [(u, NIR)] (i_modules p) = Ok (cr_modules c, t)
    /\ t = rflat ents_module (cr_modules c) ++ [(u, NIR)] /\ tinv t
    /\ Forall2 (Rmod t) (i_modules p) (cr_modules c)
    /\ Forall2 (Redge t) (i_edges p) es
    /\ cr_uuid c = u /\ cr_version c = i_version p /\ cr_edges c = dedup_edges [] es /\ cr_aux c = i_aux p.
Proof.
  intros p c Hok H. destruct (msg_ok_inv _ Hok) as [Hu_ok [Hm_ok He_ok]].
  unfold from_proto in H. bind_inv H u Hu.
  destruct (i_version p =? py_protobuf_version) eqn:Ev; cbn [negb] in H; [|discriminate H].
  bind_inv H r Hr. destruct r as [mods t]. cbv beta iota in H.
  bind_inv H es Hes. injection H as <-. cbn [cr_modules].
  assert (Ht0 : tinv [(u, NIR)]).
  { apply tinv_cons; [split; constructor|intros []|exact (uuid_of_bytes_range _ _ Hu Hu_ok)]. }
  pose proof Hr as Hr'.
  apply map_decode_module_inv in Hr'; [|apply forallb_Forall; exact Hm_ok|exact Ht0].
  destruct Hr' as [E [Ht HF]].
  exists u, t, es. split; [exact Hu|]. split; [apply Z.eqb_eq; exact Ev|]. split; [exact Hr|].
  split; [exact E|]. split; [exact Ht|]. split; [exact HF|]. split; [|repeat split].
  apply map_res0_Forall2 in Hes.
  apply (Forall2_Forall_l _ (fun e => edge_msg_ok e = true)) in Hes; [|apply forallb_Forall; exact He_ok].
  revert Hes. apply Forall2_impl. intros pe e [Hpe Hd]. exact (decode_edge_inv _ _ _ Hd Hpe).
Qed.

Lemma final_table_cfg : forall mods u0 x k,
  In (x, k) (rflat ents_module mods ++ [(u0, NIR)]) -> is_cfg_kind k = true ->
  In x (flat_map module_cfg_nodes mods).
Proof.
  intros mods u0 x k H Hk. apply in_app_iff in H. destruct H as [H|[H|[]]].
  - apply rflat_In in H. destruct H as [m [Hm H]]. apply in_flat_map. exists m. split; [exact Hm|].
    exact (ents_module_cfg _ _ _ H Hk).
  - injection H as <- <-. discriminate Hk.
Qed.

Lemma final_table_perm : forall mods u,
  Permutation (tdom (rflat ents_module mods ++ [(u, NIR)])) (u :: flat_map all_uuids_module mods).
Proof.
  intros mods u. rewrite tdom_app. cbn [tdom map fst].
  eapply Permutation_trans; [apply Permutation_sym; apply Permutation_cons_append|].
  apply perm_skip. apply (rflat_perm ents_module _ ents_module_perm).
Qed.

(* (1) the reader accepts only coherent contents *)
Theorem accept_coherent : forall p c, msg_ok p = true -> from_proto p = Ok c -> wf c = true.
Proof.
  intros p c Hok H. destruct (msg_ok_inv _ Hok) as [_ [Hm_ok _]].
  destruct (from_proto_inv _ _ Hok H)
    as [u [t [es [Hu [Hv [Hr [Et [[Hnd Hrng] [HFm [HFe [Ecu [Ecv [Hedges Eaux]]]]]]]]]]]]].
  assert (Hperm : Permutation (tdom t) (all_uuids c)).
  { rewrite Et. unfold all_uuids. rewrite Ecu. apply final_table_perm. }
  assert (Hver : cr_version c = py_protobuf_version) by (rewrite Ecv; exact Hv).
  destruct (dedup_edges_spec es []) as [Hend Hein].
  unfold wf. repeat rewrite andb_true_iff. repeat split.
  - apply forallb_forall. intros x Hx. rewrite Forall_forall in Hrng. apply Hrng.
    apply (Permutation_in _ (Permutation_sym Hperm)). exact Hx.
  - apply nodup_z_NoDup. apply (Permutation_NoDup Hperm). exact Hnd.
  - apply Z.eqb_eq. exact Hver.
  - apply (modules_ok_accept _ _ _ _ _ _ _ Hr); [apply forallb_Forall; exact Hm_ok| |].
    + apply tinv_cons; [split; constructor|intros []|].
      rewrite Forall_forall in Hrng. apply Hrng. rewrite Et, tdom_app. apply in_app_iff. right. left. reflexivity.
    + intros x k [Hx|[]]. injection Hx as <- <-.
      split; [|split]; intros Hk; discriminate Hk.
  - rewrite Hedges. apply forallb_forall. intros e He. destruct (Hein e He) as [He' _].
    destruct (Forall2_in_r _ _ _ HFe e He') as [pe [_ [_ [_ [_ [[k1 [Hk1 Hc1]] [[k2 [Hk2 Hc2]] Hl]]]]]]].
    rewrite Et in Hk1, Hk2.
    repeat rewrite andb_true_iff. split; [split|].
    + apply mem_z_In. exact (final_table_cfg _ _ _ _ Hk1 Hc1).
    + apply mem_z_In. exact (final_table_cfg _ _ _ _ Hk2 Hc2).
    + exact Hl.
  - rewrite Hedges. apply nodup_edges_NoDup. exact Hend.
Qed.

(* ------------------------------------------------------------------ *)
(* corollaries of coherence                                             *)
(* ------------------------------------------------------------------ *)
Lemma wf_inv : forall c, wf c = true ->
  forallb uuid_ok (all_uuids c) = true /\ nodup_z (all_uuids c) = true
  /\ cr_version c = py_protobuf_version /\ modules_ok [] [] [] (cr_modules c) = true
  /\ forallb (fun e => mem_z (ce_src e) (flat_map module_cfg_nodes (cr_modules c))
                       && mem_z (ce_dst e) (flat_map module_cfg_nodes (cr_modules c))
                       && match ce_label e with Some (t, _, _) => enum_ok "EdgeType" t | None => true end)
             (cr_edges c) = true
  /\ nodup_edges (cr_edges c) = true.
Proof.
  intros c H. unfold wf in H. repeat rewrite andb_true_iff in H.
  destruct H as [[[[[H1 H2] H3] H4] H5] H6]. apply Z.eqb_eq in H3. repeat split; assumption.
Qed.

Theorem loaded_unique : forall p c, msg_ok p = true -> from_proto p = Ok c -> NoDup (all_uuids c).
Proof.
  intros p c Hok H. apply nodup_z_NoDup.
  exact (proj1 (proj2 (wf_inv _ (accept_coherent _ _ Hok H)))).
Qed.

Theorem loaded_uuids_in_range : forall p c, msg_ok p = true -> from_proto p = Ok c ->
  forall u, In u (all_uuids c) -> 0 <= u < 2 ^ 128.
Proof.
  intros p c Hok H u Hu.
  pose proof (proj1 (wf_inv _ (accept_coherent _ _ Hok H))) as Hr.
  rewrite forallb_forall in Hr. specialize (Hr u Hu). unfold uuid_ok in Hr.
  apply andb_true_iff in Hr. destruct Hr as [H1 H2]. apply Z.leb_le in H1. apply Z.ltb_lt in H2.
  split; assumption.
Qed.

Definition refs_closed (c : cIR) : Prop :=
  let ms := cr_modules c in
  (forall m y r, In m ms -> In y (cm_symbols m) -> cy_payload y = CPRef r -> In r (flat_map block_uuids ms))
  /\ (forall m e, In m ms -> cm_entry m = Some e -> In e (flat_map code_uuids ms))
  /\ (forall e, In e (cr_edges c) ->
        In (ce_src e) (flat_map module_cfg_nodes ms) /\ In (ce_dst e) (flat_map module_cfg_nodes ms))
  /\ (forall m s b kv y, In m ms -> In s (cm_sections m) -> In b (cs_bis s) -> In kv (ci_symx b) ->
        In y (expr_syms (snd kv)) -> In y (flat_map (fun m' => map cy_uuid (cm_symbols m')) ms)).

Lemma in_app3_l : forall (a b c : list Z) x, In x (a ++ b) -> In x (a ++ b ++ c).
Proof. intros a b c x H. rewrite app_assoc. apply in_app_iff. left. exact H. Qed.

Lemma modules_ok_refs : forall ms codes blocks syms,
  modules_ok codes blocks syms ms = true -> forall m, In m ms ->
  (forall e, cm_entry m = Some e -> In e (codes ++ flat_map code_uuids ms))
  /\ (forall y r, In y (cm_symbols m) -> cy_payload y = CPRef r -> In r (blocks ++ flat_map block_uuids ms))
  /\ (forall s b kv y, In s (cm_sections m) -> In b (cs_bis s) -> In kv (ci_symx b) -> In y (expr_syms (snd kv)) ->
        In y (syms ++ flat_map (fun m' => map cy_uuid (cm_symbols m')) ms)).
Proof.
  induction ms as [|m0 ms IH]; intros codes blocks syms H m Hm; [destruct Hm|].
  cbn [modules_ok] in H. apply andb_true_iff in H. destruct H as [H0 Hrest].
  cbn [flat_map]. destruct Hm as [Hm|Hm].
  - subst m0. unfold module_ok in H0. repeat rewrite andb_true_iff in H0.
    destruct H0 as [[[_ Hent] Hsym] Hx]. split; [|split].
    + intros e He. rewrite He in Hent. apply mem_z_In in Hent. apply in_app3_l. exact Hent.
    + intros y r Hy Hr. rewrite forallb_forall in Hsym. specialize (Hsym y Hy). rewrite Hr in Hsym.
      apply mem_z_In in Hsym. apply in_app3_l. exact Hsym.
    + intros s b kv y Hs Hb Hkv Hy. rewrite forallb_forall in Hx. specialize (Hx s Hs).
      rewrite forallb_forall in Hx. specialize (Hx b Hb). rewrite forallb_forall in Hx. specialize (Hx kv Hkv).
      rewrite forallb_forall in Hx. specialize (Hx y Hy). apply mem_z_In in Hx. apply in_app3_l. exact Hx.
  - destruct (IH _ _ _ Hrest m Hm) as [H1 [H2 H3]]. split; [|split].
    + intros e He. rewrite app_assoc. exact (H1 e He).
    + intros y r Hy Hr. rewrite app_assoc. exact (H2 y r Hy Hr).
    + intros s b kv y Hs Hb Hkv Hy. rewrite app_assoc. exact (H3 s b kv y Hs Hb Hkv Hy).
Qed.

Lemma wf_refs_closed : forall c, wf c = true -> refs_closed c.
Proof.
  intros c H. destruct (wf_inv _ H) as [_ [_ [_ [Hm [He _]]]]].
  pose proof (modules_ok_refs _ _ _ _ Hm) as HR. cbn [app] in HR.
  unfold refs_closed. cbv zeta. split; [|split; [|split]].
  - intros m y r Hm' Hy Hr. exact (proj1 (proj2 (HR m Hm')) y r Hy Hr).
  - intros m e Hm' Hen. exact (proj1 (HR m Hm') e Hen).
  - intros e Hin. rewrite forallb_forall in He. specialize (He e Hin).
    repeat rewrite andb_true_iff in He. destruct He as [[H1 H2] _].
    split; apply mem_z_In; assumption.
  - intros m s b kv y Hm' Hs Hb Hkv Hy. exact (proj2 (proj2 (HR m Hm')) s b kv y Hs Hb Hkv Hy).
Qed.

(* every reference of the loaded content names a node of the loaded content, of an admissible kind *)
Theorem refs_closed_typed : forall p c, msg_ok p = true -> from_proto p = Ok c -> refs_closed c.
Proof. intros p c Hok H. apply wf_refs_closed. exact (accept_coherent _ _ Hok H). Qed.

(* ------------------------------------------------------------------ *)
(* (2) field correspondence                                             *)
(* ------------------------------------------------------------------ *)
Lemma blocks_cfg_to_proto : forall blocks,
  flat_map (fun k => match b_val k with PCode ub _ _ => [ub] | _ => [] end) (map block_to_proto blocks)
  = map bytes_of_uuid (flat_map (fun k => if cb_code k then [cb_uuid k] else []) blocks).
Proof.
  induction blocks as [|k blocks IH]; cbn [map flat_map]; [reflexivity|].
  rewrite map_app, IH. f_equal. unfold block_to_proto. cbn [b_val]. destruct (cb_code k); reflexivity.
Qed.

Lemma bis_cfg_to_proto : forall bis,
  flat_map (fun b => flat_map (fun k => match b_val k with PCode ub _ _ => [ub] | _ => [] end) (bi_blocks b))
           (map bi_to_proto bis)
  = map bytes_of_uuid (flat_map (fun b => flat_map (fun k => if cb_code k then [cb_uuid k] else []) (ci_blocks b)) bis).
Proof.
  induction bis as [|b bis IH]; cbn [map flat_map]; [reflexivity|].
  rewrite map_app, IH. f_equal. unfold bi_to_proto at 1. cbn [bi_blocks]. apply blocks_cfg_to_proto.
Qed.

Lemma secs_cfg_to_proto : forall secs,
  flat_map (fun s => flat_map (fun b => flat_map (fun k => match b_val k with PCode ub _ _ => [ub] | _ => [] end)
                                                 (bi_blocks b)) (s_bis s))
           (map section_to_proto secs)
  = map bytes_of_uuid
        (flat_map (fun s => flat_map (fun b => flat_map (fun k => if cb_code k then [cb_uuid k] else []) (ci_blocks b))
                                     (cs_bis s)) secs).
Proof.
  induction secs as [|s secs IH]; cbn [map flat_map]; [reflexivity|].
  rewrite map_app, IH. f_equal. unfold section_to_proto at 1. cbn [s_bis]. apply bis_cfg_to_proto.
Qed.

Lemma p_cfg_nodes_to_proto : forall cm, p_cfg_nodes (module_to_proto cm) = map bytes_of_uuid (module_cfg_nodes cm).
Proof.
  intros cm. unfold p_cfg_nodes, module_cfg_nodes, module_to_proto. cbn [m_sections m_proxies].
  rewrite map_app, secs_cfg_to_proto. reflexivity.
Qed.

Lemma p_cfg_nodes_norm : forall pm, p_cfg_nodes (norm_module pm) = p_cfg_nodes pm.
Proof.
  intros pm. unfold p_cfg_nodes, norm_module. cbn [m_sections m_proxies]. f_equal.
  rewrite flat_map_map. apply flat_map_ext. intros s. unfold norm_section. cbn [s_bis].
  rewrite flat_map_map. apply flat_map_ext. intros b. reflexivity.
Qed.

Lemma plabel_eqb_eq : forall a b, plabel_eqb a b = true <-> a = b.
Proof.
  intros [[c1 d1 t1]|] [[c2 d2 t2]|]; cbn [plabel_eqb l_type l_cond l_direct]; split; intros H;
    try discriminate H; try reflexivity.
  - repeat rewrite andb_true_iff in H. destruct H as [[H1 H2] H3].
    apply Z.eqb_eq in H1. apply Bool.eqb_prop in H2. apply Bool.eqb_prop in H3. subst. reflexivity.
  - injection H as -> -> ->. rewrite Z.eqb_refl, !Bool.eqb_reflx. reflexivity.
Qed.

Lemma pedge_eqb_eq : forall a b, pedge_eqb a b = true <-> a = b.
Proof.
  intros [s1 d1 l1] [s2 d2 l2]. unfold pedge_eqb. cbn [e_src e_dst e_label].
  repeat rewrite andb_true_iff. rewrite !zs_eqb_eq, plabel_eqb_eq. split.
  - intros [[-> ->] ->]. reflexivity.
  - intros H. injection H as -> -> ->. repeat split.
Qed.

Lemma existsb_pedge_In : forall e l, existsb (pedge_eqb e) l = true <-> In e l.
Proof.
  intros e l. rewrite existsb_exists. split.
  - intros [x [Hx E]]. apply pedge_eqb_eq in E. subst x. exact Hx.
  - intros H. exists e. split; [exact H|apply pedge_eqb_eq; reflexivity].
Qed.

Definition edge_rt (e : cEdge) : Prop :=
  uuid_of_bytes (bytes_of_uuid (ce_src e)) = Ok (ce_src e) /\ uuid_of_bytes (bytes_of_uuid (ce_dst e)) = Ok (ce_dst e).

Lemma edge_to_proto_inj : forall a b, edge_rt a -> edge_rt b -> edge_to_proto a = edge_to_proto b -> a = b.
Proof.
  intros [s1 d1 l1] [s2 d2 l2] [Ha1 Ha2] [Hb1 Hb2] H.
  pose proof (f_equal e_src H) as Hs. pose proof (f_equal e_dst H) as Hd. pose proof (f_equal e_label H) as Hl.
  clear H. unfold edge_to_proto in Hs, Hd, Hl. cbn [ce_src ce_dst ce_label e_src e_dst e_label] in *.
  rewrite Hs in Ha1. rewrite Ha1 in Hb1. injection Hb1 as ->.
  rewrite Hd in Ha2. rewrite Ha2 in Hb2. injection Hb2 as ->.
  f_equal. destruct l1 as [[[t1 c1] r1]|], l2 as [[[t2 c2] r2]|]; try discriminate Hl; [|reflexivity].
  injection Hl as -> -> ->. reflexivity.
Qed.

Lemma bool_eq_iff : forall a b : bool, (a = true <-> b = true) -> a = b.
Proof. intros [|] [|] [H1 H2]; try reflexivity; [symmetry; apply H1; reflexivity|apply H2; reflexivity]. Qed.

Lemma dedup_edges_to_proto : forall es seen,
  Forall edge_rt es -> Forall edge_rt seen ->
  map edge_to_proto (dedup_edges seen es) = dedup_pedges (map edge_to_proto seen) (map edge_to_proto es).
Proof.
  induction es as [|e es IH]; intros seen Hes Hseen; cbn [dedup_edges dedup_pedges map]; [reflexivity|].
  inversion Hes as [|e' es' He Hes']; subst.
  assert (E : existsb (cedge_eqb e) seen = existsb (pedge_eqb (edge_to_proto e)) (map edge_to_proto seen)).
  { apply bool_eq_iff. rewrite existsb_cedge_In, existsb_pedge_In. split.
    - intros Hin. apply in_map. exact Hin.
    - intros Hin. apply in_map_iff in Hin. destruct Hin as [x [Hx Hin]].
      rewrite Forall_forall in Hseen. rewrite (edge_to_proto_inj e x He (Hseen x Hin) (eq_sym Hx)). exact Hin. }
  rewrite <- E. destruct (existsb (cedge_eqb e) seen).
  - apply IH; assumption.
  - cbn [map]. f_equal. apply (IH (e :: seen)); [assumption|constructor; assumption].
Qed.

Theorem reader_fields : forall p c, msg_ok p = true -> from_proto p = Ok c -> to_proto c = msg_norm p.
Proof.
  intros p c Hok H. destruct (msg_ok_inv _ Hok) as [Hu_ok _].
  destruct (from_proto_inv _ _ Hok H)
    as [u [t [es [Hu [Hv [Hr [Et [_ [HFm [HFe [Ecu [Ecv [Hedges Eaux]]]]]]]]]]]]].
  assert (Em : map module_to_proto (cr_modules c) = map norm_module (i_modules p)).
  { apply Forall2_map_eq. revert HFm. apply Forall2_impl. intros x y [Hxy _]. exact Hxy. }
  assert (Ev : map bytes_of_uuid (flat_map module_cfg_nodes (cr_modules c)) = flat_map p_cfg_nodes (i_modules p)).
  { rewrite map_flat_map.
    rewrite (flat_map_ext _ (fun m => p_cfg_nodes (module_to_proto m)))
      by (intros m; symmetry; apply p_cfg_nodes_to_proto).
    rewrite <- (flat_map_map module_to_proto p_cfg_nodes), Em, flat_map_map.
    apply flat_map_ext. intros m. apply p_cfg_nodes_norm. }
  assert (Ees : map edge_to_proto es = i_edges p).
  { rewrite <- (map_id (i_edges p)). apply Forall2_map_eq. revert HFe. apply Forall2_impl.
    intros x y [Hxy _]. exact Hxy. }
  assert (Hrt : Forall edge_rt es).
  { apply Forall_forall. intros e He. destruct (Forall2_in_r _ _ _ HFe e He) as [pe [_ [E1 [E2 [E3 _]]]]].
    subst pe. unfold edge_to_proto in E2, E3. cbn [e_src e_dst] in E2, E3. split; assumption. }
  assert (Ee : map edge_to_proto (dedup_edges [] es) = dedup_pedges [] (i_edges p)).
  { rewrite (dedup_edges_to_proto es [] Hrt (Forall_nil _)). cbn [map]. rewrite Ees. reflexivity. }
  unfold to_proto, msg_norm. rewrite Ecu, Ecv, Eaux, Hedges, Em, Ev, Ee.
  rewrite (bytes_of_uuid_of_bytes _ _ Hu Hu_ok). reflexivity.
Qed.

(* ------------------------------------------------------------------ *)
(* non-vacuity: an accepted message with duplicated flags, attributes and edges, an absent address with a stale
   bi_addr, an entry point, a proxy, a symbol referring to a block, an expression naming a symbol *)
(* ------------------------------------------------------------------ *)
Definition ex_uuid (n : Z) : list Z := repeat 0 14 ++ [n; 255].
Definition ex_edge (l : option pLabel) : pEdge := {| e_src := ex_uuid 5; e_dst := ex_uuid 7; e_label := l |}.
Definition ex_msg : pIR :=
  {| i_uuid := ex_uuid 1;
     i_modules :=
       [ {| m_uuid := ex_uuid 2; m_binary_path := [47]; m_preferred_addr := 0; m_rebase_delta := 0;
            m_file_format := 2; m_isa := 3; m_name := [109];
            m_symbols := [ {| y_uuid := ex_uuid 8; y_payload := PPRef (ex_uuid 5); y_name := [102]; y_at_end := false |};
                           {| y_uuid := ex_uuid 9; y_payload := PPValue 0; y_name := []; y_at_end := true |} ];
            m_proxies := [ex_uuid 7];
            m_sections :=
              [ {| s_uuid := ex_uuid 3; s_name := [46];
                   s_bis := [ {| bi_uuid := ex_uuid 4;
                                 bi_blocks := [ {| b_off := 0; b_val := PCode (ex_uuid 5) 2 0 |};
                                                {| b_off := 2; b_val := PData (ex_uuid 6) 2 |} ];
                                 bi_symx := [ (1, {| x_val := PAddrConst 0 (ex_uuid 8); x_attrs := [0; 0; 4] |}) ];
                                 bi_has_addr := false; bi_addr := 77;
                                 bi_size := 4; bi_contents := [1; 2; 255] |} ];
                   s_flags := [1; 1; 3] |} ];
            m_aux := []; m_entry := ex_uuid 5; m_byte_order := 2 |} ];
     i_aux := []; i_version := py_protobuf_version; i_vertices := [];
     i_edges := [ ex_edge None; ex_edge (Some {| l_cond := false; l_direct := true; l_type := 1 |}); ex_edge None ] |}.

Lemma ex_msg_accepted :
  msg_ok ex_msg = true /\ (exists c, from_proto ex_msg = Ok c /\ length (cr_edges c) = 2%nat)
  /\ msg_norm ex_msg <> ex_msg.
Proof.
  split; [vm_compute; reflexivity|]. split.
  - eexists. split; vm_compute; reflexivity.
  - intros H. apply (f_equal (fun p => length (i_edges p))) in H. vm_compute in H. discriminate H.
Qed.

(* ------------------------------------------------------------------ *)
Print Assumptions accept_coherent.
Print Assumptions loaded_unique.
Print Assumptions loaded_uuids_in_range.
Print Assumptions refs_closed_typed.
Print Assumptions reader_fields.
Print Assumptions bytes_of_uuid_of_bytes.
Print Assumptions reject_only.
Print Assumptions resolve_dangling.
Print Assumptions resolve_illtyped.
Print Assumptions resolve_badlen.
Print Assumptions bad_uuid_len.
Print Assumptions bad_enum.
Print Assumptions block_without_payload.
Print Assumptions expr_without_value.
Print Assumptions bytes_beyond_size.
Print Assumptions wrong_version.
Print Assumptions dup_rejected.
Print Assumptions dup_other_kind.
Print Assumptions fresh_never_impossible.
Print Assumptions fresh_err_iff.
Print Assumptions from_proto_never_impossible.
Print Assumptions header_gate.
Print Assumptions header_reject.
Print Assumptions load_accept.
Print Assumptions load_reject.
Print Assumptions ex_msg_accepted.
