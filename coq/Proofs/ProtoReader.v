(* Task PR2: whatever message the reader accepts yields a coherent content whose every attribute equals the
   corresponding message field.  Generic lemmas, rejection classes (3) and the header gate (4) are in ProtoReaderBase.v.

   Termination/totality of from_proto is by construction (structural recursion only), see ProtoReaderBase.v. *)
From Coq Require Import String ZArith List Bool Lia Permutation.
From V Require Import Result Bytes BytesProofs PyFacts Proto ProtoReaderBase.
Import ListNotations.
Open Scope list_scope.
Open Scope Z_scope.

(* ------------------------------------------------------------------ *)
(* schema-level validity of a message (what protobuf itself guarantees) *)
(* ------------------------------------------------------------------ *)
Definition bytes_ok (bs : list Z) : bool := forallb is_byte bs.
Definition blockval_ok (v : pBlockVal) : bool :=
  match v with PCode ub _ _ => bytes_ok ub | PData ub _ => bytes_ok ub | PNoBlock => true end.
Definition exprval_ok (v : pExprVal) : bool :=
  match v with
  | PAddrConst _ s => bytes_ok s
  | PAddrAddr _ _ s1 s2 => bytes_ok s1 && bytes_ok s2
  | PNoExpr => true
  end.
Definition bi_msg_ok (b : pBI) : bool :=
  bytes_ok (bi_uuid b) && forallb (fun k => blockval_ok (b_val k)) (bi_blocks b)
  && forallb (fun kv => exprval_ok (x_val (snd kv))) (bi_symx b) && nodup_z (map fst (bi_symx b))
  && forallb byte_ok (bi_contents b).
Definition sec_msg_ok (s : pSection) : bool := bytes_ok (s_uuid s) && forallb bi_msg_ok (s_bis s).
Definition sym_msg_ok (y : pSymbol) : bool :=
  bytes_ok (y_uuid y) && match y_payload y with PPRef u => bytes_ok u | _ => true end.
Definition mod_msg_ok (m : pModule) : bool :=
  bytes_ok (m_uuid m) && forallb sym_msg_ok (m_symbols m) && forallb bytes_ok (m_proxies m)
  && forallb sec_msg_ok (m_sections m) && bytes_ok (m_entry m).
Definition edge_msg_ok (e : pEdge) : bool := bytes_ok (e_src e) && bytes_ok (e_dst e).
(* every uuid / reference byte string the reader looks at and every contents byte is in [0,256);
   the keys of every bi_symx map are pairwise distinct.  (i_vertices is not read by the reader: no condition.) *)
Definition msg_ok (p : pIR) : bool :=
  bytes_ok (i_uuid p) && forallb mod_msg_ok (i_modules p) && forallb edge_msg_ok (i_edges p).

(* ------------------------------------------------------------------ *)
(* normal form of a message                                             *)
(* ------------------------------------------------------------------ *)
Definition norm_expr (x : pExpr) : pExpr := {| x_val := x_val x; x_attrs := dedup_z (x_attrs x) |}.
Definition norm_bi (b : pBI) : pBI :=
  {| bi_uuid := bi_uuid b; bi_blocks := bi_blocks b;
     bi_symx := map (fun kv => (fst kv, norm_expr (snd kv))) (bi_symx b);
     bi_has_addr := bi_has_addr b; bi_addr := if bi_has_addr b then bi_addr b else 0;
     bi_size := bi_size b; bi_contents := bi_contents b |}.
Definition norm_section (s : pSection) : pSection :=
  {| s_uuid := s_uuid s; s_name := s_name s; s_bis := map norm_bi (s_bis s); s_flags := dedup_z (s_flags s) |}.
Definition norm_module (m : pModule) : pModule :=
  {| m_uuid := m_uuid m; m_binary_path := m_binary_path m; m_preferred_addr := m_preferred_addr m;
     m_rebase_delta := m_rebase_delta m; m_file_format := m_file_format m; m_isa := m_isa m; m_name := m_name m;
     m_symbols := m_symbols m; m_proxies := m_proxies m; m_sections := map norm_section (m_sections m);
     m_aux := m_aux m; m_entry := m_entry m; m_byte_order := m_byte_order m |}.
(* the vertex list the writer produces: per module the code blocks in section/interval/block order, then the proxies *)
Definition p_cfg_nodes (m : pModule) : list (list Z) :=
  flat_map (fun s => flat_map (fun b => flat_map (fun k => match b_val k with PCode ub _ _ => [ub] | _ => [] end)
                                                 (bi_blocks b)) (s_bis s)) (m_sections m)
  ++ m_proxies m.
Definition plabel_eqb (a b : option pLabel) : bool :=
  match a, b with
  | None, None => true
  | Some x, Some y => (l_type x =? l_type y) && Bool.eqb (l_cond x) (l_cond y) && Bool.eqb (l_direct x) (l_direct y)
  | _, _ => false
  end.
Definition pedge_eqb (a b : pEdge) : bool :=
  zs_eqb (e_src a) (e_src b) && zs_eqb (e_dst a) (e_dst b) && plabel_eqb (e_label a) (e_label b).
(* an edge given twice is kept once (first occurrence) *)
Fixpoint dedup_pedges (seen : list pEdge) (l : list pEdge) : list pEdge :=
  match l with
  | [] => []
  | e :: l' => if existsb (pedge_eqb e) seen then dedup_pedges seen l' else e :: dedup_pedges (e :: seen) l'
  end.
Definition msg_norm (p : pIR) : pIR :=
  {| i_uuid := i_uuid p; i_modules := map norm_module (i_modules p); i_aux := i_aux p; i_version := i_version p;
     i_vertices := flat_map p_cfg_nodes (i_modules p);
     i_edges := dedup_pedges [] (i_edges p) |}.

(* ------------------------------------------------------------------ *)
(* table invariant                                                      *)
(* ------------------------------------------------------------------ *)
Definition uuid_rng (u : Z) : Prop := uuid_ok u = true.
Definition tinv (t : table) : Prop := NoDup (tdom t) /\ Forall uuid_rng (tdom t).

Lemma tinv_cons : forall t u k, tinv t -> ~ In u (tdom t) -> uuid_rng u -> tinv ((u, k) :: t).
Proof.
  intros t u k [Hn Hr] Hu Hrng. split; cbn [tdom map fst].
  - constructor; assumption.
  - constructor; assumption.
Qed.

Lemma tdom_app : forall a b, tdom (a ++ b) = tdom a ++ tdom b.
Proof. intros a b. unfold tdom. apply map_app. Qed.

Lemma In_tdom : forall u t, In u (tdom t) <-> exists k, In (u, k) t.
Proof.
  intros u t. unfold tdom. rewrite in_map_iff. split.
  - intros [[a k] [E H]]. cbn [fst] in E. subst a. exists k. exact H.
  - intros [k H]. exists (u, k). split; [reflexivity|exact H].
Qed.

(* the entries pushed by a list of nodes: the last decoded node is first *)
Fixpoint rflat {Y} (E : Y -> table) (ys : list Y) : table :=
  match ys with
  | [] => []
  | y :: ys' => rflat E ys' ++ E y
  end.

Lemma rflat_In {Y} (E : Y -> table) : forall ys e, In e (rflat E ys) <-> exists y, In y ys /\ In e (E y).
Proof.
  induction ys as [|y ys IH]; intros e; cbn [rflat In].
  - split; [intros []|intros [y [[] _]]].
  - rewrite in_app_iff, IH. split.
    + intros [[z [Hz He]]|He].
      * exists z. split; [right; exact Hz|exact He].
      * exists y. split; [left; reflexivity|exact He].
    + intros [z [[Hz|Hz] He]].
      * subst z. right. exact He.
      * left. exists z. split; assumption.
Qed.

Lemma rflat_perm {Y} (E : Y -> table) (U : Y -> list Z) :
  (forall y, Permutation (tdom (E y)) (U y)) -> forall ys, Permutation (tdom (rflat E ys)) (flat_map U ys).
Proof.
  intros HE. induction ys as [|y ys IH]; cbn [rflat flat_map].
  - apply Permutation_refl.
  - rewrite tdom_app. eapply Permutation_trans; [apply Permutation_app_comm|].
    apply Permutation_app; [apply HE|exact IH].
Qed.

Lemma rflat_ext2 {A B} (E1 : A -> table) (E2 : B -> table) :
  forall l1 l2, Forall2 (fun a b => E1 a = E2 b) l1 l2 -> rflat E1 l1 = rflat E2 l2.
Proof.
  intros l1 l2 H. induction H as [|a b l1 l2 Hab _ IH]; cbn [rflat]; [reflexivity|].
  rewrite Hab, IH. reflexivity.
Qed.

Section MapRes.
  Context {X Y : Type} (f : table -> X -> res (Y * table)) (E : Y -> table)
          (P : X -> Prop) (Q : table -> X -> Y -> Prop).
  Hypothesis Hf : forall t x y t1, f t x = Ok (y, t1) -> P x -> tinv t -> t1 = E y ++ t /\ tinv t1 /\ Q t1 x y.
  Hypothesis Qmono : forall t t' x y, incl t t' -> Q t x y -> Q t' x y.

  Lemma map_res_inv : forall l t ys t',
    map_res f t l = Ok (ys, t') -> Forall P l -> tinv t ->
    t' = rflat E ys ++ t /\ tinv t' /\ Forall2 (Q t') l ys.
  Proof.
    induction l as [|x l IH]; intros t ys t' H HP Ht; cbn [map_res] in H.
    - injection H as <- <-. split; [reflexivity|]. split; [exact Ht|constructor].
    - bind_inv H r Hr. destruct r as [y t1]. cbv beta iota in H.
      bind_inv H r' Hr'. destruct r' as [ys' t2]. cbv beta iota in H.
      injection H as <- <-.
      inversion HP as [|x' l' HPx HPl]; subst.
      destruct (Hf _ _ _ _ Hr HPx Ht) as [E1 [Ht1 HQ]].
      destruct (IH _ _ _ Hr' HPl Ht1) as [E2 [Ht2 HF]].
      split; [|split].
      + cbn [rflat]. rewrite E2, E1. rewrite app_assoc. reflexivity.
      + exact Ht2.
      + constructor; [|exact HF]. apply (Qmono t1); [|exact HQ].
        rewrite E2. apply incl_appr. apply incl_refl.
  Qed.
End MapRes.

(* ------------------------------------------------------------------ *)
(* blocks                                                               *)
(* ------------------------------------------------------------------ *)
Definition kind_of_block (b : cBlock) : nkind := if cb_code b then NCode else NData.
Definition ents_block (b : cBlock) : table := [(cb_uuid b, kind_of_block b)].
Definition blk_dm_ok (k : cBlock) : bool := if cb_code k then enum_ok "DecodeMode" (cb_dm k) else cb_dm k =? 0.
Definition Rblk (pb : pBlock) (b : cBlock) : Prop := block_to_proto b = pb /\ blk_dm_ok b = true.

Lemma decode_block_inv : forall t pb b t1,
  decode_block t pb = Ok (b, t1) -> blockval_ok (b_val pb) = true -> tinv t ->
  t1 = ents_block b ++ t /\ tinv t1 /\ Rblk pb b.
Proof.
  intros t [off v] b t1 H Hok Ht. unfold decode_block in H. cbn [b_val b_off] in *.
  destruct v as [ub sz dm|ub sz|]; cbn [blockval_ok] in Hok.
  - bind_inv H u Hu. bind_inv H x1 Hfr. bind_inv H x2 He. injection H as <- <-.
    split; [reflexivity|]. split.
    + apply tinv_cons; [exact Ht|exact (fresh_notIn _ _ _ _ Hfr)|exact (uuid_of_bytes_range _ _ Hu Hok)].
    + split.
      * unfold block_to_proto. cbn [cb_code cb_uuid cb_off cb_size cb_dm].
        rewrite (bytes_of_uuid_of_bytes _ _ Hu Hok). reflexivity.
      * unfold blk_dm_ok. cbn [cb_code cb_dm]. exact (check_enum_ok _ _ _ He).
  - bind_inv H u Hu. bind_inv H x1 Hfr. injection H as <- <-.
    split; [reflexivity|]. split.
    + apply tinv_cons; [exact Ht|exact (fresh_notIn _ _ _ _ Hfr)|exact (uuid_of_bytes_range _ _ Hu Hok)].
    + split.
      * unfold block_to_proto. cbn [cb_code cb_uuid cb_off cb_size cb_dm].
        rewrite (bytes_of_uuid_of_bytes _ _ Hu Hok). reflexivity.
      * reflexivity.
  - discriminate H.
Qed.

Lemma map_decode_block_inv : forall l t ys t',
  map_res decode_block t l = Ok (ys, t') -> Forall (fun k => blockval_ok (b_val k) = true) l -> tinv t ->
  t' = rflat ents_block ys ++ t /\ tinv t' /\ Forall2 Rblk l ys.
Proof.
  intros l t ys t' H HP Ht.
  apply (map_res_inv decode_block ents_block (fun k => blockval_ok (b_val k) = true) (fun _ => Rblk)) in H;
    [exact H| |intros; assumption|exact HP|exact Ht].
  intros t0 x y t1 H0 Hx Ht0. exact (decode_block_inv _ _ _ _ H0 Hx Ht0).
Qed.
