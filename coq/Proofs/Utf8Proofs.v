(* Proofs about Model/Utf8.v. *)
From Coq Require Import ZArith List Bool Lia ZifyBool.
From V Require Import Bytes Utf8.
Import ListNotations.
Open Scope Z_scope.

Ltac Zify.zify_post_hook ::= Z.to_euclidean_division_equations.

(* ---------- generic helpers ---------- *)

(* decide every [if b then _ else _] in the goal by linear arithmetic *)
Ltac ifs :=
  repeat match goal with
  | |- context [if ?b then _ else _] =>
      first [ replace b with true by (timeout 30 lia)
            | replace b with false by (timeout 30 lia) ];
      cbv beta iota
  end.

Lemma is_scalar_iff : forall c,
  is_scalar c = true <-> (0 <= c < 1114112 /\ ~ (55296 <= c <= 57343)).
Proof.
  intros c. unfold is_scalar, is_surrogate. lia.
Qed.

Lemma cont_iff : forall b, cont b = true <-> 128 <= b < 192.
Proof.
  intros b. unfold cont. lia.
Qed.

Lemma utf8_decode_cons : forall b0 r0,
  utf8_decode (b0 :: r0) =
    if b0 <? 0 then None
    else if b0 <? 128 then ocons b0 (utf8_decode r0)
    else if b0 <? 194 then None
    else if b0 <? 224 then
      match r0 with
      | b1 :: r1 =>
        if cont b1 then ocons ((b0 - 192) * 64 + (b1 - 128)) (utf8_decode r1) else None
      | _ => None
      end
    else if b0 <? 240 then
      match r0 with
      | b1 :: b2 :: r2 =>
        let c := (b0 - 224) * 4096 + (b1 - 128) * 64 + (b2 - 128) in
        if cont b1 && cont b2 && (2048 <=? c) && negb (is_surrogate c)
        then ocons c (utf8_decode r2) else None
      | _ => None
      end
    else if b0 <? 245 then
      match r0 with
      | b1 :: b2 :: b3 :: r3 =>
        let c := (b0 - 240) * 262144 + (b1 - 128) * 4096 + (b2 - 128) * 64 + (b3 - 128) in
        if cont b1 && cont b2 && cont b3 && (65536 <=? c) && (c <? 1114112)
        then ocons c (utf8_decode r3) else None
      | _ => None
      end
    else None.
Proof. intros b0 r0. reflexivity. Qed.

(* ---------- decoder step lemmas (forward direction) ---------- *)

Lemma dec_step1 : forall b0 r,
  0 <= b0 < 128 ->
  utf8_decode (b0 :: r) = ocons b0 (utf8_decode r).
Proof.
  intros b0 r Hb. rewrite utf8_decode_cons. ifs. reflexivity.
Qed.

Lemma dec_step2 : forall b0 b1 r,
  194 <= b0 < 224 -> 128 <= b1 < 192 ->
  utf8_decode (b0 :: b1 :: r) =
    ocons ((b0 - 192) * 64 + (b1 - 128)) (utf8_decode r).
Proof.
  intros b0 b1 r H0 H1. rewrite utf8_decode_cons.
  apply cont_iff in H1. rewrite H1. ifs. reflexivity.
Qed.

Lemma dec_step3 : forall b0 b1 b2 r,
  224 <= b0 < 240 -> 128 <= b1 < 192 -> 128 <= b2 < 192 ->
  2048 <= (b0 - 224) * 4096 + (b1 - 128) * 64 + (b2 - 128) ->
  ~ (55296 <= (b0 - 224) * 4096 + (b1 - 128) * 64 + (b2 - 128) <= 57343) ->
  utf8_decode (b0 :: b1 :: b2 :: r) =
    ocons ((b0 - 224) * 4096 + (b1 - 128) * 64 + (b2 - 128)) (utf8_decode r).
Proof.
  intros b0 b1 b2 r H0 H1 H2 Hlo Hsur. rewrite utf8_decode_cons.
  apply cont_iff in H1. apply cont_iff in H2. rewrite H1, H2.
  cbv zeta. unfold is_surrogate.
  set (c := (b0 - 224) * 4096 + (b1 - 128) * 64 + (b2 - 128)) in *.
  ifs. reflexivity.
Qed.

Lemma dec_step4 : forall b0 b1 b2 b3 r,
  240 <= b0 < 245 -> 128 <= b1 < 192 -> 128 <= b2 < 192 -> 128 <= b3 < 192 ->
  65536 <= (b0 - 240) * 262144 + (b1 - 128) * 4096 + (b2 - 128) * 64 + (b3 - 128) < 1114112 ->
  utf8_decode (b0 :: b1 :: b2 :: b3 :: r) =
    ocons ((b0 - 240) * 262144 + (b1 - 128) * 4096 + (b2 - 128) * 64 + (b3 - 128))
          (utf8_decode r).
Proof.
  intros b0 b1 b2 b3 r H0 H1 H2 H3 Hc. rewrite utf8_decode_cons.
  apply cont_iff in H1. apply cont_iff in H2. apply cont_iff in H3.
  rewrite H1, H2, H3. cbv zeta.
  set (c := (b0 - 240) * 262144 + (b1 - 128) * 4096 + (b2 - 128) * 64 + (b3 - 128)) in *.
  ifs. reflexivity.
Qed.

(* ---------- one character: decode (enc1 c ++ rest) ---------- *)

Lemma utf8_dec_enc1 : forall c rest,
  is_scalar c = true ->
  utf8_decode (utf8_enc1 c ++ rest) = ocons c (utf8_decode rest).
Proof.
  intros c rest Hs. apply is_scalar_iff in Hs. destruct Hs as [Hr Hsur].
  unfold utf8_enc1.
  destruct (c <? 128) eqn:E1; [|destruct (c <? 2048) eqn:E2; [|destruct (c <? 65536) eqn:E3]];
    cbn [app].
  - apply dec_step1. lia.
  - rewrite dec_step2 by lia. f_equal. lia.
  - rewrite dec_step3 by lia. f_equal. lia.
  - rewrite dec_step4 by lia. f_equal. lia.
Qed.

Theorem utf8_roundtrip : forall s,
  forallb is_scalar s = true -> utf8_decode (utf8_encode s) = Some s.
Proof.
  unfold utf8_encode.
  induction s as [|c s IH]; intros Hall; cbn [flat_map].
  - reflexivity.
  - cbn [forallb] in Hall. apply andb_true_iff in Hall. destruct Hall as [Hc Hs].
    rewrite (utf8_dec_enc1 c _ Hc), (IH Hs). reflexivity.
Qed.

(* ---------- encoder output consists of bytes ---------- *)

Lemma utf8_enc1_bytes : forall c, is_scalar c = true -> all_bytes (utf8_enc1 c) = true.
Proof.
  intros c Hs. apply is_scalar_iff in Hs. destruct Hs as [Hr Hsur].
  unfold utf8_enc1, all_bytes.
  destruct (c <? 128) eqn:E1; [|destruct (c <? 2048) eqn:E2; [|destruct (c <? 65536) eqn:E3]];
    cbn [forallb]; unfold is_byte; lia.
Qed.

Theorem utf8_encode_bytes : forall s,
  forallb is_scalar s = true -> all_bytes (utf8_encode s) = true.
Proof.
  unfold utf8_encode, all_bytes.
  induction s as [|c s IH]; intros Hall; cbn [flat_map].
  - reflexivity.
  - cbn [forallb] in Hall. apply andb_true_iff in Hall. destruct Hall as [Hc Hs].
    rewrite forallb_app. rewrite (IH Hs), andb_true_r.
    apply utf8_enc1_bytes. exact Hc.
Qed.

(* ---------- canonicity: the decoder accepts only encoder output ---------- *)

Lemma enc1_1 : forall b0, 0 <= b0 < 128 ->
  utf8_enc1 b0 = [b0] /\ is_scalar b0 = true.
Proof.
  intros b0 H0. split.
  - unfold utf8_enc1. ifs. reflexivity.
  - apply is_scalar_iff. lia.
Qed.

Lemma enc1_2 : forall b0 b1, 194 <= b0 < 224 -> 128 <= b1 < 192 ->
  utf8_enc1 ((b0 - 192) * 64 + (b1 - 128)) = [b0; b1] /\
  is_scalar ((b0 - 192) * 64 + (b1 - 128)) = true.
Proof.
  intros b0 b1 H0 H1.
  remember ((b0 - 192) * 64 + (b1 - 128)) as c eqn:Ec.
  split.
  - unfold utf8_enc1. ifs. repeat f_equal; lia.
  - apply is_scalar_iff. lia.
Qed.

Lemma enc1_3 : forall b0 b1 b2 c,
  c = (b0 - 224) * 4096 + (b1 - 128) * 64 + (b2 - 128) ->
  224 <= b0 < 240 -> 128 <= b1 < 192 -> 128 <= b2 < 192 ->
  2048 <= c -> ~ (55296 <= c <= 57343) ->
  utf8_enc1 c = [b0; b1; b2] /\ is_scalar c = true.
Proof.
  intros b0 b1 b2 c Ec H0 H1 H2 Hlo Hsur.
  split.
  - unfold utf8_enc1. ifs. repeat f_equal; lia.
  - apply is_scalar_iff. lia.
Qed.

Lemma enc1_4 : forall b0 b1 b2 b3 c,
  c = (b0 - 240) * 262144 + (b1 - 128) * 4096 + (b2 - 128) * 64 + (b3 - 128) ->
  240 <= b0 < 245 -> 128 <= b1 < 192 -> 128 <= b2 < 192 -> 128 <= b3 < 192 ->
  65536 <= c < 1114112 ->
  utf8_enc1 c = [b0; b1; b2; b3] /\ is_scalar c = true.
Proof.
  intros b0 b1 b2 b3 c Ec H0 H1 H2 H3 Hc.
  split.
  - unfold utf8_enc1. ifs. repeat f_equal; lia.
  - apply is_scalar_iff. lia.
Qed.

Lemma ocons_some : forall c o s,
  ocons c o = Some s -> exists l, o = Some l /\ s = c :: l.
Proof.
  intros c o s H. destruct o as [l|]; cbn [ocons] in H.
  - inversion H. exists l. split; reflexivity.
  - discriminate H.
Qed.

Lemma canonical_step : forall pre c l r,
  utf8_enc1 c = pre /\ is_scalar c = true ->
  utf8_encode l = r /\ forallb is_scalar l = true ->
  utf8_encode (c :: l) = pre ++ r /\ forallb is_scalar (c :: l) = true.
Proof.
  intros pre c l r [He Hs] [Hl Hf].
  unfold utf8_encode in *. cbn [flat_map forallb].
  rewrite He, Hl, Hs, Hf. split; reflexivity.
Qed.

Lemma utf8_decode_canonical_len : forall n bs s,
  (length bs <= n)%nat ->
  utf8_decode bs = Some s ->
  utf8_encode s = bs /\ forallb is_scalar s = true.
Proof.
  induction n as [|n IH]; intros bs s Hlen Hdec.
  - destruct bs as [|b0 r0]; [|cbn [length] in Hlen; lia].
    cbn [utf8_decode] in Hdec. inversion Hdec. split; reflexivity.
  - destruct bs as [|b0 r0].
    { cbn [utf8_decode] in Hdec. inversion Hdec. split; reflexivity. }
    rewrite utf8_decode_cons in Hdec. cbn [length] in Hlen.
    destruct (b0 <? 0) eqn:E0; [discriminate Hdec|].
    destruct (b0 <? 128) eqn:E1.
    { apply ocons_some in Hdec. destruct Hdec as [l [Hl Hs]]. subst s.
      apply (canonical_step [b0]).
      - apply enc1_1. lia.
      - apply (IH r0 l); [lia | exact Hl]. }
    destruct (b0 <? 194) eqn:E2; [discriminate Hdec|].
    destruct (b0 <? 224) eqn:E3.
    { destruct r0 as [|b1 r1]; [discriminate Hdec|].
      destruct (cont b1) eqn:C1; [|discriminate Hdec].
      apply cont_iff in C1.
      apply ocons_some in Hdec. destruct Hdec as [l [Hl Hs]]. subst s.
      cbn [length] in Hlen.
      apply (canonical_step [b0; b1]).
      - apply enc1_2; lia.
      - apply (IH r1 l); [lia | exact Hl]. }
    destruct (b0 <? 240) eqn:E4.
    { destruct r0 as [|b1 [|b2 r2]]; try discriminate Hdec.
      cbv zeta in Hdec.
      remember ((b0 - 224) * 4096 + (b1 - 128) * 64 + (b2 - 128)) as c eqn:Ec.
      destruct (cont b1) eqn:C1; [|discriminate Hdec].
      destruct (cont b2) eqn:C2; [|discriminate Hdec].
      destruct (2048 <=? c) eqn:Clo; [|discriminate Hdec].
      destruct (is_surrogate c) eqn:Csur; [discriminate Hdec|].
      cbn [andb negb] in Hdec.
      apply cont_iff in C1. apply cont_iff in C2.
      unfold is_surrogate in Csur.
      apply ocons_some in Hdec. destruct Hdec as [l [Hl Hs]]. subst s.
      cbn [length] in Hlen.
      apply (canonical_step [b0; b1; b2]).
      - apply enc1_3; lia.
      - apply (IH r2 l); [lia | exact Hl]. }
    destruct (b0 <? 245) eqn:E5; [|discriminate Hdec].
    { destruct r0 as [|b1 [|b2 [|b3 r3]]]; try discriminate Hdec.
      cbv zeta in Hdec.
      remember ((b0 - 240) * 262144 + (b1 - 128) * 4096 + (b2 - 128) * 64 + (b3 - 128))
        as c eqn:Ec.
      destruct (cont b1) eqn:C1; [|discriminate Hdec].
      destruct (cont b2) eqn:C2; [|discriminate Hdec].
      destruct (cont b3) eqn:C3; [|discriminate Hdec].
      destruct (65536 <=? c) eqn:Clo; [|discriminate Hdec].
      destruct (c <? 1114112) eqn:Chi; [|discriminate Hdec].
      cbn [andb] in Hdec.
      apply cont_iff in C1. apply cont_iff in C2. apply cont_iff in C3.
      apply ocons_some in Hdec. destruct Hdec as [l [Hl Hs]]. subst s.
      cbn [length] in Hlen.
      apply (canonical_step [b0; b1; b2; b3]).
      - apply enc1_4; lia.
      - apply (IH r3 l); [lia | exact Hl]. }
Qed.

Theorem utf8_decode_canonical : forall bs s,
  utf8_decode bs = Some s -> utf8_encode s = bs /\ forallb is_scalar s = true.
Proof.
  intros bs s Hdec.
  apply (utf8_decode_canonical_len (length bs) bs s); [apply le_n | exact Hdec].
Qed.

(* consequence: accepted input consists of bytes only, and decoding is injective *)
Theorem utf8_decode_bytes : forall bs s, utf8_decode bs = Some s -> all_bytes bs = true.
Proof.
  intros bs s Hdec.
  destruct (utf8_decode_canonical bs s Hdec) as [Henc Hsc].
  rewrite <- Henc. apply utf8_encode_bytes. exact Hsc.
Qed.

