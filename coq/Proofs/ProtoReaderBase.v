(* Task PR2, part 1: generic lemmas on the result monad and the list folds of Model/Proto.v, the primitives of the reader
   (uuid_of_bytes, fresh, resolve, check_enum), the rejection classes (3) and the header gate (4).
   The main theorems (accept_coherent, reader_fields) are in ProtoReader.v.

   Termination/totality of from_proto is by construction: every function of Model/Proto.v is a structural Fixpoint or a
   non-recursive Definition, so `from_proto p` reduces to `Ok _` or `Err _` for every message p; nothing to prove. *)
From Coq Require Import String ZArith List Bool Lia Permutation.
From V Require Import Result Bytes BytesProofs PyFacts Proto.
Import ListNotations.
Open Scope list_scope.
Open Scope Z_scope.

(* ------------------------------------------------------------------ *)
(* result monad                                                         *)
(* ------------------------------------------------------------------ *)
Lemma bind_ok {A B} (r : res A) (f : A -> res B) (y : B) :
  bind r f = Ok y -> exists a, r = Ok a /\ f a = Ok y.
Proof.
  destruct r as [a|e]; cbn [bind]; intros H.
  - exists a. split; [reflexivity|exact H].
  - discriminate H.
Qed.

Lemma bind_err {A B} (r : res A) (f : A -> res B) (e : err) :
  bind r f = Err e -> r = Err e \/ exists a, r = Ok a /\ f a = Err e.
Proof.
  destruct r as [a|e']; cbn [bind]; intros H.
  - right. exists a. split; [reflexivity|exact H].
  - left. injection H as ->. reflexivity.
Qed.

Ltac bind_inv H x Hx := apply bind_ok in H; destruct H as [x [Hx H]].

(* the three outcomes a rejected message can produce (ValueError, DeserializationError, TypeError) *)
Definition okerr (e : err) : Prop := e = EValue \/ e = EDeser \/ e = EType.
Definition errs_in {A} (r : res A) : Prop := forall e, r = Err e -> okerr e.

Lemma errs_ok {A} (a : A) : errs_in (Ok a).
Proof. intros e H. discriminate H. Qed.
Lemma errs_value {A} : errs_in (@Err A EValue).
Proof. intros e H. injection H as <-. left. reflexivity. Qed.
Lemma errs_deser {A} : errs_in (@Err A EDeser).
Proof. intros e H. injection H as <-. right. left. reflexivity. Qed.
Lemma errs_type {A} : errs_in (@Err A EType).
Proof. intros e H. injection H as <-. right. right. reflexivity. Qed.
(* EImpossible is not one of them *)
Lemma okerr_not_impossible : ~ okerr EImpossible.
Proof. intros [H|[H|H]]; discriminate H. Qed.
Lemma errs_not_impossible {A} (r : res A) : errs_in r -> r <> Err EImpossible.
Proof. intros Hr H. exact (okerr_not_impossible (Hr _ H)). Qed.
Lemma errs_bind {A B} (r : res A) (f : A -> res B) :
  errs_in r -> (forall a, errs_in (f a)) -> errs_in (bind r f).
Proof.
  intros Hr Hf e H. apply bind_err in H. destruct H as [H|[a [_ H]]].
  - exact (Hr e H).
  - exact (Hf a e H).
Qed.

(* ------------------------------------------------------------------ *)
(* lists                                                                *)
(* ------------------------------------------------------------------ *)
Lemma mem_z_In : forall x l, mem_z x l = true <-> In x l.
Proof.
  intros x l. unfold mem_z. rewrite existsb_exists. split.
  - intros [y [Hy E]]. apply Z.eqb_eq in E. subst y. exact Hy.
  - intros H. exists x. split; [exact H|apply Z.eqb_refl].
Qed.

Lemma existsb_eqb_In : forall x l, existsb (Z.eqb x) l = true <-> In x l.
Proof. exact mem_z_In. Qed.

Lemma existsb_eqb_notIn : forall x l, existsb (Z.eqb x) l = false <-> ~ In x l.
Proof.
  intros x l. rewrite <- existsb_eqb_In. destruct (existsb (Z.eqb x) l); split; intros H.
  - discriminate H.
  - exfalso. apply H. reflexivity.
  - intros H'. discriminate H'.
  - reflexivity.
Qed.

Lemma nodup_z_NoDup : forall l, nodup_z l = true <-> NoDup l.
Proof.
  induction l as [|x l IH]; cbn [nodup_z].
  - split; intros _; [constructor|reflexivity].
  - rewrite andb_true_iff, negb_true_iff, existsb_eqb_notIn, IH. split.
    + intros [H1 H2]. constructor; assumption.
    + intros H. inversion H as [|x' l' H1 H2]. subst. split; assumption.
Qed.

Lemma dedup_z_In : forall x l, In x (dedup_z l) <-> In x l.
Proof.
  intros x l. induction l as [|y l IH]; cbn [dedup_z].
  - reflexivity.
  - destruct (existsb (Z.eqb y) l) eqn:E.
    + rewrite IH. split; [intros H; right; exact H|].
      intros [H|H]; [|exact H]. subst y. apply existsb_eqb_In. exact E.
    + cbn [In]. rewrite IH. reflexivity.
Qed.

Lemma dedup_z_NoDup : forall l, NoDup (dedup_z l).
Proof.
  induction l as [|y l IH]; cbn [dedup_z].
  - constructor.
  - destruct (existsb (Z.eqb y) l) eqn:E.
    + exact IH.
    + constructor; [|exact IH]. rewrite dedup_z_In. apply existsb_eqb_notIn. exact E.
Qed.

Lemma dedup_z_nodup : forall l, nodup_z (dedup_z l) = true.
Proof. intros l. apply nodup_z_NoDup. apply dedup_z_NoDup. Qed.

Lemma dedup_z_forallb : forall (P : Z -> bool) l, forallb P l = true -> forallb P (dedup_z l) = true.
Proof.
  intros P l H. rewrite forallb_forall in *. intros x Hx. apply H. apply dedup_z_In. exact Hx.
Qed.

Lemma flat_map_single {A B} (g : A -> B) : forall l, flat_map (fun x => [g x]) l = map g l.
Proof. induction l as [|x l IH]; cbn [flat_map map app]; [reflexivity|rewrite IH; reflexivity]. Qed.

Lemma map_flat_map {A B C} (g : B -> C) (f : A -> list B) :
  forall l, map g (flat_map f l) = flat_map (fun x => map g (f x)) l.
Proof.
  induction l as [|x l IH]; cbn [flat_map map]; [reflexivity|].
  rewrite map_app, IH. reflexivity.
Qed.

Lemma flat_map_map {A B C} (g : A -> B) (f : B -> list C) :
  forall l, flat_map f (map g l) = flat_map (fun x => f (g x)) l.
Proof.
  induction l as [|x l IH]; cbn [flat_map map]; [reflexivity|].
  rewrite IH. reflexivity.
Qed.

Lemma flat_map_ext_in {A B} (f g : A -> list B) :
  forall l, (forall x, In x l -> f x = g x) -> flat_map f l = flat_map g l.
Proof.
  induction l as [|x l IH]; intros H; cbn [flat_map]; [reflexivity|].
  rewrite (H x (or_introl eq_refl)), IH; [reflexivity|].
  intros y Hy. apply H. right. exact Hy.
Qed.

Lemma forallb_rev {A} (P : A -> bool) : forall l, forallb P (rev l) = forallb P l.
Proof.
  intros l. destruct (forallb P l) eqn:E.
  - rewrite forallb_forall in *. intros x Hx. apply E. apply in_rev. exact Hx.
  - destruct (forallb P (rev l)) eqn:E'; [|reflexivity].
    rewrite <- E. symmetry. rewrite forallb_forall in *. intros x Hx. apply E'. apply in_rev.
    rewrite rev_involutive. exact Hx.
Qed.

(* Forall2 helpers *)
Lemma Forall2_map_eq {A B C} (g : B -> C) (h : A -> C) :
  forall l l', Forall2 (fun x y => g y = h x) l l' -> map g l' = map h l.
Proof.
  intros l l' H. induction H as [|x y l l' Hxy _ IH]; cbn [map]; [reflexivity|].
  rewrite Hxy, IH. reflexivity.
Qed.

Lemma Forall2_impl {A B} (R S : A -> B -> Prop) :
  (forall x y, R x y -> S x y) -> forall l l', Forall2 R l l' -> Forall2 S l l'.
Proof.
  intros HRS l l' H. induction H as [|x y l l' Hxy _ IH]; constructor; [apply HRS; exact Hxy|exact IH].
Qed.

Lemma Forall2_impl_in {A B} (R S : A -> B -> Prop) :
  forall l l', (forall x y, In x l -> In y l' -> R x y -> S x y) -> Forall2 R l l' -> Forall2 S l l'.
Proof.
  intros l l' HRS H. induction H as [|x y l l' Hxy _ IH]; constructor.
  - apply HRS; [left; reflexivity|left; reflexivity|exact Hxy].
  - apply IH. intros a b Ha Hb. apply HRS; right; assumption.
Qed.

Lemma Forall2_Forall_l {A B} (R : A -> B -> Prop) (P : A -> Prop) :
  forall l l', Forall2 R l l' -> Forall P l -> Forall2 (fun x y => P x /\ R x y) l l'.
Proof.
  intros l l' H. induction H as [|x y l l' Hxy _ IH]; intros HP; constructor.
  - inversion HP; subst. split; assumption.
  - apply IH. inversion HP; subst. assumption.
Qed.

Lemma Forall2_comp {A B C} (R : A -> B -> Prop) (S : B -> C -> Prop) :
  forall l1 l2, Forall2 R l1 l2 -> forall l3, Forall2 S l2 l3 ->
  Forall2 (fun a c => exists b, R a b /\ S b c) l1 l3.
Proof.
  intros l1 l2 H. induction H as [|x y l1 l2 Hxy _ IH]; intros l3 H3; inversion H3; subst; constructor.
  - eexists. split; eassumption.
  - apply IH. assumption.
Qed.

Lemma Forall2_in_r {A B} (R : A -> B -> Prop) :
  forall l l', Forall2 R l l' -> forall y, In y l' -> exists x, In x l /\ R x y.
Proof.
  intros l l' H. induction H as [|x y l l' Hxy _ IH]; intros b Hb.
  - destruct Hb.
  - destruct Hb as [Hb|Hb].
    + subst b. exists x. split; [left; reflexivity|exact Hxy].
    + destruct (IH b Hb) as [a [Ha Hab]]. exists a. split; [right; exact Ha|exact Hab].
Qed.

Lemma Forall2_in_l {A B} (R : A -> B -> Prop) :
  forall l l', Forall2 R l l' -> forall x, In x l -> exists y, In y l' /\ R x y.
Proof.
  intros l l' H. induction H as [|x y l l' Hxy _ IH]; intros a Ha.
  - destruct Ha.
  - destruct Ha as [Ha|Ha].
    + subst a. exists y. split; [left; reflexivity|exact Hxy].
    + destruct (IH a Ha) as [b [Hb Hab]]. exists b. split; [right; exact Hb|exact Hab].
Qed.

Lemma Forall2_forallb_r {A B} (R : A -> B -> Prop) (P : B -> bool) :
  forall l l', Forall2 R l l' -> (forall x y, R x y -> P y = true) -> forallb P l' = true.
Proof.
  intros l l' H HP. induction H as [|x y l l' Hxy _ IH]; cbn [forallb]; [reflexivity|].
  rewrite (HP x y Hxy), IH. reflexivity.
Qed.

Lemma forallb_Forall {A} (P : A -> bool) : forall l, forallb P l = true -> Forall (fun x => P x = true) l.
Proof. intros l H. apply Forall_forall. apply forallb_forall. exact H. Qed.

(* ------------------------------------------------------------------ *)
(* zs_eqb                                                               *)
(* ------------------------------------------------------------------ *)
Lemma zs_eqb_eq : forall a b, zs_eqb a b = true <-> a = b.
Proof.
  induction a as [|x a IH]; intros [|y b]; cbn [zs_eqb]; split; intros H; try reflexivity; try discriminate H.
  - apply andb_true_iff in H. destruct H as [H1 H2]. apply Z.eqb_eq in H1. apply IH in H2. subst. reflexivity.
  - injection H as -> ->. rewrite Z.eqb_refl. apply IH. reflexivity.
Qed.

Lemma zs_eqb_refl : forall a, zs_eqb a a = true.
Proof. intros a. apply zs_eqb_eq. reflexivity. Qed.

(* ------------------------------------------------------------------ *)
(* UUIDs                                                                *)
(* ------------------------------------------------------------------ *)
Lemma pow256_16 : pow256 16 = 2 ^ 128.
Proof. reflexivity. Qed.

Lemma uuid_of_bytes_inv : forall bs u,
  uuid_of_bytes bs = Ok u -> length bs = 16%nat /\ u = of_le (rev bs).
Proof.
  intros bs u H. unfold uuid_of_bytes in H.
  destruct (Nat.eqb (length bs) 16) eqn:E; [|discriminate H].
  apply Nat.eqb_eq in E. injection H as <-. split; [exact E|reflexivity].
Qed.

(* inverse of the 16-byte big-endian conversion *)
Lemma bytes_of_uuid_of_bytes : forall bs u,
  uuid_of_bytes bs = Ok u -> forallb is_byte bs = true -> bytes_of_uuid u = bs.
Proof.
  intros bs u H Hb. apply uuid_of_bytes_inv in H. destruct H as [Hl ->].
  unfold bytes_of_uuid.
  assert (Hr : all_bytes (rev bs) = true) by (unfold all_bytes; rewrite forallb_rev; exact Hb).
  pose proof (le_bytes_of_le (rev bs) Hr) as H. rewrite rev_length, Hl in H.
  rewrite H. apply rev_involutive.
Qed.

Lemma uuid_of_bytes_range : forall bs u,
  uuid_of_bytes bs = Ok u -> forallb is_byte bs = true -> uuid_ok u = true.
Proof.
  intros bs u H Hb. apply uuid_of_bytes_inv in H. destruct H as [Hl ->].
  assert (Hr : all_bytes (rev bs) = true) by (unfold all_bytes; rewrite forallb_rev; exact Hb).
  pose proof (of_le_range (rev bs) Hr) as H. rewrite rev_length, Hl, pow256_16 in H.
  unfold uuid_ok. apply andb_true_iff. split; [apply Z.leb_le|apply Z.ltb_lt]; apply H.
Qed.

Lemma bad_uuid_len : forall bs, length bs <> 16%nat -> uuid_of_bytes bs = Err EValue.
Proof.
  intros bs H. unfold uuid_of_bytes. apply Nat.eqb_neq in H. rewrite H. reflexivity.
Qed.

Lemma uuid_errs : forall bs, errs_in (uuid_of_bytes bs).
Proof.
  intros bs. unfold uuid_of_bytes. destruct (Nat.eqb (length bs) 16); [apply errs_ok|apply errs_value].
Qed.

Lemma uuid_not_impossible : forall bs, uuid_of_bytes bs <> Err EImpossible.
Proof.
  intros bs. unfold uuid_of_bytes. destruct (Nat.eqb (length bs) 16); intros H; discriminate H.
Qed.

(* ------------------------------------------------------------------ *)
(* enums                                                                *)
(* ------------------------------------------------------------------ *)
Lemma check_enum_ok : forall nm v x, check_enum nm v = Ok x -> enum_ok nm v = true.
Proof.
  intros nm v x H. unfold check_enum in H. destruct (enum_ok nm v); [reflexivity|discriminate H].
Qed.

Lemma bad_enum : forall nm v, enum_ok nm v = false -> check_enum nm v = Err EValue.
Proof. intros nm v H. unfold check_enum. rewrite H. reflexivity. Qed.

Lemma check_enum_errs : forall nm v, errs_in (check_enum nm v).
Proof. intros nm v. unfold check_enum. destruct (enum_ok nm v); [apply errs_ok|apply errs_value]. Qed.

Lemma check_enum_err_value : forall nm v e, check_enum nm v = Err e -> e = EValue.
Proof.
  intros nm v e H. unfold check_enum in H. destruct (enum_ok nm v); [discriminate H|].
  injection H as <-. reflexivity.
Qed.

(* ------------------------------------------------------------------ *)
(* the table                                                            *)
(* ------------------------------------------------------------------ *)
Definition tdom (t : table) : list Z := map fst t.

Lemma tlookup_Some_In : forall t u k, tlookup t u = Some k -> In (u, k) t.
Proof.
  intros t u k H. unfold tlookup in H.
  destruct (find (fun p => fst p =? u) t) as [p|] eqn:E; [|discriminate H].
  injection H as <-. apply find_some in E. destruct E as [Hin He].
  apply Z.eqb_eq in He. destruct p as [a b]. cbn [fst snd] in *. subst a. exact Hin.
Qed.

Lemma tlookup_None_notIn : forall t u, tlookup t u = None -> ~ In u (tdom t).
Proof.
  intros t u H Hin. unfold tlookup in H.
  destruct (find (fun p => fst p =? u) t) as [p|] eqn:E; [discriminate H|].
  unfold tdom in Hin. apply in_map_iff in Hin. destruct Hin as [p [Hp Hin]].
  pose proof (find_none _ _ E p Hin) as Hn. cbn beta in Hn. rewrite Hp, Z.eqb_refl in Hn. discriminate Hn.
Qed.

Lemma nkind_eqb_eq : forall a b, nkind_eqb a b = true <-> a = b.
Proof. intros a b. destruct a, b; cbn [nkind_eqb]; split; intros H; try reflexivity; discriminate H. Qed.

Lemma fresh_ok : forall t u k x, fresh t u k = Ok x -> tlookup t u = None.
Proof.
  intros t u k x H. unfold fresh in H. destruct (tlookup t u) as [k'|]; [|reflexivity].
  discriminate H.
Qed.

Lemma fresh_notIn : forall t u k x, fresh t u k = Ok x -> ~ In u (tdom t).
Proof. intros t u k x H. apply tlookup_None_notIn. exact (fresh_ok _ _ _ _ H). Qed.

Lemma fresh_errs : forall t u k, errs_in (fresh t u k).
Proof.
  intros t u k. unfold fresh. destruct (tlookup t u) as [k'|]; [apply errs_deser|apply errs_ok].
Qed.

(* a UUID that is already defined -- with whatever kind -- is a DeserializationError *)
Lemma dup_rejected : forall t u k k', tlookup t u = Some k' -> fresh t u k = Err EDeser.
Proof. intros t u k k' H. unfold fresh. rewrite H. reflexivity. Qed.

(* in particular with another kind (the statement that held before the repair of the reader) *)
Corollary dup_other_kind : forall t u k k', tlookup t u = Some k' -> k' <> k -> fresh t u k = Err EDeser.
Proof. intros t u k k' H _. exact (dup_rejected t u k k' H). Qed.

(* ... and with the same kind: there is no "merge" of two definitions of one node *)
Corollary dup_same_kind : forall t u k, tlookup t u = Some k -> fresh t u k = Err EDeser.
Proof. intros t u k H. exact (dup_rejected t u k k H). Qed.

(* fresh never answers EImpossible *)
Lemma fresh_never_impossible : forall t u k, fresh t u k <> Err EImpossible.
Proof.
  intros t u k H. unfold fresh in H. destruct (tlookup t u) as [k'|]; discriminate H.
Qed.

(* exact characterisation of the failures of fresh: DeserializationError, exactly on the UUIDs already defined *)
Lemma fresh_err_iff : forall t u k e,
  fresh t u k = Err e <-> (e = EDeser /\ exists k', tlookup t u = Some k').
Proof.
  intros t u k e. unfold fresh. destruct (tlookup t u) as [k0|].
  - split.
    + intros H. injection H as <-. split; [reflexivity|]. exists k0. reflexivity.
    + intros [-> _]. reflexivity.
  - split.
    + intros H. discriminate H.
    + intros [_ [k' H]]. discriminate H.
Qed.

Lemma fresh_ok_iff : forall t u k, fresh t u k = Ok tt <-> tlookup t u = None.
Proof.
  intros t u k. unfold fresh. destruct (tlookup t u) as [k0|]; split; intros H; try reflexivity; discriminate H.
Qed.

Lemma resolve_ok : forall t bs ok u,
  resolve t bs ok = Ok u -> uuid_of_bytes bs = Ok u /\ exists k, In (u, k) t /\ ok k = true.
Proof.
  intros t bs ok u H. unfold resolve in H. bind_inv H v Hv.
  destruct (tlookup t v) as [k|] eqn:E; [|discriminate H].
  destruct (ok k) eqn:Ek; [|discriminate H].
  injection H as <-. split; [exact Hv|]. exists k. split; [apply tlookup_Some_In; exact E|exact Ek].
Qed.

Lemma resolve_dangling : forall t bs ok u,
  uuid_of_bytes bs = Ok u -> tlookup t u = None -> resolve t bs ok = Err EDeser.
Proof. intros t bs ok u H1 H2. unfold resolve. rewrite H1. cbn [bind]. rewrite H2. reflexivity. Qed.

Lemma resolve_illtyped : forall t bs ok u k,
  uuid_of_bytes bs = Ok u -> tlookup t u = Some k -> ok k = false -> resolve t bs ok = Err EDeser.
Proof. intros t bs ok u k H1 H2 H3. unfold resolve. rewrite H1. cbn [bind]. rewrite H2, H3. reflexivity. Qed.

Lemma resolve_badlen : forall t bs ok, length bs <> 16%nat -> resolve t bs ok = Err EValue.
Proof. intros t bs ok H. unfold resolve. rewrite (bad_uuid_len bs H). reflexivity. Qed.

Lemma resolve_errs : forall t bs ok, errs_in (resolve t bs ok).
Proof.
  intros t bs ok. unfold resolve. apply errs_bind; [apply uuid_errs|intros u].
  destruct (tlookup t u) as [k|]; [|apply errs_deser].
  destruct (ok k); [apply errs_ok|apply errs_deser].
Qed.

Lemma resolve_not_impossible : forall t bs ok, resolve t bs ok <> Err EImpossible.
Proof.
  intros t bs ok H. unfold resolve in H. apply bind_err in H. destruct H as [H|[u [_ H]]].
  - exact (uuid_not_impossible bs H).
  - destruct (tlookup t u) as [k|]; [|discriminate H]. destruct (ok k); discriminate H.
Qed.

(* ------------------------------------------------------------------ *)
(* folds                                                                *)
(* ------------------------------------------------------------------ *)
Lemma map_res_errs {X Y} (f : table -> X -> res (Y * table)) :
  (forall t x, errs_in (f t x)) -> forall l t, errs_in (map_res f t l).
Proof.
  intros Hf. induction l as [|x l IH]; intros t; cbn [map_res].
  - apply errs_ok.
  - apply errs_bind; [apply Hf|intros [y t1]].
    apply errs_bind; [apply IH|intros [ys t2]]. apply errs_ok.
Qed.

Lemma map_res0_errs {X Y} (f : X -> res Y) :
  (forall x, errs_in (f x)) -> forall l, errs_in (map_res0 f l).
Proof.
  intros Hf. induction l as [|x l IH]; cbn [map_res0].
  - apply errs_ok.
  - apply errs_bind; [apply Hf|intros y]. apply errs_bind; [apply IH|intros ys]. apply errs_ok.
Qed.

Lemma iter_res_errs {X} (f : X -> res unit) :
  (forall x, errs_in (f x)) -> forall l, errs_in (iter_res f l).
Proof.
  intros Hf. induction l as [|x l IH]; cbn [iter_res].
  - apply errs_ok.
  - apply errs_bind; [apply Hf|intros _]. apply IH.
Qed.

Lemma map_res0_Forall2 {X Y} (f : X -> res Y) :
  forall l ys, map_res0 f l = Ok ys -> Forall2 (fun x y => f x = Ok y) l ys.
Proof.
  induction l as [|x l IH]; intros ys H; cbn [map_res0] in H.
  - injection H as <-. constructor.
  - bind_inv H y Hy. bind_inv H ys' Hys. injection H as <-. constructor; [exact Hy|apply IH; exact Hys].
Qed.

Lemma iter_res_forallb : forall nm l x, iter_res (check_enum nm) l = Ok x -> forallb (enum_ok nm) l = true.
Proof.
  intros nm. induction l as [|v l IH]; intros x H; cbn [iter_res] in H; cbn [forallb].
  - reflexivity.
  - bind_inv H u Hu. rewrite (check_enum_ok _ _ _ Hu), (IH _ H). reflexivity.
Qed.

(* ------------------------------------------------------------------ *)
(* (3) rejection classes                                                *)
(* ------------------------------------------------------------------ *)
Lemma decode_block_errs : forall t b, errs_in (decode_block t b).
Proof.
  intros t b. unfold decode_block. destruct (b_val b) as [ub sz dm|ub sz|].
  - apply errs_bind; [apply uuid_errs|intros u]. apply errs_bind; [apply fresh_errs|intros _].
    apply errs_bind; [apply check_enum_errs|intros _]. apply errs_ok.
  - apply errs_bind; [apply uuid_errs|intros u]. apply errs_bind; [apply fresh_errs|intros _]. apply errs_ok.
  - apply errs_type.
Qed.

Lemma decode_bi_errs : forall t b, errs_in (decode_bi t b).
Proof.
  intros t b. unfold decode_bi.
  apply errs_bind; [apply uuid_errs|intros u]. apply errs_bind; [apply fresh_errs|intros _].
  destruct (bi_size b <? Z.of_nat (length (bi_contents b))); [apply errs_value|].
  apply errs_bind; [apply map_res_errs; apply decode_block_errs|intros [blocks t1]]. apply errs_ok.
Qed.

Lemma decode_section_errs : forall t s, errs_in (decode_section t s).
Proof.
  intros t s. unfold decode_section.
  apply errs_bind; [apply uuid_errs|intros u]. apply errs_bind; [apply fresh_errs|intros _].
  apply errs_bind; [apply iter_res_errs; apply check_enum_errs|intros _].
  apply errs_bind; [apply map_res_errs; apply decode_bi_errs|intros [bis t1]]. apply errs_ok.
Qed.

Lemma decode_symbol_errs : forall t y, errs_in (decode_symbol t y).
Proof.
  intros t y. unfold decode_symbol.
  apply errs_bind; [apply uuid_errs|intros u]. apply errs_bind; [apply fresh_errs|intros _].
  apply errs_bind; [|intros p; apply errs_ok].
  destruct (y_payload y) as [|v|bs]; [apply errs_ok|apply errs_ok|].
  apply errs_bind; [apply resolve_errs|intros r]. apply errs_ok.
Qed.

Lemma decode_expr_errs : forall t kv, errs_in (decode_expr t kv).
Proof.
  intros t kv. unfold decode_expr.
  apply errs_bind; [|intros v; apply errs_ok].
  destruct (x_val (snd kv)) as [off s|sc off s1 s2|].
  - apply errs_bind; [apply resolve_errs|intros u]. apply errs_ok.
  - apply errs_bind; [apply resolve_errs|intros u1]. apply errs_bind; [apply resolve_errs|intros u2]. apply errs_ok.
  - apply errs_type.
Qed.

Lemma finish_bi_errs : forall t b, errs_in (finish_bi t b).
Proof.
  intros t b. unfold finish_bi.
  apply errs_bind; [apply map_res0_errs; apply decode_expr_errs|intros xs]. apply errs_ok.
Qed.

Lemma finish_section_errs : forall t s, errs_in (finish_section t s).
Proof.
  intros t [[[u nm] fl] bis]. unfold finish_section.
  apply errs_bind; [apply map_res0_errs; apply finish_bi_errs|intros bs]. apply errs_ok.
Qed.

Lemma decode_proxy_errs : forall t bs, errs_in (decode_proxy t bs).
Proof.
  intros t bs. unfold decode_proxy.
  apply errs_bind; [apply uuid_errs|intros u]. apply errs_bind; [apply fresh_errs|intros _]. apply errs_ok.
Qed.

Lemma decode_module_errs : forall t m, errs_in (decode_module t m).
Proof.
  intros t m. unfold decode_module.
  apply errs_bind; [apply uuid_errs|intros u]. apply errs_bind; [apply fresh_errs|intros _].
  apply errs_bind; [apply check_enum_errs|intros _]. apply errs_bind; [apply check_enum_errs|intros _].
  apply errs_bind; [apply check_enum_errs|intros _].
  apply errs_bind; [apply map_res_errs; apply decode_proxy_errs|intros [proxies t1]].
  apply errs_bind; [apply map_res_errs; apply decode_section_errs|intros [secs0 t2]].
  apply errs_bind.
  { destruct (m_entry m) as [|b bs]; [apply errs_ok|].
    apply errs_bind; [apply resolve_errs|intros e]. apply errs_ok. }
  intros entry.
  apply errs_bind; [apply map_res_errs; apply decode_symbol_errs|intros [syms t3]].
  apply errs_bind; [apply map_res0_errs; apply finish_section_errs|intros secs]. apply errs_ok.
Qed.

Lemma decode_edge_errs : forall t e, errs_in (decode_edge t e).
Proof.
  intros t e. unfold decode_edge.
  apply errs_bind; [apply resolve_errs|intros s]. apply errs_bind; [apply resolve_errs|intros d].
  apply errs_bind; [|intros l; apply errs_ok].
  destruct (e_label e) as [l|]; [|apply errs_ok].
  apply errs_bind; [apply check_enum_errs|intros _]. apply errs_ok.
Qed.

(* a rejected message is rejected with ValueError, DeserializationError or TypeError -- nothing else *)
Theorem reject_only : forall p e,
  from_proto p = Err e -> e = EValue \/ e = EDeser \/ e = EType.
Proof.
  intros p. change (errs_in (from_proto p)). unfold from_proto.
  apply errs_bind; [apply uuid_errs|intros u].
  destruct (negb (i_version p =? py_protobuf_version)); [apply errs_value|].
  apply errs_bind; [apply map_res_errs; apply decode_module_errs|intros [mods t]].
  apply errs_bind; [apply map_res0_errs; apply decode_edge_errs|intros es]. apply errs_ok.
Qed.

Lemma block_without_payload : forall t o, decode_block t {| b_off := o; b_val := PNoBlock |} = Err EType.
Proof. intros t o. reflexivity. Qed.

Lemma expr_without_value : forall t k attrs, decode_expr t (k, {| x_val := PNoExpr; x_attrs := attrs |}) = Err EType.
Proof. intros t k attrs. reflexivity. Qed.

Lemma bytes_beyond_size : forall t b u,
  uuid_of_bytes (bi_uuid b) = Ok u -> fresh t u NBI = Ok tt ->
  bi_size b < Z.of_nat (length (bi_contents b)) -> decode_bi t b = Err EValue.
Proof.
  intros t b u Hu Hf Hlt. unfold decode_bi. rewrite Hu. cbn [bind]. rewrite Hf. cbn [bind].
  apply Z.ltb_lt in Hlt. rewrite Hlt. reflexivity.
Qed.

Lemma wrong_version : forall p u,
  uuid_of_bytes (i_uuid p) = Ok u -> i_version p <> py_protobuf_version -> from_proto p = Err EValue.
Proof.
  intros p u Hu Hv. unfold from_proto. rewrite Hu. cbn [bind].
  apply Z.eqb_neq in Hv. rewrite Hv. reflexivity.
Qed.

Lemma bad_module_enum : forall t m u,
  uuid_of_bytes (m_uuid m) = Ok u -> fresh t u NMod = Ok tt ->
  enum_ok "ISA" (m_isa m) = false \/ enum_ok "FileFormat" (m_file_format m) = false
  \/ enum_ok "ByteOrder" (m_byte_order m) = false ->
  decode_module t m = Err EValue.
Proof.
  intros t m u Hu Hf H. unfold decode_module. rewrite Hu. cbn [bind]. rewrite Hf. cbn [bind].
  unfold check_enum at 1. destruct (enum_ok "ISA" (m_isa m)); [cbn [bind]|reflexivity].
  unfold check_enum at 1. destruct (enum_ok "FileFormat" (m_file_format m)); [cbn [bind]|reflexivity].
  unfold check_enum at 1. destruct (enum_ok "ByteOrder" (m_byte_order m)); [cbn [bind]|reflexivity].
  destruct H as [H|[H|H]]; discriminate H.
Qed.

(* ------------------------------------------------------------------ *)
(* (4) header gate                                                      *)
(* ------------------------------------------------------------------ *)
Lemma skipn_head_nth : forall n (l : list Z), match skipn n l with v :: _ => v | [] => 0 end = nth n l 0.
Proof.
  induction n as [|n IH]; intros [|x l]; cbn [skipn nth]; try reflexivity. apply IH.
Qed.

Lemma skipn_1_skipn : forall n (l : list Z), skipn 1 (skipn n l) = skipn (S n) l.
Proof.
  induction n as [|n IH]; intros [|x l]; try reflexivity.
  cbn [skipn] in *. apply (IH l).
Qed.

Lemma py_magic_length : length py_magic = 5%nat.
Proof. reflexivity. Qed.

Theorem header_gate : forall f rest,
  check_header f = Ok rest -> firstn 5 f = py_magic /\ nth 7 f 0 = py_protobuf_version /\ rest = skipn 8 f.
Proof.
  intros f rest H. unfold check_header in H. rewrite py_magic_length in H.
  change (5 + 2)%nat with 7%nat in H.
  destruct (zs_eqb (firstn 5 f) py_magic) eqn:Em; cbn [negb] in H; [|discriminate H].
  rewrite skipn_head_nth in H.
  destruct (nth 7 f 0 =? py_protobuf_version) eqn:Ev; cbn [negb] in H; [|discriminate H].
  injection H as <-. split; [apply zs_eqb_eq; exact Em|]. split; [apply Z.eqb_eq; exact Ev|].
  exact (skipn_1_skipn 7 f).
Qed.

Theorem header_reject : forall f e, check_header f = Err e -> e = EValue.
Proof.
  intros f e H. unfold check_header in H.
  destruct (negb (zs_eqb (firstn (length py_magic) f) py_magic)); [injection H as <-; reflexivity|].
  destruct (negb (match skipn (length py_magic + 2) f with v :: _ => v | [] => 0 end =? py_protobuf_version)).
  - injection H as <-. reflexivity.
  - discriminate H.
Qed.

Theorem load_accept : forall f p c,
  load f p = Ok c ->
  (firstn 5 f = py_magic /\ nth 7 f 0 = py_protobuf_version /\ check_header f = Ok (skipn 8 f))
  /\ from_proto p = Ok c.
Proof.
  intros f p c H. unfold load in H. bind_inv H rest Hr.
  pose proof (header_gate f rest Hr) as [H1 [H2 H3]]. subst rest.
  split; [|exact H]. split; [exact H1|]. split; [exact H2|exact Hr].
Qed.

Theorem load_reject : forall f p e,
  load f p = Err e -> e = EValue \/ e = EDeser \/ e = EType.
Proof.
  intros f p e H. unfold load in H. apply bind_err in H. destruct H as [H|[r [_ H]]].
  - left. exact (header_reject f e H).
  - exact (reject_only p e H).
Qed.

(* the reader never answers EImpossible *)
Corollary from_proto_never_impossible : forall p, from_proto p <> Err EImpossible.
Proof. intros p H. destruct (reject_only p _ H) as [E|[E|E]]; discriminate E. Qed.

Corollary load_never_impossible : forall f p, load f p <> Err EImpossible.
Proof. intros f p H. destruct (load_reject f p _ H) as [E|[E|E]]; discriminate E. Qed.
