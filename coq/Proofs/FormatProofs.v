(* Spec-shaped characterisations of the encoder: the format of AuxData.md, clause by clause. *)
From Coq Require Import ZArith Bool Lia String List.
From V Require Import Result Bytes TypeName Utf8 Float32 Codec BytesProofs CodecProofs.
Import ListNotations.
Open Scope Z_scope.


Lemma enc_leaf : forall nm k v, lookup_codec spec_table nm = Some k -> encode (T nm []) v = encode_k (Some k) [] v.
Proof. intros nm k v H. rewrite encode_unfold, H. reflexivity. Qed.

(* fixed-width little-endian unsigned integers *)
Theorem fmt_uint : forall nm n x, lookup_codec spec_table nm = Some (CInt n false) ->
  0 <= x < pow256 n -> encode (T nm []) (VInt x) = Ok (le_bytes n x).
Proof.
  intros nm n x H Hx. rewrite (enc_leaf _ _ _ H). cbn [encode_k no_subs].
  rewrite enc_int_ok. - rewrite Z.mod_small by lia. reflexivity.
  - unfold in_range. apply andb_true_iff. split; [apply Z.leb_le|apply Z.ltb_lt]; lia.
Qed.

(* fixed-width little-endian two's complement signed integers *)
Theorem fmt_sint : forall nm n x, lookup_codec spec_table nm = Some (CInt n true) ->
  - (pow256 n / 2) <= x < pow256 n / 2 -> encode (T nm []) (VInt x) = Ok (le_bytes n (x mod pow256 n)).
Proof.
  intros nm n x H Hx. rewrite (enc_leaf _ _ _ H). cbn [encode_k no_subs].
  apply enc_int_ok. unfold in_range. apply andb_true_iff. split; [apply Z.leb_le|apply Z.ltb_lt]; lia.
Qed.

(* integers outside the width are refused, never wrapped *)
Theorem fmt_int_overflow : forall nm n sg x, lookup_codec spec_table nm = Some (CInt n sg) ->
  in_range n sg x = false -> encode (T nm []) (VInt x) = Err EOverflow.
Proof.
  intros nm n sg x H Hx. rewrite (enc_leaf _ _ _ H). cbn [encode_k no_subs]. unfold enc_int. rewrite Hx. reflexivity.
Qed.

Theorem fmt_bool : forall b, encode (T (str "bool"%string) []) (VBool b) = Ok [if b then 1 else 0].
Proof. intros b. reflexivity. Qed.

Theorem fmt_double : forall b, encode (T (str "double"%string) []) (VFloat b) = Ok (le_bytes 8 b).
Proof. intros b. reflexivity. Qed.

Theorem fmt_float : forall b r, round32 b = Ok r -> encode (T (str "float"%string) []) (VFloat b) = Ok (le_bytes 4 r).
Proof. intros b r H. rewrite encode_unfold. cbn [lookup_codec]. change (lookup_codec spec_table (str "float"%string)) with (Some CF32).
  cbn [encode_k no_subs]. rewrite H. reflexivity. Qed.

(* 16 raw bytes, most significant first (uuid.UUID.bytes) *)
Theorem fmt_uuid : forall u, encode (T (str "UUID"%string) []) (VUuid u) = Ok (rev (le_bytes 16 u)).
Proof. intros u. reflexivity. Qed.

Theorem fmt_uuid_node : forall i u, encode (T (str "UUID"%string) []) (VNode i u) = Ok (rev (le_bytes 16 u)).
Proof. intros i u. reflexivity. Qed.

(* Offset = UUID then uint64 displacement *)
Theorem fmt_offset : forall u d, 0 <= d < 2 ^ 64 ->
  encode (T (str "Offset"%string) []) (VOffset (VUuid u) d) = Ok (rev (le_bytes 16 u) ++ le_bytes 8 d).
Proof.
  intros u d Hd. rewrite encode_unfold. change (lookup_codec spec_table (str "Offset"%string)) with (Some COffset).
  cbn [encode_k no_subs enc_uuid bind]. rewrite enc_int_ok.
  - rewrite Z.mod_small by (rewrite pow256_8; lia). reflexivity.
  - rewrite <- u64_in_range. unfold u64. apply andb_true_iff. split; [apply Z.leb_le|apply Z.ltb_lt]; lia.
Qed.

(* strings: uint64 count of UTF-8 BYTES, then those bytes *)
Theorem fmt_string : forall s, Z.of_nat (length (utf8_encode s)) < 2 ^ 64 ->
  encode (T (str "string"%string) []) (VStr s) = Ok (le_bytes 8 (Z.of_nat (length (utf8_encode s))) ++ utf8_encode s).
Proof.
  intros s Hs. rewrite encode_unfold. change (lookup_codec spec_table (str "string"%string)) with (Some CStr).
  cbn [encode_k no_subs]. cbv zeta. rewrite enc_int_ok.
  - cbn [bind]. rewrite Z.mod_small by (rewrite pow256_8; lia). reflexivity.
  - rewrite <- u64_in_range. unfold u64. apply andb_true_iff. split; [apply Z.leb_le|apply Z.ltb_lt]; lia.
Qed.

(* the element loop is the concatenation of the element encodings, in order *)
Lemma enc_seq_concat : forall f l body, enc_seq f l = Ok body ->
  exists parts, Forall2 (fun x p => f x = Ok p) l parts /\ body = concat parts.
Proof.
  intros f l. induction l as [|x l IH]; intros body H; cbn in H.
  - apply Ok_inj in H. subst. exists []. split; [constructor|reflexivity].
  - destruct (f x) as [a|e] eqn:Hx; cbn in H; [|discriminate].
    destruct (enc_seq f l) as [b|e] eqn:Hl; cbn in H; [|discriminate].
    apply Ok_inj in H. subst. destruct (IH b eq_refl) as [parts [HF Hb]]. subst.
    exists (a :: parts). split; [constructor; assumption|reflexivity].
Qed.

(* sequences and sets: uint64 element count, then the elements *)
Theorem fmt_sequence : forall sub l bs, encode (T (str "sequence"%string) [sub]) (VSeq l) = Ok bs ->
  exists parts, Forall2 (fun x p => encode sub x = Ok p) l parts /\
                bs = le_bytes 8 (Z.of_nat (length l)) ++ concat parts.
Proof.
  intros sub l bs H. rewrite encode_unfold in H. change (lookup_codec spec_table (str "sequence"%string)) with (Some CSeq) in H.
  cbn [encode_k] in H. apply bind_ok_inv in H as [n [Hn H]]. apply prefix_ok_inv in H as [body [Hb ->]].
  apply enc_seq_concat in Hb as [parts [HF ->]]. exists parts. split; [exact HF|].
  apply enc_int_inv in Hn as [Hr ->]. apply in_range_unsigned in Hr. rewrite Z.mod_small by lia. reflexivity.
Qed.

Theorem fmt_set : forall sub l bs, encode (T (str "set"%string) [sub]) (VSet l) = Ok bs ->
  exists parts, Forall2 (fun x p => encode sub x = Ok p) l parts /\
                bs = le_bytes 8 (Z.of_nat (length l)) ++ concat parts.
Proof.
  intros sub l bs H. rewrite encode_unfold in H. change (lookup_codec spec_table (str "set"%string)) with (Some CSet) in H.
  cbn [encode_k items_of] in H. apply bind_ok_inv in H as [n [Hn H]]. apply prefix_ok_inv in H as [body [Hb ->]].
  apply enc_seq_concat in Hb as [parts [HF ->]]. exists parts. split; [exact HF|].
  apply enc_int_inv in Hn as [Hr ->]. apply in_range_unsigned in Hr. rewrite Z.mod_small by lia. reflexivity.
Qed.

Lemma enc_map_concat : forall f g l body, enc_map f g l = Ok body ->
  exists parts, Forall2 (fun (kx : value * value) p => exists a b, f (fst kx) = Ok a /\ g (snd kx) = Ok b /\ p = a ++ b) l parts
                /\ body = concat parts.
Proof.
  intros f g l. induction l as [|[k x] l IH]; intros body H; cbn in H.
  - apply Ok_inj in H. subst. exists []. split; [constructor|reflexivity].
  - destruct (f k) as [a|e] eqn:Hk; cbn in H; [|discriminate].
    destruct (g x) as [b|e] eqn:Hx; cbn in H; [|discriminate].
    destruct (enc_map f g l) as [c|e] eqn:Hl; cbn in H; [|discriminate].
    apply Ok_inj in H. subst. destruct (IH c eq_refl) as [parts [HF Hb]]. subst.
    exists ((a ++ b) :: parts). split.
    + constructor; [exists a, b; auto|assumption].
    + cbn. rewrite app_assoc. reflexivity.
Qed.

(* mappings: uint64 pair count, then key, value, key, value ... *)
Theorem fmt_mapping : forall kt vt l bs, encode (T (str "mapping"%string) [kt; vt]) (VMap l) = Ok bs ->
  exists parts, Forall2 (fun (kx : value * value) p =>
                           exists a b, encode kt (fst kx) = Ok a /\ encode vt (snd kx) = Ok b /\ p = a ++ b) l parts /\
                bs = le_bytes 8 (Z.of_nat (length l)) ++ concat parts.
Proof.
  intros kt vt l bs H. rewrite encode_unfold in H. change (lookup_codec spec_table (str "mapping"%string)) with (Some CMap) in H.
  cbn [encode_k] in H. apply bind_ok_inv in H as [n [Hn H]]. apply prefix_ok_inv in H as [body [Hb ->]].
  apply enc_map_concat in Hb as [parts [HF ->]]. exists parts. split; [exact HF|].
  apply enc_int_inv in Hn as [Hr ->]. apply in_range_unsigned in Hr. rewrite Z.mod_small by lia. reflexivity.
Qed.

Lemma enc_tup_concat : forall subs l body, length l = length subs -> enc_tup encode subs l = Ok body ->
  exists parts, Forall2 (fun (sx : tree * value) p => encode (fst sx) (snd sx) = Ok p) (combine subs l) parts /\ body = concat parts.
Proof.
  induction subs as [|s subs IH]; intros [|x l] body Hlen H; cbn in *; try discriminate.
  - apply Ok_inj in H. subst. exists []. split; [constructor|reflexivity].
  - destruct (encode s x) as [a|e] eqn:Hx; cbn in H; [|discriminate].
    destruct (enc_tup encode subs l) as [b|e] eqn:Hl; cbn in H; [|discriminate].
    apply Ok_inj in H. subst. destruct (IH l b ltac:(lia) Hl) as [parts [HF Hb]]. subst.
    exists (a :: parts). split; [constructor; assumption|reflexivity].
Qed.

(* tuples: the fields in order, no count *)
Theorem fmt_tuple : forall subs l bs, encode (T (str "tuple"%string) subs) (VTuple l) = Ok bs ->
  length l = length subs /\
  exists parts, Forall2 (fun (sx : tree * value) p => encode (fst sx) (snd sx) = Ok p) (combine subs l) parts /\ bs = concat parts.
Proof.
  intros subs l bs H. rewrite encode_unfold in H. change (lookup_codec spec_table (str "tuple"%string)) with (Some CTuple) in H.
  cbn [encode_k items_of] in H. destruct (Nat.eqb (length l) (length subs)) eqn:Hlen; [|discriminate].
  apply Nat.eqb_eq in Hlen. split; [exact Hlen|]. apply enc_tup_concat; assumption.
Qed.

Lemma enc_pick_nth : forall x subs k body, 0 <= k -> enc_pick encode x subs k = Ok body ->
  exists s, nth_error subs (Z.to_nat k) = Some s /\ encode s x = Ok body.
Proof.
  intros x subs. induction subs as [|s subs IH]; intros k body Hk H; cbn in H; [discriminate|].
  destruct (k =? 0) eqn:Hk0.
  - apply Z.eqb_eq in Hk0. subst. exists s. split; [reflexivity|exact H].
  - apply Z.eqb_neq in Hk0. destruct (IH (k - 1) body ltac:(lia) H) as [s' [Hn He]]. exists s'. split; [|exact He].
    replace (Z.to_nat k) with (S (Z.to_nat (k - 1))) by lia. exact Hn.
Qed.

(* variants: uint64 alternative index, then that alternative *)
Theorem fmt_variant : forall subs i x bs, encode (T (str "variant"%string) subs) (VVariant i x) = Ok bs ->
  0 <= i < 2 ^ 64 /\
  exists s body, nth_error subs (Z.to_nat i) = Some s /\ encode s x = Ok body /\ bs = le_bytes 8 i ++ body.
Proof.
  intros subs i x bs H. rewrite encode_unfold in H. change (lookup_codec spec_table (str "variant"%string)) with (Some CVariant) in H.
  cbn [encode_k] in H. apply bind_ok_inv in H as [n [Hn H]]. apply prefix_ok_inv in H as [body [Hb ->]].
  apply enc_int_inv in Hn as [Hr ->]. apply in_range_unsigned in Hr. rewrite pow256_8 in Hr. split; [exact Hr|].
  apply enc_pick_nth in Hb as [s [Hs He]]; [|lia]. exists s, body. repeat split; auto.
  rewrite Z.mod_small by (rewrite pow256_8; lia). reflexivity.
Qed.
