(* Lemmas about the read-only sequence protocol of Model/SeqOps.v (property C16). *)
From Coq Require Import ZArith List Bool Lia Arith Sorted.
From V Require Import Result SeqOps.
Import ListNotations.
Open Scope Z_scope.

(* ------------------------------------------------------------------ *)
(* Corner cases, checked against CPython 3.11 (list and gtirb.util.ListWrapper) *)

Example ex_index_neg_start_zero_stop : py_index [0;1;2] 1 (Some (-5)) (Some 0) = Err EValue.
Proof. reflexivity. Qed.
Example ex_index_crossed : py_index [0;1;2] 2 (Some 2) (Some 1) = Err EValue.
Proof. reflexivity. Qed.
Example ex_index_plain : py_index [5;3;5;5;9;3] 3 None None = Ok 1%nat.
Proof. reflexivity. Qed.
Example ex_index_from_start : py_index [5;3;5;5;9;3] 3 (Some 2) None = Ok 5%nat.
Proof. reflexivity. Qed.
Example ex_index_neg_start : py_index [5;3;5;5;9;3] 5 (Some (-3)) None = Ok 3%nat.
Proof. reflexivity. Qed.
Example ex_index_neg_stop : py_index [5;3;5;5;9;3] 3 (Some 2) (Some (-1)) = Err EValue.
Proof. reflexivity. Qed.
Example ex_index_big_stop : py_index [5;3;5;5;9;3] 9 (Some (-100)) (Some 100) = Ok 4%nat.
Proof. reflexivity. Qed.
Example ex_index_start_past_end : py_index [5;3] 5 (Some 7) None = Err EValue.
Proof. reflexivity. Qed.
Example ex_index_empty : py_index [] 5 None None = Err EValue.
Proof. reflexivity. Qed.
Example ex_count : py_count [0;-1;0;-1;2;2;0] 0 = 3%nat.
Proof. reflexivity. Qed.
Example ex_contains_no : py_contains [1;2;3] 99 = false.
Proof. reflexivity. Qed.
Example ex_getitem_last : py_getitem [10;11;12] (-1) = Ok 12.
Proof. reflexivity. Qed.
Example ex_getitem_first_neg : py_getitem [10;11;12] (-3) = Ok 10.
Proof. reflexivity. Qed.
Example ex_getitem_below : py_getitem [10;11;12] (-4) = Err EIndex.
Proof. reflexivity. Qed.
Example ex_getitem_len : py_getitem [10;11;12] 3 = Err EIndex.
Proof. reflexivity. Qed.
Example ex_getitem_empty : py_getitem [] 0 = Err EIndex.
Proof. reflexivity. Qed.
Example ex_slice_down : py_getslice [10;11;12;13;14] (Some 5) (Some 1) (-1) = Ok [14;13;12].
Proof. reflexivity. Qed.
Example ex_slice_rev : py_getslice [10;11;12;13;14] None None (-1) = Ok [14;13;12;11;10].
Proof. reflexivity. Qed.
Example ex_slice_wide_step3 : py_getslice [10;11;12;13;14] (Some (-100)) (Some 100) 3 = Ok [10;13].
Proof. reflexivity. Qed.
Example ex_slice_step0 : py_getslice [10;11;12;13;14] None None 0 = Err EValue.
Proof. reflexivity. Qed.
Example ex_slice_past_end : py_getslice [10;11;12;13;14] (Some 10) None 1 = Ok [].
Proof. reflexivity. Qed.
Example ex_slice_neg_step2 : py_getslice [10;11;12;13;14] None None (-2) = Ok [14;12;10].
Proof. reflexivity. Qed.
Example ex_slice_neg_bounds : py_getslice [10;11;12;13;14] (Some (-2)) (Some (-5)) (-1) = Ok [13;12;11].
Proof. reflexivity. Qed.
Example ex_slice_neg_to_start : py_getslice [10;11;12;13;14] (Some 2) (Some (-100)) (-1) = Ok [12;11;10].
Proof. reflexivity. Qed.
Example ex_slice_up_with_neg_step : py_getslice [10;11;12;13;14] (Some 1) (Some 4) (-1) = Ok [].
Proof. reflexivity. Qed.
Example ex_slice_empty_rev : py_getslice [] None None (-1) = Ok [].
Proof. reflexivity. Qed.
Example ex_indices_neg : py_slice_indices None None (-1) 5 = Ok (4, -1, -1).
Proof. reflexivity. Qed.
Example ex_indices_neg_empty : py_slice_indices (Some 3) (Some (-9)) (-2) 0 = Ok (-1, -1, -2).
Proof. reflexivity. Qed.
Example ex_indices_pos : py_slice_indices (Some (-100)) (Some 100) 3 5 = Ok (0, 5, 3).
Proof. reflexivity. Qed.
Example ex_positions : py_range_positions 4 (-1) (-2) 5 = [4;2;0]%nat.
Proof. reflexivity. Qed.
Example ex_reversed : py_reversed [1;2;3] = [3;2;1].
Proof. reflexivity. Qed.

(* ------------------------------------------------------------------ *)
(* clamp_bound *)

Lemma clamp_bound_spec : forall i len,
  (i < 0 -> Z.of_nat (clamp_bound i len) = Z.max 0 (i + Z.of_nat len)) /\
  (0 <= i -> Z.of_nat (clamp_bound i len) = Z.min i (Z.of_nat len)).
Proof.
  intros i len. unfold clamp_bound.
  destruct (Z.ltb_spec i 0) as [Hi|Hi]; split; intros H; lia.
Qed.

Lemma clamp_bound_le : forall i len, (clamp_bound i len <= len)%nat.
Proof.
  intros i len. unfold clamp_bound.
  destruct (Z.ltb_spec i 0) as [Hi|Hi]; lia.
Qed.

Lemma index_lo_le : forall a len, (index_lo a len <= len)%nat.
Proof. intros [a|] len; cbn [index_lo]; [apply clamp_bound_le | lia]. Qed.

Lemma index_hi_le : forall b len, (index_hi b len <= len)%nat.
Proof. intros [b|] len; cbn [index_hi]; [apply clamp_bound_le | lia]. Qed.

(* ------------------------------------------------------------------ *)
(* index *)

(* p is the first position in [lo, hi) holding x *)
Definition first_in (l : list Z) (x : Z) (lo hi p : nat) : Prop :=
  (lo <= p < hi)%nat /\ nth_error l p = Some x /\
  forall q, (lo <= q < p)%nat -> nth_error l q <> Some x.

Lemma index_from_some : forall l x pos lo hi p,
  index_from l x pos lo hi = Some p ->
  exists k, p = (pos + k)%nat /\ (lo <= p < hi)%nat /\ nth_error l k = Some x /\
    forall j, (j < k)%nat -> (lo <= pos + j)%nat -> nth_error l j <> Some x.
Proof.
  induction l as [|y t IH]; intros x pos lo hi p H; cbn [index_from] in H.
  - discriminate.
  - destruct (Nat.leb lo pos && Nat.ltb pos hi && (y =? x))%bool eqn:C.
    + injection H as <-.
      apply andb_prop in C as [C Cy]. apply andb_prop in C as [C1 C2].
      apply Nat.leb_le in C1. apply Nat.ltb_lt in C2. apply Z.eqb_eq in Cy. subst y.
      exists O. split; [lia|]. split; [lia|]. split; [reflexivity|].
      intros j Hj _. lia.
    + apply IH in H as (k & -> & Hr & Hn & Hm).
      exists (S k). split; [lia|]. split; [lia|]. split; [exact Hn|].
      intros j Hj Hlo. destruct j as [|j].
      * cbn [nth_error]. intros Heq. injection Heq as ->.
        rewrite Z.eqb_refl, andb_true_r in C.
        apply andb_false_iff in C as [C|C].
        -- apply Nat.leb_gt in C. lia.
        -- apply Nat.ltb_ge in C. lia.
      * cbn [nth_error]. apply Hm; lia.
Qed.

Lemma index_from_none : forall l x pos lo hi,
  index_from l x pos lo hi = None ->
  forall k, (lo <= pos + k < hi)%nat -> nth_error l k <> Some x.
Proof.
  induction l as [|y t IH]; intros x pos lo hi H k Hk.
  - destruct k; discriminate.
  - cbn [index_from] in H.
    destruct (Nat.leb lo pos && Nat.ltb pos hi && (y =? x))%bool eqn:C; [discriminate|].
    destruct k as [|k].
    + cbn [nth_error]. intros Heq. injection Heq as ->.
      rewrite Z.eqb_refl, andb_true_r in C.
      apply andb_false_iff in C as [C|C].
      * apply Nat.leb_gt in C. lia.
      * apply Nat.ltb_ge in C. lia.
    + cbn [nth_error]. apply (IH x (S pos) lo hi H). lia.
Qed.

Lemma first_in_unique : forall l x lo hi p q,
  first_in l x lo hi p -> first_in l x lo hi q -> p = q.
Proof.
  intros l x lo hi p q (Hp & Hpx & Hpm) (Hq & Hqx & Hqm).
  destruct (Nat.lt_trichotomy p q) as [H|[H|H]].
  - exfalso. apply (Hqm p); [lia | exact Hpx].
  - exact H.
  - exfalso. apply (Hpm q); [lia | exact Hqx].
Qed.

Lemma py_index_sound : forall l x a b p,
  py_index l x a b = Ok p ->
  first_in l x (index_lo a (length l)) (index_hi b (length l)) p.
Proof.
  intros l x a b p H. unfold py_index in H.
  destruct (index_from l x O (index_lo a (length l)) (index_hi b (length l))) as [p'|] eqn:E;
    [|discriminate].
  injection H as <-.
  apply index_from_some in E as (k & -> & Hr & Hn & Hm).
  cbn [Nat.add] in *. split; [exact Hr|]. split; [exact Hn|].
  intros q Hq. apply Hm; lia.
Qed.

Lemma py_index_err_sound : forall l x a b e,
  py_index l x a b = Err e ->
  e = EValue /\
  forall q, (index_lo a (length l) <= q < index_hi b (length l))%nat -> nth_error l q <> Some x.
Proof.
  intros l x a b e H. unfold py_index in H.
  destruct (index_from l x O (index_lo a (length l)) (index_hi b (length l))) as [p'|] eqn:E;
    [discriminate|].
  injection H as <-. split; [reflexivity|].
  intros q Hq. apply (index_from_none _ _ _ _ _ E q). cbn [Nat.add]. exact Hq.
Qed.

(* Theorem 1, Ok half *)
Theorem py_index_spec : forall l x a b p,
  py_index l x a b = Ok p <->
  first_in l x (index_lo a (length l)) (index_hi b (length l)) p.
Proof.
  intros l x a b p. split; [apply py_index_sound|].
  intros Hf. destruct (py_index l x a b) as [p'|e] eqn:E.
  - apply py_index_sound in E. f_equal. exact (first_in_unique _ _ _ _ _ _ E Hf).
  - apply py_index_err_sound in E as [_ Hno]. destruct Hf as (Hr & Hx & _).
    exfalso. exact (Hno p Hr Hx).
Qed.

(* Theorem 1, Err half *)
Theorem py_index_spec_err : forall l x a b e,
  py_index l x a b = Err e <->
  e = EValue /\
  forall q, (index_lo a (length l) <= q < index_hi b (length l))%nat -> nth_error l q <> Some x.
Proof.
  intros l x a b e. split; [apply py_index_err_sound|].
  intros [-> Hno]. destruct (py_index l x a b) as [p'|e] eqn:E.
  - apply py_index_sound in E. destruct E as (Hr & Hx & _). exfalso. exact (Hno p' Hr Hx).
  - apply py_index_err_sound in E as [-> _]. reflexivity.
Qed.

(* the bounds are Python's: negative values count from the end, everything is clamped into [0, len] *)
Lemma py_index_bounds : forall a b len,
  Z.of_nat (index_lo a len) =
    match a with None => 0
               | Some s => if s <? 0 then Z.max 0 (s + Z.of_nat len) else Z.min s (Z.of_nat len) end /\
  Z.of_nat (index_hi b len) =
    match b with None => Z.of_nat len
               | Some s => if s <? 0 then Z.max 0 (s + Z.of_nat len) else Z.min s (Z.of_nat len) end.
Proof.
  intros a b len. split.
  - destruct a as [s|]; cbn [index_lo]; [|reflexivity].
    destruct (clamp_bound_spec s len) as [H1 H2].
    destruct (Z.ltb_spec s 0) as [Hs|Hs]; [apply H1 | apply H2]; exact Hs.
  - destruct b as [s|]; cbn [index_hi]; [|reflexivity].
    destruct (clamp_bound_spec s len) as [H1 H2].
    destruct (Z.ltb_spec s 0) as [Hs|Hs]; [apply H1 | apply H2]; exact Hs.
Qed.

(* Theorem 2 *)
Theorem py_index_default : forall l x p,
  py_index l x None None = Ok p <->
  nth_error l p = Some x /\ forall q, (q < p)%nat -> nth_error l q <> Some x.
Proof.
  intros l x p. rewrite py_index_spec. unfold first_in. cbn [index_lo index_hi]. split.
  - intros (_ & Hx & Hm). split; [exact Hx|]. intros q Hq. apply Hm. lia.
  - intros (Hx & Hm). split.
    + split; [lia|]. apply nth_error_Some. rewrite Hx. discriminate.
    + split; [exact Hx|]. intros q Hq. apply Hm. lia.
Qed.

(* a found position is always a valid index *)
Lemma py_index_lt_len : forall l x a b p, py_index l x a b = Ok p -> (p < length l)%nat.
Proof.
  intros l x a b p H. apply py_index_sound in H as (_ & Hx & _).
  apply nth_error_Some. rewrite Hx. discriminate.
Qed.

(* ------------------------------------------------------------------ *)
(* count / contains *)

Theorem py_count_spec : forall l x, py_count l x = count_occ Z.eq_dec l x.
Proof.
  induction l as [|y t IH]; intros x; cbn [py_count count_occ]; [reflexivity|].
  rewrite IH. destruct (Z.eqb_spec y x) as [E|E]; destruct (Z.eq_dec y x) as [D|D];
    try reflexivity; contradiction.
Qed.

Theorem py_count_filter : forall l x, py_count l x = length (filter (Z.eqb x) l).
Proof.
  induction l as [|y t IH]; intros x; cbn [py_count filter]; [reflexivity|].
  rewrite IH, (Z.eqb_sym x y). destruct (y =? x); reflexivity.
Qed.

Theorem py_contains_In : forall l x, py_contains l x = true <-> In x l.
Proof.
  induction l as [|y t IH]; intros x; cbn [py_contains In].
  - split; [discriminate | intros []].
  - destruct (Z.eqb_spec y x) as [E|E].
    + split; [intros _; left; exact E | reflexivity].
    + rewrite IH. split; [intros H; right; exact H | intros [H|H]; [contradiction | exact H]].
Qed.

Lemma py_contains_index_from : forall l x pos,
  py_contains l x = true <-> exists p, index_from l x pos O (pos + length l) = Some p.
Proof.
  induction l as [|y t IH]; intros x pos; cbn [py_contains index_from length].
  - split; [discriminate | intros [p H]; discriminate].
  - replace (Nat.ltb pos (pos + S (length t))) with true
      by (symmetry; apply Nat.ltb_lt; lia).
    cbn [Nat.leb andb].
    destruct (y =? x).
    + split; [intros _; exists pos; reflexivity | reflexivity].
    + rewrite (IH x (S pos)). replace (S pos + length t)%nat with (pos + S (length t))%nat by lia.
      reflexivity.
Qed.

Theorem py_contains_index : forall l x,
  py_contains l x = true <-> exists p, py_index l x None None = Ok p.
Proof.
  intros l x. rewrite (py_contains_index_from l x O). unfold py_index.
  cbn [index_lo index_hi Nat.add].
  destruct (index_from l x O O (length l)) as [p|].
  - split; intros _; exists p; reflexivity.
  - split; intros [p H]; discriminate.
Qed.

Theorem py_contains_count : forall l x, py_contains l x = true <-> (0 < py_count l x)%nat.
Proof.
  induction l as [|y t IH]; intros x; cbn [py_contains py_count].
  - split; [discriminate | lia].
  - destruct (y =? x); [split; [lia | reflexivity] | apply IH].
Qed.

(* ------------------------------------------------------------------ *)
(* l[i] *)

Theorem py_getitem_spec : forall l i v,
  py_getitem l i = Ok v <->
  (0 <= i < Z.of_nat (length l) /\ nth_error l (Z.to_nat i) = Some v) \/
  (- Z.of_nat (length l) <= i < 0 /\ nth_error l (Z.to_nat (i + Z.of_nat (length l))) = Some v).
Proof.
  intros l i v. unfold py_getitem. cbv zeta.
  destruct (Z.ltb_spec i 0) as [Hi|Hi].
  - destruct (Z.ltb_spec (i + Z.of_nat (length l)) 0) as [Hj|Hj]; cbn [orb].
    + split; [discriminate | intros [[H _]|[H _]]; lia].
    + destruct (Z.leb_spec (Z.of_nat (length l)) (i + Z.of_nat (length l))) as [Hk|Hk]; [lia|].
      destruct (nth_error l (Z.to_nat (i + Z.of_nat (length l)))) as [w|] eqn:E.
      * split.
        -- intros H. injection H as <-. right. split; [lia | reflexivity].
        -- intros [[H _]|[_ H]]; [lia|]. injection H as <-. reflexivity.
      * apply nth_error_None in E. lia.
  - destruct (Z.ltb_spec i 0) as [Hj|Hj]; [lia|]. cbn [orb].
    destruct (Z.leb_spec (Z.of_nat (length l)) i) as [Hk|Hk].
    + split; [discriminate | intros [[H _]|[H _]]; lia].
    + destruct (nth_error l (Z.to_nat i)) as [w|] eqn:E.
      * split.
        -- intros H. injection H as <-. left. split; [lia | reflexivity].
        -- intros [[_ H]|[H _]]; [|lia]. injection H as <-. reflexivity.
      * apply nth_error_None in E. lia.
Qed.

Theorem py_getitem_spec_err : forall l i e,
  py_getitem l i = Err e <->
  e = EIndex /\ (i < - Z.of_nat (length l) \/ Z.of_nat (length l) <= i).
Proof.
  intros l i e. unfold py_getitem. cbv zeta.
  destruct (Z.ltb_spec i 0) as [Hi|Hi].
  - destruct (Z.ltb_spec (i + Z.of_nat (length l)) 0) as [Hj|Hj]; cbn [orb].
    + split; [intros H; injection H as <-; split; [reflexivity | lia] | intros [-> _]; reflexivity].
    + destruct (Z.leb_spec (Z.of_nat (length l)) (i + Z.of_nat (length l))) as [Hk|Hk]; [lia|].
      destruct (nth_error l (Z.to_nat (i + Z.of_nat (length l)))) as [w|] eqn:E.
      * split; [discriminate | intros [_ H]; lia].
      * apply nth_error_None in E. lia.
  - destruct (Z.ltb_spec i 0) as [Hj|Hj]; [lia|]. cbn [orb].
    destruct (Z.leb_spec (Z.of_nat (length l)) i) as [Hk|Hk].
    + split; [intros H; injection H as <-; split; [reflexivity | lia] | intros [-> _]; reflexivity].
    + destruct (nth_error l (Z.to_nat i)) as [w|] eqn:E.
      * split; [discriminate | intros [_ H]; lia].
      * apply nth_error_None in E. lia.
Qed.

(* ------------------------------------------------------------------ *)
(* slice.indices *)

Lemma slice_bound_range : forall b dflt lower upper n,
  lower <= 0 -> n - 1 <= upper -> lower <= upper -> lower <= dflt <= upper ->
  lower <= slice_bound b dflt lower upper n <= upper.
Proof.
  intros b dflt lower upper n H0 Hn Hlu Hd. unfold slice_bound.
  destruct b as [v|]; [|exact Hd].
  destruct (Z.ltb_spec v 0) as [Hv|Hv]; lia.
Qed.

Lemma py_slice_indices_zero : forall a b len, py_slice_indices a b 0 len = Err EValue.
Proof. reflexivity. Qed.

Lemma py_slice_indices_bounds : forall a b c len s e st,
  py_slice_indices a b c len = Ok (s, e, st) ->
  st = c /\ c <> 0 /\
  (0 < c -> 0 <= s <= Z.of_nat len /\ 0 <= e <= Z.of_nat len) /\
  (c < 0 -> -1 <= s <= Z.of_nat len - 1 /\ -1 <= e <= Z.of_nat len - 1).
Proof.
  intros a b c len s e st H. unfold py_slice_indices in H. cbv zeta in H.
  destruct (Z.eqb_spec c 0) as [Hc|Hc]; [discriminate|].
  destruct (Z.ltb_spec c 0) as [Hn|Hn]; injection H as <- <- <-.
  - split; [reflexivity|]. split; [exact Hc|]. split; [lia|]. intros _.
    split; apply slice_bound_range; lia.
  - split; [reflexivity|]. split; [exact Hc|]. split; [|lia]. intros _.
    split; apply slice_bound_range; lia.
Qed.

Lemma py_slice_indices_ok : forall a b c len, c <> 0 ->
  exists s e, py_slice_indices a b c len = Ok (s, e, c).
Proof.
  intros a b c len Hc. unfold py_slice_indices. cbv zeta.
  destruct (Z.eqb_spec c 0) as [H|H]; [contradiction|].
  eexists. eexists. reflexivity.
Qed.

(* for a positive step the two bounds are exactly the clamped bounds index() uses *)
Lemma py_slice_indices_pos_clamp : forall a b c len, 0 < c ->
  py_slice_indices a b c len =
    Ok (Z.of_nat (index_lo a len), Z.of_nat (index_hi b len), c).
Proof.
  intros a b c len Hc. unfold py_slice_indices. cbv zeta.
  destruct (Z.eqb_spec c 0) as [H|H]; [lia|].
  destruct (Z.ltb_spec c 0) as [Hn|Hn]; [lia|].
  destruct (py_index_bounds a b len) as [Ha Hb]. rewrite Ha, Hb.
  unfold slice_bound.
  assert (Hpair : forall x y x' y' : Z, x = x' -> y = y' -> @Ok (Z * Z * Z) (x, y, c) = Ok (x', y', c))
    by (intros x y x' y' -> ->; reflexivity).
  destruct a as [v|]; destruct b as [w|]; try reflexivity.
  - destruct (Z.ltb_spec v 0) as [Hv|Hv]; destruct (Z.ltb_spec w 0) as [Hw|Hw];
      apply Hpair; lia.
  - destruct (Z.ltb_spec v 0) as [Hv|Hv]; apply Hpair; lia.
  - destruct (Z.ltb_spec w 0) as [Hw|Hw]; apply Hpair; lia.
Qed.

(* for a negative step: defaults len-1 and -1; a negative input gets +len; clamp into [-1, len-1] *)
Lemma py_slice_indices_neg : forall a b c len, c < 0 ->
  py_slice_indices a b c len =
    Ok (match a with None => Z.of_nat len - 1
                   | Some v => if v <? 0 then Z.max (v + Z.of_nat len) (-1)
                               else Z.min v (Z.of_nat len - 1) end,
        match b with None => -1
                   | Some v => if v <? 0 then Z.max (v + Z.of_nat len) (-1)
                               else Z.min v (Z.of_nat len - 1) end,
        c).
Proof.
  intros a b c len Hc. unfold py_slice_indices. cbv zeta.
  destruct (Z.eqb_spec c 0) as [H|H]; [lia|].
  destruct (Z.ltb_spec c 0) as [Hn|Hn]; [|lia].
  unfold slice_bound. reflexivity.
Qed.

(* ------------------------------------------------------------------ *)
(* range positions *)

Lemma range_from_length : forall fuel cur e st, (length (range_from fuel cur e st) <= fuel)%nat.
Proof.
  induction fuel as [|f IH]; intros cur e st; cbn [range_from]; [cbn; lia|].
  destruct (if 0 <? st then cur <? e else e <? cur); cbn [length]; [|lia].
  specialize (IH (cur + st) e st). lia.
Qed.

Lemma range_from_in_pos : forall fuel cur e st p,
  0 < st -> 0 <= cur -> In p (range_from fuel cur e st) ->
  exists k, 0 <= k /\ Z.of_nat p = cur + k * st /\ Z.of_nat p < e.
Proof.
  induction fuel as [|f IH]; intros cur e st p Hst Hcur Hin; cbn [range_from] in Hin.
  - destruct Hin.
  - destruct (Z.ltb_spec 0 st) as [_|Hc]; [|lia].
    destruct (Z.ltb_spec cur e) as [Hlt|Hge]; [|destruct Hin].
    destruct Hin as [<-|Hin].
    + exists 0. lia.
    + apply IH in Hin as (k & Hk & Hp & He); [|lia|lia].
      exists (k + 1). lia.
Qed.

Lemma range_from_in_neg : forall fuel cur e st p,
  st < 0 -> -1 <= e -> In p (range_from fuel cur e st) ->
  exists k, 0 <= k /\ Z.of_nat p = cur + k * st /\ e < Z.of_nat p.
Proof.
  induction fuel as [|f IH]; intros cur e st p Hst He Hin; cbn [range_from] in Hin.
  - destruct Hin.
  - destruct (Z.ltb_spec 0 st) as [Hc|_]; [lia|].
    destruct (Z.ltb_spec e cur) as [Hlt|Hge]; [|destruct Hin].
    destruct Hin as [<-|Hin].
    + exists 0. lia.
    + apply IH in Hin as (k & Hk & Hp & Hep); [|lia|lia].
      exists (k + 1). lia.
Qed.

Lemma range_from_sorted_pos : forall fuel cur e st,
  0 < st -> 0 <= cur -> StronglySorted lt (range_from fuel cur e st).
Proof.
  induction fuel as [|f IH]; intros cur e st Hst Hcur; cbn [range_from].
  - constructor.
  - destruct (if 0 <? st then cur <? e else e <? cur); [|constructor].
    constructor.
    + apply IH; lia.
    + apply Forall_forall. intros p Hin.
      apply range_from_in_pos in Hin as (k & Hk & Hp & _); [|lia|lia].
      assert (Hks : 0 <= k * st) by (apply Z.mul_nonneg_nonneg; lia). lia.
Qed.

Lemma range_from_sorted_neg : forall fuel cur e st,
  st < 0 -> -1 <= e -> StronglySorted gt (range_from fuel cur e st).
Proof.
  induction fuel as [|f IH]; intros cur e st Hst He; cbn [range_from].
  - constructor.
  - destruct (Z.ltb_spec 0 st) as [Hc|_]; [lia|].
    destruct (Z.ltb_spec e cur) as [Hlt|Hge]; [|constructor].
    constructor.
    + apply IH; lia.
    + apply Forall_forall. intros p Hin.
      apply range_from_in_neg in Hin as (k & Hk & Hp & _); [|lia|lia].
      assert (Hks : k * st <= 0) by (apply Z.mul_nonneg_nonpos; lia).
      unfold gt. lia.
Qed.

(* the k-th member, when there is one, is s + k*st, and it is on the right side of the stop *)
Lemma range_from_nth_sound : forall fuel cur e st k p,
  nth_error (range_from fuel cur e st) k = Some p ->
  p = Z.to_nat (cur + Z.of_nat k * st) /\
  (if 0 <? st then cur + Z.of_nat k * st <? e else e <? cur + Z.of_nat k * st) = true.
Proof.
  induction fuel as [|f IH]; intros cur e st k p H; cbn [range_from] in H.
  - destruct k; discriminate.
  - destruct (if 0 <? st then cur <? e else e <? cur) eqn:C; [|destruct k; discriminate].
    destruct k as [|k]; cbn [nth_error] in H.
    + injection H as <-. replace (cur + Z.of_nat 0 * st) with cur by lia. split; [reflexivity|exact C].
    + apply IH in H as [Hp Hc].
      replace (cur + Z.of_nat (S k) * st) with (cur + st + Z.of_nat k * st) by lia.
      split; [exact Hp | exact Hc].
Qed.

(* ... and enough fuel never cuts the enumeration short *)
Lemma range_from_nth_complete : forall fuel cur e st k,
  st <> 0 -> (k < fuel)%nat ->
  (if 0 <? st then cur + Z.of_nat k * st <? e else e <? cur + Z.of_nat k * st) = true ->
  nth_error (range_from fuel cur e st) k = Some (Z.to_nat (cur + Z.of_nat k * st)).
Proof.
  induction fuel as [|f IH]; intros cur e st k Hst Hk Hc; [lia|].
  cbn [range_from].
  assert (C : (if 0 <? st then cur <? e else e <? cur) = true).
  { destruct (Z.ltb_spec 0 st) as [Hp|Hp].
    - apply Z.ltb_lt in Hc. apply Z.ltb_lt. nia.
    - apply Z.ltb_lt in Hc. apply Z.ltb_lt. nia. }
  rewrite C. destruct k as [|k]; cbn [nth_error].
  - replace (cur + Z.of_nat 0 * st) with cur by lia. reflexivity.
  - replace (cur + Z.of_nat (S k) * st) with (cur + st + Z.of_nat k * st) in * by lia.
    apply IH; [exact Hst | lia | exact Hc].
Qed.

(* ------------------------------------------------------------------ *)
(* gather *)

Lemma gather_length : forall l ps, (length (gather l ps) <= length ps)%nat.
Proof.
  intros l. induction ps as [|p t IH]; cbn [gather length]; [lia|].
  destruct (nth_error l p); cbn [length]; lia.
Qed.

Lemma gather_map : forall l ps,
  Forall (fun p => (p < length l)%nat) ps -> map Some (gather l ps) = map (nth_error l) ps.
Proof.
  intros l. induction ps as [|p t IH]; intros HF; cbn [gather map]; [reflexivity|].
  inversion HF as [|p' t' Hp Ht]; subst.
  destruct (nth_error l p) as [v|] eqn:E.
  - cbn [map]. rewrite IH by exact Ht. reflexivity.
  - apply nth_error_None in E. lia.
Qed.

Lemma skipn_nth_error : forall (l : list Z) a v,
  nth_error l a = Some v -> skipn a l = v :: skipn (S a) l.
Proof.
  induction l as [|y t IH]; intros a v H.
  - destruct a; discriminate.
  - destruct a as [|a]; cbn [nth_error] in H.
    + injection H as <-. reflexivity.
    + cbn [skipn]. rewrite (IH a v H). reflexivity.
Qed.

Lemma firstn_S_nth_error : forall (l : list Z) k v,
  nth_error l k = Some v -> firstn (S k) l = firstn k l ++ [v].
Proof.
  induction l as [|y t IH]; intros k v H.
  - destruct k; discriminate.
  - destruct k as [|k]; cbn [nth_error] in H.
    + injection H as <-. reflexivity.
    + cbn [firstn app]. f_equal. exact (IH k v H).
Qed.

Lemma gather_range_up : forall d l a fuel,
  (a + d <= length l)%nat -> (d <= fuel)%nat ->
  gather l (range_from fuel (Z.of_nat a) (Z.of_nat (a + d)) 1) = firstn d (skipn a l).
Proof.
  induction d as [|d IH]; intros l a fuel Hlen Hfuel.
  - destruct fuel as [|f]; cbn [range_from]; [reflexivity|].
    change (0 <? 1) with true. cbv iota.
    destruct (Z.ltb_spec (Z.of_nat a) (Z.of_nat (a + 0))) as [H|H]; [lia|]. reflexivity.
  - destruct fuel as [|f]; [lia|]. cbn [range_from].
    change (0 <? 1) with true. cbv iota.
    destruct (Z.ltb_spec (Z.of_nat a) (Z.of_nat (a + S d))) as [H|H]; [|lia].
    cbn [gather]. rewrite Nat2Z.id.
    destruct (nth_error l a) as [v|] eqn:E; [|apply nth_error_None in E; lia].
    rewrite (skipn_nth_error l a v E). cbn [firstn]. f_equal.
    replace (Z.of_nat a + 1) with (Z.of_nat (S a)) by lia.
    replace (a + S d)%nat with (S a + d)%nat by lia.
    apply IH; lia.
Qed.

Lemma gather_range_down : forall k l fuel,
  (k <= length l)%nat -> (k <= fuel)%nat ->
  gather l (range_from fuel (Z.of_nat k - 1) (-1) (-1)) = rev (firstn k l).
Proof.
  induction k as [|k IH]; intros l fuel Hlen Hfuel.
  - destruct fuel as [|f]; cbn [range_from]; reflexivity.
  - destruct fuel as [|f]; [lia|]. cbn [range_from].
    change (0 <? -1) with false. cbv iota.
    destruct (Z.ltb_spec (-1) (Z.of_nat (S k) - 1)) as [H|H]; [|lia].
    replace (Z.of_nat (S k) - 1) with (Z.of_nat k) by lia.
    cbn [gather]. rewrite Nat2Z.id.
    destruct (nth_error l k) as [v|] eqn:E; [|apply nth_error_None in E; lia].
    rewrite (firstn_S_nth_error l k v E), rev_app_distr. cbn [rev app]. f_equal.
    replace (Z.of_nat k + -1) with (Z.of_nat k - 1) by lia.
    apply IH; lia.
Qed.

(* ------------------------------------------------------------------ *)
(* l[a:b:c] *)

Theorem py_getslice_step0 : forall l a b, py_getslice l a b 0 = Err EValue.
Proof. reflexivity. Qed.

Theorem py_getslice_err : forall l a b c e,
  py_getslice l a b c = Err e <-> e = EValue /\ c = 0.
Proof.
  intros l a b c e. split.
  - intros H. destruct (Z.eq_dec c 0) as [->|Hc].
    + rewrite py_getslice_step0 in H. injection H as <-. split; reflexivity.
    + unfold py_getslice in H.
      destruct (py_slice_indices_ok a b c (length l) Hc) as (s & t & E). rewrite E in H. discriminate.
  - intros [-> ->]. apply py_getslice_step0.
Qed.

(* Theorem 5 (stronger than asked: a <= b is not needed; for b < a both sides are []) *)
Theorem py_getslice_step1 : forall l a b,
  0 <= a <= Z.of_nat (length l) -> 0 <= b <= Z.of_nat (length l) ->
  py_getslice l (Some a) (Some b) 1 = Ok (firstn (Z.to_nat (b - a)) (skipn (Z.to_nat a) l)).
Proof.
  intros l a b Ha Hb. unfold py_getslice.
  rewrite py_slice_indices_pos_clamp by lia.
  destruct (py_index_bounds (Some a) (Some b) (length l)) as [Hlo Hhi].
  rewrite Hlo, Hhi.
  destruct (Z.ltb_spec a 0) as [H|_]; [lia|]. destruct (Z.ltb_spec b 0) as [H|_]; [lia|].
  rewrite !Z.min_l by lia. f_equal. unfold py_range_positions. change (1 =? 0) with false. cbv iota.
  destruct (Z_le_gt_dec a b) as [Hab|Hab].
  - replace a with (Z.of_nat (Z.to_nat a)) at 1 by lia.
    replace b with (Z.of_nat (Z.to_nat a + Z.to_nat (b - a))) at 1 by lia.
    apply gather_range_up; lia.
  - replace (Z.to_nat (b - a)) with O by lia. cbn [firstn].
    destruct (length l) as [|n]; cbn [range_from]; [reflexivity|].
    change (0 <? 1) with true. cbv iota.
    destruct (Z.ltb_spec a b) as [H|H]; [lia|]. reflexivity.
Qed.

(* the same with natural-number bounds, as the task states it *)
Corollary py_getslice_step1_nat : forall l (a b : nat),
  (a <= b <= length l)%nat ->
  py_getslice l (Some (Z.of_nat a)) (Some (Z.of_nat b)) 1 = Ok (firstn (b - a) (skipn a l)).
Proof.
  intros l a b H. rewrite py_getslice_step1 by lia.
  replace (Z.to_nat (Z.of_nat b - Z.of_nat a)) with (b - a)%nat by lia.
  rewrite Nat2Z.id. reflexivity.
Qed.

(* Theorem 6 *)
Theorem py_getslice_full : forall l,
  py_getslice l None None 1 = Ok l /\ py_getslice l None None (-1) = Ok (rev l).
Proof.
  intros l. split.
  - unfold py_getslice. rewrite py_slice_indices_pos_clamp by lia.
    cbn [index_lo index_hi]. f_equal.
    unfold py_range_positions. change (1 =? 0) with false. cbv iota.
    change (Z.of_nat 0) with (Z.of_nat O).
    replace (Z.of_nat (length l)) with (Z.of_nat (0 + length l)) by (f_equal; lia).
    rewrite gather_range_up by lia.
    cbn [skipn]. apply firstn_all.
  - unfold py_getslice. rewrite py_slice_indices_neg by lia. f_equal.
    unfold py_range_positions. change (-1 =? 0) with false. cbv iota.
    rewrite gather_range_down by lia. rewrite firstn_all. reflexivity.
Qed.

Corollary py_getslice_reversed : forall l, py_getslice l None None (-1) = Ok (py_reversed l).
Proof. intros l. apply py_getslice_full. Qed.

(* facts about the positions enumerated for genuine slice indices *)
Lemma py_range_positions_props : forall a b c len s e,
  py_slice_indices a b c len = Ok (s, e, c) ->
  let ps := py_range_positions s e c len in
  Forall (fun p => (p < len)%nat) ps /\
  (0 < c -> StronglySorted lt ps) /\
  (c < 0 -> StronglySorted gt ps) /\
  Forall (fun p => Z.of_nat p mod Z.abs c = s mod Z.abs c) ps /\
  (forall p, In p ps -> exists k, 0 <= k /\ Z.of_nat p = s + k * c) /\
  (length ps <= len)%nat.
Proof.
  intros a b c len s e H ps.
  apply py_slice_indices_bounds in H as (_ & Hc & Hpos & Hneg).
  assert (Hk : forall p, In p ps ->
             exists k, 0 <= k /\ Z.of_nat p = s + k * c /\ (p < len)%nat).
  { intros p Hin. unfold ps, py_range_positions in Hin.
    destruct (Z.eqb_spec c 0) as [H0|_]; [contradiction|].
    destruct (Z_lt_le_dec 0 c) as [Hp|Hp].
    - destruct (Hpos Hp) as [Hs He].
      apply range_from_in_pos in Hin as (k & Hk & Hv & Hlt); [|lia|lia].
      exists k. split; [exact Hk|]. split; [exact Hv|]. lia.
    - assert (Hn : c < 0) by lia. destruct (Hneg Hn) as [Hs He].
      apply range_from_in_neg in Hin as (k & Hk & Hv & Hlt); [|lia|lia].
      exists k. split; [exact Hk|]. split; [exact Hv|]. nia. }
  split.
  { apply Forall_forall. intros p Hin. destruct (Hk p Hin) as (k & _ & _ & Hlt). exact Hlt. }
  split.
  { intros Hp. unfold ps, py_range_positions. destruct (Z.eqb_spec c 0) as [H0|_]; [contradiction|].
    apply range_from_sorted_pos; [exact Hp | destruct (Hpos Hp) as [Hs _]; lia]. }
  split.
  { intros Hn. unfold ps, py_range_positions. destruct (Z.eqb_spec c 0) as [H0|_]; [contradiction|].
    apply range_from_sorted_neg; [exact Hn | destruct (Hneg Hn) as [_ He]; lia]. }
  split.
  { apply Forall_forall. intros p Hin. destruct (Hk p Hin) as (k & _ & Hv & _). rewrite Hv.
    destruct (Z_lt_le_dec 0 c) as [Hp|Hp].
    - rewrite Z.abs_eq by lia. apply Z_mod_plus_full.
    - rewrite Z.abs_neq by lia.
      replace (s + k * c) with (s + (- k) * (- c)) by lia. apply Z_mod_plus_full. }
  split.
  { intros p Hin. destruct (Hk p Hin) as (k & Hk0 & Hv & _). exists k. split; [exact Hk0 | exact Hv]. }
  unfold ps, py_range_positions. destruct (c =? 0); [cbn; lia | apply range_from_length].
Qed.

(* exact description of the positions: the k-th one exists iff s + k*c is still before the stop,
   and then it is s + k*c  (so the fuel [len] never truncates range(s, e, c)) *)
Theorem py_range_positions_nth : forall a b c len s e k p,
  py_slice_indices a b c len = Ok (s, e, c) ->
  (nth_error (py_range_positions s e c len) k = Some p <->
   Z.of_nat p = s + Z.of_nat k * c /\
   (if 0 <? c then s + Z.of_nat k * c < e else e < s + Z.of_nat k * c)).
Proof.
  intros a b c len s e k p H.
  apply py_slice_indices_bounds in H as (_ & Hc & Hpos & Hneg).
  unfold py_range_positions. destruct (Z.eqb_spec c 0) as [H0|_]; [contradiction|].
  split.
  - intros Hn. apply range_from_nth_sound in Hn as [-> Hcond].
    destruct (Z.ltb_spec 0 c) as [Hp|Hp].
    + apply Z.ltb_lt in Hcond. destruct (Hpos Hp) as [Hs He]. split; [nia | exact Hcond].
    + apply Z.ltb_lt in Hcond. assert (Hn : c < 0) by lia. destruct (Hneg Hn) as [Hs He].
      split; [lia | exact Hcond].
  - intros [Hv Hcond].
    replace p with (Z.to_nat (s + Z.of_nat k * c)) by lia.
    apply range_from_nth_complete; [exact Hc | |].
    + destruct (Z.ltb_spec 0 c) as [Hp|Hp].
      * destruct (Hpos Hp) as [Hs He]. nia.
      * assert (Hn : c < 0) by lia. destruct (Hneg Hn) as [Hs He]. nia.
    + destruct (Z.ltb_spec 0 c) as [Hp|Hp]; apply Z.ltb_lt; exact Hcond.
Qed.

(* Theorem 7 *)
Theorem py_getslice_positions : forall l a b c, c <> 0 ->
  exists s e r,
    py_slice_indices a b c (length l) = Ok (s, e, c) /\
    py_getslice l a b c = Ok r /\
    let ps := py_range_positions s e c (length l) in
    map Some r = map (nth_error l) ps /\
    Forall (fun p => (p < length l)%nat) ps /\
    (0 < c -> StronglySorted lt ps) /\
    (c < 0 -> StronglySorted gt ps) /\
    Forall (fun p => Z.of_nat p mod Z.abs c = s mod Z.abs c) ps /\
    (forall d, hd_error ps = Some d -> Z.of_nat d = s).
Proof.
  intros l a b c Hc.
  destruct (py_slice_indices_ok a b c (length l) Hc) as (s & e & E).
  exists s, e, (gather l (py_range_positions s e c (length l))).
  split; [exact E|]. split; [unfold py_getslice; rewrite E; reflexivity|].
  intros ps.
  destruct (py_range_positions_props a b c (length l) s e E) as (Hlt & Hup & Hdown & Hmod & _ & _).
  fold ps in Hlt, Hup, Hdown, Hmod.
  split; [apply gather_map; exact Hlt|].
  split; [exact Hlt|]. split; [exact Hup|]. split; [exact Hdown|]. split; [exact Hmod|].
  intros d Hd.
  assert (Hn : nth_error ps O = Some d) by (destruct ps; [discriminate | exact Hd]).
  apply (py_range_positions_nth a b c (length l) s e O d E) in Hn as [Hv _]. lia.
Qed.

(* Theorem 8 *)
Theorem py_getslice_length_le : forall l a b c r,
  py_getslice l a b c = Ok r -> (length r <= length l)%nat.
Proof.
  intros l a b c r H. unfold py_getslice in H.
  destruct (py_slice_indices a b c (length l)) as [[[s e] st]|er] eqn:E; [|discriminate].
  injection H as <-.
  pose proof (gather_length l (py_range_positions s e st (length l))) as H1.
  assert (H2 : (length (py_range_positions s e st (length l)) <= length l)%nat).
  { unfold py_range_positions. destruct (st =? 0); [cbn; lia | apply range_from_length]. }
  lia.
Qed.

(* the exact length: one element per enumerated position *)
Theorem py_getslice_length : forall l a b c s e r,
  py_slice_indices a b c (length l) = Ok (s, e, c) ->
  py_getslice l a b c = Ok r ->
  length r = length (py_range_positions s e c (length l)).
Proof.
  intros l a b c s e r E H. unfold py_getslice in H. rewrite E in H. injection H as <-.
  destruct (py_range_positions_props a b c (length l) s e E) as (Hlt & _).
  apply gather_map in Hlt.
  apply (f_equal (@length (option Z))) in Hlt. rewrite !map_length in Hlt. exact Hlt.
Qed.

(* the positions of a genuine slice are inside the list and pairwise distinct (what an extended-slice
   ASSIGNMENT needs: every position is written once) *)
Lemma StronglySorted_lt_NoDup : forall l : list nat, StronglySorted lt l -> NoDup l.
Proof.
  induction l as [|x l IH]; intros H; [constructor|].
  inversion H as [|x' l' Hs Hall]; subst. constructor; [|apply IH; exact Hs].
  intros Hin. rewrite Forall_forall in Hall. specialize (Hall x Hin). lia.
Qed.

Lemma StronglySorted_gt_NoDup : forall l : list nat, StronglySorted gt l -> NoDup l.
Proof.
  induction l as [|x l IH]; intros H; [constructor|].
  inversion H as [|x' l' Hs Hall]; subst. constructor; [|apply IH; exact Hs].
  intros Hin. rewrite Forall_forall in Hall. specialize (Hall x Hin). unfold gt in Hall. lia.
Qed.

Theorem py_range_positions_NoDup : forall a b c len s e st,
  py_slice_indices a b c len = Ok (s, e, st) ->
  st = c /\ c <> 0 /\ NoDup (py_range_positions s e st len) /\
  (forall p, In p (py_range_positions s e st len) -> (p < len)%nat).
Proof.
  intros a b c len s e st H.
  destruct (py_slice_indices_bounds a b c len s e st H) as (Hst & Hc & _). subst st.
  destruct (py_range_positions_props a b c len s e H) as (Hlt & Hup & Hdown & _).
  split; [reflexivity|]. split; [exact Hc|]. split.
  - destruct (Z_lt_le_dec 0 c) as [Hp|Hp].
    + apply StronglySorted_lt_NoDup, Hup, Hp.
    + apply StronglySorted_gt_NoDup, Hdown. lia.
  - rewrite Forall_forall in Hlt. exact Hlt.
Qed.

Theorem py_reversed_spec : forall l, py_reversed l = rev l /\ length (py_reversed l) = length l.
Proof. intros l. split; [reflexivity | apply rev_length]. Qed.

Print Assumptions py_index_spec.
Print Assumptions py_index_spec_err.
Print Assumptions py_index_bounds.
Print Assumptions py_index_default.
Print Assumptions py_index_lt_len.
Print Assumptions py_count_spec.
Print Assumptions py_count_filter.
Print Assumptions py_contains_In.
Print Assumptions py_contains_index.
Print Assumptions py_contains_count.
Print Assumptions py_getitem_spec.
Print Assumptions py_getitem_spec_err.
Print Assumptions py_slice_indices_bounds.
Print Assumptions py_slice_indices_pos_clamp.
Print Assumptions py_slice_indices_neg.
Print Assumptions py_getslice_step0.
Print Assumptions py_getslice_err.
Print Assumptions py_getslice_step1.
Print Assumptions py_getslice_step1_nat.
Print Assumptions py_getslice_full.
Print Assumptions py_getslice_reversed.
Print Assumptions py_range_positions_props.
Print Assumptions py_range_positions_nth.
Print Assumptions py_getslice_positions.
Print Assumptions py_getslice_length_le.
Print Assumptions py_getslice_length.
Print Assumptions py_range_positions_NoDup.
Print Assumptions py_reversed_spec.
