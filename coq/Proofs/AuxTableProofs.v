From Coq Require Import ZArith List Bool Lia.
From V Require Import Result Bytes TypeName Codec AuxTable.
Import ListNotations.
Open Scope Z_scope.

Lemma zs_eqb_refl : forall a, zs_eqb a a = true.
Proof. induction a as [|x a IH]; cbn; [reflexivity|]. rewrite Z.eqb_refl, IH. reflexivity. Qed.

Lemma zs_eqb_eq : forall a b, zs_eqb a b = true -> a = b.
Proof.
  induction a as [|x a IH]; intros [|y b] H; cbn in H; try discriminate; [reflexivity|].
  apply andb_true_iff in H as [H1 H2]. apply Z.eqb_eq in H1. subst. f_equal. auto.
Qed.

(* --- 1. untouched tables are written back verbatim --- *)

Lemma steps_untouched_lazy : forall get ops t raw tn0,
  lazy t = Some (raw, tn0) -> forallb touches ops = false \/ True ->
  forallb (fun o => negb (touches o)) ops = true ->
  lazy (steps get t ops) = Some (raw, tn0).
Proof.
  intros get ops. induction ops as [|o ops IH]; intros t raw tn0 Hl _ Hn; cbn in *; [exact Hl|].
  apply andb_true_iff in Hn as [Ho Hn].
  destruct o as [| v' | v | s]; cbn in Ho; try discriminate.
  cbn. apply IH; auto.
Qed.

Theorem untouched_verbatim : forall get ops raw tn0 t',
  forallb (fun o => negb (touches o)) ops = true ->
  t' = steps get (load tn0 raw) ops ->
  tname t' = tn0 ->
  exists t'', save get t' = Ok (t'', (tn0, raw)) /\ lazy t'' = Some (raw, tn0).
Proof.
  intros get ops raw tn0 t' Hn -> Ht.
  assert (Hl : lazy (steps get (load tn0 raw) ops) = Some (raw, tn0)).
  { apply steps_untouched_lazy; auto. }
  unfold save. rewrite Hl. rewrite Ht. rewrite zs_eqb_refl. eexists. split; [reflexivity|exact Hl].
Qed.

(* any number of save/load generations: the bytes on disk never change *)
Fixpoint generations (get : Z -> option Z) (n : nat) (tn raw : list Z) : res (list Z * list Z) :=
  match n with
  | O => Ok (tn, raw)
  | S n' =>
    match save get (load tn raw) with
    | Ok (_, (tn', raw')) => generations get n' tn' raw'
    | Err e => Err e
    end
  end.

Theorem untouched_generations : forall get n tn raw, generations get n tn raw = Ok (tn, raw).
Proof.
  intros get n. induction n as [|n IH]; intros tn raw; cbn; [reflexivity|].
  rewrite zs_eqb_refl. apply IH.
Qed.

(* --- 2. touched tables are written as the encoding of the current value under the current name --- *)

Theorem touched_reencoded : forall get t t' out,
  lazy t = None -> save get t = Ok (t', out) ->
  exists bs, encode_top (tname t) (data t) = Ok bs /\ out = (tname t, bs) /\ t' = t.
Proof.
  intros get t t' out Hl Hs. unfold save in Hs. rewrite Hl in Hs.
  destruct (encode_top (tname t) (data t)) as [bs|e] eqn:He; cbn in Hs; [|discriminate].
  inversion Hs; subst. eauto.
Qed.

Lemma read_clears : forall get t t' v, read get t = Ok (t', v) -> lazy t' = None /\ data t' = v /\ tname t' = tname t.
Proof.
  intros get t t' v H. unfold read in H. destruct (lazy t) as [[raw tn0]|] eqn:Hl.
  - destruct (decode_top get tn0 raw) as [v0|e]; cbn in H; [|discriminate]. inversion H; subst. cbn. auto.
  - inversion H; subst. auto.
Qed.

Theorem touch_clears_lazy : forall get t o t',
  touches o = true -> step get t o = Ok t' -> lazy t' = None.
Proof.
  intros get t o t' Ht Hs. destruct o as [| v' | v | s]; cbn in *; try discriminate.
  - destruct (read get t) as [[t1 v1]|e] eqn:Hr; cbn in Hs; [|discriminate]. inversion Hs; subst.
    apply read_clears in Hr. tauto.
  - destruct (read get t) as [[t1 v1]|e] eqn:Hr; cbn in Hs; [|discriminate]. inversion Hs; subst. reflexivity.
  - inversion Hs; subst. reflexivity.
Qed.

Theorem touched_value : forall get t o t',
  step get t o = Ok t' ->
  match o with
  | Mutate v | Assign v => data t' = v /\ tname t' = tname t
  | Read => (lazy t = None -> t' = t)
            /\ (forall raw tn0, lazy t = Some (raw, tn0) -> decode_top get tn0 raw = Ok (data t') /\ tname t' = tname t)
  | SetType s => tname t' = s /\ data t' = data t /\ lazy t' = lazy t
  end.
Proof.
  intros get t o t' Hs. destruct o as [| v' | v | s]; cbn in Hs.
  - destruct (read get t) as [[t1 v1]|e] eqn:Hr; cbn in Hs; [|discriminate]. inversion Hs; subst. split.
    + intros Hl. unfold read in Hr. rewrite Hl in Hr. inversion Hr; subst. reflexivity.
    + intros raw tn0 Hl. unfold read in Hr. rewrite Hl in Hr.
      destruct (decode_top get tn0 raw) as [v0|e]; cbn in Hr; [|discriminate]. inversion Hr; subst. cbn. auto.
  - destruct (read get t) as [[t1 v1]|e] eqn:Hr; cbn in Hs; [|discriminate]. inversion Hs; subst. cbn.
    apply read_clears in Hr. tauto.
  - inversion Hs; subst. cbn. auto.
  - inversion Hs; subst. cbn. auto.
Qed.

(* retyped but never read: decoded under the OLD name, encoded under the NEW one -- never the raw bytes *)
Theorem retyped_reencoded : forall get raw tn0 tn1 t' out,
  zs_eqb tn1 tn0 = false ->
  save get {| lazy := Some (raw, tn0); data := VUnknown []; tname := tn1 |} = Ok (t', out) ->
  exists v bs, decode_top get tn0 raw = Ok v /\ encode_top tn1 v = Ok bs /\ out = (tn1, bs) /\ lazy t' = None.
Proof.
  intros get raw tn0 tn1 t' out Hne Hs. unfold save in Hs. cbn in Hs. rewrite Hne in Hs.
  unfold read in Hs. cbn in Hs.
  destruct (decode_top get tn0 raw) as [v|e] eqn:Hd; cbn in Hs; [|discriminate].
  destruct (encode_top tn1 v) as [bs|e] eqn:He; cbn in Hs; [|discriminate].
  inversion Hs; subst. exists v, bs. cbn. auto.
Qed.

(* --- 3. a table whose type involves an unknown name keeps its bytes even after being read --- *)

Theorem unknown_sticky : forall get tn raw t1,
  decode_top get tn raw = Ok (VUnknown raw) ->
  step get (load tn raw) Read = Ok t1 ->
  forall tn', exists t2, save get {| lazy := lazy t1; data := data t1; tname := tn' |} = Ok (t2, (tn', raw)).
Proof.
  intros get tn raw t1 Hd Hs tn'. cbn in Hs. unfold read in Hs. cbn in Hs. rewrite Hd in Hs. cbn in Hs.
  inversion Hs; subst. cbn. unfold save. cbn. eexists. reflexivity.
Qed.

(* when does decode_top give UnknownData?  exactly when the tree decoder meets an unknown codec name *)
Theorem unknown_iff : forall get tn raw t,
  parse_type tn = Ok t ->
  (decode_top get tn raw = Ok (VUnknown raw) <->
   decode get t raw = Err EUnknownCodec \/ exists rest, decode get t raw = Ok (VUnknown raw, rest)).
Proof.
  intros get tn raw t Hp. unfold decode_top. rewrite Hp. cbn. split.
  - destruct (decode get t raw) as [[v rest]|e] eqn:Hd.
    + intros H. inversion H; subst. right. eauto.
    + destruct e; intros H; try discriminate. left. reflexivity.
  - intros [H|[rest H]]; rewrite H; reflexivity.
Qed.
