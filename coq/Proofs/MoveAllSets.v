(* Task MA: "move everything from there to here" for the owning node sets.
   `p.collection.update(q.collection)` / `p.collection |= q.collection` with q another owner of the same kind:
   the receiver gains every member of q's collection, q's collection is empty afterwards, and no owner other
   than p gains a child. *)
From Coq Require Import ZArith List Bool Lia.
From V Require Import Result LazyTree World WorldGuard ForestDefs InvDefs.
From V Require Import SetOpsBase SetOpsProofs.
Import ListNotations.
Open Scope Z_scope.

(* ---------- nobody but the receiver gains a child (arbitrary arguments) ---------- *)

(* the fold of set_add used by update (non-interval owners) and by |= *)
Lemma fold_add_no_gain known w0 p fk l :
  Forest w0 known -> CacheInv w0 -> has w0 p = true -> field_ok (kindof w0 p) fk = true ->
  (forall c, In c l -> member_ok w0 fk c = true) ->
  forall r x, r <> p -> In x (kids (fst (fold_ok (fun w c => set_add w p c) l w0)) r) -> In x (kids w0 r).
Proof.
  intros Hf Hc Hhp Hfk Hl.
  pose (P := fun (w : world) =>
               Good known w0 w /\ forall r x, r <> p -> In x (kids w r) -> In x (kids w0 r)).
  destruct (fold_ok_inv P (fun w c => set_add w p c) l) with (w := w0) as [[_ A] _].
  - intros w v [Hg Hk] Hv.
    pose proof (Hl v Hv) as Hmv.
    destruct (good_add known w0 w p fk v Hg Hhp Hfk Hmv) as [Hg' Hfl].
    split; [|exact Hfl]. split; [exact Hg'|].
    destruct Hg as [Hfw [Hcw Hpw]].
    destruct (Hpw p) as [Hhp' Hkp']. pose proof Hfk as Hfk'. rewrite <- Hkp' in Hfk'.
    pose proof Hmv as Hmv'. rewrite <- (member_ok_pres w0 w fk v Hpw) in Hmv'.
    destruct (member_ok_child w p fk v Hfk' Hmv') as [Hhv [Hpk Hpi]].
    destruct (set_add_ok w known p v Hfw Hcw (eq_trans Hhp' Hhp) Hhv Hpk Hpi) as [_ [_ [_ [_ [_ [_ [Hq _]]]]]]].
    intros r x Hr Hx. rewrite (Hq r Hr) in Hx. apply remove_id_In in Hx. apply (Hk r x Hr). exact (proj1 Hx).
  - split; [apply good_refl; assumption|]. intros r x _ Hx. exact Hx.
  - exact A.
Qed.

(* the byte-interval code path *)
Lemma blocks_no_gain w known bi items :
  Forest w known -> CacheInv w -> has w bi = true -> kindof w bi = KBI ->
  (forall v, In v items -> has w v = true /\ is_block (kindof w v) = true) ->
  forall r x, r <> bi -> In x (kids (fst (blocks_update w bi items)) r) -> In x (kids w r).
Proof.
  intros Hf Hc Hhb Hbk Hitems r x Hr Hx.
  destruct (blocks_update_ok w known bi items Hf Hc Hhb Hbk Hitems) as [_ [_ [_ [_ [_ [Hq _]]]]]].
  rewrite (Hq r Hr) in Hx. apply filter_In in Hx. exact (proj1 Hx).
Qed.

Theorem oset_update_no_gain : forall w known p fk args w',
  Forest w known -> CacheInv w -> op_okb w known (OSet p fk SUpdate args) = true ->
  step w (OSet p fk SUpdate args) = Ok w' ->
  forall r x, r <> p -> In x (kids w' r) -> In x (kids w r).
Proof.
  intros w known p fk args w' Hf Hc Hg H. destruct (oset_guard _ _ _ _ _ _ Hg) as [Hhp [Hfk [Hargs _]]].
  assert (Hall : forall c, In c (concat args) -> member_ok w fk c = true) by (apply forallb_concat; exact Hargs).
  cbn [step do_set] in H.
  destruct (kind_eq_dec (kindof w p) KBI) as [E|E].
  - rewrite E in H. cbv beta iota in H.
    destruct (good_blocks known w p fk (concat args) Hf Hc Hhp E Hfk Hall) as [_ Hfl].
    rewrite (flagged_true _ Hfl) in H. injection H as H. subst w'.
    pose proof Hfk as Hfk2. rewrite E in Hfk2. cbn [field_ok] in Hfk2. apply kinds_eqb_eq in Hfk2. subst fk.
    apply (blocks_no_gain w known p (concat args) Hf Hc Hhp E).
    intros v Hv. apply member_ok_block. apply Hall. exact Hv.
  - assert (H' : flagged (fold_ok (fun w c => set_add w p c) (concat args) w) = Ok w').
    { destruct (kindof w p); try exact H. exfalso. apply E. reflexivity. }
    destruct (fold_add_kids known w p fk (concat args) Hf Hc Hhp Hfk Hall) as [_ [Hfl _]].
    rewrite (flagged_true _ Hfl) in H'. injection H' as H'. subst w'.
    apply (fold_add_no_gain known w p fk (concat args) Hf Hc Hhp Hfk Hall).
Qed.

Theorem oset_ior_no_gain : forall w known p fk a w',
  Forest w known -> CacheInv w -> op_okb w known (OSet p fk SIor [a]) = true ->
  step w (OSet p fk SIor [a]) = Ok w' ->
  forall r x, r <> p -> In x (kids w' r) -> In x (kids w r).
Proof.
  intros w known p fk a w' Hf Hc Hg H. destruct (oset_guard _ _ _ _ _ _ Hg) as [Hhp [Hfk [Hargs _]]].
  assert (Hall : forall c, In c a -> member_ok w fk c = true).
  { intros c Hc'. apply (forallb_concat _ _ Hargs). cbn [concat]. rewrite app_nil_r. exact Hc'. }
  cbn [step do_set] in H.
  destruct (fold_add_kids known w p fk a Hf Hc Hhp Hfk Hall) as [_ [Hfl _]].
  rewrite (flagged_true _ Hfl) in H. injection H as H. subst w'.
  apply (fold_add_no_gain known w p fk a Hf Hc Hhp Hfk Hall).
Qed.

(* ---------- the donor's collection is empty afterwards ---------- *)

Lemma move_all_core w known w' p q fk :
  p <> q -> Good known w w' ->
  (forall x, In x (field w' p fk) <-> In x (field w p fk) \/ In x (field w q fk)) ->
  (forall r x, r <> p -> In x (kids w' r) -> In x (kids w r)) ->
  field w' q fk = [].
Proof.
  intros Hpq [Hf' [_ Hpres]] Hfield Hng.
  destruct (field w' q fk) as [|y l] eqn:E; [reflexivity|]. exfalso.
  assert (In y (field w' q fk)) as Hin by (rewrite E; left; reflexivity).
  apply (field_In_pres w w' q fk y Hpres) in Hin. destruct Hin as [Hkq' HinF].
  assert (In y (kids w q)) as Hkq by (apply (Hng q y (not_eq_sym Hpq)); exact Hkq').
  assert (In y (field w q fk)) as Hfq by (apply field_In; split; assumption).
  assert (In y (field w' p fk)) as Hfp by (apply Hfield; right; exact Hfq).
  apply field_In in Hfp. destruct Hfp as [Hkp' _].
  apply (f_two_ended _ _ Hf') in Hkp'. apply (f_two_ended _ _ Hf') in Hkq'.
  apply Hpq. congruence.
Qed.

(* ---------- the two theorems ---------- *)

(* 1. update with the whole collection of another owner q of the same kind *)
Theorem oset_update_all_of_another : forall w known p q fk,
  Forest w known -> CacheInv w -> p <> q ->
  op_okb w known (OSet p fk SUpdate [field w q fk]) = true ->
  exists w', step w (OSet p fk SUpdate [field w q fk]) = Ok w' /\
    Forest w' known /\ CacheInv w' /\
    (forall x, In x (field w' p fk) <-> In x (field w p fk) \/ In x (field w q fk)) /\
    field w' q fk = [] /\
    (forall r x, r <> p -> In x (kids w' r) -> In x (kids w r)).      (* nobody else gains a child *)
Proof.
  intros w known p q fk Hf Hc Hpq Hg.
  destruct (oset_update_effect w known p fk [field w q fk] Hf Hc Hg) as [w' [Hstep [Hgood Hfield]]].
  assert (Hfield' : forall x, In x (field w' p fk) <-> In x (field w p fk) \/ In x (field w q fk)).
  { intro x. rewrite (Hfield x). cbn [concat]. rewrite app_nil_r. tauto. }
  pose proof (oset_update_no_gain w known p fk [field w q fk] w' Hf Hc Hg Hstep) as Hng.
  pose proof (move_all_core w known w' p q fk Hpq Hgood Hfield' Hng) as Hempty.
  destruct Hgood as [Hf' [Hc' _]].
  exists w'. split; [exact Hstep|]. split; [exact Hf'|]. split; [exact Hc'|].
  split; [exact Hfield'|]. split; [exact Hempty|exact Hng].
Qed.

(* 2. the same for |= *)
Theorem oset_ior_all_of_another : forall w known p q fk,
  Forest w known -> CacheInv w -> p <> q ->
  op_okb w known (OSet p fk SIor [field w q fk]) = true ->
  exists w', step w (OSet p fk SIor [field w q fk]) = Ok w' /\
    Forest w' known /\ CacheInv w' /\
    (forall x, In x (field w' p fk) <-> In x (field w p fk) \/ In x (field w q fk)) /\
    field w' q fk = [] /\
    (forall r x, r <> p -> In x (kids w' r) -> In x (kids w r)).      (* nobody else gains a child *)
Proof.
  intros w known p q fk Hf Hc Hpq Hg.
  destruct (oset_ior_effect w known p fk (field w q fk) Hf Hc Hg) as [w' [Hstep [Hgood Hfield]]].
  pose proof (oset_ior_no_gain w known p fk (field w q fk) w' Hf Hc Hg Hstep) as Hng.
  pose proof (move_all_core w known w' p q fk Hpq Hgood Hfield Hng) as Hempty.
  destruct Hgood as [Hf' [Hc' _]].
  exists w'. split; [exact Hstep|]. split; [exact Hf'|]. split; [exact Hc'|].
  split; [exact Hfield|]. split; [exact Hempty|exact Hng].
Qed.

Print Assumptions oset_update_no_gain.
Print Assumptions oset_ior_no_gain.
Print Assumptions oset_update_all_of_another.
Print Assumptions oset_ior_all_of_another.
