(* INT2: glue lemmas for the property files Props/C01.v C02.v C09.v C17.v C18.v.
   Everything here is assembled from Proofs/ProtoRoundTrip.v (writer then reader), Proofs/ProtoReaderBase.v and
   Proofs/ProtoReader.v (reader alone), Proofs/DeepEqProofs.v (deep_eq), and the two GENERATED files gen/Schema.v
   (from /repo/proto/*.proto) and gen/PyFacts.v (introspected from the working-tree Python package). *)
From Coq Require Import String ZArith List Bool Lia Permutation.
From V Require Import Result Bytes BytesProofs Schema PyFacts Proto DeepEq.
From V Require ProtoRoundTrip DeepEqBase DeepEqProofs.
From V Require Import ProtoReaderBase ProtoReader.
Import ListNotations.
Local Open Scope string_scope.
Local Open Scope list_scope.
Local Open Scope Z_scope.

(* ================================================================== *)
(* Part A (C01): save then load                                        *)
(* ================================================================== *)

(* the loaded content is deep_eq to the saved one, in both directions *)
Theorem deep_eq_both_ways : forall c c', wf c = true -> DeepEqProofs.aux_keys_ok c = true ->
  load (fst (save c)) (snd (save c)) = Ok c' -> ir_deq c c' = true /\ ir_deq c' c = true.
Proof.
  intros c c' Hwf Haux Hl. rewrite (ProtoRoundTrip.file_roundtrip c Hwf) in Hl. injection Hl as <-.
  pose proof (DeepEqProofs.deep_eq_refl c (DeepEqProofs.wf_deq_ok c Hwf Haux)) as H. split; exact H.
Qed.

(* saving the loaded content again gives the same header and the same message *)
Theorem resave_same_message : forall c c', wf c = true -> load (fst (save c)) (snd (save c)) = Ok c' ->
  fst (save c') = fst (save c) /\ to_proto c' = to_proto c.
Proof.
  intros c c' Hwf Hl. pose proof (ProtoRoundTrip.resave_same c c' Hwf Hl) as H.
  split; [reflexivity|]. exact (f_equal snd H).
Qed.

(* the header written by save is accepted and leaves exactly the message bytes *)
Theorem saved_header_accepted : forall c rest, check_header (fst (save c) ++ rest) = Ok rest.
Proof. intros c rest. exact (ProtoRoundTrip.header_accepted rest). Qed.

(* ---------- the staging of entry points ----------
   `wf` demands that the entry point of a module names a code block of the SAME or of an EARLIER module of the IR
   (module_ok: `mem_z e (codes ++ code_uuids m)`), because the reader resolves m_entry while it decodes the module
   (decode_module: `resolve t2 (m_entry m) ...`, t2 = the table after this module's sections), so a code block of a
   later module is not in the table yet.  `wf_entry_unstaged` is wf with exactly that staging dropped: the content with
   all entry points erased is wf, and every entry point names a code block of SOME module of the IR. *)
Definition clear_entry (m : cModule) : cModule :=
  {| cm_uuid := cm_uuid m; cm_name := cm_name m; cm_binary_path := cm_binary_path m; cm_isa := cm_isa m;
     cm_file_format := cm_file_format m; cm_byte_order := cm_byte_order m; cm_preferred_addr := cm_preferred_addr m;
     cm_rebase_delta := cm_rebase_delta m; cm_entry := None;
     cm_proxies := cm_proxies m; cm_sections := cm_sections m; cm_symbols := cm_symbols m; cm_aux := cm_aux m |}.
Definition clear_entries (c : cIR) : cIR :=
  {| cr_uuid := cr_uuid c; cr_version := cr_version c; cr_modules := map clear_entry (cr_modules c);
     cr_edges := cr_edges c; cr_aux := cr_aux c |}.
Definition entries_in_ir (c : cIR) : bool :=
  forallb (fun m => match cm_entry m with
                    | Some e => mem_z e (flat_map code_uuids (cr_modules c))
                    | None => true end) (cr_modules c).
Definition wf_entry_unstaged (c : cIR) : bool := wf (clear_entries c) && entries_in_ir c.

Lemma module_ok_clear_entry : forall codes blocks syms m,
  module_ok codes blocks syms m = true -> module_ok codes blocks syms (clear_entry m) = true.
Proof.
  intros codes blocks syms m H. unfold module_ok in *. cbv zeta in *.
  repeat rewrite andb_true_iff in H. destruct H as [[[[[[H1 H2] H3] H4] _] H6] H7].
  cbn [clear_entry cm_isa cm_file_format cm_byte_order cm_sections cm_entry cm_symbols].
  change (block_uuids (clear_entry m)) with (block_uuids m).
  rewrite H1, H2, H3, H4, H6, H7. reflexivity.
Qed.

Lemma modules_ok_clear_entry : forall ms codes blocks syms,
  modules_ok codes blocks syms ms = true -> modules_ok codes blocks syms (map clear_entry ms) = true.
Proof.
  induction ms as [|m ms IH]; intros codes blocks syms H; [reflexivity|].
  cbn [modules_ok map] in *. apply andb_true_iff in H. destruct H as [H1 H2].
  rewrite (module_ok_clear_entry _ _ _ _ H1). cbn [andb].
  change (code_uuids (clear_entry m)) with (code_uuids m).
  change (block_uuids (clear_entry m)) with (block_uuids m).
  change (cm_symbols (clear_entry m)) with (cm_symbols m).
  apply IH. exact H2.
Qed.

Lemma all_uuids_clear : forall c, all_uuids (clear_entries c) = all_uuids c.
Proof.
  intros c. unfold all_uuids, clear_entries. cbn [cr_uuid cr_modules]. f_equal.
  rewrite flat_map_map. apply flat_map_ext. intros m. reflexivity.
Qed.

Lemma cfg_nodes_clear : forall ms, flat_map module_cfg_nodes (map clear_entry ms) = flat_map module_cfg_nodes ms.
Proof. intros ms. rewrite flat_map_map. apply flat_map_ext. intros m. reflexivity. Qed.

(* wf_entry_unstaged is a weakening of wf: nothing but the staging was dropped *)
Lemma wf_wf_entry_unstaged : forall c, wf c = true -> wf_entry_unstaged c = true.
Proof.
  intros c H. unfold wf_entry_unstaged. apply andb_true_iff. split.
  - destruct (wf_inv _ H) as [H1 [H2 [H3 [H4 [H5 H6]]]]].
    unfold wf. cbv zeta. rewrite all_uuids_clear, H1, H2.
    cbn [clear_entries cr_version cr_modules cr_edges]. rewrite cfg_nodes_clear, H5, H6.
    rewrite (modules_ok_clear_entry _ _ _ _ H4). rewrite H3, Z.eqb_refl. reflexivity.
  - destruct (wf_refs_closed _ H) as [_ [He _]]. unfold entries_in_ir. apply forallb_forall.
    intros m Hm. destruct (cm_entry m) as [e|] eqn:E; [|reflexivity].
    apply ProtoReaderBase.mem_z_In. exact (He m e Hm E).
Qed.

(* the recorded finding: the first module's entry point is a code block of the SECOND module.  Every other clause of
   wf holds, yet the reader rejects what the writer produced (DeserializationError): an API-constructible content
   outside the domain of C01_load_save. *)
Definition ex_entry_later : cIR :=
  let m1 := ProtoRoundTrip.ex_mod1 in
  {| cr_uuid := 0; cr_version := py_protobuf_version;
     cr_modules :=
       [ {| cm_uuid := cm_uuid m1; cm_name := cm_name m1; cm_binary_path := cm_binary_path m1; cm_isa := cm_isa m1;
            cm_file_format := cm_file_format m1; cm_byte_order := cm_byte_order m1;
            cm_preferred_addr := cm_preferred_addr m1; cm_rebase_delta := cm_rebase_delta m1;
            cm_entry := Some (2 ^ 128 - 1);               (* the code block of ex_mod2 *)
            cm_proxies := cm_proxies m1; cm_sections := cm_sections m1; cm_symbols := cm_symbols m1;
            cm_aux := cm_aux m1 |};
         ProtoRoundTrip.ex_mod2 ];
     cr_edges := []; cr_aux := [] |}.

Lemma entry_point_in_later_module_refuted :
  exists c, wf_entry_unstaged c = true /\ wf c = false /\ from_proto (to_proto c) = Err EDeser.
Proof. exists ex_entry_later. vm_compute. repeat split; reflexivity. Qed.

(* ... while an entry point naming a code block of an EARLIER module is inside the domain and round-trips *)
Definition ex_entry_earlier : cIR :=
  let m2 := ProtoRoundTrip.ex_mod2 in
  {| cr_uuid := 0; cr_version := py_protobuf_version;
     cr_modules :=
       [ ProtoRoundTrip.ex_mod1;
         {| cm_uuid := cm_uuid m2; cm_name := cm_name m2; cm_binary_path := cm_binary_path m2; cm_isa := cm_isa m2;
            cm_file_format := cm_file_format m2; cm_byte_order := cm_byte_order m2;
            cm_preferred_addr := cm_preferred_addr m2; cm_rebase_delta := cm_rebase_delta m2;
            cm_entry := Some 10;                          (* the code block of ex_mod1 *)
            cm_proxies := cm_proxies m2; cm_sections := cm_sections m2; cm_symbols := cm_symbols m2;
            cm_aux := cm_aux m2 |} ];
     cr_edges := []; cr_aux := [] |}.
Lemma entry_point_in_earlier_module_ok :
  wf ex_entry_earlier = true /\ from_proto (to_proto ex_entry_earlier) = Ok ex_entry_earlier.
Proof. vm_compute. split; reflexivity. Qed.

(* ================================================================== *)
(* Part B (C02): the writer, message by message                        *)
(* Each lemma lists the fields of one message of proto/*.proto and says which attribute of the content record the
   writer puts there (the comment at the end of a line names the schema field).                                  *)
(* ================================================================== *)

(* every UUID field the writer emits is bytes_of_uuid of the node's UUID: 16 bytes, most significant first *)
Lemma writer_uuid_16 : forall u, length (bytes_of_uuid u) = 16%nat /\ forallb is_byte (bytes_of_uuid u) = true.
Proof.
  intros u. split; [apply ProtoRoundTrip.bytes_of_uuid_length|].
  unfold bytes_of_uuid. rewrite forallb_rev. exact (le_bytes_bytes 16 u).
Qed.

(* Block, CodeBlock, DataBlock *)
Lemma writer_block_fields : forall b,
  b_off (block_to_proto b) = cb_off b                                                          (* Block.offset *)
  /\ (cb_code b = true ->                                      (* Block.code = CodeBlock{uuid, size, decode_mode} *)
      b_val (block_to_proto b) = PCode (bytes_of_uuid (cb_uuid b)) (cb_size b) (cb_dm b))
  /\ (cb_code b = false ->                                                  (* Block.data = DataBlock{uuid, size} *)
      b_val (block_to_proto b) = PData (bytes_of_uuid (cb_uuid b)) (cb_size b))
  /\ b_val (block_to_proto b) <> PNoBlock.                                      (* the one-of `value` is always set *)
Proof.
  intros b. unfold block_to_proto. cbn [b_off b_val].
  destruct (cb_code b); repeat split; try reflexivity; intros H; discriminate H.
Qed.

(* SymbolicExpression, SymAddrConst, SymAddrAddr *)
Lemma writer_expr_fields : forall x,
  x_attrs (expr_to_proto x) = cx_attrs x                                   (* SymbolicExpression.attribute_flags *)
  /\ (forall off s, cx_val x = CAddrConst off s ->                    (* .addr_const = SymAddrConst{offset, symbol_uuid} *)
        x_val (expr_to_proto x) = PAddrConst off (bytes_of_uuid s))
  /\ (forall sc off s1 s2, cx_val x = CAddrAddr sc off s1 s2 ->  (* .addr_addr = SymAddrAddr{scale, offset, symbol1_uuid, symbol2_uuid} *)
        x_val (expr_to_proto x) = PAddrAddr sc off (bytes_of_uuid s1) (bytes_of_uuid s2))
  /\ x_val (expr_to_proto x) <> PNoExpr.                                        (* the one-of `value` is always set *)
Proof.
  intros x. unfold expr_to_proto. cbn [x_attrs x_val].
  split; [reflexivity|]. split; [intros off s H; rewrite H; reflexivity|].
  split; [intros sc off s1 s2 H; rewrite H; reflexivity|].
  destruct (cx_val x); intros H; discriminate H.
Qed.

(* ByteInterval *)
Lemma writer_bi_fields : forall b,
  bi_uuid (bi_to_proto b) = bytes_of_uuid (ci_uuid b)                                        (* ByteInterval.uuid *)
  /\ bi_blocks (bi_to_proto b) = map block_to_proto (ci_blocks b)                                       (* .blocks *)
  /\ bi_symx (bi_to_proto b) = map (fun kv => (fst kv, expr_to_proto (snd kv))) (ci_symx b)  (* .symbolic_expressions *)
  /\ (bi_has_addr (bi_to_proto b) = true <-> ci_addr b <> None)                                    (* .has_address *)
  /\ (forall a, ci_addr b = Some a -> bi_addr (bi_to_proto b) = a)                                     (* .address *)
  /\ (ci_addr b = None -> bi_addr (bi_to_proto b) = 0)
  /\ bi_size (bi_to_proto b) = ci_size b                                                                  (* .size *)
  /\ bi_contents (bi_to_proto b) = ci_contents b.                                                     (* .contents *)
Proof.
  intros b. unfold bi_to_proto. cbn [bi_uuid bi_blocks bi_symx bi_has_addr bi_addr bi_size bi_contents].
  repeat split; try reflexivity.
  - destruct (ci_addr b); intros H; [discriminate|discriminate H].
  - destruct (ci_addr b); intros H; [reflexivity|exfalso; apply H; reflexivity].
  - intros a H. rewrite H. reflexivity.
  - intros H. rewrite H. reflexivity.
Qed.

(* address None and address 0 are written differently *)
Lemma writer_bi_addr_none_vs_zero : forall b b', ci_addr b = None -> ci_addr b' = Some 0 ->
  bi_has_addr (bi_to_proto b) = false /\ bi_has_addr (bi_to_proto b') = true
  /\ bi_addr (bi_to_proto b) = bi_addr (bi_to_proto b').
Proof. intros b b' H H'. unfold bi_to_proto. cbn [bi_has_addr bi_addr]. rewrite H, H'. repeat split. Qed.

(* Section *)
Lemma writer_section_fields : forall s,
  s_uuid (section_to_proto s) = bytes_of_uuid (cs_uuid s)                                         (* Section.uuid *)
  /\ s_name (section_to_proto s) = cs_name s                                                              (* .name *)
  /\ s_bis (section_to_proto s) = map bi_to_proto (cs_bis s)                                    (* .byte_intervals *)
  /\ s_flags (section_to_proto s) = cs_flags s.                                                  (* .section_flags *)
Proof. intros s. repeat split. Qed.

(* Symbol *)
Lemma writer_symbol_fields : forall y,
  y_uuid (symbol_to_proto y) = bytes_of_uuid (cy_uuid y)                                           (* Symbol.uuid *)
  /\ y_name (symbol_to_proto y) = cy_name y                                                               (* .name *)
  /\ y_at_end (symbol_to_proto y) = cy_at_end y                                                         (* .at_end *)
  /\ (y_payload (symbol_to_proto y) = PPNone <-> cy_payload y = CPNone)            (* one-of optional_payload unset *)
  /\ (forall v, y_payload (symbol_to_proto y) = PPValue v <-> cy_payload y = CPVal v)                    (* .value *)
  /\ (forall u, cy_payload y = CPRef u -> y_payload (symbol_to_proto y) = PPRef (bytes_of_uuid u))  (* .referent_uuid *)
  /\ (forall bs, y_payload (symbol_to_proto y) = PPRef bs -> exists u, cy_payload y = CPRef u /\ bs = bytes_of_uuid u).
Proof.
  intros y. unfold symbol_to_proto. cbn [y_uuid y_name y_at_end y_payload].
  split; [reflexivity|]. split; [reflexivity|]. split; [reflexivity|].
  destruct (cy_payload y) as [|v0|u0].
  - split; [split; reflexivity|]. split; [intros v; split; intros H; discriminate H|].
    split; [intros u H; discriminate H|intros bs H; discriminate H].
  - split; [split; intros H; discriminate H|].
    split; [intros v; split; intros H; injection H as <-; reflexivity|].
    split; [intros u H; discriminate H|intros bs H; discriminate H].
  - split; [split; intros H; discriminate H|]. split; [intros v; split; intros H; discriminate H|].
    split; [intros u H; injection H as <-; reflexivity|].
    intros bs H. injection H as <-. exists u0. split; reflexivity.
Qed.

(* Module, ProxyBlock *)
Lemma writer_module_fields : forall m,
  m_uuid (module_to_proto m) = bytes_of_uuid (cm_uuid m)                                           (* Module.uuid *)
  /\ m_binary_path (module_to_proto m) = cm_binary_path m                                          (* .binary_path *)
  /\ m_preferred_addr (module_to_proto m) = cm_preferred_addr m                                 (* .preferred_addr *)
  /\ m_rebase_delta (module_to_proto m) = cm_rebase_delta m                                       (* .rebase_delta *)
  /\ m_file_format (module_to_proto m) = cm_file_format m                                          (* .file_format *)
  /\ m_isa (module_to_proto m) = cm_isa m                                                                  (* .isa *)
  /\ m_name (module_to_proto m) = cm_name m                                                               (* .name *)
  /\ m_symbols (module_to_proto m) = map symbol_to_proto (cm_symbols m)                                (* .symbols *)
  /\ m_proxies (module_to_proto m) = map bytes_of_uuid (cm_proxies m)                 (* .proxies = ProxyBlock{uuid} *)
  /\ m_sections (module_to_proto m) = map section_to_proto (cm_sections m)                            (* .sections *)
  /\ m_aux (module_to_proto m) = cm_aux m                                   (* .aux_data = AuxData{type_name, data} *)
  /\ (m_entry (module_to_proto m) = [] <-> cm_entry m = None)                       (* .entry_point: empty = absent *)
  /\ (forall e, cm_entry m = Some e -> m_entry (module_to_proto m) = bytes_of_uuid e)
  /\ m_byte_order (module_to_proto m) = cm_byte_order m.                                            (* .byte_order *)
Proof.
  intros m. unfold module_to_proto.
  cbn [m_uuid m_binary_path m_preferred_addr m_rebase_delta m_file_format m_isa m_name m_symbols m_proxies m_sections
       m_aux m_entry m_byte_order].
  repeat split; try reflexivity.
  - destruct (cm_entry m) as [e|]; intros H; [|reflexivity].
    destruct (ProtoRoundTrip.bytes_of_uuid_nonnil e) as [z [l Hz]]. rewrite Hz in H. discriminate H.
  - intros H. rewrite H. reflexivity.
  - intros e H. rewrite H. reflexivity.
Qed.

(* Edge, EdgeLabel *)
Lemma writer_edge_fields : forall e,
  e_src (edge_to_proto e) = bytes_of_uuid (ce_src e)                                          (* Edge.source_uuid *)
  /\ e_dst (edge_to_proto e) = bytes_of_uuid (ce_dst e)                                            (* .target_uuid *)
  /\ (e_label (edge_to_proto e) = None <-> ce_label e = None)                    (* .label present iff there is one *)
  /\ (forall t c d, ce_label e = Some (t, c, d) ->                       (* EdgeLabel{conditional, direct, type} *)
        e_label (edge_to_proto e) = Some {| l_cond := c; l_direct := d; l_type := t |}).
Proof.
  intros e. unfold edge_to_proto. cbn [e_src e_dst e_label].
  split; [reflexivity|]. split; [reflexivity|].
  destruct (ce_label e) as [[[t c] d]|].
  - split; [split; intros H; discriminate H|]. intros t' c' d' H. injection H as <- <- <-. reflexivity.
  - split; [split; reflexivity|]. intros t c d H. discriminate H.
Qed.

(* a missing label and the all-false label of type 0 are written differently *)
Lemma writer_edge_label_none_vs_default : forall s d,
  e_label (edge_to_proto {| ce_src := s; ce_dst := d; ce_label := None |})
  <> e_label (edge_to_proto {| ce_src := s; ce_dst := d; ce_label := Some (0, false, false) |}).
Proof. intros s d H. discriminate H. Qed.

(* the CFG nodes of a module: its code blocks (in section / interval / block order), then its proxies *)
Lemma flat_map_flat_map {X Y W} (f : Y -> list W) (g : X -> list Y) :
  forall l, flat_map f (flat_map g l) = flat_map (fun x => flat_map f (g x)) l.
Proof.
  induction l as [|x l IH]; cbn [flat_map]; [reflexivity|].
  rewrite flat_map_app, IH. reflexivity.
Qed.

Lemma module_cfg_nodes_eq : forall m, module_cfg_nodes m = code_uuids m ++ cm_proxies m.
Proof.
  intros m. unfold module_cfg_nodes, code_uuids, module_blocks. f_equal.
  rewrite flat_map_flat_map. apply flat_map_ext. intros s.
  rewrite flat_map_flat_map. reflexivity.
Qed.

Lemma cfg_nodes_char : forall ms u,
  In u (flat_map module_cfg_nodes ms) <-> In u (flat_map code_uuids ms) \/ In u (flat_map cm_proxies ms).
Proof.
  intros ms u. rewrite !in_flat_map. split.
  - intros [m [Hm Hu]]. rewrite module_cfg_nodes_eq in Hu. apply in_app_iff in Hu.
    destruct Hu as [Hu|Hu]; [left|right]; exists m; split; assumption.
  - intros [[m [Hm Hu]]|[m [Hm Hu]]]; exists m; (split; [exact Hm|]);
      rewrite module_cfg_nodes_eq; apply in_app_iff; [left|right]; exact Hu.
Qed.

(* IR, CFG *)
Lemma writer_ir_fields : forall c,
  i_uuid (to_proto c) = bytes_of_uuid (cr_uuid c)                                                      (* IR.uuid *)
  /\ i_modules (to_proto c) = map module_to_proto (cr_modules c)                                       (* .modules *)
  /\ i_aux (to_proto c) = cr_aux c                                                                    (* .aux_data *)
  /\ i_version (to_proto c) = cr_version c                                                             (* .version *)
  /\ i_vertices (to_proto c) = map bytes_of_uuid (flat_map module_cfg_nodes (cr_modules c))     (* .cfg = CFG.vertices *)
  /\ i_edges (to_proto c) = map edge_to_proto (cr_edges c).                                          (* CFG.edges *)
Proof. intros c. repeat split. Qed.

(* the vertex list names every CFG node of the IR -- every code block and every proxy of every module -- and nothing else *)
Lemma writer_vertices_complete : forall c bs,
  In bs (i_vertices (to_proto c)) <->
  exists u, bs = bytes_of_uuid u /\ (In u (flat_map code_uuids (cr_modules c)) \/ In u (flat_map cm_proxies (cr_modules c))).
Proof.
  intros c bs. unfold to_proto. cbn [i_vertices]. rewrite in_map_iff. split.
  - intros [u [Hu Hin]]. exists u. split; [symmetry; exact Hu|]. apply cfg_nodes_char. exact Hin.
  - intros [u [Hu Hin]]. exists u. split; [symmetry; exact Hu|]. apply cfg_nodes_char. exact Hin.
Qed.

(* ================================================================== *)
(* Part B2 (C02): finite-table obligations over the GENERATED files     *)
(* gen/Schema.v and gen/PyFacts.v are rewritten from the repository on every run; these lemmas are re-checked by    *)
(* computation each time, so a schema or Python change that breaks the agreement breaks the build.                  *)
(* ================================================================== *)

Lemma resolve_inv : forall t bs ok u, resolve t bs ok = Ok u ->
  uuid_of_bytes bs = Ok u /\ exists k, tlookup t u = Some k /\ ok k = true.
Proof.
  intros t bs ok u H. unfold resolve in H. bind_inv H v Hv.
  destruct (tlookup t v) as [k|] eqn:E; [|discriminate H].
  destruct (ok k) eqn:Ek; [|discriminate H].
  injection H as <-. split; [exact Hv|]. exists k. split; [exact E|exact Ek].
Qed.

(* and the three ways a reference is refused, in one statement *)
Lemma resolve_cases : forall t bs ok,
  (length bs <> 16%nat /\ resolve t bs ok = Err EValue)
  \/ (exists u, uuid_of_bytes bs = Ok u /\
        ((tlookup t u = None /\ resolve t bs ok = Err EDeser)
         \/ (exists k, tlookup t u = Some k /\ ok k = false /\ resolve t bs ok = Err EDeser)
         \/ (exists k, tlookup t u = Some k /\ ok k = true /\ resolve t bs ok = Ok u))).
Proof.
  intros t bs ok. destruct (Nat.eq_dec (length bs) 16) as [Hl|Hl].
  - right. assert (Hu : uuid_of_bytes bs = Ok (of_le (rev bs))).
    { unfold uuid_of_bytes. rewrite Hl. reflexivity. }
    exists (of_le (rev bs)). split; [exact Hu|].
    destruct (tlookup t (of_le (rev bs))) as [k|] eqn:E.
    + destruct (ok k) eqn:Ek.
      * right. right. exists k. split; [reflexivity|]. split; [exact Ek|].
        unfold resolve. rewrite Hu. cbn [bind]. rewrite E, Ek. reflexivity.
      * right. left. exists k. split; [reflexivity|]. split; [exact Ek|].
        exact (resolve_illtyped t bs ok _ k Hu E Ek).
    + left. split; [reflexivity|]. exact (resolve_dangling t bs ok _ Hu E).
  - left. split; [exact Hl|]. exact (resolve_badlen t bs ok Hl).
Qed.

(* symbol referent: a block kind (code block, data block, proxy block); the other payloads are copied *)
Lemma decode_symbol_payload : forall t y y' t', decode_symbol t y = Ok (y', t') ->
  match y_payload y with
  | PPNone => cy_payload y' = CPNone
  | PPValue v => cy_payload y' = CPVal v
  | PPRef bs => exists u k, cy_payload y' = CPRef u /\ uuid_of_bytes bs = Ok u /\ tlookup t u = Some k
                            /\ is_block_kind k = true
  end.
Proof.
  intros t y y' t' H. unfold decode_symbol in H. bind_inv H u0 Hu0. bind_inv H x Hf. bind_inv H p Hp.
  injection H as <- <-. cbn [cy_payload].
  destruct (y_payload y) as [|v|bs].
  - injection Hp as <-. reflexivity.
  - injection Hp as <-. reflexivity.
  - bind_inv Hp r Hr. injection Hp as <-. destruct (resolve_inv _ _ _ _ Hr) as [Hu [k [Hk Hok]]].
    exists r, k. repeat split; assumption.
Qed.

Lemma decode_symbol_referent : forall t y y' t' bs, decode_symbol t y = Ok (y', t') -> y_payload y = PPRef bs ->
  exists u k, cy_payload y' = CPRef u /\ uuid_of_bytes bs = Ok u /\ tlookup t u = Some k /\ is_block_kind k = true.
Proof. intros t y y' t' bs H Hp. pose proof (decode_symbol_payload _ _ _ _ H) as K. rewrite Hp in K. exact K. Qed.

(* symbolic expressions: every symbol operand is a symbol *)
Lemma decode_expr_symbols : forall t kv kv', decode_expr t kv = Ok kv' ->
  fst kv' = fst kv /\
  match x_val (snd kv) with
  | PAddrConst off s => exists u, cx_val (snd kv') = CAddrConst off u /\ uuid_of_bytes s = Ok u /\ tlookup t u = Some NSym
  | PAddrAddr sc off s1 s2 => exists u1 u2, cx_val (snd kv') = CAddrAddr sc off u1 u2
                                /\ uuid_of_bytes s1 = Ok u1 /\ tlookup t u1 = Some NSym
                                /\ uuid_of_bytes s2 = Ok u2 /\ tlookup t u2 = Some NSym
  | PNoExpr => False
  end.
Proof.
  intros t kv kv' H. unfold decode_expr in H. cbv zeta in H. bind_inv H v Hv. injection H as <-.
  cbn [fst snd cx_val]. split; [reflexivity|].
  destruct (x_val (snd kv)) as [off s|sc off s1 s2|].
  - bind_inv Hv u Hu. injection Hv as <-. destruct (resolve_inv _ _ _ _ Hu) as [H1 [k [H2 H3]]].
    apply nkind_eqb_eq in H3. subst k. exists u. repeat split; assumption.
  - bind_inv Hv u1 Hu1. bind_inv Hv u2 Hu2. injection Hv as <-.
    destruct (resolve_inv _ _ _ _ Hu1) as [H1 [k1 [H2 H3]]]. apply nkind_eqb_eq in H3. subst k1.
    destruct (resolve_inv _ _ _ _ Hu2) as [H4 [k2 [H5 H6]]]. apply nkind_eqb_eq in H6. subst k2.
    exists u1, u2. repeat split; assumption.
  - discriminate Hv.
Qed.

(* CFG edges: both endpoints are CFG nodes (code block or proxy block) *)
Lemma decode_edge_endpoints : forall t e e', decode_edge t e = Ok e' ->
  (exists k, uuid_of_bytes (e_src e) = Ok (ce_src e') /\ tlookup t (ce_src e') = Some k /\ is_cfg_kind k = true)
  /\ (exists k, uuid_of_bytes (e_dst e) = Ok (ce_dst e') /\ tlookup t (ce_dst e') = Some k /\ is_cfg_kind k = true).
Proof.
  intros t e e' H. unfold decode_edge in H. bind_inv H s Hs. bind_inv H d Hd. bind_inv H l Hl.
  injection H as <-. cbn [ce_src ce_dst].
  destruct (resolve_inv _ _ _ _ Hs) as [H1 [k1 [H2 H3]]]. destruct (resolve_inv _ _ _ _ Hd) as [H4 [k2 [H5 H6]]].
  split; [exists k1|exists k2]; repeat split; assumption.
Qed.

(* module entry point: a code block, looked up in the table as it is after the module's proxies and sections have been
   decoded (t2) -- so a code block of this module or of a module decoded earlier *)
Lemma decode_module_entry : forall t m m' t', decode_module t m = Ok (m', t') ->
  (m_entry m = [] /\ cm_entry m' = None)
  \/ (m_entry m <> [] /\
      exists um proxies t1 secs0 t2 u,
        uuid_of_bytes (m_uuid m) = Ok um
        /\ map_res decode_proxy ((um, NMod) :: t) (m_proxies m) = Ok (proxies, t1)
        /\ map_res decode_section t1 (m_sections m) = Ok (secs0, t2)
        /\ cm_entry m' = Some u /\ uuid_of_bytes (m_entry m) = Ok u /\ tlookup t2 u = Some NCode).
Proof.
  intros t m m' t' H. unfold decode_module in H.
  bind_inv H um Hum. bind_inv H x1 Hf. bind_inv H x2 H2. bind_inv H x3 H3. bind_inv H x4 H4.
  bind_inv H r1 Hr1. destruct r1 as [proxies t1]. bind_inv H r2 Hr2. destruct r2 as [secs0 t2].
  bind_inv H entry He. bind_inv H r3 Hr3. destruct r3 as [syms t3]. bind_inv H secs Hsecs.
  injection H as <- <-. cbn [cm_entry].
  destruct (m_entry m) as [|z l] eqn:E.
  - left. injection He as <-. split; reflexivity.
  - right. split; [intros K; discriminate K|].
    bind_inv He u Hu. injection He as <-. destruct (resolve_inv _ _ _ _ Hu) as [K1 [k [K2 K3]]].
    apply nkind_eqb_eq in K3. subst k.
    exists um, proxies, t1, secs0, t2, u. repeat split; assumption.
Qed.

(* ---------- content level: a reference of a coherent content names exactly one node of it ---------- *)
Definition is_reference (c : cIR) (r : Z) : Prop :=
  let ms := cr_modules c in
  (exists m y, In m ms /\ In y (cm_symbols m) /\ cy_payload y = CPRef r)                         (* symbol referent *)
  \/ (exists m, In m ms /\ cm_entry m = Some r)                                                       (* entry point *)
  \/ (exists e, In e (cr_edges c) /\ (ce_src e = r \/ ce_dst e = r))                                 (* edge endpoint *)
  \/ (exists m s b kv, In m ms /\ In s (cm_sections m) /\ In b (cs_bis s) /\ In kv (ci_symx b)
                       /\ In r (expr_syms (snd kv))).                                          (* expression symbol *)

Lemma block_uuid_in_all : forall c m k, In m (cr_modules c) -> In k (module_blocks m) -> In (cb_uuid k) (all_uuids c).
Proof.
  intros c m k Hm Hk. apply (DeepEqBase.subseq_In _ _ (DeepEqProofs.block_uuids_subseq c)).
  apply in_map. unfold DeepEqProofs.all_blocks. apply in_flat_map. exists m. split; assumption.
Qed.

Lemma proxy_uuid_in_all : forall c m p, In m (cr_modules c) -> In p (cm_proxies m) -> In p (all_uuids c).
Proof.
  intros c m p Hm Hp. unfold all_uuids. right. apply in_flat_map. exists m. split; [exact Hm|].
  unfold all_uuids_module. right. apply in_app_iff. left. exact Hp.
Qed.

Lemma symbol_uuid_in_all : forall c m y, In m (cr_modules c) -> In y (cm_symbols m) -> In (cy_uuid y) (all_uuids c).
Proof.
  intros c m y Hm Hy. apply (DeepEqBase.subseq_In _ _ (DeepEqProofs.symbol_uuids_subseq c)).
  apply in_map. unfold DeepEqProofs.all_symbols. apply in_flat_map. exists m. split; assumption.
Qed.

Lemma code_uuids_in_all : forall c x, In x (flat_map code_uuids (cr_modules c)) -> In x (all_uuids c).
Proof.
  intros c x H. apply in_flat_map in H. destruct H as [m [Hm Hx]].
  destruct (DeepEqProofs.in_code_uuids m x Hx) as [k [Hk <-]]. exact (block_uuid_in_all c m k Hm Hk).
Qed.

Lemma proxies_in_all : forall c x, In x (flat_map cm_proxies (cr_modules c)) -> In x (all_uuids c).
Proof.
  intros c x H. apply in_flat_map in H. destruct H as [m [Hm Hx]]. exact (proxy_uuid_in_all c m x Hm Hx).
Qed.

Lemma block_uuids_in_all : forall c x, In x (flat_map block_uuids (cr_modules c)) -> In x (all_uuids c).
Proof.
  intros c x H. apply in_flat_map in H. destruct H as [m [Hm Hx]]. unfold block_uuids in Hx.
  apply in_app_iff in Hx. destruct Hx as [Hx|Hx].
  - apply in_map_iff in Hx. destruct Hx as [k [<- Hk]]. exact (block_uuid_in_all c m k Hm Hk).
  - exact (proxy_uuid_in_all c m x Hm Hx).
Qed.

Lemma cfg_nodes_in_all : forall c x, In x (flat_map module_cfg_nodes (cr_modules c)) -> In x (all_uuids c).
Proof.
  intros c x H. apply cfg_nodes_char in H. destruct H as [H|H]; [apply code_uuids_in_all|apply proxies_in_all]; exact H.
Qed.

Lemma sym_uuids_in_all : forall c x,
  In x (flat_map (fun m => map cy_uuid (cm_symbols m)) (cr_modules c)) -> In x (all_uuids c).
Proof.
  intros c x H. apply in_flat_map in H. destruct H as [m [Hm Hx]].
  apply in_map_iff in Hx. destruct Hx as [y [<- Hy]]. exact (symbol_uuid_in_all c m y Hm Hy).
Qed.

Lemma reference_in_all : forall c r, refs_closed c -> is_reference c r -> In r (all_uuids c).
Proof.
  intros c r [R1 [R2 [R3 R4]]] H. unfold is_reference in H. cbv zeta in H.
  destruct H as [[m [y [Hm [Hy Hp]]]]|[[m [Hm He]]|[[e [He Hr]]|[m [s [b [kv [Hm [Hs [Hb [Hkv Hr]]]]]]]]]]].
  - apply block_uuids_in_all. exact (R1 m y r Hm Hy Hp).
  - apply code_uuids_in_all. exact (R2 m r Hm He).
  - apply cfg_nodes_in_all. destruct (R3 e He) as [Ha Hb]. destruct Hr as [<-|<-]; assumption.
  - apply sym_uuids_in_all. exact (R4 m s b kv r Hm Hs Hb Hkv Hr).
Qed.

Lemma NoDup_In_count_one : forall (l : list Z) x, NoDup l -> In x l -> count_occ Z.eq_dec l x = 1%nat.
Proof.
  intros l x Hnd Hin. pose proof (proj1 (NoDup_count_occ Z.eq_dec l) Hnd x) as H1.
  pose proof (proj1 (count_occ_In Z.eq_dec l x) Hin) as H2. lia.
Qed.

(* in a loaded content, every reference is the UUID of exactly one node of that content *)
Theorem loaded_reference_one_node : forall p c r, msg_ok p = true -> from_proto p = Ok c -> is_reference c r ->
  count_occ Z.eq_dec (all_uuids c) r = 1%nat.
Proof.
  intros p c r Hok H Hr. apply NoDup_In_count_one.
  - exact (loaded_unique p c Hok H).
  - exact (reference_in_all c r (refs_closed_typed p c Hok H) Hr).
Qed.

(* ================================================================== *)
(* Part D (C17): reject or return a coherent content                    *)
(* ================================================================== *)

(* what the reader accepts can be written and read back unchanged *)
Theorem coherent_can_be_saved_and_reloaded : forall p c, msg_ok p = true -> from_proto p = Ok c ->
  from_proto (to_proto c) = Ok c.
Proof. intros p c Hok H. apply ProtoRoundTrip.load_save. exact (accept_coherent p c Hok H). Qed.

Theorem coherent_file_roundtrip : forall p c, msg_ok p = true -> from_proto p = Ok c ->
  load (fst (save c)) (snd (save c)) = Ok c.
Proof. intros p c Hok H. apply ProtoRoundTrip.file_roundtrip. exact (accept_coherent p c Hok H). Qed.

(* stored bytes never exceed the interval size in a coherent content *)
Lemma wf_bytes_within_size : forall c, wf c = true -> forall m s b,
  In m (cr_modules c) -> In s (cm_sections m) -> In b (cs_bis s) -> Z.of_nat (length (ci_contents b)) <= ci_size b.
Proof.
  intros c H m s b Hm Hs Hb. destruct (wf_inv _ H) as [_ [_ [_ [H4 _]]]].
  destruct (DeepEqProofs.modules_ok_each _ _ _ _ H4 m Hm) as (c0 & b0 & s0 & K & _).
  unfold module_ok in K. cbv zeta in K. repeat rewrite andb_true_iff in K. destruct K as [[[[_ K] _] _] _].
  rewrite forallb_forall in K. specialize (K s Hs). repeat rewrite andb_true_iff in K. destruct K as [_ K].
  rewrite forallb_forall in K. specialize (K b Hb). unfold bi_ok in K. repeat rewrite andb_true_iff in K.
  destruct K as [[[[K _] _] _] _]. apply Z.leb_le. exact K.
Qed.

Theorem accept_bytes_within_size : forall p c, msg_ok p = true -> from_proto p = Ok c -> forall m s b,
  In m (cr_modules c) -> In s (cm_sections m) -> In b (cs_bis s) -> Z.of_nat (length (ci_contents b)) <= ci_size b.
Proof. intros p c Hok H. apply wf_bytes_within_size. exact (accept_coherent p c Hok H). Qed.

(* the two outcomes of load: a coherent, re-savable content, or one of the documented exception classes *)
Theorem load_dichotomy : forall f p, msg_ok p = true ->
  (exists c, load f p = Ok c /\ wf c = true /\ refs_closed c /\ from_proto (to_proto c) = Ok c)
  \/ (exists e, load f p = Err e /\ (e = EValue \/ e = EDeser \/ e = EType)).
Proof.
  intros f p Hok. destruct (load f p) as [c|e] eqn:E.
  - left. exists c. destruct (load_accept f p c E) as [_ H].
    pose proof (accept_coherent p c Hok H) as Hwf.
    split; [reflexivity|]. split; [exact Hwf|]. split; [exact (wf_refs_closed c Hwf)|].
    exact (ProtoRoundTrip.load_save c Hwf).
  - right. exists e. split; [reflexivity|]. exact (load_reject f p e E).
Qed.

(* header gate, contrapositive form: wrong magic or wrong version byte is a ValueError whatever follows *)
Lemma header_bad_magic : forall f, firstn 5 f <> py_magic -> check_header f = Err EValue.
Proof.
  intros f Hm. destruct (check_header f) as [rest|e] eqn:E.
  - exfalso. apply Hm. exact (proj1 (header_gate f rest E)).
  - rewrite (header_reject f e E). reflexivity.
Qed.

Lemma header_bad_version : forall f, nth 7 f 0 <> py_protobuf_version -> check_header f = Err EValue.
Proof.
  intros f Hv. destruct (check_header f) as [rest|e] eqn:E.
  - exfalso. apply Hv. exact (proj1 (proj2 (header_gate f rest E))).
  - rewrite (header_reject f e E). reflexivity.
Qed.

Theorem load_bad_header : forall f p, firstn 5 f <> py_magic \/ nth 7 f 0 <> py_protobuf_version -> load f p = Err EValue.
Proof.
  intros f p [H|H]; unfold load; [rewrite (header_bad_magic f H)|rewrite (header_bad_version f H)]; reflexivity.
Qed.

(* a good header in front of a message with another version field: still ValueError *)
Theorem load_wrong_version_field : forall f p rest u, check_header f = Ok rest -> uuid_of_bytes (i_uuid p) = Ok u ->
  i_version p <> py_protobuf_version -> load f p = Err EValue.
Proof.
  intros f p rest u Hh Hu Hv. unfold load. rewrite Hh. cbn [bind]. exact (wrong_version p u Hu Hv).
Qed.

(* example for C09: ProtoReader.ex_msg with the referent of its first symbol replaced by `bs` *)
Definition ex_retarget (bs : list Z) : pIR :=
  let m := hd {| m_uuid := []; m_binary_path := []; m_preferred_addr := 0; m_rebase_delta := 0; m_file_format := 0;
                 m_isa := 0; m_name := []; m_symbols := []; m_proxies := []; m_sections := []; m_aux := [];
                 m_entry := []; m_byte_order := 0 |} (i_modules ex_msg) in
  {| i_uuid := i_uuid ex_msg;
     i_modules := [ {| m_uuid := m_uuid m; m_binary_path := m_binary_path m; m_preferred_addr := m_preferred_addr m;
                       m_rebase_delta := m_rebase_delta m; m_file_format := m_file_format m; m_isa := m_isa m;
                       m_name := m_name m;
                       m_symbols := [ {| y_uuid := ex_uuid 8; y_payload := PPRef bs; y_name := [102]; y_at_end := false |};
                                      {| y_uuid := ex_uuid 9; y_payload := PPValue 0; y_name := []; y_at_end := true |} ];
                       m_proxies := m_proxies m; m_sections := m_sections m; m_aux := m_aux m; m_entry := m_entry m;
                       m_byte_order := m_byte_order m |} ];
     i_aux := i_aux ex_msg; i_version := i_version ex_msg; i_vertices := i_vertices ex_msg; i_edges := i_edges ex_msg |}.

(* ------------------------------------------------------------------ *)
Print Assumptions deep_eq_both_ways.
Print Assumptions resave_same_message.
Print Assumptions wf_wf_entry_unstaged.
Print Assumptions entry_point_in_later_module_refuted.
Print Assumptions entry_point_in_earlier_module_ok.
Print Assumptions writer_uuid_16.
Print Assumptions writer_block_fields.
Print Assumptions writer_expr_fields.
Print Assumptions writer_bi_fields.
Print Assumptions writer_section_fields.
Print Assumptions writer_symbol_fields.
Print Assumptions writer_module_fields.
Print Assumptions writer_edge_fields.
Print Assumptions writer_ir_fields.
Print Assumptions writer_vertices_complete.
Print Assumptions resolve_inv.
Print Assumptions resolve_cases.
Print Assumptions decode_symbol_payload.
Print Assumptions decode_expr_symbols.
Print Assumptions decode_edge_endpoints.
Print Assumptions decode_module_entry.
Print Assumptions loaded_reference_one_node.
Print Assumptions coherent_can_be_saved_and_reloaded.
Print Assumptions accept_bytes_within_size.
Print Assumptions load_dichotomy.
Print Assumptions load_bad_header.
Print Assumptions load_wrong_version_field.
