(* Task BS: interval byte storage (size / initialized_size / contents) and block views.
   Model: Model/ByteStore.v.  All statements are the ones required by tasks/BS_bytestore.md. *)
From Coq Require Import ZArith List Bool Lia.
From V Require Import Result ByteStore.
Import ListNotations.
Open Scope Z_scope.

Definition BInv (s : bstore) : Prop := 0 <= bsize s /\ zlen (bbytes s) <= bsize s.

(* ---------- small list lemmas ---------- *)

Lemma zlen_nonneg : forall l, 0 <= zlen l.
Proof. intros l. unfold zlen. lia. Qed.

Lemma zlen_to_nat : forall l, Z.to_nat (zlen l) = length l.
Proof. intros l. unfold zlen. apply Nat2Z.id. Qed.

Lemma nth_repeat_lt : forall (x d : Z) (m n : nat), (n < m)%nat -> nth n (repeat x m) d = x.
Proof.
  intros x d m. induction m as [|m IH]; intros n Hn.
  - lia.
  - destruct n as [|n]; cbn [repeat nth].
    + reflexivity.
    + apply IH. lia.
Qed.

Lemma nth_firstn_lt : forall (l : list Z) (d : Z) (n i : nat), (i < n)%nat -> nth i (firstn n l) d = nth i l d.
Proof.
  intros l d. induction l as [|x xs IH]; intros n i Hi.
  - rewrite firstn_nil. reflexivity.
  - destruct n as [|n]; [lia|].
    destruct i as [|i]; cbn [firstn nth].
    + reflexivity.
    + apply IH. lia.
Qed.

Lemma nth_skipn_add : forall (l : list Z) (d : Z) (k i : nat), nth i (skipn k l) d = nth (k + i) l d.
Proof.
  intros l d. induction l as [|x xs IH]; intros k i.
  - rewrite skipn_nil. destruct i; destruct k; reflexivity.
  - destruct k as [|k]; cbn [skipn Nat.add nth].
    + reflexivity.
    + apply IH.
Qed.

Lemma set_nth_length : forall (l : list Z) (i : nat) (b : Z), length (set_nth i b l) = length l.
Proof.
  intros l. induction l as [|x xs IH]; intros i b.
  - destruct i; reflexivity.
  - destruct i as [|i]; cbn [set_nth length].
    + reflexivity.
    + rewrite IH. reflexivity.
Qed.

(* ---------- getter / constructor ---------- *)

Theorem init_size_is_len : forall s, init_size s = Z.of_nat (length (bbytes s)).
Proof. intros s. reflexivity. Qed.

Theorem ctor_rejects : forall size init c,
  (match size with Some x => x | None => zlen c end) < (match init with Some x => x | None => zlen c end) ->
  ctor size init c = Err EValue.
Proof.
  intros size init c H. unfold ctor.
  destruct (Z.ltb_spec (match size with Some x => x | None => zlen c end)
                       (match init with Some x => x | None => zlen c end)) as [Hlt|Hge].
  - reflexivity.
  - lia.
Qed.

Theorem resize_length : forall v l, 0 <= v -> zlen (resize v l) = v.
Proof.
  intros v l Hv. unfold resize.
  destruct (Z.ltb_spec (zlen l) v) as [H1|H1].
  - unfold zlen in *. rewrite app_length, repeat_length. lia.
  - destruct (Z.ltb_spec v (zlen l)) as [H2|H2].
    + unfold zlen in *. rewrite firstn_length. lia.
    + lia.
Qed.

Theorem resize_prefix : forall v l, 0 <= v ->
  firstn (Z.to_nat (Z.min v (zlen l))) (resize v l) = firstn (Z.to_nat (Z.min v (zlen l))) l.
Proof.
  intros v l Hv. unfold resize.
  destruct (Z.ltb_spec (zlen l) v) as [H1|H1].
  - rewrite Z.min_r by lia. rewrite zlen_to_nat.
    rewrite firstn_app, Nat.sub_diag. cbn [firstn]. rewrite app_nil_r. reflexivity.
  - destruct (Z.ltb_spec v (zlen l)) as [H2|H2].
    + rewrite Z.min_l by lia. rewrite firstn_firstn, Nat.min_id. reflexivity.
    + reflexivity.
Qed.

Theorem resize_padding : forall v l i, zlen l <= i < v -> nth (Z.to_nat i) (resize v l) 1 = 0.
Proof.
  intros v l i Hi. unfold resize.
  destruct (Z.ltb_spec (zlen l) v) as [H1|H1]; [|lia].
  unfold zlen in *.
  rewrite app_nth2 by lia.
  apply nth_repeat_lt. lia.
Qed.

Theorem ctor_accepts : forall size init c s, ctor size init c = Ok s ->
  0 <= (match init with Some x => x | None => zlen c end) ->
  BInv s /\ bsize s = (match size with Some x => x | None => zlen c end) /\
  init_size s = (match init with Some x => x | None => zlen c end).
Proof.
  intros size init c s H Hi. unfold ctor in H.
  destruct (Z.ltb_spec (match size with Some x => x | None => zlen c end)
                       (match init with Some x => x | None => zlen c end)) as [Hlt|Hge].
  - discriminate H.
  - injection H as H. subst s. unfold BInv, init_size. cbn [bsize bbytes].
    rewrite resize_length by exact Hi. lia.
Qed.

(* ---------- setters ---------- *)

Theorem set_init_spec : forall s v, 0 <= v ->
  init_size (set_init s v) = v /\ bsize (set_init s v) = Z.max (bsize s) v.
Proof.
  intros s v Hv. unfold init_size, set_init. cbn [bsize bbytes].
  split; [apply resize_length; exact Hv |].
  destruct (Z.ltb_spec (bsize s) v) as [Hlt|Hge]; lia.
Qed.

Theorem set_contents_spec : forall s bs,
  bbytes (set_contents s bs) = bs /\ bsize (set_contents s bs) = bsize s.
Proof. intros s bs. unfold set_contents. cbn [bsize bbytes]. split; reflexivity. Qed.

Theorem set_size_spec : forall s v, 0 <= v -> bsize (set_size s v) = v /\
  bbytes (set_size s v) = firstn (Z.to_nat (Z.min v (zlen (bbytes s)))) (bbytes s) /\
  init_size (set_size s v) = Z.min v (init_size s).
Proof.
  intros s v Hv. unfold init_size, set_size. cbn [bsize bbytes].
  split; [reflexivity|].
  destruct (Z.ltb_spec v (zlen (bbytes s))) as [H1|H1].
  - rewrite Z.min_l by lia. split; [reflexivity|].
    unfold zlen in *. rewrite firstn_length. lia.
  - rewrite Z.min_r by lia. rewrite zlen_to_nat, firstn_all. split; reflexivity.
Qed.

Theorem set_size_truncates_anything : forall s v, 0 <= v -> zlen (bbytes (set_size s v)) <= v.
Proof.
  intros s v Hv. unfold set_size. cbn [bbytes].
  destruct (Z.ltb_spec v (zlen (bbytes s))) as [H1|H1].
  - unfold zlen in *. rewrite firstn_length. lia.
  - exact H1.
Qed.

Theorem poke_length : forall s i b s', poke s i b = Ok s' -> init_size s' = init_size s /\ bsize s' = bsize s.
Proof.
  intros s i b s' H. unfold poke in H.
  destruct ((0 <=? i) && (i <? zlen (bbytes s))) eqn:E.
  - injection H as H. subst s'. unfold init_size, zlen. cbn [bsize bbytes].
    rewrite set_nth_length. split; reflexivity.
  - discriminate H.
Qed.

(* ---------- histories ---------- *)

Theorem bstep_inv : forall s o, BInv s -> bop_ok s o = true -> BInv (bstep s o).
Proof.
  intros s o [H0 H1] Hok. destruct o as [v|v|i b|bs]; cbn [bstep bop_ok] in *.
  - apply Z.leb_le in Hok.
    destruct (set_size_spec s v Hok) as [E1 [_ E3]].
    unfold BInv. fold (init_size (set_size s v)). rewrite E1, E3. lia.
  - apply Z.leb_le in Hok.
    destruct (set_init_spec s v Hok) as [E1 E2].
    unfold BInv. fold (init_size (set_init s v)). rewrite E1, E2. lia.
  - destruct (poke s i b) as [s'|e] eqn:E.
    + destruct (poke_length s i b s' E) as [E1 E2].
      unfold BInv. fold (init_size s'). rewrite E1, E2. unfold init_size. lia.
    + split; assumption.
  - apply Z.leb_le in Hok.
    destruct (set_contents_spec s bs) as [E1 E2].
    unfold BInv. rewrite E1, E2. lia.
Qed.

Theorem brun_inv : forall ops s, BInv s -> BInv (brun s ops).
Proof.
  intros ops. induction ops as [|o ops IH]; intros s Hs; cbn [brun].
  - exact Hs.
  - destruct (bop_ok s o) eqn:E.
    + apply IH. apply bstep_inv; assumption.
    + apply IH. exact Hs.
Qed.

Theorem reload_ok : forall s, BInv s -> reload s = Ok s.
Proof.
  intros s [H0 H1]. unfold reload, ctor, init_size.
  destruct (Z.ltb_spec (bsize s) (zlen (bbytes s))) as [Hlt|Hge]; [lia|].
  unfold resize. rewrite Z.ltb_irrefl.
  destruct s as [sz bs]. reflexivity.
Qed.

Theorem brun_reload : forall ops s, BInv s -> reload (brun s ops) = Ok (brun s ops).
Proof. intros ops s Hs. apply reload_ok. apply brun_inv. exact Hs. Qed.

(* ---------- block views ---------- *)

Lemma firstn_clamp : forall (l : list Z) (k : Z), firstn (Z.to_nat (Z.min k (zlen l))) l = firstn (Z.to_nat k) l.
Proof.
  intros l k. unfold zlen. destruct (Z.le_ge_cases k (Z.of_nat (length l))) as [H|H].
  - rewrite Z.min_l by exact H. reflexivity.
  - rewrite Z.min_r by lia. rewrite Nat2Z.id. rewrite firstn_all. symmetry. apply firstn_all2. lia.
Qed.

Lemma skipn_clamp : forall (l : list Z) (k : Z), skipn (Z.to_nat (Z.min k (zlen l))) l = skipn (Z.to_nat k) l.
Proof.
  intros l k. unfold zlen. destruct (Z.le_ge_cases k (Z.of_nat (length l))) as [H|H].
  - rewrite Z.min_l by exact H. reflexivity.
  - rewrite Z.min_r by lia. rewrite Nat2Z.id. rewrite skipn_all. symmetry. apply skipn_all2. lia.
Qed.

(* the clamped definition is the plain slice contents[offset : offset + size] *)
Lemma block_contents_unclamped : forall s off size,
  block_contents s off size = firstn (Z.to_nat size) (skipn (Z.to_nat off) (bbytes s)).
Proof.
  intros s off size. unfold block_contents. cbv zeta. rewrite skipn_clamp.
  set (t := skipn (Z.to_nat off) (bbytes s)).
  assert (Ht : (length t <= length (bbytes s))%nat) by (unfold t; rewrite skipn_length; lia).
  unfold zlen. destruct (Z.le_ge_cases size (Z.of_nat (length (bbytes s)))) as [H|H].
  - rewrite Z.min_l by exact H. reflexivity.
  - rewrite Z.min_r by lia. rewrite Nat2Z.id. rewrite (firstn_all2 t) by lia. rewrite (firstn_all2 t) by lia. reflexivity.
Qed.

Theorem block_contents_spec : forall s off size, 0 <= off -> 0 <= size ->
  block_contents s off size = firstn (Z.to_nat size) (skipn (Z.to_nat off) (bbytes s)) /\
  zlen (block_contents s off size) = Z.max 0 (Z.min size (zlen (bbytes s) - off)) /\
  forall i, 0 <= i < zlen (block_contents s off size) ->
    nth (Z.to_nat i) (block_contents s off size) 0 = nth (Z.to_nat (off + i)) (bbytes s) 0.
Proof.
  intros s off size Hoff Hsize.
  assert (Hlen : zlen (block_contents s off size) = Z.max 0 (Z.min size (zlen (bbytes s) - off))).
  { rewrite block_contents_unclamped. unfold zlen. rewrite firstn_length, skipn_length. lia. }
  split; [apply block_contents_unclamped|]. split; [exact Hlen|].
  intros i Hi. rewrite Hlen in Hi. rewrite block_contents_unclamped.
  rewrite nth_firstn_lt by lia.
  rewrite nth_skipn_add. f_equal. lia.
Qed.

Theorem contains_offset_spec : forall off size o, contains_offset off size o = true <-> off <= o < off + size.
Proof.
  intros off size o. unfold contains_offset.
  rewrite andb_true_iff, Z.leb_le, Z.ltb_lt. reflexivity.
Qed.

Theorem contains_address_spec : forall addr off size a,
  contains_address addr off size a = true <-> exists base, addr = Some base /\ base + off <= a < base + off + size.
Proof.
  intros addr off size a. unfold contains_address. destruct addr as [base|].
  - rewrite contains_offset_spec. split.
    + intros H. exists base. split; [reflexivity|lia].
    + intros [b' [Hb H]]. injection Hb as Hb. subst b'. lia.
  - split.
    + intros H. discriminate H.
    + intros [b' [Hb _]]. discriminate Hb.
Qed.

Theorem block_address_spec : forall addr off,
  block_address addr off = match addr with Some a => Some (a + off) | None => None end.
Proof. intros addr off. reflexivity. Qed.

Theorem contains_address_via_block_address : forall addr off size a,
  contains_address addr off size a = true <-> exists ba, block_address addr off = Some ba /\ ba <= a < ba + size.
Proof.
  intros addr off size a. rewrite contains_address_spec. unfold block_address. split.
  - intros [base [Hb H]]. subst addr. exists (base + off). split; [reflexivity|exact H].
  - intros [ba [Hb H]]. destruct addr as [base|]; [|discriminate Hb].
    injection Hb as Hb. subst ba. exists base. split; [reflexivity|exact H].
Qed.

(* ---------- a non-trivial run ---------- *)

Example brun_example :
  brun {| bsize := 8; bbytes := [1;2;3;4;5;6] |} [BSetSize 4; BSetInit 2; BSetInit 7; BSetContents [9;9]; BSetSize 1]
  = {| bsize := 1; bbytes := [9] |}.
Proof. vm_compute. reflexivity. Qed.

Print Assumptions init_size_is_len.
Print Assumptions ctor_rejects.
Print Assumptions ctor_accepts.
Print Assumptions resize_length.
Print Assumptions resize_prefix.
Print Assumptions resize_padding.
Print Assumptions set_init_spec.
Print Assumptions set_size_spec.
Print Assumptions set_contents_spec.
Print Assumptions set_size_truncates_anything.
Print Assumptions bstep_inv.
Print Assumptions brun_inv.
Print Assumptions reload_ok.
Print Assumptions brun_reload.
Print Assumptions poke_length.
Print Assumptions block_contents_unclamped.
Print Assumptions block_contents_spec.
Print Assumptions contains_offset_spec.
Print Assumptions contains_address_spec.
Print Assumptions block_address_spec.
Print Assumptions contains_address_via_block_address.
Print Assumptions brun_example.
