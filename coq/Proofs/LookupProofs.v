(* Task LK, part 2: the interval-index lookups equal a fresh scan. *)
From Coq Require Import ZArith List Bool Lia Permutation Arith.
From V Require Import Result LazyTree World WorldGuard ForestDefs InvDefs LookupBase.
Import ListNotations.
Open Scope Z_scope.

Definition on_spec (lo size : Z) (q : qrange) : bool :=
  (0 <? size) && (Z.max (qstart q) lo <? Z.min (qstop q) (lo + size)).

Lemma on_spec_true lo size q : on_spec lo size q = true <->
  0 < size /\ Z.max (qstart q) lo < Z.min (qstop q) (lo + size).
Proof. unfold on_spec. rewrite andb_true_iff, !Z.ltb_lt. tauto. Qed.

Lemma in_q_bounds x q : in_q x q = true -> qstart q <= x < qstop q.
Proof.
  unfold in_q. rewrite !andb_true_iff, Z.leb_le, Z.ltb_lt. tauto.
Qed.

Lemma block_addr_iv_kid w known bi b a : Forest w known -> In b (kids w bi) ->
  naddr (getn w bi) = Some a ->
  block_addr_iv w b = Some {| ib := a + noff (getn w b);
                              ie := a + noff (getn w b) + nsize (getn w b) + 1; idata := b |}.
Proof.
  intros HF Hin Ha. unfold block_addr_iv, block_addr.
  apply (f_two_ended w known HF) in Hin. rewrite Hin, Ha. reflexivity.
Qed.

(* ================= byte-interval scope ================= *)

Section BI.
  Variables (w : world) (known : list id) (bi : id) (q : qrange).
  Hypothesis HF : Forest w known.
  Hypothesis HS : SyncAll w.
  Hypothesis HN : NonNeg w.
  Hypothesis HK : kindof w bi = KBI.

  Theorem bi_blocks_on_exact :
    NoDup (snd (bi_blocks_on w bi q)) /\
    forall b, In b (snd (bi_blocks_on w bi q)) <->
      In b (kids w bi) /\ exists a, naddr (getn w bi) = Some a /\
        on_spec (a + noff (getn w b)) (nsize (getn w b)) q = true.
  Proof.
    unfold bi_blocks_on. destruct (naddr (getn w bi)) as [a|] eqn:Ea.
    - destruct (force w bi) as [w1 idx] eqn:EF. simpl.
      destruct (force_spec w bi w1 idx HS EF) as (_ & _ & Hag & _).
      destruct (force_bi_index w bi w1 idx HS HK EF) as [Hnd Hidx].
      split; [apply (nodes_on_tree_NoDup (off_iv w) (kids w bi) idx Hnd Hidx (off_iv_idata w))|].
      intros b.
      rewrite (nodes_on_tree_In (off_iv w) (kids w bi) idx Hidx (off_iv_idata w)).
      destruct (HN b) as [Hsz Hoff].
      split.
      + intros [Hb (i & ni & Hk & Hg & C1 & C2 & C3 & C4 & C5)]. split; auto.
        exists a. split; auto.
        rewrite (agree_block_addr_iv _ _ b Hag) in Hg.
        rewrite (block_addr_iv_kid w known bi b a HF Hb Ea) in Hg.
        inversion Hg; subst ni. unfold off_iv in Hk. inversion Hk; subst i.
        simpl in *. apply on_spec_true. lia.
      + intros [Hb [a' [Ha' Hon]]]. inversion Ha'; subst a'. split; auto.
        apply on_spec_true in Hon.
        eexists. eexists. split; [reflexivity|]. split.
        * rewrite (agree_block_addr_iv _ _ b Hag).
          apply (block_addr_iv_kid w known bi b a HF Hb Ea).
        * simpl. lia.
    - simpl. split; [constructor|]. intros b. split; [intros []|].
      intros [_ [a [Ha _]]]. discriminate.
  Qed.

  Theorem bi_blocks_at_exact :
    NoDup (snd (bi_blocks_at w bi q)) /\
    forall b, In b (snd (bi_blocks_at w bi q)) <->
      In b (kids w bi) /\ exists a, naddr (getn w bi) = Some a /\
        in_q (a + noff (getn w b)) q = true.
  Proof.
    unfold bi_blocks_at. destruct (naddr (getn w bi)) as [a|] eqn:Ea.
    - destruct (force w bi) as [w1 idx] eqn:EF. simpl.
      destruct (force_spec w bi w1 idx HS EF) as (_ & _ & Hag & _).
      destruct (force_bi_index w bi w1 idx HS HK EF) as [Hnd Hidx].
      split; [apply (nodes_at_tree_NoDup (off_iv w) (kids w bi) idx Hnd Hidx (off_iv_idata w))|].
      intros b.
      rewrite (nodes_at_tree_In (off_iv w) (kids w bi) idx Hidx (off_iv_idata w)).
      destruct (HN b) as [Hsz Hoff].
      split.
      + intros [Hb (i & ni & Hk & Hg & C1 & C2 & C3 & C4)]. split; auto.
        exists a. split; auto.
        rewrite (agree_block_addr_iv _ _ b Hag) in Hg.
        rewrite (block_addr_iv_kid w known bi b a HF Hb Ea) in Hg.
        inversion Hg; subst ni. simpl in C4. exact C4.
      + intros [Hb [a' [Ha' Hon]]]. inversion Ha'; subst a'. split; auto.
        pose proof (in_q_bounds _ _ Hon) as Hbd.
        eexists. eexists. split; [reflexivity|]. split.
        * rewrite (agree_block_addr_iv _ _ b Hag).
          apply (block_addr_iv_kid w known bi b a HF Hb Ea).
        * simpl. split; [lia|]. split; [lia|]. split; [lia|]. exact Hon.
    - simpl. split; [constructor|]. intros b. split; [intros []|].
      intros [_ [a [Ha _]]]. discriminate.
  Qed.

  Theorem bi_blocks_on_off_exact :
    NoDup (snd (bi_blocks_on_off w bi q)) /\
    forall b, In b (snd (bi_blocks_on_off w bi q)) <->
      In b (kids w bi) /\ on_spec (noff (getn w b)) (nsize (getn w b)) q = true.
  Proof.
    unfold bi_blocks_on_off.
    destruct (force w bi) as [w1 idx] eqn:EF. simpl.
    destruct (force_spec w bi w1 idx HS EF) as (_ & _ & Hag & _).
    destruct (force_bi_index w bi w1 idx HS HK EF) as [Hnd Hidx].
    split; [apply (nodes_on_tree_NoDup (off_iv w) (kids w bi) idx Hnd Hidx (off_iv_idata w))|].
    intros b.
    rewrite (nodes_on_tree_In (off_iv w) (kids w bi) idx Hidx (off_iv_idata w)).
    destruct (HN b) as [Hsz Hoff].
    split.
    - intros [Hb (i & ni & Hk & Hg & C1 & C2 & C3 & C4 & C5)]. split; auto.
      rewrite (agree_off_iv _ _ b Hag) in Hg.
      unfold off_iv in Hg, Hk. inversion Hg; subst ni. inversion Hk; subst i.
      simpl in *. apply on_spec_true. lia.
    - intros [Hb Hon]. split; auto. apply on_spec_true in Hon.
      eexists. eexists. split; [reflexivity|]. split.
      + rewrite (agree_off_iv _ _ b Hag). reflexivity.
      + simpl. lia.
  Qed.

  Theorem bi_blocks_at_off_exact :
    NoDup (snd (bi_blocks_at_off w bi q)) /\
    forall b, In b (snd (bi_blocks_at_off w bi q)) <->
      In b (kids w bi) /\ in_q (noff (getn w b)) q = true.
  Proof.
    unfold bi_blocks_at_off.
    destruct (force w bi) as [w1 idx] eqn:EF. simpl.
    destruct (force_spec w bi w1 idx HS EF) as (_ & _ & Hag & _).
    destruct (force_bi_index w bi w1 idx HS HK EF) as [Hnd Hidx].
    split; [apply (nodes_at_tree_NoDup (off_iv w) (kids w bi) idx Hnd Hidx (off_iv_idata w))|].
    intros b.
    rewrite (nodes_at_tree_In (off_iv w) (kids w bi) idx Hidx (off_iv_idata w)).
    destruct (HN b) as [Hsz Hoff].
    split.
    - intros [Hb (i & ni & Hk & Hg & C1 & C2 & C3 & C4)]. split; auto.
      rewrite (agree_off_iv _ _ b Hag) in Hg.
      unfold off_iv in Hg. inversion Hg; subst ni. simpl in C4. exact C4.
    - intros [Hb Hon]. split; auto. pose proof (in_q_bounds _ _ Hon) as Hbd.
      eexists. eexists. split; [reflexivity|]. split.
      + rewrite (agree_off_iv _ _ b Hag). reflexivity.
      + simpl. split; [lia|]. split; [lia|]. split; [lia|]. exact Hon.
  Qed.
End BI.

(* the worlds returned *)
Lemma bi_blocks_on_world known w bi q : Good known w ->
  Good known (fst (bi_blocks_on w bi q)) /\ agree w (fst (bi_blocks_on w bi q)).
Proof.
  intros HG. unfold bi_blocks_on. destruct (naddr (getn w bi)) as [a|].
  - destruct (force w bi) as [w1 idx] eqn:EF. simpl. eapply force_good; eauto.
  - simpl. split; [exact HG|apply agree_refl].
Qed.

Lemma bi_blocks_at_world known w bi q : Good known w ->
  Good known (fst (bi_blocks_at w bi q)) /\ agree w (fst (bi_blocks_at w bi q)).
Proof.
  intros HG. unfold bi_blocks_at. destruct (naddr (getn w bi)) as [a|].
  - destruct (force w bi) as [w1 idx] eqn:EF. simpl. eapply force_good; eauto.
  - simpl. split; [exact HG|apply agree_refl].
Qed.

Lemma bi_blocks_on_off_world known w bi q : Good known w ->
  Good known (fst (bi_blocks_on_off w bi q)) /\ agree w (fst (bi_blocks_on_off w bi q)).
Proof.
  intros HG. unfold bi_blocks_on_off.
  destruct (force w bi) as [w1 idx] eqn:EF. simpl. eapply force_good; eauto.
Qed.

Lemma bi_blocks_at_off_world known w bi q : Good known w ->
  Good known (fst (bi_blocks_at_off w bi q)) /\ agree w (fst (bi_blocks_at_off w bi q)).
Proof.
  intros HG. unfold bi_blocks_at_off.
  destruct (force w bi) as [w1 idx] eqn:EF. simpl. eapply force_good; eauto.
Qed.

(* ================= section scope: intervals ================= *)

Section SEC.
  Variables (w : world) (known : list id) (s : id) (q : qrange).
  Hypothesis HF : Forest w known.
  Hypothesis HS : SyncAll w.
  Hypothesis HN : NonNeg w.
  Hypothesis HK : kindof w s = KSec.

  Theorem sec_bis_on_exact :
    NoDup (snd (sec_bis_on w s q)) /\
    forall bi, In bi (snd (sec_bis_on w s q)) <->
      In bi (kids w s) /\ exists a, naddr (getn w bi) = Some a /\
        on_spec a (nsize (getn w bi)) q = true.
  Proof.
    unfold sec_bis_on.
    destruct (force w s) as [w1 idx] eqn:EF. simpl.
    destruct (force_spec w s w1 idx HS EF) as (_ & _ & Hag & _).
    destruct (force_sec_index w s w1 idx HS HK EF) as [Hnd Hidx].
    split; [apply (nodes_on_tree_NoDup (addr_iv w) (kids w s) idx Hnd Hidx (addr_iv_idata w))|].
    intros bi.
    rewrite (nodes_on_tree_In (addr_iv w) (kids w s) idx Hidx (addr_iv_idata w)).
    destruct (HN bi) as [Hsz Hoff].
    split.
    - intros [Hb (i & ni & Hk & Hg & C1 & C2 & C3 & C4 & C5)]. split; auto.
      rewrite (agree_addr_iv _ _ bi Hag) in Hg.
      apply addr_iv_Some in Hg. destruct Hg as [a [Ha Hni]]. subst ni.
      apply addr_iv_Some in Hk. destruct Hk as [a' [Ha' Hi]]. subst i.
      rewrite Ha in Ha'. inversion Ha'; subst a'.
      exists a. split; auto. simpl in *. apply on_spec_true. lia.
    - intros [Hb [a [Ha Hon]]]. split; auto. apply on_spec_true in Hon.
      eexists. eexists. split; [apply addr_iv_Some; exists a; split; [exact Ha|reflexivity]|].
      split.
      + rewrite (agree_addr_iv _ _ bi Hag). apply addr_iv_Some. exists a. split; [exact Ha|reflexivity].
      + simpl. lia.
  Qed.

  Theorem sec_bis_at_exact :
    NoDup (snd (sec_bis_at w s q)) /\
    forall bi, In bi (snd (sec_bis_at w s q)) <->
      In bi (kids w s) /\ exists a, naddr (getn w bi) = Some a /\ in_q a q = true.
  Proof.
    unfold sec_bis_at.
    destruct (force w s) as [w1 idx] eqn:EF. simpl.
    destruct (force_spec w s w1 idx HS EF) as (_ & _ & Hag & _).
    destruct (force_sec_index w s w1 idx HS HK EF) as [Hnd Hidx].
    split; [apply (nodes_at_tree_NoDup (addr_iv w) (kids w s) idx Hnd Hidx (addr_iv_idata w))|].
    intros bi.
    rewrite (nodes_at_tree_In (addr_iv w) (kids w s) idx Hidx (addr_iv_idata w)).
    destruct (HN bi) as [Hsz Hoff].
    split.
    - intros [Hb (i & ni & Hk & Hg & C1 & C2 & C3 & C4)]. split; auto.
      rewrite (agree_addr_iv _ _ bi Hag) in Hg.
      apply addr_iv_Some in Hg. destruct Hg as [a [Ha Hni]]. subst ni.
      exists a. split; auto.
    - intros [Hb [a [Ha Hon]]]. split; auto. pose proof (in_q_bounds _ _ Hon) as Hbd.
      eexists. eexists. split; [apply addr_iv_Some; exists a; split; [exact Ha|reflexivity]|].
      split.
      + rewrite (agree_addr_iv _ _ bi Hag). apply addr_iv_Some. exists a. split; [exact Ha|reflexivity].
      + simpl. split; [lia|]. split; [lia|]. split; [lia|]. exact Hon.
  Qed.
End SEC.

Lemma sec_bis_on_world known w s q : Good known w ->
  Good known (fst (sec_bis_on w s q)) /\ agree w (fst (sec_bis_on w s q)).
Proof.
  intros HG. unfold sec_bis_on.
  destruct (force w s) as [w1 idx] eqn:EF. simpl. eapply force_good; eauto.
Qed.

Lemma sec_bis_at_world known w s q : Good known w ->
  Good known (fst (sec_bis_at w s q)) /\ agree w (fst (sec_bis_at w s q)).
Proof.
  intros HG. unfold sec_bis_at.
  destruct (force w s) as [w1 idx] eqn:EF. simpl. eapply force_good; eauto.
Qed.

(* ================= section extent ================= *)

Definition sec_ivs (w : world) (s : id) : list iv :=
  flat_map (fun b => match addr_iv w b with Some i => [i] | None => [] end) (kids w s).

Definition all_addr (w : world) (s : id) : bool :=
  forallb (fun bi => match naddr (getn w bi) with Some _ => true | None => false end) (kids w s).

(* Section.address / Section.size as a pure function of the members: None if there is no member or
   some member has no address, else (min address, max (address + size) - min address);
   tree_begin / tree_end are fold_left Z.min / Z.max over the members' [a, a+size+1) intervals *)
Definition ext_pure (w : world) (s : id) : option (Z * Z) :=
  match kids w s with
  | [] => None
  | _ :: _ => if all_addr w s
              then Some (tree_begin (sec_ivs w s),
                         tree_end (sec_ivs w s) - tree_begin (sec_ivs w s) - 1)
              else None
  end.

Lemma forallb_false_ex {A} (f : A -> bool) l : forallb f l = false -> exists x, In x l /\ f x = false.
Proof.
  induction l as [|x l IH]; simpl; [discriminate|].
  destruct (f x) eqn:E; simpl.
  - intros H. destruct (IH H) as [y [Hy Hf]]. exists y. auto.
  - intros _. exists x. auto.
Qed.

Lemma all_addr_true w s : all_addr w s = true <->
  forall bi, In bi (kids w s) -> naddr (getn w bi) <> None.
Proof.
  unfold all_addr. rewrite forallb_forall. split.
  - intros H bi Hb. specialize (H bi Hb). destruct (naddr (getn w bi)); congruence.
  - intros H bi Hb. specialize (H bi Hb). destruct (naddr (getn w bi)); congruence.
Qed.

Lemma addr_iv_not_None w b : addr_iv w b <> None <-> naddr (getn w b) <> None.
Proof. unfold addr_iv. destruct (naddr (getn w b)); split; congruence. Qed.

Lemma In_sec_ivs w s i : In i (sec_ivs w s) <->
  exists bi a, In bi (kids w s) /\ naddr (getn w bi) = Some a /\
               i = {| ib := a; ie := a + nsize (getn w bi) + 1; idata := bi |}.
Proof.
  unfold sec_ivs. rewrite In_flat_map_opt. split.
  - intros [b [Hb Hk]]. apply addr_iv_Some in Hk. destruct Hk as [a [Ha Hi]]. exists b, a. auto.
  - intros (b & a & Hb & Ha & Hi). exists b. split; auto. apply addr_iv_Some. exists a. auto.
Qed.

Theorem sec_extent_exact w known s : Forest w known -> SyncAll w -> kindof w s = KSec ->
  snd (sec_extent w s) = ext_pure w s.
Proof.
  intros HF HS HK. unfold sec_extent.
  destruct (force w s) as [w1 idx] eqn:EF. simpl.
  destruct (force_spec w s w1 idx HS EF) as (_ & _ & Hag & _).
  destruct (force_sec_index w s w1 idx HS HK EF) as [Hnd Hidx].
  rewrite (agree_kids _ _ s Hag).
  pose proof (idx_length (addr_iv w) (kids w s) idx Hnd Hidx (addr_iv_idata w)
                (f_nodup w known HF s)) as Hlen.
  fold (sec_ivs w s) in Hlen.
  assert (Heq : forall i, In i idx <-> In i (sec_ivs w s)).
  { intros i. rewrite Hidx. symmetry. apply In_flat_map_opt. }
  destruct (flat_map_opt_length (addr_iv w) (kids w s)) as [Hle Hiff].
  fold (sec_ivs w s) in Hle, Hiff.
  assert (Hall : all_addr w s = true <-> length (sec_ivs w s) = length (kids w s)).
  { rewrite Hiff, all_addr_true. split; intros H b Hb; apply addr_iv_not_None; auto. }
  unfold ext_pure.
  destruct (kids w s) as [|k ks] eqn:Ek.
  - assert (E0 : length idx = 0%nat).
    { rewrite Hlen. unfold sec_ivs. rewrite Ek. reflexivity. }
    rewrite E0. reflexivity.
  - destruct (all_addr w s) eqn:Ea.
    + assert (Hl : length idx = length (k :: ks)) by (rewrite Hlen; apply Hall; reflexivity).
      assert (Hne : idx <> []) by (intros ->; simpl in Hl; discriminate).
      rewrite Hl, Nat.eqb_refl. simpl.
      rewrite (tree_begin_equiv idx (sec_ivs w s) Heq Hne),
              (tree_end_equiv idx (sec_ivs w s) Heq Hne). reflexivity.
    + destruct (Nat.eqb_spec (length idx) (length (k :: ks))) as [E|E].
      * rewrite Hlen in E. apply Hall in E. discriminate.
      * rewrite andb_false_r. reflexivity.
Qed.

Lemma sec_extent_world known w s : Good known w ->
  Good known (fst (sec_extent w s)) /\ agree w (fst (sec_extent w s)).
Proof.
  intros HG. unfold sec_extent.
  destruct (force w s) as [w1 idx] eqn:EF. simpl. eapply force_good; eauto.
Qed.

(* the pure extent, relationally *)
Theorem ext_pure_Some w s lo sz : ext_pure w s = Some (lo, sz) ->
  kids w s <> [] /\ (forall bi, In bi (kids w s) -> naddr (getn w bi) <> None) /\
  (exists bi, In bi (kids w s) /\ naddr (getn w bi) = Some lo) /\
  (forall bi a, In bi (kids w s) -> naddr (getn w bi) = Some a -> lo <= a) /\
  (exists bi a, In bi (kids w s) /\ naddr (getn w bi) = Some a /\
                a + nsize (getn w bi) = lo + sz) /\
  (forall bi a, In bi (kids w s) -> naddr (getn w bi) = Some a ->
                a + nsize (getn w bi) <= lo + sz).
Proof.
  unfold ext_pure. destruct (kids w s) as [|k ks] eqn:Ek; [discriminate|].
  destruct (all_addr w s) eqn:Ea; [|discriminate].
  intros H. inversion H as [[Hlo Hsz]]. clear H.
  pose proof (proj1 (all_addr_true w s) Ea) as Ea'; clear Ea; rename Ea' into Ea.
  assert (Hne : sec_ivs w s <> []).
  { destruct (naddr (getn w k)) as [a|] eqn:Eka.
    - intros E. assert (Hi : In {| ib := a; ie := a + nsize (getn w k) + 1; idata := k |} (sec_ivs w s)).
      { apply In_sec_ivs. exists k, a. rewrite Ek. simpl. auto. }
      rewrite E in Hi. destruct Hi.
    - exfalso. apply (Ea k); [rewrite Ek; simpl; auto|exact Eka]. }
  destruct (tree_begin_spec _ Hne) as [[i [Hi Ei]] Lb].
  destruct (tree_end_spec _ Hne) as [[j [Hj Ej]] Le].
  rewrite <- Ek. split; [rewrite Ek; discriminate|]. split; [exact Ea|].
  split; [|split; [|split]].
  - apply In_sec_ivs in Hi. destruct Hi as (bi & a & Hb & Ha & ->). simpl in Ei.
    exists bi. split; auto. rewrite Ha, Ei. reflexivity.
  - intros bi a Hb Ha.
    assert (Hin : In {| ib := a; ie := a + nsize (getn w bi) + 1; idata := bi |} (sec_ivs w s))
      by (apply In_sec_ivs; exists bi, a; auto).
    apply Lb in Hin. simpl in Hin. exact Hin.
  - apply In_sec_ivs in Hj. destruct Hj as (bi & a & Hb & Ha & ->). simpl in Ej.
    exists bi, a. split; auto. split; auto. lia.
  - intros bi a Hb Ha.
    assert (Hin : In {| ib := a; ie := a + nsize (getn w bi) + 1; idata := bi |} (sec_ivs w s))
      by (apply In_sec_ivs; exists bi, a; auto).
    apply Le in Hin. simpl in Hin. lia.
Qed.

Theorem ext_pure_None w s : ext_pure w s = None <->
  kids w s = [] \/ exists bi, In bi (kids w s) /\ naddr (getn w bi) = None.
Proof.
  unfold ext_pure. destruct (all_addr w s) eqn:Ea.
  - pose proof (proj1 (all_addr_true w s) Ea) as Ea'; clear Ea; rename Ea' into Ea. destruct (kids w s) as [|k ks] eqn:Ek.
    + split; auto.
    + split; [discriminate|]. intros [H|[bi [Hb Hn]]]; [discriminate|].
      exfalso. apply (Ea bi Hb Hn).
  - unfold all_addr in Ea. apply forallb_false_ex in Ea. destruct Ea as [bi [Hb Hn]].
    destruct (kids w s) as [|k ks] eqn:Ek; [destruct Hb|].
    split; auto. intros _. right. exists bi. split; auto.
    destruct (naddr (getn w bi)); [discriminate|reflexivity].
Qed.

Lemma agree_ext_pure w w' s : agree w w' -> ext_pure w' s = ext_pure w s.
Proof.
  intros (Hn & Hk & _). unfold ext_pure, all_addr, sec_ivs, addr_iv, getn.
  rewrite Hn, Hk. reflexivity.
Qed.
