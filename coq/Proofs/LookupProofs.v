(* Task LK, part 2: the interval-index lookups equal a fresh scan. *)
From Coq Require Import ZArith List Bool Lia Permutation Arith.
From V Require Import Result LazyTree World WorldGuard ForestDefs InvDefs LookupBase.
Import ListNotations.
Open Scope Z_scope.

Definition on_spec (lo size : Z) (q : qrange) : bool :=
  (0 <? size) && (Z.max (qstart q) lo <? Z.min (qstop q) (lo + size)).

Lemma on_spec_true lo size q : on_spec lo size q = true <->
  0 < size /\ Z.max (qstart q) lo < Z.min (qstop q) (lo + size).
Proof. unfold on_spec. rewrite andb_true_iff, !Z.ltb_lt. tauto. Qed.

Lemma in_q_bounds x q : in_q x q = true -> qstart q <= x < qstop q.
Proof.
  unfold in_q. rewrite !andb_true_iff, Z.leb_le, Z.ltb_lt. tauto.
Qed.

Lemma block_addr_iv_kid w known bi b a : Forest w known -> In b (kids w bi) ->
  naddr (getn w bi) = Some a ->
  block_addr_iv w b = Some {| ib := a + noff (getn w b);
                              ie := a + noff (getn w b) + nsize (getn w b) + 1; idata := b |}.
Proof.
  intros HF Hin Ha. unfold block_addr_iv, block_addr.
  apply (f_two_ended w known HF) in Hin. rewrite Hin, Ha. reflexivity.
Qed.

(* ================= byte-interval scope ================= *)

Section BI.
  Variables (w : world) (known : list id) (bi : id) (q : qrange).
  Hypothesis HF : Forest w known.
  Hypothesis HS : SyncAll w.
  Hypothesis HN : NonNeg w.
  Hypothesis HK : kindof w bi = KBI.

  Theorem bi_blocks_on_exact :
    NoDup (snd (bi_blocks_on w bi q)) /\
    forall b, In b (snd (bi_blocks_on w bi q)) <->
      In b (kids w bi) /\ exists a, naddr (getn w bi) = Some a /\
        on_spec (a + noff (getn w b)) (nsize (getn w b)) q = true.
  Proof.
    unfold bi_blocks_on. destruct (naddr (getn w bi)) as [a|] eqn:Ea.
    - destruct (force w bi) as [w1 idx] eqn:EF. simpl.
      destruct (force_spec w bi w1 idx HS EF) as (_ & _ & Hag & _).
      destruct (force_bi_index w bi w1 idx HS HK EF) as [Hnd Hidx].
      split; [apply (nodes_on_tree_NoDup (off_iv w) (kids w bi) idx Hnd Hidx (off_iv_idata w))|].
      intros b.
      rewrite (nodes_on_tree_In (off_iv w) (kids w bi) idx Hidx (off_iv_idata w)).
      destruct (HN b) as [Hsz Hoff].
      split.
      + intros [Hb (i & ni & Hk & Hg & C1 & C2 & C3 & C4 & C5)]. split; auto.
        exists a. split; auto.
        rewrite (agree_block_addr_iv _ _ b Hag) in Hg.
        rewrite (block_addr_iv_kid w known bi b a HF Hb Ea) in Hg.
        inversion Hg; subst ni. unfold off_iv in Hk. inversion Hk; subst i.
        simpl in *. apply on_spec_true. lia.
      + intros [Hb [a' [Ha' Hon]]]. inversion Ha'; subst a'. split; auto.
        apply on_spec_true in Hon.
        eexists. eexists. split; [reflexivity|]. split.
        * rewrite (agree_block_addr_iv _ _ b Hag).
          apply (block_addr_iv_kid w known bi b a HF Hb Ea).
        * simpl. lia.
    - simpl. split; [constructor|]. intros b. split; [intros []|].
      intros [_ [a [Ha _]]]. discriminate.
  Qed.

  Theorem bi_blocks_at_exact :
    NoDup (snd (bi_blocks_at w bi q)) /\
    forall b, In b (snd (bi_blocks_at w bi q)) <->
      In b (kids w bi) /\ exists a, naddr (getn w bi) = Some a /\
        in_q (a + noff (getn w b)) q = true.
  Proof.
    unfold bi_blocks_at. destruct (naddr (getn w bi)) as [a|] eqn:Ea.
    - destruct (force w bi) as [w1 idx] eqn:EF. simpl.
      destruct (force_spec w bi w1 idx HS EF) as (_ & _ & Hag & _).
      destruct (force_bi_index w bi w1 idx HS HK EF) as [Hnd Hidx].
      split; [apply (nodes_at_tree_NoDup (off_iv w) (kids w bi) idx Hnd Hidx (off_iv_idata w))|].
      intros b.
      rewrite (nodes_at_tree_In (off_iv w) (kids w bi) idx Hidx (off_iv_idata w)).
      destruct (HN b) as [Hsz Hoff].
      split.
      + intros [Hb (i & ni & Hk & Hg & C1 & C2 & C3 & C4)]. split; auto.
        exists a. split; auto.
        rewrite (agree_block_addr_iv _ _ b Hag) in Hg.
        rewrite (block_addr_iv_kid w known bi b a HF Hb Ea) in Hg.
        inversion Hg; subst ni. simpl in C4. exact C4.
      + intros [Hb [a' [Ha' Hon]]]. inversion Ha'; subst a'. split; auto.
        pose proof (in_q_bounds _ _ Hon) as Hbd.
        eexists. eexists. split; [reflexivity|]. split.
        * rewrite (agree_block_addr_iv _ _ b Hag).
          apply (block_addr_iv_kid w known bi b a HF Hb Ea).
        * simpl. split; [lia|]. split; [lia|]. split; [lia|]. exact Hon.
    - simpl. split; [constructor|]. intros b. split; [intros []|].
      intros [_ [a [Ha _]]]. discriminate.
  Qed.

  Theorem bi_blocks_on_off_exact :
    NoDup (snd (bi_blocks_on_off w bi q)) /\
    forall b, In b (snd (bi_blocks_on_off w bi q)) <->
      In b (kids w bi) /\ on_spec (noff (getn w b)) (nsize (getn w b)) q = true.
  Proof.
    unfold bi_blocks_on_off.
    destruct (force w bi) as [w1 idx] eqn:EF. simpl.
    destruct (force_spec w bi w1 idx HS EF) as (_ & _ & Hag & _).
    destruct (force_bi_index w bi w1 idx HS HK EF) as [Hnd Hidx].
    split; [apply (nodes_on_tree_NoDup (off_iv w) (kids w bi) idx Hnd Hidx (off_iv_idata w))|].
    intros b.
    rewrite (nodes_on_tree_In (off_iv w) (kids w bi) idx Hidx (off_iv_idata w)).
    destruct (HN b) as [Hsz Hoff].
    split.
    - intros [Hb (i & ni & Hk & Hg & C1 & C2 & C3 & C4 & C5)]. split; auto.
      rewrite (agree_off_iv _ _ b Hag) in Hg.
      unfold off_iv in Hg, Hk. inversion Hg; subst ni. inversion Hk; subst i.
      simpl in *. apply on_spec_true. lia.
    - intros [Hb Hon]. split; auto. apply on_spec_true in Hon.
      eexists. eexists. split; [reflexivity|]. split.
      + rewrite (agree_off_iv _ _ b Hag). reflexivity.
      + simpl. lia.
  Qed.

  Theorem bi_blocks_at_off_exact :
    NoDup (snd (bi_blocks_at_off w bi q)) /\
    forall b, In b (snd (bi_blocks_at_off w bi q)) <->
      In b (kids w bi) /\ in_q (noff (getn w b)) q = true.
  Proof.
    unfold bi_blocks_at_off.
    destruct (force w bi) as [w1 idx] eqn:EF. simpl.
    destruct (force_spec w bi w1 idx HS EF) as (_ & _ & Hag & _).
    destruct (force_bi_index w bi w1 idx HS HK EF) as [Hnd Hidx].
    split; [apply (nodes_at_tree_NoDup (off_iv w) (kids w bi) idx Hnd Hidx (off_iv_idata w))|].
    intros b.
    rewrite (nodes_at_tree_In (off_iv w) (kids w bi) idx Hidx (off_iv_idata w)).
    destruct (HN b) as [Hsz Hoff].
    split.
    - intros [Hb (i & ni & Hk & Hg & C1 & C2 & C3 & C4)]. split; auto.
      rewrite (agree_off_iv _ _ b Hag) in Hg.
      unfold off_iv in Hg. inversion Hg; subst ni. simpl in C4. exact C4.
    - intros [Hb Hon]. split; auto. pose proof (in_q_bounds _ _ Hon) as Hbd.
      eexists. eexists. split; [reflexivity|]. split.
      + rewrite (agree_off_iv _ _ b Hag). reflexivity.
      + simpl. split; [lia|]. split; [lia|]. split; [lia|]. exact Hon.
  Qed.
End BI.

(* the worlds returned *)
Lemma bi_blocks_on_world known w bi q : Good known w ->
  Good known (fst (bi_blocks_on w bi q)) /\ agree w (fst (bi_blocks_on w bi q)).
Proof.
  intros HG. unfold bi_blocks_on. destruct (naddr (getn w bi)) as [a|].
  - destruct (force w bi) as [w1 idx] eqn:EF. simpl. eapply force_good; eauto.
  - simpl. split; [exact HG|apply agree_refl].
Qed.

Lemma bi_blocks_at_world known w bi q : Good known w ->
  Good known (fst (bi_blocks_at w bi q)) /\ agree w (fst (bi_blocks_at w bi q)).
Proof.
  intros HG. unfold bi_blocks_at. destruct (naddr (getn w bi)) as [a|].
  - destruct (force w bi) as [w1 idx] eqn:EF. simpl. eapply force_good; eauto.
  - simpl. split; [exact HG|apply agree_refl].
Qed.

Lemma bi_blocks_on_off_world known w bi q : Good known w ->
  Good known (fst (bi_blocks_on_off w bi q)) /\ agree w (fst (bi_blocks_on_off w bi q)).
Proof.
  intros HG. unfold bi_blocks_on_off.
  destruct (force w bi) as [w1 idx] eqn:EF. simpl. eapply force_good; eauto.
Qed.

Lemma bi_blocks_at_off_world known w bi q : Good known w ->
  Good known (fst (bi_blocks_at_off w bi q)) /\ agree w (fst (bi_blocks_at_off w bi q)).
Proof.
  intros HG. unfold bi_blocks_at_off.
  destruct (force w bi) as [w1 idx] eqn:EF. simpl. eapply force_good; eauto.
Qed.

(* ================= section scope: intervals ================= *)

Section SEC.
  Variables (w : world) (known : list id) (s : id) (q : qrange).
  Hypothesis HF : Forest w known.
  Hypothesis HS : SyncAll w.
  Hypothesis HN : NonNeg w.
  Hypothesis HK : kindof w s = KSec.

  Theorem sec_bis_on_exact :
    NoDup (snd (sec_bis_on w s q)) /\
    forall bi, In bi (snd (sec_bis_on w s q)) <->
      In bi (kids w s) /\ exists a, naddr (getn w bi) = Some a /\
        on_spec a (nsize (getn w bi)) q = true.
  Proof.
    unfold sec_bis_on.
    destruct (force w s) as [w1 idx] eqn:EF. simpl.
    destruct (force_spec w s w1 idx HS EF) as (_ & _ & Hag & _).
    destruct (force_sec_index w s w1 idx HS HK EF) as [Hnd Hidx].
    split; [apply (nodes_on_tree_NoDup (addr_iv w) (kids w s) idx Hnd Hidx (addr_iv_idata w))|].
    intros bi.
    rewrite (nodes_on_tree_In (addr_iv w) (kids w s) idx Hidx (addr_iv_idata w)).
    destruct (HN bi) as [Hsz Hoff].
    split.
    - intros [Hb (i & ni & Hk & Hg & C1 & C2 & C3 & C4 & C5)]. split; auto.
      rewrite (agree_addr_iv _ _ bi Hag) in Hg.
      apply addr_iv_Some in Hg. destruct Hg as [a [Ha Hni]]. subst ni.
      apply addr_iv_Some in Hk. destruct Hk as [a' [Ha' Hi]]. subst i.
      rewrite Ha in Ha'. inversion Ha'; subst a'.
      exists a. split; auto. simpl in *. apply on_spec_true. lia.
    - intros [Hb [a [Ha Hon]]]. split; auto. apply on_spec_true in Hon.
      eexists. eexists. split; [apply addr_iv_Some; exists a; split; [exact Ha|reflexivity]|].
      split.
      + rewrite (agree_addr_iv _ _ bi Hag). apply addr_iv_Some. exists a. split; [exact Ha|reflexivity].
      + simpl. lia.
  Qed.

  Theorem sec_bis_at_exact :
    NoDup (snd (sec_bis_at w s q)) /\
    forall bi, In bi (snd (sec_bis_at w s q)) <->
      In bi (kids w s) /\ exists a, naddr (getn w bi) = Some a /\ in_q a q = true.
  Proof.
    unfold sec_bis_at.
    destruct (force w s) as [w1 idx] eqn:EF. simpl.
    destruct (force_spec w s w1 idx HS EF) as (_ & _ & Hag & _).
    destruct (force_sec_index w s w1 idx HS HK EF) as [Hnd Hidx].
    split; [apply (nodes_at_tree_NoDup (addr_iv w) (kids w s) idx Hnd Hidx (addr_iv_idata w))|].
    intros bi.
    rewrite (nodes_at_tree_In (addr_iv w) (kids w s) idx Hidx (addr_iv_idata w)).
    destruct (HN bi) as [Hsz Hoff].
    split.
    - intros [Hb (i & ni & Hk & Hg & C1 & C2 & C3 & C4)]. split; auto.
      rewrite (agree_addr_iv _ _ bi Hag) in Hg.
      apply addr_iv_Some in Hg. destruct Hg as [a [Ha Hni]]. subst ni.
      exists a. split; auto.
    - intros [Hb [a [Ha Hon]]]. split; auto. pose proof (in_q_bounds _ _ Hon) as Hbd.
      eexists. eexists. split; [apply addr_iv_Some; exists a; split; [exact Ha|reflexivity]|].
      split.
      + rewrite (agree_addr_iv _ _ bi Hag). apply addr_iv_Some. exists a. split; [exact Ha|reflexivity].
      + simpl. split; [lia|]. split; [lia|]. split; [lia|]. exact Hon.
  Qed.
End SEC.

Lemma sec_bis_on_world known w s q : Good known w ->
  Good known (fst (sec_bis_on w s q)) /\ agree w (fst (sec_bis_on w s q)).
Proof.
  intros HG. unfold sec_bis_on.
  destruct (force w s) as [w1 idx] eqn:EF. simpl. eapply force_good; eauto.
Qed.

Lemma sec_bis_at_world known w s q : Good known w ->
  Good known (fst (sec_bis_at w s q)) /\ agree w (fst (sec_bis_at w s q)).
Proof.
  intros HG. unfold sec_bis_at.
  destruct (force w s) as [w1 idx] eqn:EF. simpl. eapply force_good; eauto.
Qed.
