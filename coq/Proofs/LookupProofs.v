(* Task LK, part 2: the interval-index lookups equal a fresh scan. *)
From Coq Require Import ZArith List Bool Lia Permutation Arith.
From V Require Import Result LazyTree World WorldGuard ForestDefs InvDefs LookupBase.
Import ListNotations.
Open Scope Z_scope.

Definition on_spec (lo size : Z) (q : qrange) : bool :=
  (0 <? size) && (Z.max (qstart q) lo <? Z.min (qstop q) (lo + size)).

Lemma on_spec_true lo size q : on_spec lo size q = true <->
  0 < size /\ Z.max (qstart q) lo < Z.min (qstop q) (lo + size).
Proof. unfold on_spec. rewrite andb_true_iff, !Z.ltb_lt. tauto. Qed.

Lemma in_q_bounds x q : in_q x q = true -> qstart q <= x < qstop q.
Proof.
  unfold in_q. rewrite !andb_true_iff, Z.leb_le, Z.ltb_lt. tauto.
Qed.

Lemma block_addr_iv_kid w known bi b a : Forest w known -> In b (kids w bi) ->
  naddr (getn w bi) = Some a ->
  block_addr_iv w b = Some {| ib := a + noff (getn w b);
                              ie := a + noff (getn w b) + nsize (getn w b) + 1; idata := b |}.
Proof.
  intros HF Hin Ha. unfold block_addr_iv, block_addr.
  apply (f_two_ended w known HF) in Hin. rewrite Hin, Ha. reflexivity.
Qed.

(* ================= byte-interval scope ================= *)

Section BI.
  Variables (w : world) (known : list id) (bi : id) (q : qrange).
  Hypothesis HF : Forest w known.
  Hypothesis HS : SyncAll w.
  Hypothesis HN : NonNeg w.
  Hypothesis HK : kindof w bi = KBI.

  Theorem bi_blocks_on_exact :
    NoDup (snd (bi_blocks_on w bi q)) /\
    forall b, In b (snd (bi_blocks_on w bi q)) <->
      In b (kids w bi) /\ exists a, naddr (getn w bi) = Some a /\
        on_spec (a + noff (getn w b)) (nsize (getn w b)) q = true.
  Proof.
    unfold bi_blocks_on. destruct (naddr (getn w bi)) as [a|] eqn:Ea.
    - destruct (force w bi) as [w1 idx] eqn:EF. simpl.
      destruct (force_spec w bi w1 idx HS EF) as (_ & _ & Hag & _).
      destruct (force_bi_index w bi w1 idx HS HK EF) as [Hnd Hidx].
      split; [apply (nodes_on_tree_NoDup (off_iv w) (kids w bi) idx Hnd Hidx (off_iv_idata w))|].
      intros b.
      rewrite (nodes_on_tree_In (off_iv w) (kids w bi) idx Hidx (off_iv_idata w)).
      destruct (HN b) as [Hsz Hoff].
      split.
      + intros [Hb (i & ni & Hk & Hg & C1 & C2 & C3 & C4 & C5)]. split; auto.
        exists a. split; auto.
        rewrite (agree_block_addr_iv _ _ b Hag) in Hg.
        rewrite (block_addr_iv_kid w known bi b a HF Hb Ea) in Hg.
        inversion Hg; subst ni. unfold off_iv in Hk. inversion Hk; subst i.
        simpl in *. apply on_spec_true. lia.
      + intros [Hb [a' [Ha' Hon]]]. inversion Ha'; subst a'. split; auto.
        apply on_spec_true in Hon.
        eexists. eexists. split; [reflexivity|]. split.
        * rewrite (agree_block_addr_iv _ _ b Hag).
          apply (block_addr_iv_kid w known bi b a HF Hb Ea).
        * simpl. lia.
    - simpl. split; [constructor|]. intros b. split; [intros []|].
      intros [_ [a [Ha _]]]. discriminate.
  Qed.

  Theorem bi_blocks_at_exact :
    NoDup (snd (bi_blocks_at w bi q)) /\
    forall b, In b (snd (bi_blocks_at w bi q)) <->
      In b (kids w bi) /\ exists a, naddr (getn w bi) = Some a /\
        in_q (a + noff (getn w b)) q = true.
  Proof.
    unfold bi_blocks_at. destruct (naddr (getn w bi)) as [a|] eqn:Ea.
    - destruct (force w bi) as [w1 idx] eqn:EF. simpl.
      destruct (force_spec w bi w1 idx HS EF) as (_ & _ & Hag & _).
      destruct (force_bi_index w bi w1 idx HS HK EF) as [Hnd Hidx].
      split; [apply (nodes_at_tree_NoDup (off_iv w) (kids w bi) idx Hnd Hidx (off_iv_idata w))|].
      intros b.
      rewrite (nodes_at_tree_In (off_iv w) (kids w bi) idx Hidx (off_iv_idata w)).
      destruct (HN b) as [Hsz Hoff].
      split.
      + intros [Hb (i & ni & Hk & Hg & C1 & C2 & C3 & C4)]. split; auto.
        exists a. split; auto.
        rewrite (agree_block_addr_iv _ _ b Hag) in Hg.
        rewrite (block_addr_iv_kid w known bi b a HF Hb Ea) in Hg.
        inversion Hg; subst ni. simpl in C4. exact C4.
      + intros [Hb [a' [Ha' Hon]]]. inversion Ha'; subst a'. split; auto.
        pose proof (in_q_bounds _ _ Hon) as Hbd.
        eexists. eexists. split; [reflexivity|]. split.
        * rewrite (agree_block_addr_iv _ _ b Hag).
          apply (block_addr_iv_kid w known bi b a HF Hb Ea).
        * simpl. split; [lia|]. split; [lia|]. split; [lia|]. exact Hon.
    - simpl. split; [constructor|]. intros b. split; [intros []|].
      intros [_ [a [Ha _]]]. discriminate.
  Qed.

  Theorem bi_blocks_on_off_exact :
    NoDup (snd (bi_blocks_on_off w bi q)) /\
    forall b, In b (snd (bi_blocks_on_off w bi q)) <->
      In b (kids w bi) /\ on_spec (noff (getn w b)) (nsize (getn w b)) q = true.
  Proof.
    unfold bi_blocks_on_off.
    destruct (force w bi) as [w1 idx] eqn:EF. simpl.
    destruct (force_spec w bi w1 idx HS EF) as (_ & _ & Hag & _).
    destruct (force_bi_index w bi w1 idx HS HK EF) as [Hnd Hidx].
    split; [apply (nodes_on_tree_NoDup (off_iv w) (kids w bi) idx Hnd Hidx (off_iv_idata w))|].
    intros b.
    rewrite (nodes_on_tree_In (off_iv w) (kids w bi) idx Hidx (off_iv_idata w)).
    destruct (HN b) as [Hsz Hoff].
    split.
    - intros [Hb (i & ni & Hk & Hg & C1 & C2 & C3 & C4 & C5)]. split; auto.
      rewrite (agree_off_iv _ _ b Hag) in Hg.
      unfold off_iv in Hg, Hk. inversion Hg; subst ni. inversion Hk; subst i.
      simpl in *. apply on_spec_true. lia.
    - intros [Hb Hon]. split; auto. apply on_spec_true in Hon.
      eexists. eexists. split; [reflexivity|]. split.
      + rewrite (agree_off_iv _ _ b Hag). reflexivity.
      + simpl. lia.
  Qed.

  Theorem bi_blocks_at_off_exact :
    NoDup (snd (bi_blocks_at_off w bi q)) /\
    forall b, In b (snd (bi_blocks_at_off w bi q)) <->
      In b (kids w bi) /\ in_q (noff (getn w b)) q = true.
  Proof.
    unfold bi_blocks_at_off.
    destruct (force w bi) as [w1 idx] eqn:EF. simpl.
    destruct (force_spec w bi w1 idx HS EF) as (_ & _ & Hag & _).
    destruct (force_bi_index w bi w1 idx HS HK EF) as [Hnd Hidx].
    split; [apply (nodes_at_tree_NoDup (off_iv w) (kids w bi) idx Hnd Hidx (off_iv_idata w))|].
    intros b.
    rewrite (nodes_at_tree_In (off_iv w) (kids w bi) idx Hidx (off_iv_idata w)).
    destruct (HN b) as [Hsz Hoff].
    split.
    - intros [Hb (i & ni & Hk & Hg & C1 & C2 & C3 & C4)]. split; auto.
      rewrite (agree_off_iv _ _ b Hag) in Hg.
      unfold off_iv in Hg. inversion Hg; subst ni. simpl in C4. exact C4.
    - intros [Hb Hon]. split; auto. pose proof (in_q_bounds _ _ Hon) as Hbd.
      eexists. eexists. split; [reflexivity|]. split.
      + rewrite (agree_off_iv _ _ b Hag). reflexivity.
      + simpl. split; [lia|]. split; [lia|]. split; [lia|]. exact Hon.
  Qed.
End BI.

(* the worlds returned *)
Lemma bi_blocks_on_world known w bi q : Good known w ->
  Good known (fst (bi_blocks_on w bi q)) /\ agree w (fst (bi_blocks_on w bi q)).
Proof.
  intros HG. unfold bi_blocks_on. destruct (naddr (getn w bi)) as [a|].
  - destruct (force w bi) as [w1 idx] eqn:EF. simpl. eapply force_good; eauto.
  - simpl. split; [exact HG|apply agree_refl].
Qed.

Lemma bi_blocks_at_world known w bi q : Good known w ->
  Good known (fst (bi_blocks_at w bi q)) /\ agree w (fst (bi_blocks_at w bi q)).
Proof.
  intros HG. unfold bi_blocks_at. destruct (naddr (getn w bi)) as [a|].
  - destruct (force w bi) as [w1 idx] eqn:EF. simpl. eapply force_good; eauto.
  - simpl. split; [exact HG|apply agree_refl].
Qed.

Lemma bi_blocks_on_off_world known w bi q : Good known w ->
  Good known (fst (bi_blocks_on_off w bi q)) /\ agree w (fst (bi_blocks_on_off w bi q)).
Proof.
  intros HG. unfold bi_blocks_on_off.
  destruct (force w bi) as [w1 idx] eqn:EF. simpl. eapply force_good; eauto.
Qed.

Lemma bi_blocks_at_off_world known w bi q : Good known w ->
  Good known (fst (bi_blocks_at_off w bi q)) /\ agree w (fst (bi_blocks_at_off w bi q)).
Proof.
  intros HG. unfold bi_blocks_at_off.
  destruct (force w bi) as [w1 idx] eqn:EF. simpl. eapply force_good; eauto.
Qed.

(* ================= section scope: intervals ================= *)

Section SEC.
  Variables (w : world) (known : list id) (s : id) (q : qrange).
  Hypothesis HF : Forest w known.
  Hypothesis HS : SyncAll w.
  Hypothesis HN : NonNeg w.
  Hypothesis HK : kindof w s = KSec.

  Theorem sec_bis_on_exact :
    NoDup (snd (sec_bis_on w s q)) /\
    forall bi, In bi (snd (sec_bis_on w s q)) <->
      In bi (kids w s) /\ exists a, naddr (getn w bi) = Some a /\
        on_spec a (nsize (getn w bi)) q = true.
  Proof.
    unfold sec_bis_on.
    destruct (force w s) as [w1 idx] eqn:EF. simpl.
    destruct (force_spec w s w1 idx HS EF) as (_ & _ & Hag & _).
    destruct (force_sec_index w s w1 idx HS HK EF) as [Hnd Hidx].
    split; [apply (nodes_on_tree_NoDup (addr_iv w) (kids w s) idx Hnd Hidx (addr_iv_idata w))|].
    intros bi.
    rewrite (nodes_on_tree_In (addr_iv w) (kids w s) idx Hidx (addr_iv_idata w)).
    destruct (HN bi) as [Hsz Hoff].
    split.
    - intros [Hb (i & ni & Hk & Hg & C1 & C2 & C3 & C4 & C5)]. split; auto.
      rewrite (agree_addr_iv _ _ bi Hag) in Hg.
      apply addr_iv_Some in Hg. destruct Hg as [a [Ha Hni]]. subst ni.
      apply addr_iv_Some in Hk. destruct Hk as [a' [Ha' Hi]]. subst i.
      rewrite Ha in Ha'. inversion Ha'; subst a'.
      exists a. split; auto. simpl in *. apply on_spec_true. lia.
    - intros [Hb [a [Ha Hon]]]. split; auto. apply on_spec_true in Hon.
      eexists. eexists. split; [apply addr_iv_Some; exists a; split; [exact Ha|reflexivity]|].
      split.
      + rewrite (agree_addr_iv _ _ bi Hag). apply addr_iv_Some. exists a. split; [exact Ha|reflexivity].
      + simpl. lia.
  Qed.

  Theorem sec_bis_at_exact :
    NoDup (snd (sec_bis_at w s q)) /\
    forall bi, In bi (snd (sec_bis_at w s q)) <->
      In bi (kids w s) /\ exists a, naddr (getn w bi) = Some a /\ in_q a q = true.
  Proof.
    unfold sec_bis_at.
    destruct (force w s) as [w1 idx] eqn:EF. simpl.
    destruct (force_spec w s w1 idx HS EF) as (_ & _ & Hag & _).
    destruct (force_sec_index w s w1 idx HS HK EF) as [Hnd Hidx].
    split; [apply (nodes_at_tree_NoDup (addr_iv w) (kids w s) idx Hnd Hidx (addr_iv_idata w))|].
    intros bi.
    rewrite (nodes_at_tree_In (addr_iv w) (kids w s) idx Hidx (addr_iv_idata w)).
    destruct (HN bi) as [Hsz Hoff].
    split.
    - intros [Hb (i & ni & Hk & Hg & C1 & C2 & C3 & C4)]. split; auto.
      rewrite (agree_addr_iv _ _ bi Hag) in Hg.
      apply addr_iv_Some in Hg. destruct Hg as [a [Ha Hni]]. subst ni.
      exists a. split; auto.
    - intros [Hb [a [Ha Hon]]]. split; auto. pose proof (in_q_bounds _ _ Hon) as Hbd.
      eexists. eexists. split; [apply addr_iv_Some; exists a; split; [exact Ha|reflexivity]|].
      split.
      + rewrite (agree_addr_iv _ _ bi Hag). apply addr_iv_Some. exists a. split; [exact Ha|reflexivity].
      + simpl. split; [lia|]. split; [lia|]. split; [lia|]. exact Hon.
  Qed.
End SEC.

Lemma sec_bis_on_world known w s q : Good known w ->
  Good known (fst (sec_bis_on w s q)) /\ agree w (fst (sec_bis_on w s q)).
Proof.
  intros HG. unfold sec_bis_on.
  destruct (force w s) as [w1 idx] eqn:EF. simpl. eapply force_good; eauto.
Qed.

Lemma sec_bis_at_world known w s q : Good known w ->
  Good known (fst (sec_bis_at w s q)) /\ agree w (fst (sec_bis_at w s q)).
Proof.
  intros HG. unfold sec_bis_at.
  destruct (force w s) as [w1 idx] eqn:EF. simpl. eapply force_good; eauto.
Qed.

(* ================= section extent ================= *)

Definition sec_ivs (w : world) (s : id) : list iv :=
  flat_map (fun b => match addr_iv w b with Some i => [i] | None => [] end) (kids w s).

Definition all_addr (w : world) (s : id) : bool :=
  forallb (fun bi => match naddr (getn w bi) with Some _ => true | None => false end) (kids w s).

(* Section.address / Section.size as a pure function of the members: None if there is no member or
   some member has no address, else (min address, max (address + size) - min address);
   tree_begin / tree_end are fold_left Z.min / Z.max over the members' [a, a+size+1) intervals *)
Definition ext_pure (w : world) (s : id) : option (Z * Z) :=
  match kids w s with
  | [] => None
  | _ :: _ => if all_addr w s
              then Some (tree_begin (sec_ivs w s),
                         tree_end (sec_ivs w s) - tree_begin (sec_ivs w s) - 1)
              else None
  end.

Lemma forallb_false_ex {A} (f : A -> bool) l : forallb f l = false -> exists x, In x l /\ f x = false.
Proof.
  induction l as [|x l IH]; simpl; [discriminate|].
  destruct (f x) eqn:E; simpl.
  - intros H. destruct (IH H) as [y [Hy Hf]]. exists y. auto.
  - intros _. exists x. auto.
Qed.

Lemma all_addr_true w s : all_addr w s = true <->
  forall bi, In bi (kids w s) -> naddr (getn w bi) <> None.
Proof.
  unfold all_addr. rewrite forallb_forall. split.
  - intros H bi Hb. specialize (H bi Hb). destruct (naddr (getn w bi)); congruence.
  - intros H bi Hb. specialize (H bi Hb). destruct (naddr (getn w bi)); congruence.
Qed.

Lemma addr_iv_not_None w b : addr_iv w b <> None <-> naddr (getn w b) <> None.
Proof. unfold addr_iv. destruct (naddr (getn w b)); split; congruence. Qed.

Lemma In_sec_ivs w s i : In i (sec_ivs w s) <->
  exists bi a, In bi (kids w s) /\ naddr (getn w bi) = Some a /\
               i = {| ib := a; ie := a + nsize (getn w bi) + 1; idata := bi |}.
Proof.
  unfold sec_ivs. rewrite In_flat_map_opt. split.
  - intros [b [Hb Hk]]. apply addr_iv_Some in Hk. destruct Hk as [a [Ha Hi]]. exists b, a. auto.
  - intros (b & a & Hb & Ha & Hi). exists b. split; auto. apply addr_iv_Some. exists a. auto.
Qed.

Theorem sec_extent_exact w known s : Forest w known -> SyncAll w -> kindof w s = KSec ->
  snd (sec_extent w s) = ext_pure w s.
Proof.
  intros HF HS HK. unfold sec_extent.
  destruct (force w s) as [w1 idx] eqn:EF. simpl.
  destruct (force_spec w s w1 idx HS EF) as (_ & _ & Hag & _).
  destruct (force_sec_index w s w1 idx HS HK EF) as [Hnd Hidx].
  rewrite (agree_kids _ _ s Hag).
  pose proof (idx_length (addr_iv w) (kids w s) idx Hnd Hidx (addr_iv_idata w)
                (f_nodup w known HF s)) as Hlen.
  fold (sec_ivs w s) in Hlen.
  assert (Heq : forall i, In i idx <-> In i (sec_ivs w s)).
  { intros i. rewrite Hidx. symmetry. apply In_flat_map_opt. }
  destruct (flat_map_opt_length (addr_iv w) (kids w s)) as [Hle Hiff].
  fold (sec_ivs w s) in Hle, Hiff.
  assert (Hall : all_addr w s = true <-> length (sec_ivs w s) = length (kids w s)).
  { rewrite Hiff, all_addr_true. split; intros H b Hb; apply addr_iv_not_None; auto. }
  unfold ext_pure.
  destruct (kids w s) as [|k ks] eqn:Ek.
  - assert (E0 : length idx = 0%nat).
    { rewrite Hlen. unfold sec_ivs. rewrite Ek. reflexivity. }
    rewrite E0. reflexivity.
  - destruct (all_addr w s) eqn:Ea.
    + assert (Hl : length idx = length (k :: ks)) by (rewrite Hlen; apply Hall; reflexivity).
      assert (Hne : idx <> []) by (intros ->; simpl in Hl; discriminate).
      rewrite Hl, Nat.eqb_refl. simpl.
      rewrite (tree_begin_equiv idx (sec_ivs w s) Heq Hne),
              (tree_end_equiv idx (sec_ivs w s) Heq Hne). reflexivity.
    + destruct (Nat.eqb_spec (length idx) (length (k :: ks))) as [E|E].
      * rewrite Hlen in E. apply Hall in E. discriminate.
      * rewrite andb_false_r. reflexivity.
Qed.

Lemma sec_extent_world known w s : Good known w ->
  Good known (fst (sec_extent w s)) /\ agree w (fst (sec_extent w s)).
Proof.
  intros HG. unfold sec_extent.
  destruct (force w s) as [w1 idx] eqn:EF. simpl. eapply force_good; eauto.
Qed.

(* the pure extent, relationally *)
Theorem ext_pure_Some w s lo sz : ext_pure w s = Some (lo, sz) ->
  kids w s <> [] /\ (forall bi, In bi (kids w s) -> naddr (getn w bi) <> None) /\
  (exists bi, In bi (kids w s) /\ naddr (getn w bi) = Some lo) /\
  (forall bi a, In bi (kids w s) -> naddr (getn w bi) = Some a -> lo <= a) /\
  (exists bi a, In bi (kids w s) /\ naddr (getn w bi) = Some a /\
                a + nsize (getn w bi) = lo + sz) /\
  (forall bi a, In bi (kids w s) -> naddr (getn w bi) = Some a ->
                a + nsize (getn w bi) <= lo + sz).
Proof.
  unfold ext_pure. destruct (kids w s) as [|k ks] eqn:Ek; [discriminate|].
  destruct (all_addr w s) eqn:Ea; [|discriminate].
  intros H. inversion H as [[Hlo Hsz]]. clear H.
  pose proof (proj1 (all_addr_true w s) Ea) as Ea'; clear Ea; rename Ea' into Ea.
  assert (Hne : sec_ivs w s <> []).
  { destruct (naddr (getn w k)) as [a|] eqn:Eka.
    - intros E. assert (Hi : In {| ib := a; ie := a + nsize (getn w k) + 1; idata := k |} (sec_ivs w s)).
      { apply In_sec_ivs. exists k, a. rewrite Ek. simpl. auto. }
      rewrite E in Hi. destruct Hi.
    - exfalso. apply (Ea k); [rewrite Ek; simpl; auto|exact Eka]. }
  destruct (tree_begin_spec _ Hne) as [[i [Hi Ei]] Lb].
  destruct (tree_end_spec _ Hne) as [[j [Hj Ej]] Le].
  rewrite <- Ek. split; [rewrite Ek; discriminate|]. split; [exact Ea|].
  split; [|split; [|split]].
  - apply In_sec_ivs in Hi. destruct Hi as (bi & a & Hb & Ha & ->). simpl in Ei.
    exists bi. split; auto. rewrite Ha, Ei. reflexivity.
  - intros bi a Hb Ha.
    assert (Hin : In {| ib := a; ie := a + nsize (getn w bi) + 1; idata := bi |} (sec_ivs w s))
      by (apply In_sec_ivs; exists bi, a; auto).
    apply Lb in Hin. simpl in Hin. exact Hin.
  - apply In_sec_ivs in Hj. destruct Hj as (bi & a & Hb & Ha & ->). simpl in Ej.
    exists bi, a. split; auto. split; auto. lia.
  - intros bi a Hb Ha.
    assert (Hin : In {| ib := a; ie := a + nsize (getn w bi) + 1; idata := bi |} (sec_ivs w s))
      by (apply In_sec_ivs; exists bi, a; auto).
    apply Le in Hin. simpl in Hin. lia.
Qed.

Theorem ext_pure_None w s : ext_pure w s = None <->
  kids w s = [] \/ exists bi, In bi (kids w s) /\ naddr (getn w bi) = None.
Proof.
  unfold ext_pure. destruct (all_addr w s) eqn:Ea.
  - pose proof (proj1 (all_addr_true w s) Ea) as Ea'; clear Ea; rename Ea' into Ea. destruct (kids w s) as [|k ks] eqn:Ek.
    + split; auto.
    + split; [discriminate|]. intros [H|[bi [Hb Hn]]]; [discriminate|].
      exfalso. apply (Ea bi Hb Hn).
  - unfold all_addr in Ea. apply forallb_false_ex in Ea. destruct Ea as [bi [Hb Hn]].
    destruct (kids w s) as [|k ks] eqn:Ek; [destruct Hb|].
    split; auto. intros _. right. exists bi. split; auto.
    destruct (naddr (getn w bi)); [discriminate|reflexivity].
Qed.

Lemma agree_ext_pure w w' s : agree w w' -> ext_pure w' s = ext_pure w s.
Proof.
  intros (Hn & Hk & _). unfold ext_pure, all_addr, sec_ivs, addr_iv, getn.
  rewrite Hn, Hk. reflexivity.
Qed.

(* ================= sections_on / sections_at ================= *)

Definition sections_step (t : Z -> Z -> bool) (st : world * list id) (s : id) : world * list id :=
  let '(w, acc) := st in
  let '(w1, ext) := sec_extent w s in
  match ext with
  | Some (a, sz) => (w1, if t a sz then acc ++ [s] else acc)
  | None => (w1, acc)
  end.

Definition sections_gen (t : Z -> Z -> bool) (w : world) (secs : list id) : world * list id :=
  fold_left (sections_step t) secs (w, []).

Lemma sections_on_gen w secs q :
  sections_on w secs q =
  sections_gen (fun a sz => Z.max (qstart q) a <? Z.min (qstop q) (a + sz)) w secs.
Proof. reflexivity. Qed.

Lemma sections_at_gen w secs q :
  sections_at w secs q = sections_gen (fun a _ => in_q a q) w secs.
Proof. reflexivity. Qed.

Definition ext_test (t : Z -> Z -> bool) (w : world) (s : id) : bool :=
  match ext_pure w s with Some (a, sz) => t a sz | None => false end.

Lemma ext_test_true t w s : ext_test t w s = true <->
  exists a sz, ext_pure w s = Some (a, sz) /\ t a sz = true.
Proof.
  unfold ext_test. destruct (ext_pure w s) as [[a sz]|]; split.
  - intros H. exists a, sz. auto.
  - intros (a' & sz' & E & H). inversion E; subst. exact H.
  - discriminate.
  - intros (a' & sz' & E & H). discriminate.
Qed.

Lemma sections_fold_spec known t : forall secs w acc, Good known w ->
  (forall s, In s secs -> kindof w s = KSec) ->
  Good known (fst (fold_left (sections_step t) secs (w, acc))) /\
  agree w (fst (fold_left (sections_step t) secs (w, acc))) /\
  snd (fold_left (sections_step t) secs (w, acc)) = acc ++ filter (ext_test t w) secs.
Proof.
  induction secs as [|s secs IH]; intros w acc HG HK.
  - simpl. split; [exact HG|]. split; [apply agree_refl|]. rewrite app_nil_r. reflexivity.
  - cbn [fold_left].
    assert (E : sections_step t (w, acc) s =
                (fst (sec_extent w s),
                 match ext_pure w s with
                 | Some (a, sz) => if t a sz then acc ++ [s] else acc
                 | None => acc
                 end)).
    { destruct HG as (HF & HS & HN).
      pose proof (sec_extent_exact w known s HF HS (HK s (or_introl eq_refl))) as Hx.
      unfold sections_step. destruct (sec_extent w s) as [w1 ext]. simpl in Hx. subst ext.
      simpl. destruct (ext_pure w s) as [[a sz]|]; reflexivity. }
    rewrite E. destruct (sec_extent_world known w s HG) as [HG1 Hag].
    assert (HK1 : forall s', In s' secs -> kindof (fst (sec_extent w s)) s' = KSec).
    { intros s' Hs'. rewrite (agree_kindof _ _ s' Hag). apply HK. simpl. auto. }
    destruct (IH (fst (sec_extent w s))
                 (match ext_pure w s with
                  | Some (a, sz) => if t a sz then acc ++ [s] else acc
                  | None => acc
                  end) HG1 HK1) as (I1 & I2 & I3).
    split; [exact I1|]. split; [exact (agree_trans _ _ _ Hag I2)|]. rewrite I3.
    assert (Hfl : filter (ext_test t (fst (sec_extent w s))) secs = filter (ext_test t w) secs).
    { apply filter_ext. intros x. unfold ext_test. rewrite (agree_ext_pure _ _ x Hag). reflexivity. }
    rewrite Hfl. cbn [filter].
    assert (Hf : ext_test t w s =
                 match ext_pure w s with Some (a, sz) => t a sz | None => false end) by reflexivity.
    rewrite Hf. destruct (ext_pure w s) as [[a sz]|].
    + destruct (t a sz); [rewrite <- app_assoc|]; reflexivity.
    + reflexivity.
Qed.

Theorem sections_gen_spec known t w secs : Good known w ->
  (forall s, In s secs -> kindof w s = KSec) ->
  Good known (fst (sections_gen t w secs)) /\ agree w (fst (sections_gen t w secs)) /\
  snd (sections_gen t w secs) = filter (ext_test t w) secs.
Proof.
  intros HG HK. unfold sections_gen. apply (sections_fold_spec known t secs w [] HG HK).
Qed.

Theorem sections_on_exact known w secs q : Good known w -> NoDup secs ->
  (forall s, In s secs -> kindof w s = KSec) ->
  NoDup (snd (sections_on w secs q)) /\
  forall s, In s (snd (sections_on w secs q)) <->
    In s secs /\ exists a sz, ext_pure w s = Some (a, sz) /\
      (Z.max (qstart q) a <? Z.min (qstop q) (a + sz)) = true.
Proof.
  intros HG Hnd HK. rewrite sections_on_gen.
  destruct (sections_gen_spec known (fun a sz => Z.max (qstart q) a <? Z.min (qstop q) (a + sz)) w secs HG HK) as (_ & _ & E). rewrite E.
  split; [apply NoDup_filter; exact Hnd|].
  intros s. rewrite filter_In, ext_test_true. tauto.
Qed.

Theorem sections_at_exact known w secs q : Good known w -> NoDup secs ->
  (forall s, In s secs -> kindof w s = KSec) ->
  NoDup (snd (sections_at w secs q)) /\
  forall s, In s (snd (sections_at w secs q)) <->
    In s secs /\ exists a sz, ext_pure w s = Some (a, sz) /\ in_q a q = true.
Proof.
  intros HG Hnd HK. rewrite sections_at_gen.
  destruct (sections_gen_spec known (fun a (_ : Z) => in_q a q) w secs HG HK) as (_ & _ & E). rewrite E.
  split; [apply NoDup_filter; exact Hnd|].
  intros s. rewrite filter_In, ext_test_true. tauto.
Qed.

Lemma sections_on_world known w secs q : Good known w ->
  (forall s, In s secs -> kindof w s = KSec) ->
  Good known (fst (sections_on w secs q)) /\ agree w (fst (sections_on w secs q)).
Proof.
  intros HG HK. rewrite sections_on_gen.
  destruct (sections_gen_spec known (fun a sz => Z.max (qstart q) a <? Z.min (qstop q) (a + sz)) w secs HG HK) as (H1 & H2 & _). auto.
Qed.

Lemma sections_at_world known w secs q : Good known w ->
  (forall s, In s secs -> kindof w s = KSec) ->
  Good known (fst (sections_at w secs q)) /\ agree w (fst (sections_at w secs q)).
Proof.
  intros HG HK. rewrite sections_at_gen.
  destruct (sections_gen_spec known (fun a (_ : Z) => in_q a q) w secs HG HK) as (H1 & H2 & _). auto.
Qed.

(* ================= chaining lookups over containers ================= *)

Definition lookup := world -> id -> qrange -> world * list id.
Definition spec := world -> id -> qrange -> id -> Prop.
Definition dom := world -> id -> Prop.

Definition chain_step (f : lookup) (q : qrange) (st : world * list id) (x : id) : world * list id :=
  let '(w, acc) := st in let '(w', r) := f w x q in (w', acc ++ r).

Lemma chain_unfold f l q w : chain f l q w = fold_left (chain_step f q) l (w, []).
Proof. reflexivity. Qed.

Lemma chain_step_eq f q w acc x :
  chain_step f q (w, acc) x = (fst (f w x q), acc ++ snd (f w x q)).
Proof. unfold chain_step. destruct (f w x q); reflexivity. Qed.

Lemma chain_acc f q l : forall w acc,
  fold_left (chain_step f q) l (w, acc) =
  (fst (fold_left (chain_step f q) l (w, [])), acc ++ snd (fold_left (chain_step f q) l (w, []))).
Proof.
  induction l as [|x l IH]; intros w acc; cbn [fold_left].
  - simpl. rewrite app_nil_r. reflexivity.
  - rewrite !chain_step_eq.
    rewrite (IH (fst (f w x q)) (acc ++ snd (f w x q))).
    rewrite (IH (fst (f w x q)) ([] ++ snd (f w x q))).
    simpl. rewrite app_assoc. reflexivity.
Qed.

Lemma chain_nil f q w : chain f [] q w = (w, []).
Proof. reflexivity. Qed.

(* the result of chain is the concatenation of the results of f on the successive worlds *)
Lemma chain_cons f x l q w :
  chain f (x :: l) q w =
  (fst (chain f l q (fst (f w x q))), snd (f w x q) ++ snd (chain f l q (fst (f w x q)))).
Proof.
  rewrite !chain_unfold. cbn [fold_left]. rewrite chain_step_eq, chain_acc. reflexivity.
Qed.

Section Lift.
  Variable known : list id.

  (* f, on containers in D, returns a world satisfying the premises again and agreeing with the
     old one outside `tree`, and a duplicate-free list inside the envelope [Cp, Sd] *)
  Definition envl (Sd Cp : spec) (D : dom) (f : lookup) : Prop :=
    forall w x q, Good known w -> D w x ->
      Good known (fst (f w x q)) /\ agree w (fst (f w x q)) /\ NoDup (snd (f w x q)) /\
      (forall b, In b (snd (f w x q)) -> Sd w x q b) /\
      (forall b, Cp w x q b -> In b (snd (f w x q))).

  Definition stable (P : spec) : Prop :=
    forall w w' x q b, agree w w' -> (P w x q b <-> P w' x q b).
  Definition stableD (D : dom) : Prop := forall w w' x, agree w w' -> D w x -> D w' x.
  Definition disj (P : spec) : Prop :=
    forall w x y q b, Good known w -> P w x q b -> P w y q b -> x = y.

  Lemma chain_env Sd Cp D f : envl Sd Cp D f -> stable Sd -> stable Cp -> stableD D -> disj Sd ->
    forall q l w, Good known w -> NoDup l -> (forall x, In x l -> D w x) ->
      Good known (fst (chain f l q w)) /\ agree w (fst (chain f l q w)) /\
      NoDup (snd (chain f l q w)) /\
      (forall b, In b (snd (chain f l q w)) -> exists x, In x l /\ Sd w x q b) /\
      (forall b x, In x l -> Cp w x q b -> In b (snd (chain f l q w))).
  Proof.
    intros He HsS HsC HsD Hdj q l. induction l as [|x l IH]; intros w HG Hnd HD.
    - rewrite chain_nil. simpl. split; [exact HG|]. split; [apply agree_refl|].
      split; [constructor|]. split; [intros b []|intros b x []].
    - rewrite chain_cons. cbn [fst snd].
      destruct (He w x q HG (HD x (or_introl eq_refl))) as (G1 & A1 & N1 & S1 & C1).
      inversion Hnd as [|x' l' Hx Hnd']; subst x' l'.
      assert (HD1 : forall y, In y l -> D (fst (f w x q)) y).
      { intros y Hy. apply (HsD w _ y A1). apply HD. simpl; auto. }
      destruct (IH (fst (f w x q)) G1 Hnd' HD1) as (G2 & A2 & N2 & S2 & C2).
      split; [exact G2|]. split; [exact (agree_trans _ _ _ A1 A2)|]. split; [|split].
      + apply NoDup_app_intro; auto. intros b Hb1 Hb2. apply S1 in Hb1. apply S2 in Hb2.
        destruct Hb2 as [y [Hy Hb2]]. apply (proj2 (HsS w _ y q b A1)) in Hb2.
        assert (x = y) by (apply (Hdj w x y q b HG Hb1 Hb2)). subst y. auto.
      + intros b Hb. apply in_app_iff in Hb. destruct Hb as [Hb|Hb].
        * exists x. split; [simpl; auto|auto].
        * apply S2 in Hb. destruct Hb as [y [Hy Hb]]. exists y. split; [simpl; auto|].
          apply (proj2 (HsS w _ y q b A1)). exact Hb.
      + intros b y [Hy|Hy] Hc; apply in_app_iff.
        * subst y. left. auto.
        * right. apply (C2 b y Hy). apply (proj1 (HsC w _ y q b A1)). exact Hc.
  Qed.

  (* lifting a lookup to a container of containers *)
  Definition liftS (L : world -> id -> list id) (P : spec) : spec :=
    fun w m q b => exists x, In x (L w m) /\ P w x q b.

  Lemma lift_envl Sd Cp D (D' : dom) f (L : world -> id -> list id) :
    envl Sd Cp D f -> stable Sd -> stable Cp -> stableD D -> disj Sd ->
    (forall w m, Good known w -> D' w m -> NoDup (L w m)) ->
    (forall w m x, Good known w -> D' w m -> In x (L w m) -> D w x) ->
    envl (liftS L Sd) (liftS L Cp) D' (fun w m q => chain f (L w m) q w).
  Proof.
    intros He HsS HsC HsD Hdj HL1 HL2 w m q HG HD'.
    destruct (chain_env Sd Cp D f He HsS HsC HsD Hdj q (L w m) w HG (HL1 w m HG HD')
                (fun x Hx => HL2 w m x HG HD' Hx)) as (G & A & N & S1 & C1).
    split; [exact G|]. split; [exact A|]. split; [exact N|]. split.
    - exact S1.
    - intros b [x [Hx Hc]]. apply (C1 b x Hx Hc).
  Qed.

  Lemma lift_stable (L : world -> id -> list id) P :
    (forall w w' m, agree w w' -> L w' m = L w m) -> stable P -> stable (liftS L P).
  Proof.
    intros HL HP w w' m q b A. unfold liftS. rewrite (HL w w' m A). split.
    - intros [x [Hx H]]. exists x. split; auto. apply (proj1 (HP w w' x q b A)). exact H.
    - intros [x [Hx H]]. exists x. split; auto. apply (proj2 (HP w w' x q b A)). exact H.
  Qed.

  Lemma lift_disj (L : world -> id -> list id) P : disj P ->
    (forall w m m' x, Good known w -> In x (L w m) -> In x (L w m') -> m = m') ->
    disj (liftS L P).
  Proof.
    intros HP HL w m m' q b HG [x [Hx H]] [x' [Hx' H']].
    assert (x = x') by (apply (HP w x x' q b HG H H')). subst x'.
    apply (HL w m m' x HG Hx Hx').
  Qed.
End Lift.

(* ================= instances ================= *)

Definition Dbi : dom := fun w bi => kindof w bi = KBI.
Definition Dsec : dom := fun w s => kindof w s = KSec.
Definition Dany : dom := fun _ _ => True.

Definition bi_on_spec : spec := fun w bi q b =>
  In b (kids w bi) /\ exists a, naddr (getn w bi) = Some a /\
    on_spec (a + noff (getn w b)) (nsize (getn w b)) q = true.
Definition bi_at_spec : spec := fun w bi q b =>
  In b (kids w bi) /\ exists a, naddr (getn w bi) = Some a /\
    in_q (a + noff (getn w b)) q = true.
Definition bi_on_off_spec : spec := fun w bi q b =>
  In b (kids w bi) /\ on_spec (noff (getn w b)) (nsize (getn w b)) q = true.
Definition bi_at_off_spec : spec := fun w bi q b =>
  In b (kids w bi) /\ in_q (noff (getn w b)) q = true.
Definition sec_bis_on_spec : spec := fun w s q bi =>
  In bi (kids w s) /\ exists a, naddr (getn w bi) = Some a /\
    on_spec a (nsize (getn w bi)) q = true.
Definition sec_bis_at_spec : spec := fun w s q bi =>
  In bi (kids w s) /\ exists a, naddr (getn w bi) = Some a /\ in_q a q = true.

Lemma kids_disj known w x y b : Forest w known -> In b (kids w x) -> In b (kids w y) -> x = y.
Proof.
  intros HF H1 H2. apply (f_two_ended w known HF) in H1. apply (f_two_ended w known HF) in H2.
  congruence.
Qed.

Lemma kid_of_sec_is_bi known w s bi : Forest w known -> kindof w s = KSec ->
  In bi (kids w s) -> kindof w bi = KBI.
Proof.
  intros HF HK Hin. apply (f_two_ended w known HF) in Hin.
  destruct (f_kind w known HF s bi Hin) as (_ & _ & Hp). rewrite HK in Hp.
  destruct (kindof w bi); simpl in Hp; try discriminate; reflexivity.
Qed.

Lemma stableD_Dbi : stableD Dbi.
Proof. intros w w' x A H. unfold Dbi. rewrite (agree_kindof _ _ x A). exact H. Qed.
Lemma stableD_Dsec : stableD Dsec.
Proof. intros w w' x A H. unfold Dsec. rewrite (agree_kindof _ _ x A). exact H. Qed.
Lemma stableD_Dany : stableD Dany.
Proof. intros w w' x A H. exact I. Qed.

Lemma stable_bi_on : stable bi_on_spec.
Proof. intros w w' x q b (Hn & Hk & _). unfold bi_on_spec, getn. rewrite Hn, Hk. tauto. Qed.
Lemma stable_bi_at : stable bi_at_spec.
Proof. intros w w' x q b (Hn & Hk & _). unfold bi_at_spec, getn. rewrite Hn, Hk. tauto. Qed.
Lemma stable_bi_on_off : stable bi_on_off_spec.
Proof. intros w w' x q b (Hn & Hk & _). unfold bi_on_off_spec, getn. rewrite Hn, Hk. tauto. Qed.
Lemma stable_bi_at_off : stable bi_at_off_spec.
Proof. intros w w' x q b (Hn & Hk & _). unfold bi_at_off_spec, getn. rewrite Hn, Hk. tauto. Qed.
Lemma stable_sec_bis_on : stable sec_bis_on_spec.
Proof. intros w w' x q b (Hn & Hk & _). unfold sec_bis_on_spec, getn. rewrite Hn, Hk. tauto. Qed.
Lemma stable_sec_bis_at : stable sec_bis_at_spec.
Proof. intros w w' x q b (Hn & Hk & _). unfold sec_bis_at_spec, getn. rewrite Hn, Hk. tauto. Qed.

Lemma disj_bi_on known : disj known bi_on_spec.
Proof. intros w x y q b (HF & _) [H1 _] [H2 _]. exact (kids_disj known w x y b HF H1 H2). Qed.
Lemma disj_bi_at known : disj known bi_at_spec.
Proof. intros w x y q b (HF & _) [H1 _] [H2 _]. exact (kids_disj known w x y b HF H1 H2). Qed.
Lemma disj_bi_on_off known : disj known bi_on_off_spec.
Proof. intros w x y q b (HF & _) [H1 _] [H2 _]. exact (kids_disj known w x y b HF H1 H2). Qed.
Lemma disj_bi_at_off known : disj known bi_at_off_spec.
Proof. intros w x y q b (HF & _) [H1 _] [H2 _]. exact (kids_disj known w x y b HF H1 H2). Qed.
Lemma disj_sec_bis_on known : disj known sec_bis_on_spec.
Proof. intros w x y q b (HF & _) [H1 _] [H2 _]. exact (kids_disj known w x y b HF H1 H2). Qed.
Lemma disj_sec_bis_at known : disj known sec_bis_at_spec.
Proof. intros w x y q b (HF & _) [H1 _] [H2 _]. exact (kids_disj known w x y b HF H1 H2). Qed.

Lemma bi_blocks_on_envl known : envl known bi_on_spec bi_on_spec Dbi bi_blocks_on.
Proof.
  intros w bi q HG HD. destruct (bi_blocks_on_world known w bi q HG) as [G A].
  destruct HG as (HF & HS & HN).
  destruct (bi_blocks_on_exact w known bi q HF HS HN HD) as [N I].
  split; [exact G|]. split; [exact A|]. split; [exact N|].
  split; intros b Hb; [exact (proj1 (I b) Hb)|exact (proj2 (I b) Hb)].
Qed.

Lemma bi_blocks_at_envl known : envl known bi_at_spec bi_at_spec Dbi bi_blocks_at.
Proof.
  intros w bi q HG HD. destruct (bi_blocks_at_world known w bi q HG) as [G A].
  destruct HG as (HF & HS & HN).
  destruct (bi_blocks_at_exact w known bi q HF HS HN HD) as [N I].
  split; [exact G|]. split; [exact A|]. split; [exact N|].
  split; intros b Hb; [exact (proj1 (I b) Hb)|exact (proj2 (I b) Hb)].
Qed.

Lemma bi_blocks_on_off_envl known : envl known bi_on_off_spec bi_on_off_spec Dbi bi_blocks_on_off.
Proof.
  intros w bi q HG HD. destruct (bi_blocks_on_off_world known w bi q HG) as [G A].
  destruct HG as (HF & HS & HN).
  destruct (bi_blocks_on_off_exact w bi q HS HN HD) as [N I].
  split; [exact G|]. split; [exact A|]. split; [exact N|].
  split; intros b Hb; [exact (proj1 (I b) Hb)|exact (proj2 (I b) Hb)].
Qed.

Lemma bi_blocks_at_off_envl known : envl known bi_at_off_spec bi_at_off_spec Dbi bi_blocks_at_off.
Proof.
  intros w bi q HG HD. destruct (bi_blocks_at_off_world known w bi q HG) as [G A].
  destruct HG as (HF & HS & HN).
  destruct (bi_blocks_at_off_exact w bi q HS HN HD) as [N I].
  split; [exact G|]. split; [exact A|]. split; [exact N|].
  split; intros b Hb; [exact (proj1 (I b) Hb)|exact (proj2 (I b) Hb)].
Qed.

Lemma sec_bis_on_envl known : envl known sec_bis_on_spec sec_bis_on_spec Dsec sec_bis_on.
Proof.
  intros w s q HG HD. destruct (sec_bis_on_world known w s q HG) as [G A].
  destruct HG as (HF & HS & HN).
  destruct (sec_bis_on_exact w s q HS HN HD) as [N I].
  split; [exact G|]. split; [exact A|]. split; [exact N|].
  split; intros b Hb; [exact (proj1 (I b) Hb)|exact (proj2 (I b) Hb)].
Qed.

Lemma sec_bis_at_envl known : envl known sec_bis_at_spec sec_bis_at_spec Dsec sec_bis_at.
Proof.
  intros w s q HG HD. destruct (sec_bis_at_world known w s q HG) as [G A].
  destruct HG as (HF & HS & HN).
  destruct (sec_bis_at_exact w s q HS HN HD) as [N I].
  split; [exact G|]. split; [exact A|]. split; [exact N|].
  split; intros b Hb; [exact (proj1 (I b) Hb)|exact (proj2 (I b) Hb)].
Qed.

(* ================= section scope: blocks (the envelope) ================= *)

Definition sec_blocks_on_sound : spec := fun w s q b =>
  exists bi a, In bi (kids w s) /\ In b (kids w bi) /\ naddr (getn w bi) = Some a /\
    on_spec (a + noff (getn w b)) (nsize (getn w b)) q = true.
Definition sec_blocks_on_compl : spec := fun w s q b =>
  exists bi a, In bi (kids w s) /\ In b (kids w bi) /\ naddr (getn w bi) = Some a /\
    0 < nsize (getn w b) /\
    Z.max (Z.max (qstart q) (a + noff (getn w b))) a <
    Z.min (Z.min (qstop q) (a + noff (getn w b) + nsize (getn w b))) (a + nsize (getn w bi)).
Definition sec_blocks_at_sound : spec := fun w s q b =>
  exists bi a, In bi (kids w s) /\ In b (kids w bi) /\ naddr (getn w bi) = Some a /\
    in_q (a + noff (getn w b)) q = true.
Definition sec_blocks_at_compl : spec := fun w s q b =>
  exists bi a, In bi (kids w s) /\ In b (kids w bi) /\ naddr (getn w bi) = Some a /\
    in_q (a + noff (getn w b)) q = true /\
    a <= a + noff (getn w b) < a + nsize (getn w bi).

Lemma stable_sec_blocks_on_sound : stable sec_blocks_on_sound.
Proof. intros w w' x q b (Hn & Hk & _). unfold sec_blocks_on_sound, getn. rewrite Hn, Hk. tauto. Qed.
Lemma stable_sec_blocks_on_compl : stable sec_blocks_on_compl.
Proof. intros w w' x q b (Hn & Hk & _). unfold sec_blocks_on_compl, getn. rewrite Hn, Hk. tauto. Qed.
Lemma stable_sec_blocks_at_sound : stable sec_blocks_at_sound.
Proof. intros w w' x q b (Hn & Hk & _). unfold sec_blocks_at_sound, getn. rewrite Hn, Hk. tauto. Qed.
Lemma stable_sec_blocks_at_compl : stable sec_blocks_at_compl.
Proof. intros w w' x q b (Hn & Hk & _). unfold sec_blocks_at_compl, getn. rewrite Hn, Hk. tauto. Qed.

Lemma disj_sec_blocks_on_sound known : disj known sec_blocks_on_sound.
Proof.
  intros w s s' q b (HF & _) (bi & a & H1 & H2 & _) (bi' & a' & H1' & H2' & _).
  assert (bi = bi') by exact (kids_disj known w bi bi' b HF H2 H2'). subst bi'.
  exact (kids_disj known w s s' bi HF H1 H1').
Qed.
Lemma disj_sec_blocks_at_sound known : disj known sec_blocks_at_sound.
Proof.
  intros w s s' q b (HF & _) (bi & a & H1 & H2 & _) (bi' & a' & H1' & H2' & _).
  assert (bi = bi') by exact (kids_disj known w bi bi' b HF H2 H2'). subst bi'.
  exact (kids_disj known w s s' bi HF H1 H1').
Qed.

Theorem sec_blocks_on_envl known :
  envl known sec_blocks_on_sound sec_blocks_on_compl Dsec sec_blocks_on.
Proof.
  intros w s q HG HD.
  destruct (sec_bis_on_world known w s q HG) as [G1 A1].
  pose proof HG as (HF & HS & HN).
  destruct (sec_bis_on_exact w s q HS HN HD) as [N1 I1].
  unfold sec_blocks_on. revert G1 A1 N1 I1.
  destruct (sec_bis_on w s q) as [w1 bis]. cbn [fst snd]. intros G1 A1 N1 I1.
  assert (HDb : forall bi, In bi bis -> Dbi w1 bi).
  { intros bi Hb. apply I1 in Hb. destruct Hb as [Hb _]. unfold Dbi.
    rewrite (agree_kindof _ _ bi A1). exact (kid_of_sec_is_bi known w s bi HF HD Hb). }
  destruct (chain_env known bi_on_spec bi_on_spec Dbi bi_blocks_on (bi_blocks_on_envl known)
              stable_bi_on stable_bi_on stableD_Dbi (disj_bi_on known) q bis w1 G1 N1 HDb)
    as (G2 & A2 & N2 & S2 & C2).
  split; [exact G2|]. split; [exact (agree_trans _ _ _ A1 A2)|]. split; [exact N2|]. split.
  - intros b Hb. apply S2 in Hb. destruct Hb as [bi [Hbi Hsp]].
    apply (proj2 (stable_bi_on w w1 bi q b A1)) in Hsp. destruct Hsp as [Hk [a [Ha Hon]]].
    apply I1 in Hbi. destruct Hbi as [Hbs _]. exists bi, a. auto.
  - intros b (bi & a & Hbs & Hk & Ha & Hsz & Hlt). apply (C2 b bi).
    + apply I1. split; auto. exists a. split; auto. apply on_spec_true. lia.
    + apply (proj1 (stable_bi_on w w1 bi q b A1)). split; auto. exists a. split; auto.
      apply on_spec_true. lia.
Qed.

Theorem sec_blocks_at_envl known :
  envl known sec_blocks_at_sound sec_blocks_at_compl Dsec sec_blocks_at.
Proof.
  intros w s q HG HD.
  destruct (sec_bis_on_world known w s q HG) as [G1 A1].
  pose proof HG as (HF & HS & HN).
  destruct (sec_bis_on_exact w s q HS HN HD) as [N1 I1].
  unfold sec_blocks_at. revert G1 A1 N1 I1.
  destruct (sec_bis_on w s q) as [w1 bis]. cbn [fst snd]. intros G1 A1 N1 I1.
  assert (HDb : forall bi, In bi bis -> Dbi w1 bi).
  { intros bi Hb. apply I1 in Hb. destruct Hb as [Hb _]. unfold Dbi.
    rewrite (agree_kindof _ _ bi A1). exact (kid_of_sec_is_bi known w s bi HF HD Hb). }
  destruct (chain_env known bi_at_spec bi_at_spec Dbi bi_blocks_at (bi_blocks_at_envl known)
              stable_bi_at stable_bi_at stableD_Dbi (disj_bi_at known) q bis w1 G1 N1 HDb)
    as (G2 & A2 & N2 & S2 & C2).
  split; [exact G2|]. split; [exact (agree_trans _ _ _ A1 A2)|]. split; [exact N2|]. split.
  - intros b Hb. apply S2 in Hb. destruct Hb as [bi [Hbi Hsp]].
    apply (proj2 (stable_bi_at w w1 bi q b A1)) in Hsp. destruct Hsp as [Hk [a [Ha Hon]]].
    apply I1 in Hbi. destruct Hbi as [Hbs _]. exists bi, a. auto.
  - intros b (bi & a & Hbs & Hk & Ha & Hq & Hin). pose proof (in_q_bounds _ _ Hq) as Hbd.
    apply (C2 b bi).
    + apply I1. split; auto. exists a. split; auto. apply on_spec_true. lia.
    + apply (proj1 (stable_bi_at w w1 bi q b A1)). split; auto. exists a. auto.
Qed.

(* ================= module and IR scope ================= *)

Lemma secs_of_kids w m s : In s (secs_of w m) -> In s (kids w m).
Proof. unfold secs_of, field. rewrite filter_In. tauto. Qed.

Lemma secs_of_kind w m s : In s (secs_of w m) -> kindof w s = KSec.
Proof.
  unfold secs_of, field. rewrite filter_In. intros [_ H]. simpl in H.
  destruct (kindof w s); simpl in H; try discriminate; reflexivity.
Qed.

Lemma secs_of_NoDup known w m : Good known w -> NoDup (secs_of w m).
Proof. intros (HF & _). unfold secs_of, field. apply NoDup_filter. apply (f_nodup w known HF). Qed.

Lemma secs_of_inj known w m m' x : Good known w ->
  In x (secs_of w m) -> In x (secs_of w m') -> m = m'.
Proof.
  intros (HF & _) H1 H2. apply secs_of_kids in H1. apply secs_of_kids in H2.
  exact (kids_disj known w m m' x HF H1 H2).
Qed.

Lemma mods_of_NoDup known w ir : Good known w -> NoDup (mods_of w ir).
Proof. intros (HF & _). unfold mods_of. apply (f_nodup w known HF). Qed.

Lemma mods_of_inj known w ir ir' x : Good known w ->
  In x (mods_of w ir) -> In x (mods_of w ir') -> ir = ir'.
Proof. intros (HF & _) H1 H2. exact (kids_disj known w ir ir' x HF H1 H2). Qed.

Definition mod_spec (P : spec) : spec := liftS secs_of P.
Definition ir_spec (P : spec) : spec := liftS mods_of (liftS secs_of P).

(* the generic lifting theorems: any section-scope lookup inside an envelope lifts to module and
   IR scope (union over the sections of the module / the modules of the IR) *)
Theorem mod_lift_envl known Sd Cp f : envl known Sd Cp Dsec f ->
  stable Sd -> stable Cp -> disj known Sd ->
  envl known (mod_spec Sd) (mod_spec Cp) Dany (mod_lift f).
Proof.
  intros He HsS HsC Hdj. unfold mod_spec.
  apply (lift_envl known Sd Cp Dsec Dany f secs_of He HsS HsC stableD_Dsec Hdj).
  - intros w m HG _. exact (secs_of_NoDup known w m HG).
  - intros w m x HG _ Hx. exact (secs_of_kind w m x Hx).
Qed.

Lemma mod_spec_stable P : stable P -> stable (mod_spec P).
Proof. apply lift_stable. intros w w' m A. exact (agree_secs_of w w' m A). Qed.

Lemma mod_spec_disj known P : disj known P -> disj known (mod_spec P).
Proof. intros H. apply lift_disj; [exact H|]. exact (secs_of_inj known). Qed.

Theorem ir_lift_envl known Sd Cp f : envl known Sd Cp Dsec f ->
  stable Sd -> stable Cp -> disj known Sd ->
  envl known (ir_spec Sd) (ir_spec Cp) Dany (ir_lift f).
Proof.
  intros He HsS HsC Hdj. unfold ir_spec.
  apply (lift_envl known (mod_spec Sd) (mod_spec Cp) Dany Dany (mod_lift f) mods_of
           (mod_lift_envl known Sd Cp f He HsS HsC Hdj)
           (mod_spec_stable Sd HsS) (mod_spec_stable Cp HsC) stableD_Dany
           (mod_spec_disj known Sd Hdj)).
  - intros w m HG _. exact (mods_of_NoDup known w m HG).
  - intros w m x HG _ Hx. exact I.
Qed.

(* reading an envelope / an exact envelope *)
Lemma envl_exact known P D f : envl known P P D f ->
  forall w x q, Good known w -> D w x ->
    (Good known (fst (f w x q)) /\ agree w (fst (f w x q))) /\
    NoDup (snd (f w x q)) /\ forall b, In b (snd (f w x q)) <-> P w x q b.
Proof.
  intros He w x q HG HD. destruct (He w x q HG HD) as (G & A & N & S1 & C1).
  split; [auto|]. split; [exact N|]. intros b. split; auto.
Qed.

(* ================= the required statements, spelled out ================= *)

(* uniform wrappers for scopes 1-2 (premises bundled in Good) *)
Theorem bi_blocks_on_full known w bi q : Good known w -> kindof w bi = KBI ->
  (Good known (fst (bi_blocks_on w bi q)) /\ agree w (fst (bi_blocks_on w bi q))) /\
  NoDup (snd (bi_blocks_on w bi q)) /\
  forall b, In b (snd (bi_blocks_on w bi q)) <-> bi_on_spec w bi q b.
Proof. exact (envl_exact known _ _ _ (bi_blocks_on_envl known) w bi q). Qed.

Theorem bi_blocks_at_full known w bi q : Good known w -> kindof w bi = KBI ->
  (Good known (fst (bi_blocks_at w bi q)) /\ agree w (fst (bi_blocks_at w bi q))) /\
  NoDup (snd (bi_blocks_at w bi q)) /\
  forall b, In b (snd (bi_blocks_at w bi q)) <-> bi_at_spec w bi q b.
Proof. exact (envl_exact known _ _ _ (bi_blocks_at_envl known) w bi q). Qed.

Theorem bi_blocks_on_off_full known w bi q : Good known w -> kindof w bi = KBI ->
  (Good known (fst (bi_blocks_on_off w bi q)) /\ agree w (fst (bi_blocks_on_off w bi q))) /\
  NoDup (snd (bi_blocks_on_off w bi q)) /\
  forall b, In b (snd (bi_blocks_on_off w bi q)) <-> bi_on_off_spec w bi q b.
Proof. exact (envl_exact known _ _ _ (bi_blocks_on_off_envl known) w bi q). Qed.

Theorem bi_blocks_at_off_full known w bi q : Good known w -> kindof w bi = KBI ->
  (Good known (fst (bi_blocks_at_off w bi q)) /\ agree w (fst (bi_blocks_at_off w bi q))) /\
  NoDup (snd (bi_blocks_at_off w bi q)) /\
  forall b, In b (snd (bi_blocks_at_off w bi q)) <-> bi_at_off_spec w bi q b.
Proof. exact (envl_exact known _ _ _ (bi_blocks_at_off_envl known) w bi q). Qed.

Theorem sec_bis_on_full known w s q : Good known w -> kindof w s = KSec ->
  (Good known (fst (sec_bis_on w s q)) /\ agree w (fst (sec_bis_on w s q))) /\
  NoDup (snd (sec_bis_on w s q)) /\
  forall bi, In bi (snd (sec_bis_on w s q)) <-> sec_bis_on_spec w s q bi.
Proof. exact (envl_exact known _ _ _ (sec_bis_on_envl known) w s q). Qed.

Theorem sec_bis_at_full known w s q : Good known w -> kindof w s = KSec ->
  (Good known (fst (sec_bis_at w s q)) /\ agree w (fst (sec_bis_at w s q))) /\
  NoDup (snd (sec_bis_at w s q)) /\
  forall bi, In bi (snd (sec_bis_at w s q)) <-> sec_bis_at_spec w s q bi.
Proof. exact (envl_exact known _ _ _ (sec_bis_at_envl known) w s q). Qed.

(* 5. section scope, blocks *)
Theorem sec_blocks_on_envelope known w s q : Good known w -> kindof w s = KSec ->
  (Good known (fst (sec_blocks_on w s q)) /\ agree w (fst (sec_blocks_on w s q))) /\
  NoDup (snd (sec_blocks_on w s q)) /\
  (forall b, In b (snd (sec_blocks_on w s q)) ->
     exists bi a, In bi (kids w s) /\ In b (kids w bi) /\ naddr (getn w bi) = Some a /\
       on_spec (a + noff (getn w b)) (nsize (getn w b)) q = true) /\
  (forall bi b a, In bi (kids w s) -> In b (kids w bi) -> naddr (getn w bi) = Some a ->
     0 < nsize (getn w b) ->
     Z.max (Z.max (qstart q) (a + noff (getn w b))) a <
     Z.min (Z.min (qstop q) (a + noff (getn w b) + nsize (getn w b))) (a + nsize (getn w bi)) ->
     In b (snd (sec_blocks_on w s q))).
Proof.
  intros HG HK. destruct (sec_blocks_on_envl known w s q HG HK) as (G & A & N & S1 & C1).
  split; [auto|]. split; [exact N|]. split; [exact S1|].
  intros bi b a H1 H2 H3 H4 H5. apply C1. exists bi, a. auto.
Qed.

Theorem sec_blocks_at_envelope known w s q : Good known w -> kindof w s = KSec ->
  (Good known (fst (sec_blocks_at w s q)) /\ agree w (fst (sec_blocks_at w s q))) /\
  NoDup (snd (sec_blocks_at w s q)) /\
  (forall b, In b (snd (sec_blocks_at w s q)) ->
     exists bi a, In bi (kids w s) /\ In b (kids w bi) /\ naddr (getn w bi) = Some a /\
       in_q (a + noff (getn w b)) q = true) /\
  (forall bi b a, In bi (kids w s) -> In b (kids w bi) -> naddr (getn w bi) = Some a ->
     in_q (a + noff (getn w b)) q = true ->
     a <= a + noff (getn w b) < a + nsize (getn w bi) ->
     In b (snd (sec_blocks_at w s q))).
Proof.
  intros HG HK. destruct (sec_blocks_at_envl known w s q HG HK) as (G & A & N & S1 & C1).
  split; [auto|]. split; [exact N|]. split; [exact S1|].
  intros bi b a H1 H2 H3 H4 H5. apply C1. exists bi, a. auto.
Qed.

(* 6. module scope *)
Theorem mod_blocks_on_envelope known w m q : Good known w ->
  (Good known (fst (mod_lift sec_blocks_on w m q)) /\
   agree w (fst (mod_lift sec_blocks_on w m q))) /\
  NoDup (snd (mod_lift sec_blocks_on w m q)) /\
  (forall b, In b (snd (mod_lift sec_blocks_on w m q)) ->
     exists s, In s (secs_of w m) /\
     exists bi a, In bi (kids w s) /\ In b (kids w bi) /\ naddr (getn w bi) = Some a /\
       on_spec (a + noff (getn w b)) (nsize (getn w b)) q = true) /\
  (forall s bi b a, In s (secs_of w m) -> In bi (kids w s) -> In b (kids w bi) ->
     naddr (getn w bi) = Some a -> 0 < nsize (getn w b) ->
     Z.max (Z.max (qstart q) (a + noff (getn w b))) a <
     Z.min (Z.min (qstop q) (a + noff (getn w b) + nsize (getn w b))) (a + nsize (getn w bi)) ->
     In b (snd (mod_lift sec_blocks_on w m q))).
Proof.
  intros HG.
  destruct (mod_lift_envl known _ _ _ (sec_blocks_on_envl known) stable_sec_blocks_on_sound
              stable_sec_blocks_on_compl (disj_sec_blocks_on_sound known) w m q HG I)
    as (G & A & N & S1 & C1).
  split; [auto|]. split; [exact N|]. split; [exact S1|].
  intros s bi b a H0 H1 H2 H3 H4 H5. apply C1. exists s. split; [exact H0|]. exists bi, a. auto.
Qed.

Theorem mod_blocks_at_envelope known w m q : Good known w ->
  (Good known (fst (mod_lift sec_blocks_at w m q)) /\
   agree w (fst (mod_lift sec_blocks_at w m q))) /\
  NoDup (snd (mod_lift sec_blocks_at w m q)) /\
  (forall b, In b (snd (mod_lift sec_blocks_at w m q)) ->
     exists s, In s (secs_of w m) /\
     exists bi a, In bi (kids w s) /\ In b (kids w bi) /\ naddr (getn w bi) = Some a /\
       in_q (a + noff (getn w b)) q = true) /\
  (forall s bi b a, In s (secs_of w m) -> In bi (kids w s) -> In b (kids w bi) ->
     naddr (getn w bi) = Some a -> in_q (a + noff (getn w b)) q = true ->
     a <= a + noff (getn w b) < a + nsize (getn w bi) ->
     In b (snd (mod_lift sec_blocks_at w m q))).
Proof.
  intros HG.
  destruct (mod_lift_envl known _ _ _ (sec_blocks_at_envl known) stable_sec_blocks_at_sound
              stable_sec_blocks_at_compl (disj_sec_blocks_at_sound known) w m q HG I)
    as (G & A & N & S1 & C1).
  split; [auto|]. split; [exact N|]. split; [exact S1|].
  intros s bi b a H0 H1 H2 H3 H4 H5. apply C1. exists s. split; [exact H0|]. exists bi, a. auto.
Qed.

Theorem mod_bis_on_exact known w m q : Good known w ->
  (Good known (fst (mod_lift sec_bis_on w m q)) /\ agree w (fst (mod_lift sec_bis_on w m q))) /\
  NoDup (snd (mod_lift sec_bis_on w m q)) /\
  forall bi, In bi (snd (mod_lift sec_bis_on w m q)) <->
    exists s, In s (secs_of w m) /\ In bi (kids w s) /\
      exists a, naddr (getn w bi) = Some a /\ on_spec a (nsize (getn w bi)) q = true.
Proof.
  intros HG.
  exact (envl_exact known _ _ _
           (mod_lift_envl known _ _ _ (sec_bis_on_envl known) stable_sec_bis_on stable_sec_bis_on
              (disj_sec_bis_on known)) w m q HG I).
Qed.

Theorem mod_bis_at_exact known w m q : Good known w ->
  (Good known (fst (mod_lift sec_bis_at w m q)) /\ agree w (fst (mod_lift sec_bis_at w m q))) /\
  NoDup (snd (mod_lift sec_bis_at w m q)) /\
  forall bi, In bi (snd (mod_lift sec_bis_at w m q)) <->
    exists s, In s (secs_of w m) /\ In bi (kids w s) /\
      exists a, naddr (getn w bi) = Some a /\ in_q a q = true.
Proof.
  intros HG.
  exact (envl_exact known _ _ _
           (mod_lift_envl known _ _ _ (sec_bis_at_envl known) stable_sec_bis_at stable_sec_bis_at
              (disj_sec_bis_at known)) w m q HG I).
Qed.

(* 6. IR scope *)
Theorem ir_blocks_on_envelope known w ir q : Good known w ->
  (Good known (fst (ir_lift sec_blocks_on w ir q)) /\
   agree w (fst (ir_lift sec_blocks_on w ir q))) /\
  NoDup (snd (ir_lift sec_blocks_on w ir q)) /\
  (forall b, In b (snd (ir_lift sec_blocks_on w ir q)) ->
     exists m, In m (kids w ir) /\ exists s, In s (secs_of w m) /\
     exists bi a, In bi (kids w s) /\ In b (kids w bi) /\ naddr (getn w bi) = Some a /\
       on_spec (a + noff (getn w b)) (nsize (getn w b)) q = true) /\
  (forall m s bi b a, In m (kids w ir) -> In s (secs_of w m) -> In bi (kids w s) ->
     In b (kids w bi) -> naddr (getn w bi) = Some a -> 0 < nsize (getn w b) ->
     Z.max (Z.max (qstart q) (a + noff (getn w b))) a <
     Z.min (Z.min (qstop q) (a + noff (getn w b) + nsize (getn w b))) (a + nsize (getn w bi)) ->
     In b (snd (ir_lift sec_blocks_on w ir q))).
Proof.
  intros HG.
  destruct (ir_lift_envl known _ _ _ (sec_blocks_on_envl known) stable_sec_blocks_on_sound
              stable_sec_blocks_on_compl (disj_sec_blocks_on_sound known) w ir q HG I)
    as (G & A & N & S1 & C1).
  split; [auto|]. split; [exact N|]. split; [exact S1|].
  intros m s bi b a Hm H0 H1 H2 H3 H4 H5. apply C1. exists m. split; [exact Hm|].
  exists s. split; [exact H0|]. exists bi, a. auto.
Qed.

Theorem ir_blocks_at_envelope known w ir q : Good known w ->
  (Good known (fst (ir_lift sec_blocks_at w ir q)) /\
   agree w (fst (ir_lift sec_blocks_at w ir q))) /\
  NoDup (snd (ir_lift sec_blocks_at w ir q)) /\
  (forall b, In b (snd (ir_lift sec_blocks_at w ir q)) ->
     exists m, In m (kids w ir) /\ exists s, In s (secs_of w m) /\
     exists bi a, In bi (kids w s) /\ In b (kids w bi) /\ naddr (getn w bi) = Some a /\
       in_q (a + noff (getn w b)) q = true) /\
  (forall m s bi b a, In m (kids w ir) -> In s (secs_of w m) -> In bi (kids w s) ->
     In b (kids w bi) -> naddr (getn w bi) = Some a -> in_q (a + noff (getn w b)) q = true ->
     a <= a + noff (getn w b) < a + nsize (getn w bi) ->
     In b (snd (ir_lift sec_blocks_at w ir q))).
Proof.
  intros HG.
  destruct (ir_lift_envl known _ _ _ (sec_blocks_at_envl known) stable_sec_blocks_at_sound
              stable_sec_blocks_at_compl (disj_sec_blocks_at_sound known) w ir q HG I)
    as (G & A & N & S1 & C1).
  split; [auto|]. split; [exact N|]. split; [exact S1|].
  intros m s bi b a Hm H0 H1 H2 H3 H4 H5. apply C1. exists m. split; [exact Hm|].
  exists s. split; [exact H0|]. exists bi, a. auto.
Qed.

Theorem ir_bis_on_exact known w ir q : Good known w ->
  (Good known (fst (ir_lift sec_bis_on w ir q)) /\ agree w (fst (ir_lift sec_bis_on w ir q))) /\
  NoDup (snd (ir_lift sec_bis_on w ir q)) /\
  forall bi, In bi (snd (ir_lift sec_bis_on w ir q)) <->
    exists m, In m (kids w ir) /\ exists s, In s (secs_of w m) /\ In bi (kids w s) /\
      exists a, naddr (getn w bi) = Some a /\ on_spec a (nsize (getn w bi)) q = true.
Proof.
  intros HG.
  exact (envl_exact known _ _ _
           (ir_lift_envl known _ _ _ (sec_bis_on_envl known) stable_sec_bis_on stable_sec_bis_on
              (disj_sec_bis_on known)) w ir q HG I).
Qed.

Theorem ir_bis_at_exact known w ir q : Good known w ->
  (Good known (fst (ir_lift sec_bis_at w ir q)) /\ agree w (fst (ir_lift sec_bis_at w ir q))) /\
  NoDup (snd (ir_lift sec_bis_at w ir q)) /\
  forall bi, In bi (snd (ir_lift sec_bis_at w ir q)) <->
    exists m, In m (kids w ir) /\ exists s, In s (secs_of w m) /\ In bi (kids w s) /\
      exists a, naddr (getn w bi) = Some a /\ in_q a q = true.
Proof.
  intros HG.
  exact (envl_exact known _ _ _
           (ir_lift_envl known _ _ _ (sec_bis_at_envl known) stable_sec_bis_at stable_sec_bis_at
              (disj_sec_bis_at known)) w ir q HG I).
Qed.

Print Assumptions lt_get_exact.
Print Assumptions force_spec.
Print Assumptions force_bi_index.
Print Assumptions force_sec_index.
Print Assumptions bi_blocks_on_exact.
Print Assumptions bi_blocks_at_exact.
Print Assumptions bi_blocks_on_off_exact.
Print Assumptions bi_blocks_at_off_exact.
Print Assumptions bi_blocks_on_full.
Print Assumptions bi_blocks_at_full.
Print Assumptions bi_blocks_on_off_full.
Print Assumptions bi_blocks_at_off_full.
Print Assumptions sec_bis_on_exact.
Print Assumptions sec_bis_at_exact.
Print Assumptions sec_bis_on_full.
Print Assumptions sec_bis_at_full.
Print Assumptions sec_extent_exact.
Print Assumptions sec_extent_world.
Print Assumptions ext_pure_Some.
Print Assumptions ext_pure_None.
Print Assumptions sections_gen_spec.
Print Assumptions sections_on_exact.
Print Assumptions sections_at_exact.
Print Assumptions sections_on_world.
Print Assumptions sections_at_world.
Print Assumptions chain_cons.
Print Assumptions chain_env.
Print Assumptions sec_blocks_on_envl.
Print Assumptions sec_blocks_at_envl.
Print Assumptions sec_blocks_on_envelope.
Print Assumptions sec_blocks_at_envelope.
Print Assumptions mod_lift_envl.
Print Assumptions ir_lift_envl.
Print Assumptions mod_blocks_on_envelope.
Print Assumptions mod_blocks_at_envelope.
Print Assumptions mod_bis_on_exact.
Print Assumptions mod_bis_at_exact.
Print Assumptions ir_blocks_on_envelope.
Print Assumptions ir_blocks_at_envelope.
Print Assumptions ir_bis_on_exact.
Print Assumptions ir_bis_at_exact.
