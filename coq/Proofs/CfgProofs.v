(* Task CFG: the CFG (python/gtirb/cfg.py, modelled in Model/Cfg.v) behaves as a mathematical set of edges
   with consistent adjacency views. *)
From Coq Require Import ZArith List Bool Lia Permutation.
From V Require Import Result Cfg.
Import ListNotations.
Open Scope Z_scope.

Definition CfgInv (g : graph) : Prop :=
  NoDup (edges g) /\ NoDup (map (fun m => (esrc m, edst m, ekey m)) g).

(* ------------------------------------------------------------------ *)
(* generic list facts                                                   *)
(* ------------------------------------------------------------------ *)

Lemma NoDup_map_inj {A B} (f : A -> B) (l : list A) (a b : A) :
  NoDup (map f l) -> In a l -> In b l -> f a = f b -> a = b.
Proof.
  induction l as [|x xs IH]; intros Hnd Ha Hb Hf.
  - destruct Ha.
  - cbn [map] in Hnd. inversion Hnd as [|y ys Hnotin Hnd']. subst y ys.
    destruct Ha as [Ha|Ha]; destruct Hb as [Hb|Hb].
    + congruence.
    + subst x. exfalso. apply Hnotin. rewrite Hf. apply in_map. exact Hb.
    + subst x. exfalso. apply Hnotin. rewrite <- Hf. apply in_map. exact Ha.
    + apply IH; assumption.
Qed.

Lemma NoDup_map_filter {A B} (f : A -> B) (p : A -> bool) (l : list A) :
  NoDup (map f l) -> NoDup (map f (filter p l)).
Proof.
  induction l as [|x xs IH]; intros Hnd.
  - exact Hnd.
  - cbn [map] in Hnd. inversion Hnd as [|y ys Hnotin Hnd']. subst y ys.
    cbn [filter]. destruct (p x) eqn:Ep.
    + cbn [map]. constructor.
      * intros Hin. apply Hnotin. apply in_map_iff in Hin. destruct Hin as [z [Hz Hin]].
        apply filter_In in Hin. destruct Hin as [Hin _]. apply in_map_iff. exists z. auto.
      * apply IH. exact Hnd'.
    + apply IH. exact Hnd'.
Qed.

Lemma NoDup_snoc {A} (l : list A) (a : A) : NoDup l -> ~ In a l -> NoDup (l ++ [a]).
Proof.
  induction l as [|x xs IH]; intros Hnd Hnotin.
  - cbn. constructor; [intros H; destruct H | constructor].
  - inversion Hnd as [|y ys Hx Hnd']. subst y ys. cbn [app]. constructor.
    + intros Hin. apply in_app_or in Hin. destruct Hin as [Hin|Hin].
      * apply Hx. exact Hin.
      * destruct Hin as [Hin|Hin]; [|destruct Hin]. subst a. apply Hnotin. left. reflexivity.
    + apply IH; [exact Hnd'|]. intros Hin. apply Hnotin. right. exact Hin.
Qed.

(* ------------------------------------------------------------------ *)
(* equality tests                                                       *)
(* ------------------------------------------------------------------ *)

Lemma label_eqb_spec (a b : label) : label_eqb a b = true <-> a = b.
Proof.
  destruct a as [[t1 c1] d1], b as [[t2 c2] d2]. unfold label_eqb.
  rewrite !andb_true_iff, Z.eqb_eq, !Bool.eqb_true_iff.
  split.
  - intros [[H1 H2] H3]. subst. reflexivity.
  - intros H. inversion H. subst. auto.
Qed.

Lemma olabel_eqb_spec (a b : olabel) : olabel_eqb a b = true <-> a = b.
Proof.
  destruct a as [x|], b as [y|]; cbn [olabel_eqb].
  - rewrite label_eqb_spec. split; intros H; [subst; reflexivity | inversion H; reflexivity].
  - split; intros H; discriminate H.
  - split; intros H; discriminate H.
  - split; reflexivity.
Qed.

Theorem edge_eqb_spec (a b : edge) : edge_eqb a b = true <-> a = b.
Proof.
  destruct a as [[s1 t1] l1], b as [[s2 t2] l2]. unfold edge_eqb.
  rewrite !andb_true_iff, !Z.eqb_eq, olabel_eqb_spec.
  split.
  - intros [[H1 H2] H3]. subst. reflexivity.
  - intros H. inversion H. subst. auto.
Qed.

Lemma edge_eqb_refl (a : edge) : edge_eqb a a = true.
Proof. apply edge_eqb_spec. reflexivity. Qed.

Lemma edge_eq_dec (a b : edge) : {a = b} + {a <> b}.
Proof.
  destruct (edge_eqb a b) eqn:E.
  - left. apply edge_eqb_spec. exact E.
  - right. intros H. apply edge_eqb_spec in H. congruence.
Qed.

Lemma edge_in_dec (x : edge) (l : list edge) : In x l \/ ~ In x l.
Proof. destruct (in_dec edge_eq_dec x l) as [H|H]; [left|right]; exact H. Qed.

Lemma mem_edge_spec (e : edge) (l : list edge) : mem_edge e l = true <-> In e l.
Proof.
  unfold mem_edge. rewrite existsb_exists. split.
  - intros [x [Hin Heq]]. apply edge_eqb_spec in Heq. subst x. exact Hin.
  - intros Hin. exists e. split; [exact Hin | apply edge_eqb_refl].
Qed.

Lemma mem_edge_false (e : edge) (l : list edge) : mem_edge e l = false <-> ~ In e l.
Proof.
  rewrite <- mem_edge_spec. destruct (mem_edge e l); split; intros H; congruence.
Qed.

(* ------------------------------------------------------------------ *)
(* contains                                                             *)
(* ------------------------------------------------------------------ *)

Lemma edge_key_some g e k :
  edge_key g e = Some k -> exists m, In m g /\ triple m = e /\ ekey m = k.
Proof.
  unfold edge_key. destruct (find _ g) as [m|] eqn:F; intros H; [|discriminate H].
  apply find_some in F. destruct F as [Hin Heq]. apply edge_eqb_spec in Heq.
  exists m. inversion H. auto.
Qed.

Lemma edge_key_none g e : edge_key g e = None -> ~ In e (edges g).
Proof.
  unfold edge_key. destruct (find _ g) as [m|] eqn:F; intros H; [discriminate H|].
  intros Hin. unfold edges in Hin. apply in_map_iff in Hin. destruct Hin as [m [Hm Hin]].
  pose proof (find_none _ _ F m Hin) as Hn. cbv beta in Hn. rewrite Hm in Hn.
  rewrite edge_eqb_refl in Hn. discriminate Hn.
Qed.

Theorem contains_spec g e : contains g e = true <-> In e (edges g).
Proof.
  unfold contains. destruct (edge_key g e) as [k|] eqn:K.
  - split; [intros _|reflexivity].
    apply edge_key_some in K. destruct K as [m [Hin [Ht _]]].
    unfold edges. apply in_map_iff. exists m. auto.
  - split; [intros H; discriminate H|]. intros Hin. exfalso. exact (edge_key_none _ _ K Hin).
Qed.

Lemma contains_false g e : contains g e = false <-> ~ In e (edges g).
Proof.
  rewrite <- contains_spec. destruct (contains g e); split; intros H; congruence.
Qed.

Lemma contains_edge_key g e : contains g e = true -> exists k, edge_key g e = Some k.
Proof.
  unfold contains. destruct (edge_key g e) as [k|]; intros H; [exists k; reflexivity | discriminate H].
Qed.

Lemma not_contains_edge_key g e : contains g e = false -> edge_key g e = None.
Proof.
  unfold contains. destruct (edge_key g e) as [k|]; intros H; [discriminate H | reflexivity].
Qed.

(* ------------------------------------------------------------------ *)
(* add                                                                  *)
(* ------------------------------------------------------------------ *)

Lemma new_key_fold_bound s t g : forall k0,
  k0 <= fold_left (fun k m => if (esrc m =? s) && (edst m =? t) then Z.max k (ekey m + 1) else k) g k0 /\
  forall m, In m g -> esrc m = s -> edst m = t ->
    ekey m < fold_left (fun k m => if (esrc m =? s) && (edst m =? t) then Z.max k (ekey m + 1) else k) g k0.
Proof.
  induction g as [|x xs IH]; intros k0.
  - cbn [fold_left]. split; [lia | intros m H; destruct H].
  - cbn [fold_left].
    destruct (IH (if (esrc x =? s) && (edst x =? t) then Z.max k0 (ekey x + 1) else k0)) as [Hle Hlt].
    split.
    + clear Hlt. revert Hle. destruct ((esrc x =? s) && (edst x =? t)); lia.
    + intros m [Hm|Hm] Hs Ht.
      * subst m. subst s t. rewrite !Z.eqb_refl in Hle. cbn [andb] in Hle.
        rewrite !Z.eqb_refl. cbn [andb]. lia.
      * apply Hlt; assumption.
Qed.

Lemma new_key_fresh g s t m : In m g -> esrc m = s -> edst m = t -> ekey m < new_key g s t.
Proof. unfold new_key. apply (new_key_fold_bound s t g 0). Qed.

Theorem add_present g e : contains g e = true -> add g e = g.
Proof. intros H. unfold add. rewrite H. reflexivity. Qed.

Lemma add_absent g s t l : contains g (s, t, l) = false ->
  add g (s, t, l) = g ++ [{| esrc := s; edst := t; ekey := new_key g s t; elab := l |}].
Proof. intros H. unfold add. rewrite H. reflexivity. Qed.

Lemma edges_app g1 g2 : edges (g1 ++ g2) = edges g1 ++ edges g2.
Proof. unfold edges. apply map_app. Qed.

Theorem add_spec g e : forall x, In x (edges (add g e)) <-> In x (edges g) \/ x = e.
Proof.
  intros x. destruct (contains g e) eqn:C.
  - rewrite add_present by exact C. apply contains_spec in C. split.
    + intros H. left. exact H.
    + intros [H|H]; [exact H | subst x; exact C].
  - destruct e as [[s t] l]. rewrite add_absent by exact C. rewrite edges_app, in_app_iff.
    cbn. unfold triple. cbn. split.
    + intros [H|[H|H]]; [left; exact H | right; symmetry; exact H | destruct H].
    + intros [H|H]; [left; exact H | right; left; symmetry; exact H].
Qed.

Theorem add_inv g e : CfgInv g -> CfgInv (add g e).
Proof.
  intros [He Hk]. destruct (contains g e) eqn:C.
  - rewrite add_present by exact C. split; assumption.
  - destruct e as [[s t] l]. rewrite add_absent by exact C. split.
    + rewrite edges_app. change (NoDup (edges g ++ [(s, t, l)])). apply NoDup_snoc; [exact He|].
      apply contains_false. exact C.
    + rewrite map_app. cbn [map esrc edst ekey]. apply NoDup_snoc; [exact Hk|].
      intros Hin. apply in_map_iff in Hin. destruct Hin as [m [Hm Hin]].
      cbv beta in Hm. injection Hm as Hs Ht Hkey.
      pose proof (new_key_fresh g s t m Hin Hs Ht) as Hlt. lia.
Qed.

Theorem len_spec g : CfgInv g -> len g = Z.of_nat (length (edges g)).
Proof. intros _. unfold len, edges. rewrite map_length. reflexivity. Qed.

Theorem len_add_absent g e : contains g e = false -> len (add g e) = len g + 1.
Proof.
  intros C. destruct e as [[s t] l]. rewrite add_absent by exact C.
  unfold len. rewrite app_length. cbn [length]. lia.
Qed.

Theorem len_add_present g e : contains g e = true -> len (add g e) = len g.
Proof. intros C. rewrite add_present by exact C. reflexivity. Qed.

Theorem add_contains g e : contains (add g e) e = true.
Proof. apply contains_spec. apply add_spec. right. reflexivity. Qed.

(* ------------------------------------------------------------------ *)
(* discard                                                              *)
(* ------------------------------------------------------------------ *)

Theorem discard_absent g e : contains g e = false -> discard g e = g.
Proof. intros C. unfold discard. rewrite (not_contains_edge_key _ _ C). reflexivity. Qed.

Lemma discard_In g e : CfgInv g -> contains g e = true ->
  forall m, In m (discard g e) <-> In m g /\ triple m <> e.
Proof.
  intros [He Hk] C m'. destruct (contains_edge_key _ _ C) as [k K].
  unfold discard. rewrite K. destruct e as [[s t] l].
  apply edge_key_some in K. destruct K as [m [Hin [Ht Hkey]]].
  rewrite filter_In. split.
  - intros [Hin' Hp]. split; [exact Hin'|]. intros Ht'.
    assert (m' = m) as ->.
    { apply (NoDup_map_inj triple g); [exact He | exact Hin' | exact Hin | congruence]. }
    unfold triple in Ht. injection Ht as Hs Hd Hl. subst k s t.
    rewrite !Z.eqb_refl in Hp. discriminate Hp.
  - intros [Hin' Hne]. split; [exact Hin'|].
    destruct ((esrc m' =? s) && (edst m' =? t) && (ekey m' =? k)) eqn:Ep; [|reflexivity].
    exfalso. apply Hne.
    rewrite !andb_true_iff, !Z.eqb_eq in Ep. destruct Ep as [[Hs Hd] Hk'].
    assert (m' = m) as ->; [|exact Ht].
    apply (NoDup_map_inj (fun m => (esrc m, edst m, ekey m)) g); [exact Hk | exact Hin' | exact Hin |].
    unfold triple in Ht. injection Ht as Hs2 Hd2 Hl2. cbv beta. congruence.
Qed.

Theorem discard_spec g e : CfgInv g ->
  forall x, In x (edges (discard g e)) <-> In x (edges g) /\ x <> e.
Proof.
  intros Hinv x. destruct (contains g e) eqn:C.
  - unfold edges. rewrite !in_map_iff. split.
    + intros [m [Hm Hin]]. apply (discard_In g e Hinv C) in Hin. destruct Hin as [Hin Hne].
      split; [exists m; auto | congruence].
    + intros [[m [Hm Hin]] Hne]. exists m. split; [exact Hm|].
      apply (discard_In g e Hinv C). split; [exact Hin | congruence].
  - rewrite discard_absent by exact C. apply contains_false in C. split.
    + intros H. split; [exact H | intros ->; exact (C H)].
    + intros [H _]. exact H.
Qed.

Theorem discard_inv g e : CfgInv g -> CfgInv (discard g e).
Proof.
  intros [He Hk]. unfold discard. destruct (edge_key g e) as [k|]; [|split; assumption].
  destruct e as [[s t] l]. split.
  - unfold edges. apply NoDup_map_filter. exact He.
  - apply NoDup_map_filter. exact Hk.
Qed.

Theorem discard_not_contains g e : CfgInv g -> contains (discard g e) e = false.
Proof.
  intros Hinv. apply contains_false. intros H. apply (discard_spec g e Hinv) in H.
  destruct H as [_ H]. apply H. reflexivity.
Qed.

Theorem len_discard_present g e : CfgInv g -> contains g e = true -> len (discard g e) = len g - 1.
Proof.
  intros Hinv C.
  assert (Permutation (edges g) (e :: edges (discard g e))) as P.
  { apply NoDup_Permutation.
    - exact (proj1 Hinv).
    - constructor.
      + intros H. apply (discard_spec g e Hinv) in H. destruct H as [_ H]. apply H. reflexivity.
      + exact (proj1 (discard_inv g e Hinv)).
    - intros x. cbn [In]. rewrite (discard_spec g e Hinv x). apply contains_spec in C.
      destruct (edge_eq_dec e x) as [Heq|Hne].
      + subst x. split; [intros _; left; reflexivity | intros _; exact C].
      + split.
        * intros H. right. split; [exact H | congruence].
        * intros [H|[H _]]; [contradiction | exact H]. }
  apply Permutation_length in P. cbn [length] in P.
  rewrite (len_spec g Hinv), (len_spec _ (discard_inv g e Hinv)). lia.
Qed.

Theorem len_discard_absent g e : contains g e = false -> len (discard g e) = len g.
Proof. intros C. rewrite discard_absent by exact C. reflexivity. Qed.

(* ------------------------------------------------------------------ *)
(* parallel edges                                                       *)
(* ------------------------------------------------------------------ *)

Theorem parallel_edges g s t (l1 l2 : olabel) : l1 <> l2 ->
  contains (add (add g (s, t, l1)) (s, t, l2)) (s, t, l1) = true /\
  contains (add (add g (s, t, l1)) (s, t, l2)) (s, t, l2) = true.
Proof.
  intros _. split; apply contains_spec; apply add_spec.
  - left. apply add_spec. right. reflexivity.
  - right. reflexivity.
Qed.

Theorem parallel_discard_other g e1 e2 : CfgInv g -> e1 <> e2 ->
  contains g e2 = true -> contains (discard g e1) e2 = true.
Proof.
  intros Hinv Hne C. apply contains_spec. apply (discard_spec g e1 Hinv).
  split; [apply contains_spec; exact C | congruence].
Qed.

Theorem parallel_discard g s t (l1 l2 : olabel) : CfgInv g -> l1 <> l2 ->
  let g2 := add (add g (s, t, l1)) (s, t, l2) in
  contains (discard g2 (s, t, l1)) (s, t, l1) = false /\
  contains (discard g2 (s, t, l1)) (s, t, l2) = true /\
  contains (discard g2 (s, t, l2)) (s, t, l2) = false /\
  contains (discard g2 (s, t, l2)) (s, t, l1) = true.
Proof.
  intros Hinv Hne g2.
  assert (CfgInv g2) as Hinv2 by (apply add_inv, add_inv; exact Hinv).
  destruct (parallel_edges g s t l1 l2 Hne) as [C1 C2]. fold g2 in C1, C2.
  split; [apply discard_not_contains; exact Hinv2|].
  split; [apply parallel_discard_other; [exact Hinv2 | congruence | exact C2]|].
  split; [apply discard_not_contains; exact Hinv2|].
  apply parallel_discard_other; [exact Hinv2 | congruence | exact C1].
Qed.

(* ------------------------------------------------------------------ *)
(* adjacency views                                                      *)
(* ------------------------------------------------------------------ *)

Theorem out_edges_spec g n : forall x, In x (out_edges g n) <-> In x (edges g) /\ fst (fst x) = n.
Proof.
  intros x. unfold out_edges, edges. rewrite !in_map_iff. split.
  - intros [m [Hm Hin]]. apply filter_In in Hin. destruct Hin as [Hin Hp].
    apply Z.eqb_eq in Hp. split; [exists m; auto | subst x; exact Hp].
  - intros [[m [Hm Hin]] Hn]. exists m. split; [exact Hm|].
    apply filter_In. split; [exact Hin|]. apply Z.eqb_eq. subst x. exact Hn.
Qed.

Theorem in_edges_spec g n : forall x, In x (in_edges g n) <-> In x (edges g) /\ snd (fst x) = n.
Proof.
  intros x. unfold in_edges, edges. rewrite !in_map_iff. split.
  - intros [m [Hm Hin]]. apply filter_In in Hin. destruct Hin as [Hin Hp].
    apply Z.eqb_eq in Hp. split; [exists m; auto | subst x; exact Hp].
  - intros [[m [Hm Hin]] Hn]. exists m. split; [exact Hm|].
    apply filter_In. split; [exact Hin|]. apply Z.eqb_eq. subst x. exact Hn.
Qed.

Theorem out_edges_NoDup g n : CfgInv g -> NoDup (out_edges g n).
Proof. intros [He _]. unfold out_edges. apply NoDup_map_filter. exact He. Qed.

Theorem in_edges_NoDup g n : CfgInv g -> NoDup (in_edges g n).
Proof. intros [He _]. unfold in_edges. apply NoDup_map_filter. exact He. Qed.

Theorem self_loop_both g n l : In (n, n, l) (edges g) ->
  In (n, n, l) (out_edges g n) /\ In (n, n, l) (in_edges g n).
Proof.
  intros H. split; [apply out_edges_spec | apply in_edges_spec]; split; auto.
Qed.

(* every edge is in the out view of its source and the in view of its target, and nowhere else *)
Theorem edge_views g s t l : In (s, t, l) (edges g) <->
  In (s, t, l) (out_edges g s) /\ In (s, t, l) (in_edges g t).
Proof.
  rewrite out_edges_spec, in_edges_spec. cbn [fst snd]. tauto.
Qed.

Theorem node_out_some cfg_of ir n : node_out cfg_of (Some ir) n = out_edges (cfg_of ir) n.
Proof. reflexivity. Qed.
Theorem node_out_none cfg_of n : node_out cfg_of None n = [].
Proof. reflexivity. Qed.
Theorem node_in_some cfg_of ir n : node_in cfg_of (Some ir) n = in_edges (cfg_of ir) n.
Proof. reflexivity. Qed.
Theorem node_in_none cfg_of n : node_in cfg_of None n = [].
Proof. reflexivity. Qed.

(* ------------------------------------------------------------------ *)
(* mixins                                                               *)
(* ------------------------------------------------------------------ *)

Theorem remove_present g e : contains g e = true -> remove g e = Ok (discard g e).
Proof. intros C. unfold remove. rewrite C. reflexivity. Qed.

Theorem remove_absent g e : contains g e = false -> remove g e = Err EKey.
Proof. intros C. unfold remove. rewrite C. reflexivity. Qed.

Theorem remove_spec g e :
  (In e (edges g) /\ remove g e = Ok (discard g e)) \/ (~ In e (edges g) /\ remove g e = Err EKey).
Proof.
  destruct (contains g e) eqn:C.
  - left. split; [apply contains_spec; exact C | apply remove_present; exact C].
  - right. split; [apply contains_false; exact C | apply remove_absent; exact C].
Qed.

Theorem remove_err g e er : remove g e = Err er -> er = EKey /\ ~ In e (edges g).
Proof.
  unfold remove. destruct (contains g e) eqn:C; intros H; [discriminate H|].
  inversion H. split; [reflexivity | apply contains_false; exact C].
Qed.

Theorem remove_ok g e g' : CfgInv g -> remove g e = Ok g' ->
  In e (edges g) /\ g' = discard g e /\ CfgInv g' /\
  (forall x, In x (edges g') <-> In x (edges g) /\ x <> e) /\ len g' = len g - 1.
Proof.
  intros Hinv. unfold remove. destruct (contains g e) eqn:C; intros H; [|discriminate H].
  inversion H. subst g'. split; [apply contains_spec; exact C|]. split; [reflexivity|].
  split; [apply discard_inv; exact Hinv|]. split; [apply discard_spec; exact Hinv|].
  apply len_discard_present; assumption.
Qed.

Theorem pop_empty g : pop g = Err EKey <-> g = [].
Proof.
  destruct g as [|m g']; cbn [pop]; split; intros H; try reflexivity; discriminate H.
Qed.

Theorem pop_err g er : pop g = Err er -> er = EKey /\ g = [].
Proof.
  destruct g as [|m g']; cbn [pop]; intros H; [|discriminate H]. inversion H. auto.
Qed.

Theorem pop_ok g g' e : CfgInv g -> pop g = Ok (g', e) ->
  In e (edges g) /\ g' = discard g e /\ CfgInv g' /\
  (forall x, In x (edges g') <-> In x (edges g) /\ x <> e) /\ len g' = len g - 1.
Proof.
  intros Hinv. destruct g as [|m g0]; cbn [pop]; intros H; [discriminate H|].
  inversion H. subst g' e.
  assert (In (triple m) (edges (m :: g0))) as Hin by (left; reflexivity).
  split; [exact Hin|]. split; [reflexivity|].
  split; [apply discard_inv; exact Hinv|]. split; [apply discard_spec; exact Hinv|].
  apply len_discard_present; [exact Hinv | apply contains_spec; exact Hin].
Qed.

Theorem pop_nonempty g : g <> [] -> exists g' e, pop g = Ok (g', e).
Proof.
  destruct g as [|m g0]; intros H; [congruence|]. cbn [pop]. eauto.
Qed.

Theorem clear_edges g : edges (clear g) = [].
Proof. reflexivity. Qed.

Lemma CfgInv_nil : CfgInv [].
Proof. split; cbn; constructor. Qed.

Theorem clear_inv g : CfgInv (clear g).
Proof. apply CfgInv_nil. Qed.

(* ior / update *)
Lemma fold_add_inv es : forall g, CfgInv g -> CfgInv (fold_left add es g).
Proof.
  induction es as [|e es IH]; intros g Hinv; cbn [fold_left]; [exact Hinv|].
  apply IH. apply add_inv. exact Hinv.
Qed.

Lemma fold_add_spec es : forall g x, In x (edges (fold_left add es g)) <-> In x (edges g) \/ In x es.
Proof.
  induction es as [|e es IH]; intros g x; cbn [fold_left In].
  - tauto.
  - rewrite IH, add_spec. split.
    + intros [[H|H]|H]; auto.
    + intros [H|[H|H]]; auto.
Qed.

Theorem ior_inv g it : CfgInv g -> CfgInv (ior g it).
Proof. apply fold_add_inv. Qed.
Theorem ior_spec g it : forall x, In x (edges (ior g it)) <-> In x (edges g) \/ In x it.
Proof. apply fold_add_spec. Qed.
Theorem update_inv g it : CfgInv g -> CfgInv (update g it).
Proof. apply fold_add_inv. Qed.
Theorem update_spec g it : forall x, In x (edges (update g it)) <-> In x (edges g) \/ In x it.
Proof. apply fold_add_spec. Qed.

(* isub *)
Lemma fold_discard_inv es : forall g, CfgInv g -> CfgInv (fold_left discard es g).
Proof.
  induction es as [|e es IH]; intros g Hinv; cbn [fold_left]; [exact Hinv|].
  apply IH. apply discard_inv. exact Hinv.
Qed.

Lemma fold_discard_spec es : forall g, CfgInv g ->
  forall x, In x (edges (fold_left discard es g)) <-> In x (edges g) /\ ~ In x es.
Proof.
  induction es as [|e es IH]; intros g Hinv x; cbn [fold_left In].
  - tauto.
  - rewrite (IH _ (discard_inv g e Hinv)), (discard_spec g e Hinv). split.
    + intros [[H1 H2] H3]. split; [exact H1|]. intros [H|H]; [congruence | exact (H3 H)].
    + intros [H1 H2]. split; [split; [exact H1|]|].
      * intros ->. apply H2. left. reflexivity.
      * intros H. apply H2. right. exact H.
Qed.

Theorem isub_inv g it : CfgInv g -> CfgInv (isub g it).
Proof. apply fold_discard_inv. Qed.
Theorem isub_spec g it : CfgInv g ->
  forall x, In x (edges (isub g it)) <-> In x (edges g) /\ ~ In x it.
Proof. apply fold_discard_spec. Qed.

(* iand *)
Theorem iand_inv g it : CfgInv g -> CfgInv (iand g it).
Proof. apply fold_discard_inv. Qed.
Theorem iand_spec g it : CfgInv g ->
  forall x, In x (edges (iand g it)) <-> In x (edges g) /\ In x it.
Proof.
  intros Hinv x. unfold iand. rewrite (fold_discard_spec _ g Hinv x), filter_In.
  split.
  - intros [H1 H2]. split; [exact H1|]. destruct (edge_in_dec x it) as [H|H]; [exact H|].
    exfalso. apply H2. split; [exact H1|]. apply mem_edge_false in H. rewrite H. reflexivity.
  - intros [H1 H2]. split; [exact H1|]. intros [_ H3]. apply mem_edge_spec in H2.
    rewrite H2 in H3. discriminate H3.
Qed.

(* ixor *)
Definition toggle (g : graph) (e : edge) : graph := if contains g e then discard g e else add g e.

Lemma toggle_inv g e : CfgInv g -> CfgInv (toggle g e).
Proof.
  intros Hinv. unfold toggle. destruct (contains g e); [apply discard_inv | apply add_inv]; exact Hinv.
Qed.

Lemma toggle_spec g e : CfgInv g ->
  forall x, In x (edges (toggle g e)) <-> (In x (edges g) /\ x <> e) \/ (~ In x (edges g) /\ x = e).
Proof.
  intros Hinv x. unfold toggle. destruct (contains g e) eqn:C.
  - rewrite (discard_spec g e Hinv x). apply contains_spec in C. split.
    + intros H. left. exact H.
    + intros [H|[H1 H2]]; [exact H | subst x; contradiction].
  - rewrite add_spec. apply contains_false in C. split.
    + intros [H|H].
      * left. split; [exact H | intros ->; exact (C H)].
      * right. subst x. split; [exact C | reflexivity].
    + intros [[H _]|[_ H]]; [left; exact H | right; exact H].
Qed.

Lemma fold_toggle_inv l : forall g, CfgInv g -> CfgInv (fold_left toggle l g).
Proof.
  induction l as [|e l IH]; intros g Hinv; cbn [fold_left]; [exact Hinv|].
  apply IH. apply toggle_inv. exact Hinv.
Qed.

Lemma fold_toggle_spec l : NoDup l -> forall g, CfgInv g ->
  forall x, In x (edges (fold_left toggle l g)) <->
            (In x (edges g) /\ ~ In x l) \/ (~ In x (edges g) /\ In x l).
Proof.
  induction l as [|e l IH]; intros Hnd g Hinv x; cbn [fold_left In].
  - tauto.
  - inversion Hnd as [|y ys Hnotin Hnd']. subst y ys.
    rewrite (IH Hnd' _ (toggle_inv g e Hinv) x), (toggle_spec g e Hinv x).
    destruct (edge_in_dec x (edges g)) as [Hg|Hg];
    destruct (edge_in_dec x l) as [Hl|Hl];
    destruct (edge_eq_dec x e) as [Hx|Hx];
    try subst x; try (assert (e <> x) by congruence); tauto.
Qed.


Lemma ixor_fold g it : ixor g it = fold_left toggle (edges (update [] it)) g.
Proof. reflexivity. Qed.

Theorem ixor_inv g it : CfgInv g -> CfgInv (ixor g it).
Proof. intros Hinv. rewrite ixor_fold. apply fold_toggle_inv. exact Hinv. Qed.

Theorem ixor_spec g it : CfgInv g ->
  forall x, In x (edges (ixor g it)) <->
            (In x (edges g) /\ ~ In x it) \/ (~ In x (edges g) /\ In x it).
Proof.
  intros Hinv x. rewrite ixor_fold.
  pose proof (update_inv [] it CfgInv_nil) as [Hnd _].
  rewrite (fold_toggle_spec _ Hnd g Hinv x).
  pose proof (update_spec [] it x) as Hu. cbn [edges map In] in Hu.
  assert (In x (edges (update [] it)) <-> In x it) as Hu'.
  { unfold edges at 1. rewrite Hu. tauto. }
  rewrite Hu'. reflexivity.
Qed.

(* ------------------------------------------------------------------ *)
(* comparisons                                                          *)
(* ------------------------------------------------------------------ *)

Lemma forallb_mem_incl (l other : list edge) :
  forallb (fun e => mem_edge e other) l = true <-> incl l other.
Proof.
  rewrite forallb_forall. unfold incl. split.
  - intros H x Hin. apply mem_edge_spec. apply H. exact Hin.
  - intros H x Hin. apply mem_edge_spec. apply H. exact Hin.
Qed.

Lemma edges_length g : length (edges g) = length g.
Proof. unfold edges. apply map_length. Qed.

Theorem le_set_spec g other : CfgInv g -> NoDup other ->
  le_set g other = true <-> incl (edges g) other.
Proof.
  intros [He _] Hnd. unfold le_set. rewrite andb_true_iff, forallb_mem_incl, Nat.leb_le.
  split.
  - intros [_ H]. exact H.
  - intros H. split; [|exact H]. rewrite <- edges_length. apply NoDup_incl_length; assumption.
Qed.

Theorem eq_set_spec g other : CfgInv g -> NoDup other ->
  eq_set g other = true <-> (forall x, In x (edges g) <-> In x other).
Proof.
  intros Hinv Hnd. unfold eq_set. rewrite andb_true_iff, (le_set_spec g other Hinv Hnd), Nat.eqb_eq.
  destruct Hinv as [He _]. split.
  - intros [Hlen Hincl] x. split; [apply Hincl|].
    revert x. apply (NoDup_length_incl He); [|exact Hincl]. rewrite edges_length. lia.
  - intros H.
    assert (incl (edges g) other) as H1 by (intros x Hx; apply H; exact Hx).
    assert (incl other (edges g)) as H2 by (intros x Hx; apply H; exact Hx).
    split; [|exact H1].
    pose proof (NoDup_incl_length He H1) as L1. pose proof (NoDup_incl_length Hnd H2) as L2.
    rewrite edges_length in L1, L2. lia.
Qed.

Theorem isdisjoint_spec g other :
  isdisjoint g other = true <-> (forall x, In x other -> ~ In x (edges g)).
Proof.
  unfold isdisjoint. rewrite forallb_forall. split.
  - intros H x Hin. apply contains_false. specialize (H x Hin).
    destruct (contains g x); [discriminate H | reflexivity].
  - intros H x Hin. apply H in Hin. apply contains_false in Hin. rewrite Hin. reflexivity.
Qed.

(* ------------------------------------------------------------------ *)
(* steps and histories                                                  *)
(* ------------------------------------------------------------------ *)

(* the set a successful step produces, as a predicate over the set before *)
Definition cop_post (o : cop) (S : edge -> Prop) (x : edge) : Prop :=
  match o with
  | CAdd e => S x \/ x = e
  | CDiscard e => S x /\ x <> e
  | CRemove e => S x /\ x <> e
  | CPop (Some e) => S x /\ x <> e
  | CPop None => False
  | CClear => False
  | CUpdate es => S x \/ In x es
  | CIor es => S x \/ In x es
  | CIand es => S x /\ In x es
  | CIsub es => S x /\ ~ In x es
  | CIxor es => (S x /\ ~ In x es) \/ (~ S x /\ In x es)
  end.

(* the error a step raises, if any, as a function of the set before *)
Definition cop_fails (o : cop) (g : graph) (er : err) : Prop :=
  match o with
  | CRemove e => ~ In e (edges g) /\ er = EKey
  | CPop w => (g = [] /\ er = EKey) \/
              (g <> [] /\ er = EImpossible /\ match w with Some e => ~ In e (edges g) | None => True end)
  | _ => False
  end.

Theorem cstep_ok g o g' : CfgInv g -> cstep g o = Ok g' ->
  CfgInv g' /\ forall x, In x (edges g') <-> cop_post o (fun y => In y (edges g)) x.
Proof.
  intros Hinv. destruct o as [e|e|e|w| |es|es|es|es|es]; cbn [cstep cop_post].
  - intros H. inversion H. subst g'. split; [apply add_inv; exact Hinv | apply add_spec].
  - intros H. inversion H. subst g'. split; [apply discard_inv; exact Hinv | apply discard_spec; exact Hinv].
  - intros H. apply (remove_ok g e g' Hinv) in H. destruct H as [_ [_ [H1 [H2 _]]]]. split; assumption.
  - destruct g as [|m g0]; [intros H; discriminate H|].
    destruct w as [e|]; [|intros H; discriminate H].
    destruct (contains (m :: g0) e) eqn:C; intros H; [|discriminate H].
    inversion H. subst g'. split; [apply discard_inv; exact Hinv | apply discard_spec; exact Hinv].
  - intros H. inversion H. subst g'. split; [apply clear_inv|]. intros x. cbn. tauto.
  - intros H. inversion H. subst g'. split; [apply update_inv; exact Hinv | apply update_spec].
  - intros H. inversion H. subst g'. split; [apply ior_inv; exact Hinv | apply ior_spec].
  - intros H. inversion H. subst g'. split; [apply iand_inv; exact Hinv | apply iand_spec; exact Hinv].
  - intros H. inversion H. subst g'. split; [apply isub_inv; exact Hinv | apply isub_spec; exact Hinv].
  - intros H. inversion H. subst g'. split; [apply ixor_inv; exact Hinv | apply ixor_spec; exact Hinv].
Qed.

Theorem cstep_err g o er : cstep g o = Err er <-> cop_fails o g er.
Proof.
  destruct o as [e|e|e|w| |es|es|es|es|es]; cbn [cstep cop_fails];
    try (split; [intros H; discriminate H | intros H; destruct H]).
  - unfold remove. destruct (contains g e) eqn:C.
    + apply contains_spec in C. split; [intros H; discriminate H | intros [H _]; contradiction].
    + apply contains_false in C. split.
      * intros H. inversion H. auto.
      * intros [_ ->]. reflexivity.
  - destruct g as [|m g0].
    + split.
      * intros H. inversion H. left. auto.
      * intros [[_ ->]|[H _]]; [reflexivity | congruence].
    + destruct w as [e|].
      * destruct (contains (m :: g0) e) eqn:C.
        -- apply contains_spec in C. split; [intros H; discriminate H|].
           intros [[H _]|[_ [_ H]]]; [discriminate H | contradiction].
        -- apply contains_false in C. split.
           ++ intros H. inversion H. right. split; [discriminate|]. auto.
           ++ intros [[H _]|[_ [-> _]]]; [discriminate H | reflexivity].
      * split.
        -- intros H. inversion H. right. split; [discriminate|]. auto.
        -- intros [[H _]|[_ [-> _]]]; [discriminate H | reflexivity].
Qed.

(* per-constructor summary *)
Theorem cstep_spec g o : CfgInv g ->
  match o with
  | CAdd e => cstep g o = Ok (add g e) /\ CfgInv (add g e) /\
              (forall x, In x (edges (add g e)) <-> In x (edges g) \/ x = e) /\
              len (add g e) = (if contains g e then len g else len g + 1)
  | CDiscard e => cstep g o = Ok (discard g e) /\ CfgInv (discard g e) /\
              (forall x, In x (edges (discard g e)) <-> In x (edges g) /\ x <> e) /\
              len (discard g e) = (if contains g e then len g - 1 else len g)
  | CRemove e => if contains g e
                 then cstep g o = Ok (discard g e) /\ CfgInv (discard g e) /\
                      (forall x, In x (edges (discard g e)) <-> In x (edges g) /\ x <> e) /\
                      len (discard g e) = len g - 1
                 else cstep g o = Err EKey
  | CPop w => match g with
              | [] => cstep g o = Err EKey
              | _ :: _ => match w with
                          | Some e => if contains g e
                                      then cstep g o = Ok (discard g e) /\ CfgInv (discard g e) /\
                                           (forall x, In x (edges (discard g e)) <-> In x (edges g) /\ x <> e) /\
                                           len (discard g e) = len g - 1
                                      else cstep g o = Err EImpossible
                          | None => cstep g o = Err EImpossible
                          end
              end
  | CClear => cstep g o = Ok [] 
  | CUpdate es => cstep g o = Ok (update g es) /\ CfgInv (update g es) /\
              (forall x, In x (edges (update g es)) <-> In x (edges g) \/ In x es)
  | CIor es => cstep g o = Ok (ior g es) /\ CfgInv (ior g es) /\
              (forall x, In x (edges (ior g es)) <-> In x (edges g) \/ In x es)
  | CIand es => cstep g o = Ok (iand g es) /\ CfgInv (iand g es) /\
              (forall x, In x (edges (iand g es)) <-> In x (edges g) /\ In x es)
  | CIsub es => cstep g o = Ok (isub g es) /\ CfgInv (isub g es) /\
              (forall x, In x (edges (isub g es)) <-> In x (edges g) /\ ~ In x es)
  | CIxor es => cstep g o = Ok (ixor g es) /\ CfgInv (ixor g es) /\
              (forall x, In x (edges (ixor g es)) <->
                         (In x (edges g) /\ ~ In x es) \/ (~ In x (edges g) /\ In x es))
  end.
Proof.
  intros Hinv. destruct o as [e|e|e|w| |es|es|es|es|es]; cbn [cstep].
  - split; [reflexivity|]. split; [apply add_inv; exact Hinv|]. split; [apply add_spec|].
    destruct (contains g e) eqn:C; [apply len_add_present | apply len_add_absent]; exact C.
  - split; [reflexivity|]. split; [apply discard_inv; exact Hinv|].
    split; [apply discard_spec; exact Hinv|].
    destruct (contains g e) eqn:C; [apply len_discard_present | apply len_discard_absent]; assumption.
  - unfold remove. destruct (contains g e) eqn:C; [|reflexivity].
    split; [reflexivity|]. split; [apply discard_inv; exact Hinv|].
    split; [apply discard_spec; exact Hinv|]. apply len_discard_present; assumption.
  - destruct g as [|m g0]; [reflexivity|]. destruct w as [e|]; [|reflexivity].
    destruct (contains (m :: g0) e) eqn:C; [|reflexivity].
    split; [reflexivity|]. split; [apply discard_inv; exact Hinv|].
    split; [apply discard_spec; exact Hinv|]. apply len_discard_present; assumption.
  - reflexivity.
  - split; [reflexivity|]. split; [apply update_inv; exact Hinv | apply update_spec].
  - split; [reflexivity|]. split; [apply ior_inv; exact Hinv | apply ior_spec].
  - split; [reflexivity|]. split; [apply iand_inv; exact Hinv | apply iand_spec; exact Hinv].
  - split; [reflexivity|]. split; [apply isub_inv; exact Hinv | apply isub_spec; exact Hinv].
  - split; [reflexivity|]. split; [apply ixor_inv; exact Hinv | apply ixor_spec; exact Hinv].
Qed.

(* the model's pop() is an instance of CPop with the first edge as witness *)
Theorem pop_is_cpop g : g <> [] ->
  exists e g', pop g = Ok (g', e) /\ cstep g (CPop (Some e)) = Ok g'.
Proof.
  destruct g as [|m g0]; intros H; [congruence|].
  exists (triple m), (discard (m :: g0) (triple m)). split; [reflexivity|].
  cbn [cstep]. assert (contains (m :: g0) (triple m) = true) as C.
  { apply contains_spec. left. reflexivity. }
  rewrite C. reflexivity.
Qed.

Theorem cstep'_inv g o : CfgInv g -> CfgInv (cstep' g o).
Proof.
  intros Hinv. unfold cstep'. destruct (cstep g o) as [g'|er] eqn:E; [|exact Hinv].
  exact (proj1 (cstep_ok g o g' Hinv E)).
Qed.

Lemma fold_cstep'_inv ops : forall g, CfgInv g -> CfgInv (fold_left cstep' ops g).
Proof.
  induction ops as [|o ops IH]; intros g Hinv; cbn [fold_left]; [exact Hinv|].
  apply IH. apply cstep'_inv. exact Hinv.
Qed.

Theorem crun_inv : forall ops, CfgInv (crun ops).
Proof. intros ops. unfold crun. apply fold_cstep'_inv. apply CfgInv_nil. Qed.

Theorem crun_snoc ops o : crun (ops ++ [o]) = cstep' (crun ops) o.
Proof. unfold crun. rewrite fold_left_app. reflexivity. Qed.

Theorem node_out_spec cfg_of ir_of_node n :
  node_out cfg_of ir_of_node n =
  match ir_of_node with Some ir => out_edges (cfg_of ir) n | None => [] end.
Proof. reflexivity. Qed.

Theorem node_in_spec cfg_of ir_of_node n :
  node_in cfg_of ir_of_node n =
  match ir_of_node with Some ir => in_edges (cfg_of ir) n | None => [] end.
Proof. reflexivity. Qed.

(* a concrete instance, computed: parallel edges with different labels, a self-loop in both views *)
Example cfg_example :
  let g := crun [CAdd (1, 2, None); CAdd (1, 2, Some (0, true, false)); CAdd (1, 2, None); CAdd (2, 2, None)] in
  len g = 3 /\ out_edges g 1 = [(1, 2, None); (1, 2, Some (0, true, false))] /\
  out_edges g 2 = [(2, 2, None)] /\ in_edges g 2 = [(1, 2, None); (1, 2, Some (0, true, false)); (2, 2, None)] /\
  edges (discard g (1, 2, None)) = [(1, 2, Some (0, true, false)); (2, 2, None)].
Proof. vm_compute. repeat split. Qed.

Print Assumptions edge_eqb_spec.
Print Assumptions contains_spec.
Print Assumptions add_inv.
Print Assumptions add_spec.
Print Assumptions add_present.
Print Assumptions discard_inv.
Print Assumptions discard_spec.
Print Assumptions discard_absent.
Print Assumptions len_spec.
Print Assumptions len_add_absent.
Print Assumptions len_discard_present.
Print Assumptions parallel_edges.
Print Assumptions parallel_discard_other.
Print Assumptions parallel_discard.
Print Assumptions out_edges_spec.
Print Assumptions in_edges_spec.
Print Assumptions out_edges_NoDup.
Print Assumptions in_edges_NoDup.
Print Assumptions self_loop_both.
Print Assumptions edge_views.
Print Assumptions node_out_spec.
Print Assumptions node_in_spec.
Print Assumptions remove_spec.
Print Assumptions remove_err.
Print Assumptions remove_ok.
Print Assumptions pop_empty.
Print Assumptions pop_err.
Print Assumptions pop_ok.
Print Assumptions update_inv.
Print Assumptions update_spec.
Print Assumptions ior_inv.
Print Assumptions ior_spec.
Print Assumptions isub_inv.
Print Assumptions isub_spec.
Print Assumptions iand_inv.
Print Assumptions iand_spec.
Print Assumptions ixor_inv.
Print Assumptions ixor_spec.
Print Assumptions clear_edges.
Print Assumptions clear_inv.
Print Assumptions le_set_spec.
Print Assumptions eq_set_spec.
Print Assumptions isdisjoint_spec.
Print Assumptions cstep_ok.
Print Assumptions cstep_err.
Print Assumptions cstep_spec.
Print Assumptions pop_is_cpop.
Print Assumptions crun_inv.
