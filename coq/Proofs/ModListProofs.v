(* Task F2: Forest and UUID-table invariants for the module-list operations. *)
From Coq Require Import ZArith List Bool Lia Arith.
From V Require Import Result LazyTree World WorldGuard ForestDefs InvDefs ModListBase.
From V Require SeqOps SeqOpsProofs.
Import ListNotations.
Open Scope Z_scope.

(* the content of CacheInv for one IR *)
Definition CacheOK (w : world) (ir : id) : Prop :=
  NoDup (map fst (cache w ir)) /\
  forall u n, dict_get Z.eqb u (cache w ir) = Some n <-> In n (reach w ir) /\ nuuid (getn w n) = u.

(* ---------- chains: comparability ---------- *)

Lemma upn_comparable w : forall d n a e b, upn w d n a -> upn w e n b -> desc w a b \/ desc w b a.
Proof.
  induction d as [|d IH]; intros n a e b Ha Hb.
  - cbn in Ha. subst. right. exists e. exact Hb.
  - destruct Ha as [p [Hp Ha]]. destruct e as [|e].
    + cbn in Hb. subst. left. exists (S d). exists p. split; assumption.
    + destruct Hb as [p' [Hp' Hb]]. rewrite Hp in Hp'. inversion Hp'. subst p'. eapply IH; eassumption.
Qed.

Lemma two_ir_roots w known a b n : Forest w known -> kindof w a = KIR -> kindof w b = KIR -> desc w a n -> desc w b n -> a = b.
Proof.
  intros F Ka Kb [d Hd] [e He]. destruct (upn_comparable w d n a e b Hd He) as [[k Hk]|[k Hk]].
  - symmetry. eapply upn_from_ir; eassumption.
  - eapply upn_from_ir; eassumption.
Qed.

(* transfer of the cache property of one IR between two worlds *)
Lemma cache_frame w known w' known' ir :
  Forest w known -> Forest w' known' -> CacheOK w ir ->
  cache w' ir = cache w ir ->
  (forall n, desc w' ir n <-> desc w ir n) ->
  (forall n, desc w ir n -> nuuid (getn w' n) = nuuid (getn w n)) ->
  CacheOK w' ir.
Proof.
  intros F F' [Hn Hg] Hc Hd Hu. unfold CacheOK. rewrite Hc. split; [exact Hn|].
  intros u n. rewrite Hg. rewrite (reach_char w known ir n F), (reach_char w' known' ir n F'). rewrite Hd.
  split; intros [H1 H2]; (split; [exact H1|]).
  - rewrite Hu; assumption.
  - rewrite <- Hu; assumption.
Qed.

(* ================================================================== *)
(* detach: ml_remove_hook + deletion of v from ir's list               *)
(* ================================================================== *)

Definition detach (w : world) (ir v : id) : world :=
  with_kids (fst (ml_remove_hook w ir v)) ir (remove_id v (kids w ir)).

Lemma nodes_remove_hook w ir v x :
  nodes (fst (ml_remove_hook w ir v)) x = if x =? v then Some (with_par (getn w v) None) else nodes w x.
Proof. reflexivity. Qed.

Lemma kids_remove_hook w ir v : kids (fst (ml_remove_hook w ir v)) = kids w.
Proof. reflexivity. Qed.

Definition uuids (w : world) (l : list id) : list Z := map (fun y => nuuid (getn w y)) l.

Lemma cache_remove_hook w ir v x :
  cache (fst (ml_remove_hook w ir v)) x =
  upd (cache w) ir (fold_left (fun d u => dict_del Z.eqb u d) (uuids w (subtree w v)) (cache w ir)) x.
Proof.
  unfold ml_remove_hook. rewrite cache_cache_remove. rewrite subtree_set_par, cache_set_par. unfold uuids.
  rewrite (map_ext (fun y => nuuid (getn (set_par w v None) y)) (fun y => nuuid (getn w y))); [reflexivity|].
  intro y. apply nuuid_set_par.
Qed.

Lemma snd_remove_hook w ir v :
  snd (ml_remove_hook w ir v) = forallb (fun u => dict_has Z.eqb u (cache w ir)) (uuids w (subtree w v)).
Proof.
  unfold ml_remove_hook. rewrite snd_cache_remove. rewrite subtree_set_par, cache_set_par. unfold uuids.
  rewrite (map_ext (fun y => nuuid (getn (set_par w v None) y)) (fun y => nuuid (getn w y))); [reflexivity|].
  intro y. apply nuuid_set_par.
Qed.

Lemma getn_remove_hook w ir v x : getn (fst (ml_remove_hook w ir v)) x = if x =? v then with_par (getn w v) None else getn w x.
Proof. unfold getn. rewrite nodes_remove_hook. destruct (x =? v); reflexivity. Qed.

Lemma par_remove_hook w ir v x : par (fst (ml_remove_hook w ir v)) x = if x =? v then None else par w x.
Proof. unfold par. rewrite getn_remove_hook. destruct (x =? v); reflexivity. Qed.

Lemma kindof_remove_hook w ir v x : kindof (fst (ml_remove_hook w ir v)) x = kindof w x.
Proof. unfold kindof. rewrite getn_remove_hook. destruct (Z.eqb_spec x v) as [E|E]; [subst|]; reflexivity. Qed.

Lemma nuuid_remove_hook w ir v x : nuuid (getn (fst (ml_remove_hook w ir v)) x) = nuuid (getn w x).
Proof. rewrite getn_remove_hook. destruct (Z.eqb_spec x v) as [E|E]; [subst|]; reflexivity. Qed.

Lemma has_remove_hook w ir v x : has w v = true -> has (fst (ml_remove_hook w ir v)) x = has w x.
Proof.
  intro H. unfold has in *. rewrite nodes_remove_hook. destruct (Z.eqb_spec x v) as [E|E]; [subst|reflexivity].
  symmetry. exact H.
Qed.

(* the same for detach (with_kids does not touch nodes) *)
Lemma nodes_detach w ir v x : nodes (detach w ir v) x = if x =? v then Some (with_par (getn w v) None) else nodes w x.
Proof. reflexivity. Qed.
Lemma kids_detach w ir v x : kids (detach w ir v) x = upd (kids w) ir (remove_id v (kids w ir)) x.
Proof. reflexivity. Qed.
Lemma kids_detach_same w ir v : kids (detach w ir v) ir = remove_id v (kids w ir).
Proof. rewrite kids_detach. apply upd_same. Qed.
Lemma kids_detach_other w ir v x : x <> ir -> kids (detach w ir v) x = kids w x.
Proof. intro H. rewrite kids_detach. apply upd_other. exact H. Qed.
Lemma cache_detach w ir v x :
  cache (detach w ir v) x =
  upd (cache w) ir (fold_left (fun d u => dict_del Z.eqb u d) (uuids w (subtree w v)) (cache w ir)) x.
Proof. unfold detach. rewrite cache_with_kids. apply cache_remove_hook. Qed.
Lemma getn_detach w ir v x : getn (detach w ir v) x = if x =? v then with_par (getn w v) None else getn w x.
Proof. unfold detach. rewrite getn_with_kids. apply getn_remove_hook. Qed.
Lemma par_detach w ir v x : par (detach w ir v) x = if x =? v then None else par w x.
Proof. unfold detach. rewrite par_with_kids. apply par_remove_hook. Qed.
Lemma par_detach_other w ir v x : x <> v -> par (detach w ir v) x = par w x.
Proof. intro H. rewrite par_detach. destruct (Z.eqb_spec x v); [contradiction|reflexivity]. Qed.
Lemma par_detach_same w ir v : par (detach w ir v) v = None.
Proof. rewrite par_detach, Z.eqb_refl. reflexivity. Qed.
Lemma kindof_detach w ir v x : kindof (detach w ir v) x = kindof w x.
Proof. unfold detach. rewrite kindof_with_kids. apply kindof_remove_hook. Qed.
Lemma nuuid_detach w ir v x : nuuid (getn (detach w ir v) x) = nuuid (getn w x).
Proof. unfold detach. rewrite getn_with_kids. apply nuuid_remove_hook. Qed.
Lemma has_detach w ir v x : has w v = true -> has (detach w ir v) x = has w x.
Proof. intro H. unfold detach. rewrite has_with_kids. apply has_remove_hook. exact H. Qed.

Lemma detach_forest w known ir v :
  Forest w known -> In v (kids w ir) -> Forest (detach w ir v) known.
Proof.
  intros F Hv.
  assert (Hp : par w v = Some ir) by (apply (f_two_ended w known F); exact Hv).
  assert (Hh : has w v = true) by (apply (f_kind w known F ir v Hp)).
  constructor.
  - intro n. rewrite (has_detach w ir v n Hh). apply (f_known w known F).
  - intros p c. rewrite par_detach. destruct (Z.eqb_spec p ir) as [E|E].
    + subst p. rewrite kids_detach_same, In_remove_id, (f_two_ended w known F).
      destruct (Z.eqb_spec c v) as [E1|E1]; split.
      * intros [_ H]. contradiction.
      * discriminate.
      * intros [H _]. exact H.
      * intro H. split; assumption.
    + rewrite (kids_detach_other w ir v p E), (f_two_ended w known F).
      destruct (Z.eqb_spec c v) as [E1|E1]; [|tauto]. subst c. rewrite Hp. split; [|discriminate].
      intro H. inversion H. congruence.
  - intro p. destruct (Z.eqb_spec p ir) as [E|E].
    + subst p. rewrite kids_detach_same. apply NoDup_remove_id. apply (f_nodup w known F).
    + rewrite (kids_detach_other w ir v p E). apply (f_nodup w known F).
  - intros p c. rewrite par_detach. destruct (Z.eqb_spec c v) as [E1|E1]; [discriminate|]. intro H.
    rewrite !(has_detach w ir v _ Hh), !kindof_detach. apply (f_kind w known F). exact H.
  - intros a b Ha Hb. rewrite !nuuid_detach. apply (f_uuid w known F); assumption.
Qed.

(* chains in the detached world *)
Lemma detach_upn_old w ir v : forall d n r, upn (detach w ir v) d n r -> upn w d n r.
Proof.
  induction d as [|d IH]; intros n r H; [exact H|].
  destruct H as [p [Hp Hu]]. rewrite par_detach in Hp.
  destruct (n =? v); [discriminate|]. exists p. split; [exact Hp|]. apply IH. exact Hu.
Qed.

Lemma detach_upn_new w ir v : forall d n r, upn w d n r -> ~ desc w v n -> upn (detach w ir v) d n r.
Proof.
  induction d as [|d IH]; intros n r H Hn; [exact H|].
  destruct H as [p [Hp Hu]]. exists p. split.
  - rewrite par_detach_other; [exact Hp|]. intro E. subst. apply Hn. apply desc_refl.
  - apply IH; [exact Hu|]. intro Hd. apply Hn. eapply desc_step; eassumption.
Qed.

(* a chain of the new world that starts below v cannot leave v's subtree *)
Lemma detach_upn_stuck w ir v : forall e n d r, upn w e n v -> upn (detach w ir v) d n r -> desc w v r.
Proof.
  induction e as [|e IH]; intros n d r He Hd.
  - cbn in He. subst n. destruct d as [|d].
    + cbn in Hd. subst. apply desc_refl.
    + destruct Hd as [p [Hp _]]. rewrite par_detach_same in Hp. discriminate.
  - destruct He as [p [Hp He]]. destruct d as [|d].
    + cbn in Hd. subst r. exists (S e). exists p. split; assumption.
    + destruct Hd as [p' [Hp' Hd]]. rewrite par_detach in Hp'.
      destruct (n =? v); [discriminate|]. rewrite Hp in Hp'. inversion Hp'. subst p'. eapply IH; eassumption.
Qed.

Lemma detach_inv w known ir v :
  Forest w known -> CacheInv w -> has w ir = true -> kindof w ir = KIR -> In v (kids w ir) ->
  Forest (detach w ir v) known /\ CacheInv (detach w ir v) /\ snd (ml_remove_hook w ir v) = true.
Proof.
  intros F C Hir Kir Hv.
  assert (Hp : par w v = Some ir) by (apply (f_two_ended w known F); exact Hv).
  destruct (child_of_ir_is_mod w known ir v F Kir Hp) as [Kv Hhv].
  assert (Hne : v <> ir) by (intro E; subst; congruence).
  assert (F' : Forest (detach w ir v) known) by (apply detach_forest; assumption).
  assert (Hnd : ~ desc w v ir).
  { intros [d Hd]. destruct d as [|d]; [cbn in Hd; congruence|]. destruct Hd as [p [Hpp _]].
    rewrite (ir_no_parent w known ir F Kir) in Hpp. discriminate. }
  split; [exact F'|]. split.
  - intros ir' Hh' Hk'. rewrite (has_detach w ir v ir' Hhv) in Hh'. rewrite kindof_detach in Hk'.
    destruct (C ir' Hh' Hk') as [Hn Hg].
    destruct (Z.eqb_spec ir' ir) as [E|E].
    + subst ir'. rewrite cache_detach, upd_same. split; [apply dict_fold_del_nodup; exact Hn|].
      intros u n. rewrite dict_get_fold_del. rewrite (reach_char _ known ir n F'). rewrite nuuid_detach.
      destruct (mem u (uuids w (subtree w v))) eqn:Em.
      * split; [discriminate|]. intros [[d Hd] Hu]. exfalso.
        apply mem_In in Em. unfold uuids in Em. apply in_map_iff in Em. destruct Em as [m [Hm1 Hm2]].
        apply (subtree_char w known v m F) in Hm2.
        assert (Hdn : desc w ir n) by (exists d; eapply detach_upn_old; exact Hd).
        assert (m = n).
        { apply (f_uuid w known F).
          - apply (f_known w known F). exact (desc_has w known v m F Hhv Hm2).
          - apply (f_known w known F). exact (desc_has w known ir n F Hir Hdn).
          - congruence. }
        subst m. destruct Hm2 as [e He]. apply Hnd. eapply detach_upn_stuck; eassumption.
      * rewrite Hg. rewrite (reach_char w known ir n F). split; intros [[d Hd] Hu]; (split; [|exact Hu]).
        -- exists d. apply detach_upn_new; [exact Hd|]. intro Hdv. apply mem_false in Em. apply Em.
           unfold uuids. apply in_map_iff. exists n. split; [exact Hu|]. apply (subtree_char w known v n F). exact Hdv.
        -- exists d. eapply detach_upn_old. exact Hd.
    + apply (cache_frame w known (detach w ir v) known ir' F F' (conj Hn Hg)).
      * rewrite cache_detach. apply upd_other. exact E.
      * intro n. split; intros [d Hd].
        -- exists d. eapply detach_upn_old. exact Hd.
        -- exists d. apply detach_upn_new; [exact Hd|]. intro Hdv. apply E.
           apply (two_ir_roots w known ir' ir n F Hk' Kir); [exists d; exact Hd|]. eapply desc_snoc; eassumption.
      * intros n _. apply nuuid_detach.
  - rewrite snd_remove_hook. apply forallb_forall. intros u Hu. unfold uuids in Hu. apply in_map_iff in Hu.
    destruct Hu as [m [Hm1 Hm2]]. apply (subtree_char w known v m F) in Hm2.
    destruct (C ir Hir Kir) as [_ Hg]. unfold dict_has.
    assert (Hgm : dict_get Z.eqb u (cache w ir) = Some m).
    { apply Hg. split; [|exact Hm1]. apply (reach_char w known ir m F). eapply desc_snoc; eassumption. }
    rewrite Hgm. reflexivity.
Qed.

(* ================================================================== *)
(* attach: v has no owner; set its owner, add its UUIDs, put it in L  *)
(* ================================================================== *)

Definition attach (w : world) (ir v : id) (L : list id) : world :=
  with_kids (cache_add (set_par w v (Some ir)) ir v) ir L.

Lemma nodes_attach w ir v L x : nodes (attach w ir v L) x = if x =? v then Some (with_par (getn w v) (Some ir)) else nodes w x.
Proof. reflexivity. Qed.
Lemma kids_attach w ir v L x : kids (attach w ir v L) x = upd (kids w) ir L x.
Proof. reflexivity. Qed.
Lemma kids_attach_same w ir v L : kids (attach w ir v L) ir = L.
Proof. rewrite kids_attach. apply upd_same. Qed.
Lemma kids_attach_other w ir v L x : x <> ir -> kids (attach w ir v L) x = kids w x.
Proof. intro H. rewrite kids_attach. apply upd_other. exact H. Qed.

Lemma cache_add_set_par w ir v p x :
  cache (cache_add (set_par w v p) ir v) x =
  upd (cache w) ir (fold_left (fun d y => dict_set Z.eqb (nuuid (getn w y)) y d) (subtree w v) (cache w ir)) x.
Proof.
  rewrite cache_cache_add, subtree_set_par, cache_set_par.
  rewrite (fold_left_ext (fun d y => dict_set Z.eqb (nuuid (getn (set_par w v p) y)) y d)
                         (fun d y => dict_set Z.eqb (nuuid (getn w y)) y d)); [reflexivity|].
  intros d y. rewrite nuuid_set_par. reflexivity.
Qed.

Lemma cache_attach w ir v L x :
  cache (attach w ir v L) x =
  upd (cache w) ir (fold_left (fun d y => dict_set Z.eqb (nuuid (getn w y)) y d) (subtree w v) (cache w ir)) x.
Proof. unfold attach. rewrite cache_with_kids. apply cache_add_set_par. Qed.

Lemma getn_attach w ir v L x : getn (attach w ir v L) x = if x =? v then with_par (getn w v) (Some ir) else getn w x.
Proof. unfold getn. rewrite nodes_attach. destruct (x =? v); reflexivity. Qed.
Lemma par_attach w ir v L x : par (attach w ir v L) x = if x =? v then Some ir else par w x.
Proof. unfold par. rewrite getn_attach. destruct (x =? v); reflexivity. Qed.
Lemma par_attach_other w ir v L x : x <> v -> par (attach w ir v L) x = par w x.
Proof. intro H. rewrite par_attach. destruct (Z.eqb_spec x v); [contradiction|reflexivity]. Qed.
Lemma par_attach_same w ir v L : par (attach w ir v L) v = Some ir.
Proof. rewrite par_attach, Z.eqb_refl. reflexivity. Qed.
Lemma kindof_attach w ir v L x : kindof (attach w ir v L) x = kindof w x.
Proof. unfold kindof. rewrite getn_attach. destruct (Z.eqb_spec x v) as [E|E]; [subst|]; reflexivity. Qed.
Lemma nuuid_attach w ir v L x : nuuid (getn (attach w ir v L) x) = nuuid (getn w x).
Proof. rewrite getn_attach. destruct (Z.eqb_spec x v) as [E|E]; [subst|]; reflexivity. Qed.
Lemma has_attach w ir v L x : has w v = true -> has (attach w ir v L) x = has w x.
Proof.
  intro H. unfold has in *. rewrite nodes_attach. destruct (Z.eqb_spec x v) as [E|E]; [subst|reflexivity].
  symmetry. exact H.
Qed.

Lemma attach_forest w known ir v L :
  Forest w known -> has w ir = true -> kindof w ir = KIR -> has w v = true -> kindof w v = KMod -> par w v = None ->
  NoDup L -> (forall x, In x L <-> x = v \/ In x (kids w ir)) ->
  Forest (attach w ir v L) known.
Proof.
  intros F Hir Kir Hv Kv Pv HL HLin. constructor.
  - intro n. rewrite (has_attach w ir v L n Hv). apply (f_known w known F).
  - intros p c. rewrite par_attach. destruct (Z.eqb_spec p ir) as [E|E].
    + subst p. rewrite kids_attach_same, HLin, (f_two_ended w known F).
      destruct (Z.eqb_spec c v) as [E1|E1]; split.
      * reflexivity.
      * intros _. left. exact E1.
      * intros [H|H]; [contradiction|exact H].
      * intro H. right. exact H.
    + rewrite (kids_attach_other w ir v L p E), (f_two_ended w known F).
      destruct (Z.eqb_spec c v) as [E1|E1]; [|tauto]. subst c. rewrite Pv. split; [discriminate|].
      intro H. inversion H. congruence.
  - intro p. destruct (Z.eqb_spec p ir) as [E|E].
    + subst p. rewrite kids_attach_same. exact HL.
    + rewrite (kids_attach_other w ir v L p E). apply (f_nodup w known F).
  - intros p c. rewrite par_attach. rewrite !(has_attach w ir v L _ Hv), !kindof_attach.
    destruct (Z.eqb_spec c v) as [E1|E1].
    + intro H. inversion H. subst. rewrite Kv, Kir. auto.
    + apply (f_kind w known F).
  - intros a b Ha Hb. rewrite !nuuid_attach. apply (f_uuid w known F); assumption.
Qed.

Lemma attach_upn_old w ir v L : par w v = None -> forall d n r, upn w d n r -> upn (attach w ir v L) d n r.
Proof.
  intro Pv. induction d as [|d IH]; intros n r H; [exact H|].
  destruct H as [p [Hp Hu]]. exists p. split; [|apply IH; exact Hu].
  rewrite par_attach_other; [exact Hp|]. intro E. subst. congruence.
Qed.

Lemma attach_upn_new w ir v L : forall d n r,
  upn (attach w ir v L) d n r -> desc w r n \/ (desc w v n /\ exists d', upn (attach w ir v L) d' ir r).
Proof.
  induction d as [|d IH]; intros n r H.
  - cbn in H. subst. left. apply desc_refl.
  - destruct H as [p [Hp Hu]]. rewrite par_attach in Hp. destruct (Z.eqb_spec n v) as [E|E].
    + inversion Hp. subst. right. split; [apply desc_refl|]. exists d. exact Hu.
    + destruct (IH p r Hu) as [H|[H1 H2]].
      * left. eapply desc_step; eassumption.
      * right. split; [|exact H2]. eapply desc_step; eassumption.
Qed.

Lemma attach_desc_v w ir v L n : par w v = None -> desc w v n -> desc (attach w ir v L) ir n.
Proof.
  intros Pv [e He]. exists (S e). apply upn_snoc. exists v. split; [apply attach_upn_old; assumption|].
  apply par_attach_same.
Qed.

Lemma attach_inv w known ir v L :
  Forest w known -> CacheInv w -> has w ir = true -> kindof w ir = KIR -> has w v = true -> kindof w v = KMod -> par w v = None ->
  NoDup L -> (forall x, In x L <-> x = v \/ In x (kids w ir)) ->
  Forest (attach w ir v L) known /\ CacheInv (attach w ir v L).
Proof.
  intros F C Hir Kir Hv Kv Pv HL HLin.
  assert (F' : Forest (attach w ir v L) known) by (apply attach_forest; assumption).
  assert (Hne : v <> ir) by (intro E; subst; congruence).
  split; [exact F'|].
  intros ir' Hh' Hk'. rewrite (has_attach w ir v L ir' Hv) in Hh'. rewrite kindof_attach in Hk'.
  destruct (C ir' Hh' Hk') as [Hn Hg].
  destruct (Z.eqb_spec ir' ir) as [E|E].
  - subst ir'. rewrite cache_attach, upd_same. split; [apply dict_fold_set_nodup; exact Hn|].
    intros u n. rewrite (reach_char _ known ir n F'), nuuid_attach.
    rewrite (dict_get_fold_set (fun y => nuuid (getn w y))).
    2:{ intros a b Ha Hb. apply (f_uuid w known F); apply (f_known w known F).
        - apply (desc_has w known v a F Hv). apply (subtree_char w known v a F). exact Ha.
        - apply (desc_has w known v b F Hv). apply (subtree_char w known v b F). exact Hb. }
    split.
    + intros [[H1 H2]|[H1 H2]].
      * split; [|exact H2]. apply attach_desc_v; [exact Pv|]. apply (subtree_char w known v n F). exact H1.
      * apply Hg in H1. destruct H1 as [H1 H3]. split; [|exact H3].
        apply (reach_char w known ir n F) in H1. destruct H1 as [d Hd]. exists d. apply attach_upn_old; assumption.
    + intros [[d Hd] Hu]. destruct (in_dec Z.eq_dec n (subtree w v)) as [Hi|Hi]; [left; split; assumption|].
      right. assert (Hdn : desc w ir n).
      { destruct (attach_upn_new w ir v L d n ir Hd) as [H|[H _]]; [exact H|].
        exfalso. apply Hi. apply (subtree_char w known v n F). exact H. }
      split.
      * apply Hg. split; [|exact Hu]. apply (reach_char w known ir n F). exact Hdn.
      * intros x Hx Hux. apply Hi. assert (x = n); [|subst; exact Hx].
        apply (f_uuid w known F); [| |congruence]; apply (f_known w known F).
        -- apply (desc_has w known v x F Hv). apply (subtree_char w known v x F). exact Hx.
        -- apply (desc_has w known ir n F Hir Hdn).
  - apply (cache_frame w known (attach w ir v L) known ir' F F' (conj Hn Hg)).
    + rewrite cache_attach. apply upd_other. exact E.
    + intro n. split; intros [d Hd].
      * destruct (attach_upn_new w ir v L d n ir' Hd) as [H|[_ [d' H]]]; [exact H|].
        exfalso. apply E. symmetry. apply (upn_from_ir _ known ir ir' d' F'); [|exact H]. rewrite kindof_attach. exact Kir.
      * exists d. apply attach_upn_old; assumption.
    + intros n _. apply nuuid_attach.
Qed.

(* ================================================================== *)
(* ONew                                                                *)
(* ================================================================== *)

Definition new_node k u a s f nm p : node :=
  {| nk := k; nuuid := u; npar := None; naddr := a; nsize := s; noff := f; nname := nm; npay := p |}.

Definition new_world (w : world) n k u a s f nm p : world :=
  let w1 := setn w n (new_node k u a s f nm p) in
  match k with KIR => set_cache w1 (upd (cache w1) n [(u, n)]) | _ => w1 end.

Lemma step_new w n k u a s f nm p : step w (ONew n k u a s f nm p) = Ok (new_world w n k u a s f nm p).
Proof. reflexivity. Qed.

Lemma nodes_new w n k u a s f nm p x :
  nodes (new_world w n k u a s f nm p) x = if x =? n then Some (new_node k u a s f nm p) else nodes w x.
Proof. unfold new_world. destruct k; reflexivity. Qed.

Lemma kids_new w n k u a s f nm p x : kids (new_world w n k u a s f nm p) x = kids w x.
Proof. unfold new_world. destruct k; reflexivity. Qed.

Lemma cache_new_ir w n u a s f nm p x :
  cache (new_world w n KIR u a s f nm p) x = if x =? n then [(u, n)] else cache w x.
Proof. reflexivity. Qed.

Lemma cache_new_other w n k u a s f nm p x : x <> n -> cache (new_world w n k u a s f nm p) x = cache w x.
Proof.
  intro H. unfold new_world. destruct k; try reflexivity.
  cbn [cache set_cache]. apply upd_other. exact H.
Qed.

Lemma getn_new w n k u a s f nm p x :
  getn (new_world w n k u a s f nm p) x = if x =? n then new_node k u a s f nm p else getn w x.
Proof. unfold getn. rewrite nodes_new. destruct (x =? n); reflexivity. Qed.

Lemma par_new w n k u a s f nm p x : has w n = false -> par (new_world w n k u a s f nm p) x = par w x.
Proof.
  intro H. unfold par at 1. rewrite getn_new. destruct (Z.eqb_spec x n) as [E|E]; [|reflexivity].
  subst. cbn. symmetry. apply par_nohas. exact H.
Qed.

Lemma has_new w n k u a s f nm p x : has (new_world w n k u a s f nm p) x = (x =? n) || has w x.
Proof. unfold has. rewrite nodes_new. destruct (x =? n); reflexivity. Qed.

Lemma kindof_new_other w n k u a s f nm p x : x <> n -> kindof (new_world w n k u a s f nm p) x = kindof w x.
Proof. intro H. unfold kindof. rewrite getn_new. destruct (Z.eqb_spec x n); [contradiction|reflexivity]. Qed.

Lemma upn_par_ext w w' : (forall x, par w' x = par w x) -> forall d n r, upn w' d n r <-> upn w d n r.
Proof.
  intro H. induction d as [|d IH]; intros n r; [reflexivity|]. cbn [upn]. split; intros [p [Hp Hu]]; exists p.
  - rewrite <- H. split; [exact Hp|apply IH; exact Hu].
  - rewrite H. split; [exact Hp|apply IH; exact Hu].
Qed.

Lemma desc_par_ext w w' : (forall x, par w' x = par w x) -> forall r n, desc w' r n <-> desc w r n.
Proof. intros H r n. unfold desc. split; intros [d Hd]; exists d; apply (upn_par_ext w w' H); exact Hd. Qed.

Lemma uuid_fresh_spec w known u : uuid_fresh w known u = true -> forall x, In x known -> nuuid (getn w x) <> u.
Proof.
  unfold uuid_fresh. rewrite forallb_forall. intros H x Hx. specialize (H x Hx).
  apply negb_true_iff in H. apply Z.eqb_neq. exact H.
Qed.

Lemma new_inv w known n k u a s f nm p :
  Forest w known -> CacheInv w -> has w n = false -> ~ In n known -> uuid_fresh w known u = true ->
  Forest (new_world w n k u a s f nm p) (n :: known) /\ CacheInv (new_world w n k u a s f nm p).
Proof.
  intros F C Hn Hk Hu. set (w' := new_world w n k u a s f nm p).
  assert (Hpar : forall x, par w' x = par w x) by (intro x; apply par_new; exact Hn).
  assert (F' : Forest w' (n :: known)).
  { constructor.
    - intro x. unfold w'. rewrite has_new. cbn [In]. rewrite <- (f_known w known F).
      destruct (Z.eqb_spec x n) as [E|E]; cbn [orb].
      + split; [intros _; left; congruence|reflexivity].
      + split; [intro H; right; exact H|intros [H|H]; [congruence|exact H]].
    - intros q c. rewrite Hpar. unfold w'. rewrite kids_new. apply (f_two_ended w known F).
    - intro q. unfold w'. rewrite kids_new. apply (f_nodup w known F).
    - intros q c. rewrite Hpar. intro H. destruct (f_kind w known F q c H) as [H1 [H2 H3]].
      assert (c <> n) by (intro; subst; congruence). assert (q <> n) by (intro; subst; congruence).
      unfold w'. rewrite !has_new, !kindof_new_other by assumption. rewrite H1, H2, !orb_true_r. auto.
    - intros x y Hx Hy. unfold w'. rewrite !getn_new.
      destruct (Z.eqb_spec x n) as [E1|E1]; destruct (Z.eqb_spec y n) as [E2|E2].
      + congruence.
      + cbn. intro H. exfalso. destruct Hy as [Hy|Hy]; [congruence|].
        apply (uuid_fresh_spec w known u Hu y Hy). symmetry. exact H.
      + cbn. intro H. exfalso. destruct Hx as [Hx|Hx]; [congruence|].
        apply (uuid_fresh_spec w known u Hu x Hx). exact H.
      + destruct Hx as [Hx|Hx]; [congruence|]. destruct Hy as [Hy|Hy]; [congruence|].
        apply (f_uuid w known F); assumption. }
  split; [exact F'|].
  intros ir Hh Hki. destruct (Z.eqb_spec ir n) as [E|E].
  - subst ir. assert (k = KIR).
    { unfold w', kindof in Hki. rewrite getn_new, Z.eqb_refl in Hki. exact Hki. }
    subst k. unfold w'. rewrite cache_new_ir, Z.eqb_refl. split.
    + cbn. constructor; [intros []|constructor].
    + intros u' m. fold w'. unfold reach, subtree. unfold w' at 2. rewrite kids_new.
      rewrite (nohas_kids_nil w known n F Hn). cbn [flat_map In dict_get].
      destruct (Z.eqb_spec u u') as [E1|E1].
      * split.
        -- intro H. inversion H. subst. split; [left; reflexivity|]. unfold w'. rewrite getn_new, Z.eqb_refl. reflexivity.
        -- intros [[H|[]] _]. subst. reflexivity.
      * split; [discriminate|]. intros [[H|[]] H2]. subst m. unfold w' in H2. rewrite getn_new, Z.eqb_refl in H2.
        cbn in H2. congruence.
  - unfold w' in Hh. rewrite has_new in Hh. destruct (Z.eqb_spec ir n) as [E1|_]; [contradiction|]. cbn [orb] in Hh.
    unfold w' in Hki. rewrite kindof_new_other in Hki by exact E.
    apply (cache_frame w known w' (n :: known) ir F F' (C ir Hh Hki)).
    + apply cache_new_other. exact E.
    + intro m. apply desc_par_ext. exact Hpar.
    + intros m Hm. unfold w'. rewrite getn_new. destruct (Z.eqb_spec m n) as [E2|E2]; [|reflexivity].
      subst m. exfalso. pose proof (desc_has w known ir n F Hh Hm). congruence.
Qed.

(* ================================================================== *)
(* the list primitives in terms of detach / attach                     *)
(* ================================================================== *)

Lemma ml_del_at_detach w known ir i v :
  Forest w known -> nth_error (kids w ir) i = Some v ->
  ml_del_at w ir i = (detach w ir v, snd (ml_remove_hook w ir v)).
Proof.
  intros F H. unfold ml_del_at. rewrite H. unfold detach.
  destruct (ml_remove_hook w ir v) as [w1 ok] eqn:E. cbn [fst snd].
  assert (Hk : kids w1 = kids w) by (change w1 with (fst (w1, ok)); rewrite <- E; reflexivity).
  unfold with_kids. rewrite Hk. rewrite (remove_at_nth_nodup (kids w ir) i v (f_nodup w known F ir) H). reflexivity.
Qed.

Lemma ml_remove_in w known ir v :
  Forest w known -> In v (kids w ir) -> ml_remove w ir v = Ok (detach w ir v, snd (ml_remove_hook w ir v)).
Proof.
  intros F H. unfold ml_remove. destruct (index_of_In v (kids w ir) H) as [i Hi]. rewrite Hi.
  rewrite (ml_del_at_detach w known ir i v F (index_of_nth v (kids w ir) i Hi)). reflexivity.
Qed.

Lemma ml_remove_notin w ir v : ~ In v (kids w ir) -> ml_remove w ir v = Err EValue.
Proof. intro H. unfold ml_remove. rewrite (index_of_None v (kids w ir) H). reflexivity. Qed.

Definition pre_detach (w : world) (v : id) : world :=
  match par w v with Some old => detach w old v | None => w end.

Definition pre_flag (w : world) (v : id) : bool :=
  match par w v with Some old => snd (ml_remove_hook w old v) | None => true end.

Lemma ml_add_hook_eq w known ir v :
  Forest w known ->
  ml_add_hook w ir v = (cache_add (set_par (pre_detach w v) v (Some ir)) ir v, pre_flag w v).
Proof.
  intro F. unfold ml_add_hook, pre_detach, pre_flag. destruct (par w v) as [old|] eqn:E; [|reflexivity].
  rewrite (ml_remove_in w known old v F); [reflexivity|]. apply (f_two_ended w known F). exact E.
Qed.

Lemma pre_detach_inv w known v :
  Forest w known -> CacheInv w -> has w v = true -> kindof w v = KMod ->
  Forest (pre_detach w v) known /\ CacheInv (pre_detach w v) /\ pre_flag w v = true /\
  par (pre_detach w v) v = None /\
  (forall x, has (pre_detach w v) x = has w x) /\ (forall x, kindof (pre_detach w v) x = kindof w x).
Proof.
  intros F C Hv Kv. unfold pre_detach, pre_flag. destruct (par w v) as [old|] eqn:E.
  - destruct (parent_of_mod_is_ir w known v old F Kv E) as [Ko Ho].
    assert (Hin : In v (kids w old)) by (apply (f_two_ended w known F); exact E).
    destruct (detach_inv w known old v F C Ho Ko Hin) as [F' [C' Hf]].
    refine (conj F' (conj C' (conj Hf (conj _ (conj _ _))))).
    + apply par_detach_same.
    + intro x. apply has_detach. exact Hv.
    + intro x. apply kindof_detach.
  - refine (conj F (conj C (conj eq_refl (conj E (conj _ _))))); intro x; reflexivity.
Qed.

Lemma flagged_true (r : world * bool) : snd r = true -> flagged r = Ok (fst r).
Proof. destruct r as [w b]. cbn. intro H. subst. reflexivity. Qed.

Lemma norm_index_lt i len k : norm_index i len = Some k -> (k < len)%nat.
Proof.
  unfold norm_index. destruct ((0 <=? i) && (i <? Z.of_nat len)) eqn:E1.
  - intro H. inversion H. apply andb_true_iff in E1. destruct E1 as [A B]. apply Z.leb_le in A. apply Z.ltb_lt in B. lia.
  - destruct ((i <? 0) && (0 <=? i + Z.of_nat len)) eqn:E2; [|discriminate].
    intro H. inversion H. apply andb_true_iff in E2. destruct E2 as [A B]. apply Z.ltb_lt in A. apply Z.leb_le in B. lia.
Qed.

Lemma nth_error_lt {X} (l : list X) k : (k < length l)%nat -> exists v, nth_error l k = Some v.
Proof. intro H. destruct (nth_error l k) as [v|] eqn:E; [exists v; reflexivity|]. apply nth_error_None in E. lia. Qed.

(* ================================================================== *)
(* the operations                                                      *)
(* ================================================================== *)

Definition F2 (w : world) (o : op) : Prop :=
  match o with
  | ONew _ _ _ _ _ _ _ _ | OModAppend _ _ | OModInsert _ _ _ | OModExtend _ _ | OModRemove _ _ | OModPop _ _
  | OModDelItem _ _ | OModDelSlice _ _ _ | OModSetItem _ _ _ | OModSetSlice _ _ _ _ | OModSetExt _ _ _ _ _ | OModClear _
  | OModReverse _ => True
  | OSetParent c _ => kindof w c = KMod
  | _ => False
  end.

Definition Good (w : world) (known : list id) (o : op) : Prop :=
  (Forest (step' w o) (known_after o known) /\ CacheInv (step' w o)) /\ step w o <> Err EKey.

Lemma step'_ok w o w' : step w o = Ok w' -> step' w o = w'.
Proof. intro H. unfold step'. rewrite H. reflexivity. Qed.

Lemma step'_err w o e : step w o = Err e -> step' w o = w.
Proof. intro H. unfold step'. rewrite H. reflexivity. Qed.

Lemma good_ok w known o w' :
  step w o = Ok w' -> Forest w' (known_after o known) -> CacheInv w' -> Good w known o.
Proof.
  intros H F C. unfold Good. rewrite (step'_ok w o w' H). split; [split; assumption|]. rewrite H. discriminate.
Qed.

Lemma good_err w known o e :
  step w o = Err e -> e <> EKey -> known_after o known = known -> Forest w known -> CacheInv w -> Good w known o.
Proof.
  intros H He Hk F C. unfold Good. rewrite (step'_err w o e H), Hk. split; [split; assumption|]. rewrite H. congruence.
Qed.

Lemma kind_eqb_eq a b : kind_eqb a b = true -> a = b.
Proof. destruct a, b; cbn; intro H; try discriminate; reflexivity. Qed.

(* ---- ONew ---- *)
Lemma good_new w known n k u a s f nm p :
  Forest w known -> CacheInv w -> op_okb w known (ONew n k u a s f nm p) = true -> Good w known (ONew n k u a s f nm p).
Proof.
  intros F C G. cbn [op_okb] in G. repeat (apply andb_true_iff in G; destruct G as [G ?]).
  apply negb_true_iff in G. match goal with H : negb (mem n known) = true |- _ => apply negb_true_iff in H; apply mem_false in H; rename H into Hk end.
  destruct (new_inv w known n k u a s f nm p F C G Hk) as [F' C']; [assumption|].
  apply (good_ok w known _ (new_world w n k u a s f nm p)); [apply step_new|exact F'|exact C'].
Qed.

(* ---- insert / append (good_insert / good_append / good_setparent_mod / good_extend: after assign_inv, below --
   insert(i, v) is the slice assignment l[k:k] = [v]) ---- *)
Lemma step_insert w ir i v : step w (OModInsert ir i v) = flagged (ml_insert w ir i v).
Proof. reflexivity. Qed.
Lemma step_append w ir v : step w (OModAppend ir v) = flagged (ml_insert w ir (Z.of_nat (length (kids w ir))) v).
Proof. reflexivity. Qed.

(* ---- remove / pop / del item ---- *)
Lemma step_remove w ir v : step w (OModRemove ir v) = (do r <- ml_remove w ir v; flagged r).
Proof. reflexivity. Qed.

Lemma step_remove_in w known ir v :
  Forest w known -> CacheInv w -> is_k w ir KIR = true -> In v (kids w ir) ->
  step w (OModRemove ir v) = Ok (detach w ir v).
Proof.
  intros F C G H. apply is_k_spec in G. destruct G as [Hir Kir].
  destruct (detach_inv w known ir v F C Hir Kir H) as [_ [_ Hf]].
  rewrite step_remove, (ml_remove_in w known ir v F H). cbn [bind]. rewrite flagged_true by exact Hf. reflexivity.
Qed.

Lemma step_remove_notin w ir v : ~ In v (kids w ir) -> step w (OModRemove ir v) = Err EValue.
Proof. intro H. rewrite step_remove, (ml_remove_notin w ir v H). reflexivity. Qed.

Lemma good_remove w known ir v :
  Forest w known -> CacheInv w -> op_okb w known (OModRemove ir v) = true -> Good w known (OModRemove ir v).
Proof.
  intros F C G. cbn [op_okb] in G. apply andb_true_iff in G. destruct G as [G1 G2].
  destruct (in_dec Z.eq_dec v (kids w ir)) as [H|H].
  - pose proof G1 as G1'. apply is_k_spec in G1'. destruct G1' as [Hir Kir].
    destruct (detach_inv w known ir v F C Hir Kir H) as [F' [C' _]].
    apply (good_ok w known _ (detach w ir v)); [|exact F'|exact C'].
    apply (step_remove_in w known); assumption.
  - apply (good_err w known _ EValue); [apply step_remove_notin; exact H|discriminate|reflexivity|exact F|exact C].
Qed.

Definition del_step (w : world) (ir : id) (i : Z) : res world :=
  match norm_index i (length (kids w ir)) with
  | Some k => flagged (ml_del_at w ir k)
  | None => Err EIndex
  end.

Lemma step_pop w ir i : step w (OModPop ir i) = del_step w ir i. Proof. reflexivity. Qed.
Lemma step_delitem w ir i : step w (OModDelItem ir i) = del_step w ir i. Proof. reflexivity. Qed.

Lemma del_step_some w known ir i k :
  Forest w known -> CacheInv w -> is_k w ir KIR = true -> norm_index i (length (kids w ir)) = Some k ->
  exists v, nth_error (kids w ir) k = Some v /\ del_step w ir i = Ok (detach w ir v).
Proof.
  intros F C G H. apply is_k_spec in G. destruct G as [Hir Kir].
  destruct (nth_error_lt (kids w ir) k (norm_index_lt _ _ _ H)) as [v Hv]. exists v. split; [exact Hv|].
  destruct (detach_inv w known ir v F C Hir Kir (nth_error_In _ _ Hv)) as [_ [_ Hf]].
  unfold del_step. rewrite H, (ml_del_at_detach w known ir k v F Hv). rewrite flagged_true by exact Hf. reflexivity.
Qed.

Lemma del_step_none w ir i : norm_index i (length (kids w ir)) = None -> del_step w ir i = Err EIndex.
Proof. intro H. unfold del_step. rewrite H. reflexivity. Qed.

Lemma good_del w known ir i o :
  Forest w known -> CacheInv w -> is_k w ir KIR = true -> step w o = del_step w ir i -> known_after o known = known ->
  Good w known o.
Proof.
  intros F C G Hs Hk. destruct (norm_index i (length (kids w ir))) as [k|] eqn:E.
  - destruct (del_step_some w known ir i k F C G E) as [v [Hv Hd]].
    apply is_k_spec in G. destruct G as [Hir Kir].
    destruct (detach_inv w known ir v F C Hir Kir (nth_error_In _ _ Hv)) as [F' [C' _]].
    apply (good_ok w known o (detach w ir v)); [congruence|rewrite Hk; exact F'|exact C'].
  - apply (good_err w known o EIndex); [rewrite Hs; apply del_step_none; exact E|discriminate|exact Hk|exact F|exact C].
Qed.

(* ---- reverse ---- *)
Lemma step_reverse w ir : step w (OModReverse ir) = Ok (with_kids w ir (rev (kids w ir))).
Proof. reflexivity. Qed.

Lemma relist_inv w known ir L :
  Forest w known -> CacheInv w -> NoDup L -> (forall x, In x L <-> In x (kids w ir)) ->
  Forest (with_kids w ir L) known /\ CacheInv (with_kids w ir L).
Proof.
  intros F C HL HLin.
  assert (F' : Forest (with_kids w ir L) known).
  { constructor.
    - intro n. rewrite has_with_kids. apply (f_known w known F).
    - intros p c. rewrite par_with_kids. destruct (Z.eqb_spec p ir) as [E|E].
      + subst. rewrite kids_with_kids_same, HLin. apply (f_two_ended w known F).
      + rewrite kids_with_kids_other by exact E. apply (f_two_ended w known F).
    - intro p. destruct (Z.eqb_spec p ir) as [E|E].
      + subst. rewrite kids_with_kids_same. exact HL.
      + rewrite kids_with_kids_other by exact E. apply (f_nodup w known F).
    - intros p c. rewrite par_with_kids, !has_with_kids, !kindof_with_kids. apply (f_kind w known F).
    - intros a b. rewrite !getn_with_kids. apply (f_uuid w known F). }
  split; [exact F'|]. intros ir' Hh Hk. rewrite has_with_kids in Hh. rewrite kindof_with_kids in Hk.
  apply (cache_frame w known (with_kids w ir L) known ir' F F' (C ir' Hh Hk)).
  - reflexivity.
  - intro n. apply desc_par_ext. intro x. reflexivity.
  - intros n _. reflexivity.
Qed.

Lemma good_reverse w known ir :
  Forest w known -> CacheInv w -> Good w known (OModReverse ir).
Proof.
  intros F C.
  destruct (relist_inv w known ir (rev (kids w ir)) F C) as [F' C'].
  - apply NoDup_rev. apply (f_nodup w known F).
  - intro x. symmetry. apply in_rev.
  - apply (good_ok w known _ (with_kids w ir (rev (kids w ir)))); [apply step_reverse|exact F'|exact C'].
Qed.

(* ---- the ir setter of a module ---- *)
Lemma setparent_mod_first w known c :
  Forest w known -> CacheInv w -> has w c = true -> kindof w c = KMod ->
  match par w c with
  | Some old => do r <- ml_remove w old c; flagged r
  | None => Ok w
  end = Ok (pre_detach w c).
Proof.
  intros F C Hc Kc. destruct (pre_detach_inv w known c F C Hc Kc) as [_ [_ [Hf _]]].
  unfold pre_detach, pre_flag in *. destruct (par w c) as [old|] eqn:E; [|reflexivity].
  rewrite (ml_remove_in w known old c F); [|apply (f_two_ended w known F); exact E].
  cbn [bind]. rewrite flagged_true by exact Hf. reflexivity.
Qed.

Lemma step_setparent_mod w known c p :
  Forest w known -> CacheInv w -> has w c = true -> kindof w c = KMod ->
  step w (OSetParent c p) =
  match p with
  | Some ir => flagged (ml_append (pre_detach w c) ir c)
  | None => Ok (pre_detach w c)
  end.
Proof.
  intros F C Hc Kc. cbn [step]. unfold do_setparent. rewrite Kc.
  rewrite (setparent_mod_first w known c F C Hc Kc). reflexivity.
Qed.

(* ================================================================== *)
(* hooks running while ir's list is "virtually" something else         *)
(* ================================================================== *)

Lemma subtree_avoids_ir w known p v x :
  Forest w known -> kindof w p = KIR -> kindof w v <> KIR -> In x (subtree w v) -> x <> p.
Proof.
  intros F Kp Kv Hx E. subst x. apply (subtree_char w known v p F) in Hx. destruct Hx as [d Hd].
  destruct d as [|d]; [cbn in Hd; congruence|]. destruct Hd as [q [Hq _]].
  rewrite (ir_no_parent w known p F Kp) in Hq. discriminate.
Qed.

Lemma subtree_with_kids_of w known p L v :
  Forest (with_kids w p L) known -> kindof w p = KIR -> kindof w v <> KIR ->
  subtree (with_kids w p L) v = subtree w v.
Proof.
  intros F Kp Kv. symmetry. apply subtree_agree. intros x Hx.
  rewrite kids_with_kids_other; [reflexivity|]. apply (subtree_avoids_ir _ known p v x F); assumption.
Qed.

Lemma remove_hook_with_kids w p L ir v :
  subtree (with_kids w p L) v = subtree w v ->
  weq (fst (ml_remove_hook (with_kids w p L) ir v)) (with_kids (fst (ml_remove_hook w ir v)) p L) /\
  snd (ml_remove_hook (with_kids w p L) ir v) = snd (ml_remove_hook w ir v).
Proof.
  intro Hs. split; [split; [|split]; intro x|].
  - reflexivity.
  - reflexivity.
  - rewrite cache_with_kids, !cache_remove_hook, Hs. reflexivity.
  - rewrite !snd_remove_hook, Hs. reflexivity.
Qed.

Lemma add_tail_with_kids w p L ir v q :
  subtree (with_kids w p L) v = subtree w v ->
  weq (cache_add (set_par (with_kids w p L) v q) ir v) (with_kids (cache_add (set_par w v q) ir v) p L).
Proof.
  intro Hs. split; [|split]; intro x.
  - reflexivity.
  - reflexivity.
  - rewrite cache_with_kids, !cache_add_set_par, Hs. reflexivity.
Qed.

Lemma pre_detach_with_kids w p L v :
  par w v <> Some p -> subtree (with_kids w p L) v = subtree w v ->
  weq (pre_detach (with_kids w p L) v) (with_kids (pre_detach w v) p L) /\ pre_flag (with_kids w p L) v = pre_flag w v.
Proof.
  intros Hp Hs. unfold pre_detach, pre_flag. rewrite par_with_kids. destruct (par w v) as [old|] eqn:E.
  - assert (Hne : old <> p) by congruence.
    destruct (remove_hook_with_kids w p L old v Hs) as [H1 H2]. split; [|exact H2].
    unfold detach. rewrite (kids_with_kids_other w p L old Hne).
    eapply weq_trans; [apply weq_with_kids; exact H1|]. apply with_kids_comm. congruence.
  - split; [apply weq_refl|reflexivity].
Qed.

Lemma ml_del_at_detach' w ir i v :
  NoDup (kids w ir) -> nth_error (kids w ir) i = Some v ->
  ml_del_at w ir i = (detach w ir v, snd (ml_remove_hook w ir v)).
Proof.
  intros F H. unfold ml_del_at. rewrite H. unfold detach.
  destruct (ml_remove_hook w ir v) as [w1 ok] eqn:E. cbn [fst snd].
  assert (Hk : kids w1 = kids w) by (change w1 with (fst (w1, ok)); rewrite <- E; reflexivity).
  unfold with_kids. rewrite Hk. rewrite (remove_at_nth_nodup (kids w ir) i v F H). reflexivity.
Qed.

Lemma ml_add_hook_eq' w ir v :
  (forall old, par w v = Some old -> In v (kids w old) /\ NoDup (kids w old)) ->
  ml_add_hook w ir v = (cache_add (set_par (pre_detach w v) v (Some ir)) ir v, pre_flag w v).
Proof.
  intro F. unfold ml_add_hook, pre_detach, pre_flag. destruct (par w v) as [old|] eqn:E; [|reflexivity].
  destruct (F old eq_refl) as [Hin Hnd]. unfold ml_remove.
  destruct (index_of_In v (kids w old) Hin) as [i Hi]. rewrite Hi.
  rewrite (ml_del_at_detach' w old i v Hnd (index_of_nth v (kids w old) i Hi)). reflexivity.
Qed.

Lemma has_cache_add w ir n x : has (cache_add w ir n) x = has w x. Proof. reflexivity. Qed.
Lemma kindof_cache_add w ir n x : kindof (cache_add w ir n) x = kindof w x. Proof. reflexivity. Qed.

Lemma remove_hook_virtual w known ir Lv v :
  Forest (with_kids w ir Lv) known -> CacheInv (with_kids w ir Lv) -> is_k w ir KIR = true -> In v Lv ->
  Forest (with_kids (fst (ml_remove_hook w ir v)) ir (remove_id v Lv)) known /\
  CacheInv (with_kids (fst (ml_remove_hook w ir v)) ir (remove_id v Lv)) /\
  snd (ml_remove_hook w ir v) = true.
Proof.
  intros F C G Hv. apply is_k_spec in G. destruct G as [Hir Kir].
  set (W := with_kids w ir Lv) in *.
  assert (HvW : In v (kids W ir)) by (unfold W; rewrite kids_with_kids_same; exact Hv).
  destruct (detach_inv W known ir v F C Hir Kir HvW) as [F' [C' Hf]].
  assert (Hp : par W v = Some ir) by (apply (f_two_ended W known F); exact HvW).
  destruct (child_of_ir_is_mod W known ir v F Kir Hp) as [Kv _].
  assert (Hs : subtree W v = subtree w v).
  { apply (subtree_with_kids_of w known ir Lv v F Kir). change (kindof w v) with (kindof W v). congruence. }
  destruct (remove_hook_with_kids w ir Lv ir v Hs) as [H1 H2]. fold W in H1, H2.
  assert (Hw : weq (detach W ir v) (with_kids (fst (ml_remove_hook w ir v)) ir (remove_id v Lv))).
  { unfold detach. unfold W at 2. rewrite kids_with_kids_same.
    eapply weq_trans; [apply weq_with_kids; exact H1|]. apply with_kids_twice. }
  split; [eapply Forest_weq; eassumption|]. split; [eapply CacheInv_weq; eassumption|]. congruence.
Qed.

Lemma add_hook_virtual w known ir Lv v L' :
  Forest (with_kids w ir Lv) known -> CacheInv (with_kids w ir Lv) -> is_k w ir KIR = true -> is_k w v KMod = true ->
  ~ In v Lv -> NoDup L' -> (forall x, In x L' <-> x = v \/ In x Lv) ->
  Forest (with_kids (fst (ml_add_hook w ir v)) ir L') known /\
  CacheInv (with_kids (fst (ml_add_hook w ir v)) ir L') /\
  snd (ml_add_hook w ir v) = true /\
  (forall x k, is_k (fst (ml_add_hook w ir v)) x k = is_k w x k).
Proof.
  intros F C G Gv Hnv HL HLin. apply is_k_spec in G. destruct G as [Hir Kir]. apply is_k_spec in Gv. destruct Gv as [Hv Kv].
  set (W := with_kids w ir Lv) in *.
  assert (HpW : par w v <> Some ir).
  { intro E. apply Hnv. change (par w v) with (par W v) in E. apply (f_two_ended W known F) in E.
    unfold W in E. rewrite kids_with_kids_same in E. exact E. }
  destruct (pre_detach_inv W known v F C Hv Kv) as [F1 [C1 [Hf [Pv [Hh Hk]]]]].
  assert (KvW : kindof w v <> KIR) by congruence.
  assert (Hs : subtree W v = subtree w v) by (apply (subtree_with_kids_of w known ir Lv v F Kir KvW)).
  destruct (pre_detach_with_kids w ir Lv v HpW Hs) as [H1 H2]. fold W in H1, H2.
  (* the hook on the real world *)
  assert (Heq : ml_add_hook w ir v = (cache_add (set_par (pre_detach w v) v (Some ir)) ir v, pre_flag w v)).
  { apply ml_add_hook_eq'. intros old E.
    assert (old <> ir) by congruence.
    change (par w v) with (par W v) in E. split.
    - apply (f_two_ended W known F) in E. unfold W in E. rewrite kids_with_kids_other in E by assumption. exact E.
    - pose proof (f_nodup W known F old) as Hn. unfold W in Hn. rewrite kids_with_kids_other in Hn by assumption. exact Hn. }
  rewrite Heq. cbn [fst snd].
  (* kids of the pre-detached virtual world at ir *)
  assert (HkW : forall x, In x (kids (pre_detach W v) ir) <-> In x Lv).
  { intro x. destruct H1 as [_ [H1k _]]. rewrite H1k, kids_with_kids_same. reflexivity. }
  destruct (attach_inv (pre_detach W v) known ir v L') as [F2 C2]; try assumption.
  - rewrite Hh. exact Hir.
  - rewrite Hk. exact Kir.
  - rewrite Hh. exact Hv.
  - rewrite Hk. exact Kv.
  - intro x. rewrite HLin, HkW. reflexivity.
  - assert (Hs2 : subtree (with_kids (pre_detach w v) ir Lv) v = subtree (pre_detach w v) v).
    { apply (subtree_with_kids_of (pre_detach w v) known ir Lv v).
      - eapply Forest_weq; [exact H1|exact F1].
      - pose proof (weq_kindof _ _ ir H1) as Hq. rewrite kindof_with_kids in Hq. rewrite <- Hq, Hk. exact Kir.
      - pose proof (weq_kindof _ _ v H1) as Hq. rewrite kindof_with_kids in Hq. rewrite <- Hq, Hk. exact KvW. }
    assert (Hw : weq (attach (pre_detach W v) ir v L')
                     (with_kids (cache_add (set_par (pre_detach w v) v (Some ir)) ir v) ir L')).
    { unfold attach.
      eapply weq_trans; [apply weq_with_kids; apply weq_cache_add; apply weq_set_par; exact H1|].
      eapply weq_trans; [apply weq_with_kids; apply add_tail_with_kids; exact Hs2|].
      apply with_kids_twice. }
    split; [eapply Forest_weq; eassumption|]. split; [eapply CacheInv_weq; eassumption|]. split; [congruence|].
    assert (Hhw : forall x, has (pre_detach w v) x = has w x).
    { intro x. pose proof (weq_has _ _ x H1) as Hq. rewrite has_with_kids in Hq. rewrite <- Hq. apply Hh. }
    assert (Hkw : forall x, kindof (pre_detach w v) x = kindof w x).
    { intro x. pose proof (weq_kindof _ _ x H1) as Hq. rewrite kindof_with_kids in Hq. rewrite <- Hq. apply Hk. }
    intros x k. unfold is_k. rewrite has_cache_add, kindof_cache_add, kindof_set_par, Hkw.
    rewrite has_set_par by (rewrite Hhw; exact Hv). rewrite Hhw. reflexivity.
Qed.

Lemma virtual_start w known ir :
  Forest w known -> CacheInv w -> Forest (with_kids w ir (kids w ir)) known /\ CacheInv (with_kids w ir (kids w ir)).
Proof.
  intros F C. split.
  - eapply Forest_weq; [apply weq_sym; apply with_kids_id|exact F].
  - eapply CacheInv_weq; [apply weq_sym; apply with_kids_id|exact C].
Qed.

Lemma is_k_remove_hook w ir v x k : has w v = true -> is_k (fst (ml_remove_hook w ir v)) x k = is_k w x k.
Proof. intro H. unfold is_k. rewrite (has_remove_hook w ir v x H), kindof_remove_hook. reflexivity. Qed.

Lemma kids_ml_del_at w ir i p : p <> ir -> kids (fst (ml_del_at w ir i)) p = kids w p.
Proof.
  intro H. unfold ml_del_at. destruct (nth_error (kids w ir) i) as [v|]; [|reflexivity].
  destruct (ml_remove_hook w ir v) as [w1 ok] eqn:E. cbn [fst kids set_kids]. rewrite upd_other by exact H.
  change w1 with (fst (w1, ok)). rewrite <- E. reflexivity.
Qed.

Lemma kids_ml_add_hook w ir v p : par w v <> Some p -> kids (fst (ml_add_hook w ir v)) p = kids w p.
Proof.
  intro H. unfold ml_add_hook. destruct (par w v) as [old|] eqn:E; [|reflexivity].
  assert (Hne : p <> old) by congruence. unfold ml_remove.
  destruct (index_of v (kids w old)) as [i|]; [|reflexivity].
  pose proof (kids_ml_del_at w old i p Hne) as Hk. destruct (ml_del_at w old i) as [w1 ok]. exact Hk.
Qed.

(* ================================================================== *)
(* loops                                                               *)
(* ================================================================== *)

Lemma kids_remove_hooks_fold ir vs : forall w, kids (fst (fold_ok (fun w v => ml_remove_hook w ir v) vs w)) = kids w.
Proof.
  induction vs as [|v vs IH]; intro w; [reflexivity|]. rewrite fold_ok_cons. cbn [fst]. rewrite IH. reflexivity.
Qed.

Lemma remove_hooks_fold known ir vs : forall w Lv,
  Forest (with_kids w ir Lv) known -> CacheInv (with_kids w ir Lv) -> is_k w ir KIR = true ->
  NoDup vs -> (forall v, In v vs -> In v Lv) ->
  Forest (with_kids (fst (fold_ok (fun w v => ml_remove_hook w ir v) vs w)) ir (fold_left (fun l v => remove_id v l) vs Lv)) known /\
  CacheInv (with_kids (fst (fold_ok (fun w v => ml_remove_hook w ir v) vs w)) ir (fold_left (fun l v => remove_id v l) vs Lv)) /\
  snd (fold_ok (fun w v => ml_remove_hook w ir v) vs w) = true /\
  (forall x k, is_k (fst (fold_ok (fun w v => ml_remove_hook w ir v) vs w)) x k = is_k w x k).
Proof.
  induction vs as [|v vs IH]; intros w Lv F C G Hnd Hin.
  - rewrite fold_ok_nil. cbn [fst snd fold_left]. auto.
  - rewrite fold_ok_cons. cbn [fst snd fold_left].
    assert (Hv : In v Lv) by (apply Hin; left; reflexivity).
    destruct (remove_hook_virtual w known ir Lv v F C G Hv) as [F1 [C1 Hf1]].
    assert (Hhv : has w v = true).
    { assert (Hp : par (with_kids w ir Lv) v = Some ir).
      { apply (f_two_ended _ known F). rewrite kids_with_kids_same. exact Hv. }
      apply (f_kind _ known F ir v Hp). }
    inversion Hnd as [|v' vs' Hv' Hnd']. subst.
    destruct (IH (fst (ml_remove_hook w ir v)) (remove_id v Lv) F1 C1) as [F2 [C2 [Hf2 Hk2]]].
    + rewrite is_k_remove_hook; assumption.
    + exact Hnd'.
    + intros x Hx. apply In_remove_id. split; [apply Hin; right; exact Hx|]. intro E. subst. contradiction.
    + refine (conj F2 (conj C2 (conj _ _))).
      * rewrite Hf1, Hf2. reflexivity.
      * intros x k. rewrite Hk2. apply is_k_remove_hook. exact Hhv.
Qed.

Lemma NoDup_middle {X} (a b : list X) v : NoDup (a ++ b) -> ~ In v (a ++ b) -> NoDup ((a ++ [v]) ++ b).
Proof.
  intros H Hv. rewrite <- app_assoc. cbn [app]. apply (NoDup_Add (Add_app v a b)). split; assumption.
Qed.

Lemma add_hooks_fold known ir vs : forall w A B,
  Forest (with_kids w ir (A ++ B)) known -> CacheInv (with_kids w ir (A ++ B)) -> is_k w ir KIR = true ->
  (forall v, In v vs -> is_k w v KMod = true) -> NoDup vs -> (forall v, In v vs -> ~ In v (A ++ B)) ->
  Forest (with_kids (fst (fold_ok (fun w v => ml_add_hook w ir v) vs w)) ir (A ++ vs ++ B)) known /\
  CacheInv (with_kids (fst (fold_ok (fun w v => ml_add_hook w ir v) vs w)) ir (A ++ vs ++ B)) /\
  snd (fold_ok (fun w v => ml_add_hook w ir v) vs w) = true /\
  (forall x k, is_k (fst (fold_ok (fun w v => ml_add_hook w ir v) vs w)) x k = is_k w x k).
Proof.
  induction vs as [|v vs IH]; intros w A B F C G Gv Hnd Hnin.
  - rewrite fold_ok_nil. cbn [fst snd app]. auto.
  - rewrite fold_ok_cons. cbn [fst snd].
    assert (Hv : ~ In v (A ++ B)) by (apply Hnin; left; reflexivity).
    assert (HndAB : NoDup (A ++ B)).
    { pose proof (f_nodup _ known F ir) as H. rewrite kids_with_kids_same in H. exact H. }
    inversion Hnd as [|v' vs' Hv' Hnd']. subst.
    destruct (add_hook_virtual w known ir (A ++ B) v ((A ++ [v]) ++ B) F C G (Gv v (or_introl eq_refl)) Hv)
      as [F1 [C1 [Hf1 Hk1]]].
    + apply NoDup_middle; assumption.
    + intro x. rewrite !in_app_iff. cbn [In]. split.
      * intros [[H|[H|[]]]|H]; [right; left; exact H|left; symmetry; exact H|right; right; exact H].
      * intros [H|[H|H]]; [left; right; left; symmetry; exact H|left; left; exact H|right; exact H].
    + destruct (IH (fst (ml_add_hook w ir v)) (A ++ [v]) B F1 C1) as [F2 [C2 [Hf2 Hk2]]].
      * rewrite Hk1. exact G.
      * intros x Hx. rewrite Hk1. apply Gv. right. exact Hx.
      * exact Hnd'.
      * intros x Hx Hi. rewrite !in_app_iff in Hi. cbn [In] in Hi. destruct Hi as [[Hi|[Hi|[]]]|Hi].
        -- apply (Hnin x); [right; exact Hx|]. apply in_or_app. left. exact Hi.
        -- subst. contradiction.
        -- apply (Hnin x); [right; exact Hx|]. apply in_or_app. right. exact Hi.
      * rewrite <- app_assoc in F2, C2. cbn [app] in F2, C2.
        refine (conj F2 (conj C2 (conj _ _))).
        -- rewrite Hf1, Hf2. reflexivity.
        -- intros x k. rewrite Hk2. apply Hk1.
Qed.

(* ---- batches of removals ---- *)
Lemma remove_batch w known ir vs :
  Forest w known -> CacheInv w -> is_k w ir KIR = true -> NoDup vs -> (forall v, In v vs -> In v (kids w ir)) ->
  Forest (with_kids (fst (fold_ok (fun w v => ml_remove_hook w ir v) vs w)) ir (filter (fun x => negb (mem x vs)) (kids w ir))) known /\
  CacheInv (with_kids (fst (fold_ok (fun w v => ml_remove_hook w ir v) vs w)) ir (filter (fun x => negb (mem x vs)) (kids w ir))) /\
  snd (fold_ok (fun w v => ml_remove_hook w ir v) vs w) = true /\
  (forall x k, is_k (fst (fold_ok (fun w v => ml_remove_hook w ir v) vs w)) x k = is_k w x k).
Proof.
  intros F C G Hnd Hin. destruct (virtual_start w known ir F C) as [F0 C0].
  pose proof (remove_hooks_fold known ir vs w (kids w ir) F0 C0 G Hnd Hin) as H.
  rewrite fold_remove_filter in H. exact H.
Qed.

Lemma remove_slice w known ir pre vic post :
  Forest w known -> CacheInv w -> is_k w ir KIR = true -> kids w ir = pre ++ vic ++ post ->
  Forest (with_kids (fst (fold_ok (fun w v => ml_remove_hook w ir v) vic w)) ir (pre ++ post)) known /\
  CacheInv (with_kids (fst (fold_ok (fun w v => ml_remove_hook w ir v) vic w)) ir (pre ++ post)) /\
  snd (fold_ok (fun w v => ml_remove_hook w ir v) vic w) = true /\
  (forall x k, is_k (fst (fold_ok (fun w v => ml_remove_hook w ir v) vic w)) x k = is_k w x k) /\
  filter (fun x => negb (mem x vic)) (kids w ir) = pre ++ post.
Proof.
  intros F C G Hl.
  assert (Hnd : NoDup (pre ++ vic ++ post)) by (rewrite <- Hl; apply (f_nodup w known F)).
  assert (Hf : filter (fun x => negb (mem x vic)) (kids w ir) = pre ++ post) by (rewrite Hl; apply filter_slice; exact Hnd).
  destruct (NoDup_app_inv pre (vic ++ post) Hnd) as [_ [H2 _]]. destruct (NoDup_app_inv vic post H2) as [Hv _].
  destruct (remove_batch w known ir vic F C G Hv) as [F1 [C1 [Hf1 Hk1]]].
  - intros v Hi. rewrite Hl. apply in_or_app. right. apply in_or_app. left. exact Hi.
  - rewrite Hf in F1, C1. auto.
Qed.

(* ---- del slice ---- *)
Definition slice_victims (l : list id) (lo hi : Z) : list id := firstn (Z.to_nat (hi - lo)) (skipn (Z.to_nat lo) l).

Lemma step_delslice w ir a b :
  step w (OModDelSlice ir a b) =
  let l := kids w ir in
  let lo := norm_bound a 0 (length l) in
  let hi := norm_bound b (Z.of_nat (length l)) (length l) in
  let victims := slice_victims l lo hi in
  flagged (with_kids (fst (fold_ok (fun w v => ml_remove_hook w ir v) victims w)) ir (filter (fun v => negb (mem v victims)) l),
           snd (fold_ok (fun w v => ml_remove_hook w ir v) victims w)).
Proof.
  cbn [step]. cbv zeta. unfold slice_victims.
  set (victims := firstn _ _).
  pose proof (kids_remove_hooks_fold ir victims w) as Hk.
  destruct (fold_ok (fun w v => ml_remove_hook w ir v) victims w) as [w1 ok]. cbn [fst snd] in *.
  unfold with_kids. rewrite Hk. reflexivity.
Qed.

Lemma slice_victims_split l lo hi :
  0 <= lo -> l = firstn (Z.to_nat lo) l ++ slice_victims l lo hi ++ skipn (Z.to_nat (Z.max lo hi)) l.
Proof.
  intro H. unfold slice_victims.
  replace (Z.to_nat (Z.max lo hi)) with (Z.to_nat lo + Z.to_nat (hi - lo))%nat by lia.
  apply slice_split.
Qed.

Lemma norm_bound_nonneg o d len : 0 <= d -> 0 <= norm_bound o d len.
Proof.
  intro H. unfold norm_bound. destruct o as [i|]; [|exact H].
  destruct (Z.ltb_spec i 0); lia.
Qed.

Lemma good_delslice w known ir a b :
  Forest w known -> CacheInv w -> op_okb w known (OModDelSlice ir a b) = true -> Good w known (OModDelSlice ir a b).
Proof.
  intros F C G. cbn [op_okb] in G. pose proof (step_delslice w ir a b) as Hs. cbv zeta in Hs.
  set (l := kids w ir) in *. set (lo := norm_bound a 0 (length l)) in *.
  set (hi := norm_bound b (Z.of_nat (length l)) (length l)) in *.
  assert (Hlo : 0 <= lo) by (apply norm_bound_nonneg; lia).
  destruct (remove_slice w known ir _ _ _ F C G (slice_victims_split l lo hi Hlo)) as [F1 [C1 [Hf1 [_ Hfl]]]].
  fold l in Hfl. rewrite Hfl, Hf1 in Hs. cbn [flagged] in Hs.
  apply (good_ok w known _ _ Hs); assumption.
Qed.

(* ---- clear ---- *)
Lemma step_clear w ir :
  step w (OModClear ir) =
  flagged (with_kids (fst (fold_ok (fun w v => ml_remove_hook w ir v) (rev (kids w ir)) w)) ir [],
           snd (fold_ok (fun w v => ml_remove_hook w ir v) (rev (kids w ir)) w)).
Proof.
  cbn [step]. destruct (fold_ok (fun w v => ml_remove_hook w ir v) (rev (kids w ir)) w) as [w1 ok]. reflexivity.
Qed.

Lemma good_clear w known ir :
  Forest w known -> CacheInv w -> op_okb w known (OModClear ir) = true -> Good w known (OModClear ir).
Proof.
  intros F C G. cbn [op_okb] in G.
  destruct (remove_batch w known ir (rev (kids w ir)) F C G) as [F1 [C1 [Hf1 _]]].
  - apply NoDup_rev. apply (f_nodup w known F).
  - intros v Hv. apply in_rev. exact Hv.
  - rewrite (filter_none _ (kids w ir)) in F1, C1.
    2,3: intros x Hx; apply negb_false_iff; apply mem_In; apply in_rev in Hx; exact Hx.
    pose proof (step_clear w ir) as Hs. rewrite Hf1 in Hs. cbn [flagged] in Hs.
    apply (good_ok w known _ _ Hs); assumption.
Qed.

(* ---- item and slice assignment (ml_assign) ---- *)

Lemma dedup_In x l : In x (dedup l) <-> In x l.
Proof.
  induction l as [|a l IH]; [reflexivity|]. cbn [dedup]. destruct (mem a l) eqn:E.
  - rewrite IH. cbn [In]. split; [tauto|]. intros [H|H]; [subst; apply mem_In; exact E|exact H].
  - cbn [In]. rewrite IH. reflexivity.
Qed.

Lemma dedup_NoDup l : NoDup (dedup l).
Proof.
  induction l as [|a l IH]; [constructor|]. cbn [dedup]. destruct (mem a l) eqn:E; [exact IH|].
  constructor; [|exact IH]. rewrite dedup_In. apply mem_false. exact E.
Qed.

Lemma dedup_nodup_id l : NoDup l -> dedup l = l.
Proof.
  induction l as [|a l IH]; intro H; [reflexivity|]. inversion H as [|a' l' Ha Hl]. subst.
  cbn [dedup]. apply mem_false in Ha. rewrite Ha. f_equal. apply IH. exact Hl.
Qed.

Lemma In_filter_notmem x vs l : In x (filter (fun y => negb (mem y vs)) l) <-> In x l /\ ~ In x vs.
Proof. rewrite filter_In, negb_true_iff, mem_false. reflexivity. Qed.

Lemma mem_filter_notmem x vs l : mem x (filter (fun y => negb (mem y vs)) l) = mem x l && negb (mem x vs).
Proof.
  destruct (mem x l) eqn:E1; destruct (mem x vs) eqn:E2; cbn [andb negb].
  - apply mem_false. rewrite In_filter_notmem. apply mem_In in E2. tauto.
  - apply mem_In. rewrite In_filter_notmem. apply mem_In in E1. apply mem_false in E2. tauto.
  - apply mem_false. rewrite In_filter_notmem. apply mem_false in E1. tauto.
  - apply mem_false. rewrite In_filter_notmem. apply mem_false in E1. tauto.
Qed.

Lemma In_firstn_l (l : list id) n x : In x (firstn n l) -> In x l.
Proof. intro H. rewrite <- (firstn_skipn n l). apply in_or_app. left. exact H. Qed.

Lemma In_skipn_l (l : list id) n x : In x (skipn n l) -> In x l.
Proof. intro H. rewrite <- (firstn_skipn n l). apply in_or_app. right. exact H. Qed.

Lemma NoDup_firstn (l : list id) n : NoDup l -> NoDup (firstn n l).
Proof. intro H. rewrite <- (firstn_skipn n l) in H. apply (NoDup_app_inv _ _ H). Qed.

Lemma NoDup_skipn (l : list id) n : NoDup l -> NoDup (skipn n l).
Proof. intro H. rewrite <- (firstn_skipn n l) in H. apply (NoDup_app_inv _ _ H). Qed.

Lemma firstn_skipn_disjoint (l : list id) lo hi x :
  (lo <= hi)%nat -> NoDup l -> In x (firstn lo l) -> In x (skipn hi l) -> False.
Proof.
  intros Hle Hnd H1 H2.
  assert (Hnd' : NoDup (firstn lo l ++ firstn (hi - lo) (skipn lo l) ++ skipn (lo + (hi - lo)) l))
    by (rewrite <- slice_split; exact Hnd).
  replace (lo + (hi - lo))%nat with hi in Hnd' by lia.
  destruct (NoDup_app_inv _ _ Hnd') as [_ [_ Hd]]. apply (Hd x H1). apply in_or_app. right. exact H2.
Qed.

Lemma In_assign_slice l lo hi vs x :
  In x (assign_slice l lo hi vs) <-> In x vs \/ In x (firstn lo l) \/ In x (skipn hi l).
Proof.
  unfold assign_slice. rewrite !in_app_iff, !In_filter_notmem, dedup_In.
  destruct (in_dec Z.eq_dec x vs) as [H|H]; tauto.
Qed.

Lemma NoDup_assign_slice l lo hi vs : (lo <= hi)%nat -> NoDup l -> NoDup (assign_slice l lo hi vs).
Proof.
  intros Hle Hnd. unfold assign_slice.
  apply NoDup_app_intro; [apply NoDup_filter, NoDup_firstn, Hnd| |].
  - apply NoDup_app_intro; [apply dedup_NoDup|apply NoDup_filter, NoDup_skipn, Hnd|].
    intros x H1 H2. apply (proj1 (In_filter_notmem _ _ _)) in H2. apply (proj1 (dedup_In _ _)) in H1. tauto.
  - intros x H1 H2. apply (proj1 (In_filter_notmem _ _ _)) in H1. destruct H1 as [H1 H1']. apply in_app_or in H2.
    destruct H2 as [H2|H2].
    + apply (proj1 (dedup_In _ _)) in H2. contradiction.
    + apply (proj1 (In_filter_notmem _ _ _)) in H2. eapply firstn_skipn_disjoint; [exact Hle|exact Hnd|exact H1|apply H2].
Qed.

(* the elements that leave / enter the list *)
Definition leavers (old new : list id) : list id := filter (fun x => negb (mem x new)) old.
Definition enterers (old new : list id) : list id := filter (fun x => negb (mem x old)) new.

Lemma ml_assign_eq w ir new :
  ml_assign w ir new =
  (with_kids (fst (fold_ok (fun w v => ml_add_hook w ir v) (enterers (kids w ir) new)
                     (fst (fold_ok (fun w v => ml_remove_hook w ir v) (leavers (kids w ir) new) w)))) ir new,
   snd (fold_ok (fun w v => ml_remove_hook w ir v) (leavers (kids w ir) new) w) &&
   snd (fold_ok (fun w v => ml_add_hook w ir v) (enterers (kids w ir) new)
          (fst (fold_ok (fun w v => ml_remove_hook w ir v) (leavers (kids w ir) new) w)))).
Proof.
  unfold ml_assign, leavers, enterers. cbv zeta.
  destruct (fold_ok (fun w v => ml_remove_hook w ir v) (filter (fun x => negb (mem x new)) (kids w ir)) w) as [w1 ok1].
  cbn [fst snd].
  destruct (fold_ok (fun w v => ml_add_hook w ir v) (filter (fun x => negb (mem x (kids w ir))) new) w1) as [w2 ok2].
  reflexivity.
Qed.

(* the leavers' hooks leave the virtual list "old without the leavers"; the enterers are not in it *)
Lemma assign_setup w known ir new :
  Forest w known -> CacheInv w -> is_k w ir KIR = true -> NoDup new ->
  (forall v, In v new -> ~ In v (kids w ir) -> is_k w v KMod = true) ->
  let lv := leavers (kids w ir) new in
  let en := enterers (kids w ir) new in
  let kept := filter (fun x => negb (mem x lv)) (kids w ir) in
  let w1 := fst (fold_ok (fun w v => ml_remove_hook w ir v) lv w) in
  Forest (with_kids w1 ir (kept ++ [])) known /\ CacheInv (with_kids w1 ir (kept ++ [])) /\
  snd (fold_ok (fun w v => ml_remove_hook w ir v) lv w) = true /\
  is_k w1 ir KIR = true /\ (forall v, In v en -> is_k w1 v KMod = true) /\ NoDup en /\
  (forall v, In v en -> ~ In v (kept ++ [])) /\
  (forall x, In x (kept ++ en ++ []) <-> In x new).
Proof.
  intros F C G Hnd Gv lv en kept w1.
  assert (Hlv : forall x, In x lv <-> In x (kids w ir) /\ ~ In x new) by (intro x; apply In_filter_notmem).
  assert (Hen : forall x, In x en <-> In x new /\ ~ In x (kids w ir)) by (intro x; apply In_filter_notmem).
  assert (Hkept : forall x, In x kept <-> In x (kids w ir) /\ In x new).
  { intro x. unfold kept. rewrite In_filter_notmem, Hlv. destruct (in_dec Z.eq_dec x new); tauto. }
  destruct (remove_batch w known ir lv F C G) as [F1 [C1 [Hf1 Hk1]]].
  - apply NoDup_filter. apply (f_nodup w known F).
  - intros v Hv. apply Hlv in Hv. apply Hv.
  - fold w1 in F1, C1, Hk1. fold kept in F1, C1. rewrite app_nil_r.
    split; [exact F1|]. split; [exact C1|]. split; [exact Hf1|]. split; [rewrite Hk1; exact G|].
    split; [intros v Hv; rewrite Hk1; apply Hen in Hv; apply Gv; apply Hv|].
    split; [apply NoDup_filter; exact Hnd|].
    split; [intros v Hv Hi; apply Hen in Hv; apply Hkept in Hi; tauto|].
    intro x. rewrite !in_app_iff, Hkept, Hen. cbn [In]. destruct (in_dec Z.eq_dec x (kids w ir)); tauto.
Qed.

Lemma assign_inv w known ir new :
  Forest w known -> CacheInv w -> is_k w ir KIR = true -> NoDup new ->
  (forall v, In v new -> ~ In v (kids w ir) -> is_k w v KMod = true) ->
  Forest (fst (ml_assign w ir new)) known /\ CacheInv (fst (ml_assign w ir new)) /\ snd (ml_assign w ir new) = true.
Proof.
  intros F C G Hnd Gv. rewrite ml_assign_eq. cbn [fst snd].
  destruct (assign_setup w known ir new F C G Hnd Gv) as [F1 [C1 [Hf1 [G1 [Gv1 [Hnden [Hnin Hall]]]]]]].
  cbv zeta in F1, C1, Hf1, G1, Gv1, Hnden, Hnin, Hall.
  destruct (add_hooks_fold known ir _ _ _ [] F1 C1 G1 Gv1 Hnden Hnin) as [F2 [C2 [Hf2 _]]].
  destruct (relist_inv _ known ir new F2 C2 Hnd) as [F3 C3].
  { intro x. rewrite kids_with_kids_same. symmetry. apply Hall. }
  split; [eapply Forest_weq; [apply with_kids_twice|exact F3]|].
  split; [eapply CacheInv_weq; [apply with_kids_twice|exact C3]|].
  rewrite Hf1, Hf2. reflexivity.
Qed.

Lemma good_assign w known o ir new :
  Forest w known -> CacheInv w -> is_k w ir KIR = true -> NoDup new ->
  (forall v, In v new -> ~ In v (kids w ir) -> is_k w v KMod = true) ->
  step w o = flagged (ml_assign w ir new) -> known_after o known = known -> Good w known o.
Proof.
  intros F C G Hnd Gv Hs Hk. destruct (assign_inv w known ir new F C G Hnd Gv) as [F' [C' Hf]].
  apply (good_ok w known o (fst (ml_assign w ir new))); [|rewrite Hk; exact F'|exact C'].
  rewrite Hs. apply flagged_true. exact Hf.
Qed.

Lemma step_setitem w ir i v k : norm_index i (length (kids w ir)) = Some k ->
  step w (OModSetItem ir i v) = flagged (ml_assign w ir (assign_slice (kids w ir) k (S k) [v])).
Proof. intro H. cbn [step]. rewrite H. reflexivity. Qed.

Lemma step_setslice w ir a b vs :
  step w (OModSetSlice ir a b vs) =
  let l := kids w ir in
  let lo := norm_bound a 0 (length l) in
  let hi := Z.max lo (norm_bound b (Z.of_nat (length l)) (length l)) in
  flagged (ml_assign w ir (assign_slice l (Z.to_nat lo) (Z.to_nat hi) vs)).
Proof. reflexivity. Qed.

(* the elements of an assigned list that were not in the old one are among the assigned values *)
Lemma assign_slice_new_is_value l lo hi vs x : In x (assign_slice l lo hi vs) -> ~ In x l -> In x vs.
Proof.
  intros H Hn. apply In_assign_slice in H. destruct H as [H|[H|H]]; [exact H| |]; exfalso; apply Hn.
  - eapply In_firstn_l. exact H.
  - eapply In_skipn_l. exact H.
Qed.


(* ---- insert / append / extend: insert(i, v) is the slice assignment l[k:k] = [v] ---- *)

Lemma is_k_with_kids w p L x k : is_k (with_kids w p L) x k = is_k w x k.
Proof. reflexivity. Qed.

(* is_k through an assignment *)
Lemma assign_is_k w known ir new :
  Forest w known -> CacheInv w -> is_k w ir KIR = true -> NoDup new ->
  (forall v, In v new -> ~ In v (kids w ir) -> is_k w v KMod = true) ->
  forall x k, is_k (fst (ml_assign w ir new)) x k = is_k w x k.
Proof.
  intros F C G Hnd Gv x k. rewrite ml_assign_eq. cbn [fst].
  destruct (assign_setup w known ir new F C G Hnd Gv) as [F1 [C1 [_ [G1 [Gv1 [Hnden [Hnin _]]]]]]].
  cbv zeta in F1, C1, G1, Gv1, Hnden, Hnin.
  destruct (add_hooks_fold known ir _ _ _ [] F1 C1 G1 Gv1 Hnden Hnin) as [_ [_ [_ Hk2]]].
  rewrite is_k_with_kids, Hk2.
  destruct (remove_batch w known ir (leavers (kids w ir) new) F C G) as [_ [_ [_ Hk1]]].
  - apply NoDup_filter. apply (f_nodup w known F).
  - intros v Hv. unfold leavers in Hv. apply (proj1 (In_filter_notmem _ _ _)) in Hv. apply Hv.
  - apply Hk1.
Qed.

Lemma insert_values_ok w ir k v :
  is_k w v KMod = true ->
  forall x, In x (assign_slice (kids w ir) k k [v]) -> ~ In x (kids w ir) -> is_k w x KMod = true.
Proof.
  intros Hv x Hx Hn. pose proof (assign_slice_new_is_value _ _ _ _ _ Hx Hn) as Hi.
  destruct Hi as [E|[]]. subst x. exact Hv.
Qed.

Lemma insert_inv w known ir i v :
  Forest w known -> CacheInv w -> is_k w ir KIR = true -> is_k w v KMod = true ->
  Forest (fst (ml_insert w ir i v)) known /\ CacheInv (fst (ml_insert w ir i v)) /\ snd (ml_insert w ir i v) = true.
Proof.
  intros F C Hir Hv. unfold ml_insert. cbv zeta.
  apply (assign_inv w known ir _ F C Hir).
  - apply NoDup_assign_slice; [apply le_n|apply (f_nodup w known F)].
  - apply insert_values_ok. exact Hv.
Qed.

(* is_k through a full insert *)
Lemma insert_is_k w known ir i v :
  Forest w known -> CacheInv w -> is_k w ir KIR = true -> is_k w v KMod = true ->
  forall x k, is_k (fst (ml_insert w ir i v)) x k = is_k w x k.
Proof.
  intros F C Hir Hv. unfold ml_insert. cbv zeta.
  apply (assign_is_k w known ir _ F C Hir).
  - apply NoDup_assign_slice; [apply le_n|apply (f_nodup w known F)].
  - apply insert_values_ok. exact Hv.
Qed.

Lemma good_insert w known ir i v :
  Forest w known -> CacheInv w -> op_okb w known (OModInsert ir i v) = true -> Good w known (OModInsert ir i v).
Proof.
  intros F C G. cbn [op_okb] in G. apply andb_true_iff in G. destruct G as [G1 G2].
  destruct (insert_inv w known ir i v F C G1 G2) as [F' [C' Hf]].
  apply (good_ok w known _ (fst (ml_insert w ir i v))); [|exact F'|exact C'].
  rewrite step_insert. apply flagged_true. exact Hf.
Qed.

Lemma good_append w known ir v :
  Forest w known -> CacheInv w -> op_okb w known (OModAppend ir v) = true -> Good w known (OModAppend ir v).
Proof.
  intros F C G. cbn [op_okb] in G. apply andb_true_iff in G. destruct G as [G1 G2].
  destruct (insert_inv w known ir (Z.of_nat (length (kids w ir))) v F C G1 G2) as [F' [C' Hf]].
  apply (good_ok w known _ (fst (ml_insert w ir (Z.of_nat (length (kids w ir))) v))); [|exact F'|exact C'].
  rewrite step_append. apply flagged_true. exact Hf.
Qed.

(* ---- the ir setter of a module (the append half) ---- *)
Lemma good_setparent_mod w known c p :
  Forest w known -> CacheInv w -> op_okb w known (OSetParent c p) = true -> kindof w c = KMod -> Good w known (OSetParent c p).
Proof.
  intros F C G Kc. cbn [op_okb] in G. apply andb_true_iff in G. destruct G as [G Gp].
  apply andb_true_iff in G. destruct G as [Hc _].
  destruct (pre_detach_inv w known c F C Hc Kc) as [F1 [C1 [_ [_ [Hh Hk]]]]].
  pose proof (step_setparent_mod w known c p F C Hc Kc) as Hs.
  destruct p as [ir|].
  - rewrite Kc in Gp. cbn [parent_kind] in Gp. apply andb_true_iff in Gp. destruct Gp as [Hq Kq]. apply kind_eqb_eq in Kq.
    assert (G1 : is_k (pre_detach w c) ir KIR = true) by (apply is_k_spec; rewrite Hh, Hk; auto).
    assert (G2 : is_k (pre_detach w c) c KMod = true) by (apply is_k_spec; rewrite Hh, Hk; auto).
    destruct (insert_inv (pre_detach w c) known ir (Z.of_nat (length (kids (pre_detach w c) ir))) c F1 C1 G1 G2) as [F' [C' Hf]].
    apply (good_ok w known _ (fst (ml_append (pre_detach w c) ir c))); [|exact F'|exact C'].
    rewrite Hs. apply flagged_true. exact Hf.
  - apply (good_ok w known _ (pre_detach w c)); [exact Hs|exact F1|exact C1].
Qed.

(* ---- extend ---- *)
Lemma extend_fold known ir vs : forall w,
  Forest w known -> CacheInv w -> is_k w ir KIR = true -> (forall v, In v vs -> is_k w v KMod = true) ->
  Forest (fst (fold_ok (fun w v => ml_append w ir v) vs w)) known /\
  CacheInv (fst (fold_ok (fun w v => ml_append w ir v) vs w)) /\
  snd (fold_ok (fun w v => ml_append w ir v) vs w) = true.
Proof.
  induction vs as [|v vs IH]; intros w F C G Gv.
  - rewrite fold_ok_nil. cbn [fst snd]. auto.
  - rewrite fold_ok_cons. cbn [fst snd].
    assert (Ha : ml_append w ir v = ml_insert w ir (Z.of_nat (length (kids w ir))) v) by reflexivity. rewrite Ha.
    assert (Hv : is_k w v KMod = true) by (apply Gv; left; reflexivity).
    destruct (insert_inv w known ir (Z.of_nat (length (kids w ir))) v F C G Hv) as [F1 [C1 Hf1]].
    pose proof (insert_is_k w known ir (Z.of_nat (length (kids w ir))) v F C G Hv) as Hk.
    destruct (IH (fst (ml_insert w ir (Z.of_nat (length (kids w ir))) v)) F1 C1) as [F2 [C2 Hf2]].
    + rewrite Hk. exact G.
    + intros x Hx. rewrite Hk. apply Gv. right. exact Hx.
    + refine (conj F2 (conj C2 _)). rewrite Hf1. exact Hf2.
Qed.

Lemma step_extend w ir vs : step w (OModExtend ir vs) = flagged (fold_ok (fun w v => ml_append w ir v) vs w).
Proof. reflexivity. Qed.

Lemma good_extend w known ir vs :
  Forest w known -> CacheInv w -> op_okb w known (OModExtend ir vs) = true -> Good w known (OModExtend ir vs).
Proof.
  intros F C G. cbn [op_okb] in G. apply andb_true_iff in G. destruct G as [G1 G2].
  rewrite forallb_forall in G2.
  destruct (extend_fold known ir vs w F C G1 G2) as [F' [C' Hf]].
  apply (good_ok w known _ (fst (fold_ok (fun w v => ml_append w ir v) vs w))); [|exact F'|exact C'].
  rewrite step_extend. apply flagged_true. exact Hf.
Qed.

(* ---- set item ---- *)
Lemma good_setitem w known ir i v :
  Forest w known -> CacheInv w -> op_okb w known (OModSetItem ir i v) = true -> Good w known (OModSetItem ir i v).
Proof.
  intros F C G. cbn [op_okb] in G. apply andb_true_iff in G. destruct G as [G1 G2].
  destruct (norm_index i (length (kids w ir))) as [k|] eqn:En.
  2:{ apply (good_err w known _ EIndex); [cbn [step]; rewrite En; reflexivity|discriminate|reflexivity|exact F|exact C]. }
  apply (good_assign w known _ ir (assign_slice (kids w ir) k (S k) [v]) F C G1).
  - apply NoDup_assign_slice; [lia|apply (f_nodup w known F)].
  - intros x Hx Hnx. apply (assign_slice_new_is_value _ _ _ _ _ Hx) in Hnx. destruct Hnx as [Hnx|[]]. subst x. exact G2.
  - apply step_setitem. exact En.
  - reflexivity.
Qed.

Lemma good_setslice w known ir a b vs :
  Forest w known -> CacheInv w -> op_okb w known (OModSetSlice ir a b vs) = true -> Good w known (OModSetSlice ir a b vs).
Proof.
  intros F C G. cbn [op_okb] in G. apply andb_true_iff in G. destruct G as [G1 G2]. rewrite forallb_forall in G2.
  pose proof (step_setslice w ir a b vs) as Hs. cbv zeta in Hs.
  set (l := kids w ir) in *. set (lo := norm_bound a 0 (length l)) in *.
  set (hi := Z.max lo (norm_bound b (Z.of_nat (length l)) (length l))) in *.
  apply (good_assign w known _ ir (assign_slice l (Z.to_nat lo) (Z.to_nat hi) vs) F C G1).
  - apply NoDup_assign_slice; [unfold hi; lia|apply (f_nodup w known F)].
  - intros x Hx Hnx. apply G2. apply (assign_slice_new_is_value _ _ _ _ _ Hx Hnx).
  - exact Hs.
  - reflexivity.
Qed.

(* ---- extended-slice assignment: the list assign_ext produces ---- *)

Lemma set_at_length (l : list id) : forall p v, length (set_at p v l) = length l.
Proof.
  induction l as [|y l IH]; intros p v; destruct p as [|p]; cbn [set_at length]; try reflexivity.
  rewrite IH. reflexivity.
Qed.

Lemma nth_set_at_same (l : list id) : forall p v, (p < length l)%nat -> nth_error (set_at p v l) p = Some v.
Proof.
  induction l as [|y l IH]; intros p v H; [cbn in H; lia|].
  destruct p as [|p]; cbn [set_at nth_error]; [reflexivity|]. apply IH. cbn in H. lia.
Qed.

Lemma nth_set_at_other (l : list id) : forall p v q, q <> p -> nth_error (set_at p v l) q = nth_error l q.
Proof.
  induction l as [|y l IH]; intros p v q H; [destruct p; reflexivity|].
  destruct p as [|p]; destruct q as [|q]; cbn [set_at nth_error]; try reflexivity; [contradiction|].
  apply IH. intro E. apply H. rewrite E. reflexivity.
Qed.

Lemma set_positions_length : forall ps vs l, length (set_positions l ps vs) = length l.
Proof.
  induction ps as [|p ps IH]; intros vs l; [reflexivity|]. destruct vs as [|v vs]; [reflexivity|].
  cbn [set_positions]. rewrite IH. apply set_at_length.
Qed.

(* a position that is not assigned keeps its element *)
Lemma nth_set_positions_out : forall ps vs l q, ~ In q ps -> nth_error (set_positions l ps vs) q = nth_error l q.
Proof.
  induction ps as [|p ps IH]; intros vs l q H; [reflexivity|]. destruct vs as [|v vs]; [reflexivity|].
  cbn [set_positions]. rewrite IH by (intro Hi; apply H; right; exact Hi).
  apply nth_set_at_other. intro E. apply H. left. symmetry. exact E.
Qed.

(* the i-th position of the range receives the i-th value *)
Lemma nth_set_positions_in : forall ps vs l i p v,
  NoDup ps -> (forall p, In p ps -> (p < length l)%nat) -> nth_error ps i = Some p -> nth_error vs i = Some v ->
  nth_error (set_positions l ps vs) p = Some v.
Proof.
  induction ps as [|p0 ps IH]; intros vs l i p v Hnd Hlt Hp Hv; [destruct i; discriminate|].
  destruct vs as [|v0 vs]; [destruct i; discriminate|]. inversion Hnd as [|p0' ps' Hnin Hnd']. subst.
  cbn [set_positions]. destruct i as [|i]; cbn [nth_error] in Hp, Hv.
  - inversion Hp. inversion Hv. subst. rewrite nth_set_positions_out by exact Hnin.
    apply nth_set_at_same. apply Hlt. left. reflexivity.
  - apply (IH vs (set_at p0 v0 l) i p v Hnd'); [|exact Hp|exact Hv].
    intros q Hq. rewrite set_at_length. apply Hlt. right. exact Hq.
Qed.

Lemma In_set_positions l ps vs :
  length vs = length ps -> NoDup ps -> (forall p, In p ps -> (p < length l)%nat) ->
  forall x, In x (set_positions l ps vs) <-> In x vs \/ (exists q, nth_error l q = Some x /\ ~ In q ps).
Proof.
  intros Hlen Hnd Hlt x. split.
  - intro H. apply In_nth_error in H. destruct H as [q Hq].
    destruct (in_dec Nat.eq_dec q ps) as [Hi|Hi].
    + left. apply In_nth_error in Hi. destruct Hi as [i Hi].
      assert (Hil : (i < length vs)%nat) by (rewrite Hlen; apply nth_error_Some; rewrite Hi; discriminate).
      destruct (nth_error vs i) as [v|] eqn:Ev; [|apply nth_error_None in Ev; lia].
      rewrite (nth_set_positions_in ps vs l i q v Hnd Hlt Hi Ev) in Hq. inversion Hq. subst.
      eapply nth_error_In. exact Ev.
    + right. exists q. rewrite nth_set_positions_out in Hq by exact Hi. split; assumption.
  - intros [H|[q [Hq Hi]]].
    + apply In_nth_error in H. destruct H as [i Hi].
      assert (Hil : (i < length ps)%nat) by (rewrite <- Hlen; apply nth_error_Some; rewrite Hi; discriminate).
      destruct (nth_error ps i) as [p|] eqn:Ep; [|apply nth_error_None in Ep; lia].
      eapply nth_error_In. apply (nth_set_positions_in ps vs l i p x Hnd Hlt Ep Hi).
    + eapply nth_error_In. rewrite nth_set_positions_out by exact Hi. exact Hq.
Qed.

(* last_assigned: the last position of the range holding x, if any *)
Lemma last_assigned_some new0 x : forall ps q, last_assigned new0 ps x = Some q -> In q ps /\ nth_error new0 q = Some x.
Proof.
  induction ps as [|p ps IH]; intros q H; [discriminate|]. cbn [last_assigned] in H.
  destruct (last_assigned new0 ps x) as [q'|] eqn:E.
  - inversion H. subst. destruct (IH q eq_refl) as [H1 H2]. split; [right; exact H1|exact H2].
  - destruct (nth_error new0 p) as [y|] eqn:Ey; [|discriminate].
    destruct (Z.eqb_spec y x) as [Eyx|Eyx]; [|discriminate]. inversion H. subst. split; [left; reflexivity|exact Ey].
Qed.

Lemma last_assigned_none new0 x : forall ps, last_assigned new0 ps x = None -> forall p, In p ps -> nth_error new0 p <> Some x.
Proof.
  induction ps as [|p0 ps IH]; intros H p Hp; [destruct Hp|]. cbn [last_assigned] in H.
  destruct (last_assigned new0 ps x) as [q'|] eqn:E; [discriminate|].
  destruct Hp as [Hp|Hp]; [subst p0|apply IH; [reflexivity|exact Hp]].
  destruct (nth_error new0 p) as [y|] eqn:Ey; [|discriminate].
  destruct (Z.eqb_spec y x) as [Eyx|Eyx]; [discriminate|]. intro Hc. inversion Hc. contradiction.
Qed.

(* x survives at position pos *)
Definition kept_at (new0 : list id) (ps : list nat) (pos : nat) (x : id) : Prop :=
  last_assigned new0 ps x = None \/ last_assigned new0 ps x = Some pos.

Lemma keep_head new0 ps pos y x :
  In x (match last_assigned new0 ps y with Some q => if Nat.eqb q pos then [y] else [] | None => [y] end) <->
  x = y /\ kept_at new0 ps pos y.
Proof.
  unfold kept_at. destruct (last_assigned new0 ps y) as [q|].
  - destruct (Nat.eqb_spec q pos) as [E|E].
    + subst q. split; [intros [H|[]]; split; [symmetry; exact H|right; reflexivity]|intros [H _]; left; symmetry; exact H].
    + split; [intros []|]. intros [_ [H|H]]; [discriminate|]. inversion H. contradiction.
  - split; [intros [H|[]]; split; [symmetry; exact H|left; reflexivity]|intros [H _]; left; symmetry; exact H].
Qed.

Lemma In_keep_last_from new0 ps x : forall rest pos,
  In x (keep_last_from pos new0 rest ps) <-> exists j, nth_error rest j = Some x /\ kept_at new0 ps (pos + j) x.
Proof.
  induction rest as [|y r IH]; intro pos.
  - split; [intros []|]. intros [j [H _]]. destruct j; discriminate.
  - cbn [keep_last_from]. rewrite in_app_iff, keep_head, IH. split.
    + intros [[E K]|[j [Hj K]]].
      * subst y. exists 0%nat. rewrite Nat.add_0_r. split; [reflexivity|exact K].
      * exists (S j). rewrite Nat.add_succ_r. split; [exact Hj|exact K].
    + intros [j [Hj K]]. destruct j as [|j].
      * left. cbn [nth_error] in Hj. inversion Hj. subst y. rewrite Nat.add_0_r in K. split; [reflexivity|exact K].
      * right. exists j. rewrite Nat.add_succ_r in K. split; [exact Hj|exact K].
Qed.

Lemma NoDup_keep_last_from new0 ps : forall rest pos,
  (forall i j x, nth_error rest i = Some x -> nth_error rest j = Some x ->
                 kept_at new0 ps (pos + i) x -> kept_at new0 ps (pos + j) x -> i = j) ->
  NoDup (keep_last_from pos new0 rest ps).
Proof.
  induction rest as [|y r IH]; intros pos H; [constructor|]. cbn [keep_last_from].
  apply NoDup_app_intro.
  - destruct (last_assigned new0 ps y) as [q|]; [destruct (Nat.eqb q pos)|];
      try constructor; try (intros []); constructor.
  - apply IH. intros i j x Hi Hj Ki Kj.
    assert (E : S i = S j).
    { apply (H (S i) (S j) x); [exact Hi|exact Hj|rewrite Nat.add_succ_r; exact Ki|rewrite Nat.add_succ_r; exact Kj]. }
    inversion E. reflexivity.
  - intros x H1 H2. apply keep_head in H1. destruct H1 as [E K]. subst y.
    apply In_keep_last_from in H2. destruct H2 as [j [Hj Kj]].
    assert (E : 0%nat = S j).
    { apply (H 0%nat (S j) x); [reflexivity|exact Hj|rewrite Nat.add_0_r; exact K|rewrite Nat.add_succ_r; exact Kj]. }
    discriminate.
Qed.

Lemma keep_last_from_id new0 ps : forall rest pos,
  (forall j x, nth_error rest j = Some x -> kept_at new0 ps (pos + j) x) -> keep_last_from pos new0 rest ps = rest.
Proof.
  induction rest as [|y r IH]; intros pos H; [reflexivity|]. cbn [keep_last_from].
  rewrite (IH (S pos)).
  - pose proof (H 0%nat y eq_refl) as K. rewrite Nat.add_0_r in K. destruct K as [K|K]; rewrite K; [reflexivity|].
    rewrite Nat.eqb_refl. reflexivity.
  - intros j x Hj. replace (S pos + j)%nat with (pos + S j)%nat by lia. apply (H (S j) x). exact Hj.
Qed.

(* dropping the earlier occurrences changes no membership *)
Lemma In_keep_last new0 ps x : In x (keep_last_from 0 new0 new0 ps) <-> In x new0.
Proof.
  rewrite In_keep_last_from. split.
  - intros [j [Hj _]]. eapply nth_error_In. exact Hj.
  - intro H. destruct (last_assigned new0 ps x) as [q|] eqn:E.
    + destruct (last_assigned_some new0 x ps q E) as [_ Hq]. exists q. split; [exact Hq|right; exact E].
    + apply In_nth_error in H. destruct H as [j Hj]. exists j. split; [exact Hj|left; exact E].
Qed.

Lemma In_assign_ext_set l ps vs x : In x (assign_ext l ps vs) <-> In x (set_positions l ps vs).
Proof. unfold assign_ext. apply In_keep_last. Qed.

(* the members afterwards: the assigned values, and the elements at the positions that were not assigned *)
Lemma In_assign_ext l ps vs :
  length vs = length ps -> NoDup ps -> (forall p, In p ps -> (p < length l)%nat) ->
  forall x, In x (assign_ext l ps vs) <-> In x vs \/ (exists q, nth_error l q = Some x /\ ~ In q ps).
Proof. intros Hlen Hnd Hlt x. rewrite In_assign_ext_set. apply In_set_positions; assumption. Qed.

(* no duplicates afterwards -- whatever the positions and the values are *)
Lemma NoDup_assign_ext_gen l ps vs : NoDup l -> NoDup (assign_ext l ps vs).
Proof.
  intro Hnd. unfold assign_ext. set (new0 := set_positions l ps vs).
  apply NoDup_keep_last_from. intros i j x Hi Hj Ki Kj. cbn [Nat.add] in Ki, Kj.
  destruct Ki as [Ki|Ki].
  - assert (Hout : forall k, nth_error new0 k = Some x -> nth_error l k = Some x).
    { intros k Hk. unfold new0 in Hk. rewrite nth_set_positions_out in Hk; [exact Hk|].
      intro Hin. apply (last_assigned_none new0 x ps Ki k Hin). exact Hk. }
    apply Hout in Hi. apply Hout in Hj.
    apply (proj1 (NoDup_nth_error l) Hnd); [apply nth_error_Some; rewrite Hi; discriminate|].
    rewrite Hi, Hj. reflexivity.
  - destruct Kj as [Kj|Kj]; rewrite Ki in Kj; [discriminate|]. inversion Kj. reflexivity.
Qed.

Lemma NoDup_assign_ext l ps vs :
  NoDup l -> NoDup ps -> (forall p, In p ps -> (p < length l)%nat) -> length vs = length ps -> NoDup (assign_ext l ps vs).
Proof. intros Hnd _ _ _. apply NoDup_assign_ext_gen. exact Hnd. Qed.

(* nothing is dropped exactly when the built-in list's result has no duplicates *)
Lemma assign_ext_id_iff l ps vs :
  NoDup l -> (assign_ext l ps vs = set_positions l ps vs <-> NoDup (set_positions l ps vs)).
Proof.
  intro Hnd. split.
  - intro E. rewrite <- E. apply NoDup_assign_ext_gen. exact Hnd.
  - intro Hn. unfold assign_ext. set (new0 := set_positions l ps vs) in *. apply keep_last_from_id.
    intros j x Hj. cbn [Nat.add]. destruct (last_assigned new0 ps x) as [q|] eqn:E; [|left; exact E].
    right. destruct (last_assigned_some new0 x ps q E) as [_ Hq]. rewrite E. f_equal.
    apply (proj1 (NoDup_nth_error new0) Hn); [apply nth_error_Some; rewrite Hq; discriminate|].
    rewrite Hq, Hj. reflexivity.
Qed.

(* distinct values, none of which stays in the list outside the assigned positions: the built-in list has no duplicates *)
Lemma NoDup_set_positions l ps vs :
  NoDup l -> NoDup ps -> (forall p, In p ps -> (p < length l)%nat) -> length vs = length ps -> NoDup vs ->
  (forall v, In v vs -> forall q, nth_error l q = Some v -> In q ps) ->
  NoDup (set_positions l ps vs).
Proof.
  intros Hnd Hndp Hlt Hlen Hndv Hsep. set (new0 := set_positions l ps vs).
  assert (Hin : forall k x, In k ps -> nth_error new0 k = Some x -> exists i, nth_error ps i = Some k /\ nth_error vs i = Some x).
  { intros k x Hk Hx. apply In_nth_error in Hk. destruct Hk as [i Hi]. exists i. split; [exact Hi|].
    assert (Hil : (i < length vs)%nat) by (rewrite Hlen; apply nth_error_Some; rewrite Hi; discriminate).
    destruct (nth_error vs i) as [v|] eqn:Ev; [|apply nth_error_None in Ev; lia].
    unfold new0 in Hx. rewrite (nth_set_positions_in ps vs l i k v Hndp Hlt Hi Ev) in Hx. exact Hx. }
  assert (Hout : forall k x, ~ In k ps -> nth_error new0 k = Some x -> nth_error l k = Some x).
  { intros k x Hk Hx. unfold new0 in Hx. rewrite nth_set_positions_out in Hx by exact Hk. exact Hx. }
  apply NoDup_nth_error. intros i j Hi E.
  destruct (nth_error new0 i) as [x|] eqn:Ex; [|apply nth_error_None in Ex; lia]. symmetry in E.
  destruct (in_dec Nat.eq_dec i ps) as [Pi|Pi]; destruct (in_dec Nat.eq_dec j ps) as [Pj|Pj].
  - destruct (Hin i x Pi Ex) as [a [Ha Va]]. destruct (Hin j x Pj E) as [b [Hb Vb]].
    assert (Eab : a = b).
    { apply (proj1 (NoDup_nth_error vs) Hndv); [apply nth_error_Some; rewrite Va; discriminate|]. rewrite Va, Vb. reflexivity. }
    subst b. rewrite Ha in Hb. inversion Hb. reflexivity.
  - exfalso. destruct (Hin i x Pi Ex) as [a [_ Va]]. apply Pj. apply (Hsep x); [eapply nth_error_In; exact Va|].
    apply Hout; assumption.
  - exfalso. destruct (Hin j x Pj E) as [a [_ Va]]. apply Pi. apply (Hsep x); [eapply nth_error_In; exact Va|].
    apply Hout; assumption.
  - apply (proj1 (NoDup_nth_error l) Hnd).
    + apply nth_error_Some. rewrite (Hout i x Pi Ex). discriminate.
    + rewrite (Hout i x Pi Ex), (Hout j x Pj E). reflexivity.
Qed.

(* ... and then assign_ext is the built-in list's result: the values at the positions of the range, the rest untouched *)
Lemma assign_ext_separate l ps vs :
  NoDup l -> NoDup ps -> (forall p, In p ps -> (p < length l)%nat) -> length vs = length ps -> NoDup vs ->
  (forall v, In v vs -> forall q, nth_error l q = Some v -> In q ps) ->
  assign_ext l ps vs = set_positions l ps vs.
Proof.
  intros Hnd Hndp Hlt Hlen Hndv Hsep. apply (assign_ext_id_iff l ps vs Hnd).
  apply NoDup_set_positions; assumption.
Qed.

(* the premise is exact: under the other premises, nothing is dropped only if the values are distinct and none stays outside *)
Lemma assign_ext_separate_conv l ps vs :
  NoDup l -> NoDup ps -> (forall p, In p ps -> (p < length l)%nat) -> length vs = length ps ->
  assign_ext l ps vs = set_positions l ps vs ->
  NoDup vs /\ (forall v, In v vs -> forall q, nth_error l q = Some v -> In q ps).
Proof.
  intros Hnd Hndp Hlt Hlen E. apply (assign_ext_id_iff l ps vs Hnd) in E. set (new0 := set_positions l ps vs) in *.
  assert (Hval : forall i v, nth_error vs i = Some v -> exists p, nth_error ps i = Some p /\ nth_error new0 p = Some v).
  { intros i v Hv.
    assert (Hil : (i < length ps)%nat) by (rewrite <- Hlen; apply nth_error_Some; rewrite Hv; discriminate).
    destruct (nth_error ps i) as [p|] eqn:Ep; [|apply nth_error_None in Ep; lia].
    exists p. split; [reflexivity|]. apply (nth_set_positions_in ps vs l i p v Hndp Hlt Ep Hv). }
  split.
  - apply NoDup_nth_error. intros i j Hi Eij.
    destruct (nth_error vs i) as [v|] eqn:Ev; [|apply nth_error_None in Ev; lia]. symmetry in Eij.
    destruct (Hval i v Ev) as [p [Hp Np]]. destruct (Hval j v Eij) as [q [Hq Nq]].
    assert (Epq : p = q).
    { apply (proj1 (NoDup_nth_error new0) E); [apply nth_error_Some; rewrite Np; discriminate|]. rewrite Np, Nq. reflexivity. }
    subst q. apply (proj1 (NoDup_nth_error ps) Hndp); [apply nth_error_Some; rewrite Hp; discriminate|].
    rewrite Hp, Hq. reflexivity.
  - intros v Hv q Hq. destruct (in_dec Nat.eq_dec q ps) as [Pq|Pq]; [exact Pq|exfalso].
    apply In_nth_error in Hv. destruct Hv as [i Hi]. destruct (Hval i v Hi) as [p [Hp Np]].
    assert (Nq : nth_error new0 q = Some v) by (unfold new0; rewrite nth_set_positions_out by exact Pq; exact Hq).
    assert (Epq : p = q).
    { apply (proj1 (NoDup_nth_error new0) E); [apply nth_error_Some; rewrite Np; discriminate|]. rewrite Np, Nq. reflexivity. }
    subst q. apply Pq. eapply nth_error_In. exact Hp.
Qed.

(* reading the same slice back returns what was written (the built-in list's l[a:b:c] = vs; l[a:b:c] == vs) *)
Lemma gather_written (new : list Z) : forall ps (vs : list Z), length vs = length ps ->
  (forall i p v, nth_error ps i = Some p -> nth_error vs i = Some v -> nth_error new p = Some v) ->
  SeqOps.gather new ps = vs.
Proof.
  induction ps as [|p ps IH]; intros vs Hlen H; destruct vs as [|v vs]; try discriminate Hlen; [reflexivity|].
  cbn [SeqOps.gather]. rewrite (H 0%nat p v eq_refl eq_refl). f_equal. apply IH; [cbn in Hlen; lia|].
  intros i q u Hi Hu. apply (H (S i) q u); assumption.
Qed.

Theorem set_positions_read_back l a b c vs s e st :
  SeqOps.py_slice_indices a b c (length l) = Ok (s, e, st) ->
  let ps := SeqOps.py_range_positions s e st (length l) in
  length vs = length ps ->
  SeqOps.py_getslice (set_positions l ps vs) a b c = Ok vs.
Proof.
  intros E ps Hlen. destruct (SeqOpsProofs.py_range_positions_NoDup _ _ _ _ _ _ _ E) as (_ & _ & Hnd & Hlt).
  unfold SeqOps.py_getslice. rewrite set_positions_length, E. fold ps. f_equal. apply gather_written; [exact Hlen|].
  intros i p v Hi Hv. apply (nth_set_positions_in ps vs l i p v Hnd Hlt Hi Hv).
Qed.

(* the elements of the produced list that were not in the old one are among the assigned values *)
Lemma set_at_incl (l : list id) : forall p v x, In x (set_at p v l) -> In x l \/ x = v.
Proof.
  induction l as [|y l IH]; intros p v x H; [left; destruct p; exact H|].
  destruct p as [|p]; cbn [set_at] in H.
  - destruct H as [H|H]; [right; symmetry; exact H|left; right; exact H].
  - destruct H as [H|H]; [left; left; exact H|].
    destruct (IH p v x H) as [H1|H1]; [left; right; exact H1|right; exact H1].
Qed.

Lemma set_positions_incl : forall ps vs l x, In x (set_positions l ps vs) -> In x l \/ In x vs.
Proof.
  induction ps as [|p ps IH]; intros vs l x H; [left; exact H|].
  destruct vs as [|v vs]; [left; exact H|]. cbn [set_positions] in H.
  destruct (IH vs (set_at p v l) x H) as [H1|H1].
  - destruct (set_at_incl l p v x H1) as [H2|H2]; [left; exact H2|right; left; symmetry; exact H2].
  - right; right; exact H1.
Qed.

Lemma assign_ext_new_is_value l ps vs x : In x (assign_ext l ps vs) -> ~ In x l -> In x vs.
Proof.
  intros H Hn. apply In_assign_ext_set in H. apply set_positions_incl in H. destruct H as [H|H]; [contradiction|exact H].
Qed.

(* ---- extended-slice assignment: the operation ---- *)

Lemma slice_indices_err a b c len er : SeqOps.py_slice_indices a b c len = Err er -> er = EValue /\ c = 0.
Proof.
  unfold SeqOps.py_slice_indices. cbv zeta. destruct (Z.eqb_spec c 0) as [E|E]; intro H; [|discriminate].
  inversion H. split; [reflexivity|exact E].
Qed.

Lemma step_setext w ir a b c vs s e st :
  SeqOps.py_slice_indices a b c (length (kids w ir)) = Ok (s, e, st) -> c <> 1 ->
  length vs = length (SeqOps.py_range_positions s e st (length (kids w ir))) ->
  step w (OModSetExt ir a b c vs) =
  flagged (ml_assign w ir (assign_ext (kids w ir) (SeqOps.py_range_positions s e st (length (kids w ir))) vs)).
Proof.
  intros E Hc Hlen. destruct (SeqOpsProofs.py_range_positions_NoDup _ _ _ _ _ _ _ E) as [Hst _].
  cbn [step]. cbv zeta. rewrite E. cbv beta iota. subst st.
  destruct (Z.eqb_spec c 1) as [H1|H1]; [contradiction|].
  rewrite Hlen, Nat.eqb_refl. reflexivity.
Qed.

(* ValueError: attempt to assign sequence of size n to extended slice of size m *)
Lemma step_setext_len w ir a b c vs s e st :
  SeqOps.py_slice_indices a b c (length (kids w ir)) = Ok (s, e, st) -> c <> 1 ->
  length vs <> length (SeqOps.py_range_positions s e st (length (kids w ir))) ->
  step w (OModSetExt ir a b c vs) = Err EValue.
Proof.
  intros E Hc Hlen. destruct (SeqOpsProofs.py_range_positions_NoDup _ _ _ _ _ _ _ E) as [Hst _].
  cbn [step]. cbv zeta. rewrite E. cbv beta iota. subst st.
  destruct (Z.eqb_spec c 1) as [H1|H1]; [contradiction|].
  destruct (Nat.eqb_spec (length vs) (length (SeqOps.py_range_positions s e c (length (kids w ir))))) as [H2|H2];
    [contradiction|reflexivity].
Qed.

(* ValueError: slice step cannot be zero *)
Lemma step_setext_zero w ir a b vs : step w (OModSetExt ir a b 0 vs) = Err EValue.
Proof. reflexivity. Qed.

Lemma good_setext w known ir a b c vs :
  Forest w known -> CacheInv w -> op_okb w known (OModSetExt ir a b c vs) = true -> Good w known (OModSetExt ir a b c vs).
Proof.
  intros F C G. cbn [op_okb] in G. apply andb_true_iff in G. destruct G as [G G3].
  apply andb_true_iff in G. destruct G as [G1 G2]. rewrite forallb_forall in G2.
  apply negb_true_iff in G3. apply Z.eqb_neq in G3.
  destruct (SeqOps.py_slice_indices a b c (length (kids w ir))) as [[[s e] st]|er] eqn:E.
  - set (ps := SeqOps.py_range_positions s e st (length (kids w ir))).
    destruct (Nat.eq_dec (length vs) (length ps)) as [Hlen|Hlen].
    + apply (good_assign w known _ ir (assign_ext (kids w ir) ps vs) F C G1).
      * apply NoDup_assign_ext_gen. apply (f_nodup w known F).
      * intros x Hx Hnx. apply G2. apply (assign_ext_new_is_value _ _ _ _ Hx Hnx).
      * apply step_setext; assumption.
      * reflexivity.
    + apply (good_err w known _ EValue); [eapply step_setext_len; eassumption|discriminate|reflexivity|exact F|exact C].
  - destruct (slice_indices_err _ _ _ _ _ E) as [_ ->].
    apply (good_err w known _ EValue); [apply step_setext_zero|discriminate|reflexivity|exact F|exact C].
Qed.

(* ================================================================== *)
(* main theorems                                                       *)
(* ================================================================== *)

Theorem f2_good : forall w known o,
  Forest w known -> CacheInv w -> op_okb w known o = true -> F2 w o -> Good w known o.
Proof.
  intros w known o F C G H. destruct o; cbn [F2] in H; try contradiction.
  - apply good_new; assumption.
  - apply good_setparent_mod; assumption.
  - apply good_append; assumption.
  - apply good_insert; assumption.
  - apply good_extend; assumption.
  - apply good_remove; assumption.
  - apply (good_del w known ir i); [assumption|assumption|exact G|apply step_pop|reflexivity].
  - apply (good_del w known ir i); [assumption|assumption|exact G|apply step_delitem|reflexivity].
  - apply good_delslice; assumption.
  - apply good_setitem; assumption.
  - apply good_setslice; assumption.
  - apply good_setext; assumption.
  - apply good_clear; assumption.
  - apply good_reverse; assumption.
Qed.

Theorem f2_preserves : forall w known o,
  Forest w known -> CacheInv w -> op_okb w known o = true -> F2 w o ->
  Forest (step' w o) (known_after o known) /\ CacheInv (step' w o).
Proof. intros w known o F C G H. apply (f2_good w known o F C G H). Qed.

Theorem f2_no_keyerror : forall w known o,
  Forest w known -> CacheInv w -> op_okb w known o = true -> F2 w o -> step w o <> Err EKey.
Proof. intros w known o F C G H. apply (f2_good w known o F C G H). Qed.


(* ================================================================== *)
(* effect lemmas                                                       *)
(* ================================================================== *)

Lemma with_par_twice x p q : with_par (with_par x p) q = with_par x q.
Proof. reflexivity. Qed.

(* a module is in nobody's list but its owner's; non-IR nodes never list modules *)
Lemma kids_pre_detach w known v :
  Forest w known -> forall x, kids (pre_detach w v) x = remove_id v (kids w x).
Proof.
  intros F x. unfold pre_detach. destruct (par w v) as [old|] eqn:E.
  - rewrite kids_detach. destruct (Z.eqb_spec x old) as [E1|E1].
    + subst. apply upd_same.
    + rewrite upd_other by exact E1. symmetry. apply remove_id_notin. intro H.
      apply (f_two_ended w known F) in H. congruence.
  - symmetry. apply remove_id_notin. intro H. apply (f_two_ended w known F) in H. congruence.
Qed.

Lemma remove_mod_nonir w known v x :
  Forest w known -> kindof w v = KMod -> kindof w x <> KIR -> remove_id v (kids w x) = kids w x.
Proof.
  intros F Kv Kx. apply remove_id_notin. intro H. apply (f_two_ended w known F) in H.
  destruct (parent_of_mod_is_ir w known v x F Kv H) as [K _]. contradiction.
Qed.

Lemma filter_length_le' {X} (p : X -> bool) l : (length (filter p l) <= length l)%nat.
Proof. induction l as [|y l IH]; [cbn; lia|]. cbn [filter]. destruct (p y); cbn [length]; lia. Qed.

Lemma getn_pre_detach_other w v x : x <> v -> getn (pre_detach w v) x = getn w x.
Proof.
  intro H. unfold pre_detach. destruct (par w v) as [old|]; [|reflexivity].
  rewrite getn_detach. destruct (Z.eqb_spec x v); [contradiction|reflexivity].
Qed.

Lemma nodes_pre_detach_other w v x : x <> v -> nodes (pre_detach w v) x = nodes w x.
Proof.
  intro H. unfold pre_detach. destruct (par w v) as [old|]; [|reflexivity].
  rewrite nodes_detach. destruct (Z.eqb_spec x v); [contradiction|reflexivity].
Qed.

Lemma with_par_getn_pre_detach w v q : with_par (getn (pre_detach w v) v) q = with_par (getn w v) q.
Proof.
  unfold pre_detach. destruct (par w v) as [old|]; [|reflexivity].
  rewrite getn_detach, Z.eqb_refl. reflexivity.
Qed.

Lemma nodes_pre_detach_same w v : has w v = true -> nodes (pre_detach w v) v = Some (with_par (getn w v) None).
Proof.
  intro H. unfold pre_detach. destruct (par w v) as [old|] eqn:E.
  - rewrite nodes_detach, Z.eqb_refl. reflexivity.
  - unfold has in H. unfold par in E. unfold getn in *. destruct (nodes w v) as [nd|]; [|discriminate].
    destruct nd as [a1 a2 a3 a4 a5 a6 a7 a8]. cbn in E. subst. reflexivity.
Qed.

(* ---------- insert ---------- *)
Lemma clamp_insert_le i len : (clamp_insert i len <= len)%nat.
Proof. unfold clamp_insert. destruct (Z.ltb_spec i 0); lia. Qed.

Lemma clamp_insert_big i len : Z.of_nat len <= i -> clamp_insert i len = len.
Proof. intro H. unfold clamp_insert. destruct (Z.ltb_spec i 0); lia. Qed.

(* (insert / append / extend: after assign_closed, below) *)

(* ---------- what detach does (remove / pop / del item / ir setter to None) ---------- *)
Lemma detach_effects w known ir v :
  Forest w known -> In v (kids w ir) ->
  kids (detach w ir v) ir = remove_id v (kids w ir) /\
  (forall x, x <> ir -> kids (detach w ir v) x = kids w x) /\
  (forall x, nodes (detach w ir v) x = if x =? v then Some (with_par (getn w v) None) else nodes w x) /\
  par (detach w ir v) v = None /\
  (forall x, x <> ir -> cache (detach w ir v) x = cache w x).
Proof.
  intros F H. split; [apply kids_detach_same|]. split; [intros x Hx; apply kids_detach_other; exact Hx|].
  split; [intro x; apply nodes_detach|]. split; [apply par_detach_same|].
  intros x Hx. rewrite cache_detach. apply upd_other. exact Hx.
Qed.

Theorem remove_effect_in w known ir v :
  Forest w known -> CacheInv w -> op_okb w known (OModRemove ir v) = true -> In v (kids w ir) ->
  exists i, index_of v (kids w ir) = Some i /\
    step w (OModRemove ir v) = Ok (detach w ir v) /\
    kids (detach w ir v) ir = remove_at i (kids w ir) /\
    kids (detach w ir v) ir = remove_id v (kids w ir) /\
    (forall x, x <> ir -> kids (detach w ir v) x = kids w x) /\
    (forall x, nodes (detach w ir v) x = if x =? v then Some (with_par (getn w v) None) else nodes w x) /\
    par (detach w ir v) v = None.
Proof.
  intros F C G H. cbn [op_okb] in G. apply andb_true_iff in G. destruct G as [G1 _].
  destruct (index_of_In v (kids w ir) H) as [i Hi]. exists i. split; [exact Hi|].
  split; [apply (step_remove_in w known); assumption|].
  destruct (detach_effects w known ir v F H) as [H1 [H2 [H3 [H4 _]]]].
  split; [|auto]. rewrite H1. symmetry. apply remove_at_nth_nodup; [apply (f_nodup w known F)|apply index_of_nth; exact Hi].
Qed.

Theorem remove_effect_notin w ir v : ~ In v (kids w ir) -> step w (OModRemove ir v) = Err EValue.
Proof. apply step_remove_notin. Qed.

Theorem del_effect_some w known ir i k o :
  Forest w known -> CacheInv w -> is_k w ir KIR = true -> step w o = del_step w ir i ->
  norm_index i (length (kids w ir)) = Some k ->
  exists v, nth_error (kids w ir) k = Some v /\
    step w o = Ok (detach w ir v) /\
    kids (detach w ir v) ir = remove_at k (kids w ir) /\
    (forall x, x <> ir -> kids (detach w ir v) x = kids w x) /\
    (forall x, nodes (detach w ir v) x = if x =? v then Some (with_par (getn w v) None) else nodes w x) /\
    par (detach w ir v) v = None.
Proof.
  intros F C G Hs Hn. destruct (del_step_some w known ir i k F C G Hn) as [v [Hv Hd]].
  exists v. split; [exact Hv|]. split; [congruence|].
  destruct (detach_effects w known ir v F (nth_error_In _ _ Hv)) as [H1 [H2 [H3 [H4 _]]]].
  split; [|auto]. rewrite H1. symmetry. apply remove_at_nth_nodup; [apply (f_nodup w known F)|exact Hv].
Qed.

Theorem pop_effect_some w known ir i k :
  Forest w known -> CacheInv w -> op_okb w known (OModPop ir i) = true -> norm_index i (length (kids w ir)) = Some k ->
  exists v, nth_error (kids w ir) k = Some v /\
    step w (OModPop ir i) = Ok (detach w ir v) /\
    kids (detach w ir v) ir = remove_at k (kids w ir) /\
    (forall x, x <> ir -> kids (detach w ir v) x = kids w x) /\
    (forall x, nodes (detach w ir v) x = if x =? v then Some (with_par (getn w v) None) else nodes w x) /\
    par (detach w ir v) v = None.
Proof. intros F C G. apply (del_effect_some w known ir i k _ F C G (step_pop w ir i)). Qed.

Theorem delitem_effect_some w known ir i k :
  Forest w known -> CacheInv w -> op_okb w known (OModDelItem ir i) = true -> norm_index i (length (kids w ir)) = Some k ->
  exists v, nth_error (kids w ir) k = Some v /\
    step w (OModDelItem ir i) = Ok (detach w ir v) /\
    kids (detach w ir v) ir = remove_at k (kids w ir) /\
    (forall x, x <> ir -> kids (detach w ir v) x = kids w x) /\
    (forall x, nodes (detach w ir v) x = if x =? v then Some (with_par (getn w v) None) else nodes w x) /\
    par (detach w ir v) v = None.
Proof. intros F C G. apply (del_effect_some w known ir i k _ F C G (step_delitem w ir i)). Qed.

Theorem pop_effect_none w ir i : norm_index i (length (kids w ir)) = None -> step w (OModPop ir i) = Err EIndex.
Proof. intro H. rewrite step_pop. apply del_step_none. exact H. Qed.

Theorem delitem_effect_none w ir i : norm_index i (length (kids w ir)) = None -> step w (OModDelItem ir i) = Err EIndex.
Proof. intro H. rewrite step_delitem. apply del_step_none. exact H. Qed.

(* ---------- reverse ---------- *)
Theorem reverse_effect w ir :
  exists w', step w (OModReverse ir) = Ok w' /\ kids w' ir = rev (kids w ir) /\
    (forall x, x <> ir -> kids w' x = kids w x) /\ (forall x, nodes w' x = nodes w x) /\ (forall x, cache w' x = cache w x).
Proof.
  exists (with_kids w ir (rev (kids w ir))). split; [apply step_reverse|]. split; [apply kids_with_kids_same|].
  split; [intros x Hx; apply kids_with_kids_other; exact Hx|]. split; intro x; reflexivity.
Qed.

(* ---------- new ---------- *)
Theorem new_effect w known n k u a s f nm p :
  Forest w known -> op_okb w known (ONew n k u a s f nm p) = true ->
  exists w', step w (ONew n k u a s f nm p) = Ok w' /\
    par w' n = None /\ kids w' n = [] /\
    nodes w' n = Some (new_node k u a s f nm p) /\
    (forall x, x <> n -> nodes w' x = nodes w x) /\
    (forall x, kids w' x = kids w x) /\
    (forall x, x <> n -> cache w' x = cache w x) /\
    (k = KIR -> cache w' n = [(u, n)]).
Proof.
  intros F G. cbn [op_okb] in G. repeat (apply andb_true_iff in G; destruct G as [G ?]).
  apply negb_true_iff in G.
  exists (new_world w n k u a s f nm p). split; [apply step_new|].
  split; [rewrite par_new by exact G; apply par_nohas; exact G|].
  split; [rewrite kids_new; apply (nohas_kids_nil w known n F G)|].
  split; [rewrite nodes_new, Z.eqb_refl; reflexivity|].
  split; [intros x Hx; rewrite nodes_new; destruct (Z.eqb_spec x n); [contradiction|reflexivity]|].
  split; [intro x; apply kids_new|].
  split; [intros x Hx; apply cache_new_other; exact Hx|].
  intro E. subst k. rewrite cache_new_ir, Z.eqb_refl. reflexivity.
Qed.

(* ---------- the ir setter of a module ---------- *)
Theorem setparent_none_effect w known c :
  Forest w known -> CacheInv w -> op_okb w known (OSetParent c None) = true -> kindof w c = KMod ->
  exists w', step w (OSetParent c None) = Ok w' /\
    (forall x, kids w' x = remove_id c (kids w x)) /\
    (forall x, x <> c -> nodes w' x = nodes w x) /\
    nodes w' c = Some (with_par (getn w c) None) /\ par w' c = None.
Proof.
  intros F C G Kc. cbn [op_okb] in G. apply andb_true_iff in G. destruct G as [G _].
  apply andb_true_iff in G. destruct G as [Hc _].
  exists (pre_detach w c). split; [apply (step_setparent_mod w known c None F C Hc Kc)|].
  split; [apply (kids_pre_detach w known c F)|]. split; [intros x Hx; apply nodes_pre_detach_other; exact Hx|].
  split; [apply nodes_pre_detach_same; exact Hc|].
  apply (pre_detach_inv w known c F C Hc Kc).
Qed.

(* ---------- closed forms for the hooks ---------- *)
Lemma getn_of_nodes_eq w w' x : nodes w' x = nodes w x -> getn w' x = getn w x.
Proof. intro H. unfold getn. rewrite H. reflexivity. Qed.

Lemma getn_of_nodes_some w x nd : nodes w x = Some nd -> getn w x = nd.
Proof. intro H. unfold getn. rewrite H. reflexivity. Qed.

Lemma mem_cons x v vs : mem x (v :: vs) = (x =? v) || mem x vs.
Proof. reflexivity. Qed.

Lemma nodes_remove_hooks_fold ir vs : forall w x,
  nodes (fst (fold_ok (fun w v => ml_remove_hook w ir v) vs w)) x =
  if mem x vs then Some (with_par (getn w x) None) else nodes w x.
Proof.
  induction vs as [|v vs IH]; intros w x; [reflexivity|].
  rewrite fold_ok_cons. cbn [fst]. rewrite IH, mem_cons, getn_remove_hook, nodes_remove_hook.
  destruct (Z.eqb_spec x v) as [E|E]; cbn [orb].
  - subst. destruct (mem v vs); reflexivity.
  - reflexivity.
Qed.

Lemma cache_remove_hooks_fold_other ir vs : forall w x, x <> ir ->
  cache (fst (fold_ok (fun w v => ml_remove_hook w ir v) vs w)) x = cache w x.
Proof.
  induction vs as [|v vs IH]; intros w x Hx; [reflexivity|].
  rewrite fold_ok_cons. cbn [fst]. rewrite IH by exact Hx. rewrite cache_remove_hook. apply upd_other. exact Hx.
Qed.

Definition ok_except (w : world) (ir : id) : Prop :=
  forall x, x <> ir -> (forall c, In c (kids w x) <-> par w c = Some x) /\ NoDup (kids w x).

Lemma ok_except_virtual w known ir Lv : Forest (with_kids w ir Lv) known -> ok_except w ir.
Proof.
  intros F x Hx. split.
  - intro c. pose proof (f_two_ended _ known F x c) as H. rewrite kids_with_kids_other in H by exact Hx. exact H.
  - pose proof (f_nodup _ known F x) as H. rewrite kids_with_kids_other in H by exact Hx. exact H.
Qed.

Lemma ok_except_forest w known ir : Forest w known -> ok_except w ir.
Proof. intros F x _. split; [apply (f_two_ended w known F)|apply (f_nodup w known F)]. Qed.

Lemma add_hook_closed w ir v :
  ok_except w ir -> par w v <> Some ir ->
  (forall x, nodes (fst (ml_add_hook w ir v)) x = if x =? v then Some (with_par (getn w v) (Some ir)) else nodes w x) /\
  (forall x, x <> ir -> kids (fst (ml_add_hook w ir v)) x = remove_id v (kids w x)) /\
  kids (fst (ml_add_hook w ir v)) ir = kids w ir /\
  (forall x, x <> ir -> par w v <> Some x -> cache (fst (ml_add_hook w ir v)) x = cache w x).
Proof.
  intros Hok Hp.
  assert (Heq : ml_add_hook w ir v = (cache_add (set_par (pre_detach w v) v (Some ir)) ir v, pre_flag w v)).
  { apply ml_add_hook_eq'. intros old E. assert (Hne : old <> ir) by congruence.
    destruct (Hok old Hne) as [H1 H2]. split; [apply H1; exact E|exact H2]. }
  rewrite Heq. cbn [fst]. split; [|split; [|split]].
  - intro x. rewrite nodes_cache_add, nodes_set_par. destruct (Z.eqb_spec x v) as [E|E].
    + rewrite with_par_getn_pre_detach. reflexivity.
    + apply nodes_pre_detach_other. exact E.
  - intros x Hx. rewrite kids_cache_add, kids_set_par. destruct (Hok x Hx) as [H1 _].
    unfold pre_detach. destruct (par w v) as [old|] eqn:E.
    + rewrite kids_detach. destruct (Z.eqb_spec x old) as [E1|E1].
      * subst. apply upd_same.
      * rewrite upd_other by exact E1. symmetry. apply remove_id_notin. intro H. apply H1 in H. congruence.
    + symmetry. apply remove_id_notin. intro H. apply H1 in H. congruence.
  - rewrite kids_cache_add, kids_set_par. unfold pre_detach. destruct (par w v) as [old|] eqn:E; [|reflexivity].
    apply kids_detach_other. congruence.
  - intros x Hx Hpx. rewrite cache_add_set_par, upd_other by exact Hx.
    unfold pre_detach. destruct (par w v) as [old|] eqn:E; [|reflexivity].
    rewrite cache_detach. apply upd_other. congruence.
Qed.

Lemma add_hooks_fold_closed known ir vs : forall w A B,
  Forest (with_kids w ir (A ++ B)) known -> CacheInv (with_kids w ir (A ++ B)) -> is_k w ir KIR = true ->
  (forall v, In v vs -> is_k w v KMod = true) -> NoDup vs -> (forall v, In v vs -> ~ In v (A ++ B)) ->
  (forall x, x <> ir -> kids (fst (fold_ok (fun w v => ml_add_hook w ir v) vs w)) x = fold_left (fun l v => remove_id v l) vs (kids w x)) /\
  (forall x, nodes (fst (fold_ok (fun w v => ml_add_hook w ir v) vs w)) x =
             if mem x vs then Some (with_par (getn w x) (Some ir)) else nodes w x) /\
  kids (fst (fold_ok (fun w v => ml_add_hook w ir v) vs w)) ir = kids w ir.
Proof.
  induction vs as [|v vs IH]; intros w A B F C G Gv Hnd Hnin.
  - rewrite fold_ok_nil. cbn [fst fold_left]. split; [reflexivity|]. split; reflexivity.
  - rewrite fold_ok_cons. cbn [fst].
    assert (Hv : ~ In v (A ++ B)) by (apply Hnin; left; reflexivity).
    assert (HndAB : NoDup (A ++ B)).
    { pose proof (f_nodup _ known F ir) as H. rewrite kids_with_kids_same in H. exact H. }
    assert (HpW : par w v <> Some ir).
    { intro E. apply Hv. change (par w v) with (par (with_kids w ir (A ++ B)) v) in E.
      apply (f_two_ended _ known F) in E. rewrite kids_with_kids_same in E. exact E. }
    destruct (add_hook_closed w ir v (ok_except_virtual w known ir (A ++ B) F) HpW) as [Hn1 [Hk1 [Hki1 _]]].
    inversion Hnd as [|v' vs' Hv' Hnd']. subst.
    destruct (add_hook_virtual w known ir (A ++ B) v ((A ++ [v]) ++ B) F C G (Gv v (or_introl eq_refl)) Hv)
      as [F1 [C1 [_ Hik1]]].
    + apply NoDup_middle; assumption.
    + intro x. rewrite !in_app_iff. cbn [In]. split.
      * intros [[H|[H|[]]]|H]; [right; left; exact H|left; symmetry; exact H|right; right; exact H].
      * intros [H|[H|H]]; [left; right; left; symmetry; exact H|left; left; exact H|right; exact H].
    + destruct (IH (fst (ml_add_hook w ir v)) (A ++ [v]) B F1 C1) as [Hk2 [Hn2 Hki2]].
      * rewrite Hik1. exact G.
      * intros x Hx. rewrite Hik1. apply Gv. right. exact Hx.
      * exact Hnd'.
      * intros x Hx Hi. rewrite !in_app_iff in Hi. cbn [In] in Hi. destruct Hi as [[Hi|[Hi|[]]]|Hi].
        -- apply (Hnin x); [right; exact Hx|]. apply in_or_app. left. exact Hi.
        -- subst. contradiction.
        -- apply (Hnin x); [right; exact Hx|]. apply in_or_app. right. exact Hi.
      * split; [|split].
        -- intros x Hx. rewrite (Hk2 x Hx), (Hk1 x Hx). reflexivity.
        -- intro x. rewrite Hn2, mem_cons. destruct (Z.eqb_spec x v) as [E|E]; cbn [orb].
           ++ subst. rewrite (getn_of_nodes_some _ v _ (eq_trans (Hn1 v) ltac:(rewrite Z.eqb_refl; reflexivity))).
              rewrite Hn1, Z.eqb_refl. destruct (mem v vs); reflexivity.
           ++ assert (Hnx : nodes (fst (ml_add_hook w ir v)) x = nodes w x).
              { rewrite Hn1. destruct (Z.eqb_spec x v); [contradiction|reflexivity]. }
              rewrite (getn_of_nodes_eq _ _ x Hnx), Hnx. reflexivity.
        -- rewrite Hki2. exact Hki1.
Qed.

Lemma par_of_nodes w x nd : nodes w x = Some nd -> par w x = npar nd.
Proof. intro H. unfold par. rewrite (getn_of_nodes_some w x nd H). reflexivity. Qed.

Lemma mem_ext x a b : (In x a <-> In x b) -> mem x a = mem x b.
Proof.
  intro H. destruct (mem x b) eqn:E.
  - apply mem_In. apply H. apply mem_In. exact E.
  - apply mem_false. intro Ha. apply mem_false in E. apply E. apply H. exact Ha.
Qed.

(* ---------- del slice / clear ---------- *)
Theorem delslice_effect w known ir a b :
  Forest w known -> CacheInv w -> op_okb w known (OModDelSlice ir a b) = true ->
  let l := kids w ir in
  let lo := norm_bound a 0 (length l) in
  let hi := Z.max lo (norm_bound b (Z.of_nat (length l)) (length l)) in
  let victims := slice_victims l lo hi in
  exists w', step w (OModDelSlice ir a b) = Ok w' /\
    kids w' ir = firstn (Z.to_nat lo) l ++ skipn (Z.to_nat hi) l /\
    (forall x, x <> ir -> kids w' x = kids w x) /\
    (forall x, nodes w' x = if mem x victims then Some (with_par (getn w x) None) else nodes w x) /\
    (forall x, In x victims -> par w' x = None) /\
    (forall x, x <> ir -> cache w' x = cache w x).
Proof.
  intros F C G l lo hi victims. cbn [op_okb] in G. pose proof (step_delslice w ir a b) as Hs. cbv zeta in Hs.
  fold l in Hs. fold lo in Hs. set (hi0 := norm_bound b (Z.of_nat (length l)) (length l)) in *.
  assert (Hlo : 0 <= lo) by (apply norm_bound_nonneg; lia).
  assert (Hvic : slice_victims l lo hi0 = victims).
  { unfold victims, slice_victims, hi. f_equal. lia. }
  rewrite Hvic in Hs.
  assert (Hl : kids w ir = firstn (Z.to_nat lo) l ++ victims ++ skipn (Z.to_nat hi) l).
  { pose proof (slice_victims_split l lo hi0 Hlo) as H. rewrite Hvic in H. exact H. }
  destruct (remove_slice w known ir _ _ _ F C G Hl) as [_ [_ [Hf1 [_ Hfl]]]].
  fold l in Hfl. rewrite Hfl, Hf1 in Hs. cbn [flagged] in Hs.
  eexists. split; [exact Hs|]. split; [apply kids_with_kids_same|]. split; [|split; [|split]].
  - intros x Hx. rewrite kids_with_kids_other by exact Hx. rewrite kids_remove_hooks_fold. reflexivity.
  - intro x. rewrite nodes_with_kids. apply nodes_remove_hooks_fold.
  - intros x Hx. erewrite par_of_nodes; [|rewrite nodes_with_kids, nodes_remove_hooks_fold].
    2:{ apply mem_In in Hx. rewrite Hx. reflexivity. }
    reflexivity.
  - intros x Hx. rewrite cache_with_kids. apply cache_remove_hooks_fold_other. exact Hx.
Qed.

Theorem clear_effect w known ir :
  Forest w known -> CacheInv w -> op_okb w known (OModClear ir) = true ->
  exists w', step w (OModClear ir) = Ok w' /\
    kids w' ir = [] /\
    (forall x, x <> ir -> kids w' x = kids w x) /\
    (forall x, nodes w' x = if mem x (kids w ir) then Some (with_par (getn w x) None) else nodes w x) /\
    (forall x, In x (kids w ir) -> par w' x = None) /\
    (forall x, x <> ir -> cache w' x = cache w x).
Proof.
  intros F C G. cbn [op_okb] in G.
  destruct (remove_batch w known ir (rev (kids w ir)) F C G) as [_ [_ [Hf1 _]]].
  - apply NoDup_rev. apply (f_nodup w known F).
  - intros v Hv. apply in_rev. exact Hv.
  - pose proof (step_clear w ir) as Hs. rewrite Hf1 in Hs. cbn [flagged] in Hs.
    assert (Hn : forall x, nodes (with_kids (fst (fold_ok (fun w v => ml_remove_hook w ir v) (rev (kids w ir)) w)) ir []) x =
                          if mem x (kids w ir) then Some (with_par (getn w x) None) else nodes w x).
    { intro x. rewrite nodes_with_kids, nodes_remove_hooks_fold.
      rewrite (mem_ext x (rev (kids w ir)) (kids w ir)); [reflexivity|]. symmetry. apply in_rev. }
    eexists. split; [exact Hs|]. split; [apply kids_with_kids_same|]. split; [|split; [|split]].
    + intros x Hx. rewrite kids_with_kids_other by exact Hx. rewrite kids_remove_hooks_fold. reflexivity.
    + exact Hn.
    + intros x Hx. erewrite par_of_nodes; [|rewrite Hn].
      2:{ apply mem_In in Hx. rewrite Hx. reflexivity. }
      reflexivity.
    + intros x Hx. rewrite cache_with_kids. apply cache_remove_hooks_fold_other. exact Hx.
Qed.

(* ---------- item and slice assignment: the general closed form ---------- *)

(* a listed child's record already carries its owner *)
Lemma nodes_self_par w known p c :
  Forest w known -> In c (kids w p) -> nodes w c = Some (with_par (getn w c) (Some p)).
Proof.
  intros F H. apply (f_two_ended w known F) in H.
  destruct (f_kind w known F p c H) as [Hh _].
  unfold has in Hh. unfold par, getn in *. destruct (nodes w c) as [nd|]; [|discriminate].
  destruct nd as [a1 a2 a3 a4 a5 a6 a7 a8]. cbn in H. subst. reflexivity.
Qed.

Lemma not_in_other_list w known p q c : Forest w known -> In c (kids w p) -> p <> q -> ~ In c (kids w q).
Proof.
  intros F H Hne Hq. apply (f_two_ended w known F) in H. apply (f_two_ended w known F) in Hq. congruence.
Qed.

Lemma assign_closed w known ir new :
  Forest w known -> CacheInv w -> is_k w ir KIR = true -> NoDup new ->
  (forall v, In v new -> ~ In v (kids w ir) -> is_k w v KMod = true) ->
  kids (fst (ml_assign w ir new)) ir = new /\
  (forall x, x <> ir -> kids (fst (ml_assign w ir new)) x = filter (fun c => negb (mem c new)) (kids w x)) /\
  (forall x, nodes (fst (ml_assign w ir new)) x =
             if mem x new then (if mem x (kids w ir) then nodes w x else Some (with_par (getn w x) (Some ir)))
             else if mem x (kids w ir) then Some (with_par (getn w x) None) else nodes w x).
Proof.
  intros F C G Hnd Gv. rewrite ml_assign_eq. cbn [fst].
  destruct (assign_setup w known ir new F C G Hnd Gv) as [F1 [C1 [_ [G1 [Gv1 [Hnden [Hnin _]]]]]]].
  cbv zeta in F1, C1, G1, Gv1, Hnden, Hnin.
  destruct (add_hooks_fold_closed known ir _ _ _ [] F1 C1 G1 Gv1 Hnden Hnin) as [Hk2 [Hn2 _]].
  split; [apply kids_with_kids_same|]. split.
  - intros x Hx. rewrite kids_with_kids_other by exact Hx. rewrite (Hk2 x Hx), kids_remove_hooks_fold, fold_remove_filter.
    apply filter_ext_in. intros c Hc. f_equal. unfold enterers. rewrite mem_filter_notmem.
    assert (Hm : mem c (kids w ir) = false).
    { apply mem_false. apply (not_in_other_list w known x ir c F Hc Hx). }
    rewrite Hm. apply andb_true_r.
  - intro x. rewrite nodes_with_kids, Hn2.
    pose proof (nodes_remove_hooks_fold ir (leavers (kids w ir) new) w x) as Hn1.
    unfold enterers at 1. unfold leavers at 2 in Hn1. rewrite mem_filter_notmem in Hn1. rewrite mem_filter_notmem.
    destruct (mem x new); destruct (mem x (kids w ir)); cbn [andb negb] in *.
    + exact Hn1.
    + rewrite (getn_of_nodes_eq w _ x Hn1). reflexivity.
    + exact Hn1.
    + exact Hn1.
Qed.

(* ---------- set item ---------- *)

Lemma nth_split_id (l : list id) : forall k old, nth_error l k = Some old -> l = firstn k l ++ old :: skipn (S k) l.
Proof.
  induction l as [|y l IH]; intros k old H.
  - destruct k; discriminate.
  - destruct k as [|k].
    + cbn in H. inversion H. reflexivity.
    + cbn [nth_error] in H. cbn [firstn app]. change (skipn (S (S k)) (y :: l)) with (skipn (S k) l).
      f_equal. apply IH. exact H.
Qed.

Lemma In_middle (a b : list id) old l x : l = a ++ old :: b -> (In x l <-> In x a \/ x = old \/ In x b).
Proof. intros ->. rewrite in_app_iff. cbn [In]. split; [intros [H|[H|H]]; auto|intros [H|[H|H]]; auto]. Qed.

Lemma nth_parts (l : list id) k old : NoDup l -> nth_error l k = Some old ->
  ~ In old (firstn k l) /\ ~ In old (skipn (S k) l) /\
  (forall x, In x l <-> In x (firstn k l) \/ x = old \/ In x (skipn (S k) l)).
Proof.
  intros Hnd H. pose proof (nth_split_id l k old H) as E.
  assert (Hnd' : NoDup (firstn k l ++ old :: skipn (S k) l)) by (rewrite <- E; exact Hnd).
  apply NoDup_remove_2 in Hnd'.
  split; [intro Hi; apply Hnd'; apply in_or_app; left; exact Hi|].
  split; [intro Hi; apply Hnd'; apply in_or_app; right; exact Hi|].
  intro x. apply In_middle. exact E.
Qed.

Lemma dedup_single v : dedup [v] = [v].
Proof. reflexivity. Qed.

Lemma mem_single x v : mem x [v] = (x =? v).
Proof. unfold mem. cbn [existsb]. apply orb_false_r. Qed.

Lemma In_setitem_new l k old v x : NoDup l -> nth_error l k = Some old ->
  (In x (assign_slice l k (S k) [v]) <-> x = v \/ (In x l /\ x <> old)).
Proof.
  intros Hnd H. destruct (nth_parts l k old Hnd H) as [Hop [Hos Hin]].
  rewrite In_assign_slice, Hin. cbn [In]. split.
  - intros [[E|[]]|[Hx|Hx]]; [left; symmetry; exact E| |]; right; (split; [tauto|]); intro E; subst; contradiction.
  - intros [E|[[Hx|[Hx|Hx]] Hne]]; [left; left; symmetry; exact E|right; left; exact Hx|contradiction|right; right; exact Hx].
Qed.

(* the resulting list when the value is new to the list (or replaces itself): plain replacement *)
Theorem setitem_list_fresh (l : list id) k v old :
  ~ In v l \/ v = old -> NoDup l -> nth_error l k = Some old -> assign_slice l k (S k) [v] = set_at k v l.
Proof.
  intros Hv Hnd H. destruct (nth_parts l k old Hnd H) as [Hop [Hos _]].
  assert (Hlt : (k < length l)%nat) by (apply nth_error_Some; congruence).
  rewrite (set_at_firstn_skipn v k l Hlt). unfold assign_slice. rewrite dedup_single.
  assert (Hvp : ~ In v (firstn k l)).
  { destruct Hv as [Hv|Hv]; [intro Hi; apply Hv; eapply In_firstn_l; exact Hi|subst; exact Hop]. }
  assert (Hvs : ~ In v (skipn (S k) l)).
  { destruct Hv as [Hv|Hv]; [intro Hi; apply Hv; eapply In_skipn_l; exact Hi|subst; exact Hos]. }
  rewrite (filter_all _ (firstn k l)), (filter_all _ (skipn (S k) l)); [reflexivity| |].
  - intros x Hx. rewrite mem_single. apply negb_true_iff. apply Z.eqb_neq. intro E. subst. contradiction.
  - intros x Hx. rewrite mem_single. apply negb_true_iff. apply Z.eqb_neq. intro E. subst. contradiction.
Qed.

Lemma remove_id_length_in (v : id) l : NoDup l -> In v l -> S (length (remove_id v l)) = length l.
Proof.
  induction l as [|y l IH]; intros Hnd Hin; [destruct Hin|].
  inversion Hnd as [|y' l' Hy Hl]. subst. destruct (Z.eq_dec y v) as [E|E].
  - subst. rewrite remove_id_cons_same, (remove_id_notin v l Hy). reflexivity.
  - destruct Hin as [Hin|Hin]; [contradiction|]. rewrite (remove_id_cons_other v y l E). cbn [length].
    f_equal. apply IH; assumption.
Qed.

Lemma remove_id_mem_single v l : filter (fun x => negb (mem x [v])) l = remove_id v l.
Proof. unfold remove_id. apply filter_ext. intro x. rewrite mem_single. reflexivity. Qed.

Lemma nth_error_firstn_lt (l : list id) k j : (j < k)%nat -> (k <= length l)%nat -> nth_error (firstn k l) j = nth_error l j.
Proof.
  intros Hj Hk. rewrite <- (firstn_skipn k l) at 2. symmetry. apply nth_error_app1. rewrite firstn_length. lia.
Qed.

(* the resulting list when the value already sits elsewhere in the list: it is moved to the assigned place,
   the replaced element leaves, everything else keeps its relative order *)
Theorem setitem_list_moved (l : list id) k v old :
  NoDup l -> nth_error l k = Some old -> In v l -> v <> old ->
  NoDup (assign_slice l k (S k) [v]) /\ (forall x, In x (assign_slice l k (S k) [v]) <-> In x l /\ x <> old).
Proof.
  intros Hnd H Hv Hne. split; [apply NoDup_assign_slice; [lia|exact Hnd]|].
  intro x. rewrite (In_setitem_new l k old v x Hnd H). split; [|tauto].
  intros [E|Hx]; [subst; tauto|exact Hx].
Qed.

Theorem setitem_list_moved_position (l : list id) k v old j :
  NoDup l -> nth_error l k = Some old -> v <> old -> index_of v l = Some j ->
  nth_error (assign_slice l k (S k) [v]) (k - (if (j <? k)%nat then 1 else 0)) = Some v.
Proof.
  intros Hnd H Hne Hj. apply index_of_nth in Hj.
  assert (Hlt : (k < length l)%nat) by (apply nth_error_Some; congruence).
  assert (Hjk : j <> k) by (intro E; subst; congruence).
  unfold assign_slice. rewrite dedup_single, !remove_id_mem_single.
  assert (Hpos : length (remove_id v (firstn k l)) = (k - (if (j <? k)%nat then 1 else 0))%nat).
  { assert (Hlen : length (firstn k l) = k) by (rewrite firstn_length; lia).
    destruct (Nat.ltb_spec j k) as [Hlt'|Hge].
    - assert (Hin : In v (firstn k l)).
      { apply (nth_error_In _ j). rewrite nth_error_firstn_lt by lia. exact Hj. }
      pose proof (remove_id_length_in v (firstn k l) (NoDup_firstn l k Hnd) Hin) as Hl. lia.
    - rewrite remove_id_notin; [lia|]. intro Hin. apply In_nth_error in Hin. destruct Hin as [j' Hj'].
      assert (Hj'k : (j' < k)%nat).
      { rewrite <- Hlen. apply nth_error_Some. congruence. }
      rewrite nth_error_firstn_lt in Hj' by lia.
      assert (j' = j); [|lia].
      apply (proj1 (NoDup_nth_error l) Hnd j' j); [apply nth_error_Some; congruence|congruence]. }
  rewrite <- Hpos. rewrite nth_error_app2 by lia. rewrite Nat.sub_diag. reflexivity.
Qed.

Theorem setitem_list_moved_order (l : list id) k v old :
  NoDup l -> nth_error l k = Some old -> v <> old ->
  filter (fun x => negb (x =? v)) (assign_slice l k (S k) [v]) = filter (fun x => negb (x =? v)) (remove_id old l).
Proof.
  intros Hnd H Hne. destruct (nth_parts l k old Hnd H) as [Hop [Hos _]].
  pose proof (nth_split_id l k old H) as E.
  assert (Hr : remove_id old l = firstn k l ++ skipn (S k) l).
  { rewrite E at 1. rewrite remove_id_app, remove_id_cons_same, (remove_id_notin old _ Hop), (remove_id_notin old _ Hos).
    reflexivity. }
  rewrite Hr. unfold assign_slice. rewrite dedup_single, !remove_id_mem_single, !filter_app.
  assert (Hf : forall a, filter (fun x => negb (x =? v)) a = remove_id v a) by reflexivity.
  rewrite !Hf.
  assert (Hidem : forall a, remove_id v (remove_id v a) = remove_id v a).
  { intro a. apply remove_id_notin. rewrite In_remove_id. tauto. }
  rewrite !Hidem, remove_id_cons_same. reflexivity.
Qed.

Theorem setitem_effect w known ir i v k old :
  Forest w known -> CacheInv w -> op_okb w known (OModSetItem ir i v) = true ->
  norm_index i (length (kids w ir)) = Some k -> nth_error (kids w ir) k = Some old ->
  exists w', step w (OModSetItem ir i v) = Ok w' /\
    kids w' ir = assign_slice (kids w ir) k (S k) [v] /\
    (forall x, x <> ir -> kids w' x = remove_id v (kids w x)) /\
    (forall x, nodes w' x = if x =? v then Some (with_par (getn w v) (Some ir))
                            else if x =? old then Some (with_par (getn w old) None) else nodes w x) /\
    par w' v = Some ir /\ (v <> old -> par w' old = None).
Proof.
  intros F C G En Eo. cbn [op_okb] in G. apply andb_true_iff in G. destruct G as [G1 G2].
  assert (Hndl : NoDup (kids w ir)) by apply (f_nodup w known F).
  set (new := assign_slice (kids w ir) k (S k) [v]).
  assert (Hndn : NoDup new) by (apply NoDup_assign_slice; [lia|exact Hndl]).
  assert (Gv : forall x, In x new -> ~ In x (kids w ir) -> is_k w x KMod = true).
  { intros x Hx Hnx. apply (assign_slice_new_is_value _ _ _ _ _ Hx) in Hnx. destruct Hnx as [Hnx|[]]. subst x. exact G2. }
  destruct (assign_inv w known ir new F C G1 Hndn Gv) as [_ [_ Hf]].
  destruct (assign_closed w known ir new F C G1 Hndn Gv) as [Hk [Hko Hn]].
  pose proof (fun x => In_setitem_new (kids w ir) k old v x Hndl Eo) as Hnew. fold new in Hnew.
  assert (Hoin : In old (kids w ir)) by (eapply nth_error_In; exact Eo).
  assert (Hn' : forall x, nodes (fst (ml_assign w ir new)) x =
                          if x =? v then Some (with_par (getn w v) (Some ir))
                          else if x =? old then Some (with_par (getn w old) None) else nodes w x).
  { intro x. rewrite Hn. destruct (Z.eqb_spec x v) as [E|E].
    - subst x. assert (Hm : mem v new = true) by (apply mem_In; apply Hnew; left; reflexivity). rewrite Hm.
      destruct (mem v (kids w ir)) eqn:Em; [|reflexivity].
      apply (nodes_self_par w known ir v F). apply mem_In. exact Em.
    - destruct (Z.eqb_spec x old) as [E1|E1].
      + subst x. assert (Hm : mem old new = false).
        { apply mem_false. intro Hi. apply Hnew in Hi. destruct Hi as [Hi|[_ Hi]]; contradiction. }
        rewrite Hm. assert (Hm2 : mem old (kids w ir) = true) by (apply mem_In; exact Hoin). rewrite Hm2. reflexivity.
      + assert (Hm : mem x new = mem x (kids w ir)).
        { apply mem_ext. rewrite Hnew. split; [intros [Hi|[Hi _]]; [contradiction|exact Hi]|intro Hi; right; split; assumption]. }
        rewrite Hm. destruct (mem x (kids w ir)); reflexivity. }
  exists (fst (ml_assign w ir new)).
  split; [rewrite (step_setitem w ir i v k En); apply flagged_true; exact Hf|].
  split; [exact Hk|]. split; [|split; [exact Hn'|split]].
  - intros x Hx. rewrite (Hko x Hx). unfold remove_id. apply filter_ext_in. intros c Hc. f_equal.
    pose proof (not_in_other_list w known x ir c F Hc Hx) as Hnc.
    destruct (Z.eqb_spec c v) as [E|E].
    + apply mem_In. apply Hnew. left. exact E.
    + apply mem_false. intro Hi. apply Hnew in Hi. destruct Hi as [Hi|[Hi _]]; contradiction.
  - erewrite par_of_nodes; [|rewrite Hn', Z.eqb_refl; reflexivity]. reflexivity.
  - intro Hne. erewrite par_of_nodes; [|rewrite Hn'].
    2:{ destruct (Z.eqb_spec old v) as [E|E]; [congruence|]. rewrite Z.eqb_refl. reflexivity. }
    reflexivity.
Qed.

Theorem setitem_effect_index w ir i v :
  norm_index i (length (kids w ir)) = None -> step w (OModSetItem ir i v) = Err EIndex.
Proof. intro H. cbn [step]. rewrite H. reflexivity. Qed.

(* ---------- set slice ---------- *)

(* the three parts of the old list around a slice *)
Lemma slice_parts (l : list id) lo hi :
  0 <= lo -> lo <= hi -> NoDup l ->
  (forall x, In x l <-> In x (firstn (Z.to_nat lo) l) \/ In x (slice_victims l lo hi) \/ In x (skipn (Z.to_nat hi) l)) /\
  (forall x, In x (slice_victims l lo hi) -> ~ In x (firstn (Z.to_nat lo) l) /\ ~ In x (skipn (Z.to_nat hi) l)).
Proof.
  intros Hlo Hle Hnd. pose proof (slice_victims_split l lo hi Hlo) as E.
  replace (Z.max lo hi) with hi in E by lia.
  assert (Hnd' : NoDup (firstn (Z.to_nat lo) l ++ slice_victims l lo hi ++ skipn (Z.to_nat hi) l)) by (rewrite <- E; exact Hnd).
  destruct (NoDup_app_inv _ _ Hnd') as [_ [H2 Hd1]]. destruct (NoDup_app_inv _ _ H2) as [_ [_ Hd2]].
  split.
  - intro x. rewrite <- !in_app_iff. rewrite <- E. reflexivity.
  - intros x Hx. split; intro Hi.
    + apply (Hd1 x Hi). apply in_or_app. left. exact Hx.
    + apply (Hd2 x Hx Hi).
Qed.

Theorem setslice_effect w known ir a b vs :
  Forest w known -> CacheInv w -> op_okb w known (OModSetSlice ir a b vs) = true ->
  let l := kids w ir in
  let lo := norm_bound a 0 (length l) in
  let hi := Z.max lo (norm_bound b (Z.of_nat (length l)) (length l)) in
  let victims := slice_victims l lo hi in
  exists w', step w (OModSetSlice ir a b vs) = Ok w' /\
    kids w' ir = assign_slice l (Z.to_nat lo) (Z.to_nat hi) vs /\
    (forall x, x <> ir -> kids w' x = fold_left (fun l v => remove_id v l) vs (kids w x)) /\
    (forall x, nodes w' x = if mem x vs then Some (with_par (getn w x) (Some ir))
                            else if mem x victims then Some (with_par (getn w x) None) else nodes w x).
Proof.
  intros F C G l lo hi victims.
  cbn [op_okb] in G. apply andb_true_iff in G. destruct G as [G1 G2]. rewrite forallb_forall in G2.
  pose proof (step_setslice w ir a b vs) as Hs. cbv zeta in Hs. fold l in Hs. fold lo in Hs. fold hi in Hs.
  assert (Hndl : NoDup l) by apply (f_nodup w known F).
  assert (Hlo : 0 <= lo) by (apply norm_bound_nonneg; lia).
  assert (Hle : lo <= hi) by (unfold hi; lia).
  set (new := assign_slice l (Z.to_nat lo) (Z.to_nat hi) vs) in *.
  assert (Hndn : NoDup new) by (apply NoDup_assign_slice; [lia|exact Hndl]).
  assert (Gv : forall x, In x new -> ~ In x (kids w ir) -> is_k w x KMod = true).
  { intros x Hx Hnx. apply G2. apply (assign_slice_new_is_value _ _ _ _ _ Hx Hnx). }
  destruct (assign_inv w known ir new F C G1 Hndn Gv) as [_ [_ Hf]].
  destruct (assign_closed w known ir new F C G1 Hndn Gv) as [Hk [Hko Hn]].
  pose proof (fun x => In_assign_slice l (Z.to_nat lo) (Z.to_nat hi) vs x) as Hnew. fold new in Hnew.
  destruct (slice_parts l lo hi Hlo Hle Hndl) as [Hl3 Hvd]. fold victims in Hl3, Hvd.
  exists (fst (ml_assign w ir new)).
  split; [rewrite Hs; apply flagged_true; exact Hf|]. split; [exact Hk|]. split.
  - intros x Hx. rewrite (Hko x Hx), fold_remove_filter. apply filter_ext_in. intros c Hc. f_equal.
    pose proof (not_in_other_list w known x ir c F Hc Hx) as Hnc. fold l in Hnc.
    apply mem_ext. rewrite Hnew. split; [|tauto].
    intros [Hi|[Hi|Hi]]; [exact Hi| |]; exfalso; apply Hnc; [eapply In_firstn_l|eapply In_skipn_l]; exact Hi.
  - intro x. rewrite Hn. fold l. destruct (mem x vs) eqn:Evs.
    + assert (Hm : mem x new = true) by (apply mem_In; apply Hnew; left; apply mem_In; exact Evs). rewrite Hm.
      destruct (mem x l) eqn:Em; [|reflexivity].
      apply (nodes_self_par w known ir x F). apply mem_In. exact Em.
    + apply mem_false in Evs. destruct (mem x victims) eqn:Evi.
      * apply mem_In in Evi. destruct (Hvd x Evi) as [Hp Hq].
        assert (Hm : mem x new = false) by (apply mem_false; rewrite Hnew; tauto). rewrite Hm.
        assert (Hm2 : mem x l = true) by (apply mem_In; apply Hl3; tauto). rewrite Hm2. reflexivity.
      * apply mem_false in Evi.
        assert (Hm : mem x new = mem x l) by (apply mem_ext; rewrite Hnew, Hl3; tauto).
        rewrite Hm. destruct (mem x l); reflexivity.
Qed.

(* the old well-separated shape: distinct values, none of which stays in the list outside the slice *)
Theorem setslice_list_separate (l : list id) lo hi vs :
  NoDup vs -> (forall v, In v vs -> ~ In v (firstn lo l) /\ ~ In v (skipn hi l)) ->
  assign_slice l lo hi vs = firstn lo l ++ vs ++ skipn hi l.
Proof.
  intros Hnd Hout. unfold assign_slice. rewrite (dedup_nodup_id vs Hnd).
  rewrite (filter_all _ (firstn lo l)), (filter_all _ (skipn hi l)); [reflexivity| |].
  - intros x Hx. apply negb_true_iff. apply mem_false. intro Hv. apply (proj2 (Hout x Hv)). exact Hx.
  - intros x Hx. apply negb_true_iff. apply mem_false. intro Hv. apply (proj1 (Hout x Hv)). exact Hx.
Qed.

(* ---------- assignment moves: membership and ownership after a same-list / repeated-value assignment ---------- *)
Theorem setitem_effect_moves w known ir i v k old :
  Forest w known -> CacheInv w -> op_okb w known (OModSetItem ir i v) = true ->
  norm_index i (length (kids w ir)) = Some k -> nth_error (kids w ir) k = Some old -> In v (kids w ir) -> v <> old ->
  exists w', step w (OModSetItem ir i v) = Ok w' /\
    kids w' ir = assign_slice (kids w ir) k (S k) [v] /\
    NoDup (kids w' ir) /\ (forall x, In x (kids w' ir) <-> In x (kids w ir) /\ x <> old) /\
    par w' v = Some ir /\ par w' old = None.
Proof.
  intros F C G En Eo Hv Hne.
  destruct (setitem_effect w known ir i v k old F C G En Eo) as [w' [Hs [Hk [_ [_ [Hp1 Hp2]]]]]].
  destruct (setitem_list_moved (kids w ir) k v old (f_nodup w known F ir) Eo Hv Hne) as [Hnd Hin].
  exists w'. split; [exact Hs|]. split; [exact Hk|]. rewrite Hk. split; [exact Hnd|]. split; [exact Hin|].
  split; [exact Hp1|apply Hp2; exact Hne].
Qed.

Theorem setslice_effect_moves w known ir a b vs :
  Forest w known -> CacheInv w -> op_okb w known (OModSetSlice ir a b vs) = true ->
  let l := kids w ir in
  let lo := norm_bound a 0 (length l) in
  let hi := Z.max lo (norm_bound b (Z.of_nat (length l)) (length l)) in
  let victims := slice_victims l lo hi in
  exists w', step w (OModSetSlice ir a b vs) = Ok w' /\
    NoDup (kids w' ir) /\
    (forall x, In x (kids w' ir) <-> In x vs \/ (In x l /\ ~ In x victims)) /\
    (forall x, In x (kids w' ir) -> par w' x = Some ir) /\
    (forall x, In x l -> ~ In x (kids w' ir) -> par w' x = None).
Proof.
  intros F C G l lo hi victims.
  destruct (setslice_effect w known ir a b vs F C G) as [w' [Hs [Hk [_ Hn]]]].
  fold l in Hk, Hn. fold lo in Hk, Hn. fold hi in Hk, Hn. fold victims in Hn.
  pose proof (good_setslice w known ir a b vs F C G) as [[F' _] _].
  rewrite (step'_ok _ _ _ Hs) in F'. cbn [known_after] in F'.
  assert (Hndl : NoDup l) by apply (f_nodup w known F).
  assert (Hlo : 0 <= lo) by (apply norm_bound_nonneg; lia).
  assert (Hle : lo <= hi) by (unfold hi; lia).
  destruct (slice_parts l lo hi Hlo Hle Hndl) as [Hl3 Hvd]. fold victims in Hl3, Hvd.
  assert (Hmem : forall x, In x (kids w' ir) <-> In x vs \/ (In x l /\ ~ In x victims)).
  { intro x. rewrite Hk, In_assign_slice, Hl3. split.
    - intros [Hi|[Hi|Hi]]; [left; exact Hi| |]; right; (split; [tauto|]); intro Hvi; destruct (Hvd x Hvi); contradiction.
    - tauto. }
  exists w'. split; [exact Hs|]. split; [apply (f_nodup w' known F')|]. split; [exact Hmem|]. split.
  - intros x Hx. apply (f_two_ended w' known F'). exact Hx.
  - intros x Hx Hnx. rewrite Hmem in Hnx.
    assert (Hnvs : mem x vs = false) by (apply mem_false; tauto).
    assert (Hvi : mem x victims = true).
    { apply mem_In. destruct (in_dec Z.eq_dec x victims) as [Hi|Hi]; [exact Hi|]. exfalso. tauto. }
    erewrite par_of_nodes; [|rewrite Hn, Hnvs, Hvi; reflexivity]. reflexivity.
Qed.

(* ---------- set an extended slice: l[a:b:c] = vs with a step other than 1 ---------- *)
Theorem setext_effect w known ir a b c vs s e st :
  Forest w known -> CacheInv w -> op_okb w known (OModSetExt ir a b c vs) = true ->
  SeqOps.py_slice_indices a b c (length (kids w ir)) = Ok (s, e, st) ->
  let ps := SeqOps.py_range_positions s e st (length (kids w ir)) in
  length vs = length ps ->
  exists w', step w (OModSetExt ir a b c vs) = Ok w' /\
    kids w' ir = assign_ext (kids w ir) ps vs /\ NoDup (kids w' ir) /\
    (forall x, In x (kids w' ir) -> par w' x = Some ir) /\
    (forall x, In x (kids w ir) -> ~ In x (kids w' ir) -> par w' x = None).
Proof.
  intros F C G E ps Hlen. pose proof G as G'.
  cbn [op_okb] in G. apply andb_true_iff in G. destruct G as [G G3].
  apply andb_true_iff in G. destruct G as [G1 G2]. rewrite forallb_forall in G2.
  apply negb_true_iff in G3. apply Z.eqb_neq in G3.
  assert (Hndl : NoDup (kids w ir)) by apply (f_nodup w known F).
  set (new := assign_ext (kids w ir) ps vs).
  assert (Hndn : NoDup new) by (apply NoDup_assign_ext_gen; exact Hndl).
  assert (Gv : forall x, In x new -> ~ In x (kids w ir) -> is_k w x KMod = true).
  { intros x Hx Hnx. apply G2. apply (assign_ext_new_is_value _ _ _ _ Hx Hnx). }
  destruct (assign_inv w known ir new F C G1 Hndn Gv) as [F' [_ Hf]].
  destruct (assign_closed w known ir new F C G1 Hndn Gv) as [Hk [_ Hn]].
  exists (fst (ml_assign w ir new)).
  split; [rewrite (step_setext w ir a b c vs s e st E G3 Hlen); apply flagged_true; exact Hf|].
  split; [exact Hk|]. split; [rewrite Hk; exact Hndn|]. split.
  - intros x Hx. apply (f_two_ended _ known F'). exact Hx.
  - intros x Hx Hnx. rewrite Hk in Hnx.
    assert (Hm1 : mem x new = false) by (apply mem_false; exact Hnx).
    assert (Hm2 : mem x (kids w ir) = true) by (apply mem_In; exact Hx).
    erewrite par_of_nodes; [|rewrite Hn, Hm1, Hm2; reflexivity]. reflexivity.
Qed.

(* the built-in's two ValueErrors; the list, the parents and the table stay as they were *)
Theorem setext_effect_errors w ir a b c vs :
  (c = 0 -> step w (OModSetExt ir a b c vs) = Err EValue /\ step' w (OModSetExt ir a b c vs) = w) /\
  (forall s e st, c <> 1 -> SeqOps.py_slice_indices a b c (length (kids w ir)) = Ok (s, e, st) ->
     length vs <> length (SeqOps.py_range_positions s e st (length (kids w ir))) ->
     step w (OModSetExt ir a b c vs) = Err EValue /\ step' w (OModSetExt ir a b c vs) = w).
Proof.
  split.
  - intros ->. split; [apply step_setext_zero|]. apply (step'_err _ _ EValue). apply step_setext_zero.
  - intros s e st Hc E Hlen. pose proof (step_setext_len w ir a b c vs s e st E Hc Hlen) as H.
    split; [exact H|]. apply (step'_err _ _ EValue). exact H.
Qed.

(* ================================================================== *)
(* insert / append / extend: insert(i, v) is l[k:k] = [v]               *)
(* (a module that is already in the list is moved, as list.insert       *)
(* followed by "keep only the position just assigned" puts it)          *)
(* ================================================================== *)

(* ---------- the list ---------- *)
Lemma insert_at_split {X} (v : X) : forall n l, insert_at n v l = firstn n l ++ v :: skipn n l.
Proof.
  induction n as [|n IH]; intro l; [reflexivity|]. destruct l as [|y l]; [reflexivity|].
  cbn [insert_at firstn skipn app]. f_equal. apply IH.
Qed.

Lemma remove_id_as_filter v l : filter (fun x => negb (mem x [v])) l = remove_id v l.
Proof. unfold remove_id. apply filter_ext. intro x. rewrite mem_single. reflexivity. Qed.

Lemma assign_slice_one l k v : assign_slice l k k [v] = remove_id v (firstn k l) ++ v :: remove_id v (skipn k l).
Proof. unfold assign_slice. rewrite !remove_id_as_filter. reflexivity. Qed.

Lemma In_insert_slice l k v x : In x (assign_slice l k k [v]) <-> x = v \/ In x l.
Proof.
  rewrite In_assign_slice. cbn [In]. split.
  - intros [[E|[]]|[H|H]]; [left; symmetry; exact E|right; eapply In_firstn_l; exact H|right; eapply In_skipn_l; exact H].
  - intros [E|H]; [left; left; symmetry; exact E|]. right. rewrite <- (firstn_skipn k l) in H. apply in_app_or in H. exact H.
Qed.

(* a module that is not in the list: the built-in insert (any k; beyond the end it appends) *)
Theorem insert_list_fresh (l : list id) k v : ~ In v l -> assign_slice l k k [v] = insert_at k v l.
Proof.
  intro H. rewrite assign_slice_one, insert_at_split.
  rewrite (remove_id_notin v (firstn k l)) by (intro Hi; apply H; eapply In_firstn_l; exact Hi).
  rewrite (remove_id_notin v (skipn k l)) by (intro Hi; apply H; eapply In_skipn_l; exact Hi). reflexivity.
Qed.

(* at the end of the list: v is moved to the end (member or not) *)
Theorem insert_list_end (l : list id) v : assign_slice l (length l) (length l) [v] = remove_id v l ++ [v].
Proof. rewrite assign_slice_one, firstn_all, skipn_all. reflexivity. Qed.

(* a module that is in the list already is moved: no duplicate, same members, the others keep their order *)
Theorem insert_list_moved (l : list id) k v :
  NoDup l -> In v l ->
  NoDup (assign_slice l k k [v]) /\
  (forall x, In x (assign_slice l k k [v]) <-> In x l) /\
  filter (fun x => negb (x =? v)) (assign_slice l k k [v]) = filter (fun x => negb (x =? v)) l.
Proof.
  intros Hnd Hv. split; [apply NoDup_assign_slice; [apply le_n|exact Hnd]|]. split.
  - intro x. rewrite In_insert_slice. split; [intros [E|H]; [subst; exact Hv|exact H]|intro H; right; exact H].
  - change (remove_id v (assign_slice l k k [v]) = remove_id v l).
    rewrite assign_slice_one, remove_id_app. change (v :: remove_id v (skipn k l)) with ([v] ++ remove_id v (skipn k l)).
    rewrite remove_id_app. rewrite (remove_id_cons_same v []). cbn [remove_id filter app].
    rewrite !(remove_id_notin v (remove_id v _)) by (rewrite In_remove_id; intros [_ A]; apply A; reflexivity).
    rewrite <- remove_id_app, firstn_skipn. reflexivity.
Qed.

Lemma index_of_firstn v : forall l j k, index_of v l = Some j -> (In v (firstn k l) <-> (j < k)%nat).
Proof.
  induction l as [|y l IH]; intros j k H; [discriminate|].
  cbn [index_of] in H. destruct k as [|k].
  - cbn [firstn In]. split; [intros []|lia].
  - cbn [firstn In]. destruct (Z.eqb_spec y v) as [E|E].
    + inversion H. subst. split; [lia|]. intros _. left. reflexivity.
    + destruct (index_of v l) as [j'|] eqn:Ej; [|discriminate]. cbn [option_map] in H. inversion H. subst.
      rewrite (IH j' k eq_refl). split; [intros [A|A]; [contradiction|lia]|]. intro A. right. lia.
Qed.

Lemma length_remove_id_in v : forall l, NoDup l -> In v l -> S (length (remove_id v l)) = length l.
Proof.
  induction l as [|y l IH]; intros Hnd Hv; [destruct Hv|]. inversion Hnd as [|y' l' Hy Hl]. subst.
  destruct (Z.eq_dec y v) as [E|E].
  - subst. rewrite remove_id_cons_same, (remove_id_notin v l Hy). reflexivity.
  - rewrite remove_id_cons_other by exact E. cbn [length]. f_equal. apply IH; [exact Hl|].
    destruct Hv as [A|A]; [contradiction|exact A].
Qed.

Lemma nth_error_middle {X} (a b : list X) v : nth_error (a ++ v :: b) (length a) = Some v.
Proof. induction a as [|y a IH]; [reflexivity|exact IH]. Qed.

(* ... and where it lands: the built-in insert puts v before position k of the OLD list; the old copy, when it sat before
   that position, then disappears from in front of it *)
Theorem insert_list_moved_position (l : list id) k v j :
  NoDup l -> index_of v l = Some j -> (k <= length l)%nat ->
  nth_error (assign_slice l k k [v]) (k - (if (j <? k)%nat then 1 else 0)) = Some v.
Proof.
  intros Hnd Hj Hk. rewrite assign_slice_one.
  assert (Hl : length (remove_id v (firstn k l)) = (k - (if (j <? k)%nat then 1 else 0))%nat).
  { pose proof (index_of_firstn v l j k Hj) as Hi. pose proof (firstn_length_le l Hk) as Hfl.
    destruct (Nat.ltb_spec j k) as [A|A].
    - pose proof (length_remove_id_in v (firstn k l) (NoDup_firstn l k Hnd) (proj2 Hi A)) as Hs. lia.
    - rewrite remove_id_notin; [lia|]. intro B. apply Hi in B. lia. }
  rewrite <- Hl. apply nth_error_middle.
Qed.

(* inserting a member right where it is (before itself or just after itself) changes nothing *)
Theorem insert_list_moved_same (l : list id) k v j :
  NoDup l -> index_of v l = Some j -> k = j \/ k = S j -> assign_slice l k k [v] = l.
Proof.
  intros Hnd Hj Hk. pose proof (index_of_nth v l j Hj) as Hn.
  destruct (nth_parts l j v Hnd Hn) as [Hp [Hs _]]. pose proof (nth_split_id l j v Hn) as El.
  rewrite assign_slice_one. destruct Hk as [->| ->].
  - rewrite (remove_id_notin v (firstn j l) Hp).
    assert (Es : skipn j l = v :: skipn (S j) l).
    { rewrite El at 1. rewrite skipn_app, skipn_firstn_comm, Nat.sub_diag. cbn [firstn skipn app].
      rewrite firstn_length_le by (apply Nat.lt_le_incl; apply nth_error_Some; congruence).
      rewrite Nat.sub_diag. reflexivity. }
    rewrite Es, remove_id_cons_same, (remove_id_notin v _ Hs). symmetry. exact El.
  - assert (Ef : firstn (S j) l = firstn j l ++ [v]).
    { rewrite El at 1. rewrite firstn_app, firstn_firstn, Nat.min_r by lia.
      rewrite firstn_length_le by (apply Nat.lt_le_incl; apply nth_error_Some; congruence).
      replace (S j - j)%nat with 1%nat by lia. reflexivity. }
    rewrite Ef, remove_id_app, (remove_id_notin v (firstn j l) Hp), (remove_id_cons_same v []).
    cbn [remove_id filter]. rewrite app_nil_r, (remove_id_notin v _ Hs). symmetry. exact El.
Qed.

(* ---------- closed forms ---------- *)
Lemma member_node_fixed w known ir v :
  Forest w known -> In v (kids w ir) -> nodes w v = Some (with_par (getn w v) (Some ir)).
Proof.
  intros F H. apply (f_two_ended w known F) in H. destruct (f_kind w known F ir v H) as [Hh _].
  unfold has in Hh. unfold par in H. unfold getn in *. destruct (nodes w v) as [nd|]; [|discriminate].
  destruct nd as [a1 a2 a3 a4 a5 a6 a7 a8]. cbn in H. subst. reflexivity.
Qed.

Lemma insert_closed w known ir i v :
  Forest w known -> CacheInv w -> is_k w ir KIR = true -> is_k w v KMod = true ->
  kids (fst (ml_insert w ir i v)) ir =
    assign_slice (kids w ir) (clamp_insert i (length (kids w ir))) (clamp_insert i (length (kids w ir))) [v] /\
  (forall x, x <> ir -> kids (fst (ml_insert w ir i v)) x = remove_id v (kids w x)) /\
  (forall x, nodes (fst (ml_insert w ir i v)) x = if x =? v then Some (with_par (getn w v) (Some ir)) else nodes w x).
Proof.
  intros F C G1 G2. unfold ml_insert. cbv zeta.
  set (k := clamp_insert i (length (kids w ir))). set (new := assign_slice (kids w ir) k k [v]).
  assert (Hnd : NoDup new) by (apply NoDup_assign_slice; [apply le_n|apply (f_nodup w known F)]).
  assert (Gv : forall x, In x new -> ~ In x (kids w ir) -> is_k w x KMod = true) by (apply insert_values_ok; exact G2).
  assert (Hin : forall x, In x new <-> x = v \/ In x (kids w ir)) by (intro x; apply In_insert_slice).
  destruct (assign_closed w known ir new F C G1 Hnd Gv) as [Hk [Hko Hn]].
  split; [exact Hk|]. split.
  - intros x Hx. rewrite (Hko x Hx). unfold remove_id. apply filter_ext_in. intros c Hc. f_equal.
    destruct (Z.eqb_spec c v) as [E|E].
    + apply mem_In. apply Hin. left. exact E.
    + apply mem_false. rewrite Hin. intros [A|A]; [contradiction|].
      apply (not_in_other_list w known x ir c F Hc Hx). exact A.
  - intro x. rewrite Hn. destruct (Z.eqb_spec x v) as [E|E].
    + subst x. assert (Hm : mem v new = true) by (apply mem_In; apply Hin; left; reflexivity). rewrite Hm.
      destruct (mem v (kids w ir)) eqn:Em; [|reflexivity]. apply mem_In in Em. apply (member_node_fixed w known ir v F Em).
    + assert (Hm : mem x new = mem x (kids w ir)).
      { apply mem_ext. rewrite Hin. split; [intros [A|A]; [contradiction|exact A]|intro A; right; exact A]. }
      rewrite Hm. destruct (mem x (kids w ir)); reflexivity.
Qed.

Lemma append_closed w known ir v :
  Forest w known -> CacheInv w -> is_k w ir KIR = true -> is_k w v KMod = true ->
  kids (fst (ml_append w ir v)) ir = remove_id v (kids w ir) ++ [v] /\
  (forall x, x <> ir -> kids (fst (ml_append w ir v)) x = remove_id v (kids w x)) /\
  (forall x, nodes (fst (ml_append w ir v)) x = if x =? v then Some (with_par (getn w v) (Some ir)) else nodes w x).
Proof.
  intros F C G1 G2. unfold ml_append.
  destruct (insert_closed w known ir (Z.of_nat (length (kids w ir))) v F C G1 G2) as [H1 H2].
  split; [|exact H2]. rewrite H1. rewrite clamp_insert_big by lia. apply insert_list_end.
Qed.

Lemma extend_closed known ir vs : forall w,
  Forest w known -> CacheInv w -> is_k w ir KIR = true -> (forall v, In v vs -> is_k w v KMod = true) ->
  kids (fst (fold_ok (fun w v => ml_append w ir v) vs w)) ir = fold_left (fun l v => remove_id v l ++ [v]) vs (kids w ir) /\
  (forall x, x <> ir -> kids (fst (fold_ok (fun w v => ml_append w ir v) vs w)) x = fold_left (fun l v => remove_id v l) vs (kids w x)) /\
  (forall x, nodes (fst (fold_ok (fun w v => ml_append w ir v) vs w)) x =
             if mem x vs then Some (with_par (getn w x) (Some ir)) else nodes w x).
Proof.
  induction vs as [|v vs IH]; intros w F C G Gv.
  - rewrite fold_ok_nil. cbn [fst fold_left]. split; [reflexivity|]. split; reflexivity.
  - rewrite fold_ok_cons. cbn [fst fold_left].
    assert (Hv : is_k w v KMod = true) by (apply Gv; left; reflexivity).
    destruct (append_closed w known ir v F C G Hv) as [Hki1 [Hk1 Hn1]].
    assert (Ha : ml_append w ir v = ml_insert w ir (Z.of_nat (length (kids w ir))) v) by reflexivity.
    destruct (insert_inv w known ir (Z.of_nat (length (kids w ir))) v F C G Hv) as [F1 [C1 _]].
    pose proof (insert_is_k w known ir (Z.of_nat (length (kids w ir))) v F C G Hv) as Hik.
    rewrite <- Ha in F1, C1, Hik.
    destruct (IH (fst (ml_append w ir v)) F1 C1) as [Hki2 [Hk2 Hn2]].
    + rewrite Hik. exact G.
    + intros x Hx. rewrite Hik. apply Gv. right. exact Hx.
    + split; [|split].
      * rewrite Hki2, Hki1. reflexivity.
      * intros x Hx. rewrite (Hk2 x Hx), (Hk1 x Hx). reflexivity.
      * intro x. rewrite Hn2, mem_cons. destruct (Z.eqb_spec x v) as [E|E]; cbn [orb].
        -- subst. rewrite (getn_of_nodes_some _ v _ (eq_trans (Hn1 v) ltac:(rewrite Z.eqb_refl; reflexivity))).
           rewrite Hn1, Z.eqb_refl. destruct (mem v vs); reflexivity.
        -- assert (Hnx : nodes (fst (ml_append w ir v)) x = nodes w x).
           { rewrite Hn1. destruct (Z.eqb_spec x v); [contradiction|reflexivity]. }
           rewrite (getn_of_nodes_eq _ _ x Hnx), Hnx. reflexivity.
Qed.

Lemma fold_append_fresh vs : forall l, NoDup vs -> (forall v, In v vs -> ~ In v l) ->
  fold_left (fun l v => remove_id v l ++ [v]) vs l = l ++ vs.
Proof.
  induction vs as [|v vs IH]; intros l Hnd Hnin.
  - cbn. rewrite app_nil_r. reflexivity.
  - cbn [fold_left]. inversion Hnd as [|v' vs' Hv Hnd']. subst.
    rewrite (remove_id_notin v l) by (apply Hnin; left; reflexivity).
    rewrite IH; [rewrite <- app_assoc; reflexivity|exact Hnd'|].
    intros x Hx Hi. apply in_app_or in Hi. destruct Hi as [Hi|[Hi|[]]].
    + apply (Hnin x); [right; exact Hx|exact Hi].
    + subst. contradiction.
Qed.

Theorem extend_effect w known ir vs :
  Forest w known -> CacheInv w -> op_okb w known (OModExtend ir vs) = true ->
  exists w', step w (OModExtend ir vs) = Ok w' /\
    kids w' ir = fold_left (fun l v => remove_id v l ++ [v]) vs (kids w ir) /\
    (NoDup vs -> (forall v, In v vs -> ~ In v (kids w ir)) -> kids w' ir = kids w ir ++ vs) /\
    (forall x, x <> ir -> kids w' x = fold_left (fun l v => remove_id v l) vs (kids w x)) /\
    (forall x, nodes w' x = if mem x vs then Some (with_par (getn w x) (Some ir)) else nodes w x).
Proof.
  intros F C G. cbn [op_okb] in G. apply andb_true_iff in G. destruct G as [G1 G2]. rewrite forallb_forall in G2.
  destruct (extend_fold known ir vs w F C G1 G2) as [_ [_ Hf]].
  destruct (extend_closed known ir vs w F C G1 G2) as [H1 [H2 H3]].
  exists (fst (fold_ok (fun w v => ml_append w ir v) vs w)).
  split; [rewrite step_extend; apply flagged_true; exact Hf|].
  split; [exact H1|]. split; [|split; assumption].
  intros Hnd Hnin. rewrite H1. apply fold_append_fresh; assumption.
Qed.

(* ---------- insert ---------- *)
Theorem insert_effect w known ir i v :
  Forest w known -> CacheInv w -> op_okb w known (OModInsert ir i v) = true ->
  let l := kids w ir in
  let k := clamp_insert i (length l) in
  exists w', step w (OModInsert ir i v) = Ok w' /\
    kids w' ir = assign_slice l k k [v] /\
    (forall x, x <> ir -> kids w' x = remove_id v (kids w x)) /\
    (forall x, nodes w' x = if x =? v then Some (with_par (getn w v) (Some ir)) else nodes w x) /\
    par w' v = Some ir.
Proof.
  intros F C G l k. cbn [op_okb] in G. apply andb_true_iff in G. destruct G as [G1 G2].
  destruct (insert_inv w known ir i v F C G1 G2) as [_ [_ Hf]].
  destruct (insert_closed w known ir i v F C G1 G2) as [H1 [H2 H3]].
  exists (fst (ml_insert w ir i v)). split; [rewrite step_insert; apply flagged_true; exact Hf|].
  split; [exact H1|]. split; [exact H2|]. split; [exact H3|].
  pose proof (H3 v) as Hv. rewrite Z.eqb_refl in Hv. rewrite (par_of_nodes _ _ _ Hv). reflexivity.
Qed.

(* a module that is not in the list: the built-in insert *)
Corollary insert_effect_fresh w known ir i v :
  Forest w known -> CacheInv w -> op_okb w known (OModInsert ir i v) = true -> ~ In v (kids w ir) ->
  kids (step' w (OModInsert ir i v)) ir = insert_at (clamp_insert i (length (kids w ir))) v (kids w ir).
Proof.
  intros F C G H. destruct (insert_effect w known ir i v F C G) as [w' [Hs [Hk _]]].
  rewrite (step'_ok _ _ _ Hs), Hk. apply insert_list_fresh. exact H.
Qed.

(* a module that is in the list already: it is moved inside the list and nothing else changes *)
Corollary insert_effect_member w known ir i v :
  Forest w known -> CacheInv w -> op_okb w known (OModInsert ir i v) = true -> In v (kids w ir) ->
  let l := kids w ir in
  let k := clamp_insert i (length l) in
  exists w', step w (OModInsert ir i v) = Ok w' /\
    kids w' ir = assign_slice l k k [v] /\
    NoDup (kids w' ir) /\ (forall x, In x (kids w' ir) <-> In x l) /\
    filter (fun x => negb (x =? v)) (kids w' ir) = filter (fun x => negb (x =? v)) l /\
    (forall j, index_of v l = Some j -> nth_error (kids w' ir) (k - (if (j <? k)%nat then 1 else 0)) = Some v) /\
    (forall x, x <> ir -> kids w' x = kids w x) /\
    (forall x, nodes w' x = nodes w x).
Proof.
  intros F C G Hv l k. destruct (insert_effect w known ir i v F C G) as [w' [Hs [Hk [Ho [Hn _]]]]].
  fold l in Hk. fold k in Hk.
  destruct (insert_list_moved l k v (f_nodup w known F ir) Hv) as [M1 [M2 M3]].
  exists w'. split; [exact Hs|]. split; [exact Hk|]. rewrite Hk.
  split; [exact M1|]. split; [exact M2|]. split; [exact M3|]. split; [|split].
  - intros j Hj. apply insert_list_moved_position; [apply (f_nodup w known F)|exact Hj|apply clamp_insert_le].
  - intros x Hx. rewrite (Ho x Hx). apply remove_id_notin. apply (not_in_other_list w known ir x v F Hv). congruence.
  - intro x. rewrite Hn. destruct (Z.eqb_spec x v) as [E|E]; [|reflexivity].
    subst x. symmetry. apply (member_node_fixed w known ir v F Hv).
Qed.

(* ---------- append: insert at len(self); a member is moved to the end ---------- *)
Theorem append_effect w known ir v :
  Forest w known -> CacheInv w -> op_okb w known (OModAppend ir v) = true ->
  exists w', step w (OModAppend ir v) = Ok w' /\
    kids w' ir = remove_id v (kids w ir) ++ [v] /\
    (forall x, x <> ir -> kids w' x = remove_id v (kids w x)) /\
    (forall x, nodes w' x = if x =? v then Some (with_par (getn w v) (Some ir)) else nodes w x) /\
    par w' v = Some ir.
Proof.
  intros F C G.
  destruct (insert_effect w known ir (Z.of_nat (length (kids w ir))) v F C G) as [w' [Hs [Hk H]]].
  exists w'. split; [exact Hs|]. split; [|exact H]. rewrite Hk.
  rewrite clamp_insert_big by lia. apply insert_list_end.
Qed.

Corollary append_effect_fresh w known ir v :
  Forest w known -> CacheInv w -> op_okb w known (OModAppend ir v) = true -> ~ In v (kids w ir) ->
  kids (step' w (OModAppend ir v)) ir = kids w ir ++ [v].
Proof.
  intros F C G H. destruct (append_effect w known ir v F C G) as [w' [Hs [Hk _]]].
  rewrite (step'_ok _ _ _ Hs), Hk, (remove_id_notin v _ H). reflexivity.
Qed.

(* ---------- the ir setter of a module, to an IR ---------- *)
Theorem setparent_some_effect w known c ir :
  Forest w known -> CacheInv w -> op_okb w known (OSetParent c (Some ir)) = true -> kindof w c = KMod ->
  exists w', step w (OSetParent c (Some ir)) = Ok w' /\
    kids w' ir = remove_id c (kids w ir) ++ [c] /\
    (forall x, x <> ir -> kids w' x = remove_id c (kids w x)) /\
    (forall x, nodes w' x = if x =? c then Some (with_par (getn w c) (Some ir)) else nodes w x) /\
    par w' c = Some ir.
Proof.
  intros F C G Kc. pose proof G as G0. cbn [op_okb] in G. apply andb_true_iff in G. destruct G as [G Gp].
  apply andb_true_iff in G. destruct G as [Hc _].
  destruct (pre_detach_inv w known c F C Hc Kc) as [F1 [C1 [_ [_ [Hh Hk]]]]].
  rewrite Kc in Gp. cbn [parent_kind] in Gp. apply andb_true_iff in Gp. destruct Gp as [Hq Kq]. apply kind_eqb_eq in Kq.
  assert (G1 : op_okb (pre_detach w c) known (OModAppend ir c) = true).
  { cbn [op_okb]. apply andb_true_iff. split; apply is_k_spec; rewrite Hh, Hk; auto. }
  destruct (append_effect (pre_detach w c) known ir c F1 C1 G1) as [w' [Hs [H1 [H2 [H3 H4]]]]].
  exists w'. split.
  - rewrite (step_setparent_mod w known c (Some ir) F C Hc Kc). exact Hs.
  - assert (Hrr : forall x, remove_id c (kids (pre_detach w c) x) = remove_id c (kids w x)).
    { intro x. rewrite (kids_pre_detach w known c F). apply remove_id_notin. rewrite In_remove_id. intros [_ H]. congruence. }
    split; [rewrite H1, Hrr; reflexivity|]. split; [intros x Hx; rewrite (H2 x Hx); apply Hrr|]. split; [|exact H4].
    intro x. rewrite H3. destruct (Z.eqb_spec x c) as [E|E].
    + rewrite with_par_getn_pre_detach. reflexivity.
    + apply nodes_pre_detach_other. exact E.
Qed.

(* ---------- kids of non-IR nodes never change under the module-list operations ---------- *)
Lemma fold_remove_mods_nonir w known vs x :
  Forest w known -> (forall v, In v vs -> kindof w v = KMod) -> kindof w x <> KIR ->
  fold_left (fun l v => remove_id v l) vs (kids w x) = kids w x.
Proof.
  intros F Hv Kx. rewrite fold_remove_filter. apply filter_all. intros c Hc. apply negb_true_iff. apply mem_false.
  intro Hi. apply (f_two_ended w known F) in Hc.
  destruct (parent_of_mod_is_ir w known c x F (Hv c Hi) Hc) as [K _]. contradiction.
Qed.

(* ---------- the flags, individually ---------- *)
Theorem hooks_no_keyerror w known ir v :
  Forest w known -> CacheInv w -> is_k w ir KIR = true ->
  (In v (kids w ir) -> snd (ml_remove_hook w ir v) = true) /\
  (forall k, nth_error (kids w ir) k = Some v -> snd (ml_del_at w ir k) = true) /\
  (is_k w v KMod = true -> snd (ml_add_hook w ir v) = true) /\
  (is_k w v KMod = true -> forall i, snd (ml_insert w ir i v) = true) /\
  (is_k w v KMod = true -> snd (ml_append w ir v) = true).
Proof.
  intros F C G. pose proof G as G'. apply is_k_spec in G'. destruct G' as [Hir Kir].
  split; [|split; [|split; [|split]]].
  - intro H. apply (detach_inv w known ir v F C Hir Kir H).
  - intros k H. rewrite (ml_del_at_detach w known ir k v F H). cbn [snd].
    apply (detach_inv w known ir v F C Hir Kir (nth_error_In _ _ H)).
  - intro Gv. rewrite (ml_add_hook_eq w known ir v F). cbn [snd]. apply is_k_spec in Gv. destruct Gv as [Hv Kv].
    apply (pre_detach_inv w known v F C Hv Kv).
  - intros Gv i. apply (insert_inv w known ir i v F C G Gv).
  - intro Gv. apply (insert_inv w known ir (Z.of_nat (length (kids w ir))) v F C G Gv).
Qed.

(* ---------- reach of an IR through the derived accessor ir_of ---------- *)
Lemma desc_ir_of w known ir n :
  Forest w known -> kindof w ir = KIR -> (desc w ir n <-> n = ir \/ ir_of w n = Some ir).
Proof.
  intros F Kir. split.
  - intros [d Hd]. pose proof (upn_level w known F d n ir Hd) as Hl. rewrite Kir in Hl. cbn [level] in Hl.
    destruct d as [|d]; [left; exact Hd|]. right. unfold ir_of.
    destruct (kindof w n) eqn:Kn; cbn [level] in Hl.
    + lia.
    + assert (d = 0%nat) by lia. subst d. destruct Hd as [p [Hp E]]. cbn in E. subst. exact Hp.
    + assert (d = 1%nat) by lia. subst d. destruct Hd as [p [Hp [q [Hq E]]]]. cbn in E. subst. rewrite Hp. exact Hq.
    + assert (d = 2%nat) by lia. subst d. destruct Hd as [p [Hp [q [Hq [r [Hr E]]]]]]. cbn in E. subst.
      rewrite Hp. cbn [bind_o]. rewrite Hq. exact Hr.
    + assert (d = 3%nat) by lia. subst d. destruct Hd as [p [Hp [q [Hq [r [Hr [s [Hs E]]]]]]]]. cbn in E. subst.
      rewrite Hp. cbn [bind_o]. rewrite Hq. cbn [bind_o]. rewrite Hr. exact Hs.
    + assert (d = 3%nat) by lia. subst d. destruct Hd as [p [Hp [q [Hq [r [Hr [s [Hs E]]]]]]]]. cbn in E. subst.
      rewrite Hp. cbn [bind_o]. rewrite Hq. cbn [bind_o]. rewrite Hr. exact Hs.
    + assert (d = 1%nat) by lia. subst d. destruct Hd as [p [Hp [q [Hq E]]]]. cbn in E. subst. rewrite Hp. exact Hq.
    + assert (d = 1%nat) by lia. subst d. destruct Hd as [p [Hp [q [Hq E]]]]. cbn in E. subst. rewrite Hp. exact Hq.
  - intros [E|H]; [subst; apply desc_refl|]. unfold ir_of in H.
    assert (H2 : forall a, bind_o (par w a) (par w) = Some ir -> desc w ir a).
    { intros a Ha. destruct (par w a) as [p|] eqn:Hp; [|discriminate]. cbn [bind_o] in Ha.
      eapply desc_step; [exact Hp|]. eapply desc_step; [exact Ha|]. apply desc_refl. }
    assert (H3 : forall a, bind_o (par w a) (fun s => bind_o (par w s) (par w)) = Some ir -> desc w ir a).
    { intros a Ha. destruct (par w a) as [p|] eqn:Hp; [|discriminate]. cbn [bind_o] in Ha.
      eapply desc_step; [exact Hp|]. apply H2. exact Ha. }
    destruct (kindof w n).
    + discriminate.
    + eapply desc_step; [exact H|]. apply desc_refl.
    + apply H2. exact H.
    + apply H3. exact H.
    + destruct (par w n) as [p|] eqn:Hp; [|discriminate]. cbn [bind_o] in H. eapply desc_step; [exact Hp|]. apply H3. exact H.
    + destruct (par w n) as [p|] eqn:Hp; [|discriminate]. cbn [bind_o] in H. eapply desc_step; [exact Hp|]. apply H3. exact H.
    + apply H2. exact H.
    + apply H2. exact H.
Qed.

Theorem reach_ir_of w known ir n :
  Forest w known -> kindof w ir = KIR -> (In n (reach w ir) <-> n = ir \/ ir_of w n = Some ir).
Proof. intros F K. rewrite (reach_char w known ir n F). apply (desc_ir_of w known ir n F K). Qed.

Print Assumptions f2_preserves.
Print Assumptions f2_no_keyerror.
Print Assumptions hooks_no_keyerror.
Print Assumptions reach_ir_of.
Print Assumptions new_effect.
Print Assumptions insert_effect.
Print Assumptions insert_effect_fresh.
Print Assumptions insert_effect_member.
Print Assumptions insert_list_fresh.
Print Assumptions insert_list_end.
Print Assumptions insert_list_moved.
Print Assumptions insert_list_moved_position.
Print Assumptions insert_list_moved_same.
Print Assumptions append_effect.
Print Assumptions append_effect_fresh.
Print Assumptions extend_effect.
Print Assumptions remove_effect_in.
Print Assumptions remove_effect_notin.
Print Assumptions pop_effect_some.
Print Assumptions pop_effect_none.
Print Assumptions delitem_effect_some.
Print Assumptions delitem_effect_none.
Print Assumptions delslice_effect.
Print Assumptions setitem_effect.
Print Assumptions setitem_effect_index.
Print Assumptions setitem_list_fresh.
Print Assumptions setitem_list_moved.
Print Assumptions setitem_list_moved_position.
Print Assumptions setitem_list_moved_order.
Print Assumptions setitem_effect_moves.
Print Assumptions setslice_effect.
Print Assumptions setslice_list_separate.
Print Assumptions setslice_effect_moves.
Print Assumptions In_assign_ext.
Print Assumptions NoDup_assign_ext.
Print Assumptions assign_ext_id_iff.
Print Assumptions assign_ext_separate.
Print Assumptions assign_ext_separate_conv.
Print Assumptions set_positions_read_back.
Print Assumptions good_setext.
Print Assumptions setext_effect.
Print Assumptions setext_effect_errors.
Print Assumptions clear_effect.
Print Assumptions reverse_effect.
Print Assumptions setparent_none_effect.
Print Assumptions setparent_some_effect.

(* ---------- a concrete run: sanity check of the guards, and the un-clamped reading of the slice bounds ---------- *)
Lemma inv_w0 : Forest w0 [] /\ CacheInv w0.
Proof.
  split.
  - constructor.
    + intro n. cbn. split; [discriminate|intros []].
    + intros p c. cbn. split; [intros []|discriminate].
    + intro p. constructor.
    + intros p c H. discriminate.
    + intros a b [].
  - intros ir H. discriminate.
Qed.

Definition demo_ops : list op :=
  [ONew 1 KIR 101 None 0 0 0 PNone; ONew 2 KMod 102 None 0 0 0 PNone; ONew 3 KMod 103 None 0 0 0 PNone;
   OModAppend 1 2; OModAppend 1 3].

Definition demo_world : world := fold_left step' demo_ops w0.
Definition demo_known : list id := [3; 2; 1].

Lemma demo_inv : Forest demo_world demo_known /\ CacheInv demo_world.
Proof.
  destruct inv_w0 as [F0 C0].
  destruct (f2_preserves _ _ (ONew 1 KIR 101 None 0 0 0 PNone) F0 C0 eq_refl I) as [F1 C1].
  destruct (f2_preserves _ _ (ONew 2 KMod 102 None 0 0 0 PNone) F1 C1 eq_refl I) as [F2' C2].
  destruct (f2_preserves _ _ (ONew 3 KMod 103 None 0 0 0 PNone) F2' C2 eq_refl I) as [F3 C3].
  destruct (f2_preserves _ _ (OModAppend 1 2) F3 C3 eq_refl I) as [F4 C4].
  destruct (f2_preserves _ _ (OModAppend 1 3) F4 C4 eq_refl I) as [F5 C5].
  split; [exact F5|exact C5].
Qed.

(* With the bounds of `step` NOT clamped (hi < lo), "firstn lo l ++ skipn hi l" is not the result:
   del l[1:0] deletes nothing.  delslice_effect states the list with hi := max lo hi. *)
Lemma delslice_unclamped_refuted :
  exists w known ir a b,
    Forest w known /\ CacheInv w /\ op_okb w known (OModDelSlice ir a b) = true /\
    let l := kids w ir in
    let lo := norm_bound a 0 (length l) in
    let hi := norm_bound b (Z.of_nat (length l)) (length l) in
    kids (step' w (OModDelSlice ir a b)) ir <> firstn (Z.to_nat lo) l ++ skipn (Z.to_nat hi) l.
Proof.
  exists demo_world, demo_known, 1, (Some 1), (Some 0).
  split; [apply demo_inv|]. split; [apply demo_inv|]. split; [reflexivity|].
  vm_compute. discriminate.
Qed.

Print Assumptions delslice_unclamped_refuted.
