(* Task F2: Forest and UUID-table invariants for the module-list operations. *)
From Coq Require Import ZArith List Bool Lia Arith.
From V Require Import Result LazyTree World WorldGuard ForestDefs InvDefs ModListBase.
Import ListNotations.
Open Scope Z_scope.

(* the content of CacheInv for one IR *)
Definition CacheOK (w : world) (ir : id) : Prop :=
  NoDup (map fst (cache w ir)) /\
  forall u n, dict_get Z.eqb u (cache w ir) = Some n <-> In n (reach w ir) /\ nuuid (getn w n) = u.

(* ---------- chains: comparability ---------- *)

Lemma upn_comparable w : forall d n a e b, upn w d n a -> upn w e n b -> desc w a b \/ desc w b a.
Proof.
  induction d as [|d IH]; intros n a e b Ha Hb.
  - cbn in Ha. subst. right. exists e. exact Hb.
  - destruct Ha as [p [Hp Ha]]. destruct e as [|e].
    + cbn in Hb. subst. left. exists (S d). exists p. split; assumption.
    + destruct Hb as [p' [Hp' Hb]]. rewrite Hp in Hp'. inversion Hp'. subst p'. eapply IH; eassumption.
Qed.

Lemma two_ir_roots w known a b n : Forest w known -> kindof w a = KIR -> kindof w b = KIR -> desc w a n -> desc w b n -> a = b.
Proof.
  intros F Ka Kb [d Hd] [e He]. destruct (upn_comparable w d n a e b Hd He) as [[k Hk]|[k Hk]].
  - symmetry. eapply upn_from_ir; eassumption.
  - eapply upn_from_ir; eassumption.
Qed.

(* transfer of the cache property of one IR between two worlds *)
Lemma cache_frame w known w' known' ir :
  Forest w known -> Forest w' known' -> CacheOK w ir ->
  cache w' ir = cache w ir ->
  (forall n, desc w' ir n <-> desc w ir n) ->
  (forall n, desc w ir n -> nuuid (getn w' n) = nuuid (getn w n)) ->
  CacheOK w' ir.
Proof.
  intros F F' [Hn Hg] Hc Hd Hu. unfold CacheOK. rewrite Hc. split; [exact Hn|].
  intros u n. rewrite Hg. rewrite (reach_char w known ir n F), (reach_char w' known' ir n F'). rewrite Hd.
  split; intros [H1 H2]; (split; [exact H1|]).
  - rewrite Hu; assumption.
  - rewrite <- Hu; assumption.
Qed.

(* ================================================================== *)
(* detach: ml_remove_hook + deletion of v from ir's list               *)
(* ================================================================== *)

Definition detach (w : world) (ir v : id) : world :=
  with_kids (fst (ml_remove_hook w ir v)) ir (remove_id v (kids w ir)).

Lemma nodes_remove_hook w ir v x :
  nodes (fst (ml_remove_hook w ir v)) x = if x =? v then Some (with_par (getn w v) None) else nodes w x.
Proof. reflexivity. Qed.

Lemma kids_remove_hook w ir v : kids (fst (ml_remove_hook w ir v)) = kids w.
Proof. reflexivity. Qed.

Definition uuids (w : world) (l : list id) : list Z := map (fun y => nuuid (getn w y)) l.

Lemma cache_remove_hook w ir v x :
  cache (fst (ml_remove_hook w ir v)) x =
  upd (cache w) ir (fold_left (fun d u => dict_del Z.eqb u d) (uuids w (subtree w v)) (cache w ir)) x.
Proof.
  unfold ml_remove_hook. rewrite cache_cache_remove. rewrite subtree_set_par, cache_set_par. unfold uuids.
  rewrite (map_ext (fun y => nuuid (getn (set_par w v None) y)) (fun y => nuuid (getn w y))); [reflexivity|].
  intro y. apply nuuid_set_par.
Qed.

Lemma snd_remove_hook w ir v :
  snd (ml_remove_hook w ir v) = forallb (fun u => dict_has Z.eqb u (cache w ir)) (uuids w (subtree w v)).
Proof.
  unfold ml_remove_hook. rewrite snd_cache_remove. rewrite subtree_set_par, cache_set_par. unfold uuids.
  rewrite (map_ext (fun y => nuuid (getn (set_par w v None) y)) (fun y => nuuid (getn w y))); [reflexivity|].
  intro y. apply nuuid_set_par.
Qed.

Lemma getn_remove_hook w ir v x : getn (fst (ml_remove_hook w ir v)) x = if x =? v then with_par (getn w v) None else getn w x.
Proof. unfold getn. rewrite nodes_remove_hook. destruct (x =? v); reflexivity. Qed.

Lemma par_remove_hook w ir v x : par (fst (ml_remove_hook w ir v)) x = if x =? v then None else par w x.
Proof. unfold par. rewrite getn_remove_hook. destruct (x =? v); reflexivity. Qed.

Lemma kindof_remove_hook w ir v x : kindof (fst (ml_remove_hook w ir v)) x = kindof w x.
Proof. unfold kindof. rewrite getn_remove_hook. destruct (Z.eqb_spec x v) as [E|E]; [subst|]; reflexivity. Qed.

Lemma nuuid_remove_hook w ir v x : nuuid (getn (fst (ml_remove_hook w ir v)) x) = nuuid (getn w x).
Proof. rewrite getn_remove_hook. destruct (Z.eqb_spec x v) as [E|E]; [subst|]; reflexivity. Qed.

Lemma has_remove_hook w ir v x : has w v = true -> has (fst (ml_remove_hook w ir v)) x = has w x.
Proof.
  intro H. unfold has in *. rewrite nodes_remove_hook. destruct (Z.eqb_spec x v) as [E|E]; [subst|reflexivity].
  symmetry. exact H.
Qed.

(* the same for detach (with_kids does not touch nodes) *)
Lemma nodes_detach w ir v x : nodes (detach w ir v) x = if x =? v then Some (with_par (getn w v) None) else nodes w x.
Proof. reflexivity. Qed.
Lemma kids_detach w ir v x : kids (detach w ir v) x = upd (kids w) ir (remove_id v (kids w ir)) x.
Proof. reflexivity. Qed.
Lemma kids_detach_same w ir v : kids (detach w ir v) ir = remove_id v (kids w ir).
Proof. rewrite kids_detach. apply upd_same. Qed.
Lemma kids_detach_other w ir v x : x <> ir -> kids (detach w ir v) x = kids w x.
Proof. intro H. rewrite kids_detach. apply upd_other. exact H. Qed.
Lemma cache_detach w ir v x :
  cache (detach w ir v) x =
  upd (cache w) ir (fold_left (fun d u => dict_del Z.eqb u d) (uuids w (subtree w v)) (cache w ir)) x.
Proof. unfold detach. rewrite cache_with_kids. apply cache_remove_hook. Qed.
Lemma getn_detach w ir v x : getn (detach w ir v) x = if x =? v then with_par (getn w v) None else getn w x.
Proof. unfold detach. rewrite getn_with_kids. apply getn_remove_hook. Qed.
Lemma par_detach w ir v x : par (detach w ir v) x = if x =? v then None else par w x.
Proof. unfold detach. rewrite par_with_kids. apply par_remove_hook. Qed.
Lemma par_detach_other w ir v x : x <> v -> par (detach w ir v) x = par w x.
Proof. intro H. rewrite par_detach. destruct (Z.eqb_spec x v); [contradiction|reflexivity]. Qed.
Lemma par_detach_same w ir v : par (detach w ir v) v = None.
Proof. rewrite par_detach, Z.eqb_refl. reflexivity. Qed.
Lemma kindof_detach w ir v x : kindof (detach w ir v) x = kindof w x.
Proof. unfold detach. rewrite kindof_with_kids. apply kindof_remove_hook. Qed.
Lemma nuuid_detach w ir v x : nuuid (getn (detach w ir v) x) = nuuid (getn w x).
Proof. unfold detach. rewrite getn_with_kids. apply nuuid_remove_hook. Qed.
Lemma has_detach w ir v x : has w v = true -> has (detach w ir v) x = has w x.
Proof. intro H. unfold detach. rewrite has_with_kids. apply has_remove_hook. exact H. Qed.

Lemma detach_forest w known ir v :
  Forest w known -> In v (kids w ir) -> Forest (detach w ir v) known.
Proof.
  intros F Hv.
  assert (Hp : par w v = Some ir) by (apply (f_two_ended w known F); exact Hv).
  assert (Hh : has w v = true) by (apply (f_kind w known F ir v Hp)).
  constructor.
  - intro n. rewrite (has_detach w ir v n Hh). apply (f_known w known F).
  - intros p c. rewrite par_detach. destruct (Z.eqb_spec p ir) as [E|E].
    + subst p. rewrite kids_detach_same, In_remove_id, (f_two_ended w known F).
      destruct (Z.eqb_spec c v) as [E1|E1]; split.
      * intros [_ H]. contradiction.
      * discriminate.
      * intros [H _]. exact H.
      * intro H. split; assumption.
    + rewrite (kids_detach_other w ir v p E), (f_two_ended w known F).
      destruct (Z.eqb_spec c v) as [E1|E1]; [|tauto]. subst c. rewrite Hp. split; [|discriminate].
      intro H. inversion H. congruence.
  - intro p. destruct (Z.eqb_spec p ir) as [E|E].
    + subst p. rewrite kids_detach_same. apply NoDup_remove_id. apply (f_nodup w known F).
    + rewrite (kids_detach_other w ir v p E). apply (f_nodup w known F).
  - intros p c. rewrite par_detach. destruct (Z.eqb_spec c v) as [E1|E1]; [discriminate|]. intro H.
    rewrite !(has_detach w ir v _ Hh), !kindof_detach. apply (f_kind w known F). exact H.
  - intros a b Ha Hb. rewrite !nuuid_detach. apply (f_uuid w known F); assumption.
Qed.

(* chains in the detached world *)
Section DetachChains.
  Variables (w : world) (ir v : id).
  Let w' := detach w ir v.

  Lemma detach_upn_old : forall d n r, upn w' d n r -> upn w d n r.
  Proof.
    induction d as [|d IH]; intros n r H; [exact H|].
    destruct H as [p [Hp Hu]]. unfold w' in Hp. rewrite par_detach in Hp.
    destruct (n =? v); [discriminate|]. exists p. split; [exact Hp|]. apply IH. exact Hu.
  Qed.

  Lemma detach_upn_new : forall d n r, upn w d n r -> ~ desc w v n -> upn w' d n r.
  Proof.
    induction d as [|d IH]; intros n r H Hn; [exact H|].
    destruct H as [p [Hp Hu]]. exists p. split.
    - unfold w'. rewrite par_detach_other; [exact Hp|]. intro E. subst. apply Hn. apply desc_refl.
    - apply IH; [exact Hu|]. intro Hd. apply Hn. eapply desc_step; eassumption.
  Qed.

  (* a chain of the new world that starts below v cannot leave v's subtree *)
  Lemma detach_upn_stuck : forall e n d r, upn w e n v -> upn w' d n r -> desc w v r.
  Proof.
    induction e as [|e IH]; intros n d r He Hd.
    - cbn in He. subst n. destruct d as [|d].
      + cbn in Hd. subst. apply desc_refl.
      + destruct Hd as [p [Hp _]]. unfold w' in Hp. rewrite par_detach_same in Hp. discriminate.
    - destruct He as [p [Hp He]]. destruct d as [|d].
      + cbn in Hd. subst r. exists (S e). exists p. split; assumption.
      + destruct Hd as [p' [Hp' Hd]]. unfold w' in Hp'. rewrite par_detach in Hp'.
        destruct (n =? v); [discriminate|]. rewrite Hp in Hp'. inversion Hp'. subst p'. eapply IH; eassumption.
  Qed.
End DetachChains.

Lemma detach_inv w known ir v :
  Forest w known -> CacheInv w -> has w ir = true -> kindof w ir = KIR -> In v (kids w ir) ->
  Forest (detach w ir v) known /\ CacheInv (detach w ir v) /\ snd (ml_remove_hook w ir v) = true.
Proof.
  intros F C Hir Kir Hv.
  assert (Hp : par w v = Some ir) by (apply (f_two_ended w known F); exact Hv).
  destruct (child_of_ir_is_mod w known ir v F Kir Hp) as [Kv Hhv].
  assert (Hne : v <> ir) by (intro E; subst; congruence).
  assert (F' : Forest (detach w ir v) known) by (apply detach_forest; assumption).
  assert (Hnd : ~ desc w v ir).
  { intros [d Hd]. destruct d as [|d]; [cbn in Hd; congruence|]. destruct Hd as [p [Hpp _]].
    rewrite (ir_no_parent w known ir F Kir) in Hpp. discriminate. }
  split; [exact F'|]. split.
  - intros ir' Hh' Hk'. rewrite (has_detach w ir v ir' Hhv) in Hh'. rewrite kindof_detach in Hk'.
    destruct (C ir' Hh' Hk') as [Hn Hg].
    destruct (Z.eqb_spec ir' ir) as [E|E].
    + subst ir'. rewrite cache_detach, upd_same. split; [apply dict_fold_del_nodup; exact Hn|].
      intros u n. rewrite dict_get_fold_del. rewrite (reach_char _ known ir n F'). rewrite nuuid_detach.
      destruct (mem u (uuids w (subtree w v))) eqn:Em.
      * split; [discriminate|]. intros [[d Hd] Hu]. exfalso.
        apply mem_In in Em. unfold uuids in Em. apply in_map_iff in Em. destruct Em as [m [Hm1 Hm2]].
        apply (subtree_char w known v m F) in Hm2.
        assert (Hdn : desc w ir n) by (exists d; eapply detach_upn_old; exact Hd).
        assert (m = n).
        { apply (f_uuid w known F).
          - apply (f_known w known F). exact (desc_has w known v m F Hhv Hm2).
          - apply (f_known w known F). exact (desc_has w known ir n F Hir Hdn).
          - congruence. }
        subst m. destruct Hm2 as [e He]. apply Hnd. eapply detach_upn_stuck; eassumption.
      * rewrite Hg. rewrite (reach_char w known ir n F). split; intros [[d Hd] Hu]; (split; [|exact Hu]).
        -- exists d. apply detach_upn_new; [exact Hd|]. intro Hdv. apply mem_false in Em. apply Em.
           unfold uuids. apply in_map_iff. exists n. split; [exact Hu|]. apply (subtree_char w known v n F). exact Hdv.
        -- exists d. eapply detach_upn_old. exact Hd.
    + apply (cache_frame w known (detach w ir v) known ir' F F' (conj Hn Hg)).
      * rewrite cache_detach. apply upd_other. exact E.
      * intro n. split; intros [d Hd].
        -- exists d. eapply detach_upn_old. exact Hd.
        -- exists d. apply detach_upn_new; [exact Hd|]. intro Hdv. apply E.
           apply (two_ir_roots w known ir' ir n F Hk' Kir); [exists d; exact Hd|]. eapply desc_snoc; eassumption.
      * intros n _. apply nuuid_detach.
  - rewrite snd_remove_hook. apply forallb_forall. intros u Hu. unfold uuids in Hu. apply in_map_iff in Hu.
    destruct Hu as [m [Hm1 Hm2]]. apply (subtree_char w known v m F) in Hm2.
    destruct (C ir Hir Kir) as [_ Hg]. unfold dict_has.
    assert (Hgm : dict_get Z.eqb u (cache w ir) = Some m).
    { apply Hg. split; [|exact Hm1]. apply (reach_char w known ir m F). eapply desc_snoc; eassumption. }
    rewrite Hgm. reflexivity.
Qed.

(* ================================================================== *)
(* attach: v has no owner; set its owner, add its UUIDs, put it in L  *)
(* ================================================================== *)

Definition attach (w : world) (ir v : id) (L : list id) : world :=
  with_kids (cache_add (set_par w v (Some ir)) ir v) ir L.

Lemma nodes_attach w ir v L x : nodes (attach w ir v L) x = if x =? v then Some (with_par (getn w v) (Some ir)) else nodes w x.
Proof. reflexivity. Qed.
Lemma kids_attach w ir v L x : kids (attach w ir v L) x = upd (kids w) ir L x.
Proof. reflexivity. Qed.
Lemma kids_attach_same w ir v L : kids (attach w ir v L) ir = L.
Proof. rewrite kids_attach. apply upd_same. Qed.
Lemma kids_attach_other w ir v L x : x <> ir -> kids (attach w ir v L) x = kids w x.
Proof. intro H. rewrite kids_attach. apply upd_other. exact H. Qed.

Lemma cache_add_set_par w ir v p x :
  cache (cache_add (set_par w v p) ir v) x =
  upd (cache w) ir (fold_left (fun d y => dict_set Z.eqb (nuuid (getn w y)) y d) (subtree w v) (cache w ir)) x.
Proof.
  rewrite cache_cache_add, subtree_set_par, cache_set_par.
  rewrite (fold_left_ext (fun d y => dict_set Z.eqb (nuuid (getn (set_par w v p) y)) y d)
                         (fun d y => dict_set Z.eqb (nuuid (getn w y)) y d)); [reflexivity|].
  intros d y. rewrite nuuid_set_par. reflexivity.
Qed.

Lemma cache_attach w ir v L x :
  cache (attach w ir v L) x =
  upd (cache w) ir (fold_left (fun d y => dict_set Z.eqb (nuuid (getn w y)) y d) (subtree w v) (cache w ir)) x.
Proof. unfold attach. rewrite cache_with_kids. apply cache_add_set_par. Qed.

Lemma getn_attach w ir v L x : getn (attach w ir v L) x = if x =? v then with_par (getn w v) (Some ir) else getn w x.
Proof. unfold getn. rewrite nodes_attach. destruct (x =? v); reflexivity. Qed.
Lemma par_attach w ir v L x : par (attach w ir v L) x = if x =? v then Some ir else par w x.
Proof. unfold par. rewrite getn_attach. destruct (x =? v); reflexivity. Qed.
Lemma par_attach_other w ir v L x : x <> v -> par (attach w ir v L) x = par w x.
Proof. intro H. rewrite par_attach. destruct (Z.eqb_spec x v); [contradiction|reflexivity]. Qed.
Lemma par_attach_same w ir v L : par (attach w ir v L) v = Some ir.
Proof. rewrite par_attach, Z.eqb_refl. reflexivity. Qed.
Lemma kindof_attach w ir v L x : kindof (attach w ir v L) x = kindof w x.
Proof. unfold kindof. rewrite getn_attach. destruct (Z.eqb_spec x v) as [E|E]; [subst|]; reflexivity. Qed.
Lemma nuuid_attach w ir v L x : nuuid (getn (attach w ir v L) x) = nuuid (getn w x).
Proof. rewrite getn_attach. destruct (Z.eqb_spec x v) as [E|E]; [subst|]; reflexivity. Qed.
Lemma has_attach w ir v L x : has w v = true -> has (attach w ir v L) x = has w x.
Proof.
  intro H. unfold has in *. rewrite nodes_attach. destruct (Z.eqb_spec x v) as [E|E]; [subst|reflexivity].
  symmetry. exact H.
Qed.

Lemma attach_forest w known ir v L :
  Forest w known -> has w ir = true -> kindof w ir = KIR -> has w v = true -> kindof w v = KMod -> par w v = None ->
  NoDup L -> (forall x, In x L <-> x = v \/ In x (kids w ir)) ->
  Forest (attach w ir v L) known.
Proof.
  intros F Hir Kir Hv Kv Pv HL HLin. constructor.
  - intro n. rewrite (has_attach w ir v L n Hv). apply (f_known w known F).
  - intros p c. rewrite par_attach. destruct (Z.eqb_spec p ir) as [E|E].
    + subst p. rewrite kids_attach_same, HLin, (f_two_ended w known F).
      destruct (Z.eqb_spec c v) as [E1|E1]; split.
      * reflexivity.
      * intros _. left. exact E1.
      * intros [H|H]; [contradiction|exact H].
      * intro H. right. exact H.
    + rewrite (kids_attach_other w ir v L p E), (f_two_ended w known F).
      destruct (Z.eqb_spec c v) as [E1|E1]; [|tauto]. subst c. rewrite Pv. split; [discriminate|].
      intro H. inversion H. congruence.
  - intro p. destruct (Z.eqb_spec p ir) as [E|E].
    + subst p. rewrite kids_attach_same. exact HL.
    + rewrite (kids_attach_other w ir v L p E). apply (f_nodup w known F).
  - intros p c. rewrite par_attach. rewrite !(has_attach w ir v L _ Hv), !kindof_attach.
    destruct (Z.eqb_spec c v) as [E1|E1].
    + intro H. inversion H. subst. rewrite Kv, Kir. auto.
    + apply (f_kind w known F).
  - intros a b Ha Hb. rewrite !nuuid_attach. apply (f_uuid w known F); assumption.
Qed.

Section AttachChains.
  Variables (w : world) (ir v : id) (L : list id).
  Hypothesis Pv : par w v = None.
  Let w' := attach w ir v L.

  Lemma attach_upn_old : forall d n r, upn w d n r -> upn w' d n r.
  Proof.
    induction d as [|d IH]; intros n r H; [exact H|].
    destruct H as [p [Hp Hu]]. exists p. split; [|apply IH; exact Hu].
    unfold w'. rewrite par_attach_other; [exact Hp|]. intro E. subst. congruence.
  Qed.

  Lemma attach_upn_new : forall d n r, upn w' d n r -> desc w r n \/ (desc w v n /\ exists d', upn w' d' ir r).
  Proof.
    induction d as [|d IH]; intros n r H.
    - cbn in H. subst. left. apply desc_refl.
    - destruct H as [p [Hp Hu]]. unfold w' in Hp. rewrite par_attach in Hp. destruct (Z.eqb_spec n v) as [E|E].
      + inversion Hp. subst. right. split; [apply desc_refl|]. exists d. exact Hu.
      + destruct (IH p r Hu) as [H|[H1 H2]].
        * left. eapply desc_step; eassumption.
        * right. split; [|exact H2]. eapply desc_step; eassumption.
  Qed.

  Lemma attach_desc_v n : desc w v n -> desc w' ir n.
  Proof.
    intros [e He]. exists (S e). apply upn_snoc. exists v. split; [apply attach_upn_old; exact He|].
    unfold w'. apply par_attach_same.
  Qed.
End AttachChains.

Lemma attach_inv w known ir v L :
  Forest w known -> CacheInv w -> has w ir = true -> kindof w ir = KIR -> has w v = true -> kindof w v = KMod -> par w v = None ->
  NoDup L -> (forall x, In x L <-> x = v \/ In x (kids w ir)) ->
  Forest (attach w ir v L) known /\ CacheInv (attach w ir v L).
Proof.
  intros F C Hir Kir Hv Kv Pv HL HLin.
  assert (F' : Forest (attach w ir v L) known) by (apply attach_forest; assumption).
  assert (Hne : v <> ir) by (intro E; subst; congruence).
  assert (Hdisj : forall n, desc w ir n -> desc w v n -> False).
  { intros n [d Hd] [e He]. destruct (upn_comparable w d n ir e v Hd He) as [[k Hk]|[k Hk]].
    - destruct k as [|k]; [cbn in Hk; congruence|]. destruct Hk as [p [Hp _]]. congruence.
    - apply Hne. symmetry. exact (upn_from_ir w known ir v k F Kir Hk). }
  split; [exact F'|].
  intros ir' Hh' Hk'. rewrite (has_attach w ir v L ir' Hv) in Hh'. rewrite kindof_attach in Hk'.
  destruct (C ir' Hh' Hk') as [Hn Hg].
  destruct (Z.eqb_spec ir' ir) as [E|E].
  - subst ir'. rewrite cache_attach, upd_same. split; [apply dict_fold_set_nodup; exact Hn|].
    intros u n. rewrite (reach_char _ known ir n F'), nuuid_attach.
    rewrite (dict_get_fold_set (fun y => nuuid (getn w y))).
    2:{ intros a b Ha Hb. apply (f_uuid w known F); apply (f_known w known F).
        - apply (desc_has w known v a F Hv). apply (subtree_char w known v a F). exact Ha.
        - apply (desc_has w known v b F Hv). apply (subtree_char w known v b F). exact Hb. }
    split.
    + intros [[H1 H2]|[H1 H2]].
      * split; [|exact H2]. apply attach_desc_v; [exact Pv|]. apply (subtree_char w known v n F). exact H1.
      * apply Hg in H1. destruct H1 as [H1 H3]. split; [|exact H3].
        apply (reach_char w known ir n F) in H1. destruct H1 as [d Hd]. exists d. apply attach_upn_old; assumption.
    + intros [[d Hd] Hu]. destruct (in_dec Z.eq_dec n (subtree w v)) as [Hi|Hi]; [left; split; assumption|].
      right. assert (Hdn : desc w ir n).
      { destruct (attach_upn_new w ir v L d n ir Hd) as [H|[H _]]; [exact H|].
        exfalso. apply Hi. apply (subtree_char w known v n F). exact H. }
      split.
      * apply Hg. split; [|exact Hu]. apply (reach_char w known ir n F). exact Hdn.
      * intros x Hx Hux. apply Hi. assert (x = n); [|subst; exact Hx].
        apply (f_uuid w known F); [| |congruence]; apply (f_known w known F).
        -- apply (desc_has w known v x F Hv). apply (subtree_char w known v x F). exact Hx.
        -- apply (desc_has w known ir n F Hir Hdn).
  - apply (cache_frame w known (attach w ir v L) known ir' F F' (conj Hn Hg)).
    + rewrite cache_attach. apply upd_other. exact E.
    + intro n. split; intros [d Hd].
      * destruct (attach_upn_new w ir v L d n ir' Hd) as [H|[_ [d' H]]]; [exact H|].
        exfalso. apply E. symmetry. apply (upn_from_ir _ known ir ir' d' F'); [|exact H]. rewrite kindof_attach. exact Kir.
      * exists d. apply attach_upn_old; assumption.
    + intros n _. apply nuuid_attach.
Qed.

(* ================================================================== *)
(* ONew                                                                *)
(* ================================================================== *)

Definition new_node k u a s f nm p : node :=
  {| nk := k; nuuid := u; npar := None; naddr := a; nsize := s; noff := f; nname := nm; npay := p |}.

Definition new_world (w : world) n k u a s f nm p : world :=
  let w1 := setn w n (new_node k u a s f nm p) in
  match k with KIR => set_cache w1 (upd (cache w1) n [(u, n)]) | _ => w1 end.

Lemma step_new w n k u a s f nm p : step w (ONew n k u a s f nm p) = Ok (new_world w n k u a s f nm p).
Proof. reflexivity. Qed.

Lemma nodes_new w n k u a s f nm p x :
  nodes (new_world w n k u a s f nm p) x = if x =? n then Some (new_node k u a s f nm p) else nodes w x.
Proof. unfold new_world. destruct k; reflexivity. Qed.

Lemma kids_new w n k u a s f nm p x : kids (new_world w n k u a s f nm p) x = kids w x.
Proof. unfold new_world. destruct k; reflexivity. Qed.

Lemma cache_new_ir w n u a s f nm p x :
  cache (new_world w n KIR u a s f nm p) x = if x =? n then [(u, n)] else cache w x.
Proof. reflexivity. Qed.

Lemma cache_new_other w n k u a s f nm p x : x <> n -> cache (new_world w n k u a s f nm p) x = cache w x.
Proof.
  intro H. unfold new_world. destruct k; try reflexivity.
  cbn [cache set_cache]. apply upd_other. exact H.
Qed.

Lemma getn_new w n k u a s f nm p x :
  getn (new_world w n k u a s f nm p) x = if x =? n then new_node k u a s f nm p else getn w x.
Proof. unfold getn. rewrite nodes_new. destruct (x =? n); reflexivity. Qed.

Lemma par_new w n k u a s f nm p x : has w n = false -> par (new_world w n k u a s f nm p) x = par w x.
Proof.
  intro H. unfold par at 1. rewrite getn_new. destruct (Z.eqb_spec x n) as [E|E]; [|reflexivity].
  subst. cbn. symmetry. apply par_nohas. exact H.
Qed.

Lemma has_new w n k u a s f nm p x : has (new_world w n k u a s f nm p) x = (x =? n) || has w x.
Proof. unfold has. rewrite nodes_new. destruct (x =? n); reflexivity. Qed.

Lemma kindof_new_other w n k u a s f nm p x : x <> n -> kindof (new_world w n k u a s f nm p) x = kindof w x.
Proof. intro H. unfold kindof. rewrite getn_new. destruct (Z.eqb_spec x n); [contradiction|reflexivity]. Qed.

Lemma upn_par_ext w w' : (forall x, par w' x = par w x) -> forall d n r, upn w' d n r <-> upn w d n r.
Proof.
  intro H. induction d as [|d IH]; intros n r; [reflexivity|]. cbn [upn]. split; intros [p [Hp Hu]]; exists p.
  - rewrite <- H. split; [exact Hp|apply IH; exact Hu].
  - rewrite H. split; [exact Hp|apply IH; exact Hu].
Qed.

Lemma desc_par_ext w w' : (forall x, par w' x = par w x) -> forall r n, desc w' r n <-> desc w r n.
Proof. intros H r n. unfold desc. split; intros [d Hd]; exists d; apply (upn_par_ext w w' H); exact Hd. Qed.

Lemma uuid_fresh_spec w known u : uuid_fresh w known u = true -> forall x, In x known -> nuuid (getn w x) <> u.
Proof.
  unfold uuid_fresh. rewrite forallb_forall. intros H x Hx. specialize (H x Hx).
  apply negb_true_iff in H. apply Z.eqb_neq. exact H.
Qed.

Lemma new_inv w known n k u a s f nm p :
  Forest w known -> CacheInv w -> has w n = false -> ~ In n known -> uuid_fresh w known u = true ->
  Forest (new_world w n k u a s f nm p) (n :: known) /\ CacheInv (new_world w n k u a s f nm p).
Proof.
  intros F C Hn Hk Hu. set (w' := new_world w n k u a s f nm p).
  assert (Hpar : forall x, par w' x = par w x) by (intro x; apply par_new; exact Hn).
  assert (F' : Forest w' (n :: known)).
  { constructor.
    - intro x. unfold w'. rewrite has_new. cbn [In]. rewrite <- (f_known w known F).
      destruct (Z.eqb_spec x n) as [E|E]; cbn [orb].
      + split; [intros _; left; congruence|reflexivity].
      + split; [intro H; right; exact H|intros [H|H]; [congruence|exact H]].
    - intros q c. rewrite Hpar. unfold w'. rewrite kids_new. apply (f_two_ended w known F).
    - intro q. unfold w'. rewrite kids_new. apply (f_nodup w known F).
    - intros q c. rewrite Hpar. intro H. destruct (f_kind w known F q c H) as [H1 [H2 H3]].
      assert (c <> n) by (intro; subst; congruence). assert (q <> n) by (intro; subst; congruence).
      unfold w'. rewrite !has_new, !kindof_new_other by assumption. rewrite H1, H2, !orb_true_r. auto.
    - intros x y Hx Hy. unfold w'. rewrite !getn_new.
      destruct (Z.eqb_spec x n) as [E1|E1]; destruct (Z.eqb_spec y n) as [E2|E2].
      + congruence.
      + cbn. intro H. exfalso. destruct Hy as [Hy|Hy]; [congruence|].
        apply (uuid_fresh_spec w known u Hu y Hy). symmetry. exact H.
      + cbn. intro H. exfalso. destruct Hx as [Hx|Hx]; [congruence|].
        apply (uuid_fresh_spec w known u Hu x Hx). exact H.
      + destruct Hx as [Hx|Hx]; [congruence|]. destruct Hy as [Hy|Hy]; [congruence|].
        apply (f_uuid w known F); assumption. }
  split; [exact F'|].
  intros ir Hh Hki. destruct (Z.eqb_spec ir n) as [E|E].
  - subst ir. assert (k = KIR).
    { unfold w', kindof in Hki. rewrite getn_new, Z.eqb_refl in Hki. exact Hki. }
    subst k. unfold w'. rewrite cache_new_ir, Z.eqb_refl. split.
    + cbn. constructor; [intros []|constructor].
    + intros u' m. fold w'. unfold reach, subtree. unfold w' at 2. rewrite kids_new.
      rewrite (nohas_kids_nil w known n F Hn). cbn [flat_map In dict_get].
      destruct (Z.eqb_spec u u') as [E1|E1].
      * split.
        -- intro H. inversion H. subst. split; [left; reflexivity|]. unfold w'. rewrite getn_new, Z.eqb_refl. reflexivity.
        -- intros [[H|[]] _]. subst. reflexivity.
      * split; [discriminate|]. intros [[H|[]] H2]. subst m. unfold w' in H2. rewrite getn_new, Z.eqb_refl in H2.
        cbn in H2. congruence.
  - unfold w' in Hh. rewrite has_new in Hh. destruct (Z.eqb_spec ir n) as [E1|_]; [contradiction|]. cbn [orb] in Hh.
    unfold w' in Hki. rewrite kindof_new_other in Hki by exact E.
    apply (cache_frame w known w' (n :: known) ir F F' (C ir Hh Hki)).
    + apply cache_new_other. exact E.
    + intro m. apply desc_par_ext. exact Hpar.
    + intros m Hm. unfold w'. rewrite getn_new. destruct (Z.eqb_spec m n) as [E2|E2]; [|reflexivity].
      subst m. exfalso. pose proof (desc_has w known ir n F Hh Hm). congruence.
Qed.
