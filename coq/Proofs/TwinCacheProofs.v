(* Task TW: the per-IR UUID table under per-IR distinctness (C03 without globally distinct UUIDs).
   Model: Model/TwinCache.v.  Standard library only. *)
From Coq Require Import ZArith List Bool Lia.
From V Require Import Result TwinCache.
Import ListNotations.
Open Scope Z_scope.

(* ------------------------------------------------------------------ *)
(* Definitions (as in the task)                                        *)
(* ------------------------------------------------------------------ *)

(* the (uuid, node) pairs registered for IR `ir`: those of the subtrees of its members *)
Definition attached (s : st) (ir : Z) : list (Z * id) := flat_map (sub s) (members (irs s ir)).

(* the property's premise for one IR: no two attached nodes share a UUID (and the set holds no element twice) *)
Definition distinct (s : st) (ir : Z) : Prop := NoDup (members (irs s ir)) /\ NoDup (map fst (attached s ir)).

(* C03 for one IR: the table answers exactly for the attached nodes *)
Definition exact (s : st) (ir : Z) : Prop :=
  forall u n, lookup s ir u = Some n <-> In (u, n) (attached s ir).

(* bookkeeping: `owner` says where each element is *)
Definition owned (s : st) : Prop := forall x ir, owner s x = Some ir <-> In x (members (irs s ir)).

Definition Inv (s : st) : Prop := owned s /\ forall ir, distinct s ir /\ exact s ir.

(* the members of `ir` after `coll ^= args`: survivors, then newcomers *)
Definition xor_final (s : st) (ir : Z) (args : list id) : list id :=
  filter (fun y => negb (mem y args)) (members (irs s ir)) ++
  filter (fun x => negb (mem x (members (irs s ir)))) (dedup args).

(* ------------------------------------------------------------------ *)
(* Lists                                                               *)
(* ------------------------------------------------------------------ *)

Lemma mem_spec : forall (x : id) (l : list id), mem x l = true <-> In x l.
Proof.
  intros x l. induction l as [|y l IH]; cbn.
  - split; [discriminate | intros []].
  - rewrite orb_true_iff, Z.eqb_eq, IH. reflexivity.
Qed.

Lemma mem_false : forall (x : id) (l : list id), mem x l = false <-> ~ In x l.
Proof.
  intros x l. rewrite <- mem_spec. destruct (mem x l); split; intros H.
  - discriminate.
  - exfalso. apply H. reflexivity.
  - intros H'. discriminate.
  - reflexivity.
Qed.

Lemma In_remove_id : forall (x y : id) (l : list id), In y (remove_id x l) <-> In y l /\ y <> x.
Proof.
  intros x y l. unfold remove_id. rewrite filter_In, negb_true_iff, Z.eqb_neq. reflexivity.
Qed.

Lemma In_dedup : forall (x : id) (l : list id), In x (dedup l) <-> In x l.
Proof.
  intros x l. induction l as [|y l IH]; cbn; [reflexivity|].
  destruct (mem y l) eqn:E.
  - rewrite IH. split; [intros H; right; exact H|]. intros [<-|H]; [apply mem_spec; exact E | exact H].
  - cbn. rewrite IH. reflexivity.
Qed.

Lemma NoDup_dedup : forall l : list id, NoDup (dedup l).
Proof.
  induction l as [|y l IH]; cbn; [constructor|].
  destruct (mem y l) eqn:E; [exact IH|].
  constructor; [|exact IH]. rewrite In_dedup. apply mem_false. exact E.
Qed.

Lemma nodup_app : forall (A : Type) (l1 l2 : list A),
  NoDup (l1 ++ l2) <-> NoDup l1 /\ NoDup l2 /\ (forall x, In x l1 -> ~ In x l2).
Proof.
  intros A l1 l2. induction l1 as [|a l1 IH]; cbn.
  - split.
    + intros H. split; [constructor|]. split; [exact H|]. intros x [].
    + intros (_ & H & _). exact H.
  - split.
    + intros H. inversion H as [|a' l' Hnin Hnd]; subst.
      apply IH in Hnd. destruct Hnd as (H1 & H2 & H3).
      split; [|split].
      * constructor; [|exact H1]. intros Hin. apply Hnin. apply in_or_app. left. exact Hin.
      * exact H2.
      * intros x [<-|Hx]; [|apply H3; exact Hx]. intros Hin. apply Hnin. apply in_or_app. right. exact Hin.
    + intros (H1 & H2 & H3). inversion H1 as [|a' l' Hnin Hnd]; subst.
      constructor.
      * intros Hin. apply in_app_or in Hin. destruct Hin as [Hin|Hin]; [exact (Hnin Hin)|].
        apply (H3 a); [left; reflexivity | exact Hin].
      * apply IH. split; [exact Hnd|]. split; [exact H2|]. intros x Hx. apply H3. right. exact Hx.
Qed.

(* keys of a flattened forest *)
Lemma in_keys_flat_map : forall (f : id -> tree) (l : list id) (u : Z),
  In u (map fst (flat_map f l)) <-> exists y, In y l /\ In u (map fst (f y)).
Proof.
  intros f l u. split.
  - intros H. apply in_map_iff in H. destruct H as [[u' n] [Hfst Hin]]. cbn in Hfst. subst u'.
    apply in_flat_map in Hin. destruct Hin as [y [Hy Hyin]].
    exists y. split; [exact Hy|]. apply in_map_iff. exists (u, n). split; [reflexivity | exact Hyin].
  - intros [y [Hy Hu]]. apply in_map_iff in Hu. destruct Hu as [[u' n] [Hfst Hin]]. cbn in Hfst. subst u'.
    apply in_map_iff. exists (u, n). split; [reflexivity|]. apply in_flat_map. exists y. split; assumption.
Qed.

Lemma in_key_of_pair : forall (tr : tree) (u : Z) (n : id), In (u, n) tr -> In u (map fst tr).
Proof. intros tr u n H. apply in_map_iff. exists (u, n). split; [reflexivity | exact H]. Qed.

Lemma key_has_pair : forall (tr : tree) (u : Z), In u (map fst tr) -> exists n, In (u, n) tr.
Proof.
  intros tr u H. apply in_map_iff in H. destruct H as [[u' n] [Hfst Hin]]. cbn in Hfst. subst u'.
  exists n. exact Hin.
Qed.

Lemma nodup_keys_elem : forall (f : id -> tree) (l : list id) (x : id),
  NoDup (map fst (flat_map f l)) -> In x l -> NoDup (map fst (f x)).
Proof.
  intros f l x. induction l as [|a l IH]; cbn; intros Hnd Hx; [contradiction|].
  rewrite map_app in Hnd. apply nodup_app in Hnd. destruct Hnd as (H1 & H2 & _).
  destruct Hx as [->|Hx]; [exact H1 | apply IH; assumption].
Qed.

Lemma keys_disjoint : forall (f : id -> tree) (l : list id) (x y : id) (u : Z),
  NoDup (map fst (flat_map f l)) -> In x l -> In y l -> x <> y ->
  In u (map fst (f x)) -> ~ In u (map fst (f y)).
Proof.
  intros f l x y u. induction l as [|a l IH]; cbn; intros Hnd Hx Hy Hxy Hux Huy; [contradiction|].
  rewrite map_app in Hnd. apply nodup_app in Hnd. destruct Hnd as (H1 & H2 & H3).
  destruct Hx as [->|Hx]; destruct Hy as [->|Hy].
  - apply Hxy. reflexivity.
  - apply (H3 u Hux). apply in_keys_flat_map. exists y. split; assumption.
  - apply (H3 u Huy). apply in_keys_flat_map. exists x. split; assumption.
  - apply IH; assumption.
Qed.

Lemma nodup_keys_filter : forall (f : id -> tree) (p : id -> bool) (l : list id),
  NoDup (map fst (flat_map f l)) -> NoDup (map fst (flat_map f (filter p l))).
Proof.
  intros f p l. induction l as [|a l IH]; cbn; intros Hnd; [constructor|].
  rewrite map_app in Hnd. apply nodup_app in Hnd. destruct Hnd as (H1 & H2 & H3).
  destruct (p a); [|apply IH; exact H2].
  cbn. rewrite map_app. apply nodup_app. split; [exact H1|]. split; [apply IH; exact H2|].
  intros u Hu Hin. apply (H3 u Hu).
  apply in_keys_flat_map in Hin. destruct Hin as [y [Hy Hyu]].
  apply filter_In in Hy. destruct Hy as [Hy _].
  apply in_keys_flat_map. exists y. split; assumption.
Qed.

(* ------------------------------------------------------------------ *)
(* The dict                                                            *)
(* ------------------------------------------------------------------ *)

Lemma t_get_del_same : forall t u, t_get (t_del t u) u = None.
Proof.
  intros t u. induction t as [|[k v] t IH]; cbn; [reflexivity|].
  destruct (k =? u) eqn:E; [exact IH|]. cbn. rewrite E. exact IH.
Qed.

Lemma t_get_del_other : forall t u v, u <> v -> t_get (t_del t u) v = t_get t v.
Proof.
  intros t u v Huv. induction t as [|[k w] t IH]; cbn; [reflexivity|].
  destruct (k =? u) eqn:E.
  - apply Z.eqb_eq in E. subst k. destruct (Z.eqb_spec u v) as [Heq|_]; [contradiction | exact IH].
  - cbn. destruct (k =? v); [reflexivity | exact IH].
Qed.

Lemma t_get_set : forall t u n v, t_get (t_set t u n) v = if u =? v then Some n else t_get t v.
Proof.
  intros t u n v. unfold t_set. cbn. destruct (Z.eqb_spec u v) as [_|Hne]; [reflexivity|].
  apply t_get_del_other. exact Hne.
Qed.

Lemma tdc_get : forall t u v,
  t_get (fst (t_del_checked t u)) v = if u =? v then None else t_get t v.
Proof.
  intros t u v. unfold t_del_checked. destruct (t_get t u) eqn:E; cbn.
  - destruct (Z.eqb_spec u v) as [<-|Hne]; [apply t_get_del_same | apply t_get_del_other; exact Hne].
  - destruct (Z.eqb_spec u v) as [<-|Hne]; [exact E | reflexivity].
Qed.

Lemma register_cons : forall t p tr, register t (p :: tr) = register (t_set t (fst p) (snd p)) tr.
Proof. reflexivity. Qed.

Lemma register_notin : forall tr t v, ~ In v (map fst tr) -> t_get (register t tr) v = t_get t v.
Proof.
  induction tr as [|[k w] tr IH]; intros t v Hn; [reflexivity|].
  rewrite register_cons. cbn [fst snd]. cbn in Hn.
  rewrite IH by (intros H; apply Hn; right; exact H).
  rewrite t_get_set. destruct (Z.eqb_spec k v) as [Heq|_]; [|reflexivity].
  exfalso. apply Hn. left. exact Heq.
Qed.

Lemma register_in : forall tr t v n,
  NoDup (map fst tr) -> In (v, n) tr -> t_get (register t tr) v = Some n.
Proof.
  induction tr as [|[k w] tr IH]; intros t v n Hnd Hin; [contradiction|].
  rewrite register_cons. cbn [fst snd]. cbn in Hnd. inversion Hnd as [|k' l' Hnin Hnd']; subst.
  destruct Hin as [Heq|Hin].
  - inversion Heq; subst. rewrite register_notin by exact Hnin.
    rewrite t_get_set, Z.eqb_refl. reflexivity.
  - apply IH; assumption.
Qed.

(* unregister as a structural recursion *)
Fixpoint unreg (t : table) (tr : tree) : table * bool :=
  match tr with
  | [] => (t, true)
  | p :: tr' => let '(t', ok') := t_del_checked t (fst p) in
                let '(t'', ok'') := unreg t' tr' in (t'', ok' && ok'')
  end.

Lemma unreg_fold : forall tr t b,
  fold_left (fun (acc : table * bool) p => let '(t, ok) := acc in
                                           let '(t', ok') := t_del_checked t (fst p) in (t', ok && ok')) tr (t, b)
  = (fst (unreg t tr), b && snd (unreg t tr)).
Proof.
  induction tr as [|p tr IH]; intros t b; cbn [fold_left unreg].
  - cbn. rewrite andb_true_r. reflexivity.
  - destruct (t_del_checked t (fst p)) as [t' ok'] eqn:E. rewrite IH.
    destruct (unreg t' tr) as [t'' ok'']. cbn. rewrite andb_assoc. reflexivity.
Qed.

Lemma unregister_unreg : forall t tr, unregister t tr = unreg t tr.
Proof.
  intros t tr. unfold unregister. rewrite unreg_fold. destruct (unreg t tr). reflexivity.
Qed.

Lemma unreg_get : forall tr t v,
  t_get (fst (unreg t tr)) v = if mem v (map fst tr) then None else t_get t v.
Proof.
  induction tr as [|p tr IH]; intros t v; [reflexivity|].
  cbn [unreg map mem].
  pose proof (tdc_get t (fst p) v) as Hd.
  destruct (t_del_checked t (fst p)) as [t' ok'].
  pose proof (IH t' v) as Hi.
  destruct (unreg t' tr) as [t'' ok'']. cbn [fst] in *.
  rewrite Hi, Hd. destruct (fst p =? v); cbn; destruct (mem v (map fst tr)); reflexivity.
Qed.

Lemma unreg_ok : forall tr t,
  NoDup (map fst tr) -> (forall u, In u (map fst tr) -> t_get t u <> None) -> snd (unreg t tr) = true.
Proof.
  induction tr as [|p tr IH]; intros t Hnd Hall; [reflexivity|].
  cbn [unreg]. cbn in Hnd. inversion Hnd as [|k' l' Hnin Hnd']; subst.
  unfold t_del_checked. destruct (t_get t (fst p)) eqn:E.
  - assert (Hs : snd (unreg (t_del t (fst p)) tr) = true).
    { apply IH; [exact Hnd'|]. intros u Hu. rewrite t_get_del_other.
      - apply Hall. right. exact Hu.
      - intros Heq. subst u. exact (Hnin Hu). }
    destruct (unreg (t_del t (fst p)) tr) as [t'' ok'']. cbn in *. exact Hs.
  - exfalso. apply (Hall (fst p)); [left; reflexivity | exact E].
Qed.

(* ------------------------------------------------------------------ *)
(* Frames                                                              *)
(* ------------------------------------------------------------------ *)

Lemma upd_same : forall (X : Type) (f : Z -> X) k v, upd f k v k = v.
Proof. intros X f k v. unfold upd. rewrite Z.eqb_refl. reflexivity. Qed.

Lemma upd_other : forall (X : Type) (f : Z -> X) k v x, x <> k -> upd f k v x = f x.
Proof. intros X f k v x H. unfold upd. destruct (Z.eqb_spec x k) as [Heq|_]; [contradiction | reflexivity]. Qed.

Lemma distinct_ext : forall s s' ir, sub s' = sub s -> irs s' ir = irs s ir -> distinct s ir -> distinct s' ir.
Proof. intros s s' ir Hs Hi H. unfold distinct, attached in *. rewrite Hs, Hi. exact H. Qed.

Lemma exact_ext : forall s s' ir, sub s' = sub s -> irs s' ir = irs s ir -> exact s ir -> exact s' ir.
Proof. intros s s' ir Hs Hi H. unfold exact, lookup, attached in *. rewrite Hs, Hi. exact H. Qed.

(* ------------------------------------------------------------------ *)
(* 1. the initial state                                                *)
(* ------------------------------------------------------------------ *)

Theorem inv_st0 : forall subs, Inv (st0 subs).
Proof.
  intros subs. split.
  - intros x ir. cbn. split; [discriminate | intros []].
  - intros ir. split.
    + split; cbn; constructor.
    + intros u n. cbn. split; [discriminate | intros []].
Qed.

(* ------------------------------------------------------------------ *)
(* 2. discard                                                          *)
(* ------------------------------------------------------------------ *)

Lemma discard_member : forall s ir x, mem x (members (irs s ir)) = true ->
  discard s ir x =
  ({| sub := sub s;
      irs := upd (irs s) ir {| members := remove_id x (members (irs s ir));
                               cache := fst (unreg (cache (irs s ir)) (sub s x)) |};
      owner := upd (owner s) x None |},
   snd (unreg (cache (irs s ir)) (sub s x))).
Proof.
  intros s ir x H. unfold discard. cbv zeta. rewrite H, unregister_unreg.
  destruct (unreg (cache (irs s ir)) (sub s x)). reflexivity.
Qed.

Lemma discard_nonmember : forall s ir x, mem x (members (irs s ir)) = false -> discard s ir x = (s, true).
Proof. intros s ir x H. unfold discard. cbv zeta. rewrite H. reflexivity. Qed.

Lemma discard_sub : forall s ir x, sub (fst (discard s ir x)) = sub s.
Proof.
  intros s ir x. destruct (mem x (members (irs s ir))) eqn:E.
  - rewrite discard_member by exact E. reflexivity.
  - rewrite discard_nonmember by exact E. reflexivity.
Qed.

Lemma discard_members : forall s ir x y,
  In y (members (irs (fst (discard s ir x)) ir)) <-> In y (members (irs s ir)) /\ y <> x.
Proof.
  intros s ir x y. destruct (mem x (members (irs s ir))) eqn:E.
  - rewrite discard_member by exact E. cbn [fst irs]. rewrite upd_same. cbn [members]. apply In_remove_id.
  - rewrite discard_nonmember by exact E. cbn [fst]. apply mem_false in E.
    split; [|intros [H _]; exact H]. intros H. split; [exact H|]. intros ->. exact (E H).
Qed.

Theorem discard_other_ir_untouched : forall s ir ir' x, ir' <> ir -> irs (fst (discard s ir x)) ir' = irs s ir'.
Proof.
  intros s ir ir' x Hne. destruct (mem x (members (irs s ir))) eqn:E.
  - rewrite discard_member by exact E. cbn [fst irs]. apply upd_other. exact Hne.
  - rewrite discard_nonmember by exact E. reflexivity.
Qed.

(* the effect of a discard, stated on projections only *)
Lemma discard_step_inv : forall s s' ir x,
  Inv s -> In x (members (irs s ir)) ->
  sub s' = sub s ->
  (forall ir', ir' <> ir -> irs s' ir' = irs s ir') ->
  members (irs s' ir) = remove_id x (members (irs s ir)) ->
  (forall u, t_get (cache (irs s' ir)) u
             = if mem u (map fst (sub s x)) then None else t_get (cache (irs s ir)) u) ->
  (forall y, owner s' y = if y =? x then None else owner s y) ->
  Inv s'.
Proof.
  intros s s' ir x [Hown Hper] Hx Hsub Hoth Hmem Hcache Hownr.
  destruct (Hper ir) as [[Hnd Hndk] Hex]. unfold attached in Hndk.
  split.
  - intros y ir'. rewrite Hownr. destruct (Z.eqb_spec y x) as [->|Hyx].
    + split; [discriminate|]. intros Hin. exfalso.
      destruct (Z.eq_dec ir' ir) as [->|Hne].
      * rewrite Hmem in Hin. apply In_remove_id in Hin. destruct Hin as [_ Hc]. apply Hc. reflexivity.
      * rewrite (Hoth ir' Hne) in Hin. apply Hown in Hin. apply Hown in Hx. rewrite Hx in Hin.
        inversion Hin as [Heq]. apply Hne. symmetry. exact Heq.
    + destruct (Z.eq_dec ir' ir) as [->|Hne].
      * rewrite Hmem. split.
        -- intros Ho. apply In_remove_id. split; [apply Hown; exact Ho | exact Hyx].
        -- intros Hin. apply In_remove_id in Hin. apply Hown. apply Hin.
      * rewrite (Hoth ir' Hne). apply Hown.
  - intros ir'. destruct (Z.eq_dec ir' ir) as [->|Hne].
    2:{ destruct (Hper ir') as [Hd He].
        split; [apply (distinct_ext s) | apply (exact_ext s)]; auto. }
    split.
    + unfold distinct, attached. rewrite Hsub, Hmem. split.
      * apply NoDup_filter. exact Hnd.
      * apply nodup_keys_filter. exact Hndk.
    + intros u n. unfold lookup, attached. rewrite Hcache, Hsub, Hmem.
      unfold exact, lookup, attached in Hex.
      destruct (mem u (map fst (sub s x))) eqn:Em.
      * apply mem_spec in Em. split; [discriminate|]. intros Hin. exfalso.
        apply in_flat_map in Hin. destruct Hin as [y [Hy Hyin]].
        apply In_remove_id in Hy. destruct Hy as [Hym Hyx].
        apply (keys_disjoint (sub s) (members (irs s ir)) y x u Hndk Hym Hx Hyx); [|exact Em].
        apply (in_key_of_pair _ _ n). exact Hyin.
      * apply mem_false in Em. split.
        -- intros Hl. apply Hex in Hl. apply in_flat_map in Hl. destruct Hl as [y [Hy Hyin]].
           apply in_flat_map. exists y. split; [|exact Hyin]. apply In_remove_id. split; [exact Hy|].
           intros ->. apply Em. apply (in_key_of_pair _ _ n). exact Hyin.
        -- intros Hin. apply Hex. apply in_flat_map in Hin. destruct Hin as [y [Hy Hyin]].
           apply In_remove_id in Hy. apply in_flat_map. exists y. split; [apply Hy | exact Hyin].
Qed.

Theorem discard_inv : forall s ir x, Inv s -> Inv (fst (discard s ir x)) /\ snd (discard s ir x) = true.
Proof.
  intros s ir x HI. destruct (mem x (members (irs s ir))) eqn:E.
  2:{ rewrite discard_nonmember by exact E. split; [exact HI | reflexivity]. }
  rewrite discard_member by exact E. cbn [fst snd]. apply mem_spec in E. split.
  - apply (discard_step_inv s _ ir x HI E).
    + reflexivity.
    + intros ir' Hne. cbn [irs]. apply upd_other. exact Hne.
    + cbn [irs]. rewrite upd_same. reflexivity.
    + intros u. cbn [irs]. rewrite upd_same. cbn [cache]. apply unreg_get.
    + intros y. reflexivity.
  - destruct HI as [Hown Hper]. destruct (Hper ir) as [[Hnd Hndk] Hex]. unfold attached in Hndk.
    apply unreg_ok.
    + apply (nodup_keys_elem (sub s) (members (irs s ir))); assumption.
    + intros u Hu. apply key_has_pair in Hu. destruct Hu as [n Hn].
      assert (Hl : lookup s ir u = Some n).
      { apply Hex. unfold attached. apply in_flat_map. exists x. split; assumption. }
      unfold lookup in Hl. rewrite Hl. discriminate.
Qed.

(* ------------------------------------------------------------------ *)
(* 3. add                                                              *)
(* ------------------------------------------------------------------ *)

Definition pre (s : st) (x : id) : st * bool :=
  match owner s x with Some o => discard s o x | None => (s, true) end.

Definition add_core (s1 : st) (ir : Z) (x : id) : st :=
  {| sub := sub s1;
     irs := upd (irs s1) ir {| members := x :: remove_id x (members (irs s1 ir));
                               cache := register (cache (irs s1 ir)) (sub s1 x) |};
     owner := upd (owner s1) x (Some ir) |}.

Lemma add_eq : forall s ir x, add s ir x = (add_core (fst (pre s x)) ir x, snd (pre s x)).
Proof.
  intros s ir x. unfold add, pre.
  destruct (match owner s x with Some o => discard s o x | None => (s, true) end) as [s1 ok].
  reflexivity.
Qed.

Lemma pre_sub : forall s x, sub (fst (pre s x)) = sub s.
Proof. intros s x. unfold pre. destruct (owner s x) as [o|]; [apply discard_sub | reflexivity]. Qed.

Lemma add_sub : forall s ir x, sub (fst (add s ir x)) = sub s.
Proof. intros s ir x. rewrite add_eq. cbn [fst]. unfold add_core. cbn [sub]. apply pre_sub. Qed.

Lemma pre_inv : forall s x, Inv s ->
  Inv (fst (pre s x)) /\ snd (pre s x) = true /\ owner (fst (pre s x)) x = None /\
  (forall ir y, In y (members (irs (fst (pre s x)) ir)) <-> In y (members (irs s ir)) /\ y <> x).
Proof.
  intros s x HI. unfold pre. destruct (owner s x) as [o|] eqn:Eo.
  - destruct (discard_inv s o x HI) as [HI' Hok].
    assert (Hxo : In x (members (irs s o))) by (apply HI; exact Eo).
    split; [exact HI'|]. split; [exact Hok|]. split.
    + rewrite discard_member by (apply mem_spec; exact Hxo). cbn [fst owner]. apply upd_same.
    + intros ir y. destruct (Z.eq_dec ir o) as [->|Hne]; [apply discard_members|].
      rewrite discard_other_ir_untouched by exact Hne.
      split; [|intros [H _]; exact H]. intros H. split; [exact H|]. intros ->.
      apply HI in H. rewrite H in Eo. inversion Eo as [Heq]. exact (Hne Heq).
  - cbn [fst snd]. split; [exact HI|]. split; [reflexivity|]. split; [exact Eo|].
    intros ir y. split; [|intros [H _]; exact H]. intros H. split; [exact H|]. intros ->.
    apply HI in H. rewrite H in Eo. discriminate.
Qed.

Lemma add_core_inv : forall s ir x,
  Inv s -> owner s x = None ->
  NoDup (map fst (sub s x)) ->
  (forall y, In y (members (irs s ir)) -> y <> x ->
             forall u, In u (map fst (sub s x)) -> ~ In u (map fst (sub s y))) ->
  Inv (add_core s ir x).
Proof.
  intros s ir x [Hown Hper] Hox Hndx Hdis.
  destruct (Hper ir) as [[Hnd Hndk] Hex]. unfold attached in Hndk.
  assert (Hsame : irs (add_core s ir x) ir
                  = {| members := x :: remove_id x (members (irs s ir));
                       cache := register (cache (irs s ir)) (sub s x) |}).
  { unfold add_core. cbn [irs]. apply upd_same. }
  assert (Hoth : forall ir', ir' <> ir -> irs (add_core s ir x) ir' = irs s ir').
  { intros ir' Hne. unfold add_core. cbn [irs]. apply upd_other. exact Hne. }
  assert (Hownr : forall y, owner (add_core s ir x) y = if y =? x then Some ir else owner s y) by reflexivity.
  assert (Hsub : sub (add_core s ir x) = sub s) by reflexivity.
  assert (Hrest : forall u, In u (map fst (sub s x)) ->
                  ~ In u (map fst (flat_map (sub s) (remove_id x (members (irs s ir)))))).
  { intros u Hu Hin. apply in_keys_flat_map in Hin. destruct Hin as [y [Hy Hyu]].
    apply In_remove_id in Hy. destruct Hy as [Hym Hyx]. exact (Hdis y Hym Hyx u Hu Hyu). }
  split.
  - intros y ir'. rewrite Hownr. destruct (Z.eqb_spec y x) as [->|Hyx].
    + destruct (Z.eq_dec ir' ir) as [->|Hne].
      * rewrite Hsame. cbn [members]. split; [intros _; left; reflexivity | reflexivity].
      * rewrite (Hoth ir' Hne). split.
        -- intros Heq. inversion Heq as [Heq']. exfalso. apply Hne. symmetry. exact Heq'.
        -- intros Hin. apply Hown in Hin. rewrite Hin in Hox. discriminate.
    + destruct (Z.eq_dec ir' ir) as [->|Hne].
      * rewrite Hsame. cbn [members]. split.
        -- intros Ho. right. apply In_remove_id. split; [apply Hown; exact Ho | exact Hyx].
        -- intros [Heq|Hin]; [exfalso; apply Hyx; symmetry; exact Heq|].
           apply In_remove_id in Hin. apply Hown. apply Hin.
      * rewrite (Hoth ir' Hne). apply Hown.
  - intros ir'. destruct (Z.eq_dec ir' ir) as [->|Hne].
    2:{ destruct (Hper ir') as [Hd He].
        split; [apply (distinct_ext s) | apply (exact_ext s)]; auto. }
    split.
    + unfold distinct, attached. rewrite Hsub, Hsame. cbn [members flat_map]. split.
      * constructor; [|apply NoDup_filter; exact Hnd].
        intros Hin. apply In_remove_id in Hin. destruct Hin as [_ Hc]. apply Hc. reflexivity.
      * rewrite map_app. apply nodup_app. split; [exact Hndx|]. split; [|exact Hrest].
        apply nodup_keys_filter. exact Hndk.
    + intros u n. unfold lookup, attached. rewrite Hsub, Hsame. cbn [members cache flat_map].
      unfold exact, lookup, attached in Hex.
      destruct (mem u (map fst (sub s x))) eqn:Em.
      * apply mem_spec in Em. split.
        -- destruct (key_has_pair _ _ Em) as [n0 Hn0].
           rewrite (register_in _ _ _ n0 Hndx Hn0). intros Heq. inversion Heq; subst.
           apply in_or_app. left. exact Hn0.
        -- intros Hin. apply in_app_or in Hin. destruct Hin as [Hin|Hin].
           ++ apply register_in; assumption.
           ++ exfalso. apply (Hrest u Em). apply (in_key_of_pair _ _ n). exact Hin.
      * apply mem_false in Em. rewrite register_notin by exact Em. split.
        -- intros Hl. apply Hex in Hl. apply in_flat_map in Hl. destruct Hl as [y [Hy Hyin]].
           apply in_or_app. right. apply in_flat_map. exists y. split; [|exact Hyin].
           apply In_remove_id. split; [exact Hy|].
           intros ->. apply Em. apply (in_key_of_pair _ _ n). exact Hyin.
        -- intros Hin. apply in_app_or in Hin. destruct Hin as [Hin|Hin].
           ++ exfalso. apply Em. apply (in_key_of_pair _ _ n). exact Hin.
           ++ apply Hex. apply in_flat_map in Hin. destruct Hin as [y [Hy Hyin]].
              apply In_remove_id in Hy. apply in_flat_map. exists y. split; [apply Hy | exact Hyin].
Qed.

Theorem add_inv : forall s ir x, Inv s -> NoDup (map fst (sub s x)) ->
  (forall y, In y (members (irs s ir)) -> y <> x ->
             forall u, In u (map fst (sub s x)) -> ~ In u (map fst (sub s y))) ->
  Inv (fst (add s ir x)) /\ snd (add s ir x) = true.
Proof.
  intros s ir x HI Hnd Hdis. rewrite add_eq. cbn [fst snd].
  destruct (pre_inv s x HI) as (HI1 & Hok & Hown1 & Hm1).
  split; [|exact Hok].
  apply add_core_inv.
  - exact HI1.
  - exact Hown1.
  - rewrite pre_sub. exact Hnd.
  - intros y Hy Hyx u Hu. rewrite pre_sub in *. apply Hm1 in Hy. destruct Hy as [Hy _].
    exact (Hdis y Hy Hyx u Hu).
Qed.

Lemma add_members : forall s ir x y, Inv s ->
  In y (members (irs (fst (add s ir x)) ir)) <-> y = x \/ In y (members (irs s ir)).
Proof.
  intros s ir x y HI. rewrite add_eq. cbn [fst]. unfold add_core. cbn [irs]. rewrite upd_same. cbn [members].
  destruct (pre_inv s x HI) as (_ & _ & _ & Hm1). split.
  - intros [Heq|Hin]; [left; symmetry; exact Heq|].
    apply In_remove_id in Hin. destruct Hin as [Hin _]. apply Hm1 in Hin. right. apply Hin.
  - intros [Heq|Hin]; [left; symmetry; exact Heq|].
    destruct (Z.eq_dec y x) as [Heq|Hne]; [left; symmetry; exact Heq|].
    right. apply In_remove_id. split; [|exact Hne]. apply Hm1. split; assumption.
Qed.

Lemma add_members_other : forall s ir ir' x y, Inv s -> ir' <> ir ->
  In y (members (irs (fst (add s ir x)) ir')) <-> In y (members (irs s ir')) /\ y <> x.
Proof.
  intros s ir ir' x y HI Hne. rewrite add_eq. cbn [fst]. unfold add_core. cbn [irs].
  rewrite upd_other by exact Hne. destruct (pre_inv s x HI) as (_ & _ & _ & Hm1). apply Hm1.
Qed.

(* the premise of add_inv is necessary: it is exactly the distinctness of `ir` after the call *)
Theorem add_premise_necessary : forall s ir x, Inv s -> distinct (fst (add s ir x)) ir ->
  NoDup (map fst (sub s x)) /\
  (forall y, In y (members (irs s ir)) -> y <> x ->
             forall u, In u (map fst (sub s x)) -> ~ In u (map fst (sub s y))).
Proof.
  intros s ir x HI [_ Hd]. unfold attached in Hd. rewrite add_sub in Hd.
  rewrite add_eq in Hd. cbn [fst] in Hd. unfold add_core in Hd. cbn [irs] in Hd. rewrite upd_same in Hd.
  cbn [members flat_map] in Hd. rewrite map_app in Hd. apply nodup_app in Hd. destruct Hd as (H1 & _ & H3).
  destruct (pre_inv s x HI) as (_ & _ & _ & Hm1).
  split; [exact H1|].
  intros y Hy Hyx u Hu Huy. apply (H3 u Hu). apply in_keys_flat_map. exists y. split; [|exact Huy].
  apply In_remove_id. split; [|exact Hyx]. apply Hm1. split; assumption.
Qed.

(* ------------------------------------------------------------------ *)
(* 4. no leakage between IRs                                           *)
(* ------------------------------------------------------------------ *)

Theorem add_other_ir_untouched : forall s ir ir' x,
  ir' <> ir -> ~ In x (members (irs s ir')) -> irs (fst (add s ir x)) ir' = irs s ir'.
Proof.
  intros s ir ir' x Hne Hnin. rewrite add_eq. cbn [fst]. unfold add_core. cbn [irs].
  rewrite upd_other by exact Hne. unfold pre. destruct (owner s x) as [o|]; [|reflexivity].
  destruct (Z.eq_dec ir' o) as [->|Hno].
  - rewrite discard_nonmember by (apply mem_false; exact Hnin). reflexivity.
  - apply discard_other_ir_untouched. exact Hno.
Qed.

Theorem add_other_ir_discard : forall s ir ir' x,
  owned s -> ir' <> ir -> In x (members (irs s ir')) ->
  irs (fst (add s ir x)) ir' = irs (fst (discard s ir' x)) ir'.
Proof.
  intros s ir ir' x Hown Hne Hin. rewrite add_eq. cbn [fst]. unfold add_core. cbn [irs].
  rewrite upd_other by exact Hne. unfold pre. apply Hown in Hin. rewrite Hin. reflexivity.
Qed.

(* ------------------------------------------------------------------ *)
(* fold_ok                                                             *)
(* ------------------------------------------------------------------ *)

Lemma fold_ok_gen : forall (f : st -> id -> st * bool) l s b,
  fold_left (fun (acc : st * bool) x => let '(s, ok) := acc in let '(s', ok') := f s x in (s', ok && ok')) l (s, b)
  = (fst (fold_ok f l s), b && snd (fold_ok f l s)).
Proof.
  intros f. induction l as [|a l IH]; intros s b; unfold fold_ok; cbn [fold_left].
  - cbn. rewrite andb_true_r. reflexivity.
  - destruct (f s a) as [s' ok']. rewrite (IH s' (b && ok')), (IH s' (true && ok')).
    cbn [fst snd]. rewrite andb_assoc. reflexivity.
Qed.

Lemma fold_ok_nil : forall f s, fold_ok f [] s = (s, true).
Proof. reflexivity. Qed.

Lemma fold_ok_cons : forall f x l s,
  fold_ok f (x :: l) s
  = (fst (fold_ok f l (fst (f s x))), snd (f s x) && snd (fold_ok f l (fst (f s x)))).
Proof.
  intros f x l s. unfold fold_ok at 1. cbn [fold_left]. destruct (f s x) as [s' ok'].
  rewrite fold_ok_gen. reflexivity.
Qed.

Lemma fold_discard_inv : forall ir l s, Inv s ->
  Inv (fst (fold_ok (fun s0 x => discard s0 ir x) l s)) /\
  snd (fold_ok (fun s0 x => discard s0 ir x) l s) = true /\
  sub (fst (fold_ok (fun s0 x => discard s0 ir x) l s)) = sub s /\
  (forall y, In y (members (irs (fst (fold_ok (fun s0 x => discard s0 ir x) l s)) ir))
             <-> In y (members (irs s ir)) /\ ~ In y l) /\
  (forall ir', ir' <> ir -> irs (fst (fold_ok (fun s0 x => discard s0 ir x) l s)) ir' = irs s ir').
Proof.
  intros ir. induction l as [|x l IH]; intros s HI.
  - rewrite fold_ok_nil. cbn [fst snd]. split; [exact HI|]. split; [reflexivity|]. split; [reflexivity|].
    split; [|reflexivity].
    intros y. split; [intros H; split; [exact H | intros []] | intros [H _]; exact H].
  - rewrite fold_ok_cons. cbn [fst snd].
    destruct (discard_inv s ir x HI) as [HI1 Hok1].
    destruct (IH _ HI1) as (HI2 & Hok2 & Hsub2 & Hm2 & Hoth2).
    split; [exact HI2|]. split; [rewrite Hok1, Hok2; reflexivity|].
    split; [rewrite Hsub2; apply discard_sub|].
    split; [|intros ir' Hne; rewrite (Hoth2 ir' Hne); apply discard_other_ir_untouched; exact Hne].
    intros y. split.
    + intros H. apply Hm2 in H. destruct H as [H Hnl]. apply discard_members in H. destruct H as [H Hne].
      split; [exact H|]. intros [Heq|Hin]; [apply Hne; symmetry; exact Heq | exact (Hnl Hin)].
    + intros [H Hnl]. apply Hm2. split.
      * apply discard_members. split; [exact H|]. intros ->. apply Hnl. left. reflexivity.
      * intros Hin. apply Hnl. right. exact Hin.
Qed.

Lemma fold_add_inv : forall ir l s, Inv s ->
  (forall x, In x l -> NoDup (map fst (sub s x))) ->
  (forall x y u, In x l -> In y l \/ In y (members (irs s ir)) -> x <> y ->
                 In u (map fst (sub s x)) -> ~ In u (map fst (sub s y))) ->
  Inv (fst (fold_ok (fun s0 x => add s0 ir x) l s)) /\
  snd (fold_ok (fun s0 x => add s0 ir x) l s) = true /\
  sub (fst (fold_ok (fun s0 x => add s0 ir x) l s)) = sub s /\
  (forall y, In y (members (irs (fst (fold_ok (fun s0 x => add s0 ir x) l s)) ir))
             <-> In y l \/ In y (members (irs s ir))) /\
  (forall ir' y, ir' <> ir ->
             In y (members (irs (fst (fold_ok (fun s0 x => add s0 ir x) l s)) ir'))
             <-> In y (members (irs s ir')) /\ ~ In y l).
Proof.
  intros ir. induction l as [|x l IH]; intros s HI Hnd Hdis.
  - rewrite fold_ok_nil. cbn [fst snd]. split; [exact HI|]. split; [reflexivity|]. split; [reflexivity|].
    split.
    + intros y. split; [intros H; right; exact H | intros [[]|H]; exact H].
    + intros ir' y _. split; [intros H; split; [exact H | intros []] | intros [H _]; exact H].
  - rewrite fold_ok_cons. cbn [fst snd].
    assert (Hadd : Inv (fst (add s ir x)) /\ snd (add s ir x) = true).
    { apply add_inv; [exact HI | apply Hnd; left; reflexivity |].
      intros y Hy Hyx u Hu. apply (Hdis x y u); [left; reflexivity | right; exact Hy | | exact Hu].
      intros Heq. apply Hyx. symmetry. exact Heq. }
    destruct Hadd as [HI1 Hok1].
    assert (Hm1 := fun y => add_members s ir x y HI).
    assert (Hsub1 := add_sub s ir x).
    assert (Hmo1 := fun ir' y => add_members_other s ir ir' x y HI).
    destruct (IH (fst (add s ir x)) HI1) as (HI2 & Hok2 & Hsub2 & Hm2 & Hmo2).
    + intros x0 Hx0. rewrite Hsub1. apply Hnd. right. exact Hx0.
    + intros x0 y u Hx0 Hy Hne. rewrite Hsub1. apply Hdis; [right; exact Hx0 | | exact Hne].
      destruct Hy as [Hy|Hy]; [left; right; exact Hy|].
      apply Hm1 in Hy. destruct Hy as [->|Hy]; [left; left; reflexivity | right; exact Hy].
    + split; [exact HI2|]. split; [rewrite Hok1, Hok2; reflexivity|].
      split; [rewrite Hsub2; exact Hsub1|].
      split.
      2:{ intros ir' y Hne. split.
          - intros H. apply (Hmo2 ir' y Hne) in H. destruct H as [H Hn].
            apply (Hmo1 ir' y Hne) in H. destruct H as [H Hyx]. split; [exact H|].
            intros [Heq|Hin]; [apply Hyx; symmetry; exact Heq | exact (Hn Hin)].
          - intros [H Hn]. apply (Hmo2 ir' y Hne). split.
            + apply (Hmo1 ir' y Hne). split; [exact H|]. intros ->. apply Hn. left. reflexivity.
            + intros Hin. apply Hn. right. exact Hin. }
      intros y. split.
      * intros H. apply Hm2 in H. destruct H as [H|H]; [left; right; exact H|].
        apply Hm1 in H. destruct H as [->|H]; [left; left; reflexivity | right; exact H].
      * intros H. apply Hm2. destruct H as [[Heq|H]|H].
        -- right. apply Hm1. left. symmetry. exact Heq.
        -- left. exact H.
        -- right. apply Hm1. right. exact H.
Qed.

(* ------------------------------------------------------------------ *)
(* 5. the repaired operator                                            *)
(* ------------------------------------------------------------------ *)

Lemma twopass_eq : forall s ir args,
  ixor_twopass s ir args =
  (fst (fold_ok (fun s0 x => add s0 ir x)
          (filter (fun x => negb (mem x (members (irs s ir)))) (dedup args))
          (fst (fold_ok (fun s0 x => discard s0 ir x)
                  (filter (fun x => mem x (members (irs s ir))) (dedup args)) s))),
   snd (fold_ok (fun s0 x => discard s0 ir x)
          (filter (fun x => mem x (members (irs s ir))) (dedup args)) s) &&
   snd (fold_ok (fun s0 x => add s0 ir x)
          (filter (fun x => negb (mem x (members (irs s ir)))) (dedup args))
          (fst (fold_ok (fun s0 x => discard s0 ir x)
                  (filter (fun x => mem x (members (irs s ir))) (dedup args)) s)))).
Proof.
  intros s ir args. unfold ixor_twopass. cbv zeta.
  destruct (fold_ok (fun s0 x => discard s0 ir x)
              (filter (fun x => mem x (members (irs s ir))) (dedup args)) s) as [s1 ok1].
  cbn [fst snd].
  destruct (fold_ok (fun s0 x => add s0 ir x)
              (filter (fun x => negb (mem x (members (irs s ir)))) (dedup args)) s1) as [s2 ok2].
  reflexivity.
Qed.

Lemma in_xor_final : forall s ir args y,
  In y (xor_final s ir args) <->
  (In y (members (irs s ir)) /\ ~ In y args) \/ (In y args /\ ~ In y (members (irs s ir))).
Proof.
  intros s ir args y. unfold xor_final. rewrite in_app_iff, !filter_In, !negb_true_iff, !mem_false, In_dedup.
  reflexivity.
Qed.

Lemma ixor_twopass_full : forall s ir args, Inv s ->
  (forall x, In x args -> NoDup (map fst (sub s x))) ->
  NoDup (map fst (flat_map (sub s) (xor_final s ir args))) ->
  Inv (fst (ixor_twopass s ir args)) /\ snd (ixor_twopass s ir args) = true /\
  sub (fst (ixor_twopass s ir args)) = sub s /\
  (forall x, In x (members (irs (fst (ixor_twopass s ir args)) ir)) <-> In x (xor_final s ir args)) /\
  (forall ir' y, ir' <> ir ->
     In y (members (irs (fst (ixor_twopass s ir args)) ir')) <-> In y (members (irs s ir')) /\ ~ In y args).
Proof.
  intros s ir args HI Hnd Hfin. rewrite twopass_eq. cbn [fst snd].
  set (L1 := filter (fun x => mem x (members (irs s ir))) (dedup args)).
  set (L2 := filter (fun x => negb (mem x (members (irs s ir)))) (dedup args)).
  destruct (fold_discard_inv ir L1 s HI) as (HI1 & Hok1 & Hsub1 & Hm1 & Hoth1).
  set (s1 := fst (fold_ok (fun s0 x => discard s0 ir x) L1 s)) in *.
  assert (HL2 : forall x, In x L2 <-> In x args /\ ~ In x (members (irs s ir))).
  { intros x. unfold L2. rewrite filter_In, negb_true_iff, mem_false, In_dedup. reflexivity. }
  assert (HL1 : forall x, In x L1 <-> In x args /\ In x (members (irs s ir))).
  { intros x. unfold L1. rewrite filter_In, mem_spec, In_dedup. reflexivity. }
  assert (Hsurv : forall y, In y (members (irs s1 ir)) <-> In y (members (irs s ir)) /\ ~ In y args).
  { intros y. split.
    - intros H. apply Hm1 in H. destruct H as [H Hn]. split; [exact H|].
      intros Ha. apply Hn. apply HL1. split; assumption.
    - intros [H Hn]. apply Hm1. split; [exact H|]. intros Hl. apply HL1 in Hl. apply Hn. apply Hl. }
  destruct (fold_add_inv ir L2 s1 HI1) as (HI2 & Hok2 & Hsub2 & Hm2 & Hmo2).
  - intros x Hx. rewrite Hsub1. apply Hnd. apply HL2 in Hx. apply Hx.
  - intros x y u Hx Hy Hne. rewrite Hsub1.
    apply (keys_disjoint (sub s) (xor_final s ir args) x y u Hfin); [| | exact Hne].
    + apply in_xor_final. right. apply HL2. exact Hx.
    + apply in_xor_final. destruct Hy as [Hy|Hy]; [right; apply HL2; exact Hy | left; apply Hsurv; exact Hy].
  - split; [exact HI2|]. split; [rewrite Hok1, Hok2; reflexivity|].
    split; [rewrite Hsub2; exact Hsub1|].
    split.
    + intros x. rewrite in_xor_final. split.
      * intros H. apply Hm2 in H. destruct H as [H|H]; [right; apply HL2; exact H | left; apply Hsurv; exact H].
      * intros H. apply Hm2. destruct H as [H|H]; [right; apply Hsurv; exact H | left; apply HL2; exact H].
    + intros ir' y Hne. split.
      * intros H. apply (Hmo2 ir' y Hne) in H. destruct H as [H Hn]. rewrite (Hoth1 ir' Hne) in H.
        split; [exact H|]. intros Ha. apply Hn. apply HL2. split; [exact Ha|].
        intros Hin. apply HI in H. apply HI in Hin. rewrite H in Hin. inversion Hin as [Heq]. exact (Hne Heq).
      * intros [H Hn]. apply (Hmo2 ir' y Hne). rewrite (Hoth1 ir' Hne). split; [exact H|].
        intros Hin. apply HL2 in Hin. apply Hn. apply Hin.
Qed.

Theorem ixor_twopass_inv : forall s ir args, Inv s ->
  (forall x, In x args -> NoDup (map fst (sub s x))) ->
  let final := filter (fun y => negb (mem y args)) (members (irs s ir)) ++
               filter (fun x => negb (mem x (members (irs s ir)))) (dedup args) in
  NoDup (map fst (flat_map (sub s) final)) ->
  Inv (fst (ixor_twopass s ir args)) /\ snd (ixor_twopass s ir args) = true /\
  (forall x, In x (members (irs (fst (ixor_twopass s ir args)) ir)) <-> In x final).
Proof.
  intros s ir args HI Hnd final Hfin.
  destruct (ixor_twopass_full s ir args HI Hnd Hfin) as (H1 & H2 & _ & H4 & _).
  split; [exact H1|]. split; [exact H2 | exact H4].
Qed.

(* ------------------------------------------------------------------ *)
(* 7. when the old operator was right                                  *)
(* ------------------------------------------------------------------ *)

Lemma fold_interleaved_inv : forall ir l s, Inv s -> NoDup l ->
  (forall x, In x l -> NoDup (map fst (sub s x))) ->
  (forall x, In x l -> ~ In x (members (irs s ir)) ->
     forall y, y <> x -> In y (members (irs s ir)) \/ In y l ->
     forall u, In u (map fst (sub s x)) -> ~ In u (map fst (sub s y))) ->
  Inv (fst (fold_ok (fun s0 x => if mem x (members (irs s0 ir)) then discard s0 ir x else add s0 ir x) l s)) /\
  snd (fold_ok (fun s0 x => if mem x (members (irs s0 ir)) then discard s0 ir x else add s0 ir x) l s) = true /\
  sub (fst (fold_ok (fun s0 x => if mem x (members (irs s0 ir)) then discard s0 ir x else add s0 ir x) l s)) = sub s /\
  (forall y, In y (members (irs (fst (fold_ok (fun s0 x => if mem x (members (irs s0 ir)) then discard s0 ir x else add s0 ir x) l s)) ir))
             <-> (In y (members (irs s ir)) /\ ~ In y l) \/ (In y l /\ ~ In y (members (irs s ir)))) /\
  (forall ir' y, ir' <> ir ->
     In y (members (irs (fst (fold_ok (fun s0 x => if mem x (members (irs s0 ir)) then discard s0 ir x else add s0 ir x) l s)) ir'))
     <-> In y (members (irs s ir')) /\ ~ In y l).
Proof.
  intros ir. induction l as [|x l IH]; intros s HI Hndl Hnd Hdis.
  - rewrite fold_ok_nil. cbn [fst snd]. split; [exact HI|]. split; [reflexivity|]. split; [reflexivity|].
    split.
    2:{ intros ir' y _. split; [intros H; split; [exact H | intros []] | intros [H _]; exact H]. }
    intros y. split.
    + intros H. left. split; [exact H | intros []].
    + intros [[H _]|[[] _]]. exact H.
  - rewrite fold_ok_cons. inversion Hndl as [|x' l' Hxl Hndl']; subst.
    destruct (mem x (members (irs s ir))) eqn:Ex.
    + (* x is a member: it leaves *)
      apply mem_spec in Ex.
      destruct (discard_inv s ir x HI) as [HI1 Hok1].
      assert (Hm1 := discard_members s ir x).
      assert (Hsub1 := discard_sub s ir x).
      assert (Hoth1 := fun ir' => discard_other_ir_untouched s ir ir' x).
      destruct (IH (fst (discard s ir x)) HI1 Hndl') as (HI2 & Hok2 & Hsub2 & Hm2 & Hmo2).
      * intros x0 Hx0. rewrite Hsub1. apply Hnd. right. exact Hx0.
      * intros x0 Hx0 Hnin y Hne Hy. rewrite Hsub1. apply Hdis.
        -- right. exact Hx0.
        -- intros Hin. apply Hnin. apply Hm1. split; [exact Hin|]. intros ->. exact (Hxl Hx0).
        -- exact Hne.
        -- destruct Hy as [Hy|Hy]; [left; apply Hm1 in Hy; apply Hy | right; right; exact Hy].
      * cbn [fst snd]. split; [exact HI2|]. split; [rewrite Hok1, Hok2; reflexivity|].
        split; [rewrite Hsub2; exact Hsub1|].
        split.
        2:{ intros ir' y Hne. split.
            - intros H. apply (Hmo2 ir' y Hne) in H. destruct H as [H Hn]. rewrite (Hoth1 ir' Hne) in H.
              split; [exact H|]. intros [Heq|Hin]; [|exact (Hn Hin)]. subst y.
              apply HI in H. apply HI in Ex. rewrite H in Ex. inversion Ex as [Heq]. exact (Hne Heq).
            - intros [H Hn]. apply (Hmo2 ir' y Hne). rewrite (Hoth1 ir' Hne). split; [exact H|].
              intros Hin. apply Hn. right. exact Hin. }
        intros y. specialize (Hm2 y). specialize (Hm1 y). cbn [In].
        destruct (Z.eq_dec y x) as [->|Hyx].
        -- split.
           ++ intros H. exfalso. apply Hm2 in H. destruct H as [[H _]|[H _]].
              ** apply Hm1 in H. destruct H as [_ H]. apply H. reflexivity.
              ** exact (Hxl H).
           ++ intros [[_ H]|[_ H]]; exfalso; [apply H; left; reflexivity | exact (H Ex)].
        -- split.
           ++ intros H. apply Hm2 in H. destruct H as [[H Hn]|[H Hn]].
              ** left. apply Hm1 in H. split; [apply H|]. intros [Heq|Hin]; [apply Hyx; symmetry; exact Heq | exact (Hn Hin)].
              ** right. split; [right; exact H|]. intros Hin. apply Hn. apply Hm1. split; assumption.
           ++ intros H. apply Hm2. destruct H as [[H Hn]|[H Hn]].
              ** left. split; [apply Hm1; split; assumption|]. intros Hin. apply Hn. right. exact Hin.
              ** right. destruct H as [Heq|H]; [exfalso; apply Hyx; symmetry; exact Heq|].
                 split; [exact H|]. intros Hin. apply Hn. apply Hm1 in Hin. apply Hin.
    + (* x is not a member: it enters *)
      apply mem_false in Ex.
      assert (Hadd : Inv (fst (add s ir x)) /\ snd (add s ir x) = true).
      { apply add_inv; [exact HI | apply Hnd; left; reflexivity |].
        intros y Hy Hyx u Hu. apply (Hdis x); [left; reflexivity | exact Ex | exact Hyx | left; exact Hy | exact Hu]. }
      destruct Hadd as [HI1 Hok1].
      assert (Hm1 := fun y => add_members s ir x y HI).
      assert (Hsub1 := add_sub s ir x).
      assert (Hmo1 := fun ir' y => add_members_other s ir ir' x y HI).
      destruct (IH (fst (add s ir x)) HI1 Hndl') as (HI2 & Hok2 & Hsub2 & Hm2 & Hmo2).
      * intros x0 Hx0. rewrite Hsub1. apply Hnd. right. exact Hx0.
      * intros x0 Hx0 Hnin y Hne Hy. rewrite Hsub1. apply Hdis.
        -- right. exact Hx0.
        -- intros Hin. apply Hnin. apply Hm1. right. exact Hin.
        -- exact Hne.
        -- destruct Hy as [Hy|Hy]; [|right; right; exact Hy].
           apply Hm1 in Hy. destruct Hy as [->|Hy]; [right; left; reflexivity | left; exact Hy].
      * cbn [fst snd]. split; [exact HI2|]. split; [rewrite Hok1, Hok2; reflexivity|].
        split; [rewrite Hsub2; exact Hsub1|].
        split.
        2:{ intros ir' y Hne. split.
            - intros H. apply (Hmo2 ir' y Hne) in H. destruct H as [H Hn].
              apply (Hmo1 ir' y Hne) in H. destruct H as [H Hyx]. split; [exact H|].
              intros [Heq|Hin]; [apply Hyx; symmetry; exact Heq | exact (Hn Hin)].
            - intros [H Hn]. apply (Hmo2 ir' y Hne). split.
              + apply (Hmo1 ir' y Hne). split; [exact H|]. intros ->. apply Hn. left. reflexivity.
              + intros Hin. apply Hn. right. exact Hin. }
        intros y. specialize (Hm2 y). specialize (Hm1 y). cbn [In].
        destruct (Z.eq_dec y x) as [->|Hyx].
        -- split.
           ++ intros _. right. split; [left; reflexivity | exact Ex].
           ++ intros _. apply Hm2. left. split; [apply Hm1; left; reflexivity | exact Hxl].
        -- split.
           ++ intros H. apply Hm2 in H. destruct H as [[H Hn]|[H Hn]].
              ** left. apply Hm1 in H. destruct H as [H|H]; [contradiction|]. split; [exact H|].
                 intros [Heq|Hin]; [apply Hyx; symmetry; exact Heq | exact (Hn Hin)].
              ** right. split; [right; exact H|]. intros Hin. apply Hn. apply Hm1. right. exact Hin.
           ++ intros H. apply Hm2. destruct H as [[H Hn]|[H Hn]].
              ** left. split; [apply Hm1; right; exact H|]. intros Hin. apply Hn. right. exact Hin.
              ** right. destruct H as [Heq|H]; [exfalso; apply Hyx; symmetry; exact Heq|].
                 split; [exact H|]. intros Hin. apply Hm1 in Hin. destruct Hin as [Hin|Hin]; [contradiction | exact (Hn Hin)].
Qed.

Lemma exact_lookup_eq : forall s1 s2 ir, sub s1 = sub s2 -> exact s1 ir -> exact s2 ir ->
  (forall x, In x (members (irs s1 ir)) <-> In x (members (irs s2 ir))) ->
  forall u, lookup s1 ir u = lookup s2 ir u.
Proof.
  intros s1 s2 ir Hsub H1 H2 Hm u.
  assert (Hatt : forall n, In (u, n) (attached s1 ir) <-> In (u, n) (attached s2 ir)).
  { intros n. unfold attached. rewrite !in_flat_map, Hsub. split; intros [x [Hx Hin]]; exists x; (split; [apply Hm; exact Hx | exact Hin]). }
  destruct (lookup s1 ir u) as [n|] eqn:E1.
  - symmetry. apply H2. apply Hatt. apply H1. exact E1.
  - destruct (lookup s2 ir u) as [n|] eqn:E2; [|reflexivity].
    apply H2 in E2. apply Hatt in E2. apply H1 in E2. rewrite E2 in E1. discriminate.
Qed.

Lemma ixor_interleaved_full : forall s ir args, Inv s ->
  (forall x, In x args -> NoDup (map fst (sub s x))) ->
  NoDup (map fst (flat_map (sub s) (xor_final s ir args))) ->
  (forall x, In x args -> ~ In x (members (irs s ir)) ->
     forall y, In y (members (irs s ir)) ->
     forall u, In u (map fst (sub s x)) -> ~ In u (map fst (sub s y))) ->
  Inv (fst (ixor_interleaved s ir args)) /\ snd (ixor_interleaved s ir args) = true /\
  sub (fst (ixor_interleaved s ir args)) = sub s /\
  (forall x, In x (members (irs (fst (ixor_interleaved s ir args)) ir)) <-> In x (xor_final s ir args)) /\
  (forall ir' y, ir' <> ir ->
     In y (members (irs (fst (ixor_interleaved s ir args)) ir')) <-> In y (members (irs s ir')) /\ ~ In y args).
Proof.
  intros s ir args HI Hnd Hfin Hextra. unfold ixor_interleaved.
  destruct (fold_interleaved_inv ir (dedup args) s HI (NoDup_dedup args)) as (H1 & H2 & H3 & H4 & H5).
  - intros x Hx. apply Hnd. apply In_dedup. exact Hx.
  - intros x Hx Hnin y Hne Hy u. apply (proj1 (In_dedup _ _)) in Hx.
    destruct (mem y (members (irs s ir))) eqn:Ey.
    + apply mem_spec in Ey. exact (Hextra x Hx Hnin y Ey u).
    + apply mem_false in Ey. destruct Hy as [Hy|Hy]; [contradiction|]. apply (proj1 (In_dedup _ _)) in Hy.
      apply (keys_disjoint (sub s) (xor_final s ir args) x y u Hfin).
      * apply in_xor_final. right. split; assumption.
      * apply in_xor_final. right. split; assumption.
      * intros Heq. apply Hne. symmetry. exact Heq.
  - split; [exact H1|]. split; [exact H2|]. split; [exact H3|]. split.
    + intros x. rewrite in_xor_final. rewrite H4. rewrite In_dedup. reflexivity.
    + intros ir' y Hne. rewrite (H5 ir' y Hne). rewrite In_dedup. reflexivity.
Qed.

Theorem ixor_interleaved_eq_twopass : forall s ir args, Inv s ->
  (forall x, In x args -> NoDup (map fst (sub s x))) ->
  NoDup (map fst (flat_map (sub s) (xor_final s ir args))) ->
  (forall x, In x args -> ~ In x (members (irs s ir)) ->
     forall y, In y (members (irs s ir)) ->
     forall u, In u (map fst (sub s x)) -> ~ In u (map fst (sub s y))) ->
  Inv (fst (ixor_interleaved s ir args)) /\ snd (ixor_interleaved s ir args) = true /\
  (forall x, In x (members (irs (fst (ixor_interleaved s ir args)) ir))
             <-> In x (members (irs (fst (ixor_twopass s ir args)) ir))) /\
  (forall u, lookup (fst (ixor_interleaved s ir args)) ir u = lookup (fst (ixor_twopass s ir args)) ir u).
Proof.
  intros s ir args HI Hnd Hfin Hextra.
  destruct (ixor_interleaved_full s ir args HI Hnd Hfin Hextra) as (A1 & A2 & A3 & A4 & _).
  destruct (ixor_twopass_full s ir args HI Hnd Hfin) as (B1 & B2 & B3 & B4 & _).
  assert (Hm : forall x, In x (members (irs (fst (ixor_interleaved s ir args)) ir))
                         <-> In x (members (irs (fst (ixor_twopass s ir args)) ir))).
  { intros x. rewrite A4, B4. reflexivity. }
  split; [exact A1|]. split; [exact A2|]. split; [exact Hm|].
  apply exact_lookup_eq.
  - rewrite A3, B3. reflexivity.
  - apply A1.
  - apply B1.
  - exact Hm.
Qed.

(* ... and on every IR, not only the one operated on: no call site can tell the two operators apart *)
Theorem ixor_interleaved_eq_twopass_all_irs : forall s ir args, Inv s ->
  (forall x, In x args -> NoDup (map fst (sub s x))) ->
  NoDup (map fst (flat_map (sub s) (xor_final s ir args))) ->
  (forall x, In x args -> ~ In x (members (irs s ir)) ->
     forall y, In y (members (irs s ir)) ->
     forall u, In u (map fst (sub s x)) -> ~ In u (map fst (sub s y))) ->
  forall ir',
  (forall x, In x (members (irs (fst (ixor_interleaved s ir args)) ir'))
             <-> In x (members (irs (fst (ixor_twopass s ir args)) ir'))) /\
  (forall u, lookup (fst (ixor_interleaved s ir args)) ir' u = lookup (fst (ixor_twopass s ir args)) ir' u).
Proof.
  intros s ir args HI Hnd Hfin Hextra ir'.
  destruct (ixor_interleaved_full s ir args HI Hnd Hfin Hextra) as (A1 & A2 & A3 & A4 & A5).
  destruct (ixor_twopass_full s ir args HI Hnd Hfin) as (B1 & B2 & B3 & B4 & B5).
  assert (Hm : forall x, In x (members (irs (fst (ixor_interleaved s ir args)) ir'))
                         <-> In x (members (irs (fst (ixor_twopass s ir args)) ir'))).
  { intros x. destruct (Z.eq_dec ir' ir) as [->|Hne].
    - rewrite A4, B4. reflexivity.
    - rewrite (A5 ir' x Hne), (B5 ir' x Hne). reflexivity. }
  split; [exact Hm|].
  apply exact_lookup_eq.
  - rewrite A3, B3. reflexivity.
  - apply A1.
  - apply B1.
  - exact Hm.
Qed.

(* ------------------------------------------------------------------ *)
(* 6. the old operator is wrong under the premise of 5                 *)
(* ------------------------------------------------------------------ *)

(* element 1 = an attached node of IR 1, element 2 = its equal-UUID twin in IR 2 (a second load of the same file) *)
Definition subs6 (x : id) : tree :=
  if x =? 1 then [(100, 1); (101, 11)] else if x =? 2 then [(100, 2); (101, 12)] else [].

Definition s6 : st := fst (add (fst (add (st0 subs6) 1 1)) 2 2).

Ltac nodup_tac := repeat (constructor; [cbn; lia|]); constructor.

Lemma inv_s6 : Inv s6.
Proof.
  unfold s6. apply add_inv.
  - apply add_inv.
    + apply inv_st0.
    + vm_compute. nodup_tac.
    + intros y Hy. vm_compute in Hy. contradiction.
  - vm_compute. nodup_tac.
  - intros y Hy. vm_compute in Hy. contradiction.
Qed.

Lemma s6_shape :
  members (irs s6 1) = [1] /\ members (irs s6 2) = [2] /\
  lookup s6 1 100 = Some 1 /\ lookup s6 2 100 = Some 2 /\ snd (add (fst (add (st0 subs6) 1 1)) 2 2) = true.
Proof. vm_compute. repeat split. Qed.

Lemma premises_s6 :
  (forall x, In x [2; 1] -> NoDup (map fst (sub s6 x))) /\
  NoDup (map fst (flat_map (sub s6) (xor_final s6 1 [2; 1]))).
Proof.
  split.
  - intros x [<-|[<-|[]]]; vm_compute; nodup_tac.
  - vm_compute. nodup_tac.
Qed.

Theorem ixor_interleaved_refuted : exists s ir args,
  Inv s /\
  (forall x, In x args -> NoDup (map fst (sub s x))) /\
  NoDup (map fst (flat_map (sub s)
           (filter (fun y => negb (mem y args)) (members (irs s ir)) ++
            filter (fun x => negb (mem x (members (irs s ir)))) (dedup args)))) /\
  ~ exact (fst (ixor_interleaved s ir args)) ir /\
  (* how it shows: no KeyError during the operator, the attached twin is not found, the next detach raises *)
  snd (ixor_interleaved s ir args) = true /\
  members (irs (fst (ixor_interleaved s ir args)) ir) = [2] /\
  In (100, 2) (attached (fst (ixor_interleaved s ir args)) ir) /\
  lookup (fst (ixor_interleaved s ir args)) ir 100 = None /\
  snd (discard (fst (ixor_interleaved s ir args)) ir 2) = false.
Proof.
  exists s6, 1, [2; 1].
  split; [exact inv_s6|]. split; [apply premises_s6|]. split; [apply premises_s6|].
  assert (Hatt : In (100, 2) (attached (fst (ixor_interleaved s6 1 [2; 1])) 1)).
  { vm_compute. left. reflexivity. }
  assert (Hl : lookup (fst (ixor_interleaved s6 1 [2; 1])) 1 100 = None) by (vm_compute; reflexivity).
  split.
  - intros Hex. apply Hex in Hatt. rewrite Hl in Hatt. discriminate.
  - split; [vm_compute; reflexivity|]. split; [vm_compute; reflexivity|].
    split; [exact Hatt|]. split; [exact Hl|]. vm_compute. reflexivity.
Qed.

(* the same state and argument with the repaired operator *)
Example ixor_twopass_same_state_fine :
  Inv (fst (ixor_twopass s6 1 [2; 1])) /\ snd (ixor_twopass s6 1 [2; 1]) = true /\
  members (irs (fst (ixor_twopass s6 1 [2; 1])) 1) = [2] /\
  lookup (fst (ixor_twopass s6 1 [2; 1])) 1 100 = Some 2 /\
  lookup (fst (ixor_twopass s6 1 [2; 1])) 1 101 = Some 12 /\
  snd (discard (fst (ixor_twopass s6 1 [2; 1])) 1 2) = true.
Proof.
  split.
  - apply (ixor_twopass_full s6 1 [2; 1] inv_s6); apply premises_s6.
  - vm_compute. repeat split.
Qed.

(* the other iteration order of the same argument happens to work with the old operator: the defect is order dependent *)
Example ixor_interleaved_other_order_fine :
  snd (ixor_interleaved s6 1 [1; 2]) = true /\
  members (irs (fst (ixor_interleaved s6 1 [1; 2])) 1) = [2] /\
  lookup (fst (ixor_interleaved s6 1 [1; 2])) 1 100 = Some 2 /\
  lookup (fst (ixor_interleaved s6 1 [1; 2])) 1 101 = Some 12.
Proof. vm_compute. repeat split. Qed.

(* ------------------------------------------------------------------ *)
(* 8. histories                                                        *)
(* ------------------------------------------------------------------ *)

(* the per-IR distinctness of the state AFTER the operation, expressed on the state before it *)
Definition premise (s : st) (o : top) : Prop :=
  match o with
  | TAdd ir x =>
      NoDup (map fst (sub s x)) /\
      (forall y, In y (members (irs s ir)) -> y <> x ->
                 forall u, In u (map fst (sub s x)) -> ~ In u (map fst (sub s y)))
  | TDiscard _ _ => True
  | TIxor ir args =>
      (forall x, In x args -> NoDup (map fst (sub s x))) /\
      NoDup (map fst (flat_map (sub s) (xor_final s ir args)))
  end.

Fixpoint run_ok (s : st) (ops : list top) : Prop :=
  match ops with
  | [] => True
  | o :: r => premise s o /\ run_ok (fst (tstep s o)) r
  end.

(* the final state, and the conjunction of all the steps' flags *)
Fixpoint run (s : st) (ops : list top) : st * bool :=
  match ops with
  | [] => (s, true)
  | o :: r => let '(s', ok) := tstep s o in let '(s'', ok') := run s' r in (s'', ok && ok')
  end.

Theorem tstep_inv : forall s o, Inv s -> premise s o -> Inv (fst (tstep s o)) /\ snd (tstep s o) = true.
Proof.
  intros s o HI Hp. destruct o as [ir x|ir x|ir args]; cbn [tstep premise] in *.
  - destruct Hp as [H1 H2]. apply add_inv; assumption.
  - apply discard_inv. exact HI.
  - destruct Hp as [H1 H2]. destruct (ixor_twopass_full s ir args HI H1 H2) as (A & B & _).
    split; assumption.
Qed.

Theorem run_inv : forall ops s, Inv s -> run_ok s ops -> Inv (fst (run s ops)) /\ snd (run s ops) = true.
Proof.
  induction ops as [|o r IH]; intros s HI Hok; cbn [run run_ok] in *.
  - split; [exact HI | reflexivity].
  - destruct Hok as [Hp Hr]. destruct (tstep_inv s o HI Hp) as [HI1 Hok1].
    destruct (IH _ HI1 Hr) as [HI2 Hok2].
    destruct (tstep s o) as [s' ok]. cbn [fst snd] in *.
    destruct (run s' r) as [s'' ok']. cbn [fst snd] in *.
    split; [exact HI2|]. rewrite Hok1, Hok2. reflexivity.
Qed.

(* every single step of the run returned true, and every intermediate state satisfies the invariant *)
Fixpoint all_steps (s : st) (ops : list top) : Prop :=
  match ops with
  | [] => Inv s
  | o :: r => Inv s /\ snd (tstep s o) = true /\ all_steps (fst (tstep s o)) r
  end.

Theorem run_all_steps : forall ops s, Inv s -> run_ok s ops -> all_steps s ops.
Proof.
  induction ops as [|o r IH]; intros s HI Hok; cbn [all_steps run_ok] in *.
  - exact HI.
  - destruct Hok as [Hp Hr]. destruct (tstep_inv s o HI Hp) as [HI1 Hok1].
    split; [exact HI|]. split; [exact Hok1|]. apply IH; assumption.
Qed.

Corollary run_from_st0 : forall subs ops, run_ok (st0 subs) ops ->
  Inv (fst (run (st0 subs) ops)) /\ snd (run (st0 subs) ops) = true.
Proof. intros subs ops H. apply run_inv; [apply inv_st0 | exact H]. Qed.

(* ------------------------------------------------------------------ *)
(* 9. list assignment (ListWrapper.__setitem__ / insert on ir.modules) *)
(* ------------------------------------------------------------------ *)

(* leavers out first (in list order), then the enterers in (in list order; an enterer held by another IR leaves it) *)
Definition assign (s : st) (ir : Z) (new : list id) : st * bool :=
  let old := members (irs s ir) in
  let '(s1, ok1) := fold_ok (fun s x => discard s ir x) (filter (fun x => negb (mem x new)) old) s in
  let '(s2, ok2) := fold_ok (fun s x => add s ir x) (filter (fun x => negb (mem x old)) new) s1 in
  (s2, ok1 && ok2).

Lemma assign_eq : forall s ir new,
  assign s ir new =
  (fst (fold_ok (fun s0 x => add s0 ir x)
          (filter (fun x => negb (mem x (members (irs s ir)))) new)
          (fst (fold_ok (fun s0 x => discard s0 ir x)
                  (filter (fun x => negb (mem x new)) (members (irs s ir))) s))),
   snd (fold_ok (fun s0 x => discard s0 ir x)
          (filter (fun x => negb (mem x new)) (members (irs s ir))) s) &&
   snd (fold_ok (fun s0 x => add s0 ir x)
          (filter (fun x => negb (mem x (members (irs s ir)))) new)
          (fst (fold_ok (fun s0 x => discard s0 ir x)
                  (filter (fun x => negb (mem x new)) (members (irs s ir))) s)))).
Proof.
  intros s ir new. unfold assign. cbv zeta.
  destruct (fold_ok (fun s0 x => discard s0 ir x)
              (filter (fun x => negb (mem x new)) (members (irs s ir))) s) as [s1 ok1].
  cbn [fst snd].
  destruct (fold_ok (fun s0 x => add s0 ir x)
              (filter (fun x => negb (mem x (members (irs s ir)))) new) s1) as [s2 ok2].
  reflexivity.
Qed.

(* distinct UUIDs are inherited by every duplicate-free list drawn from the same elements *)
Lemma nodup_keys_incl : forall (f : id -> tree) (l l' : list id),
  NoDup (map fst (flat_map f l)) -> NoDup l' -> (forall x, In x l' -> In x l) ->
  NoDup (map fst (flat_map f l')).
Proof.
  intros f l l' Hnd. induction l' as [|a l' IH]; intros Hndl Hincl; cbn [flat_map]; [constructor|].
  inversion Hndl as [|a' l'' Hnin Hndl']; subst.
  rewrite map_app. apply nodup_app. split; [|split].
  - apply (nodup_keys_elem f l); [exact Hnd | apply Hincl; left; reflexivity].
  - apply IH; [exact Hndl'|]. intros x Hx. apply Hincl. right. exact Hx.
  - intros u Hu Hin. apply in_keys_flat_map in Hin. destruct Hin as [y [Hy Hyu]].
    apply (keys_disjoint f l a y u Hnd); [apply Hincl; left; reflexivity | apply Hincl; right; exact Hy | | exact Hu | exact Hyu].
    intros ->. exact (Hnin Hy).
Qed.

(* --- the bookkeeping alone (`owned`, who is a member where) needs nothing about UUIDs --- *)

Lemma discard_owned : forall s ir x, owned s -> owned (fst (discard s ir x)).
Proof.
  intros s ir x Hown. destruct (mem x (members (irs s ir))) eqn:E.
  2:{ rewrite discard_nonmember by exact E. exact Hown. }
  rewrite discard_member by exact E. apply mem_spec in E.
  intros y ir'. cbn [fst owner irs].
  destruct (Z.eq_dec y x) as [->|Hyx].
  - rewrite (upd_same _ (owner s)). split; [discriminate|]. intros Hin. exfalso.
    destruct (Z.eq_dec ir' ir) as [->|Hne].
    + rewrite (upd_same _ (irs s)) in Hin. cbn [members] in Hin. apply In_remove_id in Hin.
      destruct Hin as [_ Hc]. apply Hc. reflexivity.
    + rewrite (upd_other _ (irs s) ir _ ir' Hne) in Hin. apply Hown in Hin. apply Hown in E. rewrite E in Hin.
      inversion Hin as [Heq]. apply Hne. symmetry. exact Heq.
  - rewrite (upd_other _ (owner s) x None y Hyx). destruct (Z.eq_dec ir' ir) as [->|Hne].
    + rewrite (upd_same _ (irs s)). cbn [members]. split.
      * intros Ho. apply In_remove_id. split; [apply Hown; exact Ho | exact Hyx].
      * intros Hin. apply In_remove_id in Hin. apply Hown. apply Hin.
    + rewrite (upd_other _ (irs s) ir _ ir' Hne). apply Hown.
Qed.

Lemma pre_owned : forall s x, owned s ->
  owned (fst (pre s x)) /\ owner (fst (pre s x)) x = None /\
  (forall ir y, In y (members (irs (fst (pre s x)) ir)) <-> In y (members (irs s ir)) /\ y <> x).
Proof.
  intros s x Hown. unfold pre. destruct (owner s x) as [o|] eqn:Eo.
  - assert (Hxo : In x (members (irs s o))) by (apply Hown; exact Eo).
    split; [apply discard_owned; exact Hown|]. split.
    + rewrite discard_member by (apply mem_spec; exact Hxo). cbn [fst owner]. apply upd_same.
    + intros ir y. destruct (Z.eq_dec ir o) as [->|Hne]; [apply discard_members|].
      rewrite discard_other_ir_untouched by exact Hne.
      split; [|intros [H _]; exact H]. intros H. split; [exact H|]. intros ->.
      apply Hown in H. rewrite H in Eo. inversion Eo as [Heq]. exact (Hne Heq).
  - cbn [fst]. split; [exact Hown|]. split; [exact Eo|].
    intros ir y. split; [|intros [H _]; exact H]. intros H. split; [exact H|]. intros ->.
    apply Hown in H. rewrite H in Eo. discriminate.
Qed.

Lemma add_core_owned : forall s ir x, owned s -> owner s x = None -> owned (add_core s ir x).
Proof.
  intros s ir x Hown Hox.
  assert (Hsame : irs (add_core s ir x) ir
                  = {| members := x :: remove_id x (members (irs s ir));
                       cache := register (cache (irs s ir)) (sub s x) |}).
  { unfold add_core. cbn [irs]. apply upd_same. }
  assert (Hoth : forall ir', ir' <> ir -> irs (add_core s ir x) ir' = irs s ir').
  { intros ir' Hne. unfold add_core. cbn [irs]. apply upd_other. exact Hne. }
  assert (Hownr : forall y, owner (add_core s ir x) y = if y =? x then Some ir else owner s y) by reflexivity.
  intros y ir'. rewrite Hownr. destruct (Z.eqb_spec y x) as [->|Hyx].
  - destruct (Z.eq_dec ir' ir) as [->|Hne].
    + rewrite Hsame. cbn [members]. split; [intros _; left; reflexivity | reflexivity].
    + rewrite (Hoth ir' Hne). split.
      * intros Heq. inversion Heq as [Heq']. exfalso. apply Hne. symmetry. exact Heq'.
      * intros Hin. apply Hown in Hin. rewrite Hin in Hox. discriminate.
  - destruct (Z.eq_dec ir' ir) as [->|Hne].
    + rewrite Hsame. cbn [members]. split.
      * intros Ho. right. apply In_remove_id. split; [apply Hown; exact Ho | exact Hyx].
      * intros [Heq|Hin]; [exfalso; apply Hyx; symmetry; exact Heq|].
        apply In_remove_id in Hin. apply Hown. apply Hin.
    + rewrite (Hoth ir' Hne). apply Hown.
Qed.

Lemma add_owned : forall s ir x, owned s ->
  owned (fst (add s ir x)) /\
  (forall y, In y (members (irs (fst (add s ir x)) ir)) <-> y = x \/ In y (members (irs s ir))) /\
  (forall ir' y, ir' <> ir ->
     In y (members (irs (fst (add s ir x)) ir')) <-> In y (members (irs s ir')) /\ y <> x).
Proof.
  intros s ir x Hown. rewrite add_eq. cbn [fst].
  destruct (pre_owned s x Hown) as (Hown1 & Hox1 & Hm1).
  split; [apply add_core_owned; assumption|]. split.
  - intros y. unfold add_core. cbn [irs]. rewrite upd_same. cbn [members]. split.
    + intros [Heq|Hin]; [left; symmetry; exact Heq|].
      apply In_remove_id in Hin. destruct Hin as [Hin _]. apply Hm1 in Hin. right. apply Hin.
    + intros [Heq|Hin]; [left; symmetry; exact Heq|].
      destruct (Z.eq_dec y x) as [Heq|Hne]; [left; symmetry; exact Heq|].
      right. apply In_remove_id. split; [|exact Hne]. apply Hm1. split; assumption.
  - intros ir' y Hne. unfold add_core. cbn [irs]. rewrite upd_other by exact Hne. apply Hm1.
Qed.

Lemma fold_discard_owned : forall ir l s, owned s ->
  owned (fst (fold_ok (fun s0 x => discard s0 ir x) l s)) /\
  (forall y, In y (members (irs (fst (fold_ok (fun s0 x => discard s0 ir x) l s)) ir))
             <-> In y (members (irs s ir)) /\ ~ In y l) /\
  (forall ir', ir' <> ir -> irs (fst (fold_ok (fun s0 x => discard s0 ir x) l s)) ir' = irs s ir').
Proof.
  intros ir. induction l as [|x l IH]; intros s Hown.
  - rewrite fold_ok_nil. cbn [fst]. split; [exact Hown|]. split; [|reflexivity].
    intros y. split; [intros H; split; [exact H | intros []] | intros [H _]; exact H].
  - rewrite fold_ok_cons. cbn [fst].
    destruct (IH _ (discard_owned s ir x Hown)) as (Hown2 & Hm2 & Hoth2).
    split; [exact Hown2|].
    split; [|intros ir' Hne; rewrite (Hoth2 ir' Hne); apply discard_other_ir_untouched; exact Hne].
    intros y. split.
    + intros H. apply Hm2 in H. destruct H as [H Hnl]. apply discard_members in H. destruct H as [H Hne].
      split; [exact H|]. intros [Heq|Hin]; [apply Hne; symmetry; exact Heq | exact (Hnl Hin)].
    + intros [H Hnl]. apply Hm2. split.
      * apply discard_members. split; [exact H|]. intros ->. apply Hnl. left. reflexivity.
      * intros Hin. apply Hnl. right. exact Hin.
Qed.

Lemma fold_add_owned : forall ir l s, owned s ->
  owned (fst (fold_ok (fun s0 x => add s0 ir x) l s)) /\
  (forall y, In y (members (irs (fst (fold_ok (fun s0 x => add s0 ir x) l s)) ir))
             <-> In y l \/ In y (members (irs s ir))) /\
  (forall ir' y, ir' <> ir ->
             In y (members (irs (fst (fold_ok (fun s0 x => add s0 ir x) l s)) ir'))
             <-> In y (members (irs s ir')) /\ ~ In y l).
Proof.
  intros ir. induction l as [|x l IH]; intros s Hown.
  - rewrite fold_ok_nil. cbn [fst]. split; [exact Hown|]. split.
    + intros y. split; [intros H; right; exact H | intros [[]|H]; exact H].
    + intros ir' y _. split; [intros H; split; [exact H | intros []] | intros [H _]; exact H].
  - rewrite fold_ok_cons. cbn [fst].
    destruct (add_owned s ir x Hown) as (Hown1 & Hm1 & Hmo1).
    destruct (IH _ Hown1) as (Hown2 & Hm2 & Hmo2).
    split; [exact Hown2|]. split.
    + intros y. split.
      * intros H. apply Hm2 in H. destruct H as [H|H]; [left; right; exact H|].
        apply Hm1 in H. destruct H as [->|H]; [left; left; reflexivity | right; exact H].
      * intros H. apply Hm2. destruct H as [[Heq|H]|H].
        -- right. apply Hm1. left. symmetry. exact Heq.
        -- left. exact H.
        -- right. apply Hm1. right. exact H.
    + intros ir' y Hne. split.
      * intros H. apply (Hmo2 ir' y Hne) in H. destruct H as [H Hn].
        apply (Hmo1 ir' y Hne) in H. destruct H as [H Hyx]. split; [exact H|].
        intros [Heq|Hin]; [apply Hyx; symmetry; exact Heq | exact (Hn Hin)].
      * intros [H Hn]. apply (Hmo2 ir' y Hne). split.
        -- apply (Hmo1 ir' y Hne). split; [exact H|]. intros ->. apply Hn. left. reflexivity.
        -- intros Hin. apply Hn. right. exact Hin.
Qed.

(* who is where after an assignment: no premise about UUIDs (the bookkeeping never looks at the tables) *)
Lemma assign_members : forall s ir new, owned s ->
  owned (fst (assign s ir new)) /\
  (forall x, In x (members (irs (fst (assign s ir new)) ir)) <-> In x new) /\
  (forall ir' y, ir' <> ir ->
     In y (members (irs (fst (assign s ir new)) ir')) <-> In y (members (irs s ir')) /\ ~ In y new).
Proof.
  intros s ir new Hown. rewrite assign_eq. cbn [fst].
  set (L1 := filter (fun x => negb (mem x new)) (members (irs s ir))).
  set (L2 := filter (fun x => negb (mem x (members (irs s ir)))) new).
  destruct (fold_discard_owned ir L1 s Hown) as (Hown1 & Hm1 & Hoth1).
  set (s1 := fst (fold_ok (fun s0 x => discard s0 ir x) L1 s)) in *.
  destruct (fold_add_owned ir L2 s1 Hown1) as (Hown2 & Hm2 & Hmo2).
  assert (HL1 : forall x, In x L1 <-> In x (members (irs s ir)) /\ ~ In x new).
  { intros x. unfold L1. rewrite filter_In, negb_true_iff, mem_false. reflexivity. }
  assert (HL2 : forall x, In x L2 <-> In x new /\ ~ In x (members (irs s ir))).
  { intros x. unfold L2. rewrite filter_In, negb_true_iff, mem_false. reflexivity. }
  split; [exact Hown2|]. split.
  - intros x. split.
    + intros H. apply Hm2 in H. destruct H as [H|H]; [apply HL2 in H; apply H|].
      apply Hm1 in H. destruct H as [H Hn]. destruct (mem x new) eqn:E; [apply mem_spec; exact E|].
      exfalso. apply Hn. apply HL1. split; [exact H | apply mem_false; exact E].
    + intros H. apply Hm2. destruct (mem x (members (irs s ir))) eqn:E.
      * right. apply mem_spec in E. apply Hm1. split; [exact E|]. intros Hl. apply HL1 in Hl.
        destruct Hl as [_ Hl]. exact (Hl H).
      * left. apply HL2. split; [exact H | apply mem_false; exact E].
  - intros ir' y Hne. split.
    + intros H. apply (Hmo2 ir' y Hne) in H. destruct H as [H Hn]. rewrite (Hoth1 ir' Hne) in H.
      split; [exact H|]. intros Ha. apply Hn. apply HL2. split; [exact Ha|].
      intros Hin. apply Hown in H. apply Hown in Hin. rewrite H in Hin. inversion Hin as [Heq]. exact (Hne Heq).
    + intros [H Hn]. apply (Hmo2 ir' y Hne). rewrite (Hoth1 ir' Hne). split; [exact H|].
      intros Hin. apply HL2 in Hin. apply Hn. apply Hin.
Qed.

(* the tables: the only premise is that the members AFTER the assignment carry pairwise distinct UUIDs
   (`NoDup new` is not needed, and nothing is assumed about an enterer's UUIDs versus those of the leavers) *)
Lemma assign_full : forall s ir new, Inv s ->
  NoDup (map fst (flat_map (sub s) new)) ->
  Inv (fst (assign s ir new)) /\ snd (assign s ir new) = true /\ sub (fst (assign s ir new)) = sub s.
Proof.
  intros s ir new HI Hfin. rewrite assign_eq. cbn [fst snd].
  set (L1 := filter (fun x => negb (mem x new)) (members (irs s ir))).
  set (L2 := filter (fun x => negb (mem x (members (irs s ir)))) new).
  destruct (fold_discard_inv ir L1 s HI) as (HI1 & Hok1 & Hsub1 & Hm1 & Hoth1).
  set (s1 := fst (fold_ok (fun s0 x => discard s0 ir x) L1 s)) in *.
  assert (HL2 : forall x, In x L2 -> In x new).
  { intros x Hx. unfold L2 in Hx. apply filter_In in Hx. apply Hx. }
  assert (Hsurv : forall y, In y (members (irs s1 ir)) -> In y new).
  { intros y H. apply Hm1 in H. destruct H as [H Hn]. destruct (mem y new) eqn:E; [apply mem_spec; exact E|].
    exfalso. apply Hn. unfold L1. apply filter_In. split; [exact H|]. rewrite E. reflexivity. }
  destruct (fold_add_inv ir L2 s1 HI1) as (HI2 & Hok2 & Hsub2 & _ & _).
  - intros x Hx. rewrite Hsub1. apply (nodup_keys_elem (sub s) new); [exact Hfin | apply HL2; exact Hx].
  - intros x y u Hx Hy Hne. rewrite Hsub1.
    apply (keys_disjoint (sub s) new x y u Hfin); [apply HL2; exact Hx | | exact Hne].
    destruct Hy as [Hy|Hy]; [apply HL2; exact Hy | apply Hsurv; exact Hy].
  - split; [exact HI2|]. split; [rewrite Hok1, Hok2; reflexivity|]. rewrite Hsub2. exact Hsub1.
Qed.

Theorem assign_inv : forall s ir new, Inv s -> NoDup new ->
  (forall x, In x new -> NoDup (map fst (sub s x))) ->
  NoDup (map fst (flat_map (sub s) new)) ->
  Inv (fst (assign s ir new)) /\ snd (assign s ir new) = true /\
  (forall x, In x (members (irs (fst (assign s ir new)) ir)) <-> In x new).
Proof.
  intros s ir new HI _ _ Hfin.
  destruct (assign_full s ir new HI Hfin) as (H1 & H2 & _).
  destruct (assign_members s ir new (proj1 HI)) as (_ & H3 & _).
  split; [exact H1|]. split; [exact H2 | exact H3].
Qed.

Theorem assign_other_irs : forall s ir ir' new, Inv s -> ir' <> ir ->
  forall y, In y (members (irs (fst (assign s ir new)) ir')) <->
            In y (members (irs s ir')) /\ ~ (In y new /\ ~ In y (members (irs s ir))).
Proof.
  intros s ir ir' new HI Hne y.
  destruct (assign_members s ir new (proj1 HI)) as (_ & _ & H3). rewrite (H3 ir' y Hne). split.
  - intros [H Hn]. split; [exact H|]. intros [Ha _]. exact (Hn Ha).
  - intros [H Hn]. split; [exact H|]. intros Ha. apply Hn. split; [exact Ha|].
    intros Hin. apply (proj1 HI) in H. apply (proj1 HI) in Hin. rewrite H in Hin.
    inversion Hin as [Heq]. exact (Hne Heq).
Qed.

(* the same fact without the redundant clause: another IR loses exactly its elements named by `new` *)
Theorem assign_other_irs_simple : forall s ir ir' new, Inv s -> ir' <> ir ->
  forall y, In y (members (irs (fst (assign s ir new)) ir')) <-> In y (members (irs s ir')) /\ ~ In y new.
Proof.
  intros s ir ir' new HI Hne y.
  destruct (assign_members s ir new (proj1 HI)) as (_ & _ & H3). exact (H3 ir' y Hne).
Qed.

(* ir1.modules[0] = twin: the list item of IR 1 is replaced by its equal-UUID twin held by IR 2 *)
Example assign_twin_s6 :
  Inv (fst (assign s6 1 [2])) /\ snd (assign s6 1 [2]) = true /\
  members (irs (fst (assign s6 1 [2])) 1) = [2] /\
  members (irs (fst (assign s6 1 [2])) 2) = [] /\
  lookup (fst (assign s6 1 [2])) 1 100 = Some 2 /\
  lookup (fst (assign s6 1 [2])) 1 101 = Some 12 /\
  lookup (fst (assign s6 1 [2])) 2 100 = None.
Proof.
  split.
  - apply (assign_inv s6 1 [2] inv_s6).
    + nodup_tac.
    + intros x [<-|[]]. vm_compute. nodup_tac.
    + vm_compute. nodup_tac.
  - vm_compute. repeat split.
Qed.

(* the order of the hooks matters: the twin entering BEFORE its counterpart leaves loses the twin's UUIDs *)
Example assign_enter_first_wrong :
  let s' := fst (discard (fst (add s6 1 2)) 1 1) in
  members (irs s' 1) = [2] /\ lookup s' 1 100 = None /\ snd (discard s' 1 2) = false.
Proof. vm_compute. repeat split. Qed.

Print Assumptions inv_st0.
Print Assumptions discard_inv.
Print Assumptions add_inv.
Print Assumptions add_premise_necessary.
Print Assumptions add_other_ir_untouched.
Print Assumptions add_other_ir_discard.
Print Assumptions discard_other_ir_untouched.
Print Assumptions ixor_twopass_inv.
Print Assumptions ixor_interleaved_refuted.
Print Assumptions ixor_twopass_same_state_fine.
Print Assumptions ixor_interleaved_other_order_fine.
Print Assumptions ixor_interleaved_eq_twopass.
Print Assumptions ixor_interleaved_eq_twopass_all_irs.
Print Assumptions tstep_inv.
Print Assumptions run_inv.
Print Assumptions run_all_steps.
Print Assumptions run_from_st0.
Print Assumptions assign_inv.
Print Assumptions assign_other_irs.
Print Assumptions assign_other_irs_simple.
Print Assumptions assign_members.
Print Assumptions assign_full.
Print Assumptions nodup_keys_incl.
Print Assumptions assign_twin_s6.
Print Assumptions assign_enter_first_wrong.
