(* Invariants of the object-graph state machine (Model/World.v).  Definitions only: the proofs that
   every guarded operation preserves them live in the sibling files, the property theorems in Props/. *)
From Coq Require Import ZArith List Bool.
From V Require Import Result LazyTree World WorldGuard ForestDefs.
Import ListNotations.
Open Scope Z_scope.

(* ---------- C03: the per-IR UUID table ---------- *)

(* the nodes reachable from n through containment *)
Definition reach (w : world) (n : id) : list id := subtree w n.

Definition CacheInv (w : world) : Prop :=
  forall ir, has w ir = true -> kindof w ir = KIR ->
    NoDup (map fst (cache w ir)) /\
    forall u n, dict_get Z.eqb u (cache w ir) = Some n <-> In n (reach w ir) /\ nuuid (getn w n) = u.

(* ---------- C10: symbol indexes ---------- *)

Definition is_sym_of (w : world) (m y : id) : Prop := In y (kids w m) /\ kindof w y = KSym.

Definition SymIx (w : world) : Prop :=
  forall m, has w m = true -> kindof w m = KMod ->
    NoDup (map fst (nix w m)) /\ NoDup (map fst (rix w m)) /\
    (forall nm b, dict_get Z.eqb nm (nix w m) = Some b ->
        b <> [] /\ NoDup b /\ forall y, In y b <-> is_sym_of w m y /\ nname (getn w y) = nm) /\
    (forall nm y, is_sym_of w m y -> nname (getn w y) = nm -> exists b, dict_get Z.eqb nm (nix w m) = Some b) /\
    (forall r b, dict_get Z.eqb r (rix w m) = Some b ->
        b <> [] /\ NoDup b /\ forall y, In y b <-> is_sym_of w m y /\ referent (getn w y) = Some r) /\
    (forall r y, is_sym_of w m y -> referent (getn w y) = Some r -> exists b, dict_get Z.eqb r (rix w m) = Some b).

(* ---------- C12 / C05 / C06: lazily maintained interval indexes ---------- *)

(* two interval lists denote the same set *)
Definition iv_equiv (a b : list iv) : Prop := forall i, iv_mem i a = iv_mem i b.

(* the materialised index, brought up to date by the pending events, is the set of current intervals *)
Definition Sync (t : ltree) (cur : list iv) : Prop :=
  match lindex t with
  | None => True
  | Some idx => NoDup idx /\ iv_equiv (fold_left apply_ev (levents t) idx) cur
  end.

Definition SyncAll (w : world) : Prop := forall n, Sync (tree w n) (cur_ivs w n).

(* sizes and offsets are natural numbers in the API (ValueError / protobuf range otherwise); the guard keeps them so *)
Definition NonNeg (w : world) : Prop := forall n, 0 <= nsize (getn w n) /\ 0 <= noff (getn w n).

(* ---------- C13: the sorted symbolic-expression map ---------- *)

Fixpoint strictly_ascending (l : list Z) : Prop :=
  match l with
  | [] => True
  | x :: l' => match l' with [] => True | y :: _ => x < y end /\ strictly_ascending l'
  end.

Definition SymxSorted (w : world) : Prop := forall bi, strictly_ascending (map fst (symx w bi)).

(* ---------- everything together ---------- *)

Record Inv (w : world) (known : list id) : Prop := {
  inv_forest : Forest w known;
  inv_cache : CacheInv w;
  inv_symix : SymIx w;
  inv_sync : SyncAll w;
  inv_nonneg : NonNeg w;
  inv_sorted : SymxSorted w
}.

(* states reachable by guarded histories, with the nodes created so far *)
Definition reachable_k (w : world) (known : list id) : Prop := exists ops, (w, known) = run_guarded w0 [] ops.
